(* C12: behaviours of the code as it is that the statement excludes or that border it. *)
From Coq Require Import List NArith ZArith Bool.
From VGI Require Import Bytes Layout M_Token L_Token.
Import ListNotations.
Open Scope N_scope.

(* Without the NUL-free side condition on the domain the AAD is NOT injective:
   ("a\0b", "c") and ("a", "b\0c") get the same AAD.  AuthContext does not forbid a NUL in a domain; the property's
   quantifier restricts domains to NUL-free strings, and every authenticator in the repo uses a constant domain. *)
Lemma C12_nul_domain_refuted :
  exists i1 i2, i1 <> i2 /\ compute_aad KCursor i1 = compute_aad KCursor i2 /\ compute_aad KCall i1 = compute_aad KCall i2.
Proof.
  exists (Authd [97;0;98] [99]), (Authd [97] [98;0;99]). split; [discriminate|]. split; vm_compute; reflexivity.
Qed.

(* base64.b64decode(validate=True) ignores the unused low bits of the last character: two different token texts decode
   to the same envelope, so without the canonical check a one-bit modification of a real token is served.
   "YWI=" and "YWJ=" both decode to b"ab". *)
Lemma C12_noncanonical_base64_refuted :
  exists t1 t2 raw, t1 <> t2 /\ decode_token false t1 = Some raw /\ decode_token false t2 = Some raw /\
                    decode_token true t2 = None.
Proof.
  exists [89;87;73;61], [89;87;74;61], [97;98]. split; [discriminate|]. repeat split; vm_compute; reflexivity.
Qed.

(* _CallStateCache._identity is not tagged: the anonymous caller and the authenticated ("", "anonymous") share a
   cache identity.  Harmless for C12 because the cursor token is opened under the (injective) AAD first. *)
Lemma C12_cache_identity_not_injective :
  Anon <> Authd [] [97;110;111;110;121;109;111;117;115] /\
  cache_identity Anon = cache_identity (Authd [] [97;110;111;110;121;109;111;117;115]).
Proof. split; [discriminate|reflexivity]. Qed.

(* On a cache hit the call token is not looked at (property C14's subject, recorded here because the C12 theorem
   about the call token is stated for the cache-miss path): *)
Lemma C12_warm_cache_skips_call_token :
  forall nk ao zd cfg now1 now2 q st cid,
    q_cursor q <> None ->
    (forall t, q_cursor q = Some t -> open_cursor_token nk ao zd cfg now1 (q_ident q) t = Ok (st, cid)) ->
    exchange nk ao zd cfg now1 now2 (fun _ _ => true) q = Served st cid true None.
Proof.
  intros nk ao zd cfg now1 now2 q st cid Hc H. unfold exchange.
  destruct (q_cursor q) as [t|]; [|contradiction]. rewrite (H t eq_refl). reflexivity.
Qed.
