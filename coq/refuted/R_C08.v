(* C08: behaviours of the code that contradict the statement, as witnesses on the faithful models.
   Part 1 -- the dispatch BEFORE fixes/C08-peer-log-metadata-robust.diff ([old_shape]: suppress(JSONDecodeError) only,
             no isinstance(dict) check, Message(..., **extra), unguarded Level(...)).  props/C08.py replays every
             witness against the real client; on a repaired tree they are delivered / ignored.
   Part 2 -- logs lost with a failing stream step / init (unchanged code; finding keys logs-of-failing-step-dropped,
             logs-of-failing-init-dropped). *)
From Coq Require Import List NArith ZArith Bool String.
From VGI Require Import Corr M_Wire M_WireLog.
Import ListNotations.
Open Scope N_scope.

Definition r8_md (l : string) (x : xraw) : peer_md :=
  {| p_has_md := true; p_rows := 0; p_level := Some (s l); p_message := Some (s "hello"); p_extra := x; p_server_id := None; p_request_id := None |}.

Lemma C08_old_reserved_key_refuted :
  forallb (fun k => outcome_eqb (client_dispatch_old (r8_md "INFO" (XJson (JObj [(s k, JStr (s "x"))])))) (Crash (s "TypeError")))
          ["level"; "message"; "self"]%string = true.
Proof. vm_compute. reflexivity. Qed.

Lemma C08_old_non_object_extra_refuted :
  forallb (fun v => outcome_eqb (client_dispatch_old (r8_md "INFO" (XJson v))) (Crash (s "AttributeError")))
          [JArr [JNum (s "1"); JNum (s "2")]; JStr (s "s"); JNull; JNum (s "12"); JBool true] = true
  /\ client_dispatch_old (r8_md "EXCEPTION" (XJson (JArr []))) = Crash (s "AttributeError").
Proof. vm_compute. split; reflexivity. Qed.

Lemma C08_old_unknown_level_refuted :
  forallb (fun l => outcome_eqb (client_dispatch_old (r8_md l XAbsent)) (Crash (s "ValueError"))) ["NOTICE"; "info"; ""]%string = true.
Proof. vm_compute. reflexivity. Qed.

Lemma C08_old_unparseable_extra_refuted :
  client_dispatch_old (r8_md "INFO" (XFail PFValue)) = Crash (s "ValueError")           (* an integer of > 4300 digits *)
  /\ client_dispatch_old (r8_md "INFO" (XFail PFUnicode)) = Crash (s "UnicodeDecodeError")
  /\ client_dispatch_old (r8_md "INFO" (XFail PFRecursion)) = Crash (s "RecursionError")
  /\ client_dispatch_old (r8_md "INFO" (XFail PFJson)) = Deliver INFO (s "hello") [].
Proof. vm_compute. repeat split; reflexivity. Qed.

(* the same inputs on the repaired dispatch *)
Lemma C08_repaired_on_the_witnesses :
  client_dispatch (r8_md "INFO" (XJson (JObj [(s "level", JStr (s "x"))]))) = Deliver INFO (s "hello") [(s "level", JStr (s "x"))]
  /\ client_dispatch (r8_md "INFO" (XJson (JArr []))) = Deliver INFO (s "hello") []
  /\ client_dispatch (r8_md "NOTICE" XAbsent) = Ignore
  /\ client_dispatch (r8_md "EXCEPTION" (XJson (JArr []))) = RaiseRpc None (s "hello").
Proof. vm_compute. repeat split; reflexivity. Qed.

(* ---- Part 2 *)
Definition r8_log (t : string) : logmsg := {| lvl := WARN; text := s t; extra := [] |}.
Definition r8_exn : exn := {| cls := s "ValueError"; emsg := s "boom"; kind := None |}.
Definition r8_cfg : httpcfg := {| cap := None; fsize := fun _ => 100; base := 100 |}.
Definition delivered (m : logmsg) (t : list event) : bool := existsb (event_eqb (ELog m)) t.

(* a stream step logs "about to fail" and raises: the message is part of the emission sequence and reaches no client *)
Definition r8_step_prog : prog := PStream {| ilogs := []; ires := InitOk; hdr := None; steps :=
  [ {| slogs := [r8_log "about to fail"]; emit := None; fin := false; sraise := Some r8_exn |} ] |}.

Lemma C08_failing_step_logs_lost_refuted :
  let sc := SIter false 0 AStop CbRecord in
  legal r8_step_prog sc = true /\ no_exc_logs r8_step_prog = true /\ pipe_reads r8_step_prog sc = true /\ lossless r8_step_prog sc = false
  /\ delivered (r8_log "about to fail") (emitted r8_step_prog sc) = true
  /\ delivered (r8_log "about to fail") (run_pipe r8_step_prog sc) = false
  /\ delivered (r8_log "about to fail") (run_http r8_cfg r8_step_prog sc) = false
  /\ delivered (r8_log "about to fail") (run_pipe r8_step_prog (SExch false 1 AClose CbRecord)) = false
  /\ delivered (r8_log "about to fail") (run_http r8_cfg r8_step_prog (SExch false 1 AClose CbRecord)) = false.
Proof. vm_compute. repeat split; reflexivity. Qed.

Definition r8_init_prog : prog := PStream {| ilogs := [r8_log "opening"]; ires := InitRaise r8_exn; hdr := Some 1%Z; steps := [] |}.

Lemma C08_failing_init_logs_lost_refuted :
  let sc := SIter true 0 AStop CbRecord in
  legal r8_init_prog sc = true /\ no_exc_logs r8_init_prog = true /\ pipe_reads r8_init_prog sc = true /\ lossless r8_init_prog sc = false
  /\ delivered (r8_log "opening") (emitted r8_init_prog sc) = true
  /\ delivered (r8_log "opening") (run_pipe r8_init_prog sc) = false
  /\ delivered (r8_log "opening") (run_http r8_cfg r8_init_prog sc) = false.
Proof. vm_compute. repeat split; reflexivity. Qed.

(* a unary method that logs and raises DOES deliver the message (direct writing): the loss is specific to streams *)
Lemma C08_unary_keeps_logs_of_failing_call :
  let p := PUnary {| ulogs := [r8_log "about to fail"]; ures_of := URaise r8_exn |} in
  delivered (r8_log "about to fail") (run_pipe p (SUnary CbRecord)) = true
  /\ delivered (r8_log "about to fail") (run_http r8_cfg p (SUnary CbRecord)) = true.
Proof. vm_compute. split; reflexivity. Qed.
