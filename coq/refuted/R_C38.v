(* C38, documentation of behaviours at the edge of the statement (none of them is counted as a
   violation by props/C38.py: they lie outside "every retry configuration in a small grid").

   HttpRetryConfig.__post_init__ rejects with `x < 0`; every comparison with NaN is False, so NaN
   passes the validation of backoff_base and backoff_max.  With backoff_max = NaN nothing is clamped:
   min(jittered, nan) = jittered and min(retry_after, nan) = retry_after, so the server-chosen
   Retry-After is slept in full.  (The statement "every wait between 0 and backoff_max" has no
   meaning for a NaN bound; the theorem C38_delay_in_0_backoff_max asks for a numeric bound.) *)
From Coq Require Import List NArith ZArith QArith Bool.
From VGI Require Import M_Retry.
Import ListNotations.

Definition c_nan_max : config :=
  {| max_retries := 1; bbase := FFin 0; bmax := FNaN; retryable := [503%N]; roce := true; respect_ra := true |}.

Lemma nan_backoff_max_passes_validation : cfg_valid c_nan_max = true.
Proof. reflexivity. Qed.

Lemma nan_backoff_max_unclamped_refuted :
  exists c fs, cfg_valid c = true /\
    fl_list_eqb (sleeps (request_with_retry c (fun _ => FFin 0) fs)) [FFin (1000000 # 1)] = true.
Proof. exists c_nan_max, [OResp 503 (RAfloat (FFin (1000000 # 1)))]. split; vm_compute; reflexivity. Qed.

(* a NaN backoff_base makes the wait itself NaN (time.sleep(nan) raises ValueError) *)
Definition c_nan_base : config :=
  {| max_retries := 1; bbase := FNaN; bmax := FFin (30 # 1); retryable := [503%N]; roce := true; respect_ra := true |}.
Lemma nan_backoff_base_gives_nan_wait :
  cfg_valid c_nan_base = true /\
  sleeps (request_with_retry c_nan_base (fun _ => FNaN) [OResp 503 RAabsent]) = [FNaN].
Proof. split; vm_compute; reflexivity. Qed.

(* argument order matters: had the code written max(min(retry_after, backoff_max), delay), a
   `Retry-After: nan` would have produced a NaN wait; as written it is ignored *)
Example swapped_max_would_leak_nan :
  pymax (pymin FNaN (FFin (30 # 1))) (FFin (1 # 2)) = FNaN /\ pymax (FFin (1 # 2)) (pymin FNaN (FFin (30 # 1))) = FFin (1 # 2).
Proof. split; reflexivity. Qed.
