(* C25: behaviours of the source that contradict the statement (or delimit the readings adopted in props/C25.py). *)
From Coq Require Import List NArith ZArith Bool.
From VGI Require Import Bytes Layout M_StickyTok L_StickyTok L_StickyTokServe L_StickyTokHist P_C25.
Import ListNotations.
Open Scope N_scope.

(* a worker whose server id is "wörker", its session token for ("jwt","alice"), session live until 1100 *)
Definition r_wid : list N := [119;246;114;107;101;114].
Definition r_wid_bytes : bytes := [119;195;182;114;107;101;114].
Definition r_alias : list N := [119;65533;65533;114;107;101;114].          (* "w��rker" *)
Definition r_payload : bytes := session_plain 1000 r_wid_bytes ex_sid 1100.
Definition r_tbl : list aead_row := [(ex_key, compute_aad (ident_of ex_alice), ex_nonce, ex_body, r_payload)].
Definition r_texts : list (bytes * list N) := [(r_wid_bytes, r_wid)].     (* what Python's utf-8 decoder answers *)
Definition r_run (codec : sid_codec) (wid : list N) (now : Z) (st : cstep) :=
  run_case r_tbl r_texts codec ((((ex_key, wid), 300000%Z), ex_reg), now, ex_alice, st).

Lemma r_encoding : utf8_encode r_wid = Some r_wid_bytes.
Proof. vm_compute; reflexivity. Qed.

(* with .decode("ascii", errors="replace") the worker refuses the token it minted itself: the owner of a live session,
   on the minting worker, gets session_lost (server_id mismatch) and DELETE answers 200 without closing anything ... *)
Lemma C25_nonascii_worker_rejects_own_token_refuted :
  exists wid now hdr,
    utf8_encode wid = Some r_wid_bytes /\
    run_case r_tbl r_texts AsciiReplace ((((ex_key, wid), 300000%Z), ex_reg), now, ex_alice, SCall (Some hdr) false) = ([1;3;0;0], ex_reg) /\
    run_case r_tbl r_texts AsciiReplace ((((ex_key, wid), 300000%Z), ex_reg), now, ex_alice, SDelete (Some hdr)) = ([2;200;0;0], ex_reg).
Proof. exists r_wid, 1050%Z, ex_txt. vm_compute. repeat split; reflexivity. Qed.

(* ... while with .decode("utf-8", errors="replace") the same presentation is resumed / closed *)
Lemma C25_nonascii_worker_accepts_own_token_utf8 :
  r_run Utf8Replace r_wid 1050 (SCall (Some ex_txt) false) = ([1;0;1;0] ++ ex_sid, ex_reg) /\
  r_run Utf8Replace r_wid 1050 (SDelete (Some ex_txt)) = ([2;204;1;0], []).
Proof. vm_compute. split; reflexivity. Qed.

(* ... and ANOTHER worker (same key) whose server id is the replacement-character image of the first one accepts the
   foreign token when it happens to hold a session with the same id for the same identity (staged in the harness) *)
Lemma C25_alias_worker_accepts_foreign_token_refuted :
  r_wid <> r_alias /\
  r_run AsciiReplace r_alias 1050 (SCall (Some ex_txt) false) = ([1;0;1;0] ++ ex_sid, ex_reg) /\
  r_run Utf8Replace r_alias 1050 (SCall (Some ex_txt) false) = ([1;3;0;0], ex_reg).
Proof. split; [discriminate|]. vm_compute. split; reflexivity. Qed.

(* the AAD and the principal key are plain concatenations: a NUL inside a *domain* makes two identities collide
   (why the theorems carry ident_ok; domains are operator constants) *)
Lemma C25_nul_domain_identities_collide :
  exists i1 i2, i1 <> i2 /\ compute_aad i1 = compute_aad i2 /\ principal_key i1 = principal_key i2.
Proof. exists (Authd [97;0;98] [99]), (Authd [97] [98;0;99]). split; [discriminate|]. split; reflexivity. Qed.

(* _principal_key alone does not separate anonymous from an authenticated ("", "anonymous"); the AAD does *)
Lemma C25_principal_key_untagged :
  principal_key Anon = principal_key (Authd [] (tl anon_tail)) /\ compute_aad Anon <> compute_aad (Authd [] (tl anon_tail)).
Proof. split; [reflexivity|discriminate]. Qed.

(* the armour is lenient: different header texts are the same token (reading adopted in props/C25.py) *)
Lemma C25_header_text_not_unique :
  exists t1 t2, t1 <> t2 /\ decode_text t1 = decode_text t2 /\ decode_text t1 <> None /\ decode_text t1 <> Some [].
Proof. exists [81;81], [32;81;33;82;61;61]. split; [discriminate|]. vm_compute. repeat split; discriminate. Qed.
