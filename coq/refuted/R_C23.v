(* C23: behaviours of the unchanged NonceCache that a STRONGER reading of the statement would exclude.
   They follow from `now = self._clock()` being evaluated before `with self._lock:` -- a call can carry
   a stale reading of the clock into its locked section.  None of them contradicts the reading adopted
   in prop/P_C23.v (window measured against the clock at the locked section), and none is reported as a
   violation; they are kept so the choice of reading is explicit and machine-checked. *)
From Coq Require Import List NArith ZArith Bool.
From VGI Require Import Sched_C23 M_Nonce.
Import ListNotations.
Open Scope N_scope.

(* (1) If "within the window" is judged by the later call's OWN clock reading, an accepted nonce can be
   accepted again: thread 2 reads the clock at 1 (inside the window [0,2) of nonce 7), the clock reaches 2,
   thread 3 sweeps 7 out, and only then thread 2 enters the lock with its stale reading. *)
Lemma C23_own_reading_window_refuted :
  exists cap tl progs sch pre ei mid ek post,
    0 < cap /\
    events (mkCfg cap tl (std_shape true)) progs sch = pre ++ ei :: mid ++ ek :: post /\
    ev_ok ei = true /\ ev_nonce ek = ev_nonce ei /\
    ev_now ek < ev_now ei + tl /\            (* own reading inside the window ...      *)
    count_others (ev_nonce ei) mid < cap /\
    ev_ok ek = true /\                        (* ... and yet accepted                   *)
    ev_now ei + tl <= ev_clk ek.              (* (the clock itself had left the window) *)
Proof.
  exists 2, 2, [[7]; [7]; [9]], [1; 1; 0; 2; 0; 3; 3; 2]%nat.
  exists [], (mkEv 0 7 0 0 true), [mkEv 2 9 2 2 true], (mkEv 1 7 1 2 true), [].
  vm_compute. repeat split; try reflexivity; intro H; discriminate H.
Qed.

(* (2) The class docstring's "insertion order is also expiry order, so expired entries are always a prefix"
   does not hold under interleaving: a call that read the clock early inserts behind a younger entry, and an
   expired entry then survives sweeps (it still counts towards len() and capacity, and keeps being rejected
   -- harmless for replay protection, it only errs towards rejecting). *)
Lemma C23_expiry_order_refuted :
  exists cap tl progs sch,
    let g := fst (nrun (mkCfg cap tl (std_shape true)) progs sch) in
    entries (cach g) = [(9, 12); (8, 4); (5, 13)] /\ clk g = 10.
Proof.
  (* thread 1 reads 0 and stalls; the clock reaches 8; thread 2 inserts 9 (expires 12); thread 1 inserts 8
     with expiry 0+4; at clock 9 thread 3 sweeps with now = 9: entry (8, 4) is expired but not at the front *)
  exists 4, 4, [[8]; [9]; [5]], [1; 0; 0; 0; 0; 0; 0; 0; 0; 2; 2; 1; 0; 3; 3; 0]%nat.
  vm_compute. split; reflexivity.
Qed.

(* (3) GATE LEVEL -- a genuine defect of the code as found (violation key cache-ttl-shorter-than-token-validity):
   proxy_proof_gate built its cache with ttl = skew, but a proof passes the timestamp step for the 2*skew+1
   whole seconds of [ts - skew, ts + skew].  A proof dated ts = 2 (proxy clock ahead by skew = 2) is accepted at
   time 0, forgotten at time 2, and accepted AGAIN at time 2 while it keeps verifying until time 4. *)
Lemma C23_gate_ttl_equal_skew_refuted :
  exists cap skew progs sch pre ei mid ek post (ts w0 : Z),
    0 < cap /\
    events (mkCfg cap (gate_ttl 1 0 skew) (std_shape true)) progs sch = pre ++ ei :: mid ++ ek :: post /\
    ev_ok ei = true /\ ev_nonce ek = ev_nonce ei /\
    ts_ok (Z.of_N skew) ts w0 = true /\ (w0 <= Z.of_N (ev_now ei))%Z /\
    ts_ok (Z.of_N skew) ts (Z.of_N (ev_clk ek)) = true /\
    count_others (ev_nonce ei) mid < cap /\
    ev_ok ek = true.
Proof.
  exists 1, 2, [[7; 7]], [1; 1; 0; 0; 1; 1]%nat.
  exists [], (mkEv 0 7 0 0 true), [], (mkEv 0 7 2 2 true), [], 2%Z, 0%Z.
  vm_compute. repeat split; try reflexivity; intro H; discriminate H.
Qed.

(* (4) ... and ttl = 2*skew is still one second short: the entry expires exactly at ts + skew, the last second at
   which the proof verifies (sweep drops entries with expires_at <= now).  Hence the repair uses 2*skew + 1. *)
Lemma C23_gate_ttl_twice_skew_refuted :
  exists cap skew progs sch pre ei mid ek post (ts w0 : Z),
    0 < cap /\
    events (mkCfg cap (gate_ttl 2 0 skew) (std_shape true)) progs sch = pre ++ ei :: mid ++ ek :: post /\
    ev_ok ei = true /\ ev_nonce ek = ev_nonce ei /\
    ts_ok (Z.of_N skew) ts w0 = true /\ (w0 <= Z.of_N (ev_now ei))%Z /\
    ts_ok (Z.of_N skew) ts (Z.of_N (ev_clk ek)) = true /\
    count_others (ev_nonce ei) mid < cap /\
    ev_ok ek = true.
Proof.
  exists 1, 1, [[7; 7]], [1; 1; 0; 0; 1; 1]%nat.
  exists [], (mkEv 0 7 0 0 true), [], (mkEv 0 7 2 2 true), [], 1%Z, 0%Z.
  vm_compute. repeat split; try reflexivity; intro H; discriminate H.
Qed.
