(* C24: behaviour of require_all before the repair fixes/C24-allow-unproven-anonymous.diff.
   The old closure returned AuthContext(domain=gate.name, authenticated=True, principal=claims.get("proxy"))
   whenever inner was None, so an allow-mode request WITHOUT any proof was handed to the method as
   authenticated, domain "vgi_proxy_proof", principal "".  Kept as documentation of the finding; the
   check replays the same witness against the real code on every run. *)
From Coq Require Import List NArith Bool.
From VGI Require Import M_Gates L_Gates.
Import ListNotations.
Open Scope N_scope.

Definition ra_body_before_repair : list stmt :=
  [ SCallGate;
    SIf CInnerNone [ SRetMk SDGateName true SPClaimsProxy SCGateOnly ];
    SCallInner;
    SRetMerged ].

Lemma C24_old_allow_unproven_authenticated_refuted :
  exists h c log,
    hdr_verifies h = false /\
    require_all_with ra_body_before_repair (proof_gate MAllow h) None = (ROk c, log) /\
    a_auth c = true /\ a_domain c = DGate /\ a_principal c = PEmpty.
Proof.
  exists HAbsent. eexists. eexists. vm_compute. repeat split.
Qed.
Print Assumptions C24_old_allow_unproven_authenticated_refuted.

(* the old body violates the "only if" direction for every unproven header class *)
Lemma C24_old_refuted_all_unproven : forall h,
  hdr_verifies h = false ->
  exists c, fst (require_all_with ra_body_before_repair (proof_gate MAllow h) None) = ROk c /\ a_auth c = true.
Proof.
  intros [| | |[r|]] H; try discriminate; eexists; vm_compute; split; reflexivity.
Qed.
