(* C02: behaviours of the unchanged code (framework + pyarrow 25) that contradict the statement, as witnesses
   on the model; each is replayed against the real implementation by props/C02.py. *)
From Coq Require Import List NArith ZArith Bool.
From VGI Require Import M_Values.
Import ListNotations.
Open Scope Z_scope.

Definition pp := param_path ser_id deser_id.

(* 1. float32 column: the double 0.1 is accepted and arrives as 0.100000001490116...: silently rounded *)
Lemma C02_float32_narrowing_refuted :
  exists b b', pp (TFloat F32) (VFloat b) = Accept (VFloat b') /\ b' <> b /\ has_type (TFloat F32) (VFloat b) = false.
Proof. exists 4591870180066957722%N, 4591870180174331904%N. vm_compute. repeat split; discriminate. Qed.
(* ... and 1e39 arrives as +inf *)
Lemma C02_float32_overflow_refuted : pp (TFloat F32) (VFloat 5183643171103440858%N) = Accept (VFloat 9218868437227405312%N).
Proof. vm_compute. reflexivity. Qed.

(* 2. int column: the float 1.5 is accepted and arrives as 1: silently truncated *)
Lemma C02_fractional_for_int_refuted :
  pp (TInt true 64) (VFloat 4609434218613702656%N) = Accept (VInt 1).
Proof. vm_compute. reflexivity. Qed.

(* 3. timestamp[s]: 1.5 s after the epoch arrives as 1 s; date32: a datetime arrives as its date *)
Lemma C02_temporal_truncation_refuted :
  pp (TTimestamp Us false) (VDatetime 1500000 false) = Accept (VDatetime 1000000 false) /\
  pp (TDuration Ums) (VDelta (-1)) = Accept (VDelta (-1000)) /\
  pp (TTime Us) (VTime 3723456789) = Accept (VTime 3723000000) /\
  pp TDate (VDatetime 86400000001 false) = Accept (VDate 1).
Proof. vm_compute. repeat split; reflexivity. Qed.

(* 4. a tz-aware datetime for a naive column loses its awareness; a naive one for a UTC column gains it *)
Lemma C02_timezone_refuted :
  pp (TTimestamp Uus false) (VDatetime 5 true) = Accept (VDatetime 5 false) /\
  pp (TTimestamp Uus true) (VDatetime 5 false) = Accept (VDatetime 5 true).
Proof. vm_compute. split; reflexivity. Qed.

(* 5. _build_result_schema testing for a dataclass before stripping Optional (opt_first = false):
      a method  -> Dataclass | None  cannot return a dataclass: a well-typed value of a supported
      annotation is refused (the parameter direction accepts it). *)
Lemma C02_optional_dataclass_result_refuted :
  supported (TOpt TData) = true /\ has_type (TOpt TData) (VData [1%N]) = true /\
  param_path ser_id deser_id (TOpt TData) (VData [1%N]) = Accept (VData [1%N]) /\
  result_path ser_id deser_id false (TOpt TData) (VData [1%N]) = Reject /\
  echo ser_id deser_id false (TOpt TData) (VData [1%N]) = Reject.
Proof. vm_compute. repeat split; reflexivity. Qed.

(* 6. outside the statement's enumerated types (why `supported` stops at containers of plain elements):
      list[dict[str, int]] arrives as a list of lists of pairs; list[Enum] refuses every member *)
Lemma C02_list_of_dict_changed :
  echo ser_id deser_id true (TList (TMap TStr (TInt true 64))) (VList [VDict [(VStr [97%N], VInt 1)]])
  = Accept (VList [VList [VTuple [VStr [97%N]; VInt 1]]]).
Proof. vm_compute. reflexivity. Qed.
Lemma C02_list_of_enum_refused :
  echo ser_id deser_id true (TList (TEnum [[82;69;68]%N])) (VList [VEnum [82;69;68]%N]) = Reject.
Proof. vm_compute. reflexivity. Qed.

(* 7. (repaired in the source, e0af9e7; kept as the record of the OLD shape of _is_optional_type, which did not look
      through Annotated.)  With the old test, Annotated[X | None, meta] is not optional: None is refused, and
      _deserialize_value is left with the Union and converts nothing back, so an Enum member arrives as its name and a
      dict as a list of pairs.  The model now follows the repaired shape (M_Values.is_opt; tie/T_Values.v demands
      gen_opt_through_ann = true), under which P_C02.ex_spellings shows the same inputs echoed exactly. *)
Definition is_opt_old (t : ty) : ty * bool := match t with TOpt t' => (t', true) | _ => (t, false) end.
Definition param_path_old (t : ty) (v : value) : outcome :=
  let '(inner, nullable) := is_opt_old t in
  let a := if is_data (unwrap_ann inner) then ABin else infer inner in
  if is_none v && negb nullable then Reject
  else bind (arrow_rt a (convert_for_arrow ser_id v)) (fun x =>
         if is_none x then (if nullable then Accept VNone else Reject)
         else match unwrap_ann inner with                         (* _deserialize_value on the old inner type *)
              | TEnum names => match x with VStr s => if name_in s names then Accept (VEnum s) else Reject | _ => Reject end
              | TMap _ _ => match x with VList l => match dict_of_pairs [] l with Some d => Accept (VDict d) | None => Reject end | _ => Accept x end
              | _ => Accept x
              end).
Lemma C02_optional_inside_annotated_old_shape_refuted :
  let e := TEnum [[82;69;68]%N] in
  param_path_old (TAnn (TOpt e)) (VEnum [82;69;68]%N) = Accept (VStr [82;69;68]%N) /\
  param_path_old (TAnn (TOpt e)) VNone = Reject /\
  param_path_old (TAnn (TOpt (TMap TStr (TInt true 64)))) (VDict [(VStr [97%N], VInt 1)]) = Accept (VList [VTuple [VStr [97%N]; VInt 1]]) /\
  (* the repaired shape *)
  pp (TAnn (TOpt e)) (VEnum [82;69;68]%N) = Accept (VEnum [82;69;68]%N) /\ pp (TAnn (TOpt e)) VNone = Accept VNone.
Proof. vm_compute. repeat split; reflexivity. Qed.
