(* C02: behaviours of the unchanged code (framework + pyarrow 25) that contradict the statement, as witnesses
   on the model; each is replayed against the real implementation by props/C02.py. *)
From Coq Require Import List NArith ZArith Bool.
From VGI Require Import M_Values.
Import ListNotations.
Open Scope Z_scope.

Definition pp := param_path ser_id deser_id.

(* 1. float32 column: the double 0.1 is accepted and arrives as 0.100000001490116...: silently rounded *)
Lemma C02_float32_narrowing_refuted :
  exists b b', pp (TFloat F32) (VFloat b) = Accept (VFloat b') /\ b' <> b /\ has_type (TFloat F32) (VFloat b) = false.
Proof. exists 4591870180066957722%N, 4591870180174331904%N. vm_compute. repeat split; discriminate. Qed.
(* ... and 1e39 arrives as +inf *)
Lemma C02_float32_overflow_refuted : pp (TFloat F32) (VFloat 5183643171103440858%N) = Accept (VFloat 9218868437227405312%N).
Proof. vm_compute. reflexivity. Qed.

(* 2. int column: the float 1.5 is accepted and arrives as 1: silently truncated *)
Lemma C02_fractional_for_int_refuted :
  pp (TInt true 64) (VFloat 4609434218613702656%N) = Accept (VInt 1).
Proof. vm_compute. reflexivity. Qed.

(* 3. timestamp[s]: 1.5 s after the epoch arrives as 1 s; date32: a datetime arrives as its date *)
Lemma C02_temporal_truncation_refuted :
  pp (TTimestamp Us false) (VDatetime 1500000 false) = Accept (VDatetime 1000000 false) /\
  pp (TDuration Ums) (VDelta (-1)) = Accept (VDelta (-1000)) /\
  pp (TTime Us) (VTime 3723456789) = Accept (VTime 3723000000) /\
  pp TDate (VDatetime 86400000001 false) = Accept (VDate 1).
Proof. vm_compute. repeat split; reflexivity. Qed.

(* 4. a tz-aware datetime for a naive column loses its awareness; a naive one for a UTC column gains it *)
Lemma C02_timezone_refuted :
  pp (TTimestamp Uus false) (VDatetime 5 true) = Accept (VDatetime 5 false) /\
  pp (TTimestamp Uus true) (VDatetime 5 false) = Accept (VDatetime 5 true).
Proof. vm_compute. split; reflexivity. Qed.

(* 5. _build_result_schema testing for a dataclass before stripping Optional (opt_first = false):
      a method  -> Dataclass | None  cannot return a dataclass: a well-typed value of a supported
      annotation is refused (the parameter direction accepts it). *)
Lemma C02_optional_dataclass_result_refuted :
  supported (TOpt TData) = true /\ has_type (TOpt TData) (VData [1%N]) = true /\
  param_path ser_id deser_id (TOpt TData) (VData [1%N]) = Accept (VData [1%N]) /\
  result_path ser_id deser_id false (TOpt TData) (VData [1%N]) = Reject /\
  echo ser_id deser_id false (TOpt TData) (VData [1%N]) = Reject.
Proof. vm_compute. repeat split; reflexivity. Qed.

(* 6. outside the statement's enumerated types (why `supported` stops at containers of plain elements):
      list[dict[str, int]] arrives as a list of lists of pairs; list[Enum] refuses every member *)
Lemma C02_list_of_dict_changed :
  echo ser_id deser_id true (TList (TMap TStr (TInt true 64))) (VList [VDict [(VStr [97%N], VInt 1)]])
  = Accept (VList [VList [VTuple [VStr [97%N]; VInt 1]]]).
Proof. vm_compute. reflexivity. Qed.
Lemma C02_list_of_enum_refused :
  echo ser_id deser_id true (TList (TEnum [[82;69;68]%N])) (VList [VEnum [82;69;68]%N]) = Reject.
Proof. vm_compute. reflexivity. Qed.

(* 7. the optional marker INSIDE an Annotated wrapper,  Annotated[X | None, meta]:  _is_optional_type does not look
      through Annotated, so the parameter is not optional (None is refused) and _deserialize_value, which strips
      Optional first and Annotated second, is left with the Union and converts nothing back: an Enum member
      arrives as its name, a dict as a list of pairs.  (Annotated[X, meta] | None is handled: P_C02.ex_spellings.) *)
Lemma C02_optional_inside_annotated_refuted :
  let e := TEnum [[82;69;68]%N] in
  has_type (TAnn (TOpt e)) (VEnum [82;69;68]%N) = true /\
  pp (TAnn (TOpt e)) (VEnum [82;69;68]%N) = Accept (VStr [82;69;68]%N) /\
  has_type (TAnn (TOpt e)) VNone = true /\
  pp (TAnn (TOpt e)) VNone = Reject /\
  pp (TAnn (TOpt (TMap TStr (TInt true 64)))) (VDict [(VStr [97%N], VInt 1)]) = Accept (VList [VTuple [VStr [97%N]; VInt 1]]) /\
  supported (TAnn (TOpt e)) = false.
Proof. vm_compute. repeat split; reflexivity. Qed.
