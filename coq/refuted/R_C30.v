(* C30: behaviours of the unchanged code that the property text does not allow (or that a reader may not expect),
   as theorems about the faithful model.  Witnesses by computation. *)
From Coq Require Import List NArith Bool.
From VGI Require Import Corr M_ExtStore L_ExtStore L_ExtStoreTransp.
Import ListNotations.
Open Scope N_scope.

Definition r_log (l m : bytes) : batch := mkBatch 0 0 [] (Some [(K_LEVEL, l); (K_MSG, m)]).
Definition r_data (v : N) : batch := mkBatch 0 2 [v; v] None.
Definition r_url : bytes := [117].
Definition r_info : bytes := [73; 78; 70; 79].

(* 1. NOT transparent: a collector cycle that emits its data batch and then an EXCEPTION-level client log.
      Inline the client is handed the batch and then the error; externalised (faithful store, correct digest) the
      whole cycle sits in the external object, _fetch_and_resolve raises on the EXCEPTION batch before returning,
      and the data batch is never delivered. *)
Theorem C30_exception_after_data_refuted :
  exists (cyc : list batch) (h : bytes),
    Forall (fun b => b_schema b = 0 /\ has_loc b = false) cyc /\ datas cyc = [r_data 5] /\
    exc_after_data false cyc = true /\
    let fetch := fun (_ : bytes) (_ : nat) => FData (mkView h (map IBatch cyc)) in
    let res := fun b => resolve_with true 2 true b fetch in
    drain res cyc = ([(r_info, [97])], [r_data 5], Some ERpc) /\
    drain res [pointer 0 r_url (Some h)] = ([(r_info, [97])], [], Some ERpc).
Proof.
  exists [r_log r_info [97]; r_data 5; r_log L_EXCEPTION [98]], [1].
  repeat split; try reflexivity. repeat constructor.
Qed.

(* 2. a client-uploaded request pointer (_build_pointer_request_body) carries no digest: a substituted object of
      the same schema with one data batch is delivered to the server method *)
Theorem C30_request_pointer_unpinned :
  exists (req other : batch) (h : bytes),
    other <> req /\ mget K_SHA (match b_meta (fst (request_pointer req r_url)) with Some m => m | None => [] end) = None /\
    resolve true 2 false (fst (request_pointer req r_url)) [FData (mkView h [IBatch other])] =
      ([], ODeliver (resolved other r_url)).
Proof.
  exists (mkBatch 3 1 [1] (Some [([109], [102])])), (mkBatch 3 1 [2] (Some [([109], [102])])), [9].
  split; [discriminate|]. split; reflexivity.
Qed.

(* 3. log batches that precede the point of rejection are dispatched to on_log although the payload is refused,
      and once per attempt when the failure is retryable (a truncated stream, no digest on the pointer) *)
Theorem C30_logs_before_rejection_dispatched :
  resolve true 2 true (pointer 0 r_url None)
          [FData (mkView [] [IBatch (r_log r_info [97]); IBatch (r_data 1); IBatch (r_data 2)])] =
    ([(r_info, [97])], OFail EMulti) /\
  resolve true 2 true (pointer 0 r_url None) [FData (mkView [] [IBatch (r_log r_info [97]); IBad])] =
    ([(r_info, [97]); (r_info, [97]); (r_info, [97])], OFail EExhausted).
Proof. split; reflexivity. Qed.
