(* R_C34: what the unrepaired source shape (old_shape) does -- each lemma contradicts the C34 statement and is
   replayed against the real code by props/C34.py (violation keys in brackets). *)
From Coq Require Import List NArith ZArith Bool String.
From VGI Require Import Regex M_Wire M_AccessLog L_AccessLog P_C34.
Import ListNotations.

Definition old_http : cfg := {| tr := Http; debug := false; shp := old_shape |}.
Definition old_sock : cfg := {| tr := Sock; debug := false; shp := old_shape |}.
Definition raise_empty : unary_prog := {| ulogs := []; ures_of := URaise {| cls := s "ValueError"; emsg := []; kind := None |} |}.

(* [schema-invalid:error-record-without-error_message]  raise ValueError(): status=error, no error_message, on both
   transport families; the record fails rule 1 of the schema *)
Lemma C34_old_empty_message_schema_invalid :
  exists c q e, In e (emissions c q []) /\ outcome c q <> None /\
    rec_str (s "error_message") (emit_record c ex_env e) = None /\
    validate model_schema (emit_record c ex_env e) = false.
Proof.
  exists old_http, (QUnary raise_empty None). eexists. split; [left; reflexivity|]. split; [discriminate|]. split; vm_compute; reflexivity.
Qed.
Lemma C34_old_empty_message_schema_invalid_sock :
  exists e, In e (emissions old_sock (QUnary raise_empty None) []) /\ validate model_schema (emit_record old_sock ex_env e) = false.
Proof. eexists. split; [left; reflexivity|]. vm_compute; reflexivity. Qed.

(* [error-message-truncated-on-http]  a 501-character message: the HTTP record keeps 500 characters, the socket record all *)
Definition long_msg : str := repeat 120%N 501.
Definition raise_long : unary_prog := {| ulogs := []; ures_of := URaise {| cls := s "ValueError"; emsg := long_msg; kind := None |} |}.
Lemma C34_old_http_message_truncated :
  exists e m, In e (emissions old_http (QUnary raise_long None) []) /\
    rec_str (s "error_message") (emit_record old_http ex_env e) = Some m /\ List.length m = 500%nat /\ m <> long_msg /\
  exists e' , In e' (emissions old_sock (QUnary raise_long None) []) /\
    rec_str (s "error_message") (emit_record old_sock ex_env e') = Some long_msg.
Proof.
  eexists. eexists. split; [left; reflexivity|]. split; [vm_compute; reflexivity|]. split; [vm_compute; reflexivity|].
  split; [vm_compute; discriminate|]. eexists. split; [left; reflexivity|]. vm_compute; reflexivity.
Qed.

(* [schema-invalid:sentinel-form-of-stream-record-without-stream_id]  a stream record that the size cap turns into
   the sentinel form loses stream_id, which the schema requires on every method_type=stream record *)
Lemma C34_old_sentinel_stream_invalid :
  exists e, In e (emissions old_http (QInit true false ex_sp [0%nat] {| xcls := []; xmsg := [] |}) (s "0123456789abcdef0123456789abcdef")) /\
    validate model_schema (emit_record old_http ex_env e) = true /\
    validate model_schema (format old_shape ShedSentinel (emit_record old_http ex_env e)) = false /\
    rec_str (s "stream_id") (format old_shape ShedSentinel (emit_record old_http ex_env e)) = None.
Proof. eexists. split; [left; reflexivity|]. repeat split; vm_compute; reflexivity. Qed.

(* [status-ok-but-client-got-error:exception-left-http-dispatch-shell-unrecorded]  an init method that returns something
   that is not a Stream: the client is answered 500, the record says status=ok, http_status=200 *)
Definition bad_sp : stream_prog := {| ilogs := []; ires := InitBadReturn; hdr := None; steps := [] |}.
Definition bad_fault : exc := {| xcls := s "AttributeError"; xmsg := s "'int' object has no attribute 'call_state'" |}.
Lemma C34_old_escape_logged_ok :
  exists e, In e (emissions old_http (QInit true false bad_sp [] bad_fault) (s "0123456789abcdef0123456789abcdef")) /\
    outcome old_http (QInit true false bad_sp [] bad_fault) = Some bad_fault /\
    rec_status (emit_record old_http ex_env e) = Some (s "ok") /\
    get (s "http_status") (emit_record old_http ex_env e) = Some (JInt 200).
Proof. eexists. split; [left; reflexivity|]. repeat split; vm_compute; reflexivity. Qed.

(* [timestamp-not-schema-valid]  not the current source: rendering the NEAREST millisecond with the same ":03d" and no
   carry (round(dt.microsecond / 1000)) yields four fractional digits from .9995 s on, which the pattern refuses *)
Lemma C34_nearest_millisecond_timestamp_invalid :
  render_ts_with false (s "2026-04-26T15:30:45") 999500 = s "2026-04-26T15:30:45.1000Z" /\
  field_ok P (s "timestamp", JStr (render_ts_with false (s "2026-04-26T15:30:45") 999500)) = false /\
  field_ok P (s "timestamp", JStr (render_ts (s "2026-04-26T15:30:45") 999500)) = true.
Proof. repeat split; vm_compute; reflexivity. Qed.
