(* C06: behaviour of the code before the validation steps were reordered (conversion of values ran first).
   A request whose columns do not conform (w: int64 instead of int32) and whose dataclass bytes
   fail batch validation (conversion fails with IPCError, a class outside the 400 list) was answered 200 + X-VGI-RPC-Error instead of 400.
   The same request under the order shape -> nullness -> values is a 400 (second lemma). *)
From Coq Require Import List NArith Bool.
From VGI Require Import Corr M_Validate L_Validate.
Import ListNotations.
Open Scope N_scope.

Definition old_order : list stage := [SDeser; SSig; SParams].
Definition old_cfg : cfg := {|
  c_order_sock := old_order; c_order_unary := old_order; c_order_init := old_order;
  c_pre := c_pre std_cfg; c_fchecks := c_fchecks std_cfg; c_dbranches := c_dbranches std_cfg;
  c_conv := c_conv std_cfg; c_400 := c_400 std_cfg; c_schema_resolved := true; c_other_status := 500; c_marker_status := 500 |}.

Definition r_v : str := [118].
Definition r_w : str := [119].
Definition r_d : str := [100].
Definition r_mi : minfo := {|
  mi_name := r_d;
  mi_types := [(r_v, {| pt_optional := false; pt_kind := KDataclass |}); (r_w, {| pt_optional := false; pt_kind := KPlain |})];
  mi_defaults := [];
  mi_schema := [{| f_name := r_v; f_type := 0; f_null := false |}; {| f_name := r_w; f_type := 1; f_null := false |}];
  mi_stream := false |}.
Definition ipc_error := mk_exn cIPCError [cIPCError; cException].
Definition r_blob : pyval :=
  {| v_bytes := true; v_str := false; v_list := false; v_enum := None; v_dc := Some ipc_error; v_dict := None; v_fset := None |}.
Definition r_int : pyval :=
  {| v_bytes := false; v_str := false; v_list := false; v_enum := None; v_dc := None; v_dict := None; v_fset := None |}.
(* column w arrives as type tag 2 (int64) instead of the declared tag 1 (int32) *)
Definition r_req : request := {|
  q_method := MKName r_d; q_version := VOk; q_rows := 1; q_inline := None;
  q_cols := [({| f_name := r_v; f_type := 0; f_null := false |}, CVal r_blob);
             ({| f_name := r_w; f_type := 2; f_null := false |}, CVal r_int)] |}.

Lemma r_wf : wf_table [r_mi].
Proof. intros mi [<-|[]]. split; [reflexivity|]. simpl. repeat constructor; simpl; intuition discriminate. Qed.

Lemma r_nonconforming : ~ statement_conforming r_mi r_req r_d.
Proof. intros [_ [H _]]. unfold schema_conforms in H. simpl in H. discriminate. Qed.

Lemma C06_old_order_nonconforming_request_not_400_refuted :
  exists ms impl url q mi, wf_table ms /\ find_method url ms = Some mi /\ ~ statement_conforming mi q url /\
    o_invoked (http_call old_cfg ms impl (mi_stream mi) url q) = false /\
    o_status (http_call old_cfg ms impl (mi_stream mi) url q) = 200 /\
    o_marker (http_call old_cfg ms impl (mi_stream mi) url q) = true.
Proof.
  exists [r_mi], (fun _ _ => BOk), r_d, r_req, r_mi.
  split; [exact r_wf|]. split; [reflexivity|]. split; [exact r_nonconforming|].
  repeat split; vm_compute; reflexivity.
Qed.

Lemma C06_new_order_same_request_400 :
  o_status (http_call std_cfg [r_mi] (fun _ _ => BOk) false r_d r_req) = 400 /\
  o_reason (http_call std_cfg [r_mi] (fun _ _ => BOk) false r_d r_req) = RType 1.
Proof. split; vm_compute; reflexivity. Qed.

(* A configuration that records the request schema BEFORE shared-memory pointer resolution: a pointer batch with the
   declared schema lets a retyped resolved batch reach the method. *)
Definition early_schema_cfg : cfg := {|
  c_order_sock := std_order; c_order_unary := std_order; c_order_init := std_order;
  c_pre := c_pre std_cfg; c_fchecks := c_fchecks std_cfg; c_dbranches := c_dbranches std_cfg;
  c_conv := c_conv std_cfg; c_400 := c_400 std_cfg; c_schema_resolved := false; c_other_status := 500; c_marker_status := 500 |}.
Definition r_good_blob : pyval :=
  {| v_bytes := true; v_str := false; v_list := false; v_enum := None; v_dc := None; v_dict := None; v_fset := None |}.
Definition r_shm_req : request := {|
  q_method := MKName r_d; q_version := VOk; q_rows := 1; q_inline := Some (mi_schema r_mi);
  q_cols := [({| f_name := r_v; f_type := 0; f_null := false |}, CVal r_good_blob);
             ({| f_name := r_w; f_type := 2; f_null := false |}, CVal r_int)] |}.
Lemma C06_schema_before_resolution_invokes_nonconforming_refuted :
  ~ schema_conforms r_mi r_shm_req /\
  o_invoked (serve_one early_schema_cfg [r_mi] (fun _ _ => BOk) r_shm_req) = true /\
  o_invoked (serve_one std_cfg [r_mi] (fun _ _ => BOk) r_shm_req) = false.
Proof.
  split; [intro H; unfold schema_conforms in H; simpl in H; discriminate|]. split; vm_compute; reflexivity.
Qed.
