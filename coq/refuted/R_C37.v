From VGI Require Import M_Url.
