(* C37: behaviours of the UNREPAIRED validators that contradict the statement (kept as documentation of the defect;
   *_old = the validators without the two guards), and a note on ports. *)
From Coq Require Import List NArith Bool.
From VGI Require Import Bytes Layout Utf8 M_Url.
Import ListNotations.
Open Scope N_scope.

Definition cupola : str := [99; 117; 112; 111; 108; 97; 46; 113; 117; 101; 114; 121; 45; 102; 97; 114; 109; 46; 115; 101; 114; 118; 105; 99; 101; 115].
Definition evil : str := [101; 118; 105; 108; 46; 99; 111; 109].            (* evil.com *)
Definition default_allowed : list str := [s_https ++ s_css ++ cupola].

(* https://evil.com\@cupola.query-farm.services/x  and  http://evil.com\@localhost/ : accepted by the old validator, and
   the Location built from them (token in the fragment) belongs to evil.com for a browser *)
Lemma C37_return_to_safe_refuted :
  exists u params,
    validate_return_to_old (fun _ => true) default_allowed u = Accept /\
    whatwg_origin s_https (location_of u params) = OTuple s_https (HDomain evil) None /\
  exists u2,
    validate_return_to_old (fun _ => true) default_allowed u2 = Accept /\
    whatwg_origin s_https (location_of u2 params) = OTuple s_http (HDomain evil) None.
Proof.
  exists (s_https ++ s_css ++ evil ++ [92; 64] ++ cupola ++ [47; 120]), [116; 111; 107; 101; 110; 61; 116].
  split; [vm_compute; reflexivity|]. split; [vm_compute; reflexivity|].
  exists (s_http ++ s_css ++ evil ++ [92; 64] ++ s_localhost ++ [47]).
  split; vm_compute; reflexivity.
Qed.

(* "/\evil.com", "\\evil.com" (prefix ""), "///evil.com": returned unchanged by the old validator, evil.com for a browser *)
Lemma C37_original_same_origin_refuted :
  forall u, In u [[47; 92] ++ evil; [92; 92] ++ evil; [47; 47; 47] ++ evil; [47; 9; 47; 47] ++ evil] ->
    validate_original_url_old (fun _ => true) [] u = POk u /\
    whatwg_origin s_https u = OTuple s_https (HDomain evil) None.
Proof.
  intros u H. cbn [In] in H. destruct H as [H|[H|[H|[H|[]]]]]; subst u; split; vm_compute; reflexivity.
Qed.

(* Not alarmed on (reading of "allowlisted origin" adopted from the code's docstring): the port of an allowlisted host
   is not compared when the entry has none -- https://cupola.query-farm.services:8443/ is accepted (also by the
   repaired validator) although its origin, port included, is not the listed one. *)
Lemma C37_port_of_allowlisted_host_not_checked :
  validate_return_to (fun _ => true) default_allowed (s_https ++ s_css ++ cupola ++ [58; 56; 52; 52; 51; 47]) = Accept /\
  whatwg_origin s_https (s_https ++ s_css ++ cupola ++ [58; 56; 52; 52; 51; 47]) = OTuple s_https (HDomain cupola) (Some 8443).
Proof. split; vm_compute; reflexivity. Qed.
