(* R_C01: behaviours of the UNCHANGED code (as modelled in M_Wire, each replayed on the real code by props/C01.py,
   WITNESSES) where the client observation differs between the socket family and HTTP although the call script is
   legal.  Each lemma is the complement of one side condition of prop/P_C01.v. *)
From Coq Require Import List NArith ZArith Bool String.
From VGI Require Import Corr M_Wire.
Import ListNotations.
Open Scope N_scope.

Definition cfg_of (c : option N) : httpcfg := {| cap := c; fsize := fun _ => 100; base := 100 |}.
Definition b1 : batch := {| rows := 1; tag := 0; meta := [] |}.
Definition boom : exn := {| cls := s "ValueError"; emsg := s "boom"; kind := None |}.
Definition st_ok (ls : list logmsg) : step := {| slogs := ls; emit := Some b1; fin := false; sraise := None |}.
Definition st_raise : step := {| slogs := []; emit := None; fin := false; sraise := Some boom |}.
Definition sp_of (i : init_res) (sts : list step) : prog := PStream {| ilogs := []; ires := i; hdr := Some 0%Z; steps := sts |}.
Definition lg (l : level) (t : string) : logmsg := {| lvl := l; text := s t; extra := [] |}.

Definition differs (c : option N) (p : prog) (sc : script) : Prop :=
  legal p sc = true /\ proj_eqb (run_pipe p sc) (run_http (cfg_of c) p sc) = false.

(* NOT a finding -- documents the adopted reading (DESIGN Appendix E): max_response_bytes is a documented hard cap for
   unary and exchange results (C16); the theorems carry the premise [fits] *)
Lemma C01_http_hard_cap_refuted : exists c p sc, differs c p sc /\ fits (cfg_of c) p sc = false.
Proof. exists (Some 1), (PUnary {| ulogs := []; ures_of := UOk 1 |}), (SUnary CbRecord). vm_compute. repeat split; reflexivity. Qed.

(* an error inside the first HTTP response (cap large enough for two steps) discards the batches queued before it;
   on a header method it also hides the header, for every cap *)
Lemma C01_http_first_turn_error_refuted : exists c p sc, differs c p sc /\ first_turn_ok (cfg_of c) p sc = false /\ complete sc = true.
Proof. exists (Some 10000000), (sp_of InitOk [st_ok []; st_raise]), (SIter false 0 AStop CbRecord). vm_compute. repeat split; reflexivity. Qed.

Lemma C01_http_first_turn_error_hides_header_refuted : exists p sc, differs None p sc /\ first_turn_ok (cfg_of None) p sc = false /\ complete sc = true.
Proof. exists (sp_of InitOk [st_raise]), (SIter true 0 AStop CbRecord). vm_compute. repeat split; reflexivity. Qed.

(* HTTP runs the first producer turn inside /init: a client that exits early still sees that turn's logs (and errors) *)
Lemma C01_http_runs_ahead_refuted : exists p sc, differs None p sc /\ complete sc = false.
Proof. exists (sp_of InitOk [st_ok [lg INFO "s0"]]), (SIter false 0 AClose CbRecord). vm_compute. repeat split; reflexivity. Qed.

(* socket family, method without header: an init error is only seen by the first read; close() swallows it *)
Lemma C01_socket_init_error_unobserved_refuted : exists p sc, differs None p sc /\ pipe_reads p sc = false.
Proof. exists (sp_of (InitRaise boom) []), (SIter false 0 AClose CbRecord). vm_compute. repeat split; reflexivity. Qed.

(* socket family: after an EXCEPTION-level log, exchange()/tick() call close(), whose drain still delivers the logs
   queued behind it before the RpcError reaches the caller; HTTP drains without dispatching *)
Lemma C01_close_drain_after_exception_log_refuted : exists p sc, differs None p sc /\ no_exc_logs p = false.
Proof. exists (sp_of InitOk [st_ok [lg EXC "x"; lg WARN "late"]]), (SExch false 1 AClose CbRecord). vm_compute. repeat split; reflexivity. Qed.
