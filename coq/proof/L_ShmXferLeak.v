(* Proofs about model/M_ShmXfer.v, part 2: who holds the outstanding pointers (an abstract interpretation of the
   micro-operations over sets of owners), region accounting, no leak, no reuse. *)
From Coq Require Import List NArith ZArith Bool Lia Sorted.
From VGI Require Import M_Alloc L_Alloc M_ShmXfer L_ShmXfer.
Import ListNotations.
Open Scope N_scope.

(* ------------------------------------------------------------------ *)
(** * Sets of owners                                                   *)
(* ------------------------------------------------------------------ *)

Definition oset := owner -> bool.

Definition astep (A : oset) (op : mop) : oset :=
  match op with
  | MSend d _ _ => fun x => owner_eqb x d || A x
  | MFree o => fun x => negb (owner_eqb x o) && A x
  | MFreeHeld _ => A
  | MRetag o o' => fun x => (negb (owner_eqb x o) && A x) || (owner_eqb x o' && A o)
  end.

Definition arun (A : oset) (ops : list mop) : oset := fold_left astep ops A.

Definition sound (A : oset) (s : st) : Prop := forall r, In r (x_refs s) -> A (r_own r) = true.
Definition subset (A B : oset) : Prop := forall x, A x = true -> B x = true.

Lemma free_owned_refs : forall o rs t,
  snd (fst (free_owned o t rs)) = filter (fun r => negb (owner_eqb (r_own r) o)) rs.
Proof.
  intros o rs. induction rs as [|r rest IH]; intros t; cbn [free_owned filter]; [reflexivity |].
  destruct (owner_eqb (r_own r) o); cbn [negb].
  - destruct (free1 t (r_off r)) as [t1 e1]. specialize (IH t1).
    destruct (free_owned o t1 rest) as [[t2 rs2] e2]. cbn [fst snd] in *. exact IH.
  - specialize (IH t). destruct (free_owned o t rest) as [[t2 rs2] e2]. cbn [fst snd] in *. rewrite IH. reflexivity.
Qed.

Lemma free_held_refs : forall rs i t x, In x (snd (fst (free_held i t rs))) -> In x rs.
Proof.
  intros rs. induction rs as [|r rest IH]; intros i t x; cbn [free_held]; [intros H; exact H |].
  destruct (owner_eqb (r_own r) OHeld).
  - destruct i as [|j].
    + destruct (free1 t (r_off r)) as [t1 e1]. cbn [fst snd]. intros H; right; exact H.
    + specialize (IH j t x). destruct (free_held j t rest) as [[t2 rs2] e2]. cbn [fst snd] in *.
      intros [H | H]; [left; exact H | right; apply IH; exact H].
  - specialize (IH i t x). destruct (free_held i t rest) as [[t2 rs2] e2]. cbn [fst snd] in *.
    intros [H | H]; [left; exact H | right; apply IH; exact H].
Qed.

Lemma astep_sound : forall c A s op, sound A s -> sound (astep A op) (fst (mstep c s op)).
Proof.
  intros c A s op HS. destruct op as [dst b deliver | o | i | o o']; cbn [mstep astep].
  - destruct (maybe_write c (x_tbl s) (x_mem s) b) as [[t' m'] it]. destruct it as [id | off len]; cbn [fst x_refs]; intros r Hr.
    + rewrite (HS r Hr). apply orb_true_r.
    + destruct Hr as [Hr | Hr]; [subst r; cbn [r_own]; rewrite owner_eqb_refl; reflexivity | rewrite (HS r Hr); apply orb_true_r].
  - pose proof (free_owned_refs o (x_refs s) (x_tbl s)) as E.
    destruct (free_owned o (x_tbl s) (x_refs s)) as [[t' rs'] e]. cbn [fst snd x_refs] in *. subst rs'.
    intros r Hr. apply filter_In in Hr. destruct Hr as (Hr & Hn). rewrite Hn, (HS r Hr). reflexivity.
  - pose proof (free_held_refs (x_refs s) i (x_tbl s)) as E.
    destruct (free_held i (x_tbl s) (x_refs s)) as [[t' rs'] e]. cbn [fst snd x_refs] in *.
    intros r Hr. apply HS. apply E. exact Hr.
  - cbn [fst x_refs]. intros r Hr. apply in_map_iff in Hr. destruct Hr as (y & Hy & Hin). subst r.
    unfold retag. destruct (owner_eqb (r_own y) o) eqn:Eo.
    + cbn [r_own]. apply owner_eqb_eq in Eo. rewrite <- Eo, (HS y Hin), owner_eqb_refl. apply orb_true_r.
    + rewrite Eo, (HS y Hin). reflexivity.
Qed.

Lemma arun_sound : forall c ops A s, sound A s -> sound (arun A ops) (fst (mrun c s ops)).
Proof.
  intros c ops. induction ops as [|op r IH]; intros A s HS; cbn [arun fold_left mrun]; [exact HS |].
  pose proof (astep_sound c A s op HS) as H1. destruct (mstep c s op) as [s1 e1]. cbn [fst] in H1.
  specialize (IH _ _ H1). unfold arun in IH. destruct (mrun c s1 r) as [s2 e2]. cbn [fst] in *. exact IH.
Qed.

Lemma astep_mono : forall A B op, subset A B -> subset (astep A op) (astep B op).
Proof.
  intros A B op H x. destruct op as [dst b deliver | o | i | o o']; cbn [astep].
  - intros E. apply orb_true_iff in E. apply orb_true_iff. destruct E as [E | E]; [left; exact E | right; apply H; exact E].
  - intros E. apply andb_true_iff in E. destruct E as (E1 & E2). rewrite E1, (H x E2). reflexivity.
  - apply H.
  - intros E. apply orb_true_iff in E. apply orb_true_iff. destruct E as [E | E]; apply andb_true_iff in E; destruct E as (E1 & E2).
    + left. rewrite E1, (H x E2). reflexivity.
    + right. rewrite E1, (H o E2). reflexivity.
Qed.

Lemma arun_mono : forall ops A B, subset A B -> subset (arun A ops) (arun B ops).
Proof.
  intros ops. induction ops as [|op r IH]; intros A B H; cbn [arun fold_left]; [exact H |].
  apply IH. apply astep_mono. exact H.
Qed.

Lemma arun_app : forall A a b, arun A (a ++ b) = arun (arun A a) b.
Proof. intros A a b. unfold arun. apply fold_left_app. Qed.

Definition A_held : oset := fun x => match x with OHeld => true | _ => false end.
Definition A_hs : oset := fun x => match x with OHeld | OSrvIn => true | _ => false end.

(* ------------------------------------------------------------------ *)
(** * Completed calls hand every pointer back, except what the caller holds *)
(* ------------------------------------------------------------------ *)

Definition step_ok (f : flags) (s : sstep) : Prop :=
  (f_coerce f = true \/ sstep_bad_input s = false) /\ (f_sdrain f = true \/ sstep_exclog_data s = false).

(* a call is covered when, for each of the three hand-over sites, either the source has the releasing shape
   or the call does not go through that site *)
Definition call_ok (f : flags) (c : call) : Prop :=
  (f_coerce f = true \/ call_has sstep_bad_input c = false) /\
  (f_sdrain f = true \/ call_has sstep_exclog_data c = false) /\
  (f_udrain f = true \/ call_unary_exclog c = false).

Ltac absurd_or H := try (destruct H as [H | H]; discriminate H).

Lemma sstep_closed : forall f s, step_ok f s -> subset (arun A_hs (fst (compile_sstep f s))) A_hs.
Proof.
  intros [f1 f2 f3] s [H1 H2] x.
  unfold compile_sstep, sstep_bad_input, sstep_exclog_data, discard in *. cbn [f_coerce f_sdrain f_udrain] in *.
  destruct (ss_in s) as [bi|]; destruct (ss_bad s); destruct (ss_out s) as [bo | |]; destruct (ss_exclog s);
    destruct (ss_rel s); destruct f1; destruct f2; cbn [andb] in H1, H2; absurd_or H1; absurd_or H2;
    destruct x; cbn; intros E; try reflexivity; try discriminate E.
Qed.

Lemma steps_closed : forall f steps, Forall (step_ok f) steps ->
  forall A, subset A A_hs -> subset (arun A (compile_steps f steps)) A_hs.
Proof.
  intros f steps. induction steps as [|s r IH]; intros H A HA; cbn [compile_steps]; [exact HA |].
  inversion H as [|? ? H1 H2]; subst.
  pose proof (sstep_closed f s H1) as C. destruct (compile_sstep f s) as [ops cont]. cbn [fst] in C.
  rewrite arun_app.
  assert (S1 : subset (arun A ops) A_hs).
  { intros x E. apply C. apply (arun_mono ops A A_hs HA). exact E. }
  destruct cont; [apply IH; assumption | exact S1].
Qed.

Lemma existsb_false_Forall : forall (A : Type) (p : A -> bool) l, existsb p l = false -> Forall (fun x => p x = false) l.
Proof.
  intros A p l. induction l as [|x r IH]; cbn [existsb]; intros H; [constructor |].
  apply orb_false_iff in H. destruct H as (H1 & H2). constructor; [exact H1 | apply IH; exact H2].
Qed.

Lemma call_closed : forall f c, call_ok f c -> subset (arun A_held (compile f c)) A_held.
Proof.
  intros f c (H1 & H2 & H3). destruct c as [req exclog res | steps | i].
  - destruct f as [f1 f2 f3]. cbn [f_udrain call_unary_exclog] in H3. cbn [compile f_udrain]. unfold discard.
    intros x. destruct req as [br|]; destruct exclog; destruct res as [bs|]; destruct f3; absurd_or H3;
      destruct x; cbn; intros E; try reflexivity; try discriminate E.
  - cbn [compile]. rewrite arun_app. cbn [arun fold_left astep]. intros x E.
    apply andb_true_iff in E. destruct E as (E1 & E2).
    assert (HS : Forall (step_ok f) steps).
    { cbn [call_has] in H1, H2. apply Forall_forall. intros s Hs. split.
      - destruct H1 as [H1 | H1]; [left; exact H1 | right].
        exact (proj1 (Forall_forall _ _) (existsb_false_Forall _ _ _ H1) s Hs).
      - destruct H2 as [H2 | H2]; [left; exact H2 | right].
        exact (proj1 (Forall_forall _ _) (existsb_false_Forall _ _ _ H2) s Hs). }
    assert (S0 : subset A_held A_hs) by (intros y; destruct y; cbn; intros Q; try reflexivity; discriminate Q).
    pose proof (steps_closed f steps HS A_held S0 x E2) as E3.
    destruct x; cbn in *; try reflexivity; discriminate.
  - cbn [compile arun fold_left astep]. intros x E; exact E.
Qed.

Lemma history_closed : forall f h, Forall (call_ok f) h -> subset (arun A_held (flat_map (compile f) h)) A_held.
Proof.
  intros f h. induction h as [|c r IH]; intros H; cbn [flat_map]; [intros x E; exact E |].
  inversion H as [|? ? H1 H2]; subst. rewrite arun_app. intros x E.
  apply (IH H2). apply (arun_mono _ _ A_held (call_closed f c H1)). exact E.
Qed.

Lemma sound_init : forall A, sound A init.
Proof. intros A r []. Qed.

Lemma held_only : forall c f h, Forall (call_ok f) h ->
  forall r, In r (x_refs (fst (run c f h))) -> r_own r = OHeld.
Proof.
  intros c f h H r Hr. unfold run in Hr.
  pose proof (arun_sound c (flat_map (compile f) h) A_held init (sound_init _) r Hr) as E.
  apply (history_closed f h H) in E. destruct (r_own r); cbn in E; try discriminate E. reflexivity.
Qed.

(* ------------------------------------------------------------------ *)
(** * Region accounting                                                *)
(* ------------------------------------------------------------------ *)

Lemma sorted_nodup : forall t, sorted_by_offset t -> NoDup (map fst t).
Proof.
  intros t H. induction H as [|a r Hs IH Hall]; cbn [map]; constructor; [| exact IH].
  intros Hin. apply in_map_iff in Hin. destruct Hin as (b & Hb & Hin).
  pose proof (proj1 (Forall_forall _ _) Hall b Hin) as Hlt. cbn in Hlt. lia.
Qed.

(* live entries are exactly the outstanding pointers *)
Lemma accounting : forall total s, SInv total s ->
  (forall o, (exists l, In (o, l) (x_tbl s)) <-> In o (map r_off (x_refs s))) /\
  NoDup (map r_off (x_refs s)) /\
  length (x_tbl s) = length (x_refs s).
Proof.
  intros total s ((HI & HF & HN & HC) & _).
  assert (Hback : forall o, In o (map r_off (x_refs s)) -> exists l, In (o, l) (x_tbl s)).
  { intros o Ho. apply in_map_iff in Ho. destruct Ho as (r & Hr & Hin). subst o.
    destruct (proj1 (Forall_forall _ _) HF r Hin) as (_ & (nd & X & _) & _). exists nd; exact X. }
  split; [| split; [exact HN |]].
  - intros o. split; [intros [l Hl]; exact (HC o l Hl) | apply Hback].
  - destruct HI as (Hc & _).
    pose proof (sorted_nodup _ (chain_sorted _ _ _ Hc)) as HNt.
    assert (L1 : (length (map fst (x_tbl s)) <= length (map r_off (x_refs s)))%nat).
    { apply NoDup_incl_length; [exact HNt |]. intros o Ho. apply in_map_iff in Ho.
      destruct Ho as ([o1 l1] & E & Hin). cbn [fst] in E. subst o1. exact (HC o l1 Hin). }
    assert (L2 : (length (map r_off (x_refs s)) <= length (map fst (x_tbl s)))%nat).
    { apply NoDup_incl_length; [exact HN |]. intros o Ho. destruct (Hback o Ho) as (l & Hl).
      apply in_map_iff. exists (o, l). split; [reflexivity | exact Hl]. }
    rewrite !map_length in L1, L2. apply Nat.le_antisymm; assumption.
Qed.

(* a new allocation stays clear of every outstanding pointer, and the write leaves their bytes alone *)
Lemma fresh_is_clear : forall c s b t' m' off len,
  SInv (c_total c) s -> wf_batch b ->
  maybe_write c (x_tbl s) (x_mem s) b = (t', m', Ptr off len) ->
  forall r, In r (x_refs s) ->
    (off + b_need b <= r_off r \/ r_off r + r_len r <= off) /\
    (forall a, r_off r <= a < r_off r + r_len r -> m' a = r_id r).
Proof.
  intros c s b t' m' off len ((HI & HF & HN & HC) & _) Hwf Hm r Hr.
  destruct (maybe_write_spec _ _ _ _ _ _ _ HI Hwf Hm) as (_ & B & (_ & _ & _ & C3 & _ & _)).
  pose proof (proj1 (Forall_forall _ _) HF r Hr) as Hok.
  destruct (ref_region_in_entry _ _ _ Hok) as (e & Hein & _ & Hreg).
  destruct Hok as (X1 & (nd & X2 & X3) & X4).
  split.
  - destruct C3 as (_ & _ & C3). destruct (C3 _ _ X2) as [L | R]; [left; exact L | right; lia].
  - intros a Ha. rewrite (B e a Hein (Hreg a Ha)). apply X4; exact Ha.
Qed.

(* ------------------------------------------------------------------ *)
(** * No leak                                                          *)
(* ------------------------------------------------------------------ *)

Lemma no_refs_no_entries : forall total s, SInv total s -> x_refs s = [] -> x_tbl s = [].
Proof.
  intros total s ((_ & _ & _ & HC) & _) E. destruct (x_tbl s) as [|[o l] t]; [reflexivity |].
  specialize (HC o l (or_introl eq_refl)). rewrite E in HC. destruct HC.
Qed.

Lemma release_all_empty : forall c s,
  SInv (c_total c) s -> (forall r, In r (x_refs s) -> r_own r = OHeld) ->
  x_tbl (release_all c s) = [] /\ x_err (release_all c s) = 0.
Proof.
  intros c s HS Hheld. unfold release_all.
  destruct (mstep_ok c s (MFree OHeld) HS I) as (A & _).
  assert (Snd : sound A_held s) by (intros r Hr; rewrite (Hheld r Hr); reflexivity).
  pose proof (astep_sound c A_held s (MFree OHeld) Snd) as S2.
  assert (E : x_refs (fst (mstep c s (MFree OHeld))) = []).
  { destruct (x_refs (fst (mstep c s (MFree OHeld)))) as [|r q] eqn:Er; [reflexivity |].
    unfold sound in S2. rewrite Er in S2.
    specialize (S2 r (or_introl eq_refl)). cbn [astep] in S2. destruct (r_own r); cbn in S2; discriminate S2. }
  split; [exact (no_refs_no_entries _ _ A E) | exact (proj2 A)].
Qed.
