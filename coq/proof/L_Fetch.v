(* C31: lemmas about the request sequence, the body readers and _compute_ranges of model/M_Fetch.v *)
From Coq Require Import List ZArith NArith Bool Lia.
From VGI Require Import M_Fetch.
Import ListNotations.
Open Scope Z_scope.

Lemma len_app {A} (a b : list A) : len (a ++ b) = len a + len b.
Proof. unfold len. rewrite app_length. lia. Qed.
Lemma len_nonneg {A} (a : list A) : 0 <= len a.
Proof. unfold len. lia. Qed.
Lemma len_nil {A} : len (@nil A) = 0.
Proof. reflexivity. Qed.
Lemma len_cons {A} (x : A) l : len (x :: l) = 1 + len l.
Proof. unfold len. simpl length. lia. Qed.

(* ------------------------------------------------------------------ *)
(* _request_following_redirects                                        *)
(* ------------------------------------------------------------------ *)
Section FollowFacts.
  Variable valid : N -> bool.
  Variable maxr : N.

  Lemma follow_contacted_valid : forall hops count cur,
    Forall (fun u => valid u = true) (contacted_of (follow valid maxr count cur hops)).
  Proof.
    induction hops as [|r rest IH]; intros count cur; simpl.
    - destruct (valid cur) eqn:V; simpl; auto.
    - destruct (valid cur) eqn:V; simpl; auto.
      destruct (r_fault r); simpl; auto.
      destruct (is_redirect (r_status r)); simpl; auto.
      destruct (maxr <=? count)%N; simpl; auto.
      destruct (r_loc r) as [| |u]; simpl; auto.
      specialize (IH (count + 1)%N u).
      destruct (follow valid maxr (count + 1)%N u rest); simpl in *; auto.
  Qed.

  (* the sequence issues at most (max_redirects - count) + 1 requests: at most max_redirects redirects are followed *)
  Lemma follow_contacted_length : forall hops count cur,
    (count <= maxr)%N ->
    (N.of_nat (length (contacted_of (follow valid maxr count cur hops))) + count <= maxr + 1)%N.
  Proof.
    induction hops as [|r rest IH]; intros count cur Hc; cbn [follow].
    - destruct (valid cur); cbn [negb contacted_of length]; lia.
    - destruct (valid cur); cbn [negb contacted_of length]; [|lia].
      destruct (r_fault r); cbn [contacted_of length]; try lia.
      destruct (is_redirect (r_status r)); cbn [contacted_of length]; try lia.
      destruct (maxr <=? count)%N eqn:E; cbn [contacted_of length]; try lia.
      apply N.leb_gt in E.
      destruct (r_loc r) as [| |u]; cbn [contacted_of length]; try lia.
      assert (Hc' : (count + 1 <= maxr)%N) by lia.
      specialize (IH (count + 1)%N u Hc').
      destruct (follow valid maxr (count + 1)%N u rest); cbn [contacted_of length] in *; lia.
  Qed.

  (* the final response of a successful sequence is not a redirect and the URL it came from was validated *)
  Lemma follow_ok_not_redirect : forall hops count cur r tr,
    follow valid maxr count cur hops = FOk r tr -> is_redirect (r_status r) = false /\ r_fault r = NoFault.
  Proof.
    induction hops as [|h rest IH]; intros count cur r tr; simpl.
    - destruct (valid cur); discriminate.
    - destruct (valid cur); simpl; [|discriminate].
      destruct (r_fault h) eqn:F; simpl; try discriminate.
      destruct (is_redirect (r_status h)) eqn:R; simpl.
      + destruct (maxr <=? count)%N; try discriminate.
        destruct (r_loc h) as [| |u]; try discriminate.
        destruct (follow valid maxr (count + 1)%N u rest) eqn:E; try discriminate.
        intros H; inversion H; subst. eapply IH; eauto.
      + intros H; inversion H; subst. auto.
  Qed.
End FollowFacts.

(* ------------------------------------------------------------------ *)
(* _read_response_body                                                 *)
(* ------------------------------------------------------------------ *)
Lemma read_single_bound : forall K maxf units berr total acc,
  0 <= K -> Forall (fun u => len u <= K) units -> total <= maxf ->
  snd (read_single maxf total acc units berr) <= maxf + K.
Proof.
  intros K maxf units berr. induction units as [|u us IH]; intros total acc HK HF Ht; simpl.
  - destruct berr; simpl; lia.
  - inversion HF as [|? ? Hu HF']; subst.
    destruct (maxf <? total + len u) eqn:E; simpl.
    + lia.
    + apply Z.ltb_ge in E. apply IH; auto.
Qed.

Lemma read_single_ok : forall maxf units berr total acc d n,
  read_single maxf total acc units berr = (ROk d, n) ->
  berr = false /\ d = acc ++ concat units /\ n = total + len (concat units) /\ n <= Z.max total maxf.
Proof.
  intros maxf units berr. induction units as [|u us IH]; intros total acc d n; simpl.
  - destruct berr; intros H; inversion H; subst. rewrite app_nil_r. repeat split; auto; try lia. rewrite len_nil; lia.
  - destruct (maxf <? total + len u) eqn:E; [discriminate|].
    apply Z.ltb_ge in E. intros H. apply IH in H as (Hb & Hd & Hn & Hm).
    repeat split; auto.
    + rewrite Hd, app_assoc. reflexivity.
    + rewrite Hn, len_app. lia.
    + lia.
Qed.

(* iter_chunked: pieces are at most n long and concatenate to the unit *)
Lemma firstn_len_le {A} (k : nat) (l : list A) : len (firstn k l) <= Z.of_nat k.
Proof. unfold len. pose proof (firstn_le_length k l). lia. Qed.

Lemma pieces_bound : forall fuel k u, Forall (fun p => len p <= Z.of_nat k) (pieces fuel k u).
Proof.
  induction fuel as [|f IH]; intros k u; simpl; auto.
  destruct u as [|x r]; auto. constructor; [apply firstn_len_le | apply IH].
Qed.

Lemma pieces_concat : forall fuel k u, (1 <= k)%nat -> (length u <= fuel)%nat -> concat (pieces fuel k u) = u.
Proof.
  induction fuel as [|f IH]; intros k u Hk Hl.
  - destruct u; simpl in *; [reflexivity | lia].
  - destruct u as [|x r]; [reflexivity|].
    cbn [pieces concat]. rewrite IH; auto.
    + apply firstn_skipn.
    + rewrite skipn_length. simpl length in *. lia.
Qed.

Lemma iter_chunked_bound : forall n units, 0 <= n -> Forall (fun p => len p <= n) (iter_chunked n units).
Proof.
  intros n units Hn. unfold iter_chunked. induction units as [|u us IH]; simpl; auto.
  apply Forall_app; split; auto.
  pose proof (pieces_bound (length u) (Z.to_nat n) u) as H.
  rewrite Z2Nat.id in H by lia. exact H.
Qed.

Lemma iter_chunked_concat : forall n units, 1 <= n -> concat (iter_chunked n units) = concat units.
Proof.
  intros n units Hn. unfold iter_chunked. induction units as [|u us IH]; simpl; auto.
  rewrite concat_app, IH, pieces_concat; auto; lia.
Qed.

(* ------------------------------------------------------------------ *)
(* _read_range_response_body                                           *)
(* ------------------------------------------------------------------ *)
Lemma read_size_bounds : forall expd maxf total,
  total <= Z.min expd maxf -> 1 <= read_size expd maxf total <= Z.min expd maxf - total + 1.
Proof. intros. unfold read_size, io_chunk. lia. Qed.

Lemma read_unit_spec : forall fuel expd maxf total acc u,
  (length u <= fuel)%nat -> 0 <= total <= Z.min expd maxf ->
  match read_unit fuel expd maxf total acc u with
  | UCont t a => a = acc ++ u /\ t = total + len u /\ t <= Z.min expd maxf
  | UErr e t => total <= t <= Z.min expd maxf + 1 /\ (e = ERangeExceeded \/ e = ERangeMismatch)
  end.
Proof.
  induction fuel as [|f IH]; intros expd maxf total acc u Hl Ht.
  - destruct u; simpl in *; [|lia]. rewrite app_nil_r, len_nil. repeat split; lia.
  - destruct u as [|x r].
    + simpl. rewrite app_nil_r, len_nil. repeat split; lia.
    + cbn [read_unit].
      pose proof (read_size_bounds expd maxf total (proj2 Ht)) as [Hk1 Hk2].
      set (k := Z.to_nat (read_size expd maxf total)) in *.
      assert (Hk : (1 <= k)%nat) by (unfold k; lia).
      assert (Hp : len (firstn k (x :: r)) <= read_size expd maxf total).
      { pose proof (firstn_len_le k (x :: r)). unfold k in *. lia. }
      assert (Hp0 : 0 <= len (firstn k (x :: r))) by apply len_nonneg.
      destruct (maxf <? total + len (firstn k (x :: r))) eqn:E1.
      { split; [lia | auto]. }
      apply Z.ltb_ge in E1.
      destruct (expd <? total + len (firstn k (x :: r))) eqn:E2.
      { split; [lia | auto]. }
      apply Z.ltb_ge in E2.
      specialize (IH expd maxf (total + len (firstn k (x :: r))) (acc ++ firstn k (x :: r)) (skipn k (x :: r))).
      assert (Hl' : (length (skipn k (x :: r)) <= f)%nat).
      { rewrite skipn_length. simpl length in *. lia. }
      specialize (IH Hl' ltac:(lia)).
      destruct (read_unit f expd maxf (total + len (firstn k (x :: r))) (acc ++ firstn k (x :: r)) (skipn k (x :: r))) as [t a|e t].
      * destruct IH as (Ha & Htt & Hle). repeat split; auto.
        -- rewrite Ha, <- app_assoc, firstn_skipn. reflexivity.
        -- rewrite Htt. rewrite <- (firstn_skipn k (x :: r)) at 3. rewrite len_app. lia.
      * destruct IH as (Hr & He). split; [lia | auto].
Qed.

Lemma read_range_spec : forall units expd maxf berr total acc,
  0 <= total <= Z.min expd maxf ->
  let '(r, n) := read_range expd maxf total acc units berr in
  total <= n <= Z.min expd maxf + 1 /\
  match r with
  | ROk d => berr = false /\ d = acc ++ concat units /\ n = expd /\ n = total + len (concat units)
  | RErr _ => True
  end.
Proof.
  induction units as [|u us IH]; intros expd maxf berr total acc Ht.
  - simpl. destruct berr; simpl; [split; [lia|auto]|].
    destruct (total =? expd) eqn:E; simpl; (split; [lia|auto]).
    apply Z.eqb_eq in E. rewrite app_nil_r, len_nil. repeat split; auto; lia.
  - cbn [read_range].
    pose proof (read_unit_spec (length u) expd maxf total acc u (le_n _) Ht) as HU.
    destruct (read_unit (length u) expd maxf total acc u) as [t a|e t].
    + destruct HU as (Ha & Htt & Hle).
      specialize (IH expd maxf berr t a ltac:(pose proof (len_nonneg u); lia)).
      destruct (read_range expd maxf t a us berr) as [r n].
      destruct IH as (Hn & Hr). split; [pose proof (len_nonneg u); lia|].
      destruct r as [d|]; auto.
      destruct Hr as (Hb & Hd & Hne & Hnl). repeat split; auto.
      * rewrite Hd, Ha. simpl concat. rewrite app_assoc. reflexivity.
      * simpl concat. rewrite len_app. lia.
    + destruct HU as (Hr & _). split; [lia | auto].
Qed.

(* closed form used by the statements: bytes taken and exactness of one range response *)
Lemma read_range_taken : forall units expd maxf berr,
  0 <= expd -> 0 <= maxf ->
  0 <= snd (read_range expd maxf 0 [] units berr) <= Z.min expd maxf + 1.
Proof.
  intros units expd maxf berr He Hm.
  pose proof (read_range_spec units expd maxf berr 0 [] ltac:(lia)) as H.
  destruct (read_range expd maxf 0 [] units berr) as [r n]. simpl. lia.
Qed.

Lemma read_range_ok : forall units expd maxf berr d n,
  0 <= expd -> 0 <= maxf ->
  read_range expd maxf 0 [] units berr = (ROk d, n) ->
  berr = false /\ d = concat units /\ len d = expd /\ n = expd.
Proof.
  intros units expd maxf berr d n He Hm E.
  pose proof (read_range_spec units expd maxf berr 0 [] ltac:(lia)) as H.
  rewrite E in H. destruct H as (_ & Hb & Hd & Hn & Hl). simpl in Hd. subst d.
  repeat split; auto; lia.
Qed.

(* ------------------------------------------------------------------ *)
(* _compute_ranges                                                     *)
(* ------------------------------------------------------------------ *)
(* rs is a chain of non-empty inclusive ranges that starts at lo and ends just before hi *)
Fixpoint covers (lo hi : Z) (rs : list (Z * Z)) : Prop :=
  match rs with
  | [] => lo = hi
  | (s, e) :: r => s = lo /\ s <= e /\ covers (e + 1) hi r
  end.

Lemma num_chunks_bounds : forall cl chunk, 0 < chunk ->
  chunk * num_chunks cl chunk <= cl + chunk - 1 < chunk * num_chunks cl chunk + chunk.
Proof.
  intros cl chunk Hc. unfold num_chunks.
  pose proof (Z.div_mod (cl + chunk - 1) chunk ltac:(lia)) as H1.
  pose proof (Z.mod_pos_bound (cl + chunk - 1) chunk Hc) as H2. lia.
Qed.

Lemma ranges_from_covers : forall cl chunk, 0 < chunk -> 0 <= cl ->
  forall m i, 0 <= i -> i + Z.of_nat m = num_chunks cl chunk ->
  covers (Z.min (i * chunk) cl) cl (ranges_from m i cl chunk)
  /\ Forall (fun r => snd r - fst r + 1 <= chunk) (ranges_from m i cl chunk).
Proof.
  intros cl chunk Hc Hcl. pose proof (num_chunks_bounds cl chunk Hc) as HB.
  induction m as [|m IH]; intros i Hi Hn.
  - simpl. split; auto. nia.
  - cbn [ranges_from covers].
    assert (Hlt : i * chunk < cl) by nia.
    specialize (IH (i + 1) ltac:(lia) ltac:(lia)). destruct IH as [IH1 IH2].
    split.
    + split; [lia|]. split; [lia|].
      replace (Z.min (i * chunk + chunk - 1) (cl - 1) + 1) with (Z.min ((i + 1) * chunk) cl) by lia.
      exact IH1.
    + constructor; auto. simpl. lia.
Qed.

Lemma compute_ranges_covers : forall cl chunk, 0 < chunk -> 0 <= cl ->
  covers 0 cl (compute_ranges cl chunk)
  /\ Forall (fun r => snd r - fst r + 1 <= chunk) (compute_ranges cl chunk).
Proof.
  intros cl chunk Hc Hcl. unfold compute_ranges.
  pose proof (num_chunks_bounds cl chunk Hc) as HB.
  assert (Hn : 0 <= num_chunks cl chunk) by nia.
  pose proof (ranges_from_covers cl chunk Hc Hcl (Z.to_nat (num_chunks cl chunk)) 0 ltac:(lia) ltac:(lia)) as [H1 H2].
  split; auto. replace (Z.min (0 * chunk) cl) with 0 in H1 by lia. exact H1.
Qed.

(* the slices named by a covering chain concatenate to the covered part of any object *)
Definition slice (obj : list N) (rg : Z * Z) : list N :=
  firstn (Z.to_nat (snd rg - fst rg + 1)) (skipn (Z.to_nat (fst rg)) obj).

Lemma covers_le : forall rs lo hi, covers lo hi rs -> lo <= hi.
Proof.
  induction rs as [|[s e] r IH]; intros lo hi H; simpl in H.
  - lia.
  - destruct H as (Hs & Hle & Hr). apply IH in Hr. lia.
Qed.

Lemma firstn_skipn_split {A} (a b : nat) (l : list A) :
  firstn a l ++ firstn b (skipn a l) = firstn (a + b) l.
Proof.
  revert l. induction a as [|a IH]; intros l; simpl.
  - reflexivity.
  - destruct l as [|x r]; simpl.
    + rewrite firstn_nil. reflexivity.
    + f_equal. apply IH.
Qed.

Lemma skipn_add {A} (a b : nat) (l : list A) : skipn (b + a) l = skipn b (skipn a l).
Proof.
  revert l. induction a as [|a IH]; intros l.
  - rewrite Nat.add_0_r. reflexivity.
  - rewrite Nat.add_succ_r. destruct l as [|x r]; simpl.
    + rewrite skipn_nil. reflexivity.
    + apply IH.
Qed.

Lemma covers_slices : forall (obj : list N) rs lo hi,
  0 <= lo -> hi <= len obj -> covers lo hi rs ->
  concat (map (slice obj) rs) = firstn (Z.to_nat (hi - lo)) (skipn (Z.to_nat lo) obj).
Proof.
  intros obj. induction rs as [|[s e] r IH]; intros lo hi Hlo Hhi H; simpl in H.
  - subst. simpl. rewrite Z.sub_diag. reflexivity.
  - destruct H as (Hs & Hle & Hr). subst s. pose proof (covers_le _ _ _ Hr) as Hle2.
    cbn [map concat]. rewrite (IH (e + 1) hi ltac:(lia) Hhi Hr).
    unfold slice. cbn [fst snd].
    replace (Z.to_nat (e + 1)) with (Z.to_nat (e - lo + 1) + Z.to_nat lo)%nat by lia.
    rewrite skipn_add, firstn_skipn_split.
    f_equal. lia.
Qed.

Lemma covers_slices_all : forall (obj : list N) rs,
  covers 0 (len obj) rs -> concat (map (slice obj) rs) = obj.
Proof.
  intros obj rs H. rewrite (covers_slices obj rs 0 (len obj)); auto; try lia.
  simpl. rewrite Z.sub_0_r. unfold len. rewrite Nat2Z.id. apply firstn_all.
Qed.
