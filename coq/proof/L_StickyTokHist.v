(* (1) the server-id codec: when does a worker recognise its own server id, when do two workers alias;
   (2) histories of model/M_StickyTok.v: registries only hold what opens put there, and what was closed, evicted or
       expired does not come back. *)
From Coq Require Import List NArith ZArith Bool Lia Arith.
From VGI Require Import Bytes Layout M_StickyTok L_StickyTok L_StickyTokServe.
Import ListNotations.
Open Scope N_scope.

(* ---------------------------------------------------------------- codec *)
Definition all_ascii (s : list N) : bool := forallb (fun c => c <? 128) s.

Lemma utf8_encode_ascii : forall s, all_ascii s = true -> utf8_encode s = Some s.
Proof.
  induction s as [|c r IH]; intros H; cbn [utf8_encode].
  - reflexivity.
  - cbn [all_ascii forallb] in H. apply andb_true_iff in H. destruct H as [Hc Hr].
    unfold utf8_enc_cp. rewrite Hc. rewrite (IH Hr). reflexivity.
Qed.

Lemma ascii_replace_ascii : forall b, all_ascii b = true -> ascii_replace b = b.
Proof.
  induction b as [|c r IH]; intros H; cbn [ascii_replace map].
  - reflexivity.
  - cbn [all_ascii forallb] in H. apply andb_true_iff in H. destruct H as [Hc Hr]. rewrite Hc.
    unfold ascii_replace in IH. rewrite (IH Hr). reflexivity.
Qed.

Lemma ascii_replace_length : forall b, length (ascii_replace b) = length b.
Proof. intros b. unfold ascii_replace. apply map_length. Qed.

Lemma utf8_enc_cp_len : forall c x, utf8_enc_cp c = Some x ->
  (1 <= length x)%nat /\ ((c <? 128) = false -> (2 <= length x)%nat).
Proof.
  intros c x H. unfold utf8_enc_cp in H.
  destruct (c <? 128) eqn:E1.
  { injection H as H. subst x. cbn [length]. split; [lia|intros X; discriminate X]. }
  destruct (c <? 2048).
  { injection H as H. subst x. cbn [length]. split; lia. }
  destruct (c <? 65536).
  { destruct ((55296 <=? c) && (c <=? 57343)); [discriminate H|]. injection H as H. subst x. cbn [length]. split; lia. }
  destruct (c <? 1114112); [|discriminate H]. injection H as H. subst x. cbn [length]. split; lia.
Qed.

Lemma utf8_encode_len : forall s b, utf8_encode s = Some b ->
  (length s <= length b)%nat /\ (all_ascii s = false -> (length s < length b)%nat).
Proof.
  induction s as [|c r IH]; intros b H; cbn [utf8_encode] in H.
  - injection H as H. subst b. split; [cbn; lia|intros X; discriminate X].
  - destruct (utf8_enc_cp c) as [x|] eqn:Ec; [|discriminate H].
    destruct (utf8_encode r) as [y|] eqn:Er; [|discriminate H]. injection H as H. subst b.
    destruct (utf8_enc_cp_len c x Ec) as [L1 L2]. destruct (IH y eq_refl) as [M1 M2].
    rewrite app_length. cbn [length]. split; [lia|].
    intros Ha. cbn [all_ascii forallb] in Ha. apply andb_false_iff in Ha. destruct Ha as [Ha|Ha].
    + specialize (L2 Ha). lia.
    + specialize (M2 Ha). lia.
Qed.

(* decoding as ASCII-with-replacement gives back the server id exactly when it is ASCII *)
Theorem ascii_roundtrip_iff : forall s sb, utf8_encode s = Some sb -> (ascii_replace sb = s <-> all_ascii s = true).
Proof.
  intros s sb H. split.
  - intros E. destruct (all_ascii s) eqn:A; [reflexivity|]. exfalso.
    destruct (utf8_encode_len s sb H) as [_ L]. specialize (L A).
    apply (f_equal (@length N)) in E. rewrite ascii_replace_length in E. lia.
  - intros A. rewrite (utf8_encode_ascii s A) in H. injection H as H. subst sb. apply ascii_replace_ascii. exact A.
Qed.

Section Codec.
  Variable utf8_replace : bytes -> list N.
  Variable ws : list worker.

  (* Python: s.encode().decode("utf-8", "replace") == s *)
  Definition codec_roundtrip : Prop := forall s b, utf8_encode s = Some b -> utf8_replace b = s.
  (* deployment: workers sharing a key have different server ids *)
  Definition distinct_ids : Prop :=
    forall k1 k2 w1 w2, nth_error ws k1 = Some w1 -> nth_error ws k2 = Some w2 -> w_key w1 = w_key w2 -> w_id w1 = w_id w2 -> k1 = k2.

  Theorem codec_ok_ascii_iff : forall w sb, utf8_encode (w_id w) = Some sb ->
    (codec_ok utf8_replace AsciiReplace w <-> all_ascii (w_id w) = true).
  Proof.
    intros w sb H. unfold codec_ok, decode_sid. split.
    - intros C. apply (ascii_roundtrip_iff _ _ H). apply C. exact H.
    - intros A sb' H'. apply (ascii_roundtrip_iff _ _ H'). exact A.
  Qed.

  Theorem codec_ok_utf8 : codec_roundtrip -> forall w, codec_ok utf8_replace Utf8Replace w.
  Proof. intros R w sb H. unfold decode_sid. apply R. exact H. Qed.

  Theorem no_alias_utf8 : codec_roundtrip -> distinct_ids -> no_alias utf8_replace Utf8Replace ws.
  Proof.
    intros R D k1 k2 w1 w2 sb H1 H2 Hk He Hd. unfold decode_sid in Hd. rewrite (R _ _ He) in Hd.
    apply (D k1 k2 w1 w2 H1 H2 Hk Hd).
  Qed.

  Theorem no_alias_ascii :
    (forall k w, nth_error ws k = Some w -> all_ascii (w_id w) = true) -> distinct_ids -> no_alias utf8_replace AsciiReplace ws.
  Proof.
    intros A D k1 k2 w1 w2 sb H1 H2 Hk He Hd. unfold decode_sid in Hd.
    pose proof (proj2 (ascii_roundtrip_iff _ _ He) (A k1 w1 H1)) as E. rewrite E in Hd.
    apply (D k1 k2 w1 w2 H1 H2 Hk Hd).
  Qed.
End Codec.

(* ---------------------------------------------------------------- histories *)
Definition regs_of (s : world) (k : nat) : registry := nth k (wd_regs s) [].
Definition wnodup (s : world) : Prop := forall k, reg_nodup (regs_of s k).

Lemma nth_set_nth_same : forall {A} (l : list A) k x d, (k < length l)%nat -> nth k (set_nth l k x) d = x.
Proof.
  intros A l. induction l as [|y l IH]; intros k x d H; cbn [length] in H; [lia|].
  destruct k as [|k]; cbn [set_nth nth]; [reflexivity|]. apply IH. lia.
Qed.

Lemma nth_set_nth_other : forall {A} (l : list A) k k' x d, k <> k' -> nth k' (set_nth l k x) d = nth k' l d.
Proof.
  intros A l. induction l as [|y l IH]; intros k k' x d H.
  - destruct k; reflexivity.
  - destruct k as [|k], k' as [|k']; cbn [set_nth nth]; try reflexivity; [contradiction|]. apply IH. lia.
Qed.

Lemma nth_error_nth' : forall {A} (l : list A) k x d, nth_error l k = Some x -> nth k l d = x /\ (k < length l)%nat.
Proof.
  intros A l. induction l as [|y l IH]; intros k x d H; destruct k as [|k]; cbn [nth_error] in H; try discriminate H.
  - injection H as H. subst. cbn. split; [reflexivity|lia].
  - destruct (IH k x d H) as [H1 H2]. cbn [nth length]. split; [exact H1|lia].
Qed.

Section Hist.
  Variable aead_seal : bytes -> bytes -> bytes -> bytes -> bytes.
  Variable aead_open : bytes -> bytes -> bytes -> bytes -> option bytes.
  Variable utf8_replace : bytes -> list N.
  Variable codec : sid_codec.
  Variable ws : list worker.

  Notation step' := (step aead_seal aead_open utf8_replace codec ws).
  Notation run' := (run aead_seal aead_open utf8_replace codec ws).

  Lemma open_session_reg : forall w reg now i ttl sid nonce,
    snd (open_session aead_seal w reg now i ttl sid nonce) = reg_insert reg sid ((now + eff_ttl w ttl)%Z, principal_key i).
  Proof.
    intros w reg now i ttl sid nonce. unfold open_session.
    destruct (utf8_encode (w_id w)); [|reflexivity]. destruct (MAX_SERVER_ID_LEN <? blen b); reflexivity.
  Qed.

  Lemma call_sub : forall w reg now i hdr closes o reg' sid' v,
    call aead_open utf8_replace codec w reg now i hdr closes = (o, reg') ->
    reg_lookup reg' sid' = Some v -> reg_lookup reg sid' = Some v.
  Proof.
    intros w reg now i hdr closes o reg' sid' v H L. unfold call in H.
    destruct (resolve aead_open utf8_replace codec w reg now i hdr) as [[|sid|l] r1] eqn:R;
      injection H as _ H; subst reg'; try (eapply resolve_sub; eassumption).
    destruct closes; [apply reg_close_sub in L|]; eapply resolve_sub; eassumption.
  Qed.

  Lemma call_nodup : forall w reg now i hdr closes o reg',
    call aead_open utf8_replace codec w reg now i hdr closes = (o, reg') -> reg_nodup reg -> reg_nodup reg'.
  Proof.
    intros w reg now i hdr closes o reg' H Hn. unfold call in H.
    destruct (resolve aead_open utf8_replace codec w reg now i hdr) as [[|sid|l] r1] eqn:R;
      injection H as _ H; subst reg'; try (eapply resolve_nodup; eassumption).
    destruct closes; [apply reg_close_nodup|]; eapply resolve_nodup; eassumption.
  Qed.

  Lemma delete_sub : forall w reg now i hdr o reg' sid' v,
    delete aead_open utf8_replace codec w reg now i hdr = (o, reg') ->
    reg_lookup reg' sid' = Some v -> reg_lookup reg sid' = Some v.
  Proof.
    intros w reg now i hdr o reg' sid' v H L. unfold delete in H.
    destruct (resolve aead_open utf8_replace codec w reg now i hdr) as [[|sid|l] r1] eqn:R;
      injection H as _ H; subst reg'; try (eapply resolve_sub; eassumption).
    apply reg_close_sub in L. eapply resolve_sub; eassumption.
  Qed.

  Lemma delete_nodup : forall w reg now i hdr o reg',
    delete aead_open utf8_replace codec w reg now i hdr = (o, reg') -> reg_nodup reg -> reg_nodup reg'.
  Proof.
    intros w reg now i hdr o reg' H Hn. unfold delete in H.
    destruct (resolve aead_open utf8_replace codec w reg now i hdr) as [[|sid|l] r1] eqn:R;
      injection H as _ H; subst reg'; try (eapply resolve_nodup; eassumption).
    apply reg_close_nodup. eapply resolve_nodup; eassumption.
  Qed.

  (* the registry of worker k after a step, in terms of the registry before *)
  Lemma regs_of_upd : forall s k0 r k reg0,
    nth_error (wd_regs s) k0 = Some reg0 ->
    regs_of {| wd_regs := set_nth (wd_regs s) k0 r; wd_now := wd_now s |} k = if Nat.eqb k0 k then r else regs_of s k.
  Proof.
    intros s k0 r k reg0 H. unfold regs_of. cbn [wd_regs].
    destruct (nth_error_nth' _ _ _ [] H) as [_ Hl].
    destruct (Nat.eqb k0 k) eqn:E.
    - apply Nat.eqb_eq in E. subst k. apply nth_set_nth_same. exact Hl.
    - apply Nat.eqb_neq in E. apply nth_set_nth_other. exact E.
  Qed.

  Lemma regs_of_nth_error : forall s k reg, nth_error (wd_regs s) k = Some reg -> regs_of s k = reg.
  Proof. intros s k reg H. unfold regs_of. apply (nth_error_nth' _ _ _ [] H). Qed.

  (* one step: an entry found afterwards was there before, or this very step opened it *)
  Lemma step_sub : forall s o s' ev k sid v,
    wnodup s -> step' s o = (s', ev) -> reg_lookup (regs_of s' k) sid = Some v ->
    reg_lookup (regs_of s k) sid = Some v \/
    (exists i ttl n txt c exp, o = OpOpen k i ttl sid n /\
       ev = EvMinted k i c sid exp n txt /\ v = (exp, principal_key i)).
  Proof.
    intros s o s' ev k sid v Hnd H L. unfold step in H. destruct o as [k0 i ttl sid0 n|k0 i hdr closes|k0 i hdr|k0|k0|dt].
    - destruct (nth_error ws k0) as [w|]; [|injection H as H1 _; subst s'; left; exact L].
      destruct (nth_error (wd_regs s) k0) as [reg|] eqn:Er; [|injection H as H1 _; subst s'; left; exact L].
      destruct (open_session aead_seal w reg (wd_now s) i ttl sid0 n) as [txt reg'] eqn:O.
      injection H as H1 H2. subst s' ev. rewrite (regs_of_upd _ _ _ _ _ Er) in L.
      pose proof (open_session_reg w reg (wd_now s) i ttl sid0 n) as Hr. rewrite O in Hr. cbn [snd] in Hr. subst reg'.
      destruct (Nat.eqb k0 k) eqn:E; [|left; exact L]. apply Nat.eqb_eq in E. subst k0.
      destruct (Bytes.bytes_eqb_spec sid sid0) as [Es|Es].
      + subst sid0. rewrite reg_lookup_insert_same in L. injection L as L. subst v.
        right. exists i, ttl, n, txt, (tok_secs (wd_now s)), (wd_now s + eff_ttl w ttl)%Z. repeat split; reflexivity.
      + rewrite reg_lookup_insert_other in L by exact Es. left. rewrite (regs_of_nth_error _ _ _ Er). exact L.
    - destruct (nth_error ws k0) as [w|]; [|injection H as H1 _; subst s'; left; exact L].
      destruct (nth_error (wd_regs s) k0) as [reg|] eqn:Er; [|injection H as H1 _; subst s'; left; exact L].
      destruct (call aead_open utf8_replace codec w reg (wd_now s) i hdr closes) as [o reg'] eqn:C.
      injection H as H1 H2. subst s' ev. rewrite (regs_of_upd _ _ _ _ _ Er) in L. left.
      destruct (Nat.eqb k0 k) eqn:E; [|exact L]. apply Nat.eqb_eq in E. subst k0.
      rewrite (regs_of_nth_error _ _ _ Er). eapply call_sub; eassumption.
    - destruct (nth_error ws k0) as [w|]; [|injection H as H1 _; subst s'; left; exact L].
      destruct (nth_error (wd_regs s) k0) as [reg|] eqn:Er; [|injection H as H1 _; subst s'; left; exact L].
      destruct (delete aead_open utf8_replace codec w reg (wd_now s) i hdr) as [o reg'] eqn:C.
      injection H as H1 H2. subst s' ev. rewrite (regs_of_upd _ _ _ _ _ Er) in L. left.
      destruct (Nat.eqb k0 k) eqn:E; [|exact L]. apply Nat.eqb_eq in E. subst k0.
      rewrite (regs_of_nth_error _ _ _ Er). eapply delete_sub; eassumption.
    - destruct (nth_error (wd_regs s) k0) as [reg|] eqn:Er; [|injection H as H1 _; subst s'; left; exact L].
      injection H as H1 H2. subst s' ev. rewrite (regs_of_upd _ _ _ _ _ Er) in L. left.
      destruct (Nat.eqb k0 k) eqn:E; [|exact L]. apply Nat.eqb_eq in E. subst k0.
      rewrite (regs_of_nth_error _ _ _ Er). destruct v as [exp pk].
      apply reg_lookup_drain in L; [apply L|]. rewrite <- (regs_of_nth_error _ _ _ Er). apply Hnd.
    - destruct (nth_error (wd_regs s) k0) as [reg|] eqn:Er; [|injection H as H1 _; subst s'; left; exact L].
      injection H as H1 H2. subst s' ev. rewrite (regs_of_upd _ _ _ _ _ Er) in L. left.
      destruct (Nat.eqb k0 k) eqn:E; [|exact L]. discriminate L.
    - injection H as H1 H2. subst s' ev. left. exact L.
  Qed.

  Lemma step_nodup : forall s o s' ev, wnodup s -> step' s o = (s', ev) -> wnodup s'.
  Proof.
    intros s o s' ev Hnd H k. unfold step in H. destruct o as [k0 i ttl sid0 n|k0 i hdr closes|k0 i hdr|k0|k0|dt].
    - destruct (nth_error ws k0) as [w|]; [|injection H as H1 _; subst s'; apply Hnd].
      destruct (nth_error (wd_regs s) k0) as [reg|] eqn:Er; [|injection H as H1 _; subst s'; apply Hnd].
      destruct (open_session aead_seal w reg (wd_now s) i ttl sid0 n) as [txt reg'] eqn:O.
      injection H as H1 H2. subst s' ev. rewrite (regs_of_upd _ _ _ _ _ Er).
      pose proof (open_session_reg w reg (wd_now s) i ttl sid0 n) as Hr. rewrite O in Hr. cbn [snd] in Hr. subst reg'.
      destruct (Nat.eqb k0 k); [|apply Hnd]. apply reg_nodup_insert. rewrite <- (regs_of_nth_error _ _ _ Er). apply Hnd.
    - destruct (nth_error ws k0) as [w|]; [|injection H as H1 _; subst s'; apply Hnd].
      destruct (nth_error (wd_regs s) k0) as [reg|] eqn:Er; [|injection H as H1 _; subst s'; apply Hnd].
      destruct (call aead_open utf8_replace codec w reg (wd_now s) i hdr closes) as [o reg'] eqn:C.
      injection H as H1 H2. subst s' ev. rewrite (regs_of_upd _ _ _ _ _ Er).
      destruct (Nat.eqb k0 k); [|apply Hnd]. eapply call_nodup; [exact C|]. rewrite <- (regs_of_nth_error _ _ _ Er). apply Hnd.
    - destruct (nth_error ws k0) as [w|]; [|injection H as H1 _; subst s'; apply Hnd].
      destruct (nth_error (wd_regs s) k0) as [reg|] eqn:Er; [|injection H as H1 _; subst s'; apply Hnd].
      destruct (delete aead_open utf8_replace codec w reg (wd_now s) i hdr) as [o reg'] eqn:C.
      injection H as H1 H2. subst s' ev. rewrite (regs_of_upd _ _ _ _ _ Er).
      destruct (Nat.eqb k0 k); [|apply Hnd]. eapply delete_nodup; [exact C|]. rewrite <- (regs_of_nth_error _ _ _ Er). apply Hnd.
    - destruct (nth_error (wd_regs s) k0) as [reg|] eqn:Er; [|injection H as H1 _; subst s'; apply Hnd].
      injection H as H1 H2. subst s' ev. rewrite (regs_of_upd _ _ _ _ _ Er).
      destruct (Nat.eqb k0 k); [|apply Hnd]. apply reg_nodup_drain. rewrite <- (regs_of_nth_error _ _ _ Er). apply Hnd.
    - destruct (nth_error (wd_regs s) k0) as [reg|] eqn:Er; [|injection H as H1 _; subst s'; apply Hnd].
      injection H as H1 H2. subst s' ev. rewrite (regs_of_upd _ _ _ _ _ Er).
      destruct (Nat.eqb k0 k); [exact I|apply Hnd].
    - injection H as H1 H2. subst s' ev. apply Hnd.
  Qed.

  Lemma init_nodup : forall t0, wnodup (init_world ws t0).
  Proof.
    intros t0 k. unfold regs_of, init_world. cbn [wd_regs].
    assert (G : forall (l : list worker) k, nth k (map (fun _ => ([] : registry)) l) [] = []).
    { induction l as [|x l IH]; intros [|k']; cbn; try reflexivity. apply IH. }
    rewrite G. exact I.
  Qed.

  (* closed / evicted / expired sessions do not come back: a session id absent from the registry of worker k stays
     absent for the rest of the history unless worker k draws the same id again *)
  Theorem absent_stays_absent : forall h s k sid,
    wnodup s -> reg_lookup (regs_of s k) sid = None ->
    (forall i ttl n, ~ In (OpOpen k i ttl sid n) h) ->
    reg_lookup (regs_of (fst (run' s h)) k) sid = None.
  Proof.
    induction h as [|o h IH]; intros s k sid Hnd L Hno; cbn [run].
    - exact L.
    - destruct (step' s o) as [s1 e] eqn:S. destruct (run' s1 h) as [s2 es] eqn:R. cbn [fst].
      assert (L1 : reg_lookup (regs_of s1 k) sid = None).
      { destruct (reg_lookup (regs_of s1 k) sid) as [v|] eqn:L1; [|reflexivity]. exfalso.
        destruct (step_sub s o s1 e k sid v Hnd S L1) as [X|[i [ttl [n [txt [c [exp [X _]]]]]]]].
        - rewrite L in X. discriminate X.
        - apply (Hno i ttl n). left. exact X. }
      specialize (IH s1 k sid (step_nodup s o s1 e Hnd S) L1). rewrite R in IH. cbn [fst] in IH. apply IH.
      intros i ttl n Hin. apply (Hno i ttl n). right. exact Hin.
  Qed.

  (* every registry entry was put there by an open of that worker, under the principal key of the opening identity,
     with the expiry that open computed *)
  Definition from_opens (s : world) (P : event -> Prop) : Prop :=
    forall k sid exp pk, reg_lookup (regs_of s k) sid = Some (exp, pk) ->
      exists i c n txt, P (EvMinted k i c sid exp n txt) /\ pk = principal_key i.

  Lemma run_from_opens : forall h s P,
    wnodup s -> from_opens s P -> from_opens (fst (run' s h)) (fun x => P x \/ In x (snd (run' s h))).
  Proof.
    induction h as [|o h IH]; intros s P Hnd Hf; cbn [run].
    - cbn [fst snd]. intros k sid exp pk L. destruct (Hf k sid exp pk L) as [i [c [n [txt [H1 H2]]]]].
      exists i, c, n, txt. split; [left; exact H1|exact H2].
    - destruct (step' s o) as [s1 e] eqn:S. destruct (run' s1 h) as [s2 es] eqn:R. cbn [fst snd].
      assert (Hf1 : from_opens s1 (fun x => P x \/ x = e)).
      { intros k sid exp pk L. destruct (step_sub s o s1 e k sid (exp, pk) Hnd S L) as [X|[i [ttl [n [txt [c0 [exp0 [_ [X1 X2]]]]]]]]].
        - destruct (Hf k sid exp pk X) as [i [c [n [txt [H1 H2]]]]]. exists i, c, n, txt. split; [left; exact H1|exact H2].
        - injection X2 as X2 X3. subst exp0 pk. exists i, c0, n, txt. split; [right; symmetry; exact X1|reflexivity]. }
      specialize (IH s1 _ (step_nodup s o s1 e Hnd S) Hf1). rewrite R in IH. cbn [fst snd] in IH.
      intros k sid exp pk L. destruct (IH k sid exp pk L) as [i [c [n [txt [H1 H2]]]]].
      exists i, c, n, txt. split; [|exact H2]. destruct H1 as [[H1|H1]|H1].
      + left. exact H1.
      + right. left. symmetry. exact H1.
      + right. right. exact H1.
  Qed.

  Theorem registry_only_from_opens : forall t0 h k sid exp pk,
    reg_lookup (regs_of (fst (run' (init_world ws t0) h)) k) sid = Some (exp, pk) ->
    exists i c n txt, In (EvMinted k i c sid exp n txt) (snd (run' (init_world ws t0) h)) /\ pk = principal_key i.
  Proof.
    intros t0 h k sid exp pk L.
    assert (F0 : from_opens (init_world ws t0) (fun _ => False)).
    { intros k' sid' exp' pk' L'. exfalso. pose proof (init_nodup t0 k') as _.
      unfold regs_of, init_world in L'. cbn [wd_regs] in L'.
      assert (G : forall (l : list worker) k, nth k (map (fun _ => ([] : registry)) l) [] = []).
      { induction l as [|x l IH]; intros [|k'']; cbn; try reflexivity. apply IH. }
      rewrite G in L'. discriminate L'. }
    destruct (run_from_opens h _ _ (init_nodup t0) F0 k sid exp pk L) as [i [c [n [txt [[H1|H1] H2]]]]]; [contradiction|].
    exists i, c, n, txt. split; assumption.
  Qed.

  (* a minted token text is the armoured envelope of exactly the session that open registered *)
  Theorem minted_text_is_envelope : forall s o s' k i c sid exp n txt,
    step' s o = (s', EvMinted k i c sid exp n (Some txt)) ->
    exists w sb, nth_error ws k = Some w /\ utf8_encode (w_id w) = Some sb /\ blen sb <= MAX_SERVER_ID_LEN /\
      txt = b64u_encode (seal_bytes aead_seal (session_plain c sb sid (tok_secs exp)) (w_key w) (compute_aad i) n) /\
      reg_lookup (regs_of s' k) sid = Some (exp, principal_key i).
  Proof.
    intros s o s' k i c sid exp n txt H. unfold step in H. destruct o as [k0 i0 ttl sid0 n0|k0 i0 hdr closes|k0 i0 hdr|k0|k0|dt].
    - destruct (nth_error ws k0) as [w|] eqn:Ew; [|discriminate H].
      destruct (nth_error (wd_regs s) k0) as [reg|] eqn:Er; [|discriminate H].
      destruct (open_session aead_seal w reg (wd_now s) i0 ttl sid0 n0) as [t reg'] eqn:O.
      injection H as H1 H2 H3 H4 H5 H6 H7 H8. subst s' k0 i0 c sid0 exp n0 t.
      pose proof (open_session_reg w reg (wd_now s) i ttl sid n) as Hr. rewrite O in Hr. cbn [snd] in Hr.
      unfold open_session in O. destruct (utf8_encode (w_id w)) as [sb|] eqn:Eu; [|discriminate O].
      destruct (MAX_SERVER_ID_LEN <? blen sb) eqn:El; [discriminate O|].
      pose proof (f_equal fst O) as O1. cbn [fst] in O1.
      exists w, sb. split; [exact Ew|]. split; [exact Eu|]. split; [apply N.ltb_ge; exact El|]. split; [congruence|].
      rewrite (regs_of_upd _ _ _ _ _ Er). rewrite Nat.eqb_refl. rewrite Hr. apply reg_lookup_insert_same.
    - destruct (nth_error ws k0); [|discriminate H]. destruct (nth_error (wd_regs s) k0); [|discriminate H].
      destruct (call aead_open utf8_replace codec w r (wd_now s) i0 hdr closes). discriminate H.
    - destruct (nth_error ws k0); [|discriminate H]. destruct (nth_error (wd_regs s) k0); [|discriminate H].
      destruct (delete aead_open utf8_replace codec w r (wd_now s) i0 hdr). discriminate H.
    - destruct (nth_error (wd_regs s) k0); discriminate H.
    - destruct (nth_error (wd_regs s) k0); discriminate H.
    - discriminate H.
  Qed.
End Hist.
