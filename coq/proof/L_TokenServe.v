(* The exchange path of model/M_Token.v over an ideal AEAD: served => sealed by a key holder for this caller;
   rejection classes; order of hooks. *)
From Coq Require Import List NArith ZArith Bool Lia Arith.
From VGI Require Import Bytes Layout M_Token L_Token.
Import ListNotations.
Open Scope N_scope.

(* what key holders seal (the mint log) *)
Inductive mint :=
| MintCursor (i : identity) (created : N) (call_id state nonce : bytes)
| MintCall (i : identity) (created : N) (call_id cs ty sch isch sid nonce : bytes).

Definition mint_kind (e : mint) : kind := match e with MintCursor _ _ _ _ _ => KCursor | MintCall _ _ _ _ _ _ _ _ _ => KCall end.
Definition mint_ident (e : mint) : identity := match e with MintCursor i _ _ _ _ => i | MintCall i _ _ _ _ _ _ _ _ => i end.
Definition mint_nonce (e : mint) : bytes := match e with MintCursor _ _ _ _ n => n | MintCall _ _ _ _ _ _ _ _ n => n end.
Definition mint_plaintext (e : mint) : bytes :=
  match e with
  | MintCursor _ c cid st _ => cursor_plaintext c cid st
  | MintCall _ c cid cs ty sch isch sid _ => call_plaintext c cid cs ty sch isch sid
  end.
(* what struct.pack / the identity encoding guarantee about a mint that did not raise *)
Definition mint_wf (e : mint) : Prop :=
  ident_ok (mint_ident e) /\
  match e with
  | MintCursor _ c cid st _ => wf_cursor c cid st
  | MintCall _ c cid cs ty sch isch sid _ => wf_call c cid cs ty sch isch sid
  end.

Section Ideal.
  Variable normalize_key : bytes -> bytes.
  Variable aead_seal : bytes -> bytes -> bytes -> bytes -> bytes.
  Variable aead_open : bytes -> bytes -> bytes -> bytes -> option bytes.
  Variable zstd_compress : bytes -> bytes.
  Variable zstd_decompress : bytes -> option bytes.

  Notation pack := (pack_plaintext zstd_compress).
  Notation unpack := (unpack_plaintext zstd_decompress).
  Notation open_bytes' := (open_bytes normalize_key aead_open).
  Notation open_payload' := (open_payload normalize_key aead_open zstd_decompress).
  Notation open_cursor' := (open_cursor_token normalize_key aead_open zstd_decompress).
  Notation open_call' := (open_call_token normalize_key aead_open zstd_decompress).
  Notation exchange' := (exchange normalize_key aead_open zstd_decompress).
  Notation seal_bytes' := (seal_bytes normalize_key aead_seal).

  (* zstd never turns a frame it produced into something else *)
  Definition zstd_sound : Prop := forall x y, zstd_decompress (zstd_compress x) = Some y -> y = x.
  (* ... and does decompress what it produced (within the size bound; only needed for "minted => served") *)
  Definition zstd_complete (x : bytes) : Prop := zstd_decompress (zstd_compress x) = Some x.
  (* AEAD correctness (only needed for "minted => served") *)
  Definition aead_correct : Prop := forall k a n p, aead_open k a n (aead_seal k a n p) = Some p.

  (* the mint log of the holders of [key], and unforgeability of ONE presented ciphertext:
     if it opens under the server's key and this AAD, a key holder sealed exactly it under exactly this AAD *)
  Variable minted : mint -> Prop.
  Definition unforged (key aad nonce body : bytes) : Prop :=
    forall p, aead_open (normalize_key key) aad nonce body = Some p ->
      exists e, minted e /\ compute_aad (mint_kind e) (mint_ident e) = aad /\ mint_nonce e = nonce /\
                p = pack (mint_plaintext e) /\ body = aead_seal (normalize_key key) aad nonce p.
  Definition token_unforged (cfg : config) (k : kind) (i : identity) (txt : bytes) : Prop :=
    forall raw, decode_token (c_canonical cfg) txt = Some raw ->
      unforged (c_key cfg) (compute_aad k i) (firstn 24 (tl raw)) (skipn 24 (tl raw)).

  (* ---------- inversion of the opening pipeline ---------- *)
  Lemma open_bytes_some : forall raw key aad ver sp,
    open_bytes' raw key aad ver = Some sp ->
    exists t, raw = ver :: t /\ aead_open (normalize_key key) aad (firstn 24 t) (skipn 24 t) = Some sp.
  Proof.
    intros raw key aad ver sp H. unfold open_bytes in H.
    destruct (blen raw <? MIN_TOKEN_LEN); [discriminate H|].
    destruct raw as [|v t]; [discriminate H|].
    destruct (v =? ver) eqn:Ev; cbn [negb] in H; [|discriminate H].
    apply N.eqb_eq in Ev. subst v. exists t. split; [reflexivity|]. exact H.
  Qed.

  Lemma open_payload_ok : forall cfg k i txt pl,
    open_payload' cfg k i txt = Ok pl ->
    exists raw sp, decode_token (c_canonical cfg) txt = Some raw /\
                   open_bytes' raw (c_key cfg) (compute_aad k i) (token_version k) = Some sp /\
                   unpack sp = Some pl.
  Proof.
    intros cfg k i txt pl H. unfold open_payload in H.
    destruct (decode_token (c_canonical cfg) txt) as [raw|] eqn:D; [|discriminate H].
    destruct (open_bytes' raw (c_key cfg) (compute_aad k i) (token_version k)) as [sp|] eqn:O; [|discriminate H].
    destruct (unpack sp) as [pl'|] eqn:U; [|discriminate H].
    injection H as H. subst pl'. exists raw, sp. split; [reflexivity|]. split; [exact O|exact U].
  Qed.

  Lemma unpack_pack : zstd_sound -> forall x y, unpack (pack x) = Some y -> y = x.
  Proof.
    intros Hz x y H. unfold pack_plaintext, unpack_plaintext in H.
    destruct (blen (zstd_compress x) <? blen x).
    - change (CODEC_ZSTD =? CODEC_RAW) with false in H. change (CODEC_ZSTD =? CODEC_ZSTD) with true in H.
      cbv iota in H. apply Hz. exact H.
    - change (CODEC_RAW =? CODEC_RAW) with true in H. cbv iota in H. injection H as H. symmetry. exact H.
  Qed.

  Lemma raw_shape : forall (t : bytes), t = firstn 24 t ++ skipn 24 t.
  Proof. intros t. symmetry. apply firstn_skipn. Qed.

  (* the core step: an accepted token of kind k for caller i is one the key holders sealed, for i, as kind k *)
  Lemma open_payload_minted : forall cfg k i txt pl,
    zstd_sound -> (forall e, minted e -> mint_wf e) -> ident_ok i ->
    token_unforged cfg k i txt ->
    open_payload' cfg k i txt = Ok pl ->
    exists e raw,
      minted e /\ mint_kind e = k /\ mint_ident e = i /\ pl = mint_plaintext e /\
      decode_token (c_canonical cfg) txt = Some raw /\
      raw = seal_bytes' (pack (mint_plaintext e)) (c_key cfg) (compute_aad k i) (token_version k) (mint_nonce e).
  Proof.
    intros cfg k i txt pl Hz Hwf Hi Hu H.
    apply open_payload_ok in H. destruct H as [raw [sp [Hd [Ho Hp]]]].
    apply open_bytes_some in Ho. destruct Ho as [t [Hraw Ho]].
    specialize (Hu raw Hd). subst raw. cbn [tl] in Hu.
    destruct (Hu sp Ho) as [e [Hm [Haad [Hn [Hsp Hbody]]]]].
    pose proof (Hwf e Hm) as [Hie _].
    destruct (aad_injective _ _ _ _ Hie Hi Haad) as [Hk Hident].
    exists e, (token_version k :: t). split; [exact Hm|]. split; [exact Hk|]. split; [exact Hident|].
    split.
    { subst sp. apply (unpack_pack Hz). exact Hp. }
    split; [exact Hd|].
    unfold seal_bytes. f_equal. rewrite (raw_shape t) at 1. rewrite Hn. f_equal. rewrite Hbody, Hsp. reflexivity.
  Qed.

  Lemma ttl_ok_bound : forall k ttl now c r,
    c < U64 -> ttl_check k ttl now (le_encode 8 c ++ r) = Ok tt -> (ttl <= 0 \/ now - Z.of_N c <= ttl)%Z.
  Proof.
    intros k ttl now c r Hc H. unfold ttl_check in H.
    destruct (0 <? ttl)%Z eqn:E.
    - rewrite (created_at_read c r Hc) in H.
      destruct (ttl <? now - Z.of_N c)%Z eqn:E2; [discriminate H|]. right. apply Z.ltb_ge in E2. exact E2.
    - left. apply Z.ltb_ge in E. exact E.
  Qed.

  (* ---------- cursor token ---------- *)
  Theorem open_cursor_minted : forall cfg now i txt st cid,
    zstd_sound -> (forall e, minted e -> mint_wf e) -> ident_ok i ->
    token_unforged cfg KCursor i txt ->
    open_cursor' cfg now i txt = Ok (st, cid) ->
    exists created nonce raw,
      minted (MintCursor i created cid st nonce) /\
      decode_token (c_canonical cfg) txt = Some raw /\
      raw = seal_bytes' (pack (cursor_plaintext created cid st)) (c_key cfg) (compute_aad KCursor i)
                        CURSOR_TOKEN_VERSION nonce /\
      (c_ttl cfg <= 0 \/ now - Z.of_N created <= c_ttl cfg)%Z.
  Proof.
    intros cfg now i txt st cid Hz Hwf Hi Hu H. unfold open_cursor_token in H.
    destruct (open_payload' cfg KCursor i txt) as [pl| |] eqn:P; try discriminate H.
    destruct (parse_cursor pl) as [[st' cid']| |] eqn:Q; try discriminate H.
    destruct (ttl_check KCursor (c_ttl cfg) now pl) as [[]| |] eqn:T; try discriminate H.
    injection H as H1 H2. subst st' cid'.
    destruct (open_payload_minted _ _ _ _ _ Hz Hwf Hi Hu P) as [e [raw [Hm [Hk [Hid [Hpl [Hd Hraw]]]]]]].
    destruct e as [i' c cid' st' n|]; [|discriminate Hk].
    cbn [mint_ident mint_plaintext mint_nonce] in *. subst i'.
    pose proof (Hwf _ Hm) as [_ Hw]. cbn in Hw.
    assert (Q' : parse_cursor (cursor_plaintext c cid' st') = Ok (st', cid')).
    { apply parse_cursor_exact.
      - assert (E : enc cursor_layout [AInt c; ABytes cid'; ABytes st'] = Some (cursor_plaintext c cid' st'))
          by (apply enc_cursor_iff; split; [exact Hw|reflexivity]).
        exact (enc_ok _ _ _ E).
      - exists c. split; [exact Hw|reflexivity]. }
    subst pl. rewrite Q' in Q. injection Q as Q1 Q2. subst st' cid'.
    exists c, n, raw. split; [exact Hm|]. split; [exact Hd|]. split; [exact Hraw|].
    destruct Hw as [[Hc _] _]. unfold cursor_plaintext in T. exact (ttl_ok_bound _ _ _ _ _ Hc T).
  Qed.

  (* ---------- call token ---------- *)
  Theorem open_call_minted : forall cfg now i txt f,
    zstd_sound -> (forall e, minted e -> mint_wf e) -> ident_ok i ->
    token_unforged cfg KCall i txt ->
    open_call' cfg now i txt = Ok f ->
    exists created nonce raw,
      minted (MintCall i created (f_call_id f) (f_call_state f) (f_type f) (f_schema f) (f_ischema f) (f_stream_id f) nonce) /\
      decode_token (c_canonical cfg) txt = Some raw /\
      raw = seal_bytes' (pack (call_plaintext created (f_call_id f) (f_call_state f) (f_type f) (f_schema f)
                                              (f_ischema f) (f_stream_id f)))
                        (c_key cfg) (compute_aad KCall i) CALL_TOKEN_VERSION nonce /\
      (c_ttl cfg <= 0 \/ now - Z.of_N created <= c_ttl cfg)%Z.
  Proof.
    intros cfg now i txt f Hz Hwf Hi Hu H. unfold open_call_token in H.
    destruct (open_payload' cfg KCall i txt) as [pl| |] eqn:P; try discriminate H.
    destruct (parse_call pl) as [f'| |] eqn:Q; try discriminate H.
    destruct (ttl_check KCall (c_ttl cfg) now pl) as [[]| |] eqn:T; try discriminate H.
    injection H as H1. subst f'.
    destruct (open_payload_minted _ _ _ _ _ Hz Hwf Hi Hu P) as [e [raw [Hm [Hk [Hid [Hpl [Hd Hraw]]]]]]].
    destruct e as [|i' c cid cs ty sch isch sid n]; [discriminate Hk|].
    cbn [mint_ident mint_plaintext mint_nonce] in *. subst i'.
    pose proof (Hwf _ Hm) as [_ Hw]. cbn in Hw.
    set (g := {| f_call_state := cs; f_type := ty; f_schema := sch; f_ischema := isch; f_call_id := cid; f_stream_id := sid |}).
    assert (Q' : parse_call (call_plaintext c cid cs ty sch isch sid) = Ok g).
    { apply parse_call_exact.
      - assert (E : enc call_layout [AInt c; ABytes cid; ABytes cs; ABytes ty; ABytes sch; ABytes isch; ABytes sid]
                    = Some (call_plaintext c cid cs ty sch isch sid))
          by (apply enc_call_iff; split; [exact Hw|reflexivity]).
        exact (enc_ok _ _ _ E).
      - exists c. split; [exact Hw|reflexivity]. }
    subst pl. rewrite Q' in Q. injection Q as Q. subst f. cbn [g f_call_id f_call_state f_type f_schema f_ischema f_stream_id].
    exists c, n, raw. split; [exact Hm|]. split; [exact Hd|]. split; [exact Hraw|].
    destruct Hw as [[Hc _] _]. unfold call_plaintext in T. exact (ttl_ok_bound _ _ _ _ _ Hc T).
  Qed.

  (* ---------- the exchange ---------- *)
  Definition request_unforged (cfg : config) (q : request) : Prop :=
    (forall txt, q_cursor q = Some txt -> token_unforged cfg KCursor (q_ident q) txt) /\
    (forall txt, q_call q = Some txt -> token_unforged cfg KCall (q_ident q) txt).

  Theorem served_cursor_minted : forall cfg now1 now2 cache q st cid fc call,
    zstd_sound -> (forall e, minted e -> mint_wf e) -> ident_ok (q_ident q) -> request_unforged cfg q ->
    exchange' cfg now1 now2 cache q = Served st cid fc call ->
    exists txt raw created nonce,
      q_cursor q = Some txt /\ decode_token (c_canonical cfg) txt = Some raw /\
      minted (MintCursor (q_ident q) created cid st nonce) /\
      raw = seal_bytes' (pack (cursor_plaintext created cid st)) (c_key cfg) (compute_aad KCursor (q_ident q))
                        CURSOR_TOKEN_VERSION nonce /\
      (c_ttl cfg <= 0 \/ now1 - Z.of_N created <= c_ttl cfg)%Z.
  Proof.
    intros cfg now1 now2 cache q st cid fc call Hz Hwf Hi [Hu _] H. unfold exchange in H.
    destruct (q_cursor q) as [txt|] eqn:Qc; [|discriminate H].
    destruct (open_cursor' cfg now1 (q_ident q) txt) as [[st' cid']| |] eqn:O; try discriminate H.
    assert (st' = st /\ cid' = cid) as [E1 E2].
    { destruct (cache cid' (cache_identity (q_ident q))).
      - injection H as H1 H2 _ _. split; assumption.
      - destruct (q_call q) as [ktxt|]; [|discriminate H].
        destruct (open_call' cfg now2 (q_ident q) ktxt) as [f| |]; try discriminate H.
        destruct (negb (Bytes.bytes_eqb (f_call_id f) cid')); [discriminate H|].
        injection H as H1 H2 _ _. split; assumption. }
    subst st' cid'.
    destruct (open_cursor_minted _ _ _ _ _ _ Hz Hwf Hi (Hu txt eq_refl) O) as [c [n [raw [Hm [Hd [Hraw Ht]]]]]].
    exists txt, raw, c, n. repeat split; assumption.
  Qed.

  (* cache miss: the call token too, and it names the stream the cursor names *)
  Theorem served_call_minted_cold : forall cfg now1 now2 cache q st cid call,
    zstd_sound -> (forall e, minted e -> mint_wf e) -> ident_ok (q_ident q) -> request_unforged cfg q ->
    exchange' cfg now1 now2 cache q = Served st cid false call ->
    exists f txt raw created nonce,
      call = Some f /\ f_call_id f = cid /\
      q_call q = Some txt /\ decode_token (c_canonical cfg) txt = Some raw /\
      minted (MintCall (q_ident q) created cid (f_call_state f) (f_type f) (f_schema f) (f_ischema f) (f_stream_id f) nonce) /\
      raw = seal_bytes' (pack (call_plaintext created cid (f_call_state f) (f_type f) (f_schema f) (f_ischema f)
                                              (f_stream_id f)))
                        (c_key cfg) (compute_aad KCall (q_ident q)) CALL_TOKEN_VERSION nonce /\
      (c_ttl cfg <= 0 \/ now2 - Z.of_N created <= c_ttl cfg)%Z.
  Proof.
    intros cfg now1 now2 cache q st cid call Hz Hwf Hi [_ Hu] H. unfold exchange in H.
    destruct (q_cursor q) as [ctxt|]; [|discriminate H].
    destruct (open_cursor' cfg now1 (q_ident q) ctxt) as [[st' cid']| |]; try discriminate H.
    destruct (cache cid' (cache_identity (q_ident q))); [discriminate H|].
    destruct (q_call q) as [ktxt|] eqn:Qk; [|discriminate H].
    destruct (open_call' cfg now2 (q_ident q) ktxt) as [f| |] eqn:O; try discriminate H.
    destruct (Bytes.bytes_eqb (f_call_id f) cid') eqn:Ecid; cbn [negb] in H; [|discriminate H].
    apply bytes_eqb_eq in Ecid. injection H as H1 H2 H3. subst st' call. rewrite H2 in Ecid.
    destruct (open_call_minted _ _ _ _ _ Hz Hwf Hi (Hu ktxt eq_refl) O) as [c [n [raw [Hm [Hd [Hraw Ht]]]]]].
    rewrite Ecid in Hm, Hraw.
    exists f, ktxt, raw, c, n. repeat split; assumption.
  Qed.

  (* ---------- rejections ---------- *)
  Theorem reject_before_hooks : forall cfg now1 now2 cache q,
    (forall m, exchange' cfg now1 now2 cache q = Rejected m -> hooks q (Rejected m) = []) /\
    (forall st cid fc call, exchange' cfg now1 now2 cache q = Served st cid fc call ->
       exists pre, hooks q (Served st cid fc call)
                   = pre ++ [EvDeserializeState; EvBind; EvRehydrate; if q_cancel q then EvOnCancel else EvProcess]
                   /\ (pre = [] \/ pre = [EvDeserializeCall])).
  Proof.
    intros cfg now1 now2 cache q. split.
    - intros m _. reflexivity.
    - intros st cid fc call _. cbn [hooks].
      destruct call as [f|].
      + destruct (f_call_state f); eexists; split; try reflexivity; auto.
      + eexists; split; try reflexivity; auto.
  Qed.

  Theorem uniform_400 : forall cfg now1 now2 cache q m,
    exchange' cfg now1 now2 cache q = Rejected m -> http_status (Rejected m) = 400.
  Proof. intros. reflexivity. Qed.

  Lemma open_payload_rej : forall cfg k i txt m,
    open_payload' cfg k i txt = Rej m -> m = MMalformed k \/ m = MSig k \/ m = MPayload.
  Proof.
    intros cfg k i txt m H. unfold open_payload in H.
    destruct (decode_token (c_canonical cfg) txt) as [raw|]; [|injection H as H; auto].
    destruct (open_bytes' raw (c_key cfg) (compute_aad k i) (token_version k)) as [sp|]; [|injection H as H; auto].
    destruct (unpack sp); [discriminate H|injection H as H; auto].
  Qed.

  Lemma ttl_rej : forall k ttl now pl m, ttl_check k ttl now pl = Rej m -> m = MExpired k.
  Proof.
    intros k ttl now pl m H. unfold ttl_check in H. destruct (0 <? ttl)%Z; [|discriminate H].
    destruct (uint_at 8 pl 0); [|discriminate H]. destruct (ttl <? now - Z.of_N n)%Z; [|discriminate H].
    injection H as H. auto.
  Qed.

  Lemma read_segment_rej : forall k d pos m, read_segment k d pos = Rej m -> m = MMalformed k.
  Proof.
    intros k d pos m H. unfold read_segment in H.
    destruct (blen d <? pos + HEADER_LEN); [injection H as H; auto|].
    destruct (uint_at 4 d pos); [|discriminate H].
    destruct (blen d <? pos + HEADER_LEN + n); [injection H as H; auto|discriminate H].
  Qed.

  Lemma parse_cursor_rej : forall pl m, parse_cursor pl = Rej m -> m = MMalformed KCursor.
  Proof.
    intros pl m H. rewrite parse_cursor_is_dec in H. unfold cursor_view in H.
    destruct (dec cursor_layout pl); [|injection H as H; auto]. shape H; injection H as H; auto.
  Qed.
  Lemma parse_call_rej : forall pl m, parse_call pl = Rej m -> m = MMalformed KCall.
  Proof.
    intros pl m H. rewrite parse_call_is_dec in H. unfold call_view in H.
    destruct (dec call_layout pl); [|injection H as H; auto]. shape H; injection H as H; auto.
  Qed.

  Definition token_classes (k : kind) : list msg := [MMalformed k; MSig k; MPayload; MExpired k].

  Lemma open_cursor_rej : forall cfg now i txt m,
    open_cursor' cfg now i txt = Rej m -> In m (token_classes KCursor).
  Proof.
    intros cfg now i txt m H. unfold open_cursor_token in H. unfold token_classes.
    destruct (open_payload' cfg KCursor i txt) as [pl| m' |] eqn:P; try discriminate H.
    - destruct (parse_cursor pl) as [r| m' |] eqn:Q; try discriminate H.
      + destruct (ttl_check KCursor (c_ttl cfg) now pl) as [u| m' |] eqn:T; try discriminate H.
        injection H as H. subst m'. apply ttl_rej in T. subst m. cbn; auto.
      + injection H as H. subst m'. apply parse_cursor_rej in Q. subst m. cbn; auto.
    - injection H as H. subst m'. apply open_payload_rej in P. destruct P as [P|[P|P]]; subst m; cbn; auto.
  Qed.

  Lemma open_call_rej : forall cfg now i txt m,
    open_call' cfg now i txt = Rej m -> In m (token_classes KCall).
  Proof.
    intros cfg now i txt m H. unfold open_call_token in H. unfold token_classes.
    destruct (open_payload' cfg KCall i txt) as [pl| m' |] eqn:P; try discriminate H.
    - destruct (parse_call pl) as [r| m' |] eqn:Q; try discriminate H.
      + destruct (ttl_check KCall (c_ttl cfg) now pl) as [u| m' |] eqn:T; try discriminate H.
        injection H as H. subst m'. apply ttl_rej in T. subst m. cbn; auto.
      + injection H as H. subst m'. apply parse_call_rej in Q. subst m. cbn; auto.
    - injection H as H. subst m'. apply open_payload_rej in P. destruct P as [P|[P|P]]; subst m; cbn; auto.
  Qed.

  (* every rejection of the token layer is one of these ten messages (all HTTP 400) *)
  Theorem reject_classes : forall cfg now1 now2 cache q m,
    exchange' cfg now1 now2 cache q = Rejected m ->
    In m ([MMissingCursor; MMissingCall; MMismatch] ++ token_classes KCursor ++ token_classes KCall).
  Proof.
    intros cfg now1 now2 cache q m H. unfold exchange in H.
    destruct (q_cursor q) as [ctxt|]; [|injection H as H; subst m; cbn; auto].
    destruct (open_cursor' cfg now1 (q_ident q) ctxt) as [[st cid]| m' |] eqn:O; try discriminate H.
    - destruct (cache cid (cache_identity (q_ident q))); [discriminate H|].
      destruct (q_call q) as [ktxt|]; [|injection H as H; subst m; cbn; auto].
      destruct (open_call' cfg now2 (q_ident q) ktxt) as [f| m' |] eqn:O2; try discriminate H.
      + destruct (negb (Bytes.bytes_eqb (f_call_id f) cid)); [|discriminate H]. injection H as H; subst m; cbn; auto.
      + injection H as H. subst m'. apply open_call_rej in O2. apply in_or_app. right. apply in_or_app. right. exact O2.
    - injection H as H. subst m'. apply open_cursor_rej in O. apply in_or_app. right. apply in_or_app. left. exact O.
  Qed.

  (* whatever makes the envelope fail to open -- foreign key, other identity, other kind, wrong version byte, too short,
     any modification of nonce / ciphertext / tag -- the caller sees the same message *)
  Theorem auth_failures_indistinguishable : forall cfg k i txt raw,
    decode_token (c_canonical cfg) txt = Some raw ->
    open_bytes' raw (c_key cfg) (compute_aad k i) (token_version k) = None ->
    open_payload' cfg k i txt = Rej (MSig k).
  Proof. intros cfg k i txt raw Hd Ho. unfold open_payload. rewrite Hd, Ho. reflexivity. Qed.

  Theorem auth_failure_causes : forall raw key aad ver,
    open_bytes' raw key aad ver = None <->
    blen raw < MIN_TOKEN_LEN \/ hd 256 raw <> ver \/
    aead_open (normalize_key key) aad (firstn 24 (tl raw)) (skipn 24 (tl raw)) = None.
  Proof.
    intros raw key aad ver. unfold open_bytes. destruct (blen raw <? MIN_TOKEN_LEN) eqn:E.
    - apply N.ltb_lt in E. split; auto.
    - apply N.ltb_ge in E. destruct raw as [|v t].
      + split; auto.
      + cbn [hd tl]. destruct (v =? ver) eqn:Ev; cbn [negb].
        * apply N.eqb_eq in Ev. subst v. split.
          { intros H. right. right. exact H. }
          { intros [H|[H|H]]; [lia|contradiction|exact H]. }
        * apply N.eqb_neq in Ev. split; auto.
  Qed.

  Theorem exchange_no_crash : forall cfg now1 now2 cache q, exchange' cfg now1 now2 cache q <> Crashed.
  Proof.
    intros cfg now1 now2 cache q H. unfold exchange in H.
    destruct (q_cursor q) as [ctxt|]; [|discriminate H].
    destruct (open_cursor' cfg now1 (q_ident q) ctxt) as [[st cid]| m' |] eqn:O; try discriminate H.
    - destruct (cache cid (cache_identity (q_ident q))); [discriminate H|].
      destruct (q_call q) as [ktxt|]; [|discriminate H].
      destruct (open_call' cfg now2 (q_ident q) ktxt) as [f| m' |] eqn:O2; try discriminate H.
      + destruct (negb (Bytes.bytes_eqb (f_call_id f) cid)); discriminate H.
      + unfold open_call_token in O2.
        destruct (open_payload' cfg KCall (q_ident q) ktxt) as [pl| |] eqn:P; try discriminate O2.
        * destruct (parse_call pl) as [r| |] eqn:Q; try discriminate O2.
          { destruct (ttl_check KCall (c_ttl cfg) now2 pl) as [u| |] eqn:T; try discriminate O2.
            apply parse_call_len in Q. apply (ttl_check_no_crash KCall (c_ttl cfg) now2 pl); [lia|exact T]. }
          { destruct (parse_no_crash pl) as [_ Hn]. contradiction. }
        * unfold open_payload in P.
          destruct (decode_token (c_canonical cfg) ktxt); [|discriminate P].
          destruct (open_bytes' b (c_key cfg) (compute_aad KCall (q_ident q)) (token_version KCall)); [|discriminate P].
          destruct (unpack b0); discriminate P.
    - unfold open_cursor_token in O.
      destruct (open_payload' cfg KCursor (q_ident q) ctxt) as [pl| |] eqn:P; try discriminate O.
      + destruct (parse_cursor pl) as [r| |] eqn:Q; try discriminate O.
        * destruct (ttl_check KCursor (c_ttl cfg) now1 pl) as [u| |] eqn:T; try discriminate O.
          apply parse_cursor_len in Q. apply (ttl_check_no_crash KCursor (c_ttl cfg) now1 pl); [lia|exact T].
        * destruct (parse_no_crash pl) as [Hn _]. contradiction.
      + unfold open_payload in P.
        destruct (decode_token (c_canonical cfg) ctxt); [|discriminate P].
        destruct (open_bytes' b (c_key cfg) (compute_aad KCursor (q_ident q)) (token_version KCursor)); [|discriminate P].
        destruct (unpack b0); discriminate P.
  Qed.

  (* with the canonical armour check, the text that was served is the canonical text of the sealed envelope *)
  Theorem served_text_canonical : forall txt raw, decode_token true txt = Some raw -> txt = b64encode raw.
  Proof.
    intros txt raw H. unfold decode_token in H. destruct (b64decode txt) as [r|]; [|discriminate H].
    cbn [andb] in H. destruct (Bytes.bytes_eqb (b64encode r) txt) eqn:E; cbn [negb] in H; [|discriminate H].
    injection H as H. subst r. apply bytes_eqb_eq in E. symmetry. exact E.
  Qed.
End Ideal.
