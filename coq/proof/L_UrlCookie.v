(* C37: the signed session cookie and the callback's decision. *)
From Coq Require Import List NArith Bool Lia ZifyBool Arith.
From VGI Require Import Bytes Layout Utf8 M_Url L_Url.
Import ListNotations.
Open Scope N_scope.

Lemma read_field_enc : forall b rest, N.of_nat (length b) < 65536 ->
  read_field (le_encode 2 (N.of_nat (length b)) ++ b ++ rest) = Some (utf8_decode b, rest).
Proof.
  intros b rest Hlen. pose proof (le_encode_length 2 (N.of_nat (length b))) as Hl.
  pose proof (le_decode_encode 2 (N.of_nat (length b))) as Hd.
  destruct (le_encode 2 (N.of_nat (length b))) as [|lo [|hi [|x r]]]; try discriminate Hl.
  cbn [app]. unfold read_field. rewrite Hd by (cbn; exact Hlen). rewrite Nat2N.id.
  rewrite firstn_app_exact. rewrite skipn_app_exact. reflexivity.
Qed.

(* the payload _pack_oauth_cookie builds, written out *)
Lemma enc_cookie_inv : forall t cv st url rt payload,
  enc cookie_layout (cookie_args t cv st url rt) = Some payload ->
  t < 256 ^ 8 /\ N.of_nat (length cv) < 65536 /\ N.of_nat (length st) < 65536 /\
  N.of_nat (length url) < 65536 /\ N.of_nat (length rt) < 65536 /\
  payload = cookie_version :: le_encode 8 t ++
            (le_encode 2 (N.of_nat (length cv)) ++ cv ++
            (le_encode 2 (N.of_nat (length st)) ++ st ++
            (le_encode 2 (N.of_nat (length url)) ++ url ++
            (le_encode 2 (N.of_nat (length rt)) ++ rt ++ [])))).
Proof.
  intros t cv st url rt payload H. unfold cookie_layout, cookie_args in H.
  cbn [enc enc_field] in H. change (bytes_ok [cookie_version]) with true in H. cbv iota in H.
  destruct (t <? wmax W64) eqn:Et; [|discriminate].
  destruct ((N.of_nat (length cv) <? wmax W16) && bytes_ok cv) eqn:E1; [|discriminate].
  destruct ((N.of_nat (length st) <? wmax W16) && bytes_ok st) eqn:E2; [|discriminate].
  destruct ((N.of_nat (length url) <? wmax W16) && bytes_ok url) eqn:E3; [|discriminate].
  destruct ((N.of_nat (length rt) <? wmax W16) && bytes_ok rt) eqn:E4; [|discriminate].
  apply andb_true_iff in E1, E2, E3, E4. destruct E1 as [E1 _], E2 as [E2 _], E3 as [E3 _], E4 as [E4 _].
  change (wmax W16) with 65536 in *. change (wmax W64) with (256 ^ 8) in Et.
  inversion H as [Hp]. cbn [wbytes app]. repeat rewrite <- app_assoc.
  repeat split; try (apply N.ltb_lt; assumption). 
Qed.

Section CookieProofs.
  Variable mac : bytes -> bytes -> bytes.
  Variable key : bytes.
  Hypothesis mac_len : forall k m, length (mac k m) = 32%nat.

  (* what _unpack_oauth_cookie does with a payload the server packed, whatever the tag *)
  Lemma unpack_of_enc : forall t cv st url rt payload tag now,
    enc cookie_layout (cookie_args t cv st url rt) = Some payload -> length tag = 32%nat ->
    unpack_cookie mac key cookie_version 32 600 now (payload ++ tag) =
      if negb (bytes_eqb tag (mac key payload)) then UValueError
      else if (now <? t) || (600 <? now - t) then UValueError
      else match utf8_decode cv with None => UValueError | Some a =>
           match utf8_decode st with None => UValueError | Some b =>
           match utf8_decode url with None => UValueError | Some c =>
           match utf8_decode rt with None => UValueError | Some d => UOk a b c d end end end end.
  Proof.
    intros t cv st url rt payload tag now He Htag.
    destruct (enc_cookie_inv _ _ _ _ _ _ He) as [Ht [L1 [L2 [L3 [L4 Hp]]]]].
    unfold unpack_cookie.
    assert (Hlen : (49 <= length (payload ++ tag))%nat).
    { rewrite app_length, Htag. rewrite Hp. cbn [length]. repeat rewrite app_length. repeat rewrite le_encode_length. cbn [length]. lia. }
    destruct (length (payload ++ tag) <? 49)%nat eqn:E49; [apply Nat.ltb_lt in E49; lia|].
    assert (Hn : (length (payload ++ tag) - 32 = length payload)%nat) by (rewrite app_length, Htag; lia).
    rewrite Hn. rewrite firstn_app_exact. rewrite skipn_app_exact.
    destruct (negb (bytes_eqb tag (mac key payload))); [reflexivity|].
    rewrite Hp. rewrite N.eqb_refl. cbn [negb].
    assert (H8 : (length (le_encode 8 t ++ le_encode 2 (N.of_nat (length cv)) ++ cv ++ le_encode 2 (N.of_nat (length st)) ++ st ++
                   le_encode 2 (N.of_nat (length url)) ++ url ++ le_encode 2 (N.of_nat (length rt)) ++ rt ++ []) <? 8)%nat = false).
    { apply Nat.ltb_ge. rewrite app_length, le_encode_length. lia. }
    rewrite H8. rewrite (firstn_app_exact' 8) by apply le_encode_length. rewrite (skipn_app_exact' 8) by apply le_encode_length.
    rewrite le_decode_encode by exact Ht. change (0 <? 600) with true. cbn [andb].
    destruct ((now <? t) || (600 <? now - t)); [reflexivity|].
    rewrite (read_field_enc cv _ L1). destruct (utf8_decode cv); [|reflexivity].
    rewrite (read_field_enc st _ L2). destruct (utf8_decode st); [|reflexivity].
    rewrite (read_field_enc url _ L3). destruct (utf8_decode url); [|reflexivity].
    rewrite (read_field_enc rt _ L4). destruct (utf8_decode rt); reflexivity.
  Qed.

  (* round trip: a cookie the server packed is accepted within its lifetime and yields the packed fields *)
  Theorem cookie_roundtrip : forall t cv st url rt raw now a b c d,
    pack_cookie mac key t cv st url rt = Some raw ->
    utf8_decode cv = Some a -> utf8_decode st = Some b -> utf8_decode url = Some c -> utf8_decode rt = Some d ->
    t <= now <= t + 600 ->
    unpack_cookie mac key cookie_version 32 600 now raw = UOk a b c d.
  Proof.
    intros t cv st url rt raw now a b c d Hp Ha Hb Hc Hd Hage. unfold pack_cookie in Hp.
    destruct (enc cookie_layout (cookie_args t cv st url rt)) as [payload|] eqn:He; [|discriminate].
    inversion Hp; subst raw. rewrite (unpack_of_enc _ _ _ _ _ _ _ now He (mac_len key payload)).
    rewrite bytes_eqb_refl. cbn [negb]. assert (E : (now <? t) || (600 <? now - t) = false) by lia. rewrite E.
    rewrite Ha, Hb, Hc, Hd. reflexivity.
  Qed.

  (* acceptance needs the right tag, the current version and an age within [0, 600] *)
  Theorem cookie_requires_valid_mac : forall now raw a b c d,
    unpack_cookie mac key cookie_version 32 600 now raw = UOk a b c d ->
    exists payload tag, raw = payload ++ tag /\ length tag = 32%nat /\ tag = mac key payload /\
      exists p1, payload = cookie_version :: p1 /\
        le_decode (firstn 8 p1) <= now <= le_decode (firstn 8 p1) + 600.
  Proof.
    intros now raw a b c d H. unfold unpack_cookie in H.
    destruct (length raw <? 49)%nat eqn:E49; [discriminate|]. apply Nat.ltb_ge in E49.
    set (n := (length raw - 32)%nat) in *.
    destruct (negb (bytes_eqb (skipn n raw) (mac key (firstn n raw)))) eqn:Em; [discriminate|].
    apply negb_false_iff in Em. apply bytes_eqb_eq in Em.
    exists (firstn n raw), (skipn n raw). split; [symmetry; apply firstn_skipn|]. split; [rewrite skipn_length; unfold n; lia|].
    split; [exact Em|].
    destruct (firstn n raw) as [|v p1]; [discriminate|].
    destruct (negb (v =? cookie_version)) eqn:Ev; [discriminate|]. apply negb_false_iff in Ev. apply N.eqb_eq in Ev. subst v.
    exists p1. split; [reflexivity|].
    destruct (length p1 <? 8)%nat; [discriminate|].
    change (0 <? 600) with true in H. cbn [andb] in H.
    destruct ((now <? le_decode (firstn 8 p1)) || (600 <? now - le_decode (firstn 8 p1))) eqn:Ea; [discriminate|]. lia.
  Qed.

  (* a cookie whose payload the server packed (what an ideal MAC guarantees of every cookie that verifies)
     yields exactly the packed fields, and only within the lifetime *)
  Theorem cookie_authentic : forall now raw a b c d t cv st url rt,
    unpack_cookie mac key cookie_version 32 600 now raw = UOk a b c d ->
    enc cookie_layout (cookie_args t cv st url rt) = Some (firstn (length raw - 32) raw) ->
    utf8_decode cv = Some a /\ utf8_decode st = Some b /\ utf8_decode url = Some c /\ utf8_decode rt = Some d /\
    t <= now <= t + 600.
  Proof.
    intros now raw a b c d t cv st url rt H He.
    destruct (cookie_requires_valid_mac _ _ _ _ _ _ H) as [payload [tag [Hr [Ht _]]]].
    assert (Hp : firstn (length raw - 32) raw = payload).
    { rewrite Hr. rewrite app_length, Ht. replace (length payload + 32 - 32)%nat with (length payload) by lia. apply firstn_app_exact. }
    rewrite Hp in He. rewrite Hr in H. rewrite (unpack_of_enc _ _ _ _ _ _ _ now He Ht) in H.
    destruct (negb (bytes_eqb tag (mac key payload))); [discriminate|].
    destruct ((now <? t) || (600 <? now - t)) eqn:Ea; [discriminate|].
    destruct (utf8_decode cv); [|discriminate]. destruct (utf8_decode st); [|discriminate].
    destruct (utf8_decode url); [|discriminate]. destruct (utf8_decode rt); [|discriminate].
    inversion H; subst. repeat split; lia.
  Qed.

  Variable b64d : str -> option bytes.

  (* the callback goes on to the token exchange only with a cookie that unpacks and whose state matches *)
  Theorem callback_requires_cookie : forall now error code state cookie cv url rt,
    callback mac key b64d cookie_version 32 600 now error code state cookie = CbProceed cv url rt ->
    exists c raw st, cookie = Some c /\ c <> [] /\ b64d c = Some raw /\
      unpack_cookie mac key cookie_version 32 600 now raw = UOk cv st url rt /\ state = Some st /\ st <> [] /\
      (error = None \/ error = Some []) /\ (exists cd, code = Some cd /\ cd <> []).
  Proof.
    intros now error code state cookie cv url rt H. unfold callback in H.
    assert (He : error = None \/ error = Some []).
    { destruct error as [[|e0 e']|]; [right; reflexivity|discriminate|left; reflexivity]. }
    assert (H' : match code, state with
                 | Some (_ :: _), Some ((_ :: _) as st_param) =>
                     match cookie with
                     | Some ((_ :: _) as c) =>
                         match b64d c with
                         | None => CbBadCookie
                         | Some raw =>
                             match unpack_cookie mac key cookie_version 32 600 now raw with
                             | UValueError => CbBadCookie
                             | UCrash => CbCrash
                             | UOk cv st url rt =>
                                 if negb (all_ascii st_param && all_ascii st) then CbCrash
                                 else if str_eqb st_param st then CbProceed cv url rt else CbStateMismatch
                             end
                         end
                     | _ => CbNoCookie
                     end
                 | _, _ => CbMissingParams
                 end = CbProceed cv url rt).
    { destruct He as [E|E]; subst error; exact H. }
    clear H. destruct code as [[|c0 cd]|]; try discriminate. destruct state as [[|s0 sp]|]; try discriminate.
    destruct cookie as [[|k0 ck]|]; try discriminate.
    destruct (b64d (k0 :: ck)) as [raw|] eqn:Eb; [|discriminate].
    destruct (unpack_cookie mac key cookie_version 32 600 now raw) as [a b c d| |] eqn:Eu; try discriminate.
    destruct (negb (all_ascii (s0 :: sp) && all_ascii b)); [discriminate|].
    destruct (str_eqb (s0 :: sp) b) eqn:Es; [|discriminate]. apply str_eqb_eq in Es. inversion H'; subst.
    exists (k0 :: ck), raw, (s0 :: sp). split; [reflexivity|]. split; [discriminate|]. split; [exact Eb|].
    split; [exact Eu|]. split; [reflexivity|]. split; [discriminate|]. split; [exact He|].
    exists (c0 :: cd). split; [reflexivity|discriminate].
  Qed.
End CookieProofs.
