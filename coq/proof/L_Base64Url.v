(* The urlsafe base64 armour of model/M_StickyTok.v (C25: sticky session tokens) round-trips for EVERY byte string:
     decode_text (b64u_encode b) = Some b
   i.e.  base64.urlsafe_b64decode(s + "=" * (-len(s) % 4))  after  header.strip().encode("ascii"),  applied to
   base64.urlsafe_b64encode(b).rstrip(b"=").decode().

   Proof shape: per-sextet facts are sweeps over 64 values, the div/mod recombination identities are linear arithmetic
   (lia with Z.to_euclidean_division_equations); the lenient decoder loop is followed three bytes / four characters
   at a time ([list_ind3]) with the accumulator generalised; the restored padding has the length the tail needs
   because the text length mod 4 is decided by the last group alone. *)
From Coq Require Import List NArith ZArith Bool Lia ZifyBool.
From VGI Require Import Bytes FinSweep M_StickyTok.
From VGI Require L_StickyTokHist.
Import ListNotations.
Open Scope N_scope.
Ltac Zify.zify_post_hook ::= Z.to_euclidean_division_equations.   (* N.modulo zifies to Z.rem *)

(* ---------- sextets ---------- *)
Lemma b64u_val_chr : forall v, v < 64 -> b64u_val (b64u_chr v) = Some v.
Proof.
  intros v Hv.
  pose proof (sweep1 64 (fun v => match b64u_val (b64u_chr v) with Some w => w =? v | None => false end)) as S.
  specialize (S ltac:(vm_compute; reflexivity) v Hv). cbv beta in S.
  destruct (b64u_val (b64u_chr v)) as [w|]; [|discriminate S]. apply N.eqb_eq in S. subst w. reflexivity.
Qed.

Lemma b64u_chr_not_pad : forall v, v < 64 -> (b64u_chr v =? 61) = false.
Proof.
  intros v Hv.
  pose proof (sweep1 64 (fun v => negb (b64u_chr v =? 61)) ltac:(vm_compute; reflexivity) v Hv) as S.
  cbv beta in S. apply negb_true_iff in S. exact S.
Qed.

(* the characters of the alphabet are ASCII and are not stripped *)
Definition text_char (c : N) : bool := (c <? 128) && negb (is_space c).
Lemma b64u_chr_text : forall v, v < 64 -> text_char (b64u_chr v) = true.
Proof. intros v Hv. exact (sweep1 64 (fun v => text_char (b64u_chr v)) ltac:(vm_compute; reflexivity) v Hv). Qed.

(* ---------- one decoder step on a data character, per quad position ---------- *)
Lemma loop_data : forall v r q l p acc, v < 64 ->
  b64_loop (b64u_chr v :: r) q l p acc =
  if q =? 0 then b64_loop r 1 v 0 acc
  else if q =? 1 then b64_loop r 2 (v mod 16) 0 ((l * 4 + v / 16) :: acc)
  else if q =? 2 then b64_loop r 3 (v mod 4) 0 ((l * 16 + v / 4) :: acc)
  else b64_loop r 0 0 0 ((l * 64 + v) :: acc).
Proof.
  intros v r q l p acc Hv. cbn [b64_loop]. rewrite (b64u_chr_not_pad v Hv), (b64u_val_chr v Hv). reflexivity.
Qed.

Lemma loop_data0 : forall v r l p acc, v < 64 -> b64_loop (b64u_chr v :: r) 0 l p acc = b64_loop r 1 v 0 acc.
Proof. intros. rewrite loop_data by assumption. reflexivity. Qed.
Lemma loop_data1 : forall v r l p acc, v < 64 ->
  b64_loop (b64u_chr v :: r) 1 l p acc = b64_loop r 2 (v mod 16) 0 ((l * 4 + v / 16) :: acc).
Proof. intros. rewrite loop_data by assumption. reflexivity. Qed.
Lemma loop_data2 : forall v r l p acc, v < 64 ->
  b64_loop (b64u_chr v :: r) 2 l p acc = b64_loop r 3 (v mod 4) 0 ((l * 16 + v / 4) :: acc).
Proof. intros. rewrite loop_data by assumption. reflexivity. Qed.
Lemma loop_data3 : forall v r l p acc, v < 64 ->
  b64_loop (b64u_chr v :: r) 3 l p acc = b64_loop r 0 0 0 ((l * 64 + v) :: acc).
Proof. intros. rewrite loop_data by assumption. reflexivity. Qed.

(* the restored padding *)
Lemma loop_pad2 : forall l acc, b64_loop [61; 61] 2 l 0 acc = Some (rev acc).
Proof. reflexivity. Qed.
Lemma loop_pad3 : forall l acc, b64_loop [61] 3 l 0 acc = Some (rev acc).
Proof. reflexivity. Qed.

(* ---------- the sextets of the encoder are sextets; the decoder's recombination gives the bytes back ---------- *)
Definition s1 (x : N) : N := x / 4.
Definition s2 (x y : N) : N := (x mod 4) * 16 + y / 16.
Definition s3 (y z : N) : N := (y mod 16) * 4 + z / 64.
Definition s4 (z : N) : N := z mod 64.
Definition t2 (x : N) : N := (x mod 4) * 16.       (* second sextet of a 1-byte tail *)
Definition t3 (y : N) : N := (y mod 16) * 4.       (* third sextet of a 2-byte tail *)

Lemma s1_lt : forall x, x < 256 -> s1 x < 64.        Proof. unfold s1. intros. lia. Qed.
Lemma s4_lt : forall x, s4 x < 64.                   Proof. unfold s4. intros. lia. Qed.
Lemma t2_lt : forall x, t2 x < 64.                   Proof. unfold t2. intros. lia. Qed.
Lemma t3_lt : forall x, t3 x < 64.                   Proof. unfold t3. intros. lia. Qed.
Lemma s2_lt : forall x y, y < 256 -> s2 x y < 64.    Proof. unfold s2. intros. lia. Qed.
Lemma s3_lt : forall y z, z < 256 -> s3 y z < 64.    Proof. unfold s3. intros. lia. Qed.

Lemma byte1_eq : forall x y, y < 256 -> s1 x * 4 + s2 x y / 16 = x.
Proof. unfold s1, s2. intros. lia. Qed.
Lemma left2_eq : forall x y, y < 256 -> s2 x y mod 16 = y / 16.
Proof. unfold s2. intros. lia. Qed.
Lemma byte2_eq : forall y z, z < 256 -> y / 16 * 16 + s3 y z / 4 = y.
Proof. unfold s3. intros. lia. Qed.
Lemma left3_eq : forall y z, z < 256 -> s3 y z mod 4 = z / 64.
Proof. unfold s3. intros. lia. Qed.
Lemma byte3_eq : forall z, z / 64 * 64 + s4 z = z.
Proof. unfold s4. intros. lia. Qed.
Lemma tail1_eq : forall x, s1 x * 4 + t2 x / 16 = x.
Proof. unfold s1, t2. intros. lia. Qed.
Lemma tail2_eq : forall y, y / 16 * 16 + t3 y / 4 = y.
Proof. unfold t3. intros. lia. Qed.

Lemma bytes_ok_cons_inv : forall x b, bytes_ok (x :: b) = true -> x < 256 /\ bytes_ok b = true.
Proof.
  intros x b H. rewrite bytes_ok_cons in H. apply andb_prop in H. destruct H as [Hx Hb]. apply N.ltb_lt in Hx.
  split; assumption.
Qed.

(* ---------- the padding the reader restores depends on the last group only ---------- *)
Lemma pad_len_group : forall (a b c d : N) (t : list N), pad_len (blen (a :: b :: c :: d :: t)) = pad_len (blen t).
Proof.
  intros a b c d t. unfold pad_len, blen. cbn [length]. f_equal.
  replace (N.of_nat (S (S (S (S (length t)))))) with (N.of_nat (length t) + 1 * 4) by lia.
  rewrite N.mod_add by discriminate. reflexivity.
Qed.

(* ---------- the loop, with the accumulator generalised ---------- *)
Lemma b64_loop_encode : forall b acc,
  bytes_ok b = true ->
  b64_loop (b64u_encode b ++ repeat 61 (pad_len (blen (b64u_encode b)))) 0 0 0 acc = Some (rev acc ++ b).
Proof.
  induction b as [|x|x y|x y z r IH] using list_ind3; intros acc Hok.
  - cbn. rewrite app_nil_r. reflexivity.
  - apply bytes_ok_cons_inv in Hok. destruct Hok as [Hx _].
    cbn [b64u_encode]. fold (s1 x). fold (t2 x).
    change (pad_len (blen [b64u_chr (s1 x); b64u_chr (t2 x)])) with 2%nat. cbn [repeat app].
    rewrite loop_data0 by (apply s1_lt; exact Hx). rewrite loop_data1 by apply t2_lt.
    rewrite loop_pad2. rewrite (tail1_eq x). reflexivity.
  - apply bytes_ok_cons_inv in Hok. destruct Hok as [Hx Hok]. apply bytes_ok_cons_inv in Hok. destruct Hok as [Hy _].
    cbn [b64u_encode]. fold (s1 x). fold (s2 x y). fold (t3 y).
    change (pad_len (blen [b64u_chr (s1 x); b64u_chr (s2 x y); b64u_chr (t3 y)])) with 1%nat. cbn [repeat app].
    rewrite loop_data0 by (apply s1_lt; exact Hx). rewrite loop_data1 by (apply s2_lt; exact Hy).
    rewrite loop_data2 by apply t3_lt. rewrite loop_pad3.
    rewrite (byte1_eq x y Hy), (left2_eq x y Hy), (tail2_eq y).
    cbn [rev app]. rewrite <- app_assoc. reflexivity.
  - apply bytes_ok_cons_inv in Hok. destruct Hok as [Hx Hok]. apply bytes_ok_cons_inv in Hok. destruct Hok as [Hy Hok].
    apply bytes_ok_cons_inv in Hok. destruct Hok as [Hz Hok].
    cbn [b64u_encode]. fold (s1 x). fold (s2 x y). fold (s3 y z). fold (s4 z).
    rewrite pad_len_group. cbn [app].
    rewrite loop_data0 by (apply s1_lt; exact Hx). rewrite loop_data1 by (apply s2_lt; exact Hy).
    rewrite loop_data2 by (apply s3_lt; exact Hz). rewrite loop_data3 by apply s4_lt.
    rewrite (byte1_eq x y Hy), (left2_eq x y Hy), (byte2_eq y z Hz), (left3_eq y z Hz), (byte3_eq z).
    rewrite (IH _ Hok). cbn [rev app]. rewrite <- !app_assoc. reflexivity.
Qed.

Theorem b64_lenient_encode : forall b,
  bytes_ok b = true -> b64_lenient (b64u_encode b ++ repeat 61 (pad_len (blen (b64u_encode b)))) = Some b.
Proof. intros b Hok. unfold b64_lenient. rewrite (b64_loop_encode b [] Hok). reflexivity. Qed.

(* ---------- header.strip() and .encode("ascii") leave the minted text alone ---------- *)
Lemma b64u_encode_text : forall b, bytes_ok b = true -> forallb text_char (b64u_encode b) = true.
Proof.
  induction b as [|x|x y|x y z r IH] using list_ind3; intros Hok.
  - reflexivity.
  - apply bytes_ok_cons_inv in Hok. destruct Hok as [Hx _]. cbn [b64u_encode forallb]. fold (s1 x). fold (t2 x).
    rewrite (b64u_chr_text _ (s1_lt x Hx)), (b64u_chr_text _ (t2_lt x)). reflexivity.
  - apply bytes_ok_cons_inv in Hok. destruct Hok as [Hx Hok]. apply bytes_ok_cons_inv in Hok. destruct Hok as [Hy _].
    cbn [b64u_encode forallb]. fold (s1 x). fold (s2 x y). fold (t3 y).
    rewrite (b64u_chr_text _ (s1_lt x Hx)), (b64u_chr_text _ (s2_lt x y Hy)), (b64u_chr_text _ (t3_lt y)). reflexivity.
  - apply bytes_ok_cons_inv in Hok. destruct Hok as [Hx Hok]. apply bytes_ok_cons_inv in Hok. destruct Hok as [Hy Hok].
    apply bytes_ok_cons_inv in Hok. destruct Hok as [Hz Hok].
    cbn [b64u_encode forallb]. fold (s1 x). fold (s2 x y). fold (s3 y z). fold (s4 z).
    rewrite (b64u_chr_text _ (s1_lt x Hx)), (b64u_chr_text _ (s2_lt x y Hy)), (b64u_chr_text _ (s3_lt y z Hz)),
            (b64u_chr_text _ (s4_lt z)), (IH Hok). reflexivity.
Qed.

Lemma lstrip_text : forall s, forallb text_char s = true -> lstrip s = s.
Proof.
  intros [|c r] H; [reflexivity|]. cbn [forallb] in H. apply andb_prop in H. destruct H as [H _].
  unfold text_char in H. apply andb_prop in H. destruct H as [_ H]. apply negb_true_iff in H.
  cbn [lstrip]. rewrite H. reflexivity.
Qed.

Lemma forallb_rev : forall {A} (f : A -> bool) l, forallb f l = true -> forallb f (rev l) = true.
Proof.
  intros A f l H. rewrite forallb_forall in *. intros x Hx. apply H. apply in_rev. exact Hx.
Qed.

Lemma strip_text : forall s, forallb text_char s = true -> strip s = s.
Proof.
  intros s H. unfold strip. rewrite (lstrip_text s H). rewrite (lstrip_text (rev s) (forallb_rev _ _ H)).
  apply rev_involutive.
Qed.

Lemma text_ascii : forall s, forallb text_char s = true -> forallb (fun c => c <? 128) s = true.
Proof.
  intros s H. rewrite forallb_forall in *. intros c Hc. specialize (H c Hc). unfold text_char in H.
  apply andb_prop in H. destruct H as [H _]. exact H.
Qed.

(* ---------- the round trip ---------- *)
Theorem decode_text_encode : forall b, bytes_ok b = true -> decode_text (b64u_encode b) = Some b.
Proof.
  intros b Hok. pose proof (b64u_encode_text b Hok) as T. unfold decode_text. cbv zeta.
  rewrite (strip_text _ T), (text_ascii _ T). apply b64_lenient_encode. exact Hok.
Qed.

Corollary b64u_encode_inj : forall b1 b2,
  bytes_ok b1 = true -> bytes_ok b2 = true -> b64u_encode b1 = b64u_encode b2 -> b1 = b2.
Proof.
  intros b1 b2 H1 H2 E. apply decode_text_encode in H1. apply decode_text_encode in H2. rewrite E in H1. congruence.
Qed.

(* the envelope is a byte string as soon as nonce and AEAD output are *)
Lemma seal_bytes_ok : forall (aead_seal : bytes -> bytes -> bytes -> bytes -> bytes) payload key aad nonce,
  bytes_ok nonce = true -> bytes_ok (aead_seal key aad nonce payload) = true ->
  bytes_ok (seal_bytes aead_seal payload key aad nonce) = true.
Proof.
  intros aead_seal payload key aad nonce Hn Ha. unfold seal_bytes. rewrite bytes_ok_cons, bytes_ok_app, Hn, Ha.
  reflexivity.
Qed.

(* end to end: for every envelope the armoured text reads back as that envelope; in particular the text an
   open_session mints (whenever nonce and AEAD output are byte strings) *)
Theorem armour_roundtrip :
  (forall raw, bytes_ok raw = true -> decode_text (b64u_encode raw) = Some raw) /\
  (forall aead_seal aead_open utf8_replace codec ws s o s' k i c sid exp n txt,
     step aead_seal aead_open utf8_replace codec ws s o = (s', EvMinted k i c sid exp n (Some txt)) ->
     bytes_ok n = true -> (forall key aad p, bytes_ok (aead_seal key aad n p) = true) ->
     exists w sb, nth_error ws k = Some w /\ utf8_encode (w_id w) = Some sb /\
       decode_text txt
       = Some (seal_bytes aead_seal (session_plain c sb sid (tok_secs exp)) (w_key w) (compute_aad i) n)).
Proof.
  split; [exact decode_text_encode|].
  intros aead_seal aead_open utf8_replace codec ws s o s' k i c sid exp n txt H Hn Ha.
  destruct (L_StickyTokHist.minted_text_is_envelope aead_seal aead_open utf8_replace codec ws s o s' k i c sid exp n txt H)
    as [w [sb [Hw [Hu [_ [Ht _]]]]]].
  exists w, sb. split; [exact Hw|]. split; [exact Hu|]. subst txt. apply decode_text_encode.
  apply seal_bytes_ok; [exact Hn|apply Ha].
Qed.

(* non-vacuity: a 1-, 2- and 3-byte remainder, with high bits set; '-' and '_' are produced and read back *)
Example b64u_roundtrip_ex :
  decode_text (b64u_encode [255]) = Some [255] /\ decode_text (b64u_encode [0; 200]) = Some [0; 200] /\
  decode_text (b64u_encode [251; 255; 3; 250]) = Some [251; 255; 3; 250] /\
  b64u_encode [251; 255; 3; 250] = [45; 95; 56; 68; 45; 103].
Proof. vm_compute. repeat split; reflexivity. Qed.
