(* L_AccessLogThm: the C34 statements assembled from L_AccessLog. *)
From Coq Require Import List NArith ZArith Bool Lia String.
From VGI Require Import Corr Regex M_Wire M_AccessLog L_AccessLog.
Import ListNotations.
Open Scope N_scope.

Lemma tail_keys_none : forall E e k,
  In k [s "request_data"; s "original_request_bytes"; s "truncated"; s "timestamp"; s "server_id"; s "protocol";
        s "protocol_hash"; s "method"; s "method_type"; s "principal"; s "auth_domain"; s "authenticated";
        s "remote_addr"; s "duration_ms"; s "status"; s "error_type"; s "error_message"; s "stream_id"] ->
  get k (tail_of E e) = None.
Proof.
  intros E e k Hin. apply get_tail_none;
    (cbn [In] in Hin; repeat (destruct Hin as [Hin|Hin]; [subst k; vm_compute; reflexivity|]); contradiction).
Qed.

(* every record of every dispatched request validates, whatever form the formatter chose *)
Theorem schema_valid : forall c E q sid f e,
  shp c = fixed_shape -> env_ok E = true ->
  sid <> [] -> field_ok P (s "stream_id", JStr sid) = true ->
  In e (emissions c q sid) ->
  validate model_schema (format (shp c) f (emit_record c E e)) = true.
Proof.
  intros c E q sid f e Hs HE Hne Hsid Hin.
  pose proof (emissions_ok c q sid e Hne Hsid Hin) as He.
  rewrite Hs. unfold emit_record. rewrite format_tail by (apply tail_keys_none).
  pose proof (body_valid c E e f Hs HE He) as HB.
  destruct f; try exact HB; apply validate_inert; try exact HB; apply tail_inert; destruct He as (_ & _ & _ & _ & Hh & _); exact Hh.
Qed.

(* ------------------------------------------------------------------ status / type / message in the formatted record *)
Lemma body_fields : forall c E e f,
  shp c = fixed_shape -> e_captured e = true -> (e_error e = false -> e_emsg e = []) ->
  let r := format fixed_shape f (body_of c E e) in
  rec_status r = Some (status_str (e_error e)) /\ rec_str (s "error_type") r = Some (e_etype e) /\
  rec_str (s "error_message") r =
    (if e_error e then Some (match e_emsg e with [] => (match e_etype e with [] => s "error" | t => t end) | m => m end)
     else None) /\
  rec_str (s "stream_id") r = match e_sid e with [] => None | i => Some i end.
Proof.
  intros [t dbg sh] E [m st er et em h ca cp sid sts] f Hs Hcp Hem. cbn [shp e_captured e_error e_emsg] in *. subst sh cp.
  destruct er; [|rewrite (Hem eq_refl)]; clear Hem; destruct em as [|ex em']; destruct dbg; destruct sts; destruct sid as [|sx ss]; destruct f;
    try (destruct et as [|tx tt]); vm_compute; repeat split; reflexivity.
Qed.

Lemma record_fields : forall c E e f,
  shp c = fixed_shape -> e_captured e = true -> (e_error e = false -> e_emsg e = []) ->
  let r := format (shp c) f (emit_record c E e) in
  rec_status r = Some (status_str (e_error e)) /\ rec_str (s "error_type") r = Some (e_etype e) /\
  rec_str (s "error_message") r =
    (if e_error e then Some (match e_emsg e with [] => (match e_etype e with [] => s "error" | t => t end) | m => m end)
     else None) /\
  rec_str (s "stream_id") r = match e_sid e with [] => None | i => Some i end.
Proof.
  intros c E e f Hs Hcp Hem. cbv zeta. rewrite Hs. unfold emit_record. rewrite format_tail by (apply tail_keys_none).
  pose proof (body_fields c E e f Hs Hcp Hem) as HB. cbv zeta in HB.
  destruct f; try exact HB; unfold rec_status, rec_str in *;
    rewrite !get_app_none by (apply tail_keys_none; cbn [In]; tauto); exact HB.
Qed.

Lemma emissions_quiet : forall c q sid e, shp c = fixed_shape -> In e (emissions c q sid) -> e_error e = false -> e_emsg e = [].
Proof.
  intros c q sid e Hs Hin He. pose proof (emissions_outcome c q sid e Hs Hin) as H.
  destruct (outcome c q); [destruct H as (Ha & _); congruence | destruct H as (_ & _ & Hc); exact Hc].
Qed.

Lemma emissions_captured : forall c q sid e, In e (emissions c q sid) -> e_captured e = true.
Proof.
  intros [[|] dbg sh] q sid e Hin; destruct q; cbn [emissions tr] in Hin; try contradiction; destruct Hin as [<-|[]]; unfold mk;
    repeat match goal with |- context [match ?w with WOk => _ | WRaise _ => _ | WEscape _ => _ end] => destruct w end; reflexivity.
Qed.

Theorem status_matches_client : forall c E q sid f e,
  shp c = fixed_shape -> In e (emissions c q sid) ->
  let r := format (shp c) f (emit_record c E e) in
  match outcome c q with
  | None => rec_status r = Some (s "ok") /\ rec_str (s "error_type") r = Some []
  | Some x => rec_status r = Some (s "error") /\ rec_str (s "error_type") r = Some (xcls x)
  end.
Proof.
  intros c E q sid f e Hs Hin. cbv zeta.
  pose proof (record_fields c E e f Hs (emissions_captured c q sid e Hin) (emissions_quiet c q sid e Hs Hin)) as (H1 & H2 & _). cbv zeta in H1, H2.
  pose proof (emissions_outcome c q sid e Hs Hin) as HO.
  destruct (outcome c q) as [x|]; [destruct HO as (Ha & Hb & _) | destruct HO as (Ha & Hb & _)]; rewrite H1, H2, Ha, Hb; split; reflexivity.
Qed.

Theorem full_message : forall c E q sid f e x,
  shp c = fixed_shape -> In e (emissions c q sid) -> outcome c q = Some x -> xmsg x <> [] ->
  rec_str (s "error_message") (format (shp c) f (emit_record c E e)) = Some (xmsg x).
Proof.
  intros c E q sid f e x Hs Hin HO Hne.
  pose proof (record_fields c E e f Hs (emissions_captured c q sid e Hin) (emissions_quiet c q sid e Hs Hin)) as (_ & _ & H3 & _). cbv zeta in H3.
  pose proof (emissions_outcome c q sid e Hs Hin) as H. rewrite HO in H. destruct H as (Ha & _ & Hc).
  rewrite H3, Ha, Hc. destruct (xmsg x); [contradiction | reflexivity].
Qed.

Theorem error_message_nonempty : forall c E q sid f e x,
  shp c = fixed_shape -> In e (emissions c q sid) -> outcome c q = Some x ->
  exists m, rec_str (s "error_message") (format (shp c) f (emit_record c E e)) = Some m /\ m <> [].
Proof.
  intros c E q sid f e x Hs Hin HO.
  pose proof (record_fields c E e f Hs (emissions_captured c q sid e Hin) (emissions_quiet c q sid e Hs Hin)) as (_ & _ & H3 & _). cbv zeta in H3.
  pose proof (emissions_outcome c q sid e Hs Hin) as H. rewrite HO in H. destruct H as (Ha & _ & _).
  rewrite H3, Ha. eexists; split; [reflexivity|].
  destruct (e_emsg e); [destruct (e_etype e)|]; discriminate.
Qed.
