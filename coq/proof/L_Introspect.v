(* Proofs about model/M_Introspect.v:
     - the hashed payload in closed form, and its injectivity (separators + length-framed schema blobs);
     - sorting by name is canonical, hence equal hash <-> equal contract (under collision freeness);
     - the hash ignores everything that is not in a describe row;
     - parse_describe (build_describe svc) lists exactly the methods of svc;
     - __describe__ is answered whatever the client's protocol version (gate exemption: L_Version). *)
From Coq Require Import String.
From Coq Require Import List NArith Bool Lia Permutation.
From VGI Require Import Bytes M_Version L_Version M_Introspect.
Import ListNotations.
Open Scope N_scope.

(* ------------------------------------------------------------------ *)
(** * Closed forms                                                     *)
(* ------------------------------------------------------------------ *)

Definition has_header_of (m : minfo) : bool := match m_header m with Some _ => true | None => false end.

Lemma row_of_explicit : forall m,
  row_of m = MkRow (m_name m) (mtype_value (m_kind m)) (m_has_return m) (m_params m) (m_result m)
                   (has_header_of m) (m_header m) (m_is_exchange m).
Proof. intros m. reflexivity. Qed.

Lemma r_name_row_of : forall m, r_name (row_of m) = m_name m.
Proof. intros m. reflexivity. Qed.

Lemma build_rows_explicit : forall ms, build_rows ms = map row_of (sort_by_name ms).
Proof. intros ms. reflexivity. Qed.

Definition bit (b : bool) : bytes := if b then [49] else [48].
Definition tri (o : option bool) : bytes :=
  match o with None => [45] | Some true => [49] | Some false => [48] end.
Definition opt_bytes (o : option bytes) : bytes := match o with Some h => h | None => [] end.

Definition row_bytes (r : row) : bytes :=
  US :: r_name r ++ RS :: r_mtype r ++ RS :: bit (r_has_return r) ++ RS :: bit (r_has_header r) ++
  RS :: tri (r_is_exchange r) ++ RS :: r_params r ++ RS :: r_result r ++ RS :: opt_bytes (r_header r).

Lemma body_bytes : forall dv rv r,
  flat_map (hitem_bytes r) (h_body (hash_spec dv rv)) = row_bytes r.
Proof.
  intros dv rv [nm mt hr pa re hh hd ie]. unfold row_bytes, hash_spec.
  cbn [h_body flat_map hitem_bytes get r_name r_mtype r_has_return r_params r_result r_has_header r_header r_is_exchange].
  change (B "1") with [49]. change (B "0") with [48]. change (B "-") with [45].
  destruct hr, hh, ie as [[|]|], hd as [h|]; cbn [bit tri opt_bytes app];
    repeat rewrite <- app_assoc; cbn [app]; rewrite ?app_nil_r; reflexivity.
Qed.

Definition payload_prefix (dv rv : bytes) : bytes := B "vgi_rpc.describe.v" ++ dv ++ [124] ++ rv ++ [124].

Lemma payload_explicit : forall dv rv pn rows,
  payload dv rv pn rows = payload_prefix dv rv ++ pn ++ 124 :: flat_map row_bytes rows.
Proof.
  intros dv rv pn rows. unfold payload, payload_of, payload_prefix.
  rewrite (flat_map_ext _ _ (body_bytes dv rv)).
  unfold hash_spec. cbn [h_pre flat_map pitem_bytes].
  change (B "|") with [124].
  repeat rewrite <- app_assoc. cbn [app]. rewrite ?app_nil_r. reflexivity.
Qed.

(* ------------------------------------------------------------------ *)
(** * Separators and frames                                            *)
(* ------------------------------------------------------------------ *)

Lemma sep_split : forall (c : N) a b x y,
  ~ In c a -> ~ In c b -> a ++ c :: x = b ++ c :: y -> a = b /\ x = y.
Proof.
  intros c a. induction a as [| h a IH]; intros b x y Ha Hb E.
  - destruct b as [| h' b].
    + cbn [app] in E. injection E as E. split; [reflexivity | exact E].
    + cbn [app] in E. injection E as E1 _. exfalso. apply Hb. left. symmetry. exact E1.
  - destruct b as [| h' b].
    + cbn [app] in E. injection E as E1 _. exfalso. apply Ha. left. exact E1.
    + cbn [app] in E. injection E as E1 E2. subst h'.
      destruct (IH b x y) as [Hab Hxy].
      * intros Hin. apply Ha. right. exact Hin.
      * intros Hin. apply Hb. right. exact Hin.
      * exact E2.
      * subst b. split; [reflexivity | exact Hxy].
Qed.

(* t is empty or begins with the row marker *)
Definition starts_row (t : bytes) : Prop := t = [] \/ exists t', t = US :: t'.

Lemma starts_row_flat_map : forall rows, starts_row (flat_map row_bytes rows).
Proof.
  intros [| r rows]; [left; reflexivity |].
  right. cbn [flat_map]. unfold row_bytes. cbn [app]. eexists. reflexivity.
Qed.

(* split at the first US when the prefix has none *)
Lemma us_split : forall a b x y,
  ~ In US a -> ~ In US b -> starts_row x -> starts_row y -> a ++ x = b ++ y -> a = b /\ x = y.
Proof.
  induction a as [| h a IH]; intros b x y Ha Hb Sx Sy E.
  - destruct b as [| h' b]; [split; [reflexivity | exact E] |].
    cbn [app] in E. destruct Sx as [-> | [x' ->]]; [discriminate E |].
    injection E as E1 _. exfalso. apply Hb. left. symmetry. exact E1.
  - destruct b as [| h' b].
    + cbn [app] in E. destruct Sy as [-> | [y' ->]]; [discriminate E |].
      injection E as E1 _. exfalso. apply Ha. left. exact E1.
    + cbn [app] in E. injection E as E1 E2. subst h'.
      destruct (IH b x y) as [Hab Hxy]; try assumption.
      * intros Hin. apply Ha. right. exact Hin.
      * intros Hin. apply Hb. right. exact Hin.
      * subst b. split; [reflexivity | exact Hxy].
Qed.

Lemma frame_prefix_free : forall m1 m2 x y,
  N.of_nat (length m1) < 256 ^ 4 -> N.of_nat (length m2) < 256 ^ 4 ->
  frame m1 ++ x = frame m2 ++ y -> m1 = m2 /\ x = y.
Proof.
  intros m1 m2 x y H1 H2 E. unfold frame in E.
  repeat rewrite <- app_assoc in E. apply app_inv_head in E.
  apply app_eq_length_inv in E; [| rewrite !le_encode_length; reflexivity].
  destruct E as [El Er].
  change (256 ^ 4) with (256 ^ N.of_nat 4) in H1, H2.
  apply (le_encode_inj 4 _ _ H1 H2) in El.
  apply Nat2N.inj in El.
  apply app_eq_length_inv in Er; [exact Er | exact El].
Qed.

Lemma framed_prefix_free : forall b1 b2 x y,
  framed b1 -> framed b2 -> b1 ++ x = b2 ++ y -> b1 = b2 /\ x = y.
Proof.
  intros b1 b2 x y (m1 & -> & L1) (m2 & -> & L2) E.
  destruct (frame_prefix_free _ _ _ _ L1 L2 E) as [-> ->]. split; reflexivity.
Qed.

Lemma framed_head : forall b, framed b -> exists t, b = 255 :: t.
Proof. intros b (m & -> & _). unfold frame, ipc_cont. cbn [app]. eexists. reflexivity. Qed.

Lemma bit_sep : forall b1 b2 x y, bit b1 ++ RS :: x = bit b2 ++ RS :: y -> b1 = b2 /\ x = y.
Proof.
  intros [|] [|] x y E; cbn [bit app] in E; injection E as E; try discriminate;
    (split; [reflexivity | assumption]).
Qed.

Lemma tri_sep : forall o1 o2 x y, tri o1 ++ RS :: x = tri o2 ++ RS :: y -> o1 = o2 /\ x = y.
Proof.
  intros [[|]|] [[|]|] x y E; cbn [tri app] in E; injection E as E; try discriminate;
    (split; [reflexivity | assumption]).
Qed.

(* the optional trailing header *)
Lemma opt_header_split : forall h1 h2 x y,
  match h1 with Some h => framed h | None => True end ->
  match h2 with Some h => framed h | None => True end ->
  starts_row x -> starts_row y ->
  opt_bytes h1 ++ x = opt_bytes h2 ++ y -> h1 = h2 /\ x = y.
Proof.
  intros [h1|] [h2|] x y F1 F2 Sx Sy E; cbn [opt_bytes app] in E.
  - destruct (framed_prefix_free _ _ _ _ F1 F2 E) as [-> ->]. split; reflexivity.
  - exfalso. destruct (framed_head _ F1) as [t ->]. cbn [app] in E.
    destruct Sy as [-> | [y' ->]]; [discriminate E |].
    injection E as E1 _. unfold US in E1. discriminate E1.
  - exfalso. destruct (framed_head _ F2) as [t ->]. cbn [app] in E.
    destruct Sx as [-> | [x' ->]]; [discriminate E |].
    injection E as E1 _. unfold US in E1. discriminate E1.
  - split; [reflexivity | exact E].
Qed.

Lemma row_bytes_split : forall r1 r2 x y,
  row_ok r1 -> row_ok r2 -> starts_row x -> starts_row y ->
  row_bytes r1 ++ x = row_bytes r2 ++ y -> r1 = r2 /\ x = y.
Proof.
  intros [n1 t1 hr1 p1 q1 hh1 hd1 ie1] [n2 t2 hr2 p2 q2 hh2 hd2 ie2] x y.
  unfold row_ok, ident_ok, free_of.
  cbn [r_name r_mtype r_has_return r_params r_result r_has_header r_header r_is_exchange].
  intros ((Hn1 & _) & Ht1 & Fp1 & Fq1 & Fh1) ((Hn2 & _) & Ht2 & Fp2 & Fq2 & Fh2) Sx Sy E.
  unfold row_bytes in E.
  cbn [r_name r_mtype r_has_return r_params r_result r_has_header r_header r_is_exchange] in E.
  cbn [app] in E. injection E as E.
  repeat (rewrite <- app_assoc in E || rewrite <- app_comm_cons in E).
  apply sep_split in E; [| assumption | assumption]. destruct E as [-> E].
  apply sep_split in E; [| assumption | assumption]. destruct E as [-> E].
  apply bit_sep in E. destruct E as [-> E].
  apply bit_sep in E. destruct E as [-> E].
  apply tri_sep in E. destruct E as [-> E].
  apply framed_prefix_free in E; [| assumption | assumption]. destruct E as [-> E].
  injection E as E.
  apply framed_prefix_free in E; [| assumption | assumption]. destruct E as [-> E].
  injection E as E.
  apply opt_header_split in E; try assumption. destruct E as [-> ->].
  split; reflexivity.
Qed.

Lemma rows_bytes_inj : forall rows1 rows2,
  Forall row_ok rows1 -> Forall row_ok rows2 ->
  flat_map row_bytes rows1 = flat_map row_bytes rows2 -> rows1 = rows2.
Proof.
  induction rows1 as [| r1 rows1 IH]; intros rows2 F1 F2 E.
  - destruct rows2 as [| r2 rows2]; [reflexivity |].
    cbn [flat_map] in E. unfold row_bytes in E. cbn [app] in E. discriminate E.
  - destruct rows2 as [| r2 rows2].
    + cbn [flat_map] in E. unfold row_bytes in E. cbn [app] in E. discriminate E.
    + cbn [flat_map] in E. inversion F1 as [| ? ? O1 F1']; subst. inversion F2 as [| ? ? O2 F2']; subst.
      apply row_bytes_split in E; try assumption; try apply starts_row_flat_map.
      destruct E as [-> E]. rewrite (IH rows2 F1' F2' E). reflexivity.
Qed.

Theorem payload_injective : forall dv rv pn1 rows1 pn2 rows2,
  free_of US pn1 -> free_of US pn2 -> Forall row_ok rows1 -> Forall row_ok rows2 ->
  payload dv rv pn1 rows1 = payload dv rv pn2 rows2 ->
  pn1 = pn2 /\ rows1 = rows2.
Proof.
  intros dv rv pn1 rows1 pn2 rows2 U1 U2 F1 F2 E.
  rewrite !payload_explicit in E. apply app_inv_head in E.
  change (pn1 ++ 124 :: flat_map row_bytes rows1) with (pn1 ++ [124] ++ flat_map row_bytes rows1) in E.
  change (pn2 ++ 124 :: flat_map row_bytes rows2) with (pn2 ++ [124] ++ flat_map row_bytes rows2) in E.
  rewrite !app_assoc in E.
  apply us_split in E; try apply starts_row_flat_map.
  - destruct E as [En Er]. apply app_inv_tail in En.
    split; [exact En | apply rows_bytes_inj; assumption].
  - unfold free_of in U1. intros Hin. apply in_app_or in Hin. destruct Hin as [Hin | Hin]; [exact (U1 Hin) |].
    destruct Hin as [Hin | []]. unfold US in Hin. discriminate Hin.
  - unfold free_of in U2. intros Hin. apply in_app_or in Hin. destruct Hin as [Hin | Hin]; [exact (U2 Hin) |].
    destruct Hin as [Hin | []]. unfold US in Hin. discriminate Hin.
Qed.

(* ------------------------------------------------------------------ *)
(** * Ordering of names                                                *)
(* ------------------------------------------------------------------ *)

Lemma lex_leb_total : forall a b, lex_leb a b = true \/ lex_leb b a = true.
Proof.
  induction a as [| x a IH]; intros b.
  - left. destruct b; reflexivity.
  - destruct b as [| y b]; [right; reflexivity |].
    cbn [lex_leb].
    destruct (x <? y) eqn:Exy; [left; reflexivity |].
    destruct (y <? x) eqn:Eyx; [right; reflexivity |].
    apply IH.
Qed.

Lemma lex_leb_antisym : forall a b, lex_leb a b = true -> lex_leb b a = true -> a = b.
Proof.
  induction a as [| x a IH]; intros b Hab Hba.
  - destruct b; [reflexivity | discriminate Hba].
  - destruct b as [| y b]; [discriminate Hab |].
    cbn [lex_leb] in Hab, Hba.
    destruct (x <? y) eqn:Exy.
    + apply N.ltb_lt in Exy. assert (Eyx : (y <? x) = false) by (apply N.ltb_ge; lia).
      rewrite Eyx in Hba. discriminate Hba.
    + destruct (y <? x) eqn:Eyx; [discriminate Hab |].
      apply N.ltb_ge in Exy, Eyx. assert (x = y) by lia. subst y.
      rewrite (IH b Hab Hba). reflexivity.
Qed.

Lemma lex_leb_trans : forall a b c, lex_leb a b = true -> lex_leb b c = true -> lex_leb a c = true.
Proof.
  induction a as [| x a IH]; intros b c Hab Hbc.
  - reflexivity.
  - destruct b as [| y b]; [discriminate Hab |].
    destruct c as [| z c]; [discriminate Hbc |].
    cbn [lex_leb] in *.
    destruct (x <? y) eqn:Exy.
    + apply N.ltb_lt in Exy.
      destruct (y <? z) eqn:Eyz.
      * apply N.ltb_lt in Eyz. assert (Exz : (x <? z) = true) by (apply N.ltb_lt; lia).
        rewrite Exz. reflexivity.
      * destruct (z <? y) eqn:Ezy; [discriminate Hbc |].
        apply N.ltb_ge in Eyz, Ezy. assert (Exz : (x <? z) = true) by (apply N.ltb_lt; lia).
        rewrite Exz. reflexivity.
    + destruct (y <? x) eqn:Eyx; [discriminate Hab |].
      apply N.ltb_ge in Exy, Eyx. assert (x = y) by lia. subst y.
      destruct (x <? z) eqn:Exz; [reflexivity |].
      destruct (z <? x) eqn:Ezx; [discriminate Hbc |].
      apply (IH b c Hab Hbc).
Qed.

(* ------------------------------------------------------------------ *)
(** * Sorting                                                          *)
(* ------------------------------------------------------------------ *)

Lemma insert_by_name_perm : forall m l, Permutation (insert_by_name m l) (m :: l).
Proof.
  intros m l. induction l as [| h t IH]; cbn [insert_by_name].
  - apply Permutation_refl.
  - destruct (lex_leb (m_name m) (m_name h)).
    + apply Permutation_refl.
    + eapply perm_trans; [apply perm_skip; exact IH | apply perm_swap].
Qed.

Lemma sort_by_name_perm : forall l, Permutation (sort_by_name l) l.
Proof.
  induction l as [| m l IH]; cbn [sort_by_name fold_right].
  - apply perm_nil.
  - eapply perm_trans; [apply insert_by_name_perm | apply perm_skip; exact IH].
Qed.

Fixpoint insert_row (r : row) (l : list row) : list row :=
  match l with
  | [] => [r]
  | h :: t => if lex_leb (r_name r) (r_name h) then r :: l else h :: insert_row r t
  end.
Definition sort_rows (l : list row) : list row := fold_right insert_row [] l.

Lemma map_insert_by_name : forall m l,
  map row_of (insert_by_name m l) = insert_row (row_of m) (map row_of l).
Proof.
  intros m l. induction l as [| h t IH]; cbn [insert_by_name insert_row map].
  - reflexivity.
  - rewrite !r_name_row_of. destruct (lex_leb (m_name m) (m_name h)); cbn [map].
    + reflexivity.
    + rewrite IH. reflexivity.
Qed.

Lemma map_sort_by_name : forall l, map row_of (sort_by_name l) = sort_rows (map row_of l).
Proof.
  induction l as [| m l IH]; cbn [sort_by_name sort_rows fold_right map].
  - reflexivity.
  - fold (sort_by_name l). fold (sort_rows (map row_of l)).
    rewrite map_insert_by_name, IH. reflexivity.
Qed.

Lemma insert_row_perm : forall r l, Permutation (insert_row r l) (r :: l).
Proof.
  intros r l. induction l as [| h t IH]; cbn [insert_row].
  - apply Permutation_refl.
  - destruct (lex_leb (r_name r) (r_name h)).
    + apply Permutation_refl.
    + eapply perm_trans; [apply perm_skip; exact IH | apply perm_swap].
Qed.

Lemma sort_rows_perm : forall l, Permutation (sort_rows l) l.
Proof.
  induction l as [| r l IH]; cbn [sort_rows fold_right].
  - apply perm_nil.
  - eapply perm_trans; [apply insert_row_perm | apply perm_skip; exact IH].
Qed.

Definition rle (a b : row) : Prop := lex_leb (r_name a) (r_name b) = true.
Inductive sorted : list row -> Prop :=
| sorted_nil : sorted []
| sorted_cons : forall r l, Forall (rle r) l -> sorted l -> sorted (r :: l).

Lemma insert_row_sorted : forall r l, sorted l -> sorted (insert_row r l).
Proof.
  intros r l Hs. induction Hs as [| h t Hh Ht IH]; cbn [insert_row].
  - constructor; [constructor | constructor].
  - destruct (lex_leb (r_name r) (r_name h)) eqn:E.
    + constructor; [| constructor; assumption].
      constructor; [exact E |].
      eapply Forall_impl; [| exact Hh]. intros x Hx. unfold rle in *.
      eapply lex_leb_trans; eassumption.
    + constructor; [| exact IH].
      apply Forall_forall. intros x Hx.
      apply (Permutation_in _ (insert_row_perm r t)) in Hx. destruct Hx as [<- | Hx].
      * unfold rle. destruct (lex_leb_total (r_name r) (r_name h)) as [T | T]; [congruence | exact T].
      * rewrite Forall_forall in Hh. apply Hh. exact Hx.
Qed.

Lemma sort_rows_sorted : forall l, sorted (sort_rows l).
Proof.
  induction l as [| r l IH]; cbn [sort_rows fold_right].
  - constructor.
  - apply insert_row_sorted. exact IH.
Qed.

Lemma sorted_unique : forall l1 l2,
  sorted l1 -> sorted l2 ->
  NoDup (map r_name l1) -> NoDup (map r_name l2) ->
  (forall r, In r l1 <-> In r l2) -> l1 = l2.
Proof.
  induction l1 as [| h1 t1 IH]; intros l2 S1 S2 N1 N2 Hin.
  - destruct l2 as [| h2 t2]; [reflexivity |].
    exfalso. apply (proj2 (Hin h2)). left. reflexivity.
  - destruct l2 as [| h2 t2].
    + exfalso. apply (proj1 (Hin h1)). left. reflexivity.
    + inversion S1 as [| ? ? F1 S1']; subst. inversion S2 as [| ? ? F2 S2']; subst.
      cbn [map] in N1, N2.
      inversion N1 as [| ? ? Nh1 N1']; subst. inversion N2 as [| ? ? Nh2 N2']; subst.
      assert (Heq : h1 = h2).
      { destruct (proj1 (Hin h1) (or_introl eq_refl)) as [E | I1]; [symmetry; exact E |].
        destruct (proj2 (Hin h2) (or_introl eq_refl)) as [E | I2]; [exact E |].
        exfalso. rewrite Forall_forall in F1, F2.
        assert (En : r_name h1 = r_name h2).
        { apply lex_leb_antisym; [apply (F1 _ I2) | apply (F2 _ I1)]. }
        apply Nh1. rewrite En. apply in_map. exact I2. }
      subst h2. f_equal.
      apply IH; try assumption.
      intros r. split; intros I.
      * destruct (proj1 (Hin r) (or_intror I)) as [E | I']; [| exact I'].
        exfalso. subst r. apply Nh1. apply in_map. exact I.
      * destruct (proj2 (Hin r) (or_intror I)) as [E | I']; [| exact I'].
        exfalso. subst r. apply Nh2. apply in_map. exact I.
Qed.

Lemma sort_rows_canonical : forall l1 l2,
  NoDup (map r_name l1) -> NoDup (map r_name l2) ->
  (forall r, In r l1 <-> In r l2) -> sort_rows l1 = sort_rows l2.
Proof.
  intros l1 l2 N1 N2 Hin.
  apply sorted_unique; try apply sort_rows_sorted.
  - eapply Permutation_NoDup; [| exact N1]. apply Permutation_map, Permutation_sym, sort_rows_perm.
  - eapply Permutation_NoDup; [| exact N2]. apply Permutation_map, Permutation_sym, sort_rows_perm.
  - intros r. split; intros I.
    + apply (Permutation_in _ (sort_rows_perm l1)) in I. apply Hin in I.
      apply (Permutation_in _ (Permutation_sym (sort_rows_perm l2))). exact I.
    + apply (Permutation_in _ (sort_rows_perm l2)) in I. apply Hin in I.
      apply (Permutation_in _ (Permutation_sym (sort_rows_perm l1))). exact I.
Qed.

Lemma names_of_rows : forall ms, map r_name (map row_of ms) = map m_name ms.
Proof. intros ms. rewrite map_map. apply map_ext. intros m. apply r_name_row_of. Qed.

(* ------------------------------------------------------------------ *)
(** * The advertised hash                                              *)
(* ------------------------------------------------------------------ *)

Lemma advertised_hash_eq : forall H dv rv svc,
  advertised_hash H dv rv svc = H (payload dv rv (s_name svc) (build_rows (s_methods svc))).
Proof. intros H dv rv svc. reflexivity. Qed.

Lemma mtype_value_free : forall k, free_of RS (mtype_value k).
Proof.
  intros [|]; unfold free_of, RS; vm_compute; intuition discriminate.
Qed.

Lemma row_of_ok : forall m, minfo_ok m -> row_ok (row_of m).
Proof.
  intros m (Hn & Fp & Fr & Fh). rewrite row_of_explicit. unfold row_ok.
  cbn [r_name r_mtype r_params r_result r_header].
  split; [exact Hn |]. split; [apply mtype_value_free |].
  split; [exact Fp |]. split; [exact Fr | exact Fh].
Qed.

Lemma build_rows_ok : forall ms, Forall minfo_ok ms -> Forall row_ok (build_rows ms).
Proof.
  intros ms F. rewrite build_rows_explicit. apply Forall_forall. intros r Hr.
  apply in_map_iff in Hr. destruct Hr as (m & <- & Hm).
  apply row_of_ok. rewrite Forall_forall in F. apply F.
  apply (Permutation_in _ (sort_by_name_perm ms)). exact Hm.
Qed.

Lemma in_build_rows : forall ms r, In r (build_rows ms) <-> In r (map row_of ms).
Proof.
  intros ms r. rewrite build_rows_explicit. split; intros I.
  - apply (Permutation_in _ (Permutation_map row_of (sort_by_name_perm ms))). exact I.
  - apply (Permutation_in _ (Permutation_sym (Permutation_map row_of (sort_by_name_perm ms)))). exact I.
Qed.

Theorem hash_equal_contract_equal : forall H dv rv a b,
  collision_free H -> service_ok a -> service_ok b ->
  advertised_hash H dv rv a = advertised_hash H dv rv b -> same_contract a b.
Proof.
  intros H dv rv a b CF (Na & Fa & Da) (Nb & Fb & Db) E.
  rewrite !advertised_hash_eq in E. apply CF in E.
  apply payload_injective in E.
  - destruct E as [En Er]. split; [exact En |].
    intros r. unfold wire_of. rewrite <- !in_build_rows, Er. reflexivity.
  - apply Na.
  - apply Nb.
  - apply build_rows_ok. exact Fa.
  - apply build_rows_ok. exact Fb.
Qed.

Theorem contract_equal_hash_equal : forall H dv rv a b,
  NoDup (map m_name (s_methods a)) -> NoDup (map m_name (s_methods b)) ->
  same_contract a b -> advertised_hash H dv rv a = advertised_hash H dv rv b.
Proof.
  intros H dv rv a b Da Db [En Hin]. rewrite !advertised_hash_eq, En.
  rewrite !build_rows_explicit, !map_sort_by_name.
  rewrite (sort_rows_canonical (map row_of (s_methods a)) (map row_of (s_methods b))).
  - reflexivity.
  - rewrite names_of_rows. exact Da.
  - rewrite names_of_rows. exact Db.
  - exact Hin.
Qed.

Theorem hash_iff_contract : forall H dv rv a b,
  collision_free H -> service_ok a -> service_ok b ->
  (advertised_hash H dv rv a = advertised_hash H dv rv b <-> same_contract a b).
Proof.
  intros H dv rv a b CF Oa Ob. split.
  - apply hash_equal_contract_equal; assumption.
  - apply contract_equal_hash_equal; [apply Oa | apply Ob].
Qed.

Theorem nonwire_fields : forall m doc defaults types pdocs,
  wire_of (MkInfo (m_name m) (m_kind m) (m_has_return m) (m_params m) (m_result m) (m_header m)
                  (m_is_exchange m) doc defaults types pdocs) = wire_of m.
Proof. intros m doc defaults types pdocs. reflexivity. Qed.

Theorem hash_insensitive : forall H dv rv svc f sid pv,
  (forall m, wire_of (f m) = wire_of m) ->
  advertised_hash H dv rv (MkSvc (s_name svc) (map f (s_methods svc)) sid pv) = advertised_hash H dv rv svc.
Proof.
  intros H dv rv svc f sid pv Hf. rewrite !advertised_hash_eq. cbn [s_name s_methods].
  rewrite !build_rows_explicit, !map_sort_by_name, map_map.
  rewrite (map_ext _ _ Hf). reflexivity.
Qed.

(* ------------------------------------------------------------------ *)
(** * parse_describe after build_describe                              *)
(* ------------------------------------------------------------------ *)

Lemma parse_row_row_of : forall m, parse_row (row_of m) = Some (desc_of m).
Proof. intros [nm [|] hr pa re hd ie doc df ty pd]; reflexivity. Qed.

Lemma bytes_eqb_neq : forall a b, a <> b -> bytes_eqb a b = false.
Proof.
  intros a b Hne. destruct (bytes_eqb a b) eqn:E; [| reflexivity].
  apply bytes_eqb_eq in E. contradiction.
Qed.

Lemma dict_set_absent : forall {V} (d : list (bytes * V)) k v,
  ~ In k (map fst d) -> dict_set d k v = d ++ [(k, v)].
Proof.
  intros V d k v. induction d as [| [k' v'] d IH]; intros Hni; cbn [dict_set app].
  - reflexivity.
  - cbn [map fst] in Hni.
    rewrite bytes_eqb_neq.
    + rewrite IH; [reflexivity |]. intros I. apply Hni. right. exact I.
    + intros ->. apply Hni. left. reflexivity.
Qed.

Definition entry_of (m : minfo) : bytes * mdesc := (m_name m, desc_of m).

Lemma parse_rows_build : forall l acc,
  NoDup (map m_name l) ->
  (forall m, In m l -> ~ In (m_name m) (map fst acc)) ->
  parse_rows acc (map row_of l) = Some (acc ++ map entry_of l).
Proof.
  induction l as [| m l IH]; intros acc Nd Hacc; cbn [map parse_rows].
  - rewrite app_nil_r. reflexivity.
  - rewrite parse_row_row_of, r_name_row_of.
    cbn [map] in Nd. inversion Nd as [| ? ? Nm Nl]; subst.
    rewrite dict_set_absent; [| apply Hacc; left; reflexivity].
    rewrite IH.
    + rewrite <- app_assoc. reflexivity.
    + exact Nl.
    + intros m' Hm'. rewrite map_app. cbn [map fst]. intros I. apply in_app_or in I.
      destruct I as [I | [I | []]].
      * apply (Hacc m'); [right; exact Hm' | exact I].
      * apply Nm. rewrite I. apply in_map. exact Hm'.
Qed.

Lemma sort_by_name_nodup : forall ms, NoDup (map m_name ms) -> NoDup (map m_name (sort_by_name ms)).
Proof.
  intros ms Nd. eapply Permutation_NoDup; [| exact Nd].
  apply Permutation_map, Permutation_sym, sort_by_name_perm.
Qed.

Theorem describe_faithful : forall H dv rv svc,
  NoDup (map m_name (s_methods svc)) ->
  exists sd,
    parse_describe (build_describe H dv rv svc) = Some sd /\
    sd_protocol_name sd = s_name svc /\
    sd_request_version sd = rv /\ sd_describe_version sd = dv /\
    sd_protocol_hash sd = advertised_hash H dv rv svc /\
    sd_server_id sd = s_server_id svc /\
    sd_protocol_version sd = match s_protocol_version svc with Some v => v | None => [] end /\
    sd_methods sd = map (fun m => (m_name m, desc_of m)) (sort_by_name (s_methods svc)).
Proof.
  intros H dv rv svc Nd.
  unfold parse_describe, build_describe. cbn [d_rows d_md].
  rewrite build_rows_explicit.
  rewrite (parse_rows_build (sort_by_name (s_methods svc)) []).
  - eexists. split; [reflexivity |].
    cbn [sd_protocol_name sd_request_version sd_describe_version sd_protocol_hash sd_server_id
         sd_protocol_version sd_methods app].
    repeat split; try reflexivity.
    destruct (s_protocol_version svc); reflexivity.
  - apply sort_by_name_nodup. exact Nd.
  - intros m _ [].
Qed.

Lemma dict_get_entries : forall l n d,
  NoDup (map m_name l) ->
  (dict_get (map entry_of l) n = Some d <-> exists m, In m l /\ m_name m = n /\ d = desc_of m).
Proof.
  induction l as [| m l IH]; intros n d Nd; cbn [map dict_get].
  - split; [discriminate | intros (m & [] & _)].
  - cbn [map] in Nd. inversion Nd as [| ? ? Nm Nl]; subst.
    unfold entry_of at 1. 
    destruct (bytes_eqb n (m_name m)) eqn:E.
    + apply bytes_eqb_eq in E. subst n. split.
      * intros Heq. injection Heq as <-. exists m. split; [left; reflexivity | split; reflexivity].
      * intros (m' & [<- | Hm'] & En & ->); [reflexivity |].
        exfalso. apply Nm. rewrite <- En. apply in_map. exact Hm'.
    + rewrite (IH n d Nl). split.
      * intros (m' & Hm' & En & Hd). exists m'. split; [right; exact Hm' | split; assumption].
      * intros (m' & [<- | Hm'] & En & Hd).
        -- exfalso. subst n. rewrite bytes_eqb_refl in E. discriminate E.
        -- exists m'. split; [exact Hm' | split; assumption].
Qed.

Theorem describe_lookup : forall H dv rv svc sd,
  NoDup (map m_name (s_methods svc)) ->
  parse_describe (build_describe H dv rv svc) = Some sd ->
  forall n d, dict_get (sd_methods sd) n = Some d <->
              exists m, In m (s_methods svc) /\ m_name m = n /\ d = desc_of m.
Proof.
  intros H dv rv svc sd Nd Hp n d.
  destruct (describe_faithful H dv rv svc Nd) as (sd' & Hp' & _ & _ & _ & _ & _ & _ & Hm).
  rewrite Hp in Hp'. injection Hp' as <-.
  rewrite Hm. change (fun m => (m_name m, desc_of m)) with entry_of.
  rewrite (dict_get_entries _ n d (sort_by_name_nodup _ Nd)).
  split; intros (m & Hin & En & Hd); exists m; (split; [| split; assumption]).
  - apply (Permutation_in _ (sort_by_name_perm _)). exact Hin.
  - apply (Permutation_in _ (Permutation_sym (sort_by_name_perm _))). exact Hin.
Qed.

(* ------------------------------------------------------------------ *)
(** * __describe__ under a version mismatch                            *)
(* ------------------------------------------------------------------ *)

Theorem describe_callable : forall H dv rv svc declared md,
  describe_call H dv rv svc declared md = Some (build_describe H dv rv svc).
Proof.
  intros H dv rv svc [srv |] md; unfold describe_call.
  - rewrite gate_describe. reflexivity.
  - rewrite gate_undeclared. reflexivity.
Qed.

(* ------------------------------------------------------------------ *)
(** * Non-vacuity of the side conditions                               *)
(* ------------------------------------------------------------------ *)

Lemma framed_frame : forall m, N.of_nat (length m) < 256 ^ 4 -> framed (frame m).
Proof. intros m Hm. exists m. split; [reflexivity | exact Hm]. Qed.

Lemma ex_service_ok :
  service_ok (MkSvc (B "Calc")
    [ MkInfo (B "gen") Stream false (frame [16;0;0;0;0;0;10;0]) (frame [16;0;0;0;0;0;10;0])
             (Some (frame [16;0;0;0;0;0;10;1])) (Some false) None [] [] [];
      MkInfo (B "add") Unary true (frame [16;0;0;0;0;0;10;0]) (frame [16;0;0;0;0;0;10;1]) None None
             (Some (B "Add.")) [(B "b", B "1")] [] [] ]
    (B "srv-1") (Some (B "1.2.3"))).
Proof.
  assert (F0 : framed (frame [16;0;0;0;0;0;10;0])) by (apply framed_frame; vm_compute; reflexivity).
  assert (F1 : framed (frame [16;0;0;0;0;0;10;1])) by (apply framed_frame; vm_compute; reflexivity).
  unfold service_ok, minfo_ok, ident_ok, free_of, RS, US.
  cbn [s_name s_methods m_name m_params m_result m_header map].
  split; [split; vm_compute; intuition discriminate |].
  split.
  - repeat constructor; try assumption; vm_compute; intuition discriminate.
  - constructor.
    + vm_compute. intuition discriminate.
    + constructor; [intros [] | constructor].
Qed.

Print Assumptions payload_injective.
Print Assumptions hash_iff_contract.
Print Assumptions hash_insensitive.
Print Assumptions describe_faithful.
Print Assumptions describe_lookup.
Print Assumptions describe_callable.
