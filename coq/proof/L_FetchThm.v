(* C31: the statements of prop/P_C31.v about one attempt and about fetch_url *)
From Coq Require Import List ZArith NArith Bool Lia Arith.
From VGI Require Import M_Fetch L_Fetch L_FetchPar L_FetchTop.
Import ListNotations.
Open Scope Z_scope.

(* every request sequence an attempt ran to its end: the probe, the data GET, the finished range tasks *)
Definition seqs_of (o : aobs) : list sobs :=
  o_probe o :: (match o_get o with Some s => [s] | None => [] end) ++ map snd (o_done o).

Definition seq_ok (valid : N -> bool) (c : cfg) (s : sobs) : Prop :=
  Forall (fun u => valid u = true) (fst s) /\ (N.of_nat (length (fst s)) <= c_max_redir c + 1)%N.

Lemma probe_trace_ok : forall valid c url presigned hops, seq_ok valid c (snd (probe valid c url presigned hops)).
Proof.
  intros valid c url presigned hops. unfold seq_ok, probe, range_probe, head_probe.
  pose proof (follow_contacted_valid valid (c_max_redir c) hops 0%N url) as HV.
  pose proof (follow_contacted_length valid (c_max_redir c) hops 0%N url ltac:(lia)) as HL.
  assert (Fin : forall tr n, Forall (fun u => valid u = true) tr -> (N.of_nat (length tr) + 0 <= c_max_redir c + 1)%N ->
                 Forall (fun u => valid u = true) (fst (tr, n)) /\ (N.of_nat (length (fst (tr, n : Z))) <= c_max_redir c + 1)%N).
  { intros tr n H1 H2. simpl. split; [assumption | lia]. }
  destruct presigned; destruct (follow valid (c_max_redir c) 0%N url hops) as [r tr|e tr]; simpl in HV, HL.
  - destruct (r_status r =? 206).
    + destruct (read_range 1 (c_max_fetch c) 0 [] (r_units r) (r_berr r)) as [[d|e] n]; simpl snd; apply Fin; auto.
    + destruct (r_status r =? 200); [simpl snd; apply Fin; auto|].
      destruct (is_fallback (r_status r)); [simpl snd; apply Fin; auto|].
      destruct (negb (is_2xx (r_status r))); simpl snd; apply Fin; auto.
  - simpl snd; apply Fin; auto.
  - destruct (is_fallback (r_status r)); [simpl snd; apply Fin; auto|].
    destruct (negb (is_2xx (r_status r))); simpl snd; apply Fin; auto.
  - simpl snd; apply Fin; auto.
Qed.

Lemma compute_ranges_neg : forall z chunk, 0 < chunk -> z <= 0 -> compute_ranges z chunk = [].
Proof.
  intros z chunk Hc Hz. unfold compute_ranges.
  pose proof (num_chunks_bounds z chunk Hc) as HB.
  assert (num_chunks z chunk <= 0) by nia.
  replace (Z.to_nat (num_chunks z chunk)) with O by lia. reflexivity.
Qed.

Lemma covers_ordered : forall rs lo hi, covers lo hi rs -> Forall (fun r => fst r <= snd r) rs.
Proof.
  induction rs as [|[s e] r IH]; intros lo hi H; simpl in H; auto.
  destruct H as (_ & Hle & Hr). constructor; eauto.
Qed.

(* a range of _compute_ranges names between 1 and chunk_size bytes *)
Lemma compute_ranges_sizes : forall z chunk rg, 0 < chunk -> In rg (compute_ranges z chunk) ->
  1 <= snd rg - fst rg + 1 <= chunk.
Proof.
  intros z chunk rg Hc Hin.
  destruct (Z_le_gt_dec z 0) as [Hz|Hz]; [rewrite compute_ranges_neg in Hin by auto; destruct Hin|].
  destruct (compute_ranges_covers z chunk Hc ltac:(lia)) as [H1 H2].
  apply covers_ordered in H1. rewrite Forall_forall in H1, H2. specialize (H1 rg Hin). specialize (H2 rg Hin). lia.
Qed.

Section AttemptThm.
  Variable valid : N -> bool.
  Variable c : cfg.
  Variable presigned : bool.
  Variable url : N.
  Variable dec : Z -> list N -> Z -> option (list N).
  Variable sc : ascript.

  Lemma attempt_seqs_ok : forall r o,
    attempt valid c presigned url dec sc = (r, o) -> Forall (seq_ok valid c) (seqs_of o).
  Proof.
    intros r o H. apply attempt_shape in H as [HP HS]. unfold seqs_of.
    constructor; [rewrite HP; apply probe_trace_ok|].
    destruct HS as [_ Hg Hd _ _ | cl ar ce fr _ _ Hfr Hd _ (n & Hg & _) | z ar ce r' st _ _ _ _ HR Hg Hd _ _].
    - rewrite Hg, Hd. constructor.
    - rewrite Hg, Hd. simpl. constructor; [|constructor]. unfold seq_ok. simpl. subst fr. split.
      + apply follow_contacted_valid.
      + pose proof (follow_contacted_length valid (c_max_redir c) (s_get sc) 0%N url ltac:(lia)). lia.
    - rewrite Hg, Hd. simpl. apply run_parallel_inv in HR. destruct HR as [_ _ _ _ _ I6].
      apply Forall_forall. intros s Hs. apply in_map_iff in Hs as ([tid ob] & Hs & Hin). simpl in Hs; subst s.
      destruct (I6 tid ob Hin) as (rg & ck & t0 & t1 & hops & _ & _ & Hob). subst ob. split.
      + apply run_task_contacted_valid.
      + apply run_task_contacted_length.
  Qed.

  (* bytes taken from the response streams, per response *)
  Lemma attempt_bytes : forall r o,
    0 <= c_max_fetch c -> 0 < c_chunk c ->
    attempt valid c presigned url dec sc = (r, o) ->
    0 <= snd (o_probe o) <= 2
    /\ (presigned = false -> snd (o_probe o) = 0)
    /\ (forall s, o_get o = Some s -> 0 <= snd s <= c_max_fetch c + io_chunk)
    /\ (forall tid s, In (tid, s) (o_done o) -> 0 <= snd s <= Z.min (c_chunk c) (c_max_fetch c) + 1).
  Proof.
    intros r o Hm Hc H. apply attempt_shape in H as [HP HS].
    pose proof (probe_facts valid c url presigned (s_probe sc) Hm) as (_ & _ & Hp2 & Hp0). simpl in Hp2, Hp0.
    rewrite <- HP in Hp2, Hp0. split; [exact Hp2|]. split; [exact Hp0|].
    destruct HS as [_ Hg Hd _ _ | cl ar ce fr _ _ Hfr Hd _ (n & Hg & Hn) | z ar ce r' st _ _ _ _ HR Hg Hd _ _].
    - rewrite Hg, Hd. split; [discriminate | intros ? ? []].
    - rewrite Hg, Hd. split; [|intros ? ? []]. intros s Hs. inversion Hs; subst s. simpl.
      unfold io_chunk. destruct fr as [rs tr|e tr].
      + destruct (negb (is_2xx (r_status rs))); [destruct Hn as (_ & Hn & _); lia|].
        pose proof (read_single_bound 65536 (c_max_fetch c) (iter_chunked io_chunk (r_units rs)) (r_berr rs) 0 [] ltac:(lia)
                      (iter_chunked_bound io_chunk (r_units rs) ltac:(unfold io_chunk; lia)) Hm) as HB.
        assert (H0 : 0 <= snd (read_single (c_max_fetch c) 0 [] (iter_chunked io_chunk (r_units rs)) (r_berr rs))).
        { clear. generalize (iter_chunked io_chunk (r_units rs)) as us. intros us.
          assert (G : forall us total acc, 0 <= total -> 0 <= snd (read_single (c_max_fetch c) total acc us (r_berr rs))).
          { induction us0 as [|u us0 IH]; intros total acc Ht; simpl.
            - destruct (r_berr rs); simpl; lia.
            - pose proof (len_nonneg u). destruct (c_max_fetch c <? total + len u); simpl; [lia | apply IH; lia]. }
          apply G; lia. }
        destruct (read_single (c_max_fetch c) 0 [] (iter_chunked io_chunk (r_units rs)) (r_berr rs)) as [[d|e] n'];
          simpl in HB, H0; [destruct Hn as (Hn & _) | destruct Hn as (_ & Hn & _)]; subst n; lia.
      + destruct Hn as (_ & Hn & _); lia.
    - rewrite Hg, Hd. split; [discriminate|]. intros tid s Hin.
      apply run_parallel_inv in HR. destruct HR as [_ _ _ _ _ I6].
      destruct (I6 tid s Hin) as (rg & ck & t0 & t1 & hops & Hrg & _ & Hob). subst s.
      apply nth_error_In in Hrg. pose proof (compute_ranges_sizes z (c_chunk c) rg Hc Hrg) as Hsz.
      pose proof (run_task_taken valid c url rg hops ltac:(lia) Hm). lia.
  Qed.

  (* range tasks created: the initial one per range, plus hedges of distinct chunks within the budget *)
  Lemma attempt_hedges : forall r o,
    attempt valid c presigned url dec sc = (r, o) ->
    exists n hedged, o_chunkof o = seq 0 n ++ hedged /\ (length hedged <= n)%nat
                     /\ (0 < c_max_hedges c -> len hedged <= c_max_hedges c)
                     /\ Forall (fun ck => (ck < n)%nat) hedged /\ NoDup hedged.
  Proof.
    intros r o H. apply attempt_shape in H as [_ HS].
    destruct HS as [_ _ _ Hk _ | cl ar ce fr _ _ _ _ Hk _ | z ar ce r' st _ _ _ _ HR _ _ Hk _].
    - exists O, []. rewrite Hk. repeat split; auto; try constructor. intros; rewrite len_nil; lia.
    - exists O, []. rewrite Hk. repeat split; auto; try constructor. intros; rewrite len_nil; lia.
    - pose proof (run_parallel_hedges _ _ _ _ _ _ _ _ HR) as (H1 & H2 & H3).
      apply run_parallel_inv in HR. destruct HR as [_ I2 I3 _ _ _].
      exists (length (compute_ranges z (c_chunk c))), (p_hedged st). rewrite Hk. repeat split; auto.
  Qed.

  Lemma attempt_decoded_cap : forall r o,
    attempt valid c presigned url dec sc = (r, o) ->
    (forall d, r = ROk d -> len d <= max_dec c)
    /\ (forall k data m, o_dec o = Some (k, data, m) -> m = max_dec c).
  Proof.
    intros r o H. apply attempt_shape in H as [_ HS].
    destruct HS as [(e & He) _ _ _ Hdc | cl ar ce fr _ _ _ _ _ (n & _ & Hn) | z ar ce r' st _ _ _ _ _ _ _ _ Hr].
    - subst r. rewrite Hdc. split; intros; discriminate.
    - destruct fr as [rs tr|e tr].
      + destruct (negb (is_2xx (r_status rs))).
        * destruct Hn as (Hr & _ & Hdc). subst r; rewrite Hdc. split; intros; discriminate.
        * destruct (read_single _ _ _ _ _) as [[d0|e] n'].
          -- destruct Hn as (_ & Hpd). split.
             ++ intros d Hd. subst r. apply post_decode_ok in Hpd. tauto.
             ++ intros k data m Hm. apply post_decode_dc in Hpd. rewrite Hm in Hpd. auto.
          -- destruct Hn as (Hr & _ & Hdc). subst r; rewrite Hdc. split; intros; discriminate.
      + destruct Hn as (Hr & _ & Hdc). subst r; rewrite Hdc. split; intros; discriminate.
    - destruct r' as [d0|e].
      + split.
        * intros d Hd. subst r. apply post_decode_ok in Hr. tauto.
        * intros k data m Hm. apply post_decode_dc in Hr. rewrite Hm in Hr. auto.
      + destruct Hr as (Hr & Hdc). subst r; rewrite Hdc. split; intros; discriminate.
  Qed.

  (* ---- exact or fail ---- *)
  (* the origin serves `obj`: the clean stream of the final data GET is the object; a range task that succeeds for one
     of the ranges computed from the probed length delivers that slice of the object; and - the side condition that
     the code does not establish itself - the length the probe reported is the object's length *)
  Definition origin_serves (obj : list N) : Prop :=
    (forall rs tr, follow valid (c_max_redir c) 0%N url (s_get sc) = FOk rs tr -> r_berr rs = false -> concat (r_units rs) = obj)
    /\ (forall z ar ce tid t0 t1 hops rg x ob,
          fst (probe valid c url presigned (s_probe sc)) = PInfo (Some z) ar ce -> In rg (compute_ranges z (c_chunk c)) ->
          nth_error (s_tasks sc) tid = Some (t0, t1, hops) ->
          run_task valid c url rg hops = (TOk x, ob) -> x = slice obj rg).
  Definition probed_length_true (obj : list N) : Prop :=
    forall z ar ce, fst (probe valid c url presigned (s_probe sc)) = PInfo (Some z) ar ce -> c_threshold c <= z -> z = len obj.

  (* the Content-Encoding that describes the delivered bytes: on the single-GET path the one named by the response that
     carried the body, the probe's only when that response names none; on the range path the probe's *)
  Definition effective_cenc (ce : Z) : Prop :=
    exists cl ar pce, fst (probe valid c url presigned (s_probe sc)) = PInfo cl ar pce /\
      match parallel_len c cl ar with
      | Some _ => ce = pce
      | None => exists rs tr, follow valid (c_max_redir c) 0%N url (s_get sc) = FOk rs tr
                              /\ ce = if r_cenc rs =? 0 then pce else r_cenc rs
      end.

  Lemma attempt_exact_partial : forall obj d o,
    0 < c_chunk c ->
    origin_serves obj -> probed_length_true obj ->
    attempt valid c presigned url dec sc = (ROk d, o) ->
    exists ce, effective_cenc ce /\
               match codec_of ce with
               | None => d = obj
               | Some k => dec k obj (max_dec c) = Some d
               end.
  Proof.
    intros obj d o Hc [HG HT] HL H. apply attempt_shape in H as [_ HS].
    destruct HS as [(e & He) _ _ _ _ | cl ar ce fr HP0 HPL Hfr _ _ (n & _ & Hn) | z ar ce r' st HP HPL _ Hth HR _ _ _ Hr].
    - discriminate.
    - destruct fr as [rs tr|e tr]; [|destruct Hn; discriminate].
      destruct (negb (is_2xx (r_status rs))); [destruct Hn; discriminate|].
      destruct (read_single _ _ _ _ _) as [[d0|e] n'] eqn:ERS; [|destruct Hn; discriminate].
      destruct Hn as (_ & Hpd).
      apply read_single_ok in ERS as (Hb & Hd0 & _ & _). simpl in Hd0.
      rewrite iter_chunked_concat in Hd0 by (unfold io_chunk; lia).
      rewrite (HG rs tr (eq_sym Hfr) Hb) in Hd0. subst d0.
      exists (if r_cenc rs =? 0 then ce else r_cenc rs). split.
      { exists cl, ar, ce. split; [exact HP0|]. rewrite HPL. exists rs, tr. split; [symmetry; exact Hfr | reflexivity]. }
      apply post_decode_ok in Hpd as (_ & Hpd).
      destruct (codec_of _); tauto.
    - destruct r' as [d0|e]; [|destruct Hr; discriminate].
      pose proof (HL z ar ce HP Hth) as Hz. subst z.
      assert (d0 = obj).
      { eapply run_parallel_exact; [| |exact HR].
        - apply compute_ranges_covers; auto. apply len_nonneg.
        - intros tid t0 t1 hops rg x ob Ht Hin Hrun. eapply HT; eauto. }
      subst d0. exists ce. split.
      { exists (Some (len obj)), ar, ce. split; [exact HP|]. rewrite HPL. reflexivity. }
      apply post_decode_ok in Hr as (_ & Hr). destruct (codec_of ce); tauto.
  Qed.
End AttemptThm.

(* ---- fetch_url ---- *)
Lemma fetch_url_attempts : forall valid c presigned url dec1 dec2 sc1 sc2 r obs,
  fetch_url valid c presigned url dec1 dec2 sc1 sc2 = (r, obs) ->
  (exists o1, obs = [o1] /\ attempt valid c presigned url dec1 sc1 = (r, o1) /\ retryable r = false)
  \/ (exists r1 o1 o2, obs = [o1; o2] /\ attempt valid c presigned url dec1 sc1 = (r1, o1) /\ retryable r1 = true
                       /\ attempt valid c presigned url dec2 sc2 = (r, o2)).
Proof.
  intros valid c presigned url dec1 dec2 sc1 sc2 r obs. unfold fetch_url.
  destruct (attempt valid c presigned url dec1 sc1) as [r1 o1] eqn:E1.
  destruct (retryable r1) eqn:ER.
  - destruct (attempt valid c presigned url dec2 sc2) as [r2 o2] eqn:E2.
    intros H; inversion H; subst. right. exists r1, o1, o2. auto.
  - intros H; inversion H; subst. left. exists o1. auto.
Qed.

Lemma fetch_url_each_attempt : forall valid c presigned url dec1 dec2 sc1 sc2 r obs o,
  fetch_url valid c presigned url dec1 dec2 sc1 sc2 = (r, obs) -> In o obs ->
  exists dec sc r', (dec = dec1 /\ sc = sc1 \/ dec = dec2 /\ sc = sc2) /\ attempt valid c presigned url dec sc = (r', o).
Proof.
  intros valid c presigned url dec1 dec2 sc1 sc2 r obs o H Hin.
  apply fetch_url_attempts in H as [(o1 & Ho & H1 & _) | (r1 & o1 & o2 & Ho & H1 & _ & H2)]; subst obs.
  - destruct Hin as [Hin|[]]; subst. exists dec1, sc1, r. auto.
  - destruct Hin as [Hin|[Hin|[]]]; subst; [exists dec1, sc1, r1 | exists dec2, sc2, r]; auto.
Qed.

(* ---- the statements of prop/P_C31.v ---- *)
Lemma fetch_url_only_validated :
  forall valid c presigned url dec1 dec2 sc1 sc2 r obs,
    fetch_url valid c presigned url dec1 dec2 sc1 sc2 = (r, obs) ->
    (forall o s u, In o obs -> In s (seqs_of o) -> In u (fst s) -> valid u = true)
    /\ (forall rg hops u, In u (fst (snd (run_task valid c url rg hops))) -> valid u = true).
Proof.
  intros valid c presigned url dec1 dec2 sc1 sc2 r obs H. split.
  - intros o s u Ho Hs Hu.
    destruct (fetch_url_each_attempt _ _ _ _ _ _ _ _ _ _ _ H Ho) as (dec & sc & r' & _ & HA).
    apply attempt_seqs_ok in HA. rewrite Forall_forall in HA. destruct (HA s Hs) as [HV _].
    rewrite Forall_forall in HV. auto.
  - intros rg hops u Hu. pose proof (run_task_contacted_valid valid c url rg hops) as HV.
    rewrite Forall_forall in HV. auto.
Qed.

Lemma fetch_url_redirects :
  forall valid c presigned url dec1 dec2 sc1 sc2 r obs,
    fetch_url valid c presigned url dec1 dec2 sc1 sc2 = (r, obs) ->
    (forall o s, In o obs -> In s (seqs_of o) -> (N.of_nat (length (fst s)) <= c_max_redir c + 1)%N)
    /\ (forall rg hops, (N.of_nat (length (fst (snd (run_task valid c url rg hops)))) <= c_max_redir c + 1)%N).
Proof.
  intros valid c presigned url dec1 dec2 sc1 sc2 r obs H. split.
  - intros o s Ho Hs.
    destruct (fetch_url_each_attempt _ _ _ _ _ _ _ _ _ _ _ H Ho) as (dec & sc & r' & _ & HA).
    apply attempt_seqs_ok in HA. rewrite Forall_forall in HA. destruct (HA s Hs) as [_ HL]. exact HL.
  - intros rg hops. apply run_task_contacted_length.
Qed.

Lemma fetch_url_bytes :
  forall valid c presigned url dec1 dec2 sc1 sc2 r obs,
    0 <= c_max_fetch c -> 0 < c_chunk c ->
    fetch_url valid c presigned url dec1 dec2 sc1 sc2 = (r, obs) ->
    forall o, In o obs ->
      0 <= snd (o_probe o) <= 2
      /\ (presigned = false -> snd (o_probe o) = 0)
      /\ (forall s, o_get o = Some s -> 0 <= snd s <= c_max_fetch c + 65536)
      /\ (forall tid s, In (tid, s) (o_done o) -> 0 <= snd s <= Z.min (c_chunk c) (c_max_fetch c) + 1)
      /\ (forall z rg hops, In rg (compute_ranges z (c_chunk c)) ->
            0 <= snd (snd (run_task valid c url rg hops)) <= Z.min (snd rg - fst rg + 1) (c_max_fetch c) + 1).
Proof.
  intros valid c presigned url dec1 dec2 sc1 sc2 r obs Hm Hc H o Ho.
  destruct (fetch_url_each_attempt _ _ _ _ _ _ _ _ _ _ _ H Ho) as (dec & sc & r' & _ & HA).
  destruct (attempt_bytes _ _ _ _ _ _ _ _ Hm Hc HA) as (B1 & B2 & B3 & B4).
  repeat split; auto; try lia.
  - apply B3; auto.
  - pose proof (B3 s H0). unfold io_chunk in *. lia.
  - apply B4 in H0; lia.
  - apply B4 in H0; lia.
  - pose proof (compute_ranges_sizes z (c_chunk c) rg Hc H0).
    pose proof (run_task_taken valid c url rg hops ltac:(lia) Hm). lia.
  - pose proof (compute_ranges_sizes z (c_chunk c) rg Hc H0).
    pose proof (run_task_taken valid c url rg hops ltac:(lia) Hm). lia.
Qed.

Lemma fetch_url_hedges :
  forall valid c presigned url dec1 dec2 sc1 sc2 r obs,
    fetch_url valid c presigned url dec1 dec2 sc1 sc2 = (r, obs) ->
    forall o, In o obs ->
      exists n hedged, o_chunkof o = seq 0 n ++ hedged /\ (length hedged <= n)%nat
                       /\ (0 < c_max_hedges c -> len hedged <= c_max_hedges c)
                       /\ Forall (fun ck => (ck < n)%nat) hedged /\ NoDup hedged.
Proof.
  intros valid c presigned url dec1 dec2 sc1 sc2 r obs H o Ho.
  destruct (fetch_url_each_attempt _ _ _ _ _ _ _ _ _ _ _ H Ho) as (dec & sc & r' & _ & HA).
  eapply attempt_hedges; eauto.
Qed.

Lemma compute_ranges_partition :
  forall cl chunk, 0 < chunk -> 0 <= cl ->
    covers 0 cl (compute_ranges cl chunk)
    /\ Forall (fun r => snd r - fst r + 1 <= chunk) (compute_ranges cl chunk)
    /\ (forall obj : list N, len obj = cl -> concat (map (slice obj) (compute_ranges cl chunk)) = obj).
Proof.
  intros cl chunk Hc Hcl. destruct (compute_ranges_covers cl chunk Hc Hcl) as [H1 H2].
  repeat split; auto. intros obj Hl. apply covers_slices_all. rewrite Hl. exact H1.
Qed.

Lemma fetch_url_decoded_cap :
  forall valid c presigned url dec1 dec2 sc1 sc2 r obs,
    fetch_url valid c presigned url dec1 dec2 sc1 sc2 = (r, obs) ->
    (forall d, r = ROk d -> len d <= max_dec c)
    /\ (forall o k data m, In o obs -> o_dec o = Some (k, data, m) -> m = max_dec c).
Proof.
  intros valid c presigned url dec1 dec2 sc1 sc2 r obs H. split.
  - intros d Hd. apply fetch_url_attempts in H as [(o1 & _ & H1 & _) | (r1 & o1 & o2 & _ & _ & _ & H2)].
    + apply attempt_decoded_cap in H1 as [H1 _]. auto.
    + apply attempt_decoded_cap in H2 as [H2 _]. auto.
  - intros o k data m Ho Hm.
    destruct (fetch_url_each_attempt _ _ _ _ _ _ _ _ _ _ _ H Ho) as (dec & sc & r' & _ & HA).
    apply attempt_decoded_cap in HA as [_ HA]. eauto.
Qed.

(* ---- the total over all range tasks of one attempt ---- *)
Definition sumZ (l : list Z) : Z := fold_right Z.add 0 l.
Definition range_size (rg : Z * Z) : Z := snd rg - fst rg + 1.
(* upper bound on what one task created for chunk ck can take (C31_bytes_read_le_cap_plus_chunk, last conjunct) *)
Definition task_cap (ranges : list (Z * Z)) (maxf : Z) (ck : nat) : Z :=
  Z.min (range_size (nth ck ranges (0, 0))) maxf + 1.

Lemma sumZ_app : forall a b, sumZ (a ++ b) = sumZ a + sumZ b.
Proof. induction a as [|x a IH]; intros b; simpl; [lia | rewrite IH; lia]. Qed.

Lemma covers_sum : forall rs lo hi, covers lo hi rs -> sumZ (map range_size rs) = hi - lo.
Proof.
  induction rs as [|[s e] r IH]; intros lo hi H; simpl in H; simpl.
  - lia.
  - destruct H as (Hs & Hle & Hr). rewrite (IH _ _ Hr). unfold range_size. simpl. lia.
Qed.

Lemma map_nth_seq : forall (l : list (Z * Z)) d, map (fun i => nth i l d) (seq 0 (length l)) = l.
Proof.
  induction l as [|x l IH]; intros d; simpl; [reflexivity|].
  f_equal. rewrite <- seq_shift, map_map. apply IH.
Qed.

Lemma total_range_bytes_bound : forall z chunk maxf hedged,
  0 < chunk -> 0 <= z <= maxf ->
  let ranges := compute_ranges z chunk in
  let n := length ranges in
  Forall (fun ck => (ck < n)%nat) hedged ->
  sumZ (map (task_cap ranges maxf) (seq 0 n ++ hedged)) <= maxf + Z.of_nat n + len hedged * (chunk + 1).
Proof.
  intros z chunk maxf hedged Hc Hz ranges n Hh.
  rewrite map_app, sumZ_app.
  destruct (compute_ranges_covers z chunk Hc ltac:(lia)) as [Hcov Hsz]. fold ranges in Hcov, Hsz.
  assert (H1 : sumZ (map (task_cap ranges maxf) (seq 0 n)) <= z + Z.of_nat n).
  { assert (G : forall l, sumZ (map (fun rg => Z.min (range_size rg) maxf + 1) l) <= sumZ (map range_size l) + len l).
    { induction l as [|x l IH]; cbn [map sumZ fold_right]; [unfold len; simpl; lia | rewrite len_cons; fold (sumZ (map (fun rg => Z.min (range_size rg) maxf + 1) l)); fold (sumZ (map range_size l)); lia]. }
    assert (E : map (task_cap ranges maxf) (seq 0 n) = map (fun rg => Z.min (range_size rg) maxf + 1) ranges).
    { rewrite <- (map_nth_seq ranges (0, 0)) at 2. rewrite map_map. reflexivity. }
    rewrite E. specialize (G ranges). rewrite (covers_sum _ _ _ Hcov) in G. unfold len in G. unfold n. lia. }
  assert (H2 : sumZ (map (task_cap ranges maxf) hedged) <= len hedged * (chunk + 1)).
  { clear H1. induction hedged as [|ck h IH]; cbn [map sumZ fold_right]; [unfold len; simpl; lia|].
    fold (sumZ (map (task_cap ranges maxf) h)).
    inversion Hh as [|? ? Hck Hh']; subst. specialize (IH Hh'). rewrite len_cons.
    assert (range_size (nth ck ranges (0, 0)) <= chunk).
    { rewrite Forall_forall in Hsz. apply (Hsz (nth ck ranges (0, 0))). apply nth_In. exact Hck. }
    change (task_cap ranges maxf ck) with (Z.min (range_size (nth ck ranges (0, 0))) maxf + 1). nia. }
  lia.
Qed.
