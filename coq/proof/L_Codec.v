(* Proofs about model/M_Codec.v: the cap / dispatch logic of vgi_rpc/_codec.py is exact for
   every byte string, every cap and every behaviour of the codec libraries that satisfies the
   laws stated here (the laws themselves -- decomp o comp = id, honest content-size field,
   readers that make progress -- are hypotheses about zstd / zlib, not proved). *)
From Coq Require Import List NArith ZArith Bool Lia.
From VGI Require Import M_Codec.
Import ListNotations.
Open Scope Z_scope.

(* ---------- laws of the codec libraries (hypotheses of the theorems) ---------- *)

(* reader.read(n) with n >= 1 returns at least one byte while undelivered output remains *)
Definition zstd_progress (rd : nat -> Z -> bytes -> Z) : Prop :=
  forall i n rest, rest <> [] -> 1 <= n -> 1 <= rd i n rest.

(* if do.decompress(inbuf, n) with n >= 1 leaves unconsumed input, it returned at least one
   byte of the as yet undelivered output *)
Definition gz_progress (dec : nat -> Z -> bytes -> Z * bool * bool) : Prop :=
  forall i n rest, 1 <= n -> snd (fst (dec i n rest)) = true -> 1 <= fst (fst (dec i n rest)) /\ rest <> [].

(* f is a zstd frame of d: the streaming decoder yields d; when the header stores a size it
   is the true size and the one-shot decoder returns d *)
Definition zstd_frame_of (P : params) (E : env) (f d : bytes) : Prop :=
  zstd_stream E f = d /\
  zstd_progress (zstd_read E f) /\
  (forall s, zstd_content_size P (zstd_declared E f) = Some s -> s = len d /\ zstd_oneshot E f = Ok d).

(* f is a complete gzip stream of d (the decoder reaches the end-of-stream marker) *)
Definition gz_frame_of (P : params) (E : env) (f d : bytes) : Prop :=
  gz_stream E (p_gzip_wbits P) f = d /\ gz_eof E f = true /\ gz_progress (gz_dec E f).

(* decomp o comp = id, at every level *)
Definition codec_laws (P : params) (E : env) : Prop :=
  (forall l d, zstd_frame_of P E (zstd_comp E l d) d) /\
  (forall l d, gz_frame_of P E (gz_comp E l (p_gzip_wbits P) d) d).

Definition expected (d : bytes) (cap : Z) : result :=
  if len d <=? cap then Ok d else LimitErr.

(* ---------- list / length helpers ---------- *)
Lemma len_app : forall a b : bytes, len (a ++ b) = len a + len b.
Proof. intros a b. unfold len. rewrite app_length. lia. Qed.

Lemma len_nonneg : forall a : bytes, 0 <= len a.
Proof. intros a. unfold len. lia. Qed.

Lemma len_cons_pos : forall x (a : bytes), 1 <= len (x :: a).
Proof. intros x a. unfold len. cbn [length]. lia. Qed.

Lemma concat_rev_cons : forall (c : bytes) (acc : list bytes),
  concat (rev (c :: acc)) = concat (rev acc) ++ c.
Proof.
  intros c acc. cbn [rev]. rewrite concat_app. cbn [concat]. rewrite app_nil_r. reflexivity.
Qed.

Lemma firstn_nil_skipn : forall (m : nat) (l : bytes), firstn m l = [] -> skipn m l = l.
Proof.
  intros m l H. pose proof (firstn_skipn m l) as E. rewrite H in E. exact E.
Qed.

Lemma skipn_shorter : forall (m : nat) (l : bytes) x c,
  firstn m l = x :: c -> (length (skipn m l) < length l)%nat.
Proof.
  intros m l x c H. pose proof (firstn_skipn m l) as E. rewrite H in E.
  rewrite <- E at 2. rewrite app_length. cbn [length]. lia.
Qed.

Lemma len_firstn_le : forall (m : nat) (l : bytes), len (firstn m l) <= len l.
Proof.
  intros m l. pose proof (firstn_skipn m l) as E.
  assert (H : len l = len (firstn m l) + len (skipn m l)) by (rewrite <- len_app, E; reflexivity).
  pose proof (len_nonneg (skipn m l)). lia.
Qed.

Section Std.
(* the values of the source the proofs do not depend on, except that the read chunk is >= 1 *)
Variable K : knobs.
Hypothesis HK : 1 <= k_chunk K.

(* ---------- _zstd_content_size ---------- *)
Lemma content_size_std : forall raw,
  zstd_content_size (std_params K) raw =
    if (raw =? -1) || (raw =? 18446744073709551615) then None else Some raw.
Proof.
  intros raw. unfold zstd_content_size. cbn [p_sentinels std_params existsb].
  unfold ZSTD_CONTENTSIZE_UNKNOWN. rewrite orb_false_r. reflexivity.
Qed.

Lemma content_size_none_iff : forall raw,
  zstd_content_size (std_params K) raw = None <-> raw = -1 \/ raw = 18446744073709551615.
Proof.
  intros raw. rewrite content_size_std.
  destruct (raw =? -1) eqn:E1; destruct (raw =? 18446744073709551615) eqn:E2; cbn [orb];
    split; intro H; try reflexivity; try discriminate; try lia.
Qed.

Lemma content_size_some : forall raw,
  raw <> -1 -> raw <> 18446744073709551615 -> zstd_content_size (std_params K) raw = Some raw.
Proof.
  intros raw H1 H2. rewrite content_size_std.
  destruct (raw =? -1) eqn:E1; [lia|]. destruct (raw =? 18446744073709551615) eqn:E2; [lia|]. reflexivity.
Qed.

Lemma content_size_some_inv : forall raw s, zstd_content_size (std_params K) raw = Some s -> s = raw.
Proof.
  intros raw s. unfold zstd_content_size. destruct (existsb _ _); intro H; [discriminate|].
  injection H as H. symmetry. exact H.
Qed.

(* ---------- the zstd streaming loop ---------- *)
Lemma std_zreq_ge1 : forall cap total, total <= cap -> 1 <= p_zreq (std_params K) cap total.
Proof. intros cap total H. cbn [p_zreq std_params]. lia. Qed.

Lemma reader_take_pos : forall rd i n x r,
  zstd_progress rd -> 1 <= n -> exists m', reader_take rd i n (x :: r) = S m'.
Proof.
  intros rd i n x r Hp Hn. unfold reader_take.
  destruct (n =? 0) eqn:E0; [lia|]. destruct (n <? 0) eqn:E1; [lia|].
  assert (H : 1 <= rd i n (x :: r)) by (apply Hp; [discriminate|exact Hn]).
  exists (Z.to_nat (rd i n (x :: r) - 1)). lia.
Qed.

Lemma zstd_loop_correct : forall rd cap,
  zstd_progress rd ->
  forall fuel i total acc rest reqs,
    (length rest < fuel)%nat ->
    total = len (concat (rev acc)) ->
    total <= cap ->
    fst (zstd_loop (std_params K) rd cap fuel i total acc rest reqs) =
      expected (concat (rev acc) ++ rest) cap.
Proof.
  intros rd cap Hp fuel. induction fuel as [|fuel IH]; intros i total acc rest reqs Hf Ht Hc.
  - lia.
  - cbn [zstd_loop].
    pose proof (std_zreq_ge1 cap total Hc) as Hn.
    destruct rest as [|x r].
    + rewrite firstn_nil. cbn [fst]. rewrite app_nil_r. unfold expected.
      destruct (len (concat (rev acc)) <=? cap) eqn:E; [reflexivity|lia].
    + destruct (reader_take_pos rd i (p_zreq (std_params K) cap total) x r Hp Hn) as [m' Hm].
      rewrite Hm. cbn [firstn].
      set (chunk := x :: firstn m' r).
      assert (Hchunk : firstn (S m') (x :: r) = chunk) by reflexivity.
      assert (Hsplit : chunk ++ skipn (S m') (x :: r) = x :: r)
        by (rewrite <- Hchunk; apply firstn_skipn).
      pose proof (len_cons_pos x (firstn m' r)) as Hpos. fold chunk in Hpos.
      assert (Hall : len (concat (rev acc) ++ x :: r) = total + len chunk + len (skipn (S m') (x :: r))).
      { rewrite <- Hsplit at 1. rewrite !len_app. lia. }
      pose proof (len_nonneg (skipn (S m') (x :: r))) as Hsk.
      cbn [p_zover std_params].
      destruct (total + len chunk >? cap) eqn:Eo.
      * cbn [fst]. unfold expected.
        destruct (len (concat (rev acc) ++ x :: r) <=? cap) eqn:E; [lia|reflexivity].
      * rewrite IH.
        -- rewrite concat_rev_cons, <- app_assoc, Hsplit. reflexivity.
        -- pose proof (skipn_shorter (S m') (x :: r) x (firstn m' r) Hchunk). lia.
        -- rewrite concat_rev_cons, len_app. apply (f_equal (fun z => z + len chunk)). exact Ht.
        -- lia.
Qed.

(* the loop never runs out of fuel, whatever the reader does *)
Lemma zstd_loop_no_diverge : forall P rd cap fuel i total acc rest reqs,
  (length rest < fuel)%nat ->
  fst (zstd_loop P rd cap fuel i total acc rest reqs) <> Diverge.
Proof.
  intros P rd cap fuel. induction fuel as [|fuel IH]; intros i total acc rest reqs Hf.
  - lia.
  - cbn [zstd_loop].
    destruct (firstn (reader_take rd i (p_zreq P cap total) rest) rest) as [|x c] eqn:Ec.
    + cbn [fst]. discriminate.
    + destruct (p_zover P cap (total + len (x :: c))).
      * cbn [fst]. discriminate.
      * apply IH. pose proof (skipn_shorter _ _ _ _ Ec). lia.
Qed.

(* every size asked of the reader lies in [1, min(chunk, cap+1)] *)
Definition req_ok (cap n : Z) : Prop := 1 <= n <= Z.min (k_chunk K) (cap + 1).

Lemma Forall_rev_cons : forall (Q : Z -> Prop) n reqs, Q n -> Forall Q reqs -> Forall Q (rev (n :: reqs)).
Proof.
  intros Q n reqs Hn Hr. apply Forall_rev. constructor; assumption.
Qed.

Lemma zstd_loop_requests : forall rd cap fuel i total acc rest reqs,
  0 <= total <= cap ->
  Forall (req_ok cap) reqs ->
  Forall (req_ok cap) (snd (zstd_loop (std_params K) rd cap fuel i total acc rest reqs)).
Proof.
  intros rd cap fuel. induction fuel as [|fuel IH]; intros i total acc rest reqs Ht Hr.
  - cbn [zstd_loop snd]. apply Forall_rev. exact Hr.
  - cbn [zstd_loop].
    assert (Hn : req_ok cap (p_zreq (std_params K) cap total)).
    { unfold req_ok. cbn [p_zreq std_params]. lia. }
    destruct (firstn (reader_take rd i (p_zreq (std_params K) cap total) rest) rest) as [|x c] eqn:Ec.
    + cbn [snd]. apply Forall_rev_cons; assumption.
    + cbn [p_zover std_params].
      destruct (total + len (x :: c) >? cap) eqn:Eo.
      * cbn [snd]. apply Forall_rev_cons; assumption.
      * apply IH; [|constructor; assumption].
        pose proof (len_cons_pos x c). lia.
Qed.

(* ---------- the gzip loop ---------- *)
Lemma gz_finish_correct : forall cap total acc rest reqs,
  total = len (concat (rev acc)) -> total <= cap ->
  fst (gz_finish (std_params K) true cap total acc rest reqs) = expected (concat (rev acc) ++ rest) cap.
Proof.
  intros cap total acc rest reqs Ht Hc. unfold gz_finish, expected.
  destruct rest as [|x r].
  - cbn [fst negb]. rewrite andb_false_r, app_nil_r. destruct (len (concat (rev acc)) <=? cap) eqn:E; [reflexivity|lia].
  - cbn [p_gover_tail std_params negb]. rewrite len_app, <- Ht.
    destruct (total + len (x :: r) >? cap) eqn:Eo; cbn [fst].
    + destruct (total + len (x :: r) <=? cap) eqn:E; [lia|reflexivity].
    + destruct (total + len (x :: r) <=? cap) eqn:E; [|lia].
      rewrite andb_false_r. rewrite concat_rev_cons. reflexivity.
Qed.

Lemma gz_loop_correct : forall dec cap,
  gz_progress dec ->
  forall fuel i total acc rest rem tl reqs,
    (length rest + 1 < fuel)%nat ->
    total = len (concat (rev acc)) ->
    total <= cap ->
    fst (gz_loop (std_params K) dec true cap fuel i total acc rest rem tl reqs) =
      expected (concat (rev acc) ++ rest) cap.
Proof.
  intros dec cap Hp fuel. induction fuel as [|fuel IH]; intros i total acc rest rem tl reqs Hf Ht Hc.
  - lia.
  - cbn [gz_loop].
    destruct (negb (rem || tl)).
    + apply gz_finish_correct; assumption.
    + assert (Hn : 1 <= p_greq (std_params K) cap total)
        by (cbn [p_greq std_params]; lia).
      pose proof (Hp i (p_greq (std_params K) cap total) rest Hn) as Hpi.
      destruct (dec i (p_greq (std_params K) cap total) rest) as [[k tail'] eofn].
      cbn [fst snd] in Hpi.
      destruct (firstn (Z.to_nat k) rest) as [|x c] eqn:Ec.
      * destruct tail'.
        -- exfalso. destruct (Hpi eq_refl) as [Hk Hne].
           destruct rest as [|y r]; [apply Hne; reflexivity|].
           assert (Hm : exists m', Z.to_nat k = S m') by (exists (Z.to_nat (k - 1)); lia).
           destruct Hm as [m' Hm]. rewrite Hm in Ec. cbn [firstn] in Ec. discriminate.
        -- cbn [negb]. rewrite orb_true_r. rewrite (firstn_nil_skipn _ _ Ec).
           apply gz_finish_correct; assumption.
      * set (chunk := x :: c) in *.
        assert (Hsplit : chunk ++ skipn (Z.to_nat k) rest = rest)
          by (rewrite <- Ec; apply firstn_skipn).
        pose proof (len_cons_pos x c) as Hpos. fold chunk in Hpos.
        assert (Hall : len (concat (rev acc) ++ rest) = total + len chunk + len (skipn (Z.to_nat k) rest)).
        { rewrite <- Hsplit at 1. rewrite !len_app. lia. }
        pose proof (len_nonneg (skipn (Z.to_nat k) rest)) as Hsk.
        cbn [p_gover std_params].
        destruct (total + len chunk >? cap) eqn:Eo.
        -- cbn [fst]. unfold expected.
           destruct (len (concat (rev acc) ++ rest) <=? cap) eqn:E; [lia|reflexivity].
        -- assert (Ht' : total + len chunk = len (concat (rev (chunk :: acc)))).
           { rewrite concat_rev_cons, len_app. apply (f_equal (fun z => z + len chunk)). exact Ht. }
           assert (Hc' : total + len chunk <= cap) by lia.
           assert (Hgoal : expected (concat (rev (chunk :: acc)) ++ skipn (Z.to_nat k) rest) cap =
                           expected (concat (rev acc) ++ rest) cap).
           { rewrite concat_rev_cons, <- app_assoc, Hsplit. reflexivity. }
           destruct (p_gz_eof_break (std_params K) && eofn).
           ++ rewrite gz_finish_correct; assumption.
           ++ rewrite IH; [exact Hgoal| |exact Ht'|exact Hc'].
              pose proof (skipn_shorter _ _ _ _ Ec). lia.
Qed.

Lemma gz_finish_requests : forall eof cap total acc rest reqs,
  Forall (req_ok cap) reqs -> Forall (req_ok cap) (snd (gz_finish (std_params K) eof cap total acc rest reqs)).
Proof.
  intros eof cap total acc rest reqs Hr. unfold gz_finish.
  destruct rest as [|x r]; [cbn [snd]; apply Forall_rev; exact Hr|].
  destruct (p_gover_tail (std_params K) cap (total + len (x :: r))); cbn [snd]; apply Forall_rev; exact Hr.
Qed.

Lemma gz_loop_requests : forall dec eof cap fuel i total acc rest rem tl reqs,
  0 <= total <= cap ->
  Forall (req_ok cap) reqs ->
  Forall (req_ok cap) (snd (gz_loop (std_params K) dec eof cap fuel i total acc rest rem tl reqs)).
Proof.
  intros dec eof cap fuel. induction fuel as [|fuel IH]; intros i total acc rest rem tl reqs Ht Hr.
  - cbn [gz_loop snd]. apply Forall_rev. exact Hr.
  - cbn [gz_loop].
    destruct (negb (rem || tl)); [apply gz_finish_requests; exact Hr|].
    assert (Hn : req_ok cap (p_greq (std_params K) cap total)).
    { unfold req_ok. cbn [p_greq std_params]. lia. }
    destruct (dec i (p_greq (std_params K) cap total) rest) as [[k tail'] eofn].
    destruct (firstn (Z.to_nat k) rest) as [|x c] eqn:Ec.
    + destruct (p_gz_eof_break (std_params K) && eofn || negb tail').
      * apply gz_finish_requests. constructor; assumption.
      * apply IH; [exact Ht|constructor; assumption].
    + cbn [p_gover std_params].
      destruct (total + len (x :: c) >? cap) eqn:Eo.
      * cbn [snd]. apply Forall_rev_cons; assumption.
      * destruct (p_gz_eof_break (std_params K) && eofn).
        -- apply gz_finish_requests. constructor; assumption.
        -- apply IH; [|constructor; assumption].
           pose proof (len_cons_pos x c). lia.
Qed.

(* ---------- whole decoders on frames ---------- *)
Lemma zstd_frame_cap : forall E f d cap,
  zstd_frame_of (std_params K) E f d -> 0 <= cap ->
  decompress (std_params K) E Zstd f (Some cap) = expected d cap.
Proof.
  intros E f d cap [Hs [Hp Hd]] Hc.
  unfold decompress, decompress_tr, decompress_zstd.
  destruct (zstd_content_size (std_params K) (zstd_declared E f)) as [s|] eqn:Ecs.
  - destruct (Hd s eq_refl) as [Hlen Hone]. cbn [p_refuse std_params]. unfold expected.
    destruct (s >? cap) eqn:Eg.
    + cbn [fst]. destruct (len d <=? cap) eqn:El; [lia|reflexivity].
    + cbn [fst]. destruct (len d <=? cap) eqn:El; [exact Hone|lia].
  - cbn [p_refuse std_params]. rewrite Hs.
    rewrite (zstd_loop_correct (zstd_read E f) cap Hp); cbn [rev concat app]; [reflexivity|lia|reflexivity|exact Hc].
Qed.

Lemma zstd_frame_nocap : forall E f d,
  zstd_frame_of (std_params K) E f d -> decompress (std_params K) E Zstd f None = Ok d.
Proof.
  intros E f d [Hs [Hp Hd]].
  unfold decompress, decompress_tr, decompress_zstd.
  destruct (zstd_content_size (std_params K) (zstd_declared E f)) as [s|] eqn:Ecs; cbn [fst].
  - destruct (Hd s eq_refl) as [_ Hone]. exact Hone.
  - rewrite Hs. reflexivity.
Qed.

Lemma gz_frame_cap : forall E f d cap,
  gz_frame_of (std_params K) E f d -> 0 <= cap ->
  decompress (std_params K) E Gzip f (Some cap) = expected d cap.
Proof.
  intros E f d cap [Hs [He Hp]] Hc.
  unfold decompress, decompress_tr, decompress_gzip. rewrite Hs, He.
  rewrite (gz_loop_correct (gz_dec E f) cap Hp); cbn [rev concat app]; [reflexivity|lia|reflexivity|exact Hc].
Qed.

Lemma gz_frame_nocap : forall E f d,
  gz_frame_of (std_params K) E f d -> decompress (std_params K) E Gzip f None = Ok d.
Proof.
  intros E f d [Hs [He Hp]]. unfold decompress, decompress_tr, decompress_gzip. rewrite Hs, He.
  cbn [negb]. rewrite andb_false_r. reflexivity.
Qed.

(* ---------- compress then decompress ---------- *)
Lemma roundtrip_cap : forall E, codec_laws (std_params K) E ->
  forall e lvl d cap, e <> Identity -> 0 <= cap ->
    decompress (std_params K) E e (compress (std_params K) E e d lvl) (Some cap) = expected d cap.
Proof.
  intros E [Hz Hg] e lvl d cap Hne Hc. destruct e.
  - exfalso. apply Hne. reflexivity.
  - apply zstd_frame_cap; [apply Hz|exact Hc].
  - apply gz_frame_cap; [apply Hg|exact Hc].
Qed.

Lemma roundtrip_nocap : forall E, codec_laws (std_params K) E ->
  forall e lvl d, decompress (std_params K) E e (compress (std_params K) E e d lvl) None = Ok d.
Proof.
  intros E [Hz Hg] e lvl d. destruct e.
  - reflexivity.
  - apply zstd_frame_nocap. apply Hz.
  - apply gz_frame_nocap. apply Hg.
Qed.

Lemma identity_passthrough : forall P E d lvl cap,
  decompress P E Identity (compress P E Identity d lvl) cap = Ok d.
Proof. reflexivity. Qed.

Lemma declared_over_cap_refused : forall E f s cap,
  zstd_content_size (std_params K) (zstd_declared E f) = Some s -> s > cap ->
  decompress_tr (std_params K) E Zstd f (Some cap) = (LimitErr, []).
Proof.
  intros E f s cap Hs Hg. unfold decompress_tr, decompress_zstd. rewrite Hs.
  cbn [p_refuse std_params]. destruct (s >? cap) eqn:E1; [reflexivity|lia].
Qed.

(* a frame that declares a size within the cap is handed to the one-shot decoder unchanged
   (whether the declaration is honest or not: the library decides) *)
Lemma declared_within_cap_oneshot : forall E f s cap,
  zstd_content_size (std_params K) (zstd_declared E f) = Some s -> s <= cap ->
  decompress_tr (std_params K) E Zstd f (Some cap) = (zstd_oneshot E f, []).
Proof.
  intros E f s cap Hs Hg. unfold decompress_tr, decompress_zstd. rewrite Hs.
  cbn [p_refuse std_params]. destruct (s >? cap) eqn:E1; [lia|reflexivity].
Qed.

Lemma requests_bounded : forall E e f cap, 0 <= cap ->
  Forall (req_ok cap) (snd (decompress_tr (std_params K) E e f (Some cap))).
Proof.
  intros E e f cap Hc. destruct e; cbn [decompress_tr snd].
  - constructor.
  - unfold decompress_zstd.
    destruct (p_refuse (std_params K) _ cap); [constructor|].
    destruct (zstd_content_size (std_params K) (zstd_declared E f)); [constructor|].
    apply zstd_loop_requests; [lia|constructor].
  - unfold decompress_gzip. apply gz_loop_requests; [lia|constructor].
Qed.

(* ---------- a concrete environment satisfying the laws (non-vacuity) ---------- *)
(* "compressor" = identity on bytes; the header stores the size iff [sized] *)
Definition toy_env (sized : bool) : env := {|
  zstd_comp := fun _ d => d;
  zstd_declared := fun f => if sized then len f else -1;
  zstd_oneshot := fun f => Ok f;
  zstd_stream := fun f => f;
  zstd_read := fun _ _ n rest => Z.min n (len rest);
  gz_comp := fun _ _ d => d;
  gz_stream := fun _ f => f;
  gz_eof := fun _ => true;
  gz_dec := fun _ _ n rest => (Z.min n (len rest), n <? len rest, len rest <=? n)
|}.

Lemma toy_laws : forall sized, codec_laws (std_params K) (toy_env sized).
Proof.
  intros sized. split; intros l d.
  - split; [reflexivity|]. split.
    + intros i n rest Hne Hn. cbn [zstd_read toy_env].
      destruct rest as [|x r]; [contradiction|]. pose proof (len_cons_pos x r). lia.
    + intros s Hs. cbn [zstd_comp zstd_declared zstd_oneshot toy_env] in *.
      destruct sized.
      * apply content_size_some_inv in Hs. split; [exact Hs|reflexivity].
      * rewrite content_size_std in Hs. cbn in Hs. discriminate Hs.
  - split; [reflexivity|]. split; [reflexivity|].
    intros i n rest Hn Ht. cbn [gz_dec toy_env fst snd] in *.
    destruct rest as [|x r].
    + cbn in Ht. lia.
    + split; [|discriminate]. pose proof (len_cons_pos x r). lia.
Qed.

End Std.
