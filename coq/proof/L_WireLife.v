(* L_WireLife: lemmas for C10 (stream lifecycle). *)
From Coq Require Import List NArith ZArith Bool Lia.
From VGI Require Import Corr M_Wire L_Wire L_WireHttp M_WireLife.
Import ListNotations.
Open Scope N_scope.

(* ================================================================== _coerce_input_batch *)
Lemma str_eqb_eq (a b : str) : str_eqb a b = true <-> a = b.
Proof. apply list_eqb_eq. intros x y. apply N.eqb_eq. Qed.

Lemma str_eqb_refl (a : str) : str_eqb a a = true.
Proof. apply str_eqb_eq. reflexivity. Qed.

Section CoerceFacts.
  Variable ty col : Type.
  Variable ty_eqb : ty -> ty -> bool.
  Variable cast : ty -> ty -> col -> option col.
  Hypothesis ty_eqb_eq : forall a b, ty_eqb a b = true <-> a = b.

  Notation fieldT := (field ty).
  Notation columnT := (column ty col).
  Notation coerceT := (coerce ty col ty_eqb cast).
  Notation schema := (schema_of ty col).
  Notation nms := (names ty).

  Lemma field_eqb_eq (f g : fieldT) : field_eqb ty ty_eqb f g = true <-> f = g.
  Proof.
    unfold field_eqb. destruct f as [n t], g as [n' t']. cbn [fst snd]. rewrite andb_true_iff, str_eqb_eq, ty_eqb_eq.
    split; [intros [-> ->]; reflexivity|intro H; inversion H; split; reflexivity].
  Qed.

  Lemma schema_eqb_eq (a b : list fieldT) : schema_eqb ty ty_eqb a b = true <-> a = b.
  Proof. apply list_eqb_eq. exact field_eqb_eq. Qed.

  Lemma names_eqb_eq (a b : list str) : list_eqb str_eqb a b = true <-> a = b.
  Proof. apply list_eqb_eq. exact str_eqb_eq. Qed.

  Lemma mem_In n l : mem n l = true <-> In n l.
  Proof.
    unfold mem. rewrite existsb_exists. split.
    - intros [x [Hx He]]. apply str_eqb_eq in He. subst. exact Hx.
    - intro H. exists n. split; [exact H|apply str_eqb_refl].
  Qed.

  Lemma subset_spec a b : subset a b = true <-> (forall n, In n a -> In n b).
  Proof.
    unfold subset. rewrite forallb_forall. split; intros H n Hn.
    - apply mem_In. exact (H n Hn).
    - apply mem_In. exact (H n Hn).
  Qed.

  Lemma set_eqb_spec a b : set_eqb a b = true <-> (forall n, In n a <-> In n b).
  Proof.
    unfold set_eqb. rewrite andb_true_iff, !subset_spec. split.
    - intros [H1 H2] n. split; [apply H1|apply H2].
    - intro H. split; intros n Hn; apply H; exact Hn.
  Qed.

  (* ---- select *)
  Lemma find_all_In n (b : list columnT) c : In c (find_all ty col n b) -> In c b /\ fst (fst c) = n.
  Proof.
    unfold find_all. rewrite filter_In. intros [H1 H2]. apply str_eqb_eq in H2. split; [exact H1|symmetry; exact H2].
  Qed.

  Lemma select_sound : forall ns (b l : list columnT), select ty col ns b = Some l ->
    nms (schema l) = ns /\ (forall c, In c l -> In c b).
  Proof.
    induction ns as [|n r IH]; intros b l H.
    - inversion H; subst. split; [reflexivity|intros c []].
    - cbn [select] in H. destruct (find_all ty col n b) as [|c [|c2 rest]] eqn:E; try discriminate H.
      destruct (select ty col r b) as [l'|] eqn:E'; [|discriminate H]. inversion H; subst.
      destruct (IH b l' E') as [Hn Hin].
      assert (Hc : In c (find_all ty col n b)) by (rewrite E; left; reflexivity).
      apply find_all_In in Hc as [Hc1 Hc2]. split.
      + cbn. rewrite Hc2. f_equal. exact Hn.
      + intros x [<-|Hx]; [exact Hc1|exact (Hin x Hx)].
  Qed.

  Lemma find_all_none : forall (b : list columnT) n, ~ In n (nms (schema b)) -> find_all ty col n b = [].
  Proof.
    induction b as [|c r IH]; intros n Hn; [reflexivity|].
    unfold find_all. cbn [filter]. match goal with |- context [str_eqb ?a ?b] => destruct (str_eqb a b) eqn:E end.
    - apply str_eqb_eq in E. exfalso. apply Hn. cbn. left. symmetry. exact E.
    - apply IH. intro Hc. apply Hn. cbn. right. exact Hc.
  Qed.

  Lemma find_all_unique : forall (b : list columnT) n,
    NoDup (nms (schema b)) -> In n (nms (schema b)) -> exists c, find_all ty col n b = [c].
  Proof.
    induction b as [|c r IH]; intros n Hnd Hin; [destruct Hin|].
    cbn in Hnd, Hin. inversion Hnd as [|x l Hx Hl]; subst.
    unfold find_all. cbn [filter]. match goal with |- context [str_eqb ?a ?b] => destruct (str_eqb a b) eqn:E end.
    - apply str_eqb_eq in E. subst n. exists c. f_equal. apply find_all_none. exact Hx.
    - destruct Hin as [Hin|Hin]; [subst n; rewrite str_eqb_refl in E; discriminate E|].
      exact (IH n Hl Hin).
  Qed.

  Lemma select_complete : forall ns (b : list columnT),
    NoDup (nms (schema b)) -> (forall n, In n ns -> In n (nms (schema b))) -> exists l, select ty col ns b = Some l.
  Proof.
    induction ns as [|n r IH]; intros b Hnd Hsub; [exists []; reflexivity|].
    cbn [select]. destruct (find_all_unique b n Hnd (Hsub n (or_introl eq_refl))) as [c ->].
    destruct (IH b Hnd (fun m Hm => Hsub m (or_intror Hm))) as [l ->]. exists (c :: l). reflexivity.
  Qed.

  (* ---- cast_all *)
  Lemma cast_all_sound : forall (target : list fieldT) (b b2 : list columnT), cast_all ty col cast target b = Some b2 ->
    schema b2 = target /\
    (nms (schema b) = nms target ->
     forall f v, In (f, v) b2 -> exists c, In c b /\ fst (fst c) = fst f /\ cast (snd f) (snd (fst c)) (snd c) = Some v).
  Proof.
    induction target as [|f tr IH]; intros b b2 H.
    - destruct b; [|discriminate H]. inversion H; subst. split; [reflexivity|intros _ f v []].
    - destruct b as [|c br]; [discriminate H|]. cbn [cast_all] in H.
      destruct (cast (snd f) (snd (fst c)) (snd c)) as [v0|] eqn:Ec; [|discriminate H].
      destruct (cast_all ty col cast tr br) as [r|] eqn:Er; [|discriminate H]. inversion H; subst.
      destruct (IH br r Er) as [Hs Hp]. split; [cbn; f_equal; exact Hs|].
      intros Hn g v [Hg|Hg].
      + inversion Hg; subst. exists c. cbn in Hn. injection Hn as Hn1 Hn2. split; [left; reflexivity|]. split; [exact Hn1|exact Ec].
      + cbn in Hn. injection Hn as Hn1 Hn2. destruct (Hp Hn2 g v Hg) as [c' [H1 [H2 H3]]].
        exists c'. split; [right; exact H1|]. split; [exact H2|exact H3].
  Qed.

  Lemma cast_all_complete : forall (target : list fieldT) (b : list columnT),
    nms (schema b) = nms target ->
    (forall c f, In c b -> In f target -> fst (fst c) = fst f -> exists v, cast (snd f) (snd (fst c)) (snd c) = Some v) ->
    exists b2, cast_all ty col cast target b = Some b2.
  Proof.
    induction target as [|f tr IH]; intros b Hn Hc.
    - destruct b; [exists []; reflexivity|discriminate Hn].
    - destruct b as [|c br]; [discriminate Hn|]. cbn in Hn. injection Hn as Hn1 Hn2.
      cbn [cast_all]. destruct (Hc c f (or_introl eq_refl) (or_introl eq_refl) Hn1) as [v ->].
      destruct (IH br Hn2) as [r ->]; [|exists ((f, v) :: r); reflexivity].
      intros c' f' H1 H2 H3. apply Hc; [right; exact H1|right; exact H2|exact H3].
  Qed.

  (* ---- the three-way rule *)
  (* 1. an input that already has the declared schema reaches the state unchanged *)
  Lemma coerce_equal target (b : list columnT) : schema b = target -> coerceT target b = CAccept b.
  Proof. intro H. unfold coerce. apply schema_eqb_eq in H. rewrite H. reflexivity. Qed.

  (* 2. whatever reaches the state has the declared schema, and every column of it is the same-named input column,
        as it was or cast to the declared type *)
  Lemma coerce_accept target (b b' : list columnT) : coerceT target b = CAccept b' ->
    schema b' = target /\
    forall f v, In (f, v) b' ->
      exists c, In c b /\ fst (fst c) = fst f /\ (c = (f, v) \/ cast (snd f) (snd (fst c)) (snd c) = Some v).
  Proof.
    unfold coerce. destruct (schema_eqb ty ty_eqb (schema b) target) eqn:E1.
    - intro H. inversion H; subst. apply schema_eqb_eq in E1. split; [exact E1|].
      intros f v Hin. exists (f, v). split; [exact Hin|]. split; [reflexivity|left; reflexivity].
    - destruct (set_eqb (nms (schema b)) (nms target)); cbn [negb]; [|discriminate].
      assert (Hsel : forall b1, (if list_eqb str_eqb (nms (schema b)) (nms target) then Some b else select ty col (nms target) b) = Some b1 ->
                     nms (schema b1) = nms target /\ forall c, In c b1 -> In c b).
      { intros b1. destruct (list_eqb str_eqb (nms (schema b)) (nms target)) eqn:En.
        - intro H. inversion H; subst. apply names_eqb_eq in En. split; [exact En|auto].
        - apply select_sound. }
      destruct (if list_eqb str_eqb (nms (schema b)) (nms target) then Some b else select ty col (nms target) b) as [b1|]; [|discriminate].
      destruct (Hsel b1 eq_refl) as [Hn Hin1].
      destruct (schema_eqb ty ty_eqb (schema b1) target) eqn:E2.
      + intro H. inversion H; subst. apply schema_eqb_eq in E2. split; [exact E2|].
        intros f v Hin. exists (f, v). split; [apply Hin1; exact Hin|]. split; [reflexivity|left; reflexivity].
      + destruct (cast_all ty col cast target b1) as [b2|] eqn:E3; [|discriminate].
        intro H. inversion H; subst. destruct (cast_all_sound _ _ _ E3) as [Hs Hp]. split; [exact Hs|].
        intros f v Hin. destruct (Hp Hn f v Hin) as [c [H1 [H2 H3]]].
        exists c. split; [apply Hin1; exact H1|]. split; [exact H2|right; exact H3].
  Qed.

  (* 3. a different field set is rejected *)
  Lemma coerce_diff_set target (b : list columnT) :
    (exists n, In n (nms (schema b)) /\ ~ In n (nms target)) \/ (exists n, In n (nms target) /\ ~ In n (nms (schema b))) ->
    coerceT target b = CRejectType.
  Proof.
    intro H. unfold coerce.
    assert (Hset : set_eqb (nms (schema b)) (nms target) = false).
    { destruct (set_eqb (nms (schema b)) (nms target)) eqn:E; [|reflexivity]. exfalso.
      pose proof (proj1 (set_eqb_spec _ _) E) as Hs.
      destruct H as [[n [H1 H2]]|[n [H1 H2]]]; apply H2; apply Hs; exact H1. }
    destruct (schema_eqb ty ty_eqb (schema b) target) eqn:E1.
    - apply schema_eqb_eq in E1. exfalso. rewrite E1 in H.
      destruct H as [[n [H1 H2]]|[n [H1 H2]]]; exact (H2 H1).
    - rewrite Hset. reflexivity.
  Qed.

  (* 4. the same field set (in any order) whose columns cast to the declared types is accepted *)
  Lemma coerce_same_set target (b : list columnT) :
    NoDup (nms (schema b)) -> (forall n, In n (nms (schema b)) <-> In n (nms target)) ->
    (forall c f, In c b -> In f target -> fst (fst c) = fst f -> exists v, cast (snd f) (snd (fst c)) (snd c) = Some v) ->
    exists b', coerceT target b = CAccept b'.
  Proof.
    intros Hnd Hset Hcast. unfold coerce.
    destruct (schema_eqb ty ty_eqb (schema b) target); [exists b; reflexivity|].
    rewrite (proj2 (set_eqb_spec _ _) Hset). cbn [negb].
    destruct (list_eqb str_eqb (nms (schema b)) (nms target)) eqn:En.
    - apply names_eqb_eq in En. destruct (schema_eqb ty ty_eqb (schema b) target); [exists b; reflexivity|].
      destruct (cast_all_complete target b En Hcast) as [b2 ->]. exists b2. reflexivity.
    - destruct (select_complete (nms target) b Hnd (fun n Hn => proj2 (Hset n) Hn)) as [b1 E]. rewrite E.
      destruct (select_sound _ _ _ E) as [Hn Hin].
      destruct (schema_eqb ty ty_eqb (schema b1) target); [exists b1; reflexivity|].
      destruct (cast_all_complete target b1 Hn (fun c f H1 H2 H3 => Hcast c f (Hin c H1) H2 H3)) as [b2 ->]. exists b2. reflexivity.
  Qed.
End CoerceFacts.

(* ================================================================== the data path (through the C01 refinement) *)
Local Opaque finish_refused no_data_batch empty_batch cap_exn.

Lemma batches_app a b : batches_of (a ++ b) = batches_of a ++ batches_of b.
Proof. unfold batches_of. apply flat_map_app. Qed.

Lemma batches_logs ls : batches_of (map ELog ls) = [].
Proof. induction ls; [reflexivity|exact IHls]. Qed.

Lemma batches_hdr h sp : batches_of (hdr_events h sp) = [].
Proof. unfold hdr_events. destruct h; [destruct (hdr sp)|]; reflexivity. Qed.

Lemma batches_data t : batches_of (filter is_data t) = batches_of t.
Proof. induction t as [|e r IH]; [reflexivity|]. unfold batches_of in *. destruct e; cbn; rewrite ?IH; reflexivity. Qed.

Lemma errors_end t : errors_of (filter is_end t) = errors_of t.
Proof. induction t as [|e r IH]; [reflexivity|]. unfold errors_of in *. destruct e; cbn; rewrite ?IH; reflexivity. Qed.

Lemma is_end_err e : is_end (err_event e) = true.
Proof. reflexivity. Qed.

Lemma end_logs ls : filter is_end (map ELog ls) = [].
Proof. induction ls; [reflexivity|exact IHls]. Qed.

Lemma end_hdr h sp : filter is_end (hdr_events h sp) = [].
Proof. unfold hdr_events. destruct h; [destruct (hdr sp)|]; reflexivity. Qed.

Lemma data_logs ls : filter is_data (map ELog ls) = [].
Proof. induction ls; [reflexivity|exact IHls]. Qed.

(* ---- producer: the reference observation delivers exactly the emitted batches and ends with the producer's ending *)
Lemma obs_prod_emitted : forall sts, steps_quiet sts = true ->
  batches_of (obs_prod CbRecord sts None) = fst (emitted sts)
  /\ filter is_end (obs_prod CbRecord sts None) = [end_event (snd (emitted sts))]
  /\ filter is_data (obs_prod CbRecord sts None) = map EBatch (fst (emitted sts))
  /\ exists pre, obs_prod CbRecord sts None = pre ++ [end_event (snd (emitted sts))] /\ filter is_end pre = [].
Proof.
  induction sts as [|x r IH]; intro Hq.
  - cbn. repeat split; try reflexivity. exists []. split; reflexivity.
  - unfold steps_quiet in Hq. simpl in Hq. apply andb_true_iff in Hq as [Hx Hr].
    cbn [obs_prod is_zero emitted]. rewrite (exec_prod x).
    destruct (sraise x) as [e|].
    + cbn. repeat split; try reflexivity. exists []. split; reflexivity.
    + destruct (fin x).
      * rewrite (deliver_quiet _ _ Hx). rewrite batches_app, !filter_app, batches_logs, end_logs, data_logs.
        destruct (emit x) as [b|]; cbn; repeat split; try reflexivity.
        -- exists (map ELog (slogs x) ++ [EBatch b]). rewrite <- app_assoc. split; [reflexivity|].
           rewrite filter_app, end_logs. reflexivity.
        -- exists (map ELog (slogs x)). split; [reflexivity|apply end_logs].
      * destruct (emit x) as [b|].
        -- rewrite (deliver_quiet _ _ Hx). rewrite batches_app, !filter_app, batches_logs, end_logs, data_logs.
           destruct (IH Hr) as [H1 [H2 [H3 [pre [H4 H5]]]]].
           destruct (emitted r) as [bs z]. cbn [fst snd] in *. cbn [app batches_of flat_map filter is_end is_data opred option_map map].
           fold (batches_of (obs_prod CbRecord r None)). rewrite H1, H2, H3. repeat split; try reflexivity.
           exists (map ELog (slogs x) ++ EBatch b :: pre). rewrite H4. rewrite <- app_assoc. split; [reflexivity|].
           rewrite filter_app, end_logs. cbn. exact H5.
        -- cbn. repeat split; try reflexivity. exists []. split; reflexivity.
Qed.

(* ---- exchange *)

Lemma cut_obs_exch c : forall n sts, cut (obs_exch c sts n) = obs_exch c sts n.
Proof.
  induction n as [|n IH]; intro sts; [reflexivity|].
  cbn [obs_exch]. destruct (exec_step false (hd_error sts)) as [fs fl|e]; [|apply cut_single].
  rewrite cut_deliver. f_equal. simpl. rewrite IH. reflexivity.
Qed.

Lemma out_of_tl sts j : out_of (tl sts) j = out_of sts (S j).
Proof. unfold out_of. destruct sts; [destruct j; reflexivity|reflexivity]. Qed.

Lemma map_out_tl sts j : map (out_of (tl sts)) (seq 0 j) = map (out_of sts) (seq 1 j).
Proof. rewrite <- seq_shift, map_map. apply map_ext. intro a. apply out_of_tl. Qed.

Lemma hd_nth (sts : list step) : hd_error sts = nth_error sts 0.
Proof. destruct sts; reflexivity. Qed.

Lemma nth_tl (sts : list step) j : nth_error (tl sts) j = nth_error sts (S j).
Proof. destruct sts; [destruct j; reflexivity|reflexivity]. Qed.

(* n inputs: j <= n outputs, the i-th being what the i-th process() call emitted; fewer than n only because the
   j-th call failed, which is then the one error *)
Lemma obs_exch_outputs : forall n sts, steps_quiet sts = true ->
  let t := obs_exch CbRecord sts n in
  exists j, (j <= n)%nat /\ batches_of t = map (out_of sts) (seq 0 j) /\ filter is_data t = map EBatch (batches_of t) /\
    (forall i, (i < j)%nat -> exists fs fl, exec_step false (nth_error sts i) = SFrames fs fl) /\
    ((j = n /\ filter is_end t = []) \/
     ((j < n)%nat /\ exists e, exec_step false (nth_error sts j) = SErr e /\ filter is_end t = [err_event e])).
Proof.
  induction n as [|n IH]; intros sts Hq; cbn zeta.
  - exists O. cbn. split; [lia|]. split; [reflexivity|]. split; [reflexivity|]. split; [intros i Hi; lia|]. left. split; reflexivity.
  - destruct (hd_quiet sts Hq) as [Hh Ht]. cbn [obs_exch].
    destruct (exec_step false (hd_error sts)) as [fs fl|e] eqn:E.
    + destruct (IH (tl sts) Ht) as [j [Hj [Hb [Hd [Hok He]]]]]. cbn zeta in *.
      exists (S j). rewrite (deliver_quiet _ _ Hh). rewrite batches_app, !filter_app, batches_logs, end_logs, data_logs.
      cbn [app batches_of flat_map filter is_data is_end]. fold (batches_of (obs_exch CbRecord (tl sts) n)).
      rewrite Hb, map_out_tl. split; [lia|]. split; [cbn [seq map]; unfold out_of at 1; rewrite hd_nth; reflexivity|].
      split; [cbn [map]; f_equal; rewrite Hd, Hb, map_out_tl; reflexivity|].
      split.
      { intros [|i] Hi; [rewrite <- hd_nth; eauto|]. rewrite <- nth_tl. apply Hok. lia. }
      destruct He as [[-> He]|[Hlt [e [He1 He2]]]].
      * left. split; [reflexivity|exact He].
      * right. split; [lia|]. exists e. rewrite <- nth_tl. split; [exact He1|exact He2].
    + exists O. split; [lia|]. split; [reflexivity|]. split; [reflexivity|]. split; [intros i Hi; lia|].
      right. split; [lia|]. exists e. split; [rewrite <- hd_nth; exact E|reflexivity].
Qed.

(* well-behaved steps do not fail *)
Lemma good_exch_ok x : good_exch x = true -> exists fs fl, exec_step false (Some x) = SFrames fs fl.
Proof.
  unfold good_exch, exec_step. intro H. apply andb_true_iff in H as [H H3]. apply andb_true_iff in H as [H1 H2].
  destruct (fin x); [discriminate H1|]. cbn [andb negb]. destruct (sraise x); [discriminate H2|].
  destruct (emit x); [|discriminate H3]. eexists. eexists. reflexivity.
Qed.

Lemma obs_prod_data : forall sts n, steps_quiet sts = true ->
  filter is_data (obs_prod CbRecord sts n) = map EBatch (batches_of (obs_prod CbRecord sts n)).
Proof.
  induction sts as [|x r IH]; intros n Hq.
  - cbn. destruct (is_zero n); reflexivity.
  - unfold steps_quiet in Hq. simpl in Hq. apply andb_true_iff in Hq as [Hx Hr].
    cbn [obs_prod]. destruct (is_zero n); [reflexivity|]. rewrite (exec_prod x).
    destruct (sraise x) as [e|]; [reflexivity|].
    destruct (fin x).
    + rewrite (deliver_quiet _ _ Hx), batches_app, filter_app, batches_logs, data_logs.
      destruct (emit x); [destruct (is_zero (opred n))|]; reflexivity.
    + destruct (emit x) as [b|]; [|reflexivity].
      rewrite (deliver_quiet _ _ Hx), batches_app, filter_app, batches_logs, data_logs.
      cbn [app filter is_data batches_of flat_map map]. fold (batches_of (obs_prod CbRecord r (opred n))).
      rewrite (IH _ Hr). reflexivity.
Qed.

(* ---- what a stream call whose init succeeded observes on the socket family / what HTTP observes component-wise *)
Definition body_of (sp : stream_prog) (sc : script) : list event :=
  match sc with
  | SIter _ k a _ => obs_prod CbRecord (steps sp) (iter_n k a)
  | SExch _ n _ _ => obs_exch CbRecord (steps sp) n
  | SUnary _ => []
  end.
Definition hdr_of (sc : script) : bool := match sc with SIter h _ _ _ | SExch h _ _ _ => h | _ => false end.
Definition is_stream (sc : script) : bool := match sc with SUnary _ => false | _ => true end.

Lemma observe_shape sp sc :
  ires sp = InitOk -> is_stream sc = true -> records sc = true -> no_exc_logs (PStream sp) = true ->
  cut (observe (PStream sp) sc) = map ELog (ilogs sp) ++ hdr_events (hdr_of sc) sp ++ body_of sp sc.
Proof.
  intros Hi Hs Hrec Hq. cbn in Hq. apply andb_true_iff in Hq as [Hil Hst].
  destruct sc as [c|h k a c|h n a c]; [discriminate Hs| |]; destruct c; try discriminate Hrec; cbn [observe body_of hdr_of]; rewrite Hi.
  - fold (iter_n k a). rewrite (deliver_quiet _ _ Hil), (cut_app_nt _ _ (nonterm_logs _)), (cut_app_nt _ _ (nonterm_hdr h sp)), cut_obs_prod. reflexivity.
  - rewrite (deliver_quiet _ _ Hil), (cut_app_nt _ _ (nonterm_logs _)), (cut_app_nt _ _ (nonterm_hdr h sp)), cut_obs_exch. reflexivity.
Qed.

Lemma data_hdr h sp : filter is_data (hdr_events h sp) = hdr_events h sp.
Proof. unfold hdr_events. destruct h; [destruct (hdr sp)|]; reflexivity. Qed.

Lemma shape_batches sp sc : batches_of (map ELog (ilogs sp) ++ hdr_events (hdr_of sc) sp ++ body_of sp sc) = batches_of (body_of sp sc).
Proof. rewrite !batches_app, batches_logs, batches_hdr. reflexivity. Qed.

Lemma shape_end sp sc : filter is_end (map ELog (ilogs sp) ++ hdr_events (hdr_of sc) sp ++ body_of sp sc) = filter is_end (body_of sp sc).
Proof. rewrite !filter_app, end_logs, end_hdr. reflexivity. Qed.

Lemma shape_data sp sc : filter is_data (map ELog (ilogs sp) ++ hdr_events (hdr_of sc) sp ++ body_of sp sc) = hdr_events (hdr_of sc) sp ++ filter is_data (body_of sp sc).
Proof. rewrite !filter_app, data_logs, data_hdr. reflexivity. Qed.

(* both transports, as far as C10 looks: batches, data events (header + batches), endings *)
Definition sees (t : list event) (sp : stream_prog) (sc : script) : Prop :=
  batches_of t = batches_of (body_of sp sc)
  /\ filter is_data t = hdr_events (hdr_of sc) sp ++ filter is_data (body_of sp sc)
  /\ filter is_end t = filter is_end (body_of sp sc).

Lemma pipe_sees sp sc :
  ires sp = InitOk -> is_stream sc = true -> legal (PStream sp) sc = true -> records sc = true -> no_exc_logs (PStream sp) = true ->
  pipe_reads (PStream sp) sc = true ->
  run_pipe (PStream sp) sc = map ELog (ilogs sp) ++ hdr_events (hdr_of sc) sp ++ body_of sp sc /\ sees (run_pipe (PStream sp) sc) sp sc.
Proof.
  intros Hi Hs Hl Hr Hq Hp. rewrite (pipe_refines _ _ Hl Hr Hq Hp), (observe_shape sp sc Hi Hs Hr Hq).
  split; [reflexivity|]. split; [apply shape_batches|]. split; [apply shape_data|apply shape_end].
Qed.

Lemma http_sees cfg sp sc :
  ires sp = InitOk -> is_stream sc = true -> legal (PStream sp) sc = true -> records sc = true -> no_exc_logs (PStream sp) = true ->
  complete sc = true -> fits cfg (PStream sp) sc = true -> first_turn_ok cfg (PStream sp) sc = true ->
  sees (run_http cfg (PStream sp) sc) sp sc.
Proof.
  intros Hi Hs Hl Hr Hq Hc Hf Ho. pose proof (http_refines_partial cfg _ _ Hl Hr Hq Hc Hf Ho) as H.
  rewrite (observe_shape sp sc Hi Hs Hr Hq) in H. unfold proj in H. inversion H as [[H1 H2 H3]]. unfold sees.
  rewrite <- (batches_data (run_http cfg (PStream sp) sc)), H2, batches_data, shape_batches, H3, shape_end, shape_data.
  repeat split; reflexivity.
Qed.

(* ---- a producer that ends by finish() never puts an error into an HTTP response: C01's premise first_turn_ok holds *)
Lemma quiet_In ls m : quiet ls = true -> In m ls -> is_exc m = false.
Proof.
  unfold quiet. rewrite forallb_forall. intros H Hin. specialize (H m Hin). destruct (is_exc m); [discriminate H|reflexivity].
Qed.

Lemma parse_init_ok : forall fs pend, (forall e, ~ In (FErr e) fs) -> (forall m, In (FLog m) fs -> is_exc m = false) ->
  exists es o, http_parse_init CbRecord fs pend = (es, Some o).
Proof.
  induction fs as [|f r IH]; intros pend He Hl; [eexists; eexists; reflexivity|].
  assert (He' : forall e, ~ In (FErr e) r) by (intros e Hc; apply (He e); right; exact Hc).
  assert (Hl' : forall m, In (FLog m) r -> is_exc m = false) by (intros m Hc; apply Hl; right; exact Hc).
  destruct f as [m|b|e|v|t|]; cbn [http_parse_init].
  - rewrite (log_event_quiet m (Hl m (or_introl eq_refl))). destruct (IH pend He' Hl') as [es [o ->]]. eexists; eexists; reflexivity.
  - apply IH; assumption.
  - exfalso. apply (He e). left. reflexivity.
  - apply IH; assumption.
  - eexists; eexists; reflexivity.
  - apply IH; assumption.
Qed.

Lemma frames_clean cfg : forall sts i z, steps_quiet sts = true -> snd (emitted sts) = EndFinish ->
  (forall e, ~ In (FErr e) (http_frames cfg sts i z)) /\ (forall m, In (FLog m) (http_frames cfg sts i z) -> is_exc m = false).
Proof.
  induction sts as [|x r IH]; intros i z Hq Hend; [split; [intros e []|intros m []]|].
  unfold steps_quiet in Hq. simpl in Hq. apply andb_true_iff in Hq as [Hx Hr].
  assert (HE : forall (tl : list frame), (forall e, ~ In (FErr e) tl) -> forall e, ~ In (FErr e) (map FLog (slogs x) ++ tl)).
  { intros tl H1 e Hc. apply in_app_or in Hc as [Hc|Hc]; [apply in_map_iff in Hc as [m' [Hm' _]]; discriminate Hm'|exact (H1 e Hc)]. }
  assert (HM : forall (tl : list frame), (forall m, In (FLog m) tl -> is_exc m = false) -> forall m, In (FLog m) (map FLog (slogs x) ++ tl) -> is_exc m = false).
  { intros tl H2 m Hc. apply in_app_or in Hc as [Hc|Hc]; [|exact (H2 m Hc)].
    apply in_map_iff in Hc as [m' [Hm' Hin]]. inversion Hm'; subst. exact (quiet_In _ _ Hx Hin). }
  cbn [http_frames emitted] in *. rewrite (exec_prod x). destruct (sraise x) as [e0|]; [discriminate Hend|].
  destruct (fin x).
  - split; [apply HE|apply HM].
    + intros e Hc. destruct (emit x); cbn in Hc; [destruct Hc as [Hc|[]]; discriminate Hc|destruct Hc].
    + intros m Hc. destruct (emit x); cbn in Hc; [destruct Hc as [Hc|[]]; discriminate Hc|destruct Hc].
  - destruct (emit x) as [b|]; [|discriminate Hend].
    assert (Hend' : snd (emitted r) = EndFinish) by (destruct (emitted r); exact Hend).
    assert (Hrest : forall j z', (forall e, ~ In (FErr e) (http_frames cfg r j z')) /\ (forall m, In (FLog m) (http_frames cfg r j z') -> is_exc m = false)).
    { intros j z'. apply IH; [exact Hr|exact Hend']. }
    destruct (keep_going cfg _).
    + rewrite <- app_assoc. split; [apply HE|apply HM].
      * intros e' [Hc|Hc]; [discriminate Hc|exact (proj1 (Hrest _ _) e' Hc)].
      * intros m' [Hc|Hc]; [discriminate Hc|exact (proj2 (Hrest _ _) m' Hc)].
    + rewrite <- app_assoc. split; [apply HE|apply HM].
      * intros e' [Hc|[Hc|Hc]]; [discriminate Hc|discriminate Hc|exact (proj1 (Hrest _ _) e' Hc)].
      * intros m' [Hc|[Hc|Hc]]; [discriminate Hc|discriminate Hc|exact (proj2 (Hrest _ _) m' Hc)].
Qed.

Lemma finishing_first_turn_ok cfg sp h k a :
  no_exc_logs (PStream sp) = true -> snd (emitted (steps sp)) = EndFinish -> first_turn_ok cfg (PStream sp) (SIter h k a CbRecord) = true.
Proof.
  intros Hq Hend. cbn in Hq. apply andb_true_iff in Hq as [Hil Hst]. cbn [first_turn_ok].
  set (fr := http_frames cfg (steps sp) 0 _).
  destruct (frames_clean cfg (steps sp) 0 (add_sizes cfg (base cfg) (if h then [] else map FLog (ilogs sp))) Hst Hend) as [H1 H2]. fold fr in H1, H2.
  destruct (parse_init_ok (map FLog (ilogs sp) ++ fr) []) as [es [o ->]]; [| |reflexivity].
  - intros e Hc. apply in_app_or in Hc as [Hc|Hc]; [apply in_map_iff in Hc as [m' [Hm' _]]; discriminate Hm'|exact (H1 e Hc)].
  - intros m Hc. apply in_app_or in Hc as [Hc|Hc]; [|exact (H2 m Hc)].
    apply in_map_iff in Hc as [m' [Hm' Hin]]. inversion Hm'; subst. exact (quiet_In _ _ Hil Hin).
Qed.

(* ================================================================== lifecycle: socket family *)

Lemma cancels_app a b : cancels (a ++ b) = (cancels a + cancels b)%nat.
Proof. unfold cancels. rewrite filter_app, app_length. reflexivity. Qed.

Lemma processes_app a b : processes (a ++ b) = processes a ++ processes b.
Proof. apply filter_app. Qed.

Lemma errors_app a b : errors_of (a ++ b) = errors_of a ++ errors_of b.
Proof. apply filter_app. Qed.

Lemma drain_no_error c : forall q, errors_of (cli_drain c q) = [].
Proof.
  induction q as [|f r IH]; [reflexivity|]. destruct f as [m|b|e|v|t|]; cbn [cli_drain]; try exact IH; try reflexivity.
  destruct (lvl m); try reflexivity; destruct c; try reflexivity; exact IH.
Qed.

Lemma drain_no_batch c : forall q, batches_of (cli_drain c q) = [].
Proof.
  induction q as [|f r IH]; [reflexivity|]. destruct f as [m|b|e|v|t|]; cbn [cli_drain]; try exact IH; try reflexivity.
  destruct (lvl m); try reflexivity; destruct c; try reflexivity; exact IH.
Qed.

Lemma srv_step_spec producer rej st fs cs st' : srv_step producer rej st = (fs, cs, st') ->
  cancels cs = O /\ p_closed st' = p_closed st /\ p_it st' = p_it st /\ (rej <> None -> cs = []).
Proof.
  unfold srv_step. destruct (p_live st).
  - destruct rej as [e|].
    + intro H. inversion H; subst. repeat split; reflexivity.
    + destruct (srv_tick producer (hd_error (p_rest st))) as [fs0 ended]. intro H. inversion H; subst.
      repeat split; try reflexivity. intro Hc. congruence.
  - intro H. inversion H; subst. repeat split; reflexivity.
Qed.

Lemma do_close_spec c cancel st es cs st' : do_close c cancel st = (es, cs, st') ->
  errors_of es = [] /\ batches_of es = [] /\ processes cs = [] /\ p_closed st' = true /\ p_it st' = p_it st
  /\ (cancel = false -> cs = []) /\ (cancels cs <= 1)%nat /\ (p_closed st = true -> es = [] /\ cs = [] /\ st' = st).
Proof.
  unfold do_close. destruct (p_closed st) eqn:Ec.
  - intro H. inversion H; subst. repeat split; try reflexivity; try (cbn; lia); try exact Ec.
  - unfold srv_end. destruct (p_live st); intro H; inversion H; subst; cbn.
    + repeat split; try apply drain_no_error; try apply drain_no_batch; try reflexivity; try discriminate.
      * destruct cancel; reflexivity.
      * intro Hc. rewrite Hc. reflexivity.
      * destruct cancel; cbn; lia.
    + repeat split; try apply drain_no_error; try apply drain_no_batch; try reflexivity; try discriminate. cbn. lia.
Qed.

Lemma do_tick_spec c producer rej st es cs st' o : do_tick c producer rej st = (es, cs, st', o) ->
  cancels cs = O /\ p_it st' = p_it st /\ (rej <> None -> cs = [])
  /\ (p_closed st = true -> es = [refused] /\ cs = [] /\ st' = st /\ o = TErr).
Proof.
  unfold do_tick. destruct (p_closed st) eqn:Ec.
  - intro H. inversion H; subst. repeat split; reflexivity.
  - destruct (srv_step producer rej st) as [[fs cs1] st1] eqn:Es. destruct (srv_step_spec _ _ _ _ _ _ Es) as [H1 [H2 [H3 H4]]].
    destruct (cli_read c (p_q st ++ fs)) as [[es1 rd] r].
    destruct rd as [b|v|t| |e|].
    + intro H. inversion H; subst. repeat split; try assumption; discriminate.
    + intro H. inversion H; subst. repeat split; try assumption; discriminate.
    + intro H. inversion H; subst. repeat split; try assumption; discriminate.
    + destruct producer; intro H; inversion H; subst; repeat split; try assumption; discriminate.
    + destruct (do_close c false (p_set_q st1 r)) as [[es2 cs2] st2] eqn:Ed.
      destruct (do_close_spec _ _ _ _ _ _ Ed) as [_ [_ [_ [_ [Hit [Hcs _]]]]]]. rewrite (Hcs eq_refl).
      intro H. inversion H; subst. rewrite app_nil_r. repeat split; try assumption; try discriminate. rewrite Hit. exact H3.
    + intro H. inversion H; subst. repeat split; try assumption; discriminate.
Qed.

Lemma p_closed_set_it st i : p_closed (p_set_it st i) = p_closed st.
Proof. reflexivity. Qed.

Lemma do_iter_spec c : forall fuel k st es cs st', do_iter fuel c k st = (es, cs, st') ->
  cancels cs = O
  /\ (p_closed st = true -> p_closed st' = true /\ cs = [] /\ batches_of es = [] /\
      (fuel <> O -> es = if is_zero k then [] else [refused])).
Proof.
  induction fuel as [|f IH]; intros k st es cs st'; cbn [do_iter].
  - destruct (is_zero k); intro H; inversion H; subst; repeat split; try reflexivity; try assumption; congruence.
  - destruct (is_zero k) eqn:Hz.
    + intro H. inversion H; subst. repeat split; try reflexivity; assumption.
    + destruct (do_tick c true None st) as [[[es1 cs1] st1] o] eqn:Et.
      destruct (do_tick_spec _ _ _ _ _ _ _ _ Et) as [H1 [H2 [_ H4]]].
      destruct o.
      * destruct (do_iter f c (opred k) st1) as [[es2 cs2] st2] eqn:Ei.
        destruct (IH _ _ _ _ _ Ei) as [I1 I2]. intro H. inversion H; subst.
        split; [rewrite cancels_app, H1, I1; reflexivity|].
        intro Hc. destruct (H4 Hc) as [_ [_ [_ Ho]]]. discriminate Ho.
      * intro H. inversion H; subst. split; [exact H1|]. intro Hc. destruct (H4 Hc) as [-> [-> [-> _]]]. repeat split; try reflexivity. exact Hc.
      * intro H. inversion H; subst. split; [exact H1|]. intro Hc. destruct (H4 Hc) as [-> [-> [-> _]]]. repeat split; try reflexivity. exact Hc.
      * intro H. inversion H; subst. split; [exact H1|]. intro Hc. destruct (H4 Hc) as [-> [-> [-> _]]]. repeat split; try reflexivity. exact Hc.
Qed.

Lemma pstep_closed producer c o st sg st' : p_closed st = true -> pstep producer c o st = (sg, st') ->
  p_closed st' = true /\ refusal o sg.
Proof.
  intros Hc. destruct o as [k| |rej| | |d|]; cbn [pstep].
  - destruct (do_iter (pfuel st) c k st) as [[es cs] st1] eqn:E. intro H. inversion H; subst.
    destruct (do_iter_spec _ _ _ _ _ _ _ E) as [_ H2]. destruct (H2 Hc) as [H3 [-> [H5 H6]]].
    split; [exact H3|]. split; [reflexivity|]. split; [exact H5|]. cbn [fst]. apply H6. unfold pfuel. discriminate.
  - destruct (p_it st).
    + intro H. inversion H; subst. split; [exact Hc|]. repeat split. right. reflexivity.
    + destruct (do_tick c true None st) as [[[es cs] st1] o] eqn:E. destruct (do_tick_spec _ _ _ _ _ _ _ _ E) as [_ [_ [_ H4]]].
      destruct (H4 Hc) as [-> [-> [-> _]]]. intro H. inversion H; subst. split; [exact Hc|]. repeat split. left. reflexivity.
    + intro H. inversion H; subst. split; [exact Hc|]. repeat split. right. reflexivity.
  - destruct (do_tick c false rej st) as [[[es cs] st1] o] eqn:E. destruct (do_tick_spec _ _ _ _ _ _ _ _ E) as [_ [_ [_ H4]]].
    destruct (H4 Hc) as [-> [-> [-> _]]]. intro H. inversion H; subst. split; [exact Hc|]. repeat split.
  - destruct (do_close c false st) as [[es cs] st1] eqn:E. destruct (do_close_spec _ _ _ _ _ _ E) as [_ [_ [_ [_ [_ [_ [_ H8]]]]]]].
    destruct (H8 Hc) as [-> [-> ->]]. intro H. inversion H; subst. split; [exact Hc|]. repeat split.
  - destruct (do_close c true st) as [[es cs] st1] eqn:E. destruct (do_close_spec _ _ _ _ _ _ E) as [_ [_ [_ [_ [_ [_ [_ H8]]]]]]].
    destruct (H8 Hc) as [-> [-> ->]]. intro H. inversion H; subst. split; [exact Hc|]. repeat split.
  - destruct (do_close c true st) as [[es cs] st1] eqn:E. destruct (do_close_spec _ _ _ _ _ _ E) as [_ [_ [_ [_ [_ [_ [_ H8]]]]]]].
    destruct (H8 Hc) as [-> [-> ->]]. intro H. inversion H; subst. split; [exact Hc|]. repeat split.
  - destruct (do_tick c true None st) as [[[es cs] st1] o] eqn:E. destruct (do_tick_spec _ _ _ _ _ _ _ _ E) as [_ [_ [_ H4]]].
    destruct (H4 Hc) as [-> [-> [-> _]]]. intro H. inversion H; subst. split; [exact Hc|]. repeat split. left. reflexivity.
Qed.

(* only cancel() makes the server run on_cancel, at most once, and it closes the session *)
Lemma pstep_cancels producer c o st sg st' : pstep producer c o st = (sg, st') ->
  cancels (snd sg) = O \/ (is_cancel_op o = true /\ p_closed st = false /\ p_closed st' = true /\ (cancels (snd sg) <= 1)%nat).
Proof.
  destruct o as [k| |rej| | |d|]; cbn [pstep].
  - destruct (do_iter (pfuel st) c k st) as [[es cs] st1] eqn:E. intro H. inversion H; subst. left. exact (proj1 (do_iter_spec _ _ _ _ _ _ _ E)).
  - destruct (p_it st); try (intro H; inversion H; subst; left; reflexivity).
    destruct (do_tick c true None st) as [[[es cs] st1] o] eqn:E. intro H. inversion H; subst. left. exact (proj1 (do_tick_spec _ _ _ _ _ _ _ _ E)).
  - destruct (do_tick c false rej st) as [[[es cs] st1] o] eqn:E. intro H. inversion H; subst. left. exact (proj1 (do_tick_spec _ _ _ _ _ _ _ _ E)).
  - destruct (do_close c false st) as [[es cs] st1] eqn:E. destruct (do_close_spec _ _ _ _ _ _ E) as [_ [_ [_ [_ [_ [H6 _]]]]]].
    intro H. inversion H; subst. left. rewrite (H6 eq_refl). reflexivity.
  - destruct (do_close c true st) as [[es cs] st1] eqn:E. destruct (do_close_spec _ _ _ _ _ _ E) as [_ [_ [_ [H4 [_ [_ [H7 H8]]]]]]].
    intro H. inversion H; subst. destruct (p_closed st) eqn:Ec.
    + left. destruct (H8 eq_refl) as [_ [-> _]]. reflexivity.
    + right. repeat split; assumption.
  - destruct (do_close c true st) as [[es cs] st1] eqn:E. destruct (do_close_spec _ _ _ _ _ _ E) as [_ [_ [_ [H4 [_ [_ [H7 H8]]]]]]].
    intro H. inversion H; subst. destruct (p_closed st) eqn:Ec.
    + left. destruct (H8 eq_refl) as [_ [-> _]]. reflexivity.
    + right. repeat split; assumption.
  - destruct (do_tick c true None st) as [[[es cs] st1] o] eqn:E. intro H. inversion H; subst. left. exact (proj1 (do_tick_spec _ _ _ _ _ _ _ _ E)).
Qed.

Lemma run_ops_closed producer c : forall ops st segs st', p_closed st = true -> run_ops (pstep producer c) ops st = (segs, st') ->
  Forall2 refusal ops segs /\ all_calls segs = [] /\ p_closed st' = true.
Proof.
  induction ops as [|o r IH]; intros st segs st' Hc; cbn [run_ops].
  - intro H. inversion H; subst. repeat split; [constructor|assumption].
  - destruct (pstep producer c o st) as [sg st1] eqn:E. destruct (pstep_closed _ _ _ _ _ _ Hc E) as [Hc1 Hr].
    destruct (run_ops (pstep producer c) r st1) as [l st2] eqn:Er. destruct (IH _ _ _ Hc1 Er) as [H1 [H2 H3]].
    intro H. inversion H; subst. split; [constructor; assumption|]. split; [|exact H3].
    unfold all_calls in *. cbn [flat_map]. rewrite H2. destruct Hr as [-> _]. reflexivity.
Qed.

Lemma run_ops_cancels producer c : forall ops st segs st', run_ops (pstep producer c) ops st = (segs, st') ->
  (cancels (all_calls segs) <= (if p_closed st then 0 else 1))%nat.
Proof.
  induction ops as [|o r IH]; intros st segs st'; cbn [run_ops].
  - intro H. inversion H; subst. cbn. destruct (p_closed st'); lia.
  - destruct (pstep producer c o st) as [sg st1] eqn:E. destruct (run_ops (pstep producer c) r st1) as [l st2] eqn:Er.
    intro H. inversion H; subst. unfold all_calls. cbn [flat_map]. rewrite cancels_app. fold (all_calls l).
    pose proof (IH _ _ _ Er) as Hrest.
    destruct (p_closed st) eqn:Ec.
    + destruct (pstep_closed _ _ _ _ _ _ Ec E) as [Hc1 [Hs _]]. rewrite Hs, Hc1 in *. cbn. lia.
    + destruct (pstep_cancels _ _ _ _ _ _ E) as [H0|[_ [_ [Hc1 Hle]]]].
      * rewrite H0. destruct (p_closed st1); lia.
      * rewrite Hc1 in Hrest. lia.
Qed.

Lemma pstep_cancel_op producer c oc st sg st' : is_cancel_op oc = true -> pstep producer c oc st = (sg, st') ->
  errors_of (fst sg) = [] /\ batches_of (fst sg) = [] /\ processes (snd sg) = [] /\ p_closed st' = true.
Proof.
  intro Hoc. destruct oc; try discriminate Hoc; cbn [pstep]; destruct (do_close c true st) as [[es cs] st1] eqn:E; destruct (do_close_spec _ _ _ _ _ _ E) as [H1 [H2 [H3 [H4 _]]]];
  intro H; inversion H; subst; repeat split; assumption.
Qed.

(* an input that _coerce_input_batch rejects never reaches process() *)
Lemma pstep_rejected producer c e st sg st' : pstep producer c (OExch (Some e)) st = (sg, st') -> snd sg = [].
Proof.
  cbn [pstep]. destruct (do_tick c false (Some e) st) as [[[es cs] st1] o] eqn:E.
  destruct (do_tick_spec _ _ _ _ _ _ _ _ E) as [_ [_ [H3 _]]]. intro H. inversion H; subst. apply H3. discriminate.
Qed.

(* ================================================================== lifecycle: HTTP (repaired client) *)
Lemma http_turn_calls cfg : forall sts i z fs cs, http_turn cfg sts i z = (fs, cs) -> cancels cs = O.
Proof.
  induction sts as [|x r IH]; intros i z fs cs; cbn [http_turn].
  - intro H. inversion H; subst. reflexivity.
  - destruct (exec_step true (Some x)) as [fs0 [|]|e].
    + intro H. inversion H; subst. reflexivity.
    + destruct (keep_going cfg _).
      * destruct (http_turn cfg r (S i) _) as [fs' cs'] eqn:E. intro H. inversion H; subst. cbn. exact (IH _ _ _ _ E).
      * intro H. inversion H; subst. reflexivity.
    + intro H. inversion H; subst. reflexivity.
Qed.

Definition h_same (a b : hst) : Prop := h_canc a = h_canc b /\ h_fin a = h_fin b /\ h_tok a = h_tok b.

Lemma h_same_refl a : h_same a a. Proof. repeat split. Qed.
Lemma h_same_it a i : h_same a (h_set_it a i). Proof. repeat split. Qed.
Lemma h_same_pend a p : h_same a (h_set_pend a p). Proof. repeat split. Qed.
Lemma h_same_trans a b c : h_same a b -> h_same b c -> h_same a c.
Proof. unfold h_same. intros [H1 [H2 H3]] [H4 [H5 H6]]. repeat split; congruence. Qed.

Lemma hcont_spec cfg sts c : forall fuel fs st es cs st' o, hcont fuel cfg sts c fs st = (es, cs, st', o) ->
  cancels cs = O /\ h_same st st'.
Proof.
  induction fuel as [|f IH]; intros fs st es cs st' o; cbn [hcont]; destruct (hscan c fs) as [es0 sc]; destruct sc as [b r|t| |e|].
  all: try (intro H; inversion H; subst; split; [reflexivity|try apply h_same_it; apply h_same_refl]).
  destruct (http_turn cfg (skipn t sts) t (base cfg)) as [fs' cs1] eqn:Et.
  destruct (hcont f cfg sts c fs' st) as [[[es' cs'] st1] o'] eqn:Ec. destruct (IH _ _ _ _ _ _ Ec) as [H1 H2].
  intro H. inversion H; subst. split; [|exact H2]. rewrite cancels_app, (http_turn_calls _ _ _ _ _ _ Et), H1. reflexivity.
Qed.

Lemma hnext_spec fixed cfg sts c st es cs st' o : hnext fixed cfg sts c st = (es, cs, st', o) ->
  cancels cs = O /\ h_same st st'
  /\ (fixed = true -> h_canc st = true -> es = [refused] /\ cs = [] /\ o = TErr /\ h_pend st' = h_pend st).
Proof.
  unfold hnext. destruct (fixed && h_canc st) eqn:Ef.
  - intro H. inversion H; subst. split; [reflexivity|]. split; [apply h_same_it|]. intros _ _. repeat split.
  - assert (Hno : fixed = true -> h_canc st = true -> es = [refused] /\ cs = [] /\ o = TErr /\ h_pend st' = h_pend st).
    { intros -> Hc. rewrite Hc in Ef. discriminate Ef. }
    destruct (h_it st) as [| |fs|].
    + intro H. inversion H; subst. split; [reflexivity|]. split; [apply h_same_refl|exact Hno].
    + destruct (h_pend st) as [|b r].
      * destruct (h_fin st).
        -- intro H. inversion H; subst. split; [reflexivity|]. split; [apply h_same_it|exact Hno].
        -- destruct (h_tok st) as [t|].
           ++ destruct (http_turn cfg (skipn t sts) t (base cfg)) as [fs cs1] eqn:Et.
              destruct (hcont (S (List.length sts)) cfg sts c fs st) as [[[es' cs'] st1] o'] eqn:Ec.
              destruct (hcont_spec _ _ _ _ _ _ _ _ _ _ Ec) as [H1 H2].
              intro H. inversion H; subst. split; [rewrite cancels_app, (http_turn_calls _ _ _ _ _ _ Et), H1; reflexivity|]. split; [exact H2|exact Hno].
           ++ intro H. inversion H; subst. split; [reflexivity|]. split; [apply h_same_it|exact Hno].
      * intro H. inversion H; subst. split; [reflexivity|]. split; [apply h_same_pend|exact Hno].
    + destruct (hcont (S (List.length sts)) cfg sts c fs st) as [[[es' cs'] st1] o'] eqn:Ec.
      destruct (hcont_spec _ _ _ _ _ _ _ _ _ _ Ec) as [H1 H2]. intro H. inversion H; subst. split; [exact H1|]. split; [exact H2|exact Hno].
    + intro H. inversion H; subst. split; [reflexivity|]. split; [apply h_same_refl|exact Hno].
Qed.

Lemma hiter_spec fixed cfg sts c : forall n k st es cs st', hiter n fixed cfg sts c k st = (es, cs, st') ->
  cancels cs = O /\ h_same st st'
  /\ (fixed = true -> h_canc st = true -> cs = [] /\ batches_of es = [] /\ (n <> O -> es = if is_zero k then [] else [refused]) /\ h_pend st' = h_pend st).
Proof.
  induction n as [|n IH]; intros k st es cs st'; cbn [hiter].
  - destruct (is_zero k); intro H; inversion H; subst; (split; [reflexivity|]); (split; [apply h_same_refl|]); intros _ _; repeat split; congruence.
  - destruct (is_zero k) eqn:Hz.
    + intro H. inversion H; subst. split; [reflexivity|]. split; [apply h_same_refl|]. intros _ _. repeat split.
    + destruct (hnext fixed cfg sts c st) as [[[es1 cs1] st1] o] eqn:En. destruct (hnext_spec _ _ _ _ _ _ _ _ _ En) as [H1 [H2 H3]].
      destruct o.
      * destruct (hiter n fixed cfg sts c (opred k) st1) as [[es2 cs2] st2] eqn:Ei. destruct (IH _ _ _ _ _ Ei) as [I1 [I2 _]].
        intro H. inversion H; subst. split; [rewrite cancels_app, H1, I1; reflexivity|]. split; [exact (h_same_trans _ _ _ H2 I2)|].
        intros Hf Hc. destruct (H3 Hf Hc) as [_ [_ [Ho _]]]. discriminate Ho.
      * intro H. inversion H; subst. split; [exact H1|]. split; [exact H2|]. intros Hf Hc. destruct (H3 Hf Hc) as [-> [-> [_ Hp]]]. repeat split; try exact Hp.
      * intro H. inversion H; subst. split; [exact H1|]. split; [exact H2|]. intros Hf Hc. destruct (H3 Hf Hc) as [-> [-> [_ Hp]]]. repeat split; try exact Hp.
      * intro H. inversion H; subst. split; [exact H1|]. split; [exact H2|]. intros Hf Hc. destruct (H3 Hf Hc) as [-> [-> [_ Hp]]]. repeat split; try exact Hp.
Qed.


Lemma hK_keep a b : h_same a b -> h_pend b = h_pend a -> hK b = hK a.
Proof. unfold hK. intros [-> [-> _]] ->. reflexivity. Qed.

Lemma hstep_closed cfg sts c o st sg st' : hK st = true -> hstep true cfg sts c o st = (sg, st') ->
  hK st' = true /\ refusal o sg.
Proof.
  intro HK. pose proof HK as HK'. unfold hK in HK'. apply andb_true_iff in HK' as [HK' Hp]. apply andb_true_iff in HK' as [Hc Hf].
  destruct o as [k| |rej| | |d|]; cbn [hstep].
  - destruct (hiter _ true cfg sts c k (h_set_it st HPend)) as [[es cs] st1] eqn:E.
    destruct (hiter_spec _ _ _ _ _ _ _ _ _ _ E) as [_ [H2 H3]]. destruct (H3 eq_refl Hc) as [-> [H5 [H6 H7]]].
    intro H. inversion H; subst. split; [rewrite (hK_keep _ _ H2 H7); exact HK|]. split; [reflexivity|]. split; [exact H5|].
    cbn [fst]. apply H6. discriminate.
  - destruct (suspended (h_it st)).
    + destruct (hnext true cfg sts c st) as [[[es cs] st1] o] eqn:E. destruct (hnext_spec _ _ _ _ _ _ _ _ _ E) as [_ [H2 H3]].
      destruct (H3 eq_refl Hc) as [-> [-> [_ H7]]]. intro H. inversion H; subst. split; [rewrite (hK_keep _ _ H2 H7); exact HK|]. repeat split. left. reflexivity.
    + intro H. inversion H; subst. split; [exact HK|]. repeat split. right. reflexivity.
  - rewrite Hc. cbn [andb]. intro H. inversion H; subst. split; [exact HK|]. repeat split.
  - intro H. inversion H; subst. split; [exact HK|]. repeat split.
  - rewrite Hf. intro H. inversion H; subst. split; [reflexivity|]. repeat split.
  - rewrite Hf. intro H. inversion H; subst. split; [reflexivity|]. repeat split.
  - destruct (h_pend st) as [|b r]; [|discriminate Hp]. rewrite Hf. cbn [orb]. intro H. inversion H; subst.
    split; [unfold hK; cbn; rewrite Hc; reflexivity|]. repeat split. right. reflexivity.
Qed.

Lemma hnt_turn_calls cfg sts t : cancels (snd (http_turn cfg (skipn t sts) t (base cfg))) = O.
Proof. destruct (http_turn cfg (skipn t sts) t (base cfg)) as [fs cs] eqn:E. exact (http_turn_calls _ _ _ _ _ _ E). Qed.

Lemma hstep_cancels cfg sts c o st sg st' : hstep true cfg sts c o st = (sg, st') ->
  cancels (snd sg) = O \/ (is_cancel_op o = true /\ hK st' = true /\ (cancels (snd sg) <= 1)%nat).
Proof.
  destruct o as [k| |rej| | |d|]; cbn [hstep].
  - destruct (hiter _ true cfg sts c k (h_set_it st HPend)) as [[es cs] st1] eqn:E. intro H. inversion H; subst. left. exact (proj1 (hiter_spec _ _ _ _ _ _ _ _ _ _ E)).
  - destruct (suspended (h_it st)); [|intro H; inversion H; subst; left; reflexivity].
    destruct (hnext true cfg sts c st) as [[[es cs] st1] o] eqn:E. intro H. inversion H; subst. left. exact (proj1 (hnext_spec _ _ _ _ _ _ _ _ _ E)).
  - destruct (true && h_canc st); [intro H; inversion H; subst; left; reflexivity|].
    destruct (h_tok st) as [i|]; [|intro H; inversion H; subst; left; reflexivity].
    destruct rej; [intro H; inversion H; subst; left; reflexivity|].
    destruct (exec_step false (nth_error sts i)) as [fs fl|e]; [|intro H; inversion H; subst; left; reflexivity].
    destruct (over_cap cfg _); [intro H; inversion H; subst; left; reflexivity|].
    destruct (cli_read c (fs ++ [FEos])) as [[es rd] r]. destruct rd; intro H; inversion H; subst; left; reflexivity.
  - intro H. inversion H; subst. left. reflexivity.
  - destruct (h_fin st); [intro H; inversion H; subst; left; reflexivity|].
    destruct (h_tok st); intro H; inversion H; subst; [right; repeat split; cbn; lia|left; reflexivity].
  - destruct (h_fin st); [intro H; inversion H; subst; left; reflexivity|].
    destruct (h_tok st); intro H; inversion H; subst; [right; repeat split; destruct d; cbn; lia|left; reflexivity].
  - destruct (h_pend st) as [|b [|b2 r]]; [|intro H; inversion H; subst; left; reflexivity|intro H; inversion H; subst; left; reflexivity].
    destruct (h_fin st || match h_tok st with Some _ => false | None => true end); [intro H; inversion H; subst; left; reflexivity|].
    destruct (h_tok st) as [t|]; [|intro H; inversion H; subst; left; reflexivity].
    pose proof (hnt_turn_calls cfg sts t) as Hc. destruct (http_turn cfg (skipn t sts) t (base cfg)) as [fs cs]. cbn [snd] in Hc.
    destruct (hnt_scan c fs None None) as [es r]. destruct r as [[b|] t'|e| |]; intro H; inversion H; subst; left; exact Hc.
Qed.

Lemma hrun_closed cfg sts c : forall ops st segs st', hK st = true -> run_ops (hstep true cfg sts c) ops st = (segs, st') ->
  Forall2 refusal ops segs /\ all_calls segs = [] /\ hK st' = true.
Proof.
  induction ops as [|o r IH]; intros st segs st' Hc; cbn [run_ops].
  - intro H. inversion H; subst. repeat split; [constructor|assumption].
  - destruct (hstep true cfg sts c o st) as [sg st1] eqn:E. destruct (hstep_closed _ _ _ _ _ _ _ Hc E) as [Hc1 Hr].
    destruct (run_ops (hstep true cfg sts c) r st1) as [l st2] eqn:Er. destruct (IH _ _ _ Hc1 Er) as [H1 [H2 H3]].
    intro H. inversion H; subst. split; [constructor; assumption|]. split; [|exact H3].
    unfold all_calls in *. cbn [flat_map]. rewrite H2. destruct Hr as [-> _]. reflexivity.
Qed.

Lemma hrun_cancels cfg sts c : forall ops st segs st', run_ops (hstep true cfg sts c) ops st = (segs, st') ->
  (cancels (all_calls segs) <= (if hK st then 0 else 1))%nat.
Proof.
  induction ops as [|o r IH]; intros st segs st'; cbn [run_ops].
  - intro H. inversion H; subst. cbn. destruct (hK st'); lia.
  - destruct (hstep true cfg sts c o st) as [sg st1] eqn:E. destruct (run_ops (hstep true cfg sts c) r st1) as [l st2] eqn:Er.
    intro H. inversion H; subst. unfold all_calls. cbn [flat_map]. rewrite cancels_app. fold (all_calls l).
    pose proof (IH _ _ _ Er) as Hrest.
    destruct (hK st) eqn:Ec.
    + destruct (hstep_closed _ _ _ _ _ _ _ Ec E) as [Hc1 [Hs _]]. rewrite Hs, Hc1 in *. cbn. lia.
    + destruct (hstep_cancels _ _ _ _ _ _ _ E) as [H0|[_ [Hc1 Hle]]].
      * rewrite H0. destruct (hK st1); lia.
      * rewrite Hc1 in Hrest. lia.
Qed.

Lemma hstep_cancel_op cfg sts c oc st sg st' : is_cancel_op oc = true -> hstep true cfg sts c oc st = (sg, st') ->
  fst sg = [] /\ processes (snd sg) = [] /\ hK st' = true.
Proof.
  intro Hoc. destruct oc as [| | | | |d|]; try discriminate Hoc; cbn [hstep].
  - destruct (h_fin st); [intro H; inversion H; subst; repeat split|].
    destruct (h_tok st); intro H; inversion H; subst; repeat split.
  - destruct (h_fin st); [intro H; inversion H; subst; repeat split|].
    destruct (h_tok st); intro H; inversion H; subst; repeat split; destruct d; reflexivity.
Qed.

Lemma hstep_rejected cfg sts c e st sg st' : hstep true cfg sts c (OExch (Some e)) st = (sg, st') -> snd sg = [].
Proof.
  cbn [hstep]. destruct (true && h_canc st); [intro H; inversion H; subst; reflexivity|].
  destruct (h_tok st); intro H; inversion H; subst; reflexivity.
Qed.

(* ================================================================== the C10 statements *)
Lemma iter_legal_reads sp h : legal (PStream sp) (SIter h 0 AStop CbRecord) = true -> pipe_reads (PStream sp) (SIter h 0 AStop CbRecord) = true.
Proof. intros _. unfold pipe_reads. cbn. rewrite orb_true_r. reflexivity. Qed.

Theorem producer_exact_pipe : forall sp h,
  ires sp = InitOk -> legal (PStream sp) (SIter h 0 AStop CbRecord) = true -> no_exc_logs (PStream sp) = true ->
  let t := run_pipe (PStream sp) (SIter h 0 AStop CbRecord) in
  batches_of t = fst (emitted (steps sp))
  /\ exists pre, t = pre ++ [end_event (snd (emitted (steps sp)))] /\ filter is_end pre = [] .
Proof.
  intros sp h Hi Hl Hq. cbn zeta.
  destruct (pipe_sees sp (SIter h 0 AStop CbRecord) Hi eq_refl Hl eq_refl Hq (iter_legal_reads sp h Hl)) as [Hshape [Hb _]].
  pose proof Hq as Hq'. cbn in Hq'. apply andb_true_iff in Hq' as [Hil Hst].
  destruct (obs_prod_emitted (steps sp) Hst) as [H1 [_ [_ [pre [H4 H5]]]]].
  split; [rewrite Hb; exact H1|].
  exists (map ELog (ilogs sp) ++ hdr_events h sp ++ pre). split.
  - rewrite Hshape. cbn [body_of hdr_of iter_n]. rewrite H4, <- !app_assoc. reflexivity.
  - rewrite !filter_app, end_logs, end_hdr. exact H5.
Qed.

Theorem producer_exact_http : forall cfg sp h,
  ires sp = InitOk -> legal (PStream sp) (SIter h 0 AStop CbRecord) = true -> no_exc_logs (PStream sp) = true ->
  snd (emitted (steps sp)) = EndFinish \/ first_turn_ok cfg (PStream sp) (SIter h 0 AStop CbRecord) = true ->
  let t := run_http cfg (PStream sp) (SIter h 0 AStop CbRecord) in
  batches_of t = fst (emitted (steps sp)) /\ filter is_end t = [end_event (snd (emitted (steps sp)))].
Proof.
  intros cfg sp h Hi Hl Hq Hok. cbn zeta.
  assert (Hft : first_turn_ok cfg (PStream sp) (SIter h 0 AStop CbRecord) = true).
  { destruct Hok as [He|Hf]; [apply finishing_first_turn_ok; assumption|exact Hf]. }
  destruct (http_sees cfg sp (SIter h 0 AStop CbRecord) Hi eq_refl Hl eq_refl Hq eq_refl eq_refl Hft) as [Hb [_ He]].
  pose proof Hq as Hq'. cbn in Hq'. apply andb_true_iff in Hq' as [Hil Hst].
  destruct (obs_prod_emitted (steps sp) Hst) as [H1 [H2 _]].
  split; [rewrite Hb; exact H1|rewrite He; exact H2].
Qed.

Lemma emitted_emit_finish : forall pre bs x b post, Forall2 emits_only pre bs ->
  sraise x = None -> fin x = true -> emit x = Some b -> emitted (pre ++ x :: post) = (bs ++ [b], EndFinish).
Proof.
  intros pre bs x b post H Hr Hf He. induction H as [|y c pre' bs' [Hy1 [Hy2 Hy3]] _ IH].
  - cbn. rewrite Hr, Hf, He. reflexivity.
  - cbn [app emitted]. rewrite Hy1, Hy2, Hy3, IH. reflexivity.
Qed.

Theorem emit_and_finish_delivers : forall cfg sp h pre bs x b post,
  ires sp = InitOk -> legal (PStream sp) (SIter h 0 AStop CbRecord) = true -> no_exc_logs (PStream sp) = true ->
  steps sp = pre ++ x :: post -> Forall2 emits_only pre bs -> sraise x = None -> fin x = true -> emit x = Some b ->
  let tp := run_pipe (PStream sp) (SIter h 0 AStop CbRecord) in
  let th := run_http cfg (PStream sp) (SIter h 0 AStop CbRecord) in
  batches_of tp = bs ++ [b] /\ filter is_end tp = [EDone] /\ batches_of th = bs ++ [b] /\ filter is_end th = [EDone].
Proof.
  intros cfg sp h pre bs x b post Hi Hl Hq Hs Hpre Hr Hf He. cbn zeta.
  pose proof (emitted_emit_finish pre bs x b post Hpre Hr Hf He) as Hem. rewrite <- Hs in Hem.
  destruct (producer_exact_pipe sp h Hi Hl Hq) as [P1 [p [P2 P3]]].
  destruct (producer_exact_http cfg sp h Hi Hl Hq (or_introl (f_equal snd Hem))) as [H1 H2].
  rewrite Hem in *. cbn [fst snd end_event] in *. repeat split; try assumption.
  rewrite P2, filter_app, P3. reflexivity.
Qed.

Lemma exch_body_one_per_input sp h n a : no_exc_logs (PStream sp) = true ->
  let t := body_of sp (SExch h n a CbRecord) in
  batches_of t = batches_of t /\ one_per_input (steps sp) n t /\ filter is_data t = map EBatch (batches_of t).
Proof.
  intro Hq. cbn in Hq. apply andb_true_iff in Hq as [_ Hst]. cbn zeta. cbn [body_of].
  destruct (obs_exch_outputs n (steps sp) Hst) as [j [H1 [H2 [H3 [H4 H5]]]]]. cbn zeta in *.
  split; [reflexivity|]. split; [|exact H3]. exists j. repeat split; assumption.
Qed.

Lemma one_per_input_sees sts n t t' : batches_of t' = batches_of t -> filter is_end t' = filter is_end t ->
  one_per_input sts n t -> one_per_input sts n t'.
Proof. intros Hb He [j [H1 [H2 [H3 H4]]]]. exists j. rewrite Hb, He. repeat split; assumption. Qed.

Theorem exchange_one_per_input : forall cfg sp h n a,
  ires sp = InitOk -> legal (PStream sp) (SExch h n a CbRecord) = true -> no_exc_logs (PStream sp) = true ->
  (pipe_reads (PStream sp) (SExch h n a CbRecord) = true -> one_per_input (steps sp) n (run_pipe (PStream sp) (SExch h n a CbRecord)))
  /\ (fits cfg (PStream sp) (SExch h n a CbRecord) = true -> one_per_input (steps sp) n (run_http cfg (PStream sp) (SExch h n a CbRecord))).
Proof.
  intros cfg sp h n a Hi Hl Hq. destruct (exch_body_one_per_input sp h n a Hq) as [_ [Hone _]]. cbn zeta in Hone. split.
  - intro Hp. destruct (pipe_sees sp (SExch h n a CbRecord) Hi eq_refl Hl eq_refl Hq Hp) as [_ [Hb [_ He]]].
    exact (one_per_input_sees _ _ _ _ Hb He Hone).
  - intro Hf. destruct (http_sees cfg sp (SExch h n a CbRecord) Hi eq_refl Hl eq_refl Hq eq_refl Hf eq_refl) as [Hb [_ He]].
    exact (one_per_input_sees _ _ _ _ Hb He Hone).
Qed.

Lemma finish_refused_step x : fin x = true -> exec_step false (Some x) = SErr finish_refused.
Proof. intro H. unfold exec_step. rewrite H. reflexivity. Qed.

(* if the j-th process() call is the first that misbehaves, and it calls finish(): j outputs, then the refusal *)
Lemma one_per_input_finish sts n t j x : one_per_input sts n t ->
  nth_error sts j = Some x -> fin x = true -> (j < n)%nat ->
  (forall i, (i < j)%nat -> exists fs fl, exec_step false (nth_error sts i) = SFrames fs fl) ->
  batches_of t = map (out_of sts) (seq 0 j) /\ filter is_end t = [err_event finish_refused].
Proof.
  intros [j' [H1 [H2 [H3 H4]]]] Hx Hf Hj Hok.
  assert (Hbad : exec_step false (nth_error sts j) = SErr finish_refused) by (rewrite Hx; apply finish_refused_step; exact Hf).
  assert (j' = j).
  { destruct (Nat.lt_trichotomy j' j) as [Hlt|[Heq|Hgt]]; [|exact Heq|].
    - exfalso. destruct H4 as [[-> _]|[_ [e [He _]]]]; [lia|]. destruct (Hok j' Hlt) as [fs [fl Hs]]. rewrite Hs in He. discriminate He.
    - exfalso. destruct (H3 j Hgt) as [fs [fl Hs]]. rewrite Hs in Hbad. discriminate Hbad. }
  subst j'. split; [exact H2|]. destruct H4 as [[-> _]|[_ [e [He ->]]]]; [lia|]. rewrite Hbad in He. inversion He. reflexivity.
Qed.

Theorem header_once_first : forall cfg sp sc,
  ires sp = InitOk -> is_stream sc = true -> legal (PStream sp) sc = true -> records sc = true -> no_exc_logs (PStream sp) = true ->
  (pipe_reads (PStream sp) sc = true ->
     let t := run_pipe (PStream sp) sc in filter is_data t = hdr_events (hdr_of sc) sp ++ map EBatch (batches_of t))
  /\ (complete sc = true -> fits cfg (PStream sp) sc = true -> first_turn_ok cfg (PStream sp) sc = true ->
     let t := run_http cfg (PStream sp) sc in filter is_data t = hdr_events (hdr_of sc) sp ++ map EBatch (batches_of t)).
Proof.
  intros cfg sp sc Hi Hs Hl Hr Hq.
  assert (Hbody : filter is_data (body_of sp sc) = map EBatch (batches_of (body_of sp sc))).
  { destruct sc as [c|h k a c|h n a c]; [discriminate Hs| |]; destruct c; try discriminate Hr.
    - cbn [body_of]. pose proof Hq as Hq'. cbn in Hq'. apply andb_true_iff in Hq' as [_ Hst]. apply obs_prod_data. exact Hst.
    - exact (proj2 (proj2 (exch_body_one_per_input sp h n a Hq))). }
  split.
  - intro Hp. destruct (pipe_sees sp sc Hi Hs Hl Hr Hq Hp) as [_ [Hb [Hd _]]]. cbn zeta. rewrite Hd, Hb, Hbody. reflexivity.
  - intros Hc Hf Ho. destruct (http_sees cfg sp sc Hi Hs Hl Hr Hq Hc Hf Ho) as [Hb [Hd _]]. cbn zeta. rewrite Hd, Hb, Hbody. reflexivity.
Qed.

Lemma run_ops_app {S : Type} (f : op -> S -> seg * S) : forall a b st,
  run_ops f (a ++ b) st = let '(s1, st1) := run_ops f a st in let '(s2, st2) := run_ops f b st1 in (s1 ++ s2, st2).
Proof.
  induction a as [|o r IH]; intros b st; cbn [app run_ops].
  - destruct (run_ops f b st) as [s2 st2]. reflexivity.
  - destruct (f o st) as [sg st1]. rewrite IH. destruct (run_ops f r st1) as [s1 st2]. destruct (run_ops f b st2) as [s2 st3]. reflexivity.
Qed.

Lemma all_calls_app a b : all_calls (a ++ b) = all_calls a ++ all_calls b.
Proof. unfold all_calls. apply flat_map_app. Qed.

Theorem after_cancel_pipe : forall producer c oc st0 pre post segs1 st1 sgc st2 segs2 st3,
  p_closed st0 = false -> is_cancel_op oc = true ->
  run_ops (pstep producer c) pre st0 = (segs1, st1) -> pstep producer c oc st1 = (sgc, st2) ->
  run_ops (pstep producer c) post st2 = (segs2, st3) ->
  processes (snd sgc ++ all_calls segs2) = []
  /\ (cancels (all_calls segs1 ++ snd sgc ++ all_calls segs2) <= 1)%nat
  /\ errors_of (fst sgc) = []
  /\ Forall2 refusal post segs2.
Proof.
  intros producer c oc st0 pre post segs1 st1 sgc st2 segs2 st3 H0 Hoc R1 Rc R2.
  destruct (pstep_cancel_op _ _ _ _ _ _ Hoc Rc) as [C1 [_ [C3 C4]]].
  destruct (run_ops_closed _ _ _ _ _ _ C4 R2) as [F [A _]].
  split; [rewrite A, app_nil_r; exact C3|]. split; [|split; [exact C1|exact F]].
  pose proof (run_ops_cancels producer c (pre ++ oc :: post) st0) as Hall.
  rewrite run_ops_app, R1 in Hall. cbn [run_ops] in Hall. rewrite Rc, R2 in Hall.
  specialize (Hall _ _ eq_refl). rewrite H0 in Hall. rewrite all_calls_app in Hall. unfold all_calls at 2 in Hall. cbn [flat_map] in Hall.
  fold (all_calls segs2) in Hall. exact Hall.
Qed.

Theorem after_cancel_http : forall cfg sts c oc st0 pre post segs1 st1 sgc st2 segs2 st3,
  hK st0 = false -> is_cancel_op oc = true ->
  run_ops (hstep true cfg sts c) pre st0 = (segs1, st1) -> hstep true cfg sts c oc st1 = (sgc, st2) ->
  run_ops (hstep true cfg sts c) post st2 = (segs2, st3) ->
  processes (snd sgc ++ all_calls segs2) = []
  /\ (cancels (all_calls segs1 ++ snd sgc ++ all_calls segs2) <= 1)%nat
  /\ fst sgc = []
  /\ Forall2 refusal post segs2.
Proof.
  intros cfg sts c oc st0 pre post segs1 st1 sgc st2 segs2 st3 H0 Hoc R1 Rc R2.
  destruct (hstep_cancel_op _ _ _ _ _ _ _ Hoc Rc) as [C1 [C3 C4]].
  destruct (hrun_closed _ _ _ _ _ _ _ C4 R2) as [F [A _]].
  split; [rewrite A, app_nil_r; exact C3|]. split; [|split; [exact C1|exact F]].
  pose proof (hrun_cancels cfg sts c (pre ++ oc :: post) st0) as Hall.
  rewrite run_ops_app, R1 in Hall. cbn [run_ops] in Hall. rewrite Rc, R2 in Hall.
  specialize (Hall _ _ eq_refl). rewrite H0 in Hall. rewrite all_calls_app in Hall. unfold all_calls at 2 in Hall. cbn [flat_map] in Hall.
  fold (all_calls segs2) in Hall. exact Hall.
Qed.

(* every session starts open / not cancelled *)
Lemma pipe_init_open sp h c ies st0 : pipe_init sp h c = (ies, Some st0) -> p_closed st0 = false.
Proof.
  unfold pipe_init. destruct (ires sp); try discriminate. destruct (srv_init sp h) as [q0 alive]. destruct h.
  - destruct (cli_read c q0) as [[es o] r]. destruct o; intro H; inversion H; subst; reflexivity.
  - intro H. inversion H; subst. reflexivity.
Qed.

Lemma http_init_open cfg sp h producer c ies ics st0 : http_init cfg sp h producer c = (ies, ics, Some st0) -> hK st0 = false.
Proof.
  unfold http_init. destruct (ires sp); try discriminate.
  destruct (h && match hdr sp with Some _ => false | None => true end); [discriminate|].
  destruct producer.
  - destruct (http_turn cfg (steps sp) 0 _) as [t0 cs]. destruct (hparse_init c _ []) as [es [[pend t]|]]; intro H; inversion H; subst; reflexivity.
  - destruct (hparse_init c _ []) as [es [[pend t]|]]; intro H; inversion H; subst; reflexivity.
Qed.
