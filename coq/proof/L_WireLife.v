(* L_WireLife: lemmas for C10 (stream lifecycle). *)
From Coq Require Import List NArith ZArith Bool Lia.
From VGI Require Import Corr M_Wire L_Wire L_WireHttp M_WireLife.
Import ListNotations.
Open Scope N_scope.

(* ================================================================== _coerce_input_batch *)
Lemma str_eqb_eq (a b : str) : str_eqb a b = true <-> a = b.
Proof. apply list_eqb_eq. intros x y. apply N.eqb_eq. Qed.

Lemma str_eqb_refl (a : str) : str_eqb a a = true.
Proof. apply str_eqb_eq. reflexivity. Qed.

Section CoerceFacts.
  Variable ty col : Type.
  Variable ty_eqb : ty -> ty -> bool.
  Variable cast : ty -> ty -> col -> option col.
  Hypothesis ty_eqb_eq : forall a b, ty_eqb a b = true <-> a = b.

  Notation fieldT := (field ty).
  Notation columnT := (column ty col).
  Notation coerceT := (coerce ty col ty_eqb cast).
  Notation schema := (schema_of ty col).
  Notation nms := (names ty).

  Lemma field_eqb_eq (f g : fieldT) : field_eqb ty ty_eqb f g = true <-> f = g.
  Proof.
    unfold field_eqb. destruct f as [n t], g as [n' t']. cbn [fst snd]. rewrite andb_true_iff, str_eqb_eq, ty_eqb_eq.
    split; [intros [-> ->]; reflexivity|intro H; inversion H; split; reflexivity].
  Qed.

  Lemma schema_eqb_eq (a b : list fieldT) : schema_eqb ty ty_eqb a b = true <-> a = b.
  Proof. apply list_eqb_eq. exact field_eqb_eq. Qed.

  Lemma names_eqb_eq (a b : list str) : list_eqb str_eqb a b = true <-> a = b.
  Proof. apply list_eqb_eq. exact str_eqb_eq. Qed.

  Lemma mem_In n l : mem n l = true <-> In n l.
  Proof.
    unfold mem. rewrite existsb_exists. split.
    - intros [x [Hx He]]. apply str_eqb_eq in He. subst. exact Hx.
    - intro H. exists n. split; [exact H|apply str_eqb_refl].
  Qed.

  Lemma subset_spec a b : subset a b = true <-> (forall n, In n a -> In n b).
  Proof.
    unfold subset. rewrite forallb_forall. split; intros H n Hn.
    - apply mem_In. exact (H n Hn).
    - apply mem_In. exact (H n Hn).
  Qed.

  Lemma set_eqb_spec a b : set_eqb a b = true <-> (forall n, In n a <-> In n b).
  Proof.
    unfold set_eqb. rewrite andb_true_iff, !subset_spec. split.
    - intros [H1 H2] n. split; [apply H1|apply H2].
    - intro H. split; intros n Hn; apply H; exact Hn.
  Qed.

  (* ---- select *)
  Lemma find_all_In n (b : list columnT) c : In c (find_all ty col n b) -> In c b /\ fst (fst c) = n.
  Proof.
    unfold find_all. rewrite filter_In. intros [H1 H2]. apply str_eqb_eq in H2. split; [exact H1|symmetry; exact H2].
  Qed.

  Lemma select_sound : forall ns (b l : list columnT), select ty col ns b = Some l ->
    nms (schema l) = ns /\ (forall c, In c l -> In c b).
  Proof.
    induction ns as [|n r IH]; intros b l H.
    - inversion H; subst. split; [reflexivity|intros c []].
    - cbn [select] in H. destruct (find_all ty col n b) as [|c [|c2 rest]] eqn:E; try discriminate H.
      destruct (select ty col r b) as [l'|] eqn:E'; [|discriminate H]. inversion H; subst.
      destruct (IH b l' E') as [Hn Hin].
      assert (Hc : In c (find_all ty col n b)) by (rewrite E; left; reflexivity).
      apply find_all_In in Hc as [Hc1 Hc2]. split.
      + cbn. rewrite Hc2. f_equal. exact Hn.
      + intros x [<-|Hx]; [exact Hc1|exact (Hin x Hx)].
  Qed.

  Lemma find_all_none : forall (b : list columnT) n, ~ In n (nms (schema b)) -> find_all ty col n b = [].
  Proof.
    induction b as [|c r IH]; intros n Hn; [reflexivity|].
    unfold find_all. cbn [filter]. match goal with |- context [str_eqb ?a ?b] => destruct (str_eqb a b) eqn:E end.
    - apply str_eqb_eq in E. exfalso. apply Hn. cbn. left. symmetry. exact E.
    - apply IH. intro Hc. apply Hn. cbn. right. exact Hc.
  Qed.

  Lemma find_all_unique : forall (b : list columnT) n,
    NoDup (nms (schema b)) -> In n (nms (schema b)) -> exists c, find_all ty col n b = [c].
  Proof.
    induction b as [|c r IH]; intros n Hnd Hin; [destruct Hin|].
    cbn in Hnd, Hin. inversion Hnd as [|x l Hx Hl]; subst.
    unfold find_all. cbn [filter]. match goal with |- context [str_eqb ?a ?b] => destruct (str_eqb a b) eqn:E end.
    - apply str_eqb_eq in E. subst n. exists c. f_equal. apply find_all_none. exact Hx.
    - destruct Hin as [Hin|Hin]; [subst n; rewrite str_eqb_refl in E; discriminate E|].
      exact (IH n Hl Hin).
  Qed.

  Lemma select_complete : forall ns (b : list columnT),
    NoDup (nms (schema b)) -> (forall n, In n ns -> In n (nms (schema b))) -> exists l, select ty col ns b = Some l.
  Proof.
    induction ns as [|n r IH]; intros b Hnd Hsub; [exists []; reflexivity|].
    cbn [select]. destruct (find_all_unique b n Hnd (Hsub n (or_introl eq_refl))) as [c ->].
    destruct (IH b Hnd (fun m Hm => Hsub m (or_intror Hm))) as [l ->]. exists (c :: l). reflexivity.
  Qed.

  (* ---- cast_all *)
  Lemma cast_all_sound : forall (target : list fieldT) (b b2 : list columnT), cast_all ty col cast target b = Some b2 ->
    schema b2 = target /\
    (nms (schema b) = nms target ->
     forall f v, In (f, v) b2 -> exists c, In c b /\ fst (fst c) = fst f /\ cast (snd f) (snd (fst c)) (snd c) = Some v).
  Proof.
    induction target as [|f tr IH]; intros b b2 H.
    - destruct b; [|discriminate H]. inversion H; subst. split; [reflexivity|intros _ f v []].
    - destruct b as [|c br]; [discriminate H|]. cbn [cast_all] in H.
      destruct (cast (snd f) (snd (fst c)) (snd c)) as [v0|] eqn:Ec; [|discriminate H].
      destruct (cast_all ty col cast tr br) as [r|] eqn:Er; [|discriminate H]. inversion H; subst.
      destruct (IH br r Er) as [Hs Hp]. split; [cbn; f_equal; exact Hs|].
      intros Hn g v [Hg|Hg].
      + inversion Hg; subst. exists c. cbn in Hn. inversion Hn. repeat split; [left; reflexivity|assumption|exact Ec].
      + cbn in Hn. inversion Hn as [[Hn1 Hn2]]. destruct (Hp Hn2 g v Hg) as [c' [H1 [H2 H3]]].
        exists c'. repeat split; [right; exact H1|exact H2|exact H3].
  Qed.

  Lemma cast_all_complete : forall (target : list fieldT) (b : list columnT),
    nms (schema b) = nms target ->
    (forall c f, In c b -> In f target -> fst (fst c) = fst f -> exists v, cast (snd f) (snd (fst c)) (snd c) = Some v) ->
    exists b2, cast_all ty col cast target b = Some b2.
  Proof.
    induction target as [|f tr IH]; intros b Hn Hc.
    - destruct b; [exists []; reflexivity|discriminate Hn].
    - destruct b as [|c br]; [discriminate Hn|]. cbn in Hn. inversion Hn as [[Hn1 Hn2]].
      cbn [cast_all]. destruct (Hc c f (or_introl eq_refl) (or_introl eq_refl) Hn1) as [v ->].
      destruct (IH br Hn2) as [r ->]; [|exists ((f, v) :: r); reflexivity].
      intros c' f' H1 H2 H3. apply Hc; [right; exact H1|right; exact H2|exact H3].
  Qed.

  (* ---- the three-way rule *)
  (* 1. an input that already has the declared schema reaches the state unchanged *)
  Lemma coerce_equal target (b : list columnT) : schema b = target -> coerceT target b = CAccept b.
  Proof. intro H. unfold coerce. apply schema_eqb_eq in H. rewrite H. reflexivity. Qed.

  (* 2. whatever reaches the state has the declared schema, and every column of it is the same-named input column,
        as it was or cast to the declared type *)
  Lemma coerce_accept target (b b' : list columnT) : coerceT target b = CAccept b' ->
    schema b' = target /\
    forall f v, In (f, v) b' ->
      exists c, In c b /\ fst (fst c) = fst f /\ (c = (f, v) \/ cast (snd f) (snd (fst c)) (snd c) = Some v).
  Proof.
    unfold coerce. destruct (schema_eqb ty ty_eqb (schema b) target) eqn:E1.
    - intro H. inversion H; subst. apply schema_eqb_eq in E1. split; [exact E1|].
      intros f v Hin. exists (f, v). repeat split; [exact Hin|left; reflexivity].
    - destruct (set_eqb (nms (schema b)) (nms target)); cbn [negb]; [|discriminate].
      assert (Hsel : forall b1, (if list_eqb str_eqb (nms (schema b)) (nms target) then Some b else select ty col (nms target) b) = Some b1 ->
                     nms (schema b1) = nms target /\ forall c, In c b1 -> In c b).
      { intros b1. destruct (list_eqb str_eqb (nms (schema b)) (nms target)) eqn:En.
        - intro H. inversion H; subst. apply names_eqb_eq in En. split; [exact En|auto].
        - apply select_sound. }
      destruct (if list_eqb str_eqb (nms (schema b)) (nms target) then Some b else select ty col (nms target) b) as [b1|]; [|discriminate].
      destruct (Hsel b1 eq_refl) as [Hn Hin1].
      destruct (schema_eqb ty ty_eqb (schema b1) target) eqn:E2.
      + intro H. inversion H; subst. apply schema_eqb_eq in E2. split; [exact E2|].
        intros f v Hin. exists (f, v). repeat split; [apply Hin1; exact Hin|left; reflexivity].
      + destruct (cast_all ty col cast target b1) as [b2|] eqn:E3; [|discriminate].
        intro H. inversion H; subst. destruct (cast_all_sound _ _ _ E3) as [Hs Hp]. split; [exact Hs|].
        intros f v Hin. destruct (Hp Hn f v Hin) as [c [H1 [H2 H3]]].
        exists c. repeat split; [apply Hin1; exact H1|exact H2|right; exact H3].
  Qed.

  (* 3. a different field set is rejected *)
  Lemma coerce_diff_set target (b : list columnT) :
    (exists n, In n (nms (schema b)) /\ ~ In n (nms target)) \/ (exists n, In n (nms target) /\ ~ In n (nms (schema b))) ->
    coerceT target b = CRejectType.
  Proof.
    intro H. unfold coerce.
    assert (Hset : set_eqb (nms (schema b)) (nms target) = false).
    { destruct (set_eqb (nms (schema b)) (nms target)) eqn:E; [|reflexivity]. exfalso.
      pose proof (proj1 (set_eqb_spec _ _) E) as Hs.
      destruct H as [[n [H1 H2]]|[n [H1 H2]]]; apply H2; apply Hs; exact H1. }
    destruct (schema_eqb ty ty_eqb (schema b) target) eqn:E1.
    - apply schema_eqb_eq in E1. exfalso. rewrite E1 in H.
      destruct H as [[n [H1 H2]]|[n [H1 H2]]]; exact (H2 H1).
    - rewrite Hset. reflexivity.
  Qed.

  (* 4. the same field set (in any order) whose columns cast to the declared types is accepted *)
  Lemma coerce_same_set target (b : list columnT) :
    NoDup (nms (schema b)) -> (forall n, In n (nms (schema b)) <-> In n (nms target)) ->
    (forall c f, In c b -> In f target -> fst (fst c) = fst f -> exists v, cast (snd f) (snd (fst c)) (snd c) = Some v) ->
    exists b', coerceT target b = CAccept b'.
  Proof.
    intros Hnd Hset Hcast. unfold coerce.
    destruct (schema_eqb ty ty_eqb (schema b) target); [exists b; reflexivity|].
    rewrite (proj2 (set_eqb_spec _ _) Hset). cbn [negb].
    destruct (list_eqb str_eqb (nms (schema b)) (nms target)) eqn:En.
    - apply names_eqb_eq in En. destruct (schema_eqb ty ty_eqb (schema b) target); [exists b; reflexivity|].
      destruct (cast_all_complete target b En Hcast) as [b2 ->]. exists b2. reflexivity.
    - destruct (select_complete (nms target) b Hnd (fun n Hn => proj2 (Hset n) Hn)) as [b1 E]. rewrite E.
      destruct (select_sound _ _ _ E) as [Hn Hin].
      destruct (schema_eqb ty ty_eqb (schema b1) target); [exists b1; reflexivity|].
      destruct (cast_all_complete target b1 Hn (fun c f H1 H2 H3 => Hcast c f (Hin c H1) H2 H3)) as [b2 ->]. exists b2. reflexivity.
  Qed.
End CoerceFacts.
