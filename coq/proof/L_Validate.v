(* C06: specification predicates and the lemmas behind prop/P_C06.v. *)
From Coq Require Import List NArith Bool Lia.
From VGI Require Import Corr M_Validate.
Import ListNotations.
Open Scope N_scope.

(* ------------------------------------------------------------------------------------------------------------ *)
(* The contract of the property text, on the model's data                                                        *)
(* ------------------------------------------------------------------------------------------------------------ *)

(* what introspection (rpc_methods) guarantees of a RpcMethodInfo: the schema has one field per declared
   parameter, same names, same order; Python parameter names are distinct *)
Definition wf_info (mi : minfo) : Prop :=
  map fst (mi_types mi) = map f_name (mi_schema mi) /\ NoDup (map fst (mi_types mi)).
Definition wf_table (ms : list minfo) : Prop := forall mi, In mi ms -> wf_info mi.

(* the request names the method, carries the request version, and has exactly one row (when it has columns) *)
Definition framed (q : request) (name : str) : Prop :=
  q_method q = MKName name /\ q_version q = VOk /\ (q_cols q = [] \/ q_rows q = 1).

(* same number of columns, same order, same names, same Arrow types, same nullability *)
Definition schema_conforms (mi : minfo) (q : request) : Prop := map fst (q_cols q) = mi_schema mi.

(* every non-optional parameter is non-null *)
Definition required_nonnull (mi : minfo) (q : request) : Prop :=
  Forall2 (fun (p : str * ptype) (fc : field * cell) => pt_optional (snd p) = false -> snd fc <> CNull)
          (mi_types mi) (q_cols q).

Definition deser_value : pkind -> pyval -> option exn := deser_value_with (c_dbranches std_cfg).

(* every non-null value converts to its declared Python type (enum member known, dataclass bytes parse, ...) *)
Definition values_convert (mi : minfo) (q : request) : Prop :=
  Forall2 (fun (p : str * ptype) (fc : field * cell) =>
             match snd fc with CNull => True | CVal v => deser_value (pt_kind (snd p)) v = None end)
          (mi_types mi) (q_cols q).

(* the statement's conformance: columns and nullness *)
Definition statement_conforming (mi : minfo) (q : request) (name : str) : Prop :=
  framed q name /\ schema_conforms mi q /\ required_nonnull mi q.

Definition conforming (mi : minfo) (q : request) (name : str) : Prop :=
  statement_conforming mi q name /\ values_convert mi q.

(* the arguments a conforming request denotes: declared names paired with the request's row *)
Definition declared_args (mi : minfo) (q : request) : list (str * cell) :=
  combine (map fst (mi_types mi)) (map snd (q_cols q)).

Definition sock_ok : outcome :=
  {| o_invoked := true; o_status := 0; o_marker := false; o_err := None; o_reason := ROk |}.
Definition sock_raised (e : exn) : outcome :=
  {| o_invoked := true; o_status := 0; o_marker := false; o_err := Some (ecls e); o_reason := RMethodRaised |}.
Definition http_ok : outcome :=
  {| o_invoked := true; o_status := 200; o_marker := false; o_err := None; o_reason := ROk |}.
Definition http_raised (e : exn) : outcome :=
  {| o_invoked := true; o_status := 200; o_marker := true; o_err := Some (ecls e); o_reason := RMethodRaised |}.

(* ------------------------------------------------------------------------------------------------------------ *)
(* strings, membership, lookup                                                                                    *)
(* ------------------------------------------------------------------------------------------------------------ *)
Lemma str_eqb_eq : forall a b, str_eqb a b = true <-> a = b.
Proof. intros a b. unfold str_eqb. apply list_eqb_eq. intros x y. apply N.eqb_eq. Qed.

Lemma str_eqb_refl : forall a, str_eqb a a = true.
Proof. intro a. apply str_eqb_eq. reflexivity. Qed.

Lemma str_eqb_neq : forall a b, a <> b -> str_eqb a b = false.
Proof. intros a b H. destruct (str_eqb a b) eqn:E; [apply str_eqb_eq in E; contradiction | reflexivity]. Qed.

Lemma smem_In : forall k l, smem k l = true <-> In k l.
Proof.
  intros k l. unfold smem. rewrite existsb_exists. split.
  - intros [x [Hx He]]. apply str_eqb_eq in He. subst. exact Hx.
  - intro H. exists k. split; [exact H | apply str_eqb_refl].
Qed.

Lemma lookup_In : forall (A : Type) (T : list (str * A)) k v,
  NoDup (map fst T) -> In (k, v) T -> lookup k T = Some v.
Proof.
  intros A T. induction T as [|[k' v'] r IH]; intros k v Hnd Hin; simpl in *.
  - contradiction.
  - inversion Hnd as [|x l Hnotin Hnd']; subst.
    destruct Hin as [Heq | Hin].
    + inversion Heq; subst. rewrite str_eqb_refl. reflexivity.
    + assert (Hk : k <> k').
      { intro; subst. apply Hnotin. apply in_map_iff. exists (k', v). split; [reflexivity | exact Hin]. }
      rewrite (str_eqb_neq _ _ Hk). apply IH; assumption.
Qed.

(* ------------------------------------------------------------------------------------------------------------ *)
(* kwargs of a request whose column names are distinct                                                            *)
(* ------------------------------------------------------------------------------------------------------------ *)
Definition col_kw (fc : field * cell) : str * cell := (f_name (fst fc), snd fc).

Lemma kw_set_fresh : forall k c kw, ~ In k (map fst kw) -> kw_set k c kw = kw ++ [(k, c)].
Proof.
  intros k c kw. induction kw as [|[k' c'] r IH]; intro H; simpl in *.
  - reflexivity.
  - assert (Hk : k <> k') by (intro; subst; apply H; left; reflexivity).
    rewrite (str_eqb_neq _ _ Hk). rewrite IH; [reflexivity | intro Hin; apply H; right; exact Hin].
Qed.

Lemma kwargs_fold : forall cols acc,
  NoDup (map fst acc ++ map (fun fc => f_name (fst fc)) cols) ->
  fold_left (fun kw fc => kw_set (f_name (fst fc)) (snd fc) kw) cols acc = acc ++ map col_kw cols.
Proof.
  induction cols as [|fc r IH]; intros acc H; simpl in *.
  - rewrite app_nil_r. reflexivity.
  - rewrite kw_set_fresh.
    + rewrite IH.
      * rewrite <- app_assoc. reflexivity.
      * rewrite map_app. simpl. rewrite <- app_assoc. simpl. exact H.
    + apply NoDup_remove_2 in H. intro Hin. apply H. apply in_or_app. left. exact Hin.
Qed.

Lemma kwargs_of_distinct : forall cols,
  NoDup (map (fun fc => f_name (fst fc)) cols) -> kwargs_of cols = map col_kw cols.
Proof. intros cols H. unfold kwargs_of. rewrite kwargs_fold; [reflexivity | exact H]. Qed.

Lemma map_fst_col_kw : forall cols, map fst (map col_kw cols) = map f_name (map fst cols).
Proof. intro cols. rewrite !map_map. reflexivity. Qed.

Lemma map_col_kw_combine : forall cols,
  map col_kw cols = combine (map f_name (map fst cols)) (map snd cols).
Proof. induction cols as [|[f c] r IH]; simpl; [reflexivity | rewrite IH; reflexivity]. Qed.

(* ------------------------------------------------------------------------------------------------------------ *)
(* _validate_call_signature                                                                                       *)
(* ------------------------------------------------------------------------------------------------------------ *)
Lemma field_eq_iff : forall i f d, run_fchecks [FName; FType; FNullable] i f d = None <-> f = d.
Proof.
  intros i [fn ft fu] [dn dt du]. simpl. split.
  - destruct (str_eqb fn dn) eqn:E1; [|discriminate].
    destruct (ft =? dt) eqn:E2; [|discriminate].
    destruct (eqb fu du) eqn:E3; [|discriminate].
    intros _. apply str_eqb_eq in E1. apply N.eqb_eq in E2. apply eqb_prop in E3. subst. reflexivity.
  - intro H. inversion H; subst. rewrite str_eqb_refl, N.eqb_refl, eqb_reflx. reflexivity.
Qed.

Lemma field_loop_iff : forall rs ds i, length rs = length ds ->
  (field_loop [FName; FType; FNullable] i rs ds = None <-> rs = ds).
Proof.
  induction rs as [|f r IH]; intros [|d r'] i Hlen; simpl in Hlen; try discriminate.
  - simpl. split; reflexivity.
  - cbn [field_loop]. destruct (run_fchecks [FName; FType; FNullable] i f d) eqn:E.
    + split; [discriminate|]. intro H. inversion H; subst.
      assert (Hn : run_fchecks [FName; FType; FNullable] i d d = None) by (apply field_eq_iff; reflexivity).
      rewrite Hn in E. discriminate.
    + apply field_eq_iff in E. subst. rewrite (IH r' (i + 1)) by (injection Hlen; auto).
      split; intro H; [subst; reflexivity | inversion H; reflexivity].
Qed.

Lemma len_eq : forall (A B : Type) (l : list A) (l' : list B), (len l =? len l') = true <-> length l = length l'.
Proof. intros. unfold len. rewrite N.eqb_eq. split; intro H; [apply Nat2N.inj in H; exact H | rewrite H; reflexivity]. Qed.

Lemma filter_nil : forall (A : Type) (f : A -> bool) l, (forall x, In x l -> f x = false) -> filter f l = [].
Proof.
  intros A f l. induction l as [|a r IH]; intro H; simpl; [reflexivity|].
  rewrite (H a (or_introl eq_refl)). apply IH. intros x Hx. apply H. right. exact Hx.
Qed.

Lemma validate_sig_sound : forall mi kw rs,
  validate_sig std_cfg mi kw rs = None -> rs = mi_schema mi.
Proof.
  intros mi kw rs. unfold validate_sig. cbn [c_pre c_fchecks std_cfg run_pres run_pre].
  destruct (unexpected mi kw); [|discriminate].
  destruct (missing mi kw); [|discriminate].
  destruct (len rs =? len (mi_schema mi)) eqn:E; [|discriminate].
  apply len_eq in E. intro H. apply (field_loop_iff rs (mi_schema mi) 0 E). exact H.
Qed.

Lemma validate_sig_complete : forall mi cols,
  wf_info mi -> map fst cols = mi_schema mi ->
  validate_sig std_cfg mi (kwargs_of cols) (map fst cols) = None /\ kwargs_of cols = map col_kw cols.
Proof.
  intros mi cols [Hnames Hnd] Hs.
  assert (Hcn : map (fun fc => f_name (fst fc)) cols = map fst (mi_types mi)).
  { rewrite Hnames, <- Hs, map_map. reflexivity. }
  assert (Hkw : kwargs_of cols = map col_kw cols) by (apply kwargs_of_distinct; rewrite Hcn; exact Hnd).
  split; [|exact Hkw].
  rewrite Hkw. unfold validate_sig. cbn [c_pre c_fchecks std_cfg run_pres run_pre].
  assert (Hkeys : map fst (map col_kw cols) = map fst (mi_types mi)).
  { rewrite map_fst_col_kw, Hs. symmetry. exact Hnames. }
  unfold unexpected, missing. rewrite Hkeys.
  rewrite filter_nil.
  2:{ intros x Hx. apply smem_In in Hx. rewrite Hx. reflexivity. }
  rewrite filter_nil.
  2:{ intros x Hx. apply smem_In in Hx. rewrite Hx. reflexivity. }
  rewrite Hs. rewrite N.eqb_refl. apply field_loop_iff; reflexivity.
Qed.

(* ------------------------------------------------------------------------------------------------------------ *)
(* _validate_params / _deserialize_params as Forall over kwargs, then aligned with the declaration                *)
(* ------------------------------------------------------------------------------------------------------------ *)
Definition params_ok (o : option ptype) (c : cell) : Prop :=
  match c, o with CNull, Some pt => pt_optional pt = true | _, _ => True end.
Definition deser_ok (o : option ptype) (c : cell) : Prop :=
  match c, o with CVal v, Some pt => deser_value (pt_kind pt) v = None | _, _ => True end.

Lemma validate_params_iff : forall types kw,
  (exists r, validate_params types kw = Some r) \/ validate_params types kw = None.
Proof. intros. destruct (validate_params types kw); [left; eauto | right; reflexivity]. Qed.

Lemma validate_params_none : forall types kw,
  validate_params types kw = None <-> Forall (fun kc => params_ok (lookup (fst kc) types) (snd kc)) kw.
Proof.
  intros types kw. induction kw as [|[k c] r IH]; simpl.
  - split; [constructor | reflexivity].
  - destruct c as [|v].
    + destruct (lookup k types) as [pt|] eqn:E.
      * destruct (pt_optional pt) eqn:O.
        -- rewrite IH. split; intro H.
           ++ constructor; [simpl; rewrite E; exact O | exact H].
           ++ inversion H; assumption.
        -- split; [discriminate|]. intro H. inversion H as [|x l Hh Ht]; subst. simpl in Hh. rewrite E in Hh.
           rewrite O in Hh. discriminate.
      * rewrite IH. split; intro H.
        -- constructor; [simpl; rewrite E; exact I | exact H].
        -- inversion H; assumption.
    + rewrite IH. split; intro H.
      * constructor; [simpl; destruct (lookup k types); exact I | exact H].
      * inversion H; assumption.
Qed.

Lemma deser_params_none : forall types kw,
  deser_params (c_dbranches std_cfg) types kw = None <->
  Forall (fun kc => deser_ok (lookup (fst kc) types) (snd kc)) kw.
Proof.
  intros types kw. induction kw as [|[k c] r IH]; cbn [deser_params].
  - split; [constructor | reflexivity].
  - destruct c as [|v].
    + rewrite IH. split; intro H.
      * constructor; [exact I | exact H].
      * inversion H; assumption.
    + destruct (lookup k types) as [pt|] eqn:E.
      * change (deser_value_with (c_dbranches std_cfg) (pt_kind pt) v) with (deser_value (pt_kind pt) v).
        destruct (deser_value (pt_kind pt) v) eqn:D.
        -- split; [discriminate|]. intro H. inversion H as [|x l Hh Ht]; subst. cbn [fst snd] in Hh. rewrite E in Hh.
           unfold deser_ok in Hh. rewrite D in Hh. discriminate.
        -- rewrite IH. split; intro H.
           ++ constructor; [cbn [fst snd]; rewrite E; exact D | exact H].
           ++ inversion H; assumption.
      * rewrite IH. split; intro H.
        -- constructor; [cbn [fst snd]; rewrite E; exact I | exact H].
        -- inversion H; assumption.
Qed.

Lemma aligned_forall : forall (R : option ptype -> cell -> Prop) (T : list (str * ptype)),
  NoDup (map fst T) ->
  forall types kw, incl types T -> map fst types = map fst kw ->
  (Forall (fun kc => R (lookup (fst kc) T) (snd kc)) kw <->
   Forall2 (fun (t : str * ptype) (kc : str * cell) => R (Some (snd t)) (snd kc)) types kw).
Proof.
  intros R T Hnd. induction types as [|[tk tp] r IH]; intros [|[k c] kw] Hincl Hm; simpl in Hm; try discriminate.
  - split; constructor.
  - injection Hm as Hk Hm'. subst k.
    assert (Hl : lookup tk T = Some tp).
    { apply lookup_In; [exact Hnd | apply Hincl; left; reflexivity]. }
    assert (Hincl' : incl r T) by (intros x Hx; apply Hincl; right; exact Hx).
    split; intro H.
    + inversion H as [|x l Hh Ht]; subst. simpl in Hh. rewrite Hl in Hh.
      constructor; [exact Hh | apply IH; assumption].
    + inversion H as [|x y l l' Hh Ht]; subst. simpl in Hh.
      constructor; [simpl; rewrite Hl; exact Hh | apply IH; assumption].
Qed.

Lemma Forall2_map_r : forall (A B C : Type) (P : A -> C -> Prop) (g : B -> C) l l',
  Forall2 P l (map g l') <-> Forall2 (fun a b => P a (g b)) l l'.
Proof.
  intros A B C P g l. induction l as [|a r IH]; intros [|b r']; simpl; split; intro H;
    try constructor; try (inversion H; fail).
  - inversion H; subst; assumption.
  - inversion H; subst. apply IH. assumption.
  - inversion H; subst; assumption.
  - inversion H; subst. apply IH. assumption.
Qed.

Lemma Forall2_impl_iff : forall (A B : Type) (P Q : A -> B -> Prop) l l',
  (forall a b, P a b <-> Q a b) -> (Forall2 P l l' <-> Forall2 Q l l').
Proof.
  intros A B P Q l. induction l as [|a r IH]; intros [|b r'] H; split; intro H0; try constructor;
    try (inversion H0; fail); inversion H0; subst; try (apply H; assumption); apply (IH r' H); assumption.
Qed.

Section Aligned.
  Variable mi : minfo.
  Variable q : request.
  Hypothesis Hwf : wf_info mi.
  Hypothesis Hs : schema_conforms mi q.

  Lemma aligned_names : map fst (mi_types mi) = map fst (map col_kw (q_cols q)).
  Proof.
    destruct Hwf as [Hn _]. unfold schema_conforms in Hs. rewrite map_fst_col_kw, Hs. exact Hn.
  Qed.

  Lemma validate_params_aligned :
    validate_params (mi_types mi) (map col_kw (q_cols q)) = None <-> required_nonnull mi q.
  Proof.
    destruct Hwf as [_ Hnd]. rewrite validate_params_none.
    rewrite (aligned_forall params_ok (mi_types mi) Hnd (mi_types mi) _ (incl_refl _) aligned_names).
    unfold required_nonnull. rewrite Forall2_map_r. apply Forall2_impl_iff.
    intros [k pt] [f c]. simpl. destruct c; simpl.
    - split; intro H.
      + intros Ho _. rewrite H in Ho. discriminate.
      + destruct (pt_optional pt); [reflexivity | exfalso; apply H; reflexivity].
    - split; intro H; [intros _ Hc; discriminate | exact I].
  Qed.

  Lemma deser_params_aligned :
    deser_params (c_dbranches std_cfg) (mi_types mi) (map col_kw (q_cols q)) = None <-> values_convert mi q.
  Proof.
    destruct Hwf as [_ Hnd]. rewrite deser_params_none.
    rewrite (aligned_forall deser_ok (mi_types mi) Hnd (mi_types mi) _ (incl_refl _) aligned_names).
    unfold values_convert. rewrite Forall2_map_r. apply Forall2_impl_iff.
    intros [k pt] [f c]. simpl. destruct c; simpl; split; auto.
  Qed.
End Aligned.

(* ------------------------------------------------------------------------------------------------------------ *)
(* _read_request                                                                                                  *)
(* ------------------------------------------------------------------------------------------------------------ *)
Lemma read_request_inr : forall q name kw,
  read_request q = inr (name, kw) <-> framed q name /\ kw = kwargs_of (q_cols q).
Proof.
  intros q name kw. unfold read_request, framed.
  destruct (q_method q) as [| |s] eqn:Em; destruct (q_version q) eqn:Ev;
    try (split; [discriminate | intros [[H1 [H2 _]] _]; discriminate]).
  destruct (q_cols q) as [|c r] eqn:Ec; simpl.
  - split.
    + intro H. inversion H; subst. repeat split; auto.
    + intros [[H1 _] H2]. inversion H1; subst. reflexivity.
  - destruct (q_rows q =? 1) eqn:Er; simpl.
    + apply N.eqb_eq in Er. split.
      * intro H. inversion H; subst. repeat split; auto.
      * intros [[H1 _] H2]. inversion H1; subst. reflexivity.
    + split; [discriminate|]. intros [[_ [_ [H|H]]] _]; [discriminate|].
      rewrite H in Er. discriminate.
Qed.

Lemma read_request_inl_400 : forall q e r, read_request q = inl (e, r) -> isinstance e (c_400 std_cfg) = true.
Proof.
  intros q e r. unfold read_request.
  destruct (q_method q); destruct (q_version q); try (intro H; inversion H; subst; reflexivity).
  destruct (negb (is_nil (q_cols q)) && negb (q_rows q =? 1)); intro H; inversion H; subst; reflexivity.
Qed.

(* ------------------------------------------------------------------------------------------------------------ *)
(* the validation block in the order shape -> nullness -> values                                                  *)
(* ------------------------------------------------------------------------------------------------------------ *)
Lemma run_stages_std_none : forall http mi kw rs,
  run_stages std_cfg http mi kw rs std_order = None <->
  validate_sig std_cfg mi kw rs = None /\ validate_params (mi_types mi) kw = None /\
  deser_params (c_dbranches std_cfg) (mi_types mi) kw = None.
Proof.
  intros http mi kw rs. unfold std_order. cbn [run_stages run_stage].
  destruct (validate_sig std_cfg mi kw rs); [split; [discriminate | intros [H _]; discriminate]|].
  destruct (validate_params (mi_types mi) kw); [split; [discriminate | intros [_ [H _]]; discriminate]|].
  destruct (deser_params (c_dbranches std_cfg) (mi_types mi) kw); [split; [discriminate | intros [_ [_ H]]; discriminate]|].
  split; auto.
Qed.

Lemma stages_iff_conforming : forall http mi q name,
  wf_info mi -> framed q name ->
  (run_stages std_cfg http mi (kwargs_of (q_cols q)) (map fst (q_cols q)) std_order = None <->
   schema_conforms mi q /\ required_nonnull mi q /\ values_convert mi q).
Proof.
  intros http mi q name Hwf Hf. rewrite run_stages_std_none. split.
  - intros [H1 [H2 H3]]. apply validate_sig_sound in H1.
    assert (Hs : schema_conforms mi q) by exact H1.
    destruct (validate_sig_complete mi (q_cols q) Hwf H1) as [_ Hkw]. rewrite Hkw in H2, H3.
    split; [exact Hs|]. split.
    + apply (validate_params_aligned mi q Hwf Hs). exact H2.
    + apply (deser_params_aligned mi q Hwf Hs). exact H3.
  - intros [Hs [Hn Hv]]. destruct (validate_sig_complete mi (q_cols q) Hwf Hs) as [H1 Hkw].
    split; [exact H1|]. rewrite Hkw. split.
    + apply (validate_params_aligned mi q Hwf Hs). exact Hn.
    + apply (deser_params_aligned mi q Hwf Hs). exact Hv.
Qed.

(* when the columns or the nullness do not conform, the block fails with TypeError, whatever the values hold *)
Lemma stages_nonconforming_type_error : forall http mi q name,
  wf_info mi -> framed q name -> ~ (schema_conforms mi q /\ required_nonnull mi q) ->
  exists r, run_stages std_cfg http mi (kwargs_of (q_cols q)) (map fst (q_cols q)) std_order = Some (type_error, r).
Proof.
  intros http mi q name Hwf Hf Hn. unfold std_order. cbn [run_stages run_stage].
  destruct (validate_sig std_cfg mi (kwargs_of (q_cols q)) (map fst (q_cols q))) as [r|] eqn:E1; [eauto|].
  apply validate_sig_sound in E1. assert (Hs : schema_conforms mi q) by exact E1.
  destruct (validate_sig_complete mi (q_cols q) Hwf E1) as [_ Hkw]. rewrite Hkw.
  destruct (validate_params (mi_types mi) (map col_kw (q_cols q))) as [r|] eqn:E2; [eauto|].
  exfalso. apply Hn. split; [exact Hs|]. apply (validate_params_aligned mi q Hwf Hs). exact E2.
Qed.

Lemma stages_some_cases : forall http mi kw rs e r,
  run_stages std_cfg http mi kw rs std_order = Some (e, r) ->
  e = type_error \/
  (validate_sig std_cfg mi kw rs = None /\ validate_params (mi_types mi) kw = None /\
   deser_params (c_dbranches std_cfg) (mi_types mi) kw <> None).
Proof.
  intros http mi kw rs e r. unfold std_order. cbn [run_stages run_stage].
  destruct (validate_sig std_cfg mi kw rs); [intro H; inversion H; left; reflexivity|].
  destruct (validate_params (mi_types mi) kw); [intro H; inversion H; left; reflexivity|].
  destruct (deser_params (c_dbranches std_cfg) (mi_types mi) kw); [|discriminate].
  intros _. right. repeat split; auto. discriminate.
Qed.

Lemma sig_schema_std : forall q, sig_schema std_cfg q = map fst (q_cols q).
Proof. intro q. unfold sig_schema. destruct (q_inline q); reflexivity. Qed.

Lemma find_method_In : forall name ms mi, find_method name ms = Some mi -> In mi ms.
Proof.
  intros name ms. induction ms as [|m r IH]; intros mi H; simpl in *; [discriminate|].
  destruct (str_eqb name (mi_name m)); [inversion H; left; reflexivity | right; apply IH; exact H].
Qed.

(* ------------------------------------------------------------------------------------------------------------ *)
(* serve_one                                                                                                      *)
(* ------------------------------------------------------------------------------------------------------------ *)
Lemma serve_one_invoked : forall ms impl q,
  o_invoked (serve_one std_cfg ms impl q) = true <->
  exists name mi, read_request q = inr (name, kwargs_of (q_cols q)) /\ str_eqb name transport_options = false /\
    find_method name ms = Some mi /\
    run_stages std_cfg false mi (kwargs_of (q_cols q)) (map fst (q_cols q)) std_order = None.
Proof.
  intros ms impl q. unfold serve_one. rewrite sig_schema_std. cbn [c_order_sock std_cfg].
  destruct (read_request q) as [[e r]|[name kw]] eqn:Er.
  - cbn [o_invoked sock_reject]. split; [discriminate | intros [n [mi [H _]]]; discriminate].
  - assert (Hkw : kw = kwargs_of (q_cols q)) by (apply read_request_inr in Er; tauto). subst kw.
    destruct (str_eqb name transport_options) eqn:Et.
    + cbn [o_invoked sock_reject]. split; [discriminate|]. intros [n [mi [H [H2 _]]]]. congruence.
    + destruct (find_method name ms) as [mi|] eqn:Ef.
      * destruct (run_stages std_cfg false mi (kwargs_of (q_cols q)) (map fst (q_cols q)) std_order) as [[e r]|] eqn:Es.
        -- cbn [o_invoked sock_reject]. split; [discriminate|]. intros [n [mi' [H [_ [H3 H4]]]]]. congruence.
        -- split.
           ++ intros _. exists name, mi. repeat split; auto.
           ++ intros _. destruct (impl name (kwargs_of (q_cols q))); reflexivity.
      * cbn [o_invoked sock_reject]. split; [discriminate|]. intros [n [mi' [H [_ [H3 _]]]]]. congruence.
Qed.

Theorem socket_invoked_iff : forall ms impl q, wf_table ms ->
  (o_invoked (serve_one std_cfg ms impl q) = true <->
   exists name mi, name <> transport_options /\ find_method name ms = Some mi /\ conforming mi q name).
Proof.
  intros ms impl q Hwf. rewrite serve_one_invoked. split.
  - intros [name [mi [Hr [Ht [Hf Hs]]]]]. exists name, mi.
    apply read_request_inr in Hr. destruct Hr as [Hfr _].
    assert (Hw : wf_info mi) by (apply Hwf; eapply find_method_In; exact Hf).
    apply (stages_iff_conforming false mi q name Hw Hfr) in Hs. destruct Hs as [H1 [H2 H3]].
    split; [intro; subst; rewrite str_eqb_refl in Ht; discriminate|].
    split; [exact Hf|]. unfold conforming, statement_conforming. tauto.
  - intros [name [mi [Ht [Hf [[Hfr [H1 H2]] H3]]]]]. exists name, mi.
    assert (Hw : wf_info mi) by (apply Hwf; eapply find_method_In; exact Hf).
    split; [apply read_request_inr; split; [exact Hfr | reflexivity]|].
    split; [apply str_eqb_neq; exact Ht|]. split; [exact Hf|].
    apply (stages_iff_conforming false mi q name Hw Hfr). tauto.
Qed.

Lemma conforming_args : forall mi q name, wf_info mi -> conforming mi q name ->
  kwargs_of (q_cols q) = declared_args mi q.
Proof.
  intros mi q name Hwf [[_ [Hs _]] _]. destruct (validate_sig_complete mi (q_cols q) Hwf Hs) as [_ Hkw].
  rewrite Hkw, map_col_kw_combine. unfold declared_args. destruct Hwf as [Hn _]. unfold schema_conforms in Hs.
  rewrite Hs, Hn. reflexivity.
Qed.

Theorem socket_conforming_outcome : forall ms impl q name mi, wf_table ms ->
  name <> transport_options -> find_method name ms = Some mi -> conforming mi q name ->
  serve_one std_cfg ms impl q =
  match impl name (declared_args mi q) with BOk => sock_ok | BRaise e => sock_raised e end.
Proof.
  intros ms impl q name mi Hwf Ht Hf Hc.
  assert (Hw : wf_info mi) by (apply Hwf; eapply find_method_In; exact Hf).
  pose proof (conforming_args mi q name Hw Hc) as Ha.
  destruct Hc as [[Hfr [H1 H2]] H3].
  assert (Hr : read_request q = inr (name, kwargs_of (q_cols q))) by (apply read_request_inr; split; [exact Hfr | reflexivity]).
  assert (Hs : run_stages std_cfg false mi (kwargs_of (q_cols q)) (map fst (q_cols q)) std_order = None).
  { apply (stages_iff_conforming false mi q name Hw Hfr). tauto. }
  unfold serve_one. rewrite sig_schema_std. cbn [c_order_sock std_cfg]. rewrite Hr, (str_eqb_neq _ _ Ht), Hf, Hs, Ha.
  destruct (impl name (declared_args mi q)); reflexivity.
Qed.

Theorem socket_rejected_error_stream : forall ms impl q,
  o_invoked (serve_one std_cfg ms impl q) = false -> q_method q <> MKName transport_options ->
  exists c, o_err (serve_one std_cfg ms impl q) = Some c.
Proof.
  intros ms impl q. unfold serve_one. rewrite sig_schema_std. cbn [c_order_sock std_cfg].
  destruct (read_request q) as [[e r]|[name kw]] eqn:Er.
  - intros _ _. simpl. eauto.
  - apply read_request_inr in Er. destruct Er as [[Hm _] _].
    destruct (str_eqb name transport_options) eqn:Et.
    + intros _ H. exfalso. apply H. apply str_eqb_eq in Et. subst. exact Hm.
    + destruct (find_method name ms) as [mi|]; [|intros _ _; simpl; eauto].
      destruct (run_stages std_cfg false mi kw (map fst (q_cols q)) std_order) as [[e r]|]; [intros _ _; simpl; eauto|].
      destruct (impl name kw); simpl; discriminate.
Qed.

Theorem socket_method_error : forall ms impl q,
  o_invoked (serve_one std_cfg ms impl q) = true ->
  (o_err (serve_one std_cfg ms impl q) = None /\ o_reason (serve_one std_cfg ms impl q) = ROk) \/
  exists name args e, q_method q = MKName name /\ impl name args = BRaise e /\
    o_err (serve_one std_cfg ms impl q) = Some (ecls e).
Proof.
  intros ms impl q. unfold serve_one. rewrite sig_schema_std. cbn [c_order_sock std_cfg].
  destruct (read_request q) as [[e r]|[name kw]] eqn:Er; [simpl; discriminate|].
  apply read_request_inr in Er. destruct Er as [[Hm _] _].
  destruct (str_eqb name transport_options); [simpl; discriminate|].
  destruct (find_method name ms) as [mi|]; [|simpl; discriminate].
  destruct (run_stages std_cfg false mi kw (map fst (q_cols q)) std_order) as [[e r]|]; [simpl; discriminate|].
  destruct (impl name kw) as [|e] eqn:Ei; simpl; intros _.
  - left. split; reflexivity.
  - right. exists name, kw, e. repeat split; auto.
Qed.

(* ------------------------------------------------------------------------------------------------------------ *)
(* HTTP                                                                                                           *)
(* ------------------------------------------------------------------------------------------------------------ *)
Lemma http_reject_400 : forall e r, isinstance e (c_400 std_cfg) = true ->
  http_reject std_cfg e r = {| o_invoked := false; o_status := 400; o_marker := false; o_err := Some (ecls e); o_reason := r |}.
Proof. intros e r H. unfold http_reject. rewrite H. reflexivity. Qed.

Lemma http_reject_other : forall e r, isinstance e (c_400 std_cfg) = false ->
  http_reject std_cfg e r = {| o_invoked := false; o_status := 200; o_marker := true; o_err := Some (ecls e); o_reason := r |}.
Proof. intros e r H. unfold http_reject. rewrite H. reflexivity. Qed.

Lemma http_reject_shape : forall e r,
  o_invoked (http_reject std_cfg e r) = false /\ o_err (http_reject std_cfg e r) = Some (ecls e) /\
  ((o_status (http_reject std_cfg e r) = 400 /\ o_marker (http_reject std_cfg e r) = false) \/
   (o_status (http_reject std_cfg e r) = 200 /\ o_marker (http_reject std_cfg e r) = true /\ isinstance e (c_400 std_cfg) = false)).
Proof.
  intros e r. destruct (isinstance e (c_400 std_cfg)) eqn:E.
  - rewrite (http_reject_400 e r E). simpl. auto.
  - rewrite (http_reject_other e r E). simpl. auto 6.
Qed.

Lemma http_invoked : forall ms impl init url q,
  o_invoked (http_call std_cfg ms impl init url q) = true <->
  exists mi, find_method url ms = Some mi /\ mi_stream mi = init /\
    read_request q = inr (url, kwargs_of (q_cols q)) /\
    run_stages std_cfg true mi (kwargs_of (q_cols q)) (map fst (q_cols q)) std_order = None.
Proof.
  intros ms impl init url q. unfold http_call.
  destruct (find_method url ms) as [mi|] eqn:Ef.
  2:{ simpl. split; [discriminate | intros [mi [H _]]; discriminate]. }
  destruct (xorb init (mi_stream mi)) eqn:Ex.
  { simpl. split; [discriminate|]. intros [mi' [H [H2 _]]]. inversion H; subst. rewrite xorb_nilpotent in Ex. discriminate. }
  assert (Hinit : mi_stream mi = init) by (destruct init, (mi_stream mi); simpl in Ex; congruence).
  destruct (read_request q) as [[e r]|[name kw]] eqn:Er.
  { destruct (http_reject_shape e r) as [H _]. rewrite H. split; [discriminate | intros [mi' [_ [_ [H2 _]]]]; discriminate]. }
  assert (Hkw : kw = kwargs_of (q_cols q)) by (apply read_request_inr in Er; tauto). subst kw.
  destruct (str_eqb name url) eqn:En; simpl negb; cbv iota.
  2:{ destruct (http_reject_shape type_error RUrlMismatch) as [H _]. rewrite H. split; [discriminate|].
      intros [mi' [_ [_ [H2 _]]]]. inversion H2; subst. rewrite str_eqb_refl in En. discriminate. }
  apply str_eqb_eq in En. subst name.
  assert (Ho : (if init then c_order_init std_cfg else c_order_unary std_cfg) = std_order) by (destruct init; reflexivity).
  rewrite Ho.
  destruct (run_stages std_cfg true mi (kwargs_of (q_cols q)) (map fst (q_cols q)) std_order) as [[e r]|] eqn:Es.
  { destruct (http_reject_shape e r) as [H _]. rewrite H. split; [discriminate|].
    intros [mi' [H1 [_ [_ H4]]]]. congruence. }
  split.
  - intros _. exists mi. repeat split; auto.
  - intros _. destruct (impl url (kwargs_of (q_cols q))); reflexivity.
Qed.

Theorem http_invoked_iff : forall ms impl init url q, wf_table ms ->
  (o_invoked (http_call std_cfg ms impl init url q) = true <->
   exists mi, find_method url ms = Some mi /\ mi_stream mi = init /\ conforming mi q url).
Proof.
  intros ms impl init url q Hwf. rewrite http_invoked. split.
  - intros [mi [Hf [Hi [Hr Hs]]]]. exists mi.
    apply read_request_inr in Hr. destruct Hr as [Hfr _].
    assert (Hw : wf_info mi) by (apply Hwf; eapply find_method_In; exact Hf).
    apply (stages_iff_conforming true mi q url Hw Hfr) in Hs.
    split; [exact Hf|]. split; [exact Hi|]. unfold conforming, statement_conforming. tauto.
  - intros [mi [Hf [Hi [[Hfr [H1 H2]] H3]]]]. exists mi.
    assert (Hw : wf_info mi) by (apply Hwf; eapply find_method_In; exact Hf).
    split; [exact Hf|]. split; [exact Hi|].
    split; [apply read_request_inr; split; [exact Hfr | reflexivity]|].
    apply (stages_iff_conforming true mi q url Hw Hfr). tauto.
Qed.

Theorem http_conforming_outcome : forall ms impl q url mi, wf_table ms ->
  find_method url ms = Some mi -> conforming mi q url ->
  http_call std_cfg ms impl (mi_stream mi) url q =
  match impl url (declared_args mi q) with BOk => http_ok | BRaise e => http_raised e end.
Proof.
  intros ms impl q url mi Hwf Hf Hc.
  assert (Hw : wf_info mi) by (apply Hwf; eapply find_method_In; exact Hf).
  pose proof (conforming_args mi q url Hw Hc) as Ha.
  destruct Hc as [[Hfr [H1 H2]] H3].
  assert (Hr : read_request q = inr (url, kwargs_of (q_cols q))) by (apply read_request_inr; split; [exact Hfr | reflexivity]).
  assert (Hs : run_stages std_cfg true mi (kwargs_of (q_cols q)) (map fst (q_cols q)) std_order = None).
  { apply (stages_iff_conforming true mi q url Hw Hfr). tauto. }
  unfold http_call. rewrite Hf, xorb_nilpotent, Hr, str_eqb_refl. simpl negb. cbv iota.
  assert (Ho : (if mi_stream mi then c_order_init std_cfg else c_order_unary std_cfg) = std_order) by (destruct (mi_stream mi); reflexivity).
  rewrite Ho, Hs, Ha. destruct (impl url (declared_args mi q)); reflexivity.
Qed.

(* every request that does not conform in the statement's sense (framing, URL, columns, nullness) is a 400 *)
Theorem http_nonconforming_400 : forall ms impl url q mi, wf_table ms ->
  find_method url ms = Some mi -> ~ statement_conforming mi q url ->
  let o := http_call std_cfg ms impl (mi_stream mi) url q in
  o_invoked o = false /\ o_status o = 400 /\ o_marker o = false /\
  (o_err o = Some cTypeError \/ o_err o = Some cRpcError \/ o_err o = Some cVersionError).
Proof.
  intros ms impl url q mi Hwf Hf Hn.
  assert (Hw : wf_info mi) by (apply Hwf; eapply find_method_In; exact Hf).
  cbv zeta. unfold http_call. rewrite Hf, xorb_nilpotent.
  destruct (read_request q) as [[e r]|[name kw]] eqn:Er.
  - rewrite (http_reject_400 e r (read_request_inl_400 q e r Er)). simpl.
    repeat split; auto. unfold read_request in Er.
    destruct (q_method q); destruct (q_version q); try (inversion Er; subst; simpl; auto; fail).
    destruct (negb (is_nil (q_cols q)) && negb (q_rows q =? 1)); inversion Er; subst; simpl; auto.
  - assert (Hkw : kw = kwargs_of (q_cols q)) by (apply read_request_inr in Er; tauto). subst kw.
    destruct (str_eqb name url) eqn:En; simpl negb; cbv iota.
    2:{ rewrite http_reject_400 by reflexivity. simpl. auto 6. }
    apply str_eqb_eq in En. subst name. apply read_request_inr in Er. destruct Er as [Hfr _].
    assert (Ho : (if mi_stream mi then c_order_init std_cfg else c_order_unary std_cfg) = std_order) by (destruct (mi_stream mi); reflexivity).
    rewrite Ho.
    destruct (stages_nonconforming_type_error true mi q url Hw Hfr) as [r Hr].
    { intros [H1 H2]. apply Hn. unfold statement_conforming. tauto. }
    rewrite Hr. rewrite http_reject_400 by reflexivity. simpl. auto 6.
Qed.

(* all refusals: an error batch always; 400, or 404 for an unknown URL, or -- only when the request conforms in the
   statement's sense and a value does not convert with a class outside the 400 list -- 200 + marker *)
Theorem http_rejected_shape : forall ms impl init url q, wf_table ms ->
  let o := http_call std_cfg ms impl init url q in
  o_invoked o = false ->
  (exists c, o_err o = Some c) /\
  ((o_status o = 400 /\ o_marker o = false) \/
   (o_status o = 404 /\ o_marker o = false /\ find_method url ms = None) \/
   (o_status o = 200 /\ o_marker o = true /\
    exists mi, find_method url ms = Some mi /\ statement_conforming mi q url /\ ~ values_convert mi q)).
Proof.
  intros ms impl init url q Hwf. cbv zeta. unfold http_call.
  destruct (find_method url ms) as [mi|] eqn:Ef.
  2:{ intros _. simpl. split; [eauto|]. right. left. auto. }
  assert (Hw : wf_info mi) by (apply Hwf; eapply find_method_In; exact Ef).
  destruct (xorb init (mi_stream mi)) eqn:Ex.
  { intros _. simpl. split; [eauto|]. left. auto. }
  destruct (read_request q) as [[e r]|[name kw]] eqn:Er.
  { intros _. rewrite (http_reject_400 e r (read_request_inl_400 q e r Er)). simpl. split; [eauto|]. left. auto. }
  assert (Hkw : kw = kwargs_of (q_cols q)) by (apply read_request_inr in Er; tauto). subst kw.
  destruct (str_eqb name url) eqn:En; simpl negb; cbv iota.
  2:{ intros _. rewrite http_reject_400 by reflexivity. simpl. split; [eauto|]. left. auto. }
  apply str_eqb_eq in En. subst name. apply read_request_inr in Er. destruct Er as [Hfr _].
  assert (Ho : (if init then c_order_init std_cfg else c_order_unary std_cfg) = std_order) by (destruct init; reflexivity).
  rewrite Ho.
  destruct (run_stages std_cfg true mi (kwargs_of (q_cols q)) (map fst (q_cols q)) std_order) as [[e r]|] eqn:Es.
  - intros _. destruct (http_reject_shape e r) as [_ [He [[H1 H2]|[H1 [H2 H3]]]]].
    + split; [eauto|]. left. auto.
    + split; [eauto|]. right. right. split; [exact H1|]. split; [exact H2|].
      exists mi. split; [reflexivity|].
      (* the failure is not a TypeError, so shape and nullness passed: it is a value conversion *)
      destruct (stages_some_cases true mi (kwargs_of (q_cols q)) (map fst (q_cols q)) e r Es) as [Hte|[Hv1 [Hv2 Hv3]]].
      * subst e. discriminate.
      * apply validate_sig_sound in Hv1. assert (Hs : schema_conforms mi q) by exact Hv1.
        destruct (validate_sig_complete mi (q_cols q) Hw Hv1) as [_ Hkw]. rewrite Hkw in Hv2, Hv3.
        apply (validate_params_aligned mi q Hw Hs) in Hv2.
        split; [unfold statement_conforming; tauto|].
        intro Hv. apply Hv3. apply (deser_params_aligned mi q Hw Hs). exact Hv.
  - destruct (impl url (kwargs_of (q_cols q))); simpl; discriminate.
Qed.

Theorem http_method_error : forall ms impl init url q,
  o_invoked (http_call std_cfg ms impl init url q) = true ->
  o_status (http_call std_cfg ms impl init url q) = 200 /\
  ((o_marker (http_call std_cfg ms impl init url q) = false /\ o_err (http_call std_cfg ms impl init url q) = None) \/
   (o_marker (http_call std_cfg ms impl init url q) = true /\
    exists args e, impl url args = BRaise e /\ o_err (http_call std_cfg ms impl init url q) = Some (ecls e))).
Proof.
  intros ms impl init url q. unfold http_call.
  destruct (find_method url ms) as [mi|]; [|simpl; discriminate].
  destruct (xorb init (mi_stream mi)); [simpl; discriminate|].
  destruct (read_request q) as [[e r]|[name kw]].
  { destruct (http_reject_shape e r) as [H _]. rewrite H. discriminate. }
  destruct (str_eqb name url); simpl negb; cbv iota.
  2:{ destruct (http_reject_shape type_error RUrlMismatch) as [H _]. rewrite H. discriminate. }
  destruct (run_stages std_cfg true mi kw (map fst (q_cols q)) (if init then c_order_init std_cfg else c_order_unary std_cfg)) as [[e r]|].
  { destruct (http_reject_shape e r) as [H _]. rewrite H. discriminate. }
  destruct (impl url kw) as [|e] eqn:Ei; intros _; simpl.
  - split; [reflexivity|]. left. auto.
  - split; [reflexivity|]. right. split; [reflexivity|]. exists kw, e. auto.
Qed.

Theorem http_400_before_invocation : forall ms impl init url q,
  o_status (http_call std_cfg ms impl init url q) = 400 -> o_invoked (http_call std_cfg ms impl init url q) = false.
Proof.
  intros ms impl init url q H.
  destruct (o_invoked (http_call std_cfg ms impl init url q)) eqn:E; [|reflexivity].
  destruct (http_method_error ms impl init url q E) as [Hs _]. rewrite Hs in H. discriminate.
Qed.

(* a request that leaves out a column -- a defaulted parameter included -- never reaches the method: the server
   does not fill defaults in *)
Theorem fewer_columns_not_invoked : forall ms impl init url q mi, wf_table ms ->
  find_method url ms = Some mi -> q_method q = MKName url -> length (q_cols q) <> length (mi_schema mi) ->
  o_invoked (serve_one std_cfg ms impl q) = false /\ o_invoked (http_call std_cfg ms impl init url q) = false.
Proof.
  intros ms impl init url q mi Hwf Hf Hm Hlen. split.
  - destruct (o_invoked (serve_one std_cfg ms impl q)) eqn:E; [|reflexivity].
    apply (socket_invoked_iff ms impl q Hwf) in E. destruct E as [name [mi' [_ [Hf' [[[Hm' _] [Hs _]] _]]]]].
    rewrite Hm in Hm'. inversion Hm'; subst. rewrite Hf in Hf'. inversion Hf'; subst.
    exfalso. apply Hlen. unfold schema_conforms in Hs. rewrite <- Hs, map_length. reflexivity.
  - destruct (o_invoked (http_call std_cfg ms impl init url q)) eqn:E; [|reflexivity].
    apply (http_invoked_iff ms impl init url q Hwf) in E. destruct E as [mi' [Hf' [_ [[_ [Hs _]] _]]]].
    rewrite Hf in Hf'. inversion Hf'; subst.
    exfalso. apply Hlen. unfold schema_conforms in Hs. rewrite <- Hs, map_length. reflexivity.
Qed.

(* a request routed through shared memory is judged on the batch its arguments are decoded from: the schema of the
   inline pointer batch has no influence on the outcome *)
Definition with_inline (q : request) (i : option (list field)) : request :=
  {| q_method := q_method q; q_version := q_version q; q_cols := q_cols q; q_rows := q_rows q; q_inline := i |}.

Theorem shm_pointer_schema_irrelevant : forall ms impl q i,
  serve_one std_cfg ms impl (with_inline q i) = serve_one std_cfg ms impl (with_inline q None).
Proof. intros ms impl q i. unfold serve_one. rewrite !sig_schema_std. reflexivity. Qed.
