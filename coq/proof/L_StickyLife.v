(* C27: lemmas about model/M_StickyLife.v.  Statements used by prop/P_C27.v are at the end of each part. *)
From Coq Require Import List Arith Bool Lia.
From VGI Require Import M_StickyLife.
Import ListNotations.

(* ------------------------------------------------------------------------------------------------ *)
(* generic list facts                                                                                 *)
(* ------------------------------------------------------------------------------------------------ *)
Lemma filter_filter_imp {A} (f g : A -> bool) (l : list A) :
  (forall x, In x l -> f x = true -> g x = true) -> filter f l = filter f (filter g l).
Proof.
  induction l as [|a l IH]; intros H; simpl; [reflexivity|].
  destruct (f a) eqn:Fa.
  - rewrite (H a (or_introl eq_refl) Fa). simpl. rewrite Fa. f_equal. apply IH. intros x Hx; apply H; right; exact Hx.
  - destruct (g a); simpl; [rewrite Fa|]; apply IH; intros x Hx; apply H; right; exact Hx.
Qed.

Lemma filter_comm {A} (f g : A -> bool) (l : list A) : filter f (filter g l) = filter g (filter f l).
Proof.
  induction l as [|a l IH]; simpl; [reflexivity|].
  destruct (g a) eqn:Ga, (f a) eqn:Fa; simpl; rewrite ?Ga, ?Fa, IH; reflexivity.
Qed.

Lemma filter_all_false {A} (f : A -> bool) (l : list A) : (forall x, In x l -> f x = false) -> filter f l = [].
Proof.
  induction l as [|a l IH]; intros H; simpl; [reflexivity|].
  rewrite (H a (or_introl eq_refl)). apply IH. intros x Hx; apply H; right; exact Hx.
Qed.

Lemma filter_all_true {A} (f : A -> bool) (l : list A) : (forall x, In x l -> f x = true) -> filter f l = l.
Proof.
  induction l as [|a l IH]; intros H; simpl; [reflexivity|].
  rewrite (H a (or_introl eq_refl)). f_equal. apply IH. intros x Hx; apply H; right; exact Hx.
Qed.

Lemma Forall_filter_keep {A} (P : A -> Prop) (f : A -> bool) (l : list A) : Forall P l -> Forall P (filter f l).
Proof.
  intros H. apply Forall_forall. intros x Hx. apply filter_In in Hx as [Hx _].
  rewrite Forall_forall in H. apply H; exact Hx.
Qed.

Lemma Forall_repeat {A} (P : A -> Prop) (x : A) (n : nat) : P x -> Forall P (repeat x n).
Proof. intros H. induction n as [|n IH]; simpl; constructor; assumption. Qed.

Lemma nth_error_repeat {A} (x : A) (n i : nat) : i < n -> nth_error (repeat x n) i = Some x.
Proof.
  revert i. induction n as [|n IH]; intros i H; [lia|].
  destruct i as [|i]; simpl; [reflexivity|]. apply IH. lia.
Qed.

Lemma mem_true_iff x l : mem x l = true <-> In x l.
Proof.
  unfold mem. rewrite existsb_exists. split.
  - intros [y [Hy E]]. apply Nat.eqb_eq in E. subst; exact Hy.
  - intros H. exists x. split; [exact H | apply Nat.eqb_refl].
Qed.

Lemma onat_eqb_some t s : onat_eqb t (Some s) = true <-> t = Some s.
Proof.
  destruct t as [x|]; simpl; split; intros H; try discriminate.
  - apply Nat.eqb_eq in H. subst; reflexivity.
  - inversion H; subst. apply Nat.eqb_refl.
Qed.

Lemma in_opt_list o x : In x (opt_list o) <-> o = Some x.
Proof.
  destruct o as [y|]; simpl; split; intros H.
  - destruct H as [H|[]]. subst; reflexivity.
  - inversion H; subst. left; reflexivity.
  - destruct H.
  - discriminate.
Qed.

(* ------------------------------------------------------------------------------------------------ *)
(* Part A: one request against the server (cfg_model)                                                 *)
(* ------------------------------------------------------------------------------------------------ *)
Lemma do_open_model accept st :
  do_open cfg_model accept st =
  if accept then
    match r_ctx st with
    | Some _ => (st, ERuntime)
    | None =>
        if draining (r_srv st) then (st, EDraining)
        else (mkRst (mkServer (reg (r_srv st) ++ [next (r_srv st)]) (S (next (r_srv st))) (draining (r_srv st)))
                    (Some (next (r_srv st))) (mkSink (Some (next (r_srv st))) false) (r_log st), ENone)
    end
  else (st, ERuntime).
Proof.
  unfold do_open. simpl. destruct accept; simpl; [|reflexivity].
  destruct (r_ctx st); simpl; [reflexivity|].
  destruct (draining (r_srv st)) eqn:D; simpl; try rewrite D; reflexivity.
Qed.

Lemma do_close_model st :
  do_close cfg_model st =
  (mkRst match r_ctx st with
         | Some x => mkServer (remove_sid x (reg (r_srv st))) (next (r_srv st)) (draining (r_srv st))
         | None => r_srv st
         end None (mkSink None true) (r_log st), ENone).
Proof. reflexivity. Qed.

Lemma do_open_refused accept st :
  accept = false \/ draining (r_srv st) = true ->
  do_open cfg_model accept st = (st, ERuntime) \/ do_open cfg_model accept st = (st, EDraining).
Proof.
  intros H. rewrite do_open_model. destruct H as [H|H].
  - subst accept. left; reflexivity.
  - destruct accept; [|left; reflexivity]. destruct (r_ctx st); [left; reflexivity|]. rewrite H. right; reflexivity.
Qed.

(* no request registers a session without the opt-in, or while draining *)
Lemma run_acts_no_open accept : forall acts st,
  accept = false \/ draining (r_srv st) = true ->
  next (r_srv (fst (run_acts cfg_model accept st acts))) = next (r_srv st) /\
  draining (r_srv (fst (run_acts cfg_model accept st acts))) = draining (r_srv st) /\
  incl (reg (r_srv (fst (run_acts cfg_model accept st acts)))) (reg (r_srv st)).
Proof.
  induction acts as [|a acts IH]; intros st H; cbn [run_acts].
  - repeat split; try reflexivity. apply incl_refl.
  - destruct a; cbn [do_action].
    + (* open: refused *)
      destruct (do_open_refused accept st H) as [E|E]; rewrite E; simpl; repeat split; try reflexivity; apply incl_refl.
    + rewrite do_close_model.
      set (st' := mkRst _ None (mkSink None true) (r_log st)).
      assert (Hd : draining (r_srv st') = draining (r_srv st)) by (subst st'; simpl; destruct (r_ctx st); reflexivity).
      assert (Hn : next (r_srv st') = next (r_srv st)) by (subst st'; simpl; destruct (r_ctx st); reflexivity).
      assert (Hi : incl (reg (r_srv st')) (reg (r_srv st))).
      { subst st'; simpl; destruct (r_ctx st); simpl; [|apply incl_refl]. unfold remove_sid. apply incl_filter. }
      destruct (IH st') as [A [B C]]; [rewrite Hd; exact H|].
      rewrite A, B, Hn, Hd. repeat split; try reflexivity. eapply incl_tran; eassumption.
    + apply (IH (mkRst (r_srv st) (r_ctx st) (r_sink st) (r_log st ++ [r_ctx st]))). exact H.
    + apply IH. exact H.
Qed.

Lemma serve_no_open s r :
  rq_accept r = false \/ draining s = true ->
  next (fst (serve cfg_model s r)) = next s /\ incl (reg (fst (serve cfg_model s r))) (reg s).
Proof.
  intros H. unfold serve.
  assert (D : forall ctx, next (fst (dispatch cfg_model s ctx r)) = next s /\ incl (reg (fst (dispatch cfg_model s ctx r))) (reg s)).
  { intros ctx. unfold dispatch.
    pose proof (run_acts_no_open (rq_accept r) (rq_acts r) (mkRst s ctx (mkSink None false) []) H) as [A [_ C]].
    destruct (run_acts cfg_model (rq_accept r) (mkRst s ctx (mkSink None false) []) (rq_acts r)) as [st e]. simpl in *.
    split; assumption. }
  destruct (rq_tok r) as [t|]; [|apply D].
  destruct (mem t (reg s)); [apply D|]. simpl. split; [reflexivity | apply incl_refl].
Qed.

Lemma open_only_with_accept_and_not_draining s r x :
  In x (reg (fst (serve cfg_model s r))) -> ~ In x (reg s) -> rq_accept r = true /\ draining s = false.
Proof.
  intros Hin Hnot.
  destruct (rq_accept r) eqn:A, (draining s) eqn:D; try (split; reflexivity); exfalso; apply Hnot;
    (apply (proj2 (serve_no_open s r ltac:(first [left; exact A | right; exact D]))); exact Hin).
Qed.

Lemma no_new_id_without_accept_or_draining s r :
  rq_accept r = false \/ draining s = true -> next (fst (serve cfg_model s r)) = next s.
Proof. intros H. apply serve_no_open; exact H. Qed.

(* an open attempt that passed the opt-in and not-bound tests while draining is refused as server_draining *)
Lemma draining_open_refused st :
  draining (r_srv st) = true -> r_ctx st = None -> do_action cfg_model true st AOpen = (st, EDraining).
Proof. intros D C. simpl. rewrite do_open_model, C, D. reflexivity. Qed.

Lemma draining_first_open_request s acts :
  draining s = true ->
  serve cfg_model s (mkReq None true (AOpen :: acts)) = (s, mkResp None false EDraining []).
Proof.
  intros D. unfold serve, dispatch. cbn [rq_tok rq_accept rq_acts run_acts].
  rewrite (draining_open_refused (mkRst s None (mkSink None false) []) D eq_refl). reflexivity.
Qed.

(* server_draining is only ever answered by a draining worker *)
Lemma first_err_draining gs accept st : first_err gs accept st = Some EDraining -> draining (r_srv st) = true.
Proof.
  induction gs as [|g gs IH]; simpl; [discriminate|].
  destruct g; simpl.
  - exact IH.
  - destruct accept; [exact IH | discriminate].
  - destruct (r_ctx st); [discriminate | exact IH].
  - destruct (draining (r_srv st)); [reflexivity | exact IH].
Qed.

Lemma first_err_not_lost gs accept st : first_err gs accept st <> Some ELost /\ first_err gs accept st <> Some ENone.
Proof.
  induction gs as [|g gs IH]; simpl; [split; discriminate|].
  destruct g; simpl.
  - exact IH.
  - destruct accept; [exact IH | split; discriminate].
  - destruct (r_ctx st); [split; discriminate | exact IH].
  - destruct (draining (r_srv st)); [split; discriminate | exact IH].
Qed.

Lemma do_action_draining_flag c accept st a :
  draining (r_srv (fst (do_action c accept st a))) = draining (r_srv st).
Proof.
  destruct a; simpl; try reflexivity.
  - unfold do_open. destruct (first_err (c_open_guards c) accept st); reflexivity.
  - destruct (r_ctx st); reflexivity.
Qed.

Lemma run_acts_draining_err c accept : forall acts st,
  snd (run_acts c accept st acts) = EDraining -> draining (r_srv st) = true.
Proof.
  induction acts as [|a acts IH]; intros st H; cbn [run_acts] in H; [discriminate|].
  pose proof (do_action_draining_flag c accept st a) as Hd.
  destruct (do_action c accept st a) as [st' e] eqn:E. simpl in Hd.
  destruct e; simpl in H; try discriminate.
  - rewrite <- Hd. apply IH. exact H.
  - (* the action itself answered EDraining: only open can *)
    destruct a; simpl in E; try (inversion E; fail).
    unfold do_open in E. destruct (first_err (c_open_guards c) accept st) eqn:F; inversion E; subst.
    eapply first_err_draining. exact F.
Qed.

Lemma server_draining_only_while_draining c s r :
  rs_err (snd (serve c s r)) = EDraining -> draining s = true.
Proof.
  unfold serve. intros H.
  assert (D : forall ctx, rs_err (snd (dispatch c s ctx r)) = EDraining -> draining s = true).
  { intros ctx. unfold dispatch.
    pose proof (run_acts_draining_err c (rq_accept r) (rq_acts r) (mkRst s ctx (mkSink None false) [])) as R.
    destruct (run_acts c (rq_accept r) (mkRst s ctx (mkSink None false) []) (rq_acts r)) as [st e]. simpl in *. exact R. }
  destruct (rq_tok r) as [t|]; [|apply (D None); exact H].
  destruct (mem t (reg s)); [apply (D (Some t)); exact H | simpl in H; discriminate].
Qed.

(* ---- drain does not change the service of requests that do not open ---- *)
Definition set_dr (b : bool) (s : server) : server := mkServer (reg s) (next s) b.
Definition set_dr_st (b : bool) (st : rst) : rst := mkRst (set_dr b (r_srv st)) (r_ctx st) (r_sink st) (r_log st).

Lemma run_acts_drain_indep c accept b : forall acts st,
  ~ In AOpen acts ->
  run_acts c accept (set_dr_st b st) acts =
  (set_dr_st b (fst (run_acts c accept st acts)), snd (run_acts c accept st acts)).
Proof.
  induction acts as [|a acts IH]; intros st H; cbn [run_acts]; [reflexivity|].
  assert (Ha : a <> AOpen) by (intros E; apply H; left; exact E).
  assert (Hr : ~ In AOpen acts) by (intros E; apply H; right; exact E).
  destruct a; cbn [do_action]; try congruence.
  - unfold do_close.
    replace (r_ctx (set_dr_st b st)) with (r_ctx st) by reflexivity.
    destruct (r_ctx st) as [x|]; cbn [fst snd].
    + exact (IH (mkRst (mkServer (remove_sid x (reg (r_srv st))) (next (r_srv st)) (draining (r_srv st))) None
                       (apply_upds None (r_sink st) (c_sink_close c)) (r_log st)) Hr).
    + exact (IH (mkRst (r_srv st) None (apply_upds None (r_sink st) (c_sink_close c)) (r_log st)) Hr).
  - apply (IH (mkRst (r_srv st) (r_ctx st) (r_sink st) (r_log st ++ [r_ctx st])) Hr).
  - apply (IH st Hr).
Qed.

Lemma drain_does_not_change_service c s r b :
  ~ In AOpen (rq_acts r) ->
  serve c (set_dr b s) r = (set_dr b (fst (serve c s r)), snd (serve c s r)).
Proof.
  intros H. unfold serve. replace (reg (set_dr b s)) with (reg s) by reflexivity.
  assert (D : forall ctx, dispatch c (set_dr b s) ctx r = (set_dr b (fst (dispatch c s ctx r)), snd (dispatch c s ctx r))).
  { intros ctx. unfold dispatch.
    pose proof (run_acts_drain_indep c (rq_accept r) b (rq_acts r) (mkRst s ctx (mkSink None false) []) H) as R.
    unfold set_dr_st in R at 1. cbn [r_srv r_ctx r_sink r_log] in R. rewrite R.
    destruct (run_acts c (rq_accept r) (mkRst s ctx (mkSink None false) []) (rq_acts r)) as [st e]. reflexivity. }
  destruct (rq_tok r) as [t|]; [|apply D].
  destruct (mem t (reg s)); [apply D | reflexivity].
Qed.

(* ---- a presented live token is always dispatched on its session (draining or not) ---- *)
Lemma run_acts_not_lost c accept : forall acts st, snd (run_acts c accept st acts) <> ELost.
Proof.
  induction acts as [|a acts IH]; intros st; cbn [run_acts]; [discriminate|].
  destruct (do_action c accept st a) as [st' e] eqn:E.
  destruct e; simpl; try discriminate; [apply IH|].
  destruct a; simpl in E; try (inversion E; fail).
  unfold do_open in E. destruct (first_err_not_lost (c_open_guards c) accept st) as [A _].
  destruct (first_err (c_open_guards c) accept st) eqn:F; inversion E; subst; congruence.
Qed.

Lemma run_acts_log_prefix c accept : forall acts st,
  exists l, r_log (fst (run_acts c accept st acts)) = r_log st ++ l.
Proof.
  induction acts as [|a acts IH]; intros st; cbn [run_acts].
  - exists []. rewrite app_nil_r. reflexivity.
  - destruct (do_action c accept st a) as [st' e] eqn:E.
    assert (Hl : exists l0, r_log st' = r_log st ++ l0).
    { destruct a; simpl in E.
      - unfold do_open in E. destruct (first_err (c_open_guards c) accept st); inversion E; subst; simpl; exists []; rewrite app_nil_r; reflexivity.
      - unfold do_close in E. inversion E; subst; simpl. exists []; rewrite app_nil_r; reflexivity.
      - inversion E; subst; simpl. exists [r_ctx st]. reflexivity.
      - inversion E; subst. exists []; rewrite app_nil_r; reflexivity. }
    destruct Hl as [l0 Hl0].
    destruct e; simpl; try (exists l0; exact Hl0).
    destruct (IH st') as [l1 Hl1]. exists (l0 ++ l1). rewrite Hl1, Hl0, app_assoc. reflexivity.
Qed.

Lemma existing_serve_during_drain c s r t :
  rq_tok r = Some t -> In t (reg s) ->
  rs_err (snd (serve c s r)) <> ELost /\
  (forall acts', rq_acts r = ARes :: acts' -> exists l, rs_log (snd (serve c s r)) = Some t :: l).
Proof.
  intros Ht Hin. unfold serve. rewrite Ht. apply mem_true_iff in Hin. rewrite Hin.
  unfold dispatch. split.
  - pose proof (run_acts_not_lost c (rq_accept r) (rq_acts r) (mkRst s (Some t) (mkSink None false) [])) as R.
    destruct (run_acts c (rq_accept r) (mkRst s (Some t) (mkSink None false) []) (rq_acts r)) as [st e]. exact R.
  - intros acts' Ea. rewrite Ea. cbn [run_acts do_action r_srv r_ctx r_sink r_log app].
    destruct (run_acts_log_prefix c (rq_accept r) acts' (mkRst s (Some t) (mkSink None false) [Some t])) as [l Hl].
    destruct (run_acts c (rq_accept r) (mkRst s (Some t) (mkSink None false) [Some t]) acts') as [st e].
    exists l. exact Hl.
Qed.
