(* C27: lemmas about model/M_StickyLife.v.  Statements used by prop/P_C27.v are at the end of each part. *)
From Coq Require Import List Arith Bool Lia.
From VGI Require Import M_StickyLife.
Import ListNotations.

(* ------------------------------------------------------------------------------------------------ *)
(* generic list facts                                                                                 *)
(* ------------------------------------------------------------------------------------------------ *)
Lemma filter_filter_imp {A} (f g : A -> bool) (l : list A) :
  (forall x, In x l -> f x = true -> g x = true) -> filter f l = filter f (filter g l).
Proof.
  induction l as [|a l IH]; intros H; simpl; [reflexivity|].
  destruct (f a) eqn:Fa.
  - rewrite (H a (or_introl eq_refl) Fa). simpl. rewrite Fa. f_equal. apply IH. intros x Hx; apply H; right; exact Hx.
  - destruct (g a); simpl; [rewrite Fa|]; apply IH; intros x Hx; apply H; right; exact Hx.
Qed.

Lemma filter_comm {A} (f g : A -> bool) (l : list A) : filter f (filter g l) = filter g (filter f l).
Proof.
  induction l as [|a l IH]; simpl; [reflexivity|].
  destruct (g a) eqn:Ga, (f a) eqn:Fa; simpl; rewrite ?Ga, ?Fa, IH; reflexivity.
Qed.

Lemma filter_all_false {A} (f : A -> bool) (l : list A) : (forall x, In x l -> f x = false) -> filter f l = [].
Proof.
  induction l as [|a l IH]; intros H; simpl; [reflexivity|].
  rewrite (H a (or_introl eq_refl)). apply IH. intros x Hx; apply H; right; exact Hx.
Qed.

Lemma filter_all_true {A} (f : A -> bool) (l : list A) : (forall x, In x l -> f x = true) -> filter f l = l.
Proof.
  induction l as [|a l IH]; intros H; simpl; [reflexivity|].
  rewrite (H a (or_introl eq_refl)). f_equal. apply IH. intros x Hx; apply H; right; exact Hx.
Qed.

Lemma Forall_filter_keep {A} (P : A -> Prop) (f : A -> bool) (l : list A) : Forall P l -> Forall P (filter f l).
Proof.
  intros H. apply Forall_forall. intros x Hx. apply filter_In in Hx as [Hx _].
  rewrite Forall_forall in H. apply H; exact Hx.
Qed.

Lemma Forall_repeat {A} (P : A -> Prop) (x : A) (n : nat) : P x -> Forall P (repeat x n).
Proof. intros H. induction n as [|n IH]; simpl; constructor; assumption. Qed.

Lemma nth_error_repeat {A} (x : A) (n i : nat) : i < n -> nth_error (repeat x n) i = Some x.
Proof.
  revert i. induction n as [|n IH]; intros i H; [lia|].
  destruct i as [|i]; simpl; [reflexivity|]. apply IH. lia.
Qed.

Lemma mem_true_iff x l : mem x l = true <-> In x l.
Proof.
  unfold mem. rewrite existsb_exists. split.
  - intros [y [Hy E]]. apply Nat.eqb_eq in E. subst; exact Hy.
  - intros H. exists x. split; [exact H | apply Nat.eqb_refl].
Qed.

Lemma onat_eqb_some t s : onat_eqb t (Some s) = true <-> t = Some s.
Proof.
  destruct t as [x|]; simpl; split; intros H; try discriminate.
  - apply Nat.eqb_eq in H. subst; reflexivity.
  - inversion H; subst. apply Nat.eqb_refl.
Qed.

Lemma in_opt_list o x : In x (opt_list o) <-> o = Some x.
Proof.
  destruct o as [y|]; simpl; split; intros H.
  - destruct H as [H|[]]. subst; reflexivity.
  - inversion H; subst. left; reflexivity.
  - destruct H.
  - discriminate.
Qed.

(* ------------------------------------------------------------------------------------------------ *)
(* facts that hold for every cfg                                                                      *)
(* ------------------------------------------------------------------------------------------------ *)
(* server_draining is only ever answered by a draining worker *)
Lemma first_err_draining gs accept st : first_err gs accept st = Some EDraining -> draining (r_srv st) = true.
Proof.
  induction gs as [|g gs IH]; simpl; [discriminate|].
  destruct g; simpl.
  - exact IH.
  - destruct accept; [exact IH | discriminate].
  - destruct (r_ctx st); [discriminate | exact IH].
  - destruct (draining (r_srv st)); [reflexivity | exact IH].
Qed.

Lemma first_err_not_lost gs accept st : first_err gs accept st <> Some ELost /\ first_err gs accept st <> Some ENone.
Proof.
  induction gs as [|g gs IH]; simpl; [split; discriminate|].
  destruct g; simpl.
  - exact IH.
  - destruct accept; [exact IH | split; discriminate].
  - destruct (r_ctx st); [split; discriminate | exact IH].
  - destruct (draining (r_srv st)); [split; discriminate | exact IH].
Qed.

Lemma do_action_draining_flag c accept st a :
  draining (r_srv (fst (do_action c accept st a))) = draining (r_srv st).
Proof.
  destruct a; simpl; try reflexivity.
  - unfold do_open. destruct (first_err (c_open_guards c) accept st); reflexivity.
  - destruct (r_ctx st); reflexivity.
Qed.

Lemma run_acts_draining_err c accept : forall acts st,
  snd (run_acts c accept st acts) = EDraining -> draining (r_srv st) = true.
Proof.
  induction acts as [|a acts IH]; intros st H; cbn [run_acts] in H; [discriminate|].
  pose proof (do_action_draining_flag c accept st a) as Hd.
  destruct (do_action c accept st a) as [st' e] eqn:E. simpl in Hd.
  destruct e; simpl in H; try discriminate.
  - rewrite <- Hd. apply IH. exact H.
  - (* the action itself answered EDraining: only open can *)
    destruct a; simpl in E; try (inversion E; fail).
    unfold do_open in E. destruct (first_err (c_open_guards c) accept st) eqn:F; inversion E; subst.
    eapply first_err_draining. exact F.
Qed.

Lemma server_draining_only_while_draining c s r :
  rs_err (snd (serve c s r)) = EDraining -> draining s = true.
Proof.
  unfold serve. intros H.
  assert (D : forall ctx, rs_err (snd (dispatch c s ctx r)) = EDraining -> draining s = true).
  { intros ctx. unfold dispatch.
    pose proof (run_acts_draining_err c (rq_accept r) (rq_acts r) (mkRst s ctx (mkSink None false) [])) as R.
    destruct (run_acts c (rq_accept r) (mkRst s ctx (mkSink None false) []) (rq_acts r)) as [st e]. simpl in *. exact R. }
  destruct (rq_tok r) as [t|]; [|apply (D None); exact H].
  destruct (mem t (reg s)); [apply (D (Some t)); exact H | simpl in H; discriminate].
Qed.

(* ---- drain does not change the service of requests that do not open ---- *)
Definition set_dr (b : bool) (s : server) : server := mkServer (reg s) (next s) b.
Definition set_dr_st (b : bool) (st : rst) : rst := mkRst (set_dr b (r_srv st)) (r_ctx st) (r_sink st) (r_log st).

Lemma run_acts_drain_indep c accept b : forall acts st,
  ~ In AOpen acts ->
  run_acts c accept (set_dr_st b st) acts =
  (set_dr_st b (fst (run_acts c accept st acts)), snd (run_acts c accept st acts)).
Proof.
  induction acts as [|a acts IH]; intros st H; cbn [run_acts]; [reflexivity|].
  assert (Ha : a <> AOpen) by (intros E; apply H; left; exact E).
  assert (Hr : ~ In AOpen acts) by (intros E; apply H; right; exact E).
  destruct a; cbn [do_action]; try congruence.
  - unfold do_close.
    replace (r_ctx (set_dr_st b st)) with (r_ctx st) by reflexivity.
    destruct (r_ctx st) as [x|]; cbn [fst snd].
    + exact (IH (mkRst (mkServer (remove_sid x (reg (r_srv st))) (next (r_srv st)) (draining (r_srv st))) None
                       (apply_upds None (r_sink st) (c_sink_close c)) (r_log st)) Hr).
    + exact (IH (mkRst (r_srv st) None (apply_upds None (r_sink st) (c_sink_close c)) (r_log st)) Hr).
  - apply (IH (mkRst (r_srv st) (r_ctx st) (r_sink st) (r_log st ++ [r_ctx st])) Hr).
  - apply (IH st Hr).
Qed.

Lemma drain_does_not_change_service c s r b :
  ~ In AOpen (rq_acts r) ->
  serve c (set_dr b s) r = (set_dr b (fst (serve c s r)), snd (serve c s r)).
Proof.
  intros H. unfold serve. replace (reg (set_dr b s)) with (reg s) by reflexivity.
  assert (D : forall ctx, dispatch c (set_dr b s) ctx r = (set_dr b (fst (dispatch c s ctx r)), snd (dispatch c s ctx r))).
  { intros ctx. unfold dispatch.
    pose proof (run_acts_drain_indep c (rq_accept r) b (rq_acts r) (mkRst s ctx (mkSink None false) []) H) as R.
    unfold set_dr_st in R at 1. cbn [r_srv r_ctx r_sink r_log] in R. rewrite R.
    destruct (run_acts c (rq_accept r) (mkRst s ctx (mkSink None false) []) (rq_acts r)) as [st e]. reflexivity. }
  destruct (rq_tok r) as [t|]; [|apply D].
  destruct (mem t (reg s)); [apply D | reflexivity].
Qed.

(* ---- a presented live token is always dispatched on its session (draining or not) ---- *)
Lemma run_acts_not_lost c accept : forall acts st, snd (run_acts c accept st acts) <> ELost.
Proof.
  induction acts as [|a acts IH]; intros st; cbn [run_acts]; [discriminate|].
  destruct (do_action c accept st a) as [st' e] eqn:E.
  destruct e; simpl; try discriminate; [apply IH|].
  destruct a; simpl in E; try (inversion E; fail).
  unfold do_open in E. destruct (first_err_not_lost (c_open_guards c) accept st) as [A _].
  destruct (first_err (c_open_guards c) accept st) eqn:F; inversion E; subst; congruence.
Qed.

Lemma run_acts_log_prefix c accept : forall acts st,
  exists l, r_log (fst (run_acts c accept st acts)) = r_log st ++ l.
Proof.
  induction acts as [|a acts IH]; intros st; cbn [run_acts].
  - exists []. rewrite app_nil_r. reflexivity.
  - destruct (do_action c accept st a) as [st' e] eqn:E.
    assert (Hl : exists l0, r_log st' = r_log st ++ l0).
    { destruct a; simpl in E.
      - unfold do_open in E. destruct (first_err (c_open_guards c) accept st); inversion E; subst; simpl; exists []; rewrite app_nil_r; reflexivity.
      - unfold do_close in E. inversion E; subst; simpl. exists []; rewrite app_nil_r; reflexivity.
      - inversion E; subst; simpl. exists [r_ctx st]. reflexivity.
      - inversion E; subst. exists []; rewrite app_nil_r; reflexivity. }
    destruct Hl as [l0 Hl0].
    destruct e; simpl; try (exists l0; exact Hl0).
    destruct (IH st') as [l1 Hl1]. exists (l0 ++ l1). rewrite Hl1, Hl0, app_assoc. reflexivity.
Qed.

Lemma existing_serve_during_drain c s r t :
  rq_tok r = Some t -> In t (reg s) ->
  rs_err (snd (serve c s r)) <> ELost /\
  (forall acts', rq_acts r = ARes :: acts' -> exists l, rs_log (snd (serve c s r)) = Some t :: l).
Proof.
  intros Ht Hin. unfold serve. rewrite Ht. apply mem_true_iff in Hin. rewrite Hin.
  unfold dispatch. split.
  - pose proof (run_acts_not_lost c (rq_accept r) (rq_acts r) (mkRst s (Some t) (mkSink None false) [])) as R.
    destruct (run_acts c (rq_accept r) (mkRst s (Some t) (mkSink None false) []) (rq_acts r)) as [st e]. exact R.
  - intros acts' Ea. rewrite Ea. cbn [run_acts do_action r_srv r_ctx r_sink r_log app].
    destruct (run_acts_log_prefix c (rq_accept r) acts' (mkRst s (Some t) (mkSink None false) [Some t])) as [l Hl].
    destruct (run_acts c (rq_accept r) (mkRst s (Some t) (mkSink None false) [Some t]) acts') as [st e].
    exists l. exact Hl.
Qed.

(* ------------------------------------------------------------------------------------------------ *)
(* Part A: one request against the server, for every cfg with the source's guard order              *)
(* ------------------------------------------------------------------------------------------------ *)
(* What the theorems need of the regenerated programs (checked for gen_cfg in tie/T_StickyLife.v):
   whatever the sink held before, after _StickySink.open the emitted headers make the client hold the new token,
   after _StickySink.close they make it hold none, a fresh sink and a response without session headers leave the
   view alone. *)
Definition good_cfg (c : cfg) : Prop :=
  forall (t0 : option nat) (k : sink) (n : nat),
    capture c t0 (emit c (apply_upds (Some n) k (c_sink_open c))) = Some n /\
    capture c t0 (emit c (apply_upds None k (c_sink_close c))) = None /\
    capture c t0 (emit c (mkSink None false)) = t0 /\
    capture c t0 (None, false) = t0.

Definition model_guards : list guard := [GNoSink; GNotAccept; GBound; GDraining].

Section Good.
Variable c : cfg.
Hypothesis Hguards : c_open_guards c = model_guards.

Lemma do_open_model accept st :
  do_open c accept st =
  if accept then
    match r_ctx st with
    | Some _ => (st, ERuntime)
    | None =>
        if draining (r_srv st) then (st, EDraining)
        else (mkRst (mkServer (reg (r_srv st) ++ [next (r_srv st)]) (S (next (r_srv st))) (draining (r_srv st)))
                    (Some (next (r_srv st))) (apply_upds (Some (next (r_srv st))) (r_sink st) (c_sink_open c)) (r_log st), ENone)
    end
  else (st, ERuntime).
Proof.
  unfold do_open. rewrite Hguards. unfold model_guards. simpl. destruct accept; simpl; [|reflexivity].
  destruct (r_ctx st); simpl; [reflexivity|].
  destruct (draining (r_srv st)) eqn:D; simpl; try rewrite D; reflexivity.
Qed.

Lemma do_close_model st :
  do_close c st =
  (mkRst match r_ctx st with
         | Some x => mkServer (remove_sid x (reg (r_srv st))) (next (r_srv st)) (draining (r_srv st))
         | None => r_srv st
         end None (apply_upds None (r_sink st) (c_sink_close c)) (r_log st), ENone).
Proof. reflexivity. Qed.

Lemma do_open_refused accept st :
  accept = false \/ draining (r_srv st) = true ->
  do_open c accept st = (st, ERuntime) \/ do_open c accept st = (st, EDraining).
Proof.
  intros H. rewrite do_open_model. destruct H as [H|H].
  - subst accept. left; reflexivity.
  - destruct accept; [|left; reflexivity]. destruct (r_ctx st); [left; reflexivity|]. rewrite H. right; reflexivity.
Qed.

(* no request registers a session without the opt-in, or while draining *)
Lemma run_acts_no_open accept : forall acts st,
  accept = false \/ draining (r_srv st) = true ->
  next (r_srv (fst (run_acts c accept st acts))) = next (r_srv st) /\
  draining (r_srv (fst (run_acts c accept st acts))) = draining (r_srv st) /\
  incl (reg (r_srv (fst (run_acts c accept st acts)))) (reg (r_srv st)).
Proof.
  induction acts as [|a acts IH]; intros st H; cbn [run_acts].
  - repeat split; try reflexivity. apply incl_refl.
  - destruct a; cbn [do_action].
    + (* open: refused *)
      destruct (do_open_refused accept st H) as [E|E]; rewrite E; simpl; repeat split; try reflexivity; apply incl_refl.
    + rewrite do_close_model.
      set (st' := mkRst _ None _ (r_log st)).
      assert (Hd : draining (r_srv st') = draining (r_srv st)) by (subst st'; simpl; destruct (r_ctx st); reflexivity).
      assert (Hn : next (r_srv st') = next (r_srv st)) by (subst st'; simpl; destruct (r_ctx st); reflexivity).
      assert (Hi : incl (reg (r_srv st')) (reg (r_srv st))).
      { subst st'; simpl; destruct (r_ctx st); simpl; [|apply incl_refl]. unfold remove_sid. apply incl_filter. }
      destruct (IH st') as [A [B C]]; [rewrite Hd; exact H|].
      rewrite A, B, Hn, Hd. repeat split; try reflexivity. eapply incl_tran; eassumption.
    + apply (IH (mkRst (r_srv st) (r_ctx st) (r_sink st) (r_log st ++ [r_ctx st]))). exact H.
    + apply IH. exact H.
Qed.

Lemma serve_no_open s r :
  rq_accept r = false \/ draining s = true ->
  next (fst (serve c s r)) = next s /\ incl (reg (fst (serve c s r))) (reg s).
Proof.
  intros H. unfold serve.
  assert (D : forall ctx, next (fst (dispatch c s ctx r)) = next s /\ incl (reg (fst (dispatch c s ctx r))) (reg s)).
  { intros ctx. unfold dispatch.
    pose proof (run_acts_no_open (rq_accept r) (rq_acts r) (mkRst s ctx (mkSink None false) []) H) as [A [_ C]].
    destruct (run_acts c (rq_accept r) (mkRst s ctx (mkSink None false) []) (rq_acts r)) as [st e]. simpl in *.
    split; assumption. }
  destruct (rq_tok r) as [t|]; [|apply D].
  destruct (mem t (reg s)); [apply D|]. simpl. split; [reflexivity | apply incl_refl].
Qed.

Lemma open_only_with_accept_and_not_draining s r x :
  In x (reg (fst (serve c s r))) -> ~ In x (reg s) -> rq_accept r = true /\ draining s = false.
Proof.
  intros Hin Hnot.
  destruct (rq_accept r) eqn:A, (draining s) eqn:D; try (split; reflexivity); exfalso; apply Hnot;
    (apply (proj2 (serve_no_open s r ltac:(first [left; exact A | right; exact D]))); exact Hin).
Qed.

Lemma no_new_id_without_accept_or_draining s r :
  rq_accept r = false \/ draining s = true -> next (fst (serve c s r)) = next s.
Proof. intros H. apply serve_no_open; exact H. Qed.

(* an open attempt that passed the opt-in and not-bound tests while draining is refused as server_draining *)
Lemma draining_open_refused st :
  draining (r_srv st) = true -> r_ctx st = None -> do_action c true st AOpen = (st, EDraining).
Proof. intros D C. simpl. rewrite do_open_model, C, D. reflexivity. Qed.

Lemma draining_first_open_request s acts :
  draining s = true ->
  fst (serve c s (mkReq None true (AOpen :: acts))) = s /\
  rs_err (snd (serve c s (mkReq None true (AOpen :: acts)))) = EDraining /\
  rs_log (snd (serve c s (mkReq None true (AOpen :: acts)))) = [].
Proof.
  intros D. unfold serve, dispatch. cbn [rq_tok rq_accept rq_acts run_acts].
  rewrite (draining_open_refused (mkRst s None (mkSink None false) []) D eq_refl).
  cbn [fst snd r_srv r_log rs_err rs_log]. repeat split.
Qed.

(* ------------------------------------------------------------------------------------------------ *)
(* Part B: the client's view against the registry, over all histories                                 *)
(* ------------------------------------------------------------------------------------------------ *)
(* ids that are "this request's own": the presented token and everything minted from next0 on *)
Definition mine (next0 : nat) (t0 : option nat) (s : nat) : bool := (next0 <=? s) || onat_eqb t0 (Some s).
Definition notmine (next0 : nat) (t0 : option nat) (s : nat) : bool := negb (mine next0 t0 s).

Hypothesis Hgood : good_cfg c.

Definition J (reg0 : list nat) (next0 : nat) (dr0 : bool) (t0 : option nat) (st : rst) : Prop :=
  next0 <= next (r_srv st) /\
  Forall (fun s => s < next (r_srv st)) (reg (r_srv st)) /\
  filter (mine next0 t0) (reg (r_srv st)) = opt_list (r_ctx st) /\
  filter (notmine next0 t0) (reg (r_srv st)) = filter (notmine next0 t0) reg0 /\
  capture c t0 (emit c (r_sink st)) = r_ctx st /\
  draining (r_srv st) = dr0.

Lemma remove_sid_noop x l : (forall y, In y l -> y <> x) -> remove_sid x l = l.
Proof.
  intros H. unfold remove_sid. apply filter_all_true. intros y Hy.
  apply negb_true_iff. apply Nat.eqb_neq. apply H; exact Hy.
Qed.

Lemma J_step reg0 next0 dr0 t0 st a :
  J reg0 next0 dr0 t0 st -> J reg0 next0 dr0 t0 (fst (do_action c true st a)).
Proof.
  intros [Hn [Hf [Hm [Ho [Hc Hd]]]]].
  destruct a; cbn [do_action].
  - (* open *)
    rewrite do_open_model. destruct (r_ctx st) as [x|] eqn:C.
    + simpl. unfold J. rewrite C. repeat split; assumption.
    + destruct (draining (r_srv st)) eqn:D.
      * simpl. unfold J. rewrite C, D. repeat split; assumption.
      * cbn [fst]. unfold J. cbn [r_srv r_ctx r_sink reg next draining].
        assert (Hmine : mine next0 t0 (next (r_srv st)) = true).
        { unfold mine. apply orb_true_iff. left. apply Nat.leb_le. exact Hn. }
        repeat split.
        -- lia.
        -- apply Forall_app. split.
           ++ eapply Forall_impl; [|exact Hf]. simpl. intros; lia.
           ++ constructor; [lia | constructor].
        -- rewrite filter_app, Hm. simpl. rewrite Hmine. reflexivity.
        -- rewrite filter_app, Ho. simpl. unfold notmine at 2. rewrite Hmine. simpl. apply app_nil_r.
        -- exact (proj1 (Hgood t0 (r_sink st) (next (r_srv st)))).
        -- exact Hd.
  - (* close *)
    rewrite do_close_model. cbn [fst]. unfold J. cbn [r_srv r_ctx r_sink].
    destruct (r_ctx st) as [x|] eqn:C.
    + cbn [reg next draining].
      assert (Hx : mine next0 t0 x = true).
      { assert (In x (filter (mine next0 t0) (reg (r_srv st)))) by (rewrite Hm; left; reflexivity).
        apply filter_In in H. apply H. }
      repeat split.
      * exact Hn.
      * apply Forall_filter_keep. exact Hf.
      * unfold remove_sid. rewrite filter_comm, Hm. simpl. rewrite Nat.eqb_refl. reflexivity.
      * unfold remove_sid. rewrite filter_comm. fold (remove_sid x (filter (notmine next0 t0) (reg (r_srv st)))).
        rewrite remove_sid_noop; [exact Ho|].
        intros y Hy E. subst y. apply filter_In in Hy as [_ Hy]. unfold notmine in Hy. rewrite Hx in Hy. discriminate.
      * exact (proj1 (proj2 (Hgood t0 (r_sink st) 0))).
      * exact Hd.
    + repeat split; try assumption. exact (proj1 (proj2 (Hgood t0 (r_sink st) 0))).
  - (* resume *) exact (conj Hn (conj Hf (conj Hm (conj Ho (conj Hc Hd))))).
  - exact (conj Hn (conj Hf (conj Hm (conj Ho (conj Hc Hd))))).
Qed.

Lemma J_run reg0 next0 dr0 t0 : forall acts st,
  J reg0 next0 dr0 t0 st -> J reg0 next0 dr0 t0 (fst (run_acts c true st acts)).
Proof.
  induction acts as [|a acts IH]; intros st H; cbn [run_acts]; [exact H|].
  pose proof (J_step reg0 next0 dr0 t0 st a H) as H'.
  destruct (do_action c true st a) as [st' e]. simpl in H'.
  destruct e; simpl; try exact H'. apply IH. exact H'.
Qed.

(* one request of a view whose token is t0, on a server where t0 names exactly the view's live session *)
Lemma serve_view_spec s t0 acts :
  Forall (fun x => x < next s) (reg s) ->
  filter (mine (next s) t0) (reg s) = opt_list t0 ->
  let s' := fst (serve c s (mkReq t0 true acts)) in
  let rsp := snd (serve c s (mkReq t0 true acts)) in
  let v' := capture c t0 (h_tok rsp, h_close rsp) in
  next s <= next s' /\
  Forall (fun x => x < next s') (reg s') /\
  filter (mine (next s) t0) (reg s') = opt_list v' /\
  filter (notmine (next s) t0) (reg s') = filter (notmine (next s) t0) (reg s) /\
  draining s' = draining s.
Proof.
  intros Hf Hm.
  assert (D : let s' := fst (dispatch c s t0 (mkReq t0 true acts)) in
              let rsp := snd (dispatch c s t0 (mkReq t0 true acts)) in
              let v' := capture c t0 (h_tok rsp, h_close rsp) in
              next s <= next s' /\ Forall (fun x => x < next s') (reg s') /\
              filter (mine (next s) t0) (reg s') = opt_list v' /\
              filter (notmine (next s) t0) (reg s') = filter (notmine (next s) t0) (reg s) /\
              draining s' = draining s).
  { unfold dispatch. cbn [rq_accept rq_acts].
    assert (J0 : J (reg s) (next s) (draining s) t0 (mkRst s t0 (mkSink None false) [])).
    { unfold J. cbn [r_srv r_ctx r_sink]. repeat split; try assumption; [apply le_n | exact (proj1 (proj2 (proj2 (Hgood t0 (mkSink None false) 0))))]. }
    pose proof (J_run (reg s) (next s) (draining s) t0 acts _ J0) as JR.
    destruct (run_acts c true (mkRst s t0 (mkSink None false) []) acts) as [st e].
    cbn [fst snd] in *. destruct JR as [Hn [Hf' [Hm' [Ho' [Hc' Hd']]]]].
    cbn [h_tok h_close]. rewrite <- surjective_pairing. rewrite Hc'.
    repeat split; assumption. }
  unfold serve. cbn [rq_tok].
  destruct t0 as [t|]; [|exact D].
  destruct (mem t (reg s)); [exact D|].
  cbn [fst snd h_tok h_close]. rewrite (proj2 (proj2 (proj2 (Hgood (Some t) (mkSink None false) 0)))).
  repeat split; try assumption; apply le_n.
Qed.

(* ---- world invariant ---- *)
Definition Inv (w : world) : Prop :=
  length (w_own w) = next (w_srv w) /\
  Forall (fun s => s < next (w_srv w)) (reg (w_srv w)) /\
  Forall (fun o => exists v, o = Some v) (w_own w) /\
  forall v, live_of w v = opt_list (w_view w v).

Lemma owner_unique own u v s : owner_is own u s = true -> owner_is own v s = true -> u = v.
Proof.
  unfold owner_is. destruct (nth_error own s) as [[x|]|]; try discriminate.
  intros A B. apply Nat.eqb_eq in A. apply Nat.eqb_eq in B. congruence.
Qed.

Lemma owner_app_old own ext v s : s < length own -> owner_is (own ++ ext) v s = owner_is own v s.
Proof. intros H. unfold owner_is. rewrite nth_error_app1 by exact H. reflexivity. Qed.

Lemma owner_app_new own v u n s :
  length own <= s -> s < length own + n -> owner_is (own ++ repeat (Some v) n) u s = (v =? u).
Proof.
  intros H1 H2. unfold owner_is. rewrite nth_error_app2 by exact H1.
  rewrite nth_error_repeat by lia. reflexivity.
Qed.

Lemma Inv_world0 : Inv world0.
Proof.
  unfold Inv, world0, live_of. simpl. repeat split; try constructor.
Qed.

Lemma Inv_view w v acts : Inv w -> Inv (fst (step c w (EvView v acts))).
Proof.
  intros [Hlen [Hf [Hsome Hlive]]].
  set (s := w_srv w) in *. set (t0 := w_view w v) in *. set (own := w_own w) in *.
  (* the view's token names exactly its live session; as a filter on `mine` *)
  assert (Hown0 : forall x, In x (reg s) -> mine (next s) t0 x = true -> owner_is own v x = true).
  { intros x Hx Hm. unfold mine in Hm. apply orb_true_iff in Hm as [Hm|Hm].
    - apply Nat.leb_le in Hm. rewrite Forall_forall in Hf. specialize (Hf x Hx). lia.
    - apply onat_eqb_some in Hm.
      assert (In x (live_of w v)) by (rewrite Hlive; apply in_opt_list; exact Hm).
      unfold live_of in H. apply filter_In in H. apply H. }
  assert (Hm0 : filter (mine (next s) t0) (reg s) = opt_list t0).
  { rewrite (filter_filter_imp (mine (next s) t0) (owner_is own v) (reg s) Hown0).
    change (filter (owner_is own v) (reg s)) with (live_of w v). rewrite Hlive. fold t0.
    destruct t0 as [t|]; simpl; [|reflexivity].
    unfold mine. simpl. rewrite Nat.eqb_refl, orb_true_r. reflexivity. }
  pose proof (serve_view_spec s t0 acts Hf Hm0) as Spec.
  cbn [step]. fold s t0 own.
  destruct (serve c s (mkReq t0 true acts)) as [s' rsp] eqn:ES.
  cbn [fst snd] in Spec. destruct Spec as [Hn [Hf' [Hm' [Ho' _]]]].
  set (v' := capture c t0 (h_tok rsp, h_close rsp)) in *.
  set (own' := own ++ repeat (Some v) (next s' - next s)).
  cbn [fst]. unfold Inv. cbn [w_srv w_view w_own]. fold own'.
  (* ownership of everything in the new registry *)
  assert (Hown' : forall x, In x (reg s') -> owner_is own' v x = mine (next s) t0 x).
  { intros x Hx. rewrite Forall_forall in Hf'. specialize (Hf' x Hx).
    destruct (le_lt_dec (next s) x) as [Hge|Hlt].
    - unfold own'. rewrite owner_app_new by lia. rewrite Nat.eqb_refl.
      unfold mine. apply Nat.leb_le in Hge. rewrite Hge. reflexivity.
    - unfold own'. rewrite owner_app_old by lia.
      destruct (mine (next s) t0 x) eqn:Mx.
      + (* x is the presented token *)
        assert (In x (reg s)).
        { unfold mine in Mx. apply orb_true_iff in Mx as [Mx|Mx]; [apply Nat.leb_le in Mx; lia|].
          apply onat_eqb_some in Mx.
          assert (In x (filter (mine (next s) t0) (reg s))) by (rewrite Hm0; apply in_opt_list; exact Mx).
          apply filter_In in H. apply H. }
        apply Hown0; assumption.
      + destruct (owner_is own v x) eqn:Ox; [|reflexivity]. exfalso.
        assert (Hin : In x (filter (notmine (next s) t0) (reg s'))).
        { apply filter_In. split; [exact Hx|]. unfold notmine. rewrite Mx. reflexivity. }
        rewrite Ho' in Hin. apply filter_In in Hin as [Hin _].
        assert (In x (live_of w v)) by (apply filter_In; split; assumption).
        rewrite Hlive in H. fold t0 in H. apply in_opt_list in H.
        unfold mine in Mx. apply orb_false_iff in Mx as [_ Mx].
        assert (onat_eqb t0 (Some x) = true) by (apply onat_eqb_some; exact H). congruence. }
  repeat split.
  - unfold own'. rewrite app_length, repeat_length. lia.
  - exact Hf'.
  - unfold own'. apply Forall_app. split; [exact Hsome|]. apply Forall_repeat. exists v; reflexivity.
  - intros u. unfold live_of. cbn [w_srv w_own]. fold own'. unfold upd.
    destruct (u =? v) eqn:Euv.
    + apply Nat.eqb_eq in Euv. subst u.
      rewrite (filter_ext_in _ _ _ Hown'). exact Hm'.
    + apply Nat.eqb_neq in Euv.
      (* sessions of another view: untouched *)
      rewrite (filter_filter_imp (owner_is own' u) (notmine (next s) t0) (reg s')).
      2:{ intros x Hx Ou. unfold notmine. destruct (mine (next s) t0 x) eqn:Mx; [|reflexivity]. exfalso.
          rewrite <- (Hown' x Hx) in Mx. apply Euv. eapply owner_unique; eassumption. }
      rewrite Ho'.
      rewrite (filter_ext_in (owner_is own' u) (owner_is own u) (filter (notmine (next s) t0) (reg s))).
      2:{ intros x Hx. apply filter_In in Hx as [Hx _]. rewrite Forall_forall in Hf. specialize (Hf x Hx).
          unfold own'. apply owner_app_old. lia. }
      rewrite <- (filter_filter_imp (owner_is own u) (notmine (next s) t0) (reg s)).
      2:{ intros x Hx Ou. unfold notmine. destruct (mine (next s) t0 x) eqn:Mx; [|reflexivity]. exfalso.
          apply Euv. eapply owner_unique; [exact Ou | apply Hown0; assumption]. }
      apply (Hlive u).
Qed.

(* a call outside any view (no opt-in, no token) leaves the worker untouched *)
Lemma plain_noop : forall acts st,
  r_ctx st = None ->
  r_srv (fst (run_acts c false st acts)) = r_srv st.
Proof.
  induction acts as [|a acts IH]; intros st C; cbn [run_acts]; [reflexivity|].
  destruct a; cbn [do_action].
  - rewrite do_open_model. reflexivity.
  - rewrite do_close_model, C.
    rewrite (IH (mkRst (r_srv st) None (apply_upds None (r_sink st) (c_sink_close c)) (r_log st)) eq_refl). reflexivity.
  - rewrite (IH (mkRst (r_srv st) (r_ctx st) (r_sink st) (r_log st ++ [r_ctx st])) C). reflexivity.
  - apply IH. exact C.
Qed.

Lemma serve_plain s acts : fst (serve c s (mkReq None false acts)) = s.
Proof.
  unfold serve, dispatch. cbn [rq_tok rq_accept rq_acts].
  pose proof (plain_noop acts (mkRst s None (mkSink None false) []) eq_refl) as H.
  destruct (run_acts c false (mkRst s None (mkSink None false) []) acts) as [st e]. exact H.
Qed.

Lemma Inv_plain w acts : Inv w -> Inv (fst (step c w (EvPlain acts))).
Proof.
  intros [Hlen [Hf [Hsome Hlive]]]. cbn [step].
  pose proof (serve_plain (w_srv w) acts) as E.
  destruct (serve c (w_srv w) (mkReq None false acts)) as [s' rsp]. cbn [fst] in *. subst s'.
  rewrite Nat.sub_diag. cbn [repeat]. rewrite app_nil_r.
  unfold Inv. cbn [w_srv w_view w_own]. repeat split; try assumption.
Qed.

Lemma Inv_drain w b : Inv w -> Inv (fst (step c w (EvDrain b))).
Proof.
  intros [Hlen [Hf [Hsome Hlive]]]. cbn [step fst]. unfold Inv. cbn [w_srv w_view w_own reg next].
  repeat split; try assumption.
Qed.

Lemma Inv_step w ev : client_event ev -> Inv w -> Inv (fst (step c w ev)).
Proof.
  intros Hc H. destruct ev as [v acts|acts|tok accept acts|b].
  - apply Inv_view; exact H.
  - apply Inv_plain; exact H.
  - destruct Hc.
  - apply Inv_drain; exact H.
Qed.

Lemma Inv_fold : forall h w, Forall client_event h -> Inv w ->
  Inv (fold_left (fun w ev => fst (step c w ev)) h w).
Proof.
  induction h as [|ev h IH]; intros w Hc H; simpl; [exact H|].
  inversion Hc as [|? ? Hev Hrest]; subst. apply IH; [exact Hrest|]. apply Inv_step; assumption.
Qed.

Lemma Inv_run h : Forall client_event h -> Inv (run c h).
Proof. intros H. unfold run. apply Inv_fold; [exact H | exact Inv_world0]. Qed.

Theorem view_equals_live h v :
  Forall client_event h ->
  live_of (run c h) v = opt_list (w_view (run c h) v).
Proof. intros H. apply (Inv_run h H). Qed.

Theorem no_live_session_orphaned h s :
  Forall client_event h ->
  In s (reg (w_srv (run c h))) -> exists v, w_view (run c h) v = Some s.
Proof.
  intros H Hin. destruct (Inv_run h H) as [Hlen [Hf [Hsome Hlive]]].
  rewrite Forall_forall in Hf. specialize (Hf s Hin). rewrite <- Hlen in Hf.
  destruct (nth_error (w_own (run c h)) s) as [o|] eqn:N; [|apply nth_error_None in N; lia].
  rewrite Forall_forall in Hsome. destruct (Hsome o (nth_error_In _ _ N)) as [v Hv]. subst o.
  exists v. apply in_opt_list. rewrite <- Hlive. unfold live_of. apply filter_In. split; [exact Hin|].
  unfold owner_is. rewrite N. apply Nat.eqb_refl.
Qed.

End Good.

(* the modelled (repaired) programs are good; so is the variant whose client applies the close flag first *)
Lemma cfg_model_guards : c_open_guards cfg_model = model_guards.
Proof. reflexivity. Qed.

Lemma cfg_model_good : good_cfg cfg_model.
Proof. intros t0 [[m|] [|]] n; repeat split; reflexivity. Qed.
