(* L_Wire: the socket-family model refines the reference semantics (C01, reused by C04/C08/C10). *)
From Coq Require Import List NArith ZArith Bool Lia.
From VGI Require Import Corr M_Wire.
Import ListNotations.
Open Scope N_scope.

Local Opaque err_event finish_refused no_data_batch empty_batch.

(* ------------------------------------------------------------------ quiet logs under a recording callback *)
Lemma log_event_quiet m : is_exc m = false -> log_event CbRecord m = (ELog m, true).
Proof. unfold is_exc, log_event. destruct (lvl m); intro H; try discriminate; reflexivity. Qed.

Lemma quiet_cons m ls : quiet (m :: ls) = true -> is_exc m = false /\ quiet ls = true.
Proof.
  unfold quiet; simpl. intro H. apply andb_true_iff in H as [H1 H2]. split; [|exact H2].
  destruct (is_exc m); [discriminate|reflexivity].
Qed.

Lemma quiet_app a b : quiet a = true -> quiet b = true -> quiet (a ++ b) = true.
Proof. unfold quiet. intros Ha Hb. rewrite forallb_app, Ha, Hb. reflexivity. Qed.

Lemma deliver_quiet ls k : quiet ls = true -> deliver CbRecord ls k = map ELog ls ++ k.
Proof.
  induction ls as [|m r IH]; intro H; [reflexivity|].
  apply quiet_cons in H as [Hm Hr]. simpl. rewrite (log_event_quiet m Hm), (IH Hr). reflexivity.
Qed.

Lemma cli_read_logs ls q : quiet ls = true ->
  cli_read CbRecord (map FLog ls ++ q) = let '(es, o, r) := cli_read CbRecord q in (map ELog ls ++ es, o, r).
Proof.
  induction ls as [|m r IH]; intro H.
  - simpl. destruct (cli_read CbRecord q) as [[es o] r']. reflexivity.
  - apply quiet_cons in H as [Hm Hr]. simpl. rewrite (log_event_quiet m Hm), (IH Hr).
    destruct (cli_read CbRecord q) as [[es o] r']. reflexivity.
Qed.

Lemma cli_drain_logs ls q : quiet ls = true ->
  cli_drain CbRecord (map FLog ls ++ q) = map ELog ls ++ cli_drain CbRecord q.
Proof.
  induction ls as [|m r IH]; intro H; [reflexivity|].
  apply quiet_cons in H as [Hm Hr]. simpl. unfold is_exc in Hm.
  destruct (lvl m); try discriminate; rewrite (IH Hr); reflexivity.
Qed.

(* ------------------------------------------------------------------ producer loop *)
Lemma pipe_prod_zero c alive sts q : pipe_prod c alive sts (Some O) q = (@nil event, Live q alive).
Proof. destruct sts; reflexivity. Qed.

Lemma obs_prod_zero c sts : obs_prod c sts (Some O) = [].
Proof. destruct sts; reflexivity. Qed.

Lemma pipe_prod_dead sts n :
  pipe_prod CbRecord false sts n [FEos] = if is_zero n then (@nil event, Live [FEos] false) else ([EDone], Over).
Proof. destruct sts; destruct n as [[|k]|]; reflexivity. Qed.

Lemma after_drained a q (alive : bool) :
  q ++ (if alive then [FEos] else []) = [FEos] -> pipe_after CbRecord a (Live q alive) = [].
Proof. intro H. destruct a; simpl; try reflexivity; rewrite H; reflexivity. Qed.

Definition steps_quiet (sts : list step) : bool := forallb (fun x => quiet (slogs x)) sts.

Lemma exec_prod x : exec_step true (Some x) =
  match sraise x with
  | Some e => SErr e
  | None => if fin x then SFrames (map FLog (slogs x) ++ data_frames (emit x)) true
            else match emit x with Some b => SFrames (map FLog (slogs x) ++ [FData b]) false | None => SErr no_data_batch end
  end.
Proof. unfold exec_step. cbn [negb]. rewrite andb_false_r. reflexivity. Qed.

Lemma pipe_prod_live a : forall sts n l0,
  quiet l0 = true -> steps_quiet sts = true -> is_zero n = false ->
  let '(es, z) := pipe_prod CbRecord true sts n (map FLog l0) in
  es ++ pipe_after CbRecord a z = map ELog l0 ++ obs_prod CbRecord sts n.
Proof.
  induction sts as [|x r IH]; intros n l0 Hl0 Hq Hn.
  - (* past the end: finish *)
    unfold pipe_prod, obs_prod. rewrite Hn. cbn [hd_error srv_tick exec_step app].
    rewrite (cli_read_logs l0 [FEos] Hl0). cbn. rewrite !app_nil_r. reflexivity.
  - unfold steps_quiet in Hq. simpl in Hq. apply andb_true_iff in Hq as [Hx Hr].
    cbn [pipe_prod obs_prod]. rewrite Hn. cbn [hd_error]. unfold srv_tick. rewrite (exec_prod x).
    destruct (sraise x) as [e|].
    + (* raises *)
      rewrite (cli_read_logs l0 _ Hl0). cbn. rewrite !app_nil_r. reflexivity.
    + destruct (fin x) eqn:Hf.
      * (* finishes *)
        destruct (emit x) as [b|]; cbn [data_frames].
        -- rewrite <- ?app_assoc. rewrite (cli_read_logs l0 _ Hl0).
           rewrite (cli_read_logs (slogs x) _ Hx). cbn [app cli_read].
           cbn [andb negb]. rewrite pipe_prod_dead. rewrite (deliver_quiet _ _ Hx).
           destruct (is_zero (opred n)); destruct a; cbn; rewrite ?app_nil_r, <- ?app_assoc; reflexivity.
        -- rewrite app_nil_r. rewrite <- ?app_assoc. rewrite (cli_read_logs l0 _ Hl0).
           rewrite (cli_read_logs (slogs x) _ Hx). cbn. rewrite (deliver_quiet _ _ Hx).
           rewrite ?app_nil_r, <- ?app_assoc. reflexivity.
      * destruct (emit x) as [b|].
        -- rewrite (cli_read_logs l0 _ Hl0).
           rewrite (cli_read_logs (slogs x) _ Hx). cbn [app cli_read].
           cbn [andb negb]. rewrite (deliver_quiet _ _ Hx).
           destruct (is_zero (opred n)) eqn:Hz.
           ++ destruct (opred n) as [[|k]|] eqn:Ho; try discriminate.
              rewrite pipe_prod_zero, obs_prod_zero. cbn [app].
              rewrite (after_drained a [] true eq_refl). rewrite ?app_nil_r, <- ?app_assoc. reflexivity.
           ++ specialize (IH (opred n) [] eq_refl Hr Hz). cbn [map] in IH.
              destruct (pipe_prod CbRecord true r (opred n) []) as [es' z].
              cbn [app] in IH. rewrite <- ?app_assoc. cbn [app]. rewrite <- ?app_assoc.
              rewrite <- IH. rewrite <- ?app_assoc. reflexivity.
        -- rewrite (cli_read_logs l0 _ Hl0). cbn. rewrite !app_nil_r. reflexivity.
Qed.

(* ------------------------------------------------------------------ exchange loop *)
Lemma exec_exch o : steps_quiet (match o with Some x => [x] | None => [] end) = true ->
  match exec_step false o with
  | SErr _ => True
  | SFrames fs fl => fl = false /\ fs = map FLog (step_logs o) ++ [FData (step_batch o)]
  end.
Proof.
  intros _. destruct o as [x|]; [|cbn; split; reflexivity].
  unfold exec_step, step_logs, step_batch. cbn [negb]. rewrite andb_true_r.
  destruct (fin x); cbn; [exact I|].
  destruct (sraise x); [exact I|]. destruct (emit x); [split; reflexivity|exact I].
Qed.

Lemma hd_quiet sts : steps_quiet sts = true -> quiet (step_logs (hd_error sts)) = true /\ steps_quiet (tl sts) = true.
Proof.
  destruct sts as [|x r]; [split; reflexivity|]. unfold steps_quiet; simpl. intro H.
  apply andb_true_iff in H. exact H.
Qed.

Lemma pipe_exch_live a : forall n sts l0,
  quiet l0 = true -> steps_quiet sts = true -> n <> O ->
  let '(es, z) := pipe_exch CbRecord true sts n (map FLog l0) in
  es ++ pipe_after CbRecord a z = map ELog l0 ++ obs_exch CbRecord sts n.
Proof.
  induction n as [|n IH]; intros sts l0 Hl0 Hq Hn; [congruence|].
  destruct (hd_quiet sts Hq) as [Hh Ht].
  cbn [pipe_exch obs_exch]. unfold srv_tick.
  pose proof (exec_exch (hd_error sts)) as He.
  destruct (exec_step false (hd_error sts)) as [fs fl|e].
  - destruct He as [-> ->]. { destruct (hd_error sts); [unfold steps_quiet; simpl; unfold step_logs in Hh; rewrite Hh; reflexivity|reflexivity]. }
    rewrite (cli_read_logs l0 _ Hl0). rewrite (cli_read_logs _ _ Hh). cbn [app cli_read andb negb].
    rewrite (deliver_quiet _ _ Hh).
    destruct n as [|n'].
    + cbn [pipe_exch obs_exch app]. rewrite (after_drained a [] true eq_refl).
      rewrite ?app_nil_r, <- ?app_assoc. reflexivity.
    + specialize (IH (tl sts) [] eq_refl Ht ltac:(congruence)). cbn [map] in IH.
      destruct (pipe_exch CbRecord true (tl sts) (S n') []) as [es' z]. cbn [app] in IH.
      rewrite <- ?app_assoc. cbn [app]. rewrite <- ?app_assoc. rewrite <- IH. rewrite <- ?app_assoc. reflexivity.
  - rewrite (cli_read_logs l0 _ Hl0). cbn. rewrite !app_nil_r. reflexivity.
Qed.

(* ------------------------------------------------------------------ C01: socket family = reference semantics *)
Lemma pipe_prod_initraise c sts n e : is_zero n = false ->
  pipe_prod c false sts n [FErr e; FEos] = ([err_event e], Over).
Proof. intro Hn. destruct sts; cbn [pipe_prod]; rewrite Hn; reflexivity. Qed.

Lemma pipe_exch_initraise c sts n e : n <> O ->
  pipe_exch c false sts n [FErr e; FEos] = ([err_event e], Over).
Proof. intro Hn. destruct n; [congruence|]. reflexivity. Qed.

Definition iter_n (k : nat) (a : after) : option nat := match a with AStop => None | _ => Some k end.

Lemma iter_n_zero k a : is_zero (iter_n k a) = true -> k = O /\ a <> AStop.
Proof. destruct a, k; cbn; intro H; try discriminate; split; congruence. Qed.

Theorem pipe_refines : forall p sc,
  legal p sc = true -> records sc = true -> no_exc_logs p = true -> pipe_reads p sc = true ->
  run_pipe p sc = cut (observe p sc).
Proof.
  intros p sc Hlegal Hrec Hq Hreads. unfold run_pipe. f_equal.
  destruct p as [u|sp]; destruct sc as [c|h k a c|h n a c]; try discriminate Hlegal;
    destruct c; try discriminate Hrec; clear Hrec.
  - (* unary *)
    cbn in Hq. cbn [observe].
    rewrite (cli_read_logs (ulogs u) _ Hq), (deliver_quiet _ _ Hq).
    destruct (ures_of u) as [v|e]; cbn; rewrite ?app_nil_r; reflexivity.
  - (* producer *)
    cbn in Hq. apply andb_true_iff in Hq as [Hil Hst].
    unfold legal in Hlegal. cbn in Hlegal. rewrite andb_true_r in Hlegal. apply andb_true_iff in Hlegal as [Hi Hh].
    fold (iter_n k a). cbn [observe]. fold (iter_n k a). unfold pipe_stream_for, srv_init_for, init_outcome, hdr_events.
    unfold pipe_reads in Hreads. cbn [reads_something init_raises closes] in Hreads.
    destruct (ires sp) as [|e|]; try discriminate Hi.
    + (* init ok *)
      rewrite (deliver_quiet _ _ Hil).
      destruct h; cbv beta iota.
      * destruct (hdr sp) as [v|]; try discriminate Hh. cbv beta iota.
        rewrite (cli_read_logs _ _ Hil). cbn [cli_read skip_eos app].
        destruct (is_zero (iter_n k a)) eqn:Hz.
        -- destruct (iter_n k a) as [[|?]|]; try discriminate Hz.
           rewrite pipe_prod_zero, obs_prod_zero. rewrite (after_drained a [] true eq_refl).
           rewrite ?app_nil_r. reflexivity.
        -- pose proof (pipe_prod_live a (steps sp) (iter_n k a) [] eq_refl Hst Hz) as HL. cbn [map] in HL.
           destruct (pipe_prod CbRecord true (steps sp) (iter_n k a) []) as [es' z]. cbn [app] in HL.
           rewrite HL. rewrite ?app_nil_r. reflexivity.
      * destruct (is_zero (iter_n k a)) eqn:Hz.
        -- destruct (iter_n_zero k a Hz) as [-> Ha].
           destruct (iter_n 0 a) as [[|?]|] eqn:E; try discriminate Hz.
           rewrite pipe_prod_zero, obs_prod_zero. cbn [app].
           destruct a; try congruence; cbn in Hreads; try discriminate Hreads;
             cbn [pipe_after]; rewrite (cli_drain_logs _ _ Hil); reflexivity.
        -- pose proof (pipe_prod_live a (steps sp) (iter_n k a) (ilogs sp) Hil Hst Hz) as HL.
           destruct (pipe_prod CbRecord true (steps sp) (iter_n k a) (map FLog (ilogs sp))) as [es' z].
           cbn [app]. exact HL.
    + (* init raises *)
      destruct h; cbv beta iota.
      * cbn. reflexivity.
      * assert (Hz : is_zero (iter_n k a) = false).
        { destruct a, k; cbn in *; try reflexivity; discriminate Hreads. }
        rewrite (pipe_prod_initraise _ _ _ _ Hz). reflexivity.
  - (* exchange *)
    cbn in Hq. apply andb_true_iff in Hq as [Hil Hst].
    unfold legal in Hlegal. cbn [script_kind_ok after_ok] in Hlegal. apply andb_true_iff in Hlegal as [Hk Ha].
    apply andb_true_iff in Hk as [Hi Hh].
    cbn [observe]. unfold pipe_stream_for, srv_init_for, init_outcome, hdr_events.
    unfold pipe_reads in Hreads. cbn [reads_something init_raises closes] in Hreads.
    destruct (ires sp) as [|e|]; try discriminate Hi.
    + rewrite (deliver_quiet _ _ Hil).
      destruct h; cbv beta iota.
      * destruct (hdr sp) as [v|]; try discriminate Hh. cbv beta iota.
        rewrite (cli_read_logs _ _ Hil). cbn [cli_read skip_eos app].
        destruct n as [|n'].
        -- cbn [pipe_exch obs_exch]. rewrite (after_drained a [] true eq_refl). rewrite ?app_nil_r. reflexivity.
        -- pose proof (pipe_exch_live a (S n') (steps sp) [] eq_refl Hst ltac:(congruence)) as HL. cbn [map] in HL.
           destruct (pipe_exch CbRecord true (steps sp) (S n') []) as [es' z]. cbn [app] in HL.
           rewrite HL. rewrite ?app_nil_r. reflexivity.
      * destruct n as [|n'].
        -- cbn [pipe_exch obs_exch app].
           destruct a; try discriminate Ha; cbn in Hreads; try discriminate Hreads;
             cbn [pipe_after]; rewrite (cli_drain_logs _ _ Hil); reflexivity.
        -- pose proof (pipe_exch_live a (S n') (steps sp) (ilogs sp) Hil Hst ltac:(congruence)) as HL.
           destruct (pipe_exch CbRecord true (steps sp) (S n') (map FLog (ilogs sp))) as [es' z].
           cbn [app]. exact HL.
    + destruct h; cbv beta iota.
      * cbn. reflexivity.
      * assert (Hz : n <> O). { destruct n; [cbn in Hreads; discriminate Hreads|congruence]. }
        rewrite (pipe_exch_initraise _ _ _ _ Hz). reflexivity.
Qed.
