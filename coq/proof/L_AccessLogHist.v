(* L_AccessLogHist: stream ids along a history of requests. *)
From Coq Require Import List NArith ZArith Bool Lia Arith.
From VGI Require Import Corr Regex M_Wire M_AccessLog.
Import ListNotations.

Section Hist.
  Variable fresh : nat -> str.
  Variable c : cfg.

  Definition mint_count (l : list request) : nat := List.length (filter (mints c) l).
  Fixpoint sids_from (n : nat) (l : list request) : list (option str) :=
    match l with
    | [] => []
    | q :: r => (if mints c q then Some (fresh n) else None) :: sids_from (if mints c q then S n else n) r
    end.

  Lemma mint_count_app : forall a b, mint_count (a ++ b) = (mint_count a + mint_count b)%nat.
  Proof. intros a b; unfold mint_count; rewrite filter_app, app_length; reflexivity. Qed.

  Lemma mint_count_snoc : forall pre q, mint_count (pre ++ [q]) = if mints c q then S (mint_count pre) else mint_count pre.
  Proof. intros pre q. rewrite mint_count_app. unfold mint_count. simpl. destruct (mints c q); simpl; lia. Qed.

  Lemma sids_from_app : forall a b n, sids_from n (a ++ b) = sids_from n a ++ sids_from (n + mint_count a) b.
  Proof.
    induction a as [|q r IH]; intros b n; simpl.
    - rewrite Nat.add_0_r; reflexivity.
    - rewrite IH. f_equal. f_equal. unfold mint_count; simpl. destruct (mints c q); simpl; f_equal; lia.
  Qed.

  Lemma run_from_step : forall n sids q r,
    run_from fresh c n sids (q :: r) =
    (match sid_of fresh c n sids q with Some i => emissions c q i | None => [] end)
    :: run_from fresh c (if mints c q then S n else n) (sids ++ [if mints c q then Some (fresh n) else None]) r.
  Proof.
    intros n sids q r. cbn [run_from]. unfold sid_of. destruct (mints c q) eqn:M; [reflexivity|].
    destruct (ref_of q) as [r0|]; [destruct (nth_error sids r0) as [[i|]|]|]; reflexivity.
  Qed.

  Definition cell (pre : list request) (q : request) : list emission :=
    match sid_of fresh c (mint_count pre) (sids_from 0 pre) q with Some i => emissions c q i | None => [] end.

  Lemma run_from_nth : forall h pre k q,
    nth_error h k = Some q ->
    nth_error (run_from fresh c (mint_count pre) (sids_from 0 pre) h) k = Some (cell (pre ++ firstn k h) q).
  Proof.
    induction h as [|q0 r IH]; intros pre k q Hk; [destruct k; discriminate|].
    rewrite run_from_step. destruct k as [|k]; simpl in Hk.
    - inversion Hk; subst q0. simpl. rewrite app_nil_r. reflexivity.
    - cbn [nth_error firstn].
      replace (pre ++ q0 :: firstn k r) with ((pre ++ [q0]) ++ firstn k r) by (rewrite <- app_assoc; reflexivity).
      rewrite <- (IH (pre ++ [q0]) k q Hk). f_equal. f_equal.
      + rewrite mint_count_snoc. reflexivity.
      + rewrite sids_from_app. reflexivity.
  Qed.

  Lemma run_history_nth : forall h k q, nth_error h k = Some q -> nth_error (run_history fresh c h) k = Some (cell (firstn k h) q).
  Proof. intros h k q Hk. unfold run_history. apply (run_from_nth h [] k q Hk). Qed.

  Lemma nth_sids_from : forall l n a q, nth_error l a = Some q ->
    nth_error (sids_from n l) a = Some (if mints c q then Some (fresh (n + mint_count (firstn a l))) else None).
  Proof.
    induction l as [|q0 r IH]; intros n a q Ha; [destruct a; discriminate|].
    destruct a as [|a]; simpl in *.
    - inversion Ha; subst. unfold mint_count; simpl. rewrite Nat.add_0_r. reflexivity.
    - rewrite (IH _ a q Ha). unfold mint_count; simpl. destruct (mints c q0); simpl; destruct (mints c q); try reflexivity; f_equal; f_equal; f_equal; lia.
  Qed.

  (* the id a request runs under *)
  Lemma emissions_sid : forall q i e, In e (emissions c q i) -> (mints c q = true \/ ref_of q <> None) -> e_sid e = i.
  Proof.
    intros q i e Hin Hk. destruct c as [[|] dbg sh]; destruct q; cbn [emissions tr mints ref_of] in *;
      try contradiction; try (destruct Hk as [Hk|Hk]; [discriminate | exfalso; apply Hk; reflexivity]);
      destruct Hin as [<-|[]]; unfold mk;
      repeat match goal with |- context [match ?w with WOk => _ | WRaise _ => _ | WEscape _ => _ end] => destruct w end; reflexivity.
  Qed.

  Lemma ref_not_mint : forall q a, ref_of q = Some a -> mints c q = false.
  Proof. intros q a H; unfold mints; destruct q; try discriminate; destruct (tr c); reflexivity. Qed.

  Lemma firstn_firstn_lt : forall (A : Type) (l : list A) a t, (a <= t)%nat -> firstn a (firstn t l) = firstn a l.
  Proof. intros A l a t H. rewrite firstn_firstn. f_equal. lia. Qed.

  Lemma nth_error_firstn_lt : forall (A : Type) (l : list A) a t, (a < t)%nat -> nth_error (firstn t l) a = nth_error l a.
  Proof.
    intros A l; induction l as [|x r IH]; intros a t H; [destruct t, a; reflexivity|].
    destruct t; [lia|]. destruct a; simpl; [reflexivity|]. apply IH; lia.
  Qed.

  (* a request that opened a stream records the fresh id drawn for it *)
  Theorem init_sid : forall h a qa ems e,
    nth_error h a = Some qa -> mints c qa = true -> nth_error (run_history fresh c h) a = Some ems -> In e ems ->
    e_sid e = fresh (mint_count (firstn a h)).
  Proof.
    intros h a qa ems e Ha Hm Hr Hin. rewrite (run_history_nth h a qa Ha) in Hr. inversion Hr; subst ems; clear Hr.
    unfold cell, sid_of in Hin. rewrite Hm in Hin. apply (emissions_sid qa _ e Hin). left; exact Hm.
  Qed.

  (* every continuation / cancel record carries the id of the request that opened its stream *)
  Theorem turn_sid : forall h a t qa qt ems e,
    nth_error h a = Some qa -> mints c qa = true -> nth_error h t = Some qt -> ref_of qt = Some a ->
    nth_error (run_history fresh c h) t = Some ems -> In e ems ->
    e_sid e = fresh (mint_count (firstn a h)).
  Proof.
    intros h a t qa qt ems e Ha Hm Ht Hr Hrun Hin.
    rewrite (run_history_nth h t qt Ht) in Hrun. inversion Hrun; subst ems; clear Hrun.
    unfold cell, sid_of in Hin. rewrite (ref_not_mint qt a Hr), Hr in Hin.
    destruct (Nat.lt_ge_cases a t) as [Hlt|Hge].
    - assert (Hn : nth_error (firstn t h) a = Some qa) by (rewrite nth_error_firstn_lt by exact Hlt; exact Ha).
      rewrite (nth_sids_from (firstn t h) 0 a qa Hn), Hm in Hin.
      rewrite firstn_firstn_lt in Hin by lia. simpl in Hin.
      apply (emissions_sid qt _ e Hin). right; rewrite Hr; discriminate.
    - assert (Hn : nth_error (sids_from 0 (firstn t h)) a = None).
      { apply nth_error_None. assert (L : forall l n, List.length (sids_from n l) = List.length l) by (induction l; intro; simpl; [reflexivity | f_equal; auto]).
        rewrite L, firstn_length. lia. }
      rewrite Hn in Hin. contradiction.
  Qed.

  Hypothesis fresh_inj : forall x y, fresh x = fresh y -> x = y.

  Lemma mint_count_firstn_lt : forall h a b qa, (a < b)%nat -> nth_error h a = Some qa -> mints c qa = true ->
    (mint_count (firstn a h) < mint_count (firstn b h))%nat.
  Proof.
    intros h a b qa Hlt Ha Hm.
    assert (E : firstn b h = firstn a h ++ qa :: firstn (b - S a) (skipn (S a) h)).
    { revert a b Hlt Ha. induction h as [|x r IH]; intros a b Hlt Ha; [destruct a; discriminate|].
      destruct b; [lia|]. destruct a; simpl in *.
      - inversion Ha; subst. rewrite Nat.sub_0_r. reflexivity.
      - f_equal. apply IH; [lia | exact Ha]. }
    rewrite E, mint_count_app. unfold mint_count at 3; simpl. rewrite Hm; simpl. lia.
  Qed.

  (* two different streams never share an id *)
  Theorem distinct_sid : forall h a b qa qb, a <> b ->
    nth_error h a = Some qa -> mints c qa = true -> nth_error h b = Some qb -> mints c qb = true ->
    fresh (mint_count (firstn a h)) <> fresh (mint_count (firstn b h)).
  Proof.
    intros h a b qa qb Hab Ha Hma Hb Hmb Heq. apply fresh_inj in Heq.
    destruct (Nat.lt_total a b) as [H|[H|H]]; [|contradiction|].
    - pose proof (mint_count_firstn_lt h a b qa H Ha Hma). lia.
    - pose proof (mint_count_firstn_lt h b a qb H Hb Hmb). lia.
  Qed.
End Hist.
