(* C31: the parallel range path with hedging - invariants for ALL schedules and task scripts *)
From Coq Require Import List ZArith NArith Bool Lia Arith.
From VGI Require Import M_Fetch L_Fetch.
Import ListNotations.
Open Scope Z_scope.

(* ---- one range task ---- *)
Section TaskFacts.
  Variable valid : N -> bool.
  Variable c : cfg.
  Variable url : N.

  Lemma run_task_contacted_valid : forall rg hops,
    Forall (fun u => valid u = true) (fst (snd (run_task valid c url rg hops))).
  Proof.
    intros rg hops. unfold run_task.
    pose proof (follow_contacted_valid valid (c_max_redir c) hops 0%N url) as H.
    destruct (follow valid (c_max_redir c) 0%N url hops) as [r tr|e tr]; simpl in *; auto.
    destruct (negb (is_2xx (r_status r))); simpl; auto.
    destruct (negb (r_status r =? 206)); simpl; auto.
    destruct (read_range _ _ _ _ _ _) as [[d|e] n]; simpl; auto.
  Qed.

  Lemma run_task_contacted_length : forall rg hops,
    (N.of_nat (length (fst (snd (run_task valid c url rg hops)))) <= c_max_redir c + 1)%N.
  Proof.
    intros rg hops. unfold run_task.
    pose proof (follow_contacted_length valid (c_max_redir c) hops 0%N url ltac:(lia)) as H.
    destruct (follow valid (c_max_redir c) 0%N url hops) as [r tr|e tr]; simpl in *; try lia.
    destruct (negb (is_2xx (r_status r))); simpl; try lia.
    destruct (negb (r_status r =? 206)); simpl; try lia.
    destruct (read_range _ _ _ _ _ _) as [[d|e] n]; simpl; lia.
  Qed.

  Lemma run_task_taken : forall rg hops,
    0 <= snd rg - fst rg + 1 -> 0 <= c_max_fetch c ->
    0 <= snd (snd (run_task valid c url rg hops)) <= Z.min (snd rg - fst rg + 1) (c_max_fetch c) + 1.
  Proof.
    intros rg hops He Hm. unfold run_task.
    destruct (follow valid (c_max_redir c) 0%N url hops) as [r tr|e tr]; simpl; try lia.
    destruct (negb (is_2xx (r_status r))); simpl; try lia.
    destruct (negb (r_status r =? 206)); simpl; try lia.
    pose proof (read_range_taken (r_units r) (snd rg - fst rg + 1) (c_max_fetch c) (r_berr r) He Hm) as H.
    destruct (read_range _ _ _ _ _ _) as [[d|e] n]; simpl in *; lia.
  Qed.

  (* a task that succeeds got a 206 whose stream ended cleanly after exactly the requested number of bytes *)
  Lemma run_task_ok : forall rg hops d ob,
    0 <= snd rg - fst rg + 1 -> 0 <= c_max_fetch c ->
    run_task valid c url rg hops = (TOk d, ob) ->
    exists r tr, follow valid (c_max_redir c) 0%N url hops = FOk r tr /\ r_status r = 206 /\ r_berr r = false
                 /\ d = concat (r_units r) /\ len d = snd rg - fst rg + 1.
  Proof.
    intros rg hops d ob He Hm. unfold run_task.
    destruct (follow valid (c_max_redir c) 0%N url hops) as [r tr|e tr]; try discriminate.
    destruct (negb (is_2xx (r_status r))); try discriminate.
    destruct (r_status r =? 206) eqn:E; simpl; try discriminate.
    destruct (read_range _ _ _ _ _ _) as [[d'|e] n] eqn:R; try discriminate.
    intros H; inversion H; subst.
    apply read_range_ok in R as (Hb & Hd & Hl & _); auto.
    apply Z.eqb_eq in E. exists r, tr. repeat split; auto.
  Qed.
End TaskFacts.

(* ---- small list facts ---- *)
Lemma lookup_app : forall k l k' v,
  lookup k (l ++ [(k', v)]) = match lookup k l with Some x => Some x | None => if Nat.eqb k k' then Some v else None end.
Proof.
  induction l as [|[k0 v0] r IH]; intros k' v; simpl.
  - reflexivity.
  - destruct (Nat.eqb k k0); auto.
Qed.

Lemma mem_nat_false_notin : forall x l, mem_nat x l = false -> ~ In x l.
Proof.
  intros x l H Hin. unfold mem_nat in H.
  assert (existsb (Nat.eqb x) l = true) by (apply existsb_exists; exists x; split; auto; apply Nat.eqb_refl).
  congruence.
Qed.

Lemma nth_error_skipn_cons {A} : forall (l : list A) a x, nth_error l a = Some x -> skipn a l = x :: skipn (S a) l.
Proof.
  induction l as [|y r IH]; intros a x H.
  - destruct a; discriminate.
  - destruct a as [|a]; simpl in *.
    + inversion H; reflexivity.
    + apply IH in H. rewrite H. destruct r; reflexivity.
Qed.

Lemma NoDup_app_singleton_r {A} : forall (l : list A) x, NoDup l -> ~ In x l -> NoDup (l ++ [x]).
Proof.
  induction l as [|y r IH]; intros x Hn Hx; simpl.
  - constructor; auto.
  - inversion Hn; subst. constructor.
    + intros Hin. apply in_app_or in Hin as [Hin|[Hin|[]]]; auto. subst. apply Hx. left; reflexivity.
    + apply IH; auto. intros Hin. apply Hx. right; auto.
Qed.

Section ParFacts.
  Variable valid : N -> bool.
  Variable c : cfg.
  Variable url : N.
  Variable ranges : list (Z * Z).
  Variable tasks : tasktab.

  Let n := length ranges.

  Record Inv (st : pst) : Prop := mkInv {
    inv_chunkof : p_chunkof st = seq 0 n ++ p_hedged st;
    inv_nodup : NoDup (p_hedged st);
    inv_lt : Forall (fun ck => (ck < n)%nat) (p_hedged st);
    inv_budget : 0 < c_max_hedges c -> len (p_hedged st) <= c_max_hedges c;
    inv_results : forall ck d, lookup ck (p_results st) = Some d ->
       exists rg tid t0 t1 hops ob, nth_error ranges ck = Some rg /\ nth_error tasks tid = Some (t0, t1, hops)
                                    /\ run_task valid c url rg hops = (TOk d, ob);
    inv_done : forall tid ob, In (tid, ob) (p_done st) ->
       exists rg ck t0 t1 hops, nth_error ranges ck = Some rg /\ nth_error tasks tid = Some (t0, t1, hops)
                                /\ ob = snd (run_task valid c url rg hops)
  }.

  Lemma Inv_init : Inv (init_pst ranges).
  Proof.
    unfold init_pst. constructor; simpl; fold n.
    - rewrite app_nil_r; reflexivity.
    - constructor.
    - constructor.
    - intros; rewrite len_nil; lia.
    - intros; discriminate.
    - intros ? ? [].
  Qed.

  Lemma proc_done_inv : forall done st fe st' fe',
    Inv st -> proc_done valid c url ranges tasks done st fe = Some (st', fe') -> Inv st'.
  Proof.
    induction done as [|tid rest IH]; intros st fe st' fe' HI H; simpl in H.
    - inversion H; subst; auto.
    - destruct (negb (mem_nat tid (p_pending st))); [discriminate|].
      destruct (nth_error (p_chunkof st) tid) as [ck|] eqn:Eck; [|discriminate].
      destruct (nth_error tasks tid) as [[[t0 t1] hops]|] eqn:Et; [|discriminate].
      destruct (nth_error ranges ck) as [rg|] eqn:Er; [|discriminate].
      destruct (run_task valid c url rg hops) as [res ob] eqn:ER.
      destruct HI as [I1 I2 I3 I4 I5 I6].
      assert (Hdone : forall tid0 ob0, In (tid0, ob0) (p_done st ++ [(tid, ob)]) ->
                exists rg ck t0 t1 hops, nth_error ranges ck = Some rg /\ nth_error tasks tid0 = Some (t0, t1, hops)
                                         /\ ob0 = snd (run_task valid c url rg hops)).
      { intros tid0 ob0 Hin. apply in_app_or in Hin as [Hin|Hin]; [eauto|].
        destruct Hin as [Hin|[]]. inversion Hin; subst.
        exists rg, ck, t0, t1, hops. rewrite ER. auto. }
      destruct res as [d|e].
      + eapply IH; [|exact H]. constructor; simpl; auto.
        intros ck' d' Hl.
        unfold has_result in Hl. simpl in Hl.
        destruct (lookup ck (p_results st)) eqn:EL; simpl in Hl.
        * eauto.
        * rewrite lookup_app in Hl. destruct (lookup ck' (p_results st)) eqn:EL'.
          -- inversion Hl; subst. eauto.
          -- destruct (Nat.eqb ck' ck) eqn:Eq; [|discriminate]. apply Nat.eqb_eq in Eq; subst ck'.
             inversion Hl; subst. exists rg, tid, t0, t1, hops, ob. auto.
      + destruct (has_result ck _); (eapply IH; [|exact H]); constructor; simpl; auto.
  Qed.

  Lemma hedge_loop_inv : forall now med order st st',
    Inv st -> hedge_loop c tasks now med order st = Some st' -> Inv st'.
  Proof.
    intros now med. induction order as [|tid rest IH]; intros st st' HI H; cbn [hedge_loop] in H.
    - inversion H; subst; auto.
    - destruct (budget_exhausted c st) eqn:EB; [inversion H; subst; auto|].
      destruct (nth_error (p_chunkof st) tid) as [ck|] eqn:Eck; [|discriminate].
      destruct (nth_error tasks tid) as [[[t0 t1] hops]|] eqn:Et; [|discriminate].
      destruct (mem_nat ck (p_hedged st) || has_result ck st) eqn:EM; [eauto|].
      destruct (med * c_mult2 c <? 2 * (now - t0)); [|eauto].
      destruct (nth_error tasks (length (p_chunkof st))) eqn:En; [|discriminate].
      eapply IH; [|exact H].
      apply orb_false_iff in EM as [EM _].
      destruct HI as [I1 I2 I3 I4 I5 I6].
      assert (Hck : (ck < n)%nat).
      { apply nth_error_In in Eck. rewrite I1 in Eck. apply in_app_or in Eck as [Hin|Hin].
        - apply in_seq in Hin. lia.
        - rewrite Forall_forall in I3. auto. }
      constructor; simpl; auto.
      + rewrite I1, app_assoc. reflexivity.
      + apply NoDup_app_singleton_r; auto. apply mem_nat_false_notin; auto.
      + apply Forall_app; split; auto.
      + intros Hpos. unfold budget_exhausted in EB. rewrite len_app. unfold len at 2. simpl length.
        destruct (0 <? c_max_hedges c) eqn:E0; [|apply Z.ltb_ge in E0; lia].
        simpl in EB. apply Z.leb_gt in EB. lia.
  Qed.
End ParFacts.
