(* Proofs about model/M_Values.v (property C02). *)
From Coq Require Import List NArith ZArith Bool Lia.
From VGI Require Import M_Values.
Import ListNotations.
Open Scope Z_scope.

Arguments f32_round : simpl never.
Arguments f64_trunc : simpl never.
Arguments f64_of_Z : simpl never.
Arguments f64_frac_zero : simpl never.
Arguments int_in_range : simpl never.
Arguments pow2 : simpl never.
Arguments unit_store : simpl never.
Arguments delta_store : simpl never.
Arguments unit_us : simpl never.
Arguments str_ok : simpl never.
Arguments name_in : simpl never.
Arguments Z.mul : simpl never.
Arguments Z.div : simpl never.
Arguments Z.pow : simpl never.
Arguments N.eqb : simpl never.
Arguments Z.eqb : simpl never.
Arguments Z.leb : simpl never.
Arguments Z.abs : simpl never.

(* ------------------------------------------------------------------ basics *)
Lemma list_eqb_N_eq : forall a b, list_eqb_N a b = true -> a = b.
Proof.
  induction a as [|x a IH]; intros [|y b] H; simpl in H; try discriminate; auto.
  apply andb_true_iff in H as [H1 H2]. apply N.eqb_eq in H1. subst. f_equal. auto.
Qed.

Lemma name_in_str_ok : forall n names, forallb str_ok names = true -> name_in n names = true -> str_ok n = true.
Proof.
  intros n names Hall Hin. unfold name_in in Hin. apply existsb_exists in Hin as [x [Hx He]].
  apply list_eqb_N_eq in He. subst. rewrite forallb_forall in Hall. auto.
Qed.

Lemma arrow_rt_none : forall a, arrow_rt a VNone = Accept VNone.
Proof.
  destruct a; simpl; repeat match goal with |- context [match ?x with _ => _ end] => destruct x end; reflexivity.
Qed.

Definition no_ann (t : ty) : bool := match t with TAnn _ => false | _ => true end.
Lemma has_type_none : forall t, no_ann t = true -> has_type t VNone = true -> exists t', t = TOpt t'.
Proof. destruct t; simpl; intros Ha H; try discriminate; eauto. destruct w; discriminate. Qed.

Lemma map_outcome_id : forall (f : value -> outcome) l,
  (forall x, In x l -> f x = Accept x) -> map_outcome f l = Some (Some l).
Proof.
  intros f l. induction l as [|x r IH]; intros H; simpl; auto.
  rewrite (H x (or_introl eq_refl)). rewrite IH; auto. intros y Hy. apply H. right. exact Hy.
Qed.

Lemma list_outcome_id : forall (f : value -> outcome) l,
  (forall x, In x l -> f x = Accept x) -> list_outcome f l = Accept (VList l).
Proof. intros f l H. unfold list_outcome. rewrite map_outcome_id; auto. Qed.

(* ------------------------------------------------------------------ plain annotations: pyarrow is the identity *)
Lemma arrow_rt_plain_id : forall t v,
  wire_plain t = true -> has_type t v = true -> arrow_rt (infer t) v = Accept v.
Proof.
  induction t as [s bits|w| | | |names| | |u tz|u|u|p s|t IH|t IH|t IH|t IH|k IHk w IHw]; intros v Hp Ht; simpl in Hp; try discriminate.
  - (* TInt *) destruct v; simpl in Ht; try discriminate. simpl. rewrite Ht. reflexivity.
  - (* TFloat *) destruct w; destruct v; simpl in Ht; try discriminate; simpl.
    + apply N.eqb_eq in Ht. rewrite Ht. reflexivity.
    + reflexivity.
  - (* TStr *) destruct v; simpl in Ht; try discriminate. simpl. rewrite Ht. reflexivity.
  - (* TBytes *) destruct v; simpl in Ht; try discriminate. reflexivity.
  - (* TBool *) destruct v; simpl in Ht; try discriminate. reflexivity.
  - (* TDate *) destruct v; simpl in Ht; try discriminate. reflexivity.
  - (* TTimestamp *) destruct v; simpl in Ht; try discriminate. simpl.
    apply andb_true_iff in Ht as [Ha Hs]. apply eqb_prop in Ha. subst.
    destruct (unit_store u us) as [us'|]; try discriminate. apply Z.eqb_eq in Hs. subst. reflexivity.
  - (* TTime *) destruct v; simpl in Ht; try discriminate. simpl.
    destruct u; try reflexivity; apply Z.eqb_eq in Ht; rewrite Ht; reflexivity.
  - (* TDuration *) destruct v; simpl in Ht; try discriminate. simpl.
    destruct (delta_store u us) as [us'|]; try discriminate. apply Z.eqb_eq in Ht. subst. reflexivity.
  - (* TOpt *) simpl. destruct v; simpl in Ht; try (apply IH; assumption). apply arrow_rt_none.
  - (* TAnn *) simpl. simpl in Ht. apply IH; assumption.
  - (* TList *) destruct v; simpl in Ht; try discriminate. simpl.
    apply list_outcome_id. intros x Hx. apply IH; auto. rewrite forallb_forall in Ht. auto.
Qed.

Lemma plain_not_converted : forall t v (ser : list N -> list N),
  wire_plain t = true -> has_type t v = true -> convert_for_arrow ser v = v.
Proof.
  intros t v ser Hp Ht. destruct v; try reflexivity; exfalso.
  - (* VEnum *) induction t; simpl in *; try discriminate; try (destruct w; discriminate); auto.
  - (* VData *) induction t; simpl in *; try discriminate; try (destruct w; discriminate); auto.
  - (* VSet *) induction t; simpl in *; try discriminate; try (destruct w; discriminate); auto.
  - (* VDict *) induction t; simpl in *; try discriminate; try (destruct w; discriminate); auto.
Qed.

Lemma is_opt_plain : forall t, wire_plain t = true -> wire_plain (fst (is_opt t)) = true.
Proof.
  induction t; simpl; intros H; try discriminate; auto.
  destruct (is_opt t) as [inner nullable] eqn:E. simpl in IHt. destruct nullable; simpl; auto.
Qed.

Lemma is_opt_infer : forall t, infer (fst (is_opt t)) = infer t.
Proof.
  induction t; simpl; auto.
  destruct (is_opt t) as [inner nullable] eqn:E. simpl in IHt. destruct nullable; simpl; auto.
Qed.

Lemma unwrap_plain : forall u, wire_plain u = true -> wire_plain (unwrap_ann u) = true.
Proof. destruct u; simpl; auto. Qed.

Lemma deserialize_plain : forall (deser : list N -> option (list N)) t x,
  wire_plain t = true -> deserialize_value deser t x = Accept x.
Proof.
  intros deser t x Hp. unfold deserialize_value.
  pose proof (unwrap_plain _ (is_opt_plain t Hp)) as Hb.
  destruct (is_opt t) as [inner nullable]. simpl in Hb.
  destruct (unwrap_ann inner); simpl in Hb; try discriminate; reflexivity.
Qed.

(* ------------------------------------------------------------------ frozenset / dict reconstruction *)
Lemma set_add_fresh : forall x s, (forall y, In y s -> value_eqb y x = false) -> set_add x s = s ++ [x].
Proof.
  induction s as [|y r IH]; intros H; simpl; auto.
  rewrite (H y (or_introl eq_refl)). f_equal. apply IH. intros z Hz. apply H. right. exact Hz.
Qed.

Lemma all_distinct_cons : forall x r,
  all_distinct (x :: r) = negb (existsb (value_eqb x) r) && all_distinct r.
Proof. reflexivity. Qed.

Lemma all_distinct_app_fresh : forall acc x r,
  all_distinct (acc ++ x :: r) = true -> forall y, In y acc -> value_eqb y x = false.
Proof.
  induction acc as [|a acc IH]; intros x r H y Hy; simpl in Hy; [contradiction|].
  rewrite <- app_comm_cons in H. rewrite all_distinct_cons in H. apply andb_true_iff in H as [H1 H2].
  destruct Hy as [->|Hy].
  - apply negb_true_iff in H1. destruct (value_eqb y x) eqn:E; auto.
    assert (existsb (value_eqb y) (acc ++ x :: r) = true) as C.
    { apply existsb_exists. exists x. split; auto. apply in_or_app. right. left. reflexivity. }
    rewrite C in H1. discriminate.
  - eapply IH; eauto.
Qed.

Lemma set_of_list_distinct_aux : forall l acc,
  all_distinct (acc ++ l) = true -> fold_left (fun a x => set_add x a) l acc = acc ++ l.
Proof.
  induction l as [|x r IH]; intros acc H; simpl.
  - rewrite app_nil_r. reflexivity.
  - rewrite set_add_fresh by (eapply all_distinct_app_fresh; eauto).
    rewrite IH; rewrite <- app_assoc; simpl; auto.
Qed.

Lemma set_of_list_distinct : forall l, all_distinct l = true -> set_of_list l = l.
Proof. intros l H. unfold set_of_list. apply (set_of_list_distinct_aux l []). exact H. Qed.

Lemma dict_set_fresh : forall k v d,
  (forall y, In y (map fst d) -> value_eqb y k = false) -> dict_set k v d = d ++ [(k, v)].
Proof.
  induction d as [|[k' v'] r IH]; intros H; simpl; auto.
  rewrite (H k' (or_introl eq_refl)). f_equal. apply IH. intros z Hz. apply H. right. exact Hz.
Qed.

Lemma dict_of_pairs_distinct_aux : forall d acc,
  all_distinct (map fst (acc ++ d)) = true -> dict_of_pairs acc (dict_items d) = Some (acc ++ d).
Proof.
  induction d as [|[k v] r IH]; intros acc H; simpl.
  - rewrite app_nil_r. reflexivity.
  - rewrite dict_set_fresh.
    + rewrite IH; rewrite <- app_assoc; simpl; auto.
    + rewrite map_app in H. simpl in H. eapply all_distinct_app_fresh; eauto.
Qed.

Lemma dict_of_pairs_distinct : forall d,
  all_distinct (map fst d) = true -> dict_of_pairs [] (dict_items d) = Some d.
Proof. intros d H. apply (dict_of_pairs_distinct_aux d []). exact H. Qed.

(* ------------------------------------------------------------------ the value path of one direction *)
Section Path.
  Variable ser : list N -> list N.
  Variable deser : list N -> option (list N).
  Hypothesis deser_ser : forall d, deser (ser d) = Some d.     (* C03: dataclass round trip *)

  Definition no_opt (t : ty) : bool := match t with TOpt _ => false | _ => true end.

  Lemma has_type_not_none : forall t v, no_opt t = true -> no_ann t = true -> has_type t v = true -> is_none v = false.
  Proof.
    intros t v Hn Ha Ht. destruct v; try reflexivity. apply has_type_none in Ht as [t' ->]; auto; discriminate.
  Qed.

  Lemma plain_not_data : forall t, wire_plain t = true -> is_data t = false.
  Proof. destruct t; simpl; intros; try discriminate; reflexivity. Qed.

  (* below the (optional) top-level Optional: convert ; Arrow ; deserialize gives the value back *)
  Lemma core_exact : forall t v,
    no_opt t = true -> supported_inner t = true -> has_type t v = true ->
    let a := if is_data t then ABin else infer t in
    arrow_rt a (convert_for_arrow ser v) <> Accept VNone /\
    bind (arrow_rt a (convert_for_arrow ser v))
         (fun x => if is_none x then Reject else deserialize_value deser t x) = Accept v.
  Proof.
    intros t v Hn Hs Ht.
    assert (forall t0, wire_plain t0 = true -> no_opt t0 = true -> no_ann t0 = true -> has_type t0 v = true ->
            arrow_rt (infer t0) (convert_for_arrow ser v) <> Accept VNone /\
            bind (arrow_rt (infer t0) (convert_for_arrow ser v))
                 (fun x => if is_none x then Reject else deserialize_value deser t0 x) = Accept v) as Plain.
    { intros t0 Hp Hn0 Ha0 Ht0. rewrite (plain_not_converted t0 v ser Hp Ht0).
      rewrite (arrow_rt_plain_id t0 v Hp Ht0). pose proof (has_type_not_none t0 v Hn0 Ha0 Ht0) as Hv.
      split. { intros C. inversion C. subst. discriminate. }
      simpl. rewrite Hv. apply deserialize_plain. exact Hp. }
    destruct t as [sg bits|w| | | |names| | |u tz|u|u|p sc|t|t|t|t|k w]; simpl in Hs; try discriminate.
    - (* TInt *) apply (Plain (TInt sg bits)); auto.
    - (* TFloat *) apply (Plain (TFloat w)); auto.
    - apply (Plain TStr); auto.
    - apply (Plain TBytes); auto.
    - apply (Plain TBool); auto.
    - (* TEnum *) destruct v; simpl in Ht; try discriminate. simpl.
      rewrite (name_in_str_ok _ _ Hs Ht). simpl. unfold deserialize_value. simpl. rewrite Ht. split; [discriminate|reflexivity].
    - (* TData *) destruct v; simpl in Ht; try discriminate. simpl. unfold deserialize_value. simpl. rewrite deser_ser. split; [discriminate|reflexivity].
    - apply (Plain TDate); auto.
    - apply (Plain (TTimestamp u tz)); auto.
    - apply (Plain (TTime u)); auto.
    - apply (Plain (TDuration u)); auto.
    - (* TList *) apply (Plain (TList t)); auto.
    - (* TSet *) destruct v; simpl in Ht; try discriminate. apply andb_true_iff in Ht as [He Hd].
      simpl. rewrite list_outcome_id.
      + simpl. unfold deserialize_value. simpl. rewrite set_of_list_distinct by exact Hd. split; [discriminate|reflexivity].
      + intros x Hx. apply arrow_rt_plain_id; auto. rewrite forallb_forall in He. auto.
    - (* TMap *) destruct v; simpl in Ht; try discriminate. apply andb_true_iff in Ht as [He Hd].
      apply andb_true_iff in Hs as [Hk Hw].
      simpl. rewrite list_outcome_id.
      + simpl. unfold deserialize_value. simpl. rewrite dict_of_pairs_distinct by exact Hd. split; [discriminate|reflexivity].
      + intros x Hx. unfold dict_items in Hx. apply in_map_iff in Hx as [[a b] [<- Hin]]. simpl.
        rewrite forallb_forall in He. specialize (He _ Hin). simpl in He.
        apply andb_true_iff in He as [He1 Hb]. apply andb_true_iff in He1 as [Ha Hnn].
        rewrite (arrow_rt_plain_id k a Hk Ha). rewrite (arrow_rt_plain_id w b Hw Hb).
        destruct a; simpl in Hnn; try discriminate; reflexivity.
  Qed.

  Lemma is_data_no_opt : forall t, is_data t = true -> t = TData.
  Proof. destruct t; simpl; intros; try discriminate; reflexivity. Qed.

  Lemma one_way_some : forall a nullable T t v,
    (forall x, deserialize_value deser T x = deserialize_value deser t x) ->
    is_none v = false ->
    arrow_rt a (convert_for_arrow ser v) <> Accept VNone ->
    bind (arrow_rt a (convert_for_arrow ser v))
         (fun x => if is_none x then Reject else deserialize_value deser t x) = Accept v ->
    one_way ser deser (a, nullable) T v = Accept v.
  Proof.
    intros a nullable T t v Hd Hv Hnn Hb. unfold one_way. rewrite Hv. simpl.
    destruct (arrow_rt a (convert_for_arrow ser v)) as [x| |]; simpl in *; try discriminate.
    destruct (is_none x) eqn:E.
    - destruct x; try discriminate; exfalso; apply Hnn; reflexivity.
    - rewrite Hd. exact Hb.
  Qed.

  Lemma deserialize_opt : forall t' x, no_opt t' = true -> no_ann t' = true ->
    deserialize_value deser (TOpt t') x = deserialize_value deser t' x.
  Proof. intros t' x Hn Ha. destruct t'; try discriminate; reflexivity. Qed.

  Lemma supported_inner_shape : forall t, supported_inner t = true -> no_opt t = true /\ no_ann t = true.
  Proof. destruct t; simpl; intros H; try discriminate; auto. Qed.

  (* the spellings without Annotated at the top *)
  Lemma param_path_exact0 : forall t v,
    supported_plainly t = true -> has_type t v = true -> param_path ser deser t v = Accept v.
  Proof.
    intros t v Hs Ht. unfold param_path.
    destruct (no_opt t) eqn:Hn.
    - assert (supported_inner t = true) as Hsi by (destruct t; try discriminate; exact Hs).
      destruct (supported_inner_shape t Hsi) as [_ Ha].
      assert (param_field t = ((if is_data t then ABin else infer t), false)) as ->
        by (destruct t; try discriminate; reflexivity).
      destruct (core_exact t v Hn Hsi Ht) as [Hnn Hb].
      apply one_way_some with (t := t); auto. eapply has_type_not_none; eauto.
    - destruct t as [sg bits|w| | | |names| | |u tz|u|u|p sc|t'|t'|t'|t'|k w]; try discriminate. simpl in Hs.
      destruct (supported_inner_shape t' Hs) as [Hn' Ha'].
      assert (param_field (TOpt t') = ((if is_data t' then ABin else infer t'), true)) as ->
        by (unfold param_field; simpl; destruct t'; try discriminate; reflexivity).
      destruct (is_none v) eqn:Hv.
      + destruct v; try discriminate. unfold one_way. simpl. rewrite arrow_rt_none. reflexivity.
      + assert (has_type t' v = true) as Ht' by (destruct v; try discriminate; exact Ht).
        destruct (core_exact t' v Hn' Hs Ht') as [Hnn Hb].
        apply one_way_some with (t := t'); auto. intros x. apply deserialize_opt; assumption.
  Qed.

  (* Annotated[X, m] and Annotated[X, m] | None travel exactly like X and X | None: Optional is stripped first,
     the Annotated wrapper second, in the schema construction and in _deserialize_value alike *)
  Lemma path_ann : forall t' v, no_opt t' = true -> no_ann t' = true ->
    param_path ser deser (TAnn t') v = param_path ser deser t' v /\
    param_path ser deser (TOpt (TAnn t')) v = param_path ser deser (TOpt t') v /\
    param_path ser deser (TAnn (TOpt t')) v = param_path ser deser (TOpt t') v.
  Proof.
    intros t' v Hn Ha. destruct t'; try discriminate; repeat split; reflexivity.
  Qed.

  (* a value of a supported annotation is accepted by the parameter path and arrives unchanged *)
  Lemma param_path_exact : forall t v,
    supported t = true -> has_type t v = true -> param_path ser deser t v = Accept v.
  Proof.
    intros t v Hs Ht.
    destruct t as [sg bits|w| | | |names| | |u tz|u|u|p sc|t1|t1|t1|t1|k w];
      try (apply param_path_exact0; [exact Hs|exact Ht]; fail).
    - (* TOpt t1 *)
      destruct t1 as [sg bits|w| | | |names| | |u tz|u|u|p sc|t'|t'|t'|t'|k w];
        try (apply param_path_exact0; [exact Hs|exact Ht]; fail).
      (* TOpt (TAnn t') *)
      simpl in Hs. destruct (supported_inner_shape t' Hs) as [Hn Ha].
      destruct (path_ann t' v Hn Ha) as [_ [-> _]]. apply param_path_exact0; [exact Hs|].
      destruct v; exact Ht.
    - (* TAnn t1 *)
      destruct (no_opt t1) eqn:Hn1.
      + assert (supported_inner t1 = true) as Hsi by (destruct t1; try discriminate; exact Hs).
        destruct (supported_inner_shape t1 Hsi) as [Hn Ha].
        destruct (path_ann t1 v Hn Ha) as [-> _]. apply param_path_exact0; [|exact Ht].
        destruct t1; try discriminate; exact Hsi.
      + (* TAnn (TOpt t'): the marker inside the wrapper *)
        destruct t1 as [sg bits|w| | | |names| | |u tz|u|u|p sc|t'|t'|t'|t'|k w]; try discriminate.
        simpl in Hs. destruct (supported_inner_shape t' Hs) as [Hn Ha].
        destruct (path_ann t' v Hn Ha) as [_ [_ ->]]. apply param_path_exact0; [exact Hs|exact Ht].
  Qed.

  Lemma result_field_fixed : forall t, result_field true t = param_field t.
  Proof. reflexivity. Qed.

  Lemma result_path_exact : forall t v,
    supported t = true -> has_type t v = true -> result_path ser deser true t v = Accept v.
  Proof. intros t v Hs Ht. unfold result_path. rewrite result_field_fixed. apply param_path_exact; auto. Qed.

  Lemma echo_exact : forall t v,
    supported t = true -> has_type t v = true -> echo ser deser true t v = Accept v.
  Proof.
    intros t v Hs Ht. unfold echo. rewrite param_path_exact by assumption. simpl. apply result_path_exact; assumption.
  Qed.

  (* None never enters a non-optional position, in either direction *)
  Lemma none_refused : forall t, snd (is_opt t) = false ->
    param_path ser deser t VNone = Reject /\ result_path ser deser true t VNone = Reject.
  Proof.
    intros t Hn. unfold result_path. rewrite result_field_fixed. unfold param_path, one_way, param_field.
    destruct (is_opt t) as [inner nullable]. simpl in Hn. subst.
    destruct (is_data (unwrap_ann inner)); auto.
  Qed.

End Path.

(* ------------------------------------------------------------------ integers and floats, stated on the converter *)
Lemma int_range_iff : forall s bits z,
  arrow_rt (AInt s bits) (VInt z) = Accept (VInt z) <-> int_in_range s bits z = true.
Proof.
  intros s bits z. simpl. destruct (int_in_range s bits z); split; intros H; try reflexivity; discriminate.
Qed.

Lemma int_out_of_range_rejected : forall s bits z,
  int_in_range s bits z = false -> arrow_rt (AInt s bits) (VInt z) = Reject.
Proof. intros s bits z H. simpl. rewrite H. reflexivity. Qed.

Lemma float64_bits : forall b, arrow_rt (AFloat F64) (VFloat b) = Accept (VFloat b).
Proof. reflexivity. Qed.
