(* C31: redact_url factors through the components of the URL that exclude userinfo, query and fragment *)
From Coq Require Import List NArith Bool Lia.
From VGI Require Import M_Fetch.
Import ListNotations.
Open Scope N_scope.

Lemma split_first_spec : forall p s a b,
  split_first p s = (a, b) ->
  Forall (fun ch => p ch = false) a
  /\ match b with
     | Some r => exists d, p d = true /\ s = a ++ d :: r
     | None => s = a
     end.
Proof.
  intros p. induction s as [|ch r IH]; intros a b H; simpl in H.
  - inversion H; subst. split; auto.
  - destruct (p ch) eqn:E.
    + inversion H; subst. split; auto. exists ch. auto.
    + destruct (split_first p r) as [a' b'] eqn:ES. inversion H; subst.
      destruct (IH a' b eq_refl) as [H1 H2]. split; [constructor; auto|].
      destruct b as [r'|].
      * destruct H2 as (d & Hd & Hs). exists d. split; auto. simpl. rewrite Hs. reflexivity.
      * simpl. rewrite H2. reflexivity.
Qed.

Lemma span_until_spec : forall p s a b,
  span_until p s = (a, b) ->
  s = a ++ b /\ Forall (fun ch => p ch = false) a /\ (b = [] \/ exists d r, b = d :: r /\ p d = true).
Proof.
  intros p. induction s as [|ch r IH]; intros a b H; simpl in H.
  - inversion H; subst. auto.
  - destruct (p ch) eqn:E.
    + inversion H; subst. repeat split; auto. right. exists ch, r. auto.
    + destruct (span_until p r) as [a' b'] eqn:ES. inversion H; subst.
      destruct (IH a' b eq_refl) as (H1 & H2 & H3). repeat split; auto.
      simpl. rewrite H1. reflexivity.
Qed.

Lemma mem_ch_false : forall d s, mem_ch d s = false -> ~ In d s.
Proof.
  intros d s H Hin. unfold mem_ch in H.
  assert (existsb (N.eqb d) s = true) by (apply existsb_exists; exists d; split; auto; apply N.eqb_refl).
  congruence.
Qed.

Lemma after_last_spec : forall d s, exists pre, s = pre ++ after_last d s /\ ~ In d (after_last d s).
Proof.
  intros d. induction s as [|ch r IH].
  - exists []. simpl. auto.
  - cbn [after_last].
    destruct ((ch =? d) && negb (mem_ch d r)) eqn:E1.
    + apply andb_true_iff in E1 as [_ E1]. apply negb_true_iff in E1.
      exists [ch]. split; auto. apply mem_ch_false; auto.
    + destruct (mem_ch d (ch :: r)) eqn:E2.
      * destruct IH as (pre & Hp & Hn). exists (ch :: pre). split; auto. simpl. rewrite <- Hp. reflexivity.
      * exists []. split; auto. apply mem_ch_false; auto.
Qed.

(* the prefix of s before the first char satisfying p, and what remains *)
Lemma split_first_prefix : forall p s,
  exists rem, s = fst (split_first p s) ++ rem /\ Forall (fun ch => p ch = false) (fst (split_first p s))
              /\ (rem = [] \/ exists d r, rem = d :: r /\ p d = true).
Proof.
  intros p s. destruct (split_first p s) as [a b] eqn:E. apply split_first_spec in E as [H1 H2]. simpl.
  destruct b as [r|].
  - destruct H2 as (d & Hd & Hs). exists (d :: r). repeat split; auto. right. exists d, r. auto.
  - exists []. rewrite app_nil_r. auto.
Qed.

Section RedactFacts.
  Variable netloc_ok : list N -> bool.
  Variable lower : list N -> list N.
  Variable uses_params : list N -> bool.

  Notation redact := (redact_url netloc_ok lower uses_params).

  (* For ALL strings: either "<invalid-url>", or the cleaned input decomposes as
        scheme ":" "//" userinfo-part hostport path rest
     where hostport has no '@' (it is what follows the last '@' of the netloc), userinfo-part ++ hostport contains no
     '/', '?' or '#', path contains no '?' or '#', rest is empty or starts at the first '?' or '#' -
     and the output is `render` of (lowered scheme, hostport, path without params) only:
     it does not depend on the userinfo part nor on anything from the first '?' / '#' on. *)
  Lemma redact_url_factors : forall s,
    redact s = invalid_text
    \/ exists sch ui hp pth rest,
         clean s = sch ++ [58; 47; 47] ++ ui ++ hp ++ pth ++ rest
         /\ ~ In 64 hp
         /\ Forall (fun ch => is_delim ch = false) (ui ++ hp)
         /\ Forall (fun ch => ch <> 63 /\ ch <> 35) pth
         /\ (rest = [] \/ exists d r, rest = d :: r /\ (d = 63 \/ d = 35))
         /\ redact s = render lower (lower sch) hp (strip_params (lower sch) pth uses_params).
  Proof.
    intros s. unfold redact_url, parse.
    destruct (split_scheme lower (clean s)) as [scheme rest0] eqn:ESch.
    (* the scheme split *)
    assert (HS : scheme = [] \/ exists sch, scheme = lower sch /\ clean s = sch ++ 58 :: rest0).
    { unfold split_scheme in ESch. destruct (clean s) as [|c0 u'] eqn:EC.
      - inversion ESch; auto.
      - destruct (split_first (N.eqb ch_colon) (c0 :: u')) as [pre [r|]] eqn:ESF.
        + destruct (negb match pre with [] => true | _ => false end && is_alpha_ascii c0 && forallb is_scheme_char pre).
          * inversion ESch; subst. right. exists pre. split; auto.
            apply split_first_spec in ESF as [_ (d & Hd & Hs)]. apply N.eqb_eq in Hd. unfold ch_colon in Hd. subst d. exact Hs.
          * inversion ESch; auto.
        + inversion ESch; auto. }
    destruct rest0 as [|c1 [|c2 r2]]; try (left; destruct scheme; reflexivity).
    destruct ((c1 =? ch_slash) && (c2 =? ch_slash)) eqn:ESl; [|left; destruct scheme; reflexivity].
    apply andb_true_iff in ESl as [E1 E2]. apply N.eqb_eq in E1, E2. unfold ch_slash in E1, E2. subst c1 c2.
    destruct (span_until is_delim r2) as [netloc rest2] eqn:ESp.
    destruct ((mem_ch ch_lbr netloc && negb (mem_ch ch_rbr netloc)) || (mem_ch ch_rbr netloc && negb (mem_ch ch_lbr netloc))); [left; reflexivity|].
    destruct (negb (netloc_ok netloc)); [left; reflexivity|].
    destruct scheme as [|s0 sr] eqn:ESc; [left; reflexivity|].
    destruct netloc as [|n0 nr] eqn:ENl; [left; reflexivity|].
    right.
    destruct HS as [HS | (sch & Hsch & Hclean)]; [discriminate|].
    apply span_until_spec in ESp as (Hr2 & Hnd & _).
    destruct (after_last_spec ch_at (n0 :: nr)) as (ui & Hui & Hnoat).
    destruct (split_first_prefix (N.eqb ch_hash) rest2) as (rem1 & Hrem1 & Hnf & Hrem1h).
    destruct (split_first_prefix (N.eqb ch_q) (fst (split_first (N.eqb ch_hash) rest2))) as (rem2 & Hrem2 & Hnq & Hrem2h).
    set (nofrag := fst (split_first (N.eqb ch_hash) rest2)) in *.
    set (pth := fst (split_first (N.eqb ch_q) nofrag)) in *.
    exists sch, ui, (after_last ch_at (n0 :: nr)), pth, (rem2 ++ rem1).
    split; [|split; [|split; [|split; [|split]]]].
    - rewrite Hclean, Hr2, Hrem1. fold nofrag. rewrite Hrem2. fold pth.
      rewrite Hui at 1. repeat rewrite <- app_assoc. reflexivity.
    - exact Hnoat.
    - rewrite <- Hui. exact Hnd.
    - (* no '?' and no '#' in the path *)
      apply Forall_forall. intros ch Hin. split.
      + rewrite Forall_forall in Hnq. specialize (Hnq ch Hin). intros ->. discriminate.
      + assert (In ch nofrag) by (rewrite Hrem2; apply in_or_app; left; exact Hin).
        rewrite Forall_forall in Hnf. specialize (Hnf ch H). intros ->. discriminate.
    - destruct Hrem2h as [-> | (d & r & -> & Hd)].
      + destruct Hrem1h as [-> | (d & r & -> & Hd)]; [left; reflexivity|].
        right. exists d, r. split; auto. apply N.eqb_eq in Hd. right. symmetry. exact Hd.
      + right. exists d, (r ++ rem1). split; auto. apply N.eqb_eq in Hd. left. symmetry. exact Hd.
    - rewrite Hsch. reflexivity.
  Qed.
End RedactFacts.
