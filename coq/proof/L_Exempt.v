(* Proofs about model/M_Exempt.v: the exemption predicate of _AuthMiddleware is exactly the four
   classes the property allows (with segment boundaries), and in the Falcon request phase a request the
   callback rejected neither reaches routing nor any middleware that must follow authentication. *)
From Coq Require Import List NArith Bool Lia.
From VGI Require Import M_Exempt.
Import ListNotations.
Open Scope N_scope.

(* ------------------------------------------------------------------ *)
(** * strings                                                          *)
(* ------------------------------------------------------------------ *)

Lemma str_eqb_eq : forall a b, str_eqb a b = true <-> a = b.
Proof.
  induction a as [| x r IH]; intros [| y s]; cbn [str_eqb]; split; intros H;
    try reflexivity; try discriminate.
  - apply andb_true_iff in H. destruct H as [Hx Hr]. apply N.eqb_eq in Hx. apply IH in Hr.
    subst. reflexivity.
  - inversion H; subst. rewrite N.eqb_refl. cbn [andb]. apply IH. reflexivity.
Qed.

Lemma starts_with_iff : forall pre s, starts_with pre s = true <-> exists rest, s = pre ++ rest.
Proof.
  induction pre as [| x r IH]; intros s; cbn [starts_with].
  - split; [intros _; exists s; reflexivity | reflexivity].
  - destruct s as [| y t].
    + split; [discriminate | intros (rest & H); discriminate H].
    + rewrite andb_true_iff, N.eqb_eq, IH. split.
      * intros (-> & rest & ->). exists rest. reflexivity.
      * intros (rest & H). cbn [app] in H. inversion H; subst.
        split; [reflexivity | exists rest; reflexivity].
Qed.

Lemma starts_with_dir : forall d path,
  starts_with (d ++ slash) path = true <-> under_dir d path.
Proof.
  intros d path. rewrite starts_with_iff. unfold under_dir, slash. split.
  - intros (rest & ->). exists rest. rewrite <- app_assoc. reflexivity.
  - intros (rest & ->). exists rest. rewrite <- app_assoc. reflexivity.
Qed.

(* ------------------------------------------------------------------ *)
(** * the exemption predicate                                          *)
(* ------------------------------------------------------------------ *)

Lemma pkce_guard_eval : forall e, geval e pkce_guard = pkce_on e.
Proof. reflexivity. Qed.

Lemma exempt_iff : forall e prefix meth path,
  exempt e prefix meth path = true <-> allowed e prefix meth path.
Proof.
  intros e prefix meth path. unfold exempt, exempt_with, exempt_pexp, allowed.
  cbn [peval any_entry cmp_eval seval].
  rewrite pkce_guard_eval. cbn [geval].
  rewrite !orb_false_r. rewrite !orb_true_iff, !andb_true_iff.
  rewrite !str_eqb_eq.
  rewrite (starts_with_dir s_well_known path).
  rewrite (app_assoc prefix s_oauth slash).
  rewrite (starts_with_dir (prefix ++ s_oauth) path).
  reflexivity.
Qed.

Lemma exempt_false_iff : forall e prefix meth path,
  exempt e prefix meth path = false <-> ~ allowed e prefix meth path.
Proof.
  intros e prefix meth path. rewrite <- exempt_iff.
  destruct (exempt e prefix meth path); split; intros H; try reflexivity; try discriminate.
  exfalso. apply H. reflexivity.
Qed.

(* the health exemption is the exact path: anything longer that starts like it is exempt only as an
   OPTIONS request or because the whole path lies under /.well-known/ *)
Lemma health_is_exact : forall e prefix meth x,
  x <> [] ->
  exempt e prefix meth (prefix ++ s_health ++ x) = true ->
  meth = s_OPTIONS \/ under_dir s_well_known (prefix ++ s_health ++ x).
Proof.
  intros e prefix meth x Hx H. apply exempt_iff in H.
  destruct H as [H | [H | [[_ H] | [_ (rest & H)]]]].
  - left. exact H.
  - right. exact H.
  - exfalso. apply app_inv_head in H.
    rewrite <- (app_nil_r s_health) in H at 2. apply app_inv_head in H. contradiction.
  - exfalso. rewrite <- app_assoc in H. apply app_inv_head in H.
    unfold s_health, s_oauth in H. cbn [app] in H. inversion H.
Qed.

(* ------------------------------------------------------------------ *)
(** * the request phase                                                *)
(* ------------------------------------------------------------------ *)

Lemma enabled_cons : forall e g m r,
  enabled e ((g, m) :: r) = if geval e g then m :: enabled e r else enabled e r.
Proof.
  intros e g m r. unfold enabled. cbn [filter fst]. destruct (geval e g); reflexivity.
Qed.

Lemma run_mw_other : forall stops f m r,
  m <> MwAuth ->
  run_mw stops f (m :: r) = if stops m then [EvStop m] else EvRequest m :: run_mw stops f r.
Proof. intros stops f m r H. destruct m; try reflexivity. contradiction H; reflexivity. Qed.

(* a request the callback rejects: no routing, no middleware that must follow authentication *)
Lemma run_rejected : forall stops f ml e,
  f_configured f = true -> f_exempt f = false -> f_accepts f = false ->
  order_ok ml = true ->
  existsb is_dispatch (run_mw stops f (enabled e ml)) = false /\
  existsb is_follow_request (run_mw stops f (enabled e ml)) = false /\
  existsb is_auth_call (run_mw stops f (enabled e ml)) = negb (existsb (fun ev => match ev with EvStop _ => true | _ => false end) (run_mw stops f (enabled e ml))).
Proof.
  intros stops f ml e Hc He Ha. induction ml as [| [g m] r IH]; intros Hok.
  - discriminate Hok.
  - rewrite enabled_cons.
    destruct (mw_eqb m MwAuth) eqn:Em.
    + assert (m = MwAuth) by (destruct m; try discriminate Em; reflexivity). subst m.
      cbn [order_ok] in Hok. destruct g; try discriminate Hok. cbn [geval].
      cbn [run_mw]. rewrite Hc, He, Ha. cbn. repeat split; reflexivity.
    + assert (Hne : m <> MwAuth) by (intros ->; discriminate Em).
      assert (Hok' : must_follow_auth m = false /\ order_ok r = true).
      { destruct m; cbn [order_ok must_follow_auth negb andb] in Hok |- *;
          try (split; [reflexivity | exact Hok]); try discriminate Hok.
        exfalso. apply Hne. reflexivity. }
      destruct Hok' as [Hm Hr]. specialize (IH Hr).
      destruct (geval e g); [| exact IH].
      rewrite (run_mw_other stops f m _ Hne).
      destruct (stops m).
      * cbn. repeat split; reflexivity.
      * cbn [existsb is_dispatch is_follow_request is_auth_call orb]. rewrite Hm. cbn [orb]. exact IH.
Qed.

(* whatever the callback answers: on a non-exempt request routing is reached only after the callback
   was asked and accepted *)
Lemma run_dispatch_needs_accept : forall stops f ml e,
  f_configured f = true -> f_exempt f = false -> order_ok ml = true ->
  existsb is_dispatch (run_mw stops f (enabled e ml)) = true ->
  f_accepts f = true /\
  exists pre post, run_mw stops f (enabled e ml) = pre ++ EvAuthCall :: post /\
                   existsb is_dispatch pre = false /\ existsb is_follow_request pre = false.
Proof.
  intros stops f ml e Hc He. induction ml as [| [g m] r IH]; intros Hok Hd.
  - discriminate Hok.
  - rewrite enabled_cons in Hd |- *.
    destruct (mw_eqb m MwAuth) eqn:Em.
    + assert (m = MwAuth) by (destruct m; try discriminate Em; reflexivity). subst m.
      cbn [order_ok] in Hok. destruct g; try discriminate Hok. cbn [geval] in Hd |- *.
      cbn [run_mw] in Hd |- *. rewrite Hc, He in Hd |- *. cbn [negb orb] in Hd |- *.
      destruct (f_accepts f).
      * split; [reflexivity |]. exists [], (EvRequest MwAuth :: run_mw stops f (enabled e r)).
        repeat split; reflexivity.
      * cbn in Hd. discriminate Hd.
    + assert (Hne : m <> MwAuth) by (intros ->; discriminate Em).
      assert (Hok' : must_follow_auth m = false /\ order_ok r = true).
      { destruct m; cbn [order_ok must_follow_auth negb andb] in Hok |- *;
          try (split; [reflexivity | exact Hok]); try discriminate Hok.
        exfalso. apply Hne. reflexivity. }
      destruct Hok' as [Hm Hr].
      destruct (geval e g); [| exact (IH Hr Hd)].
      rewrite (run_mw_other stops f m _ Hne) in Hd |- *.
      destruct (stops m).
      * cbn in Hd. discriminate Hd.
      * cbn [existsb is_dispatch orb] in Hd. destruct (IH Hr Hd) as (Hacc & pre & post & Heq & Hp1 & Hp2).
        split; [exact Hacc |]. exists (EvRequest m :: pre), post. rewrite Heq.
        split; [reflexivity |]. cbn [existsb is_dispatch is_follow_request orb]. rewrite Hm.
        split; assumption.
Qed.

(* the auth middleware lets a request through without asking the callback only when the request is exempt *)
Lemma run_bypass_exempt : forall stops f l,
  f_configured f = true ->
  In (EvRequest MwAuth) (run_mw stops f l) -> ~ In EvAuthCall (run_mw stops f l) ->
  f_exempt f = true.
Proof.
  intros stops f l Hc. induction l as [| m r IH]; intros Hin Hno.
  - cbn in Hin. destruct Hin as [H | []]. discriminate H.
  - destruct (mw_eqb m MwAuth) eqn:Em.
    + assert (m = MwAuth) by (destruct m; try discriminate Em; reflexivity). subst m.
      cbn [run_mw] in Hin, Hno. rewrite Hc in Hin, Hno. cbn [negb orb] in Hin, Hno.
      destruct (f_exempt f); [reflexivity |].
      destruct (f_accepts f).
      * exfalso. apply Hno. left. reflexivity.
      * exfalso. apply Hno. left. reflexivity.
    + assert (Hne : m <> MwAuth) by (intros ->; discriminate Em).
      rewrite (run_mw_other stops f m _ Hne) in Hin, Hno.
      destruct (stops m).
      * destruct Hin as [H | []]. discriminate H.
      * apply IH.
        -- destruct Hin as [H | H]; [inversion H; subst; contradiction Hne; reflexivity | exact H].
        -- intros H. apply Hno. right. exact H.
Qed.

Lemma existsb_false_not_In : forall (p : event -> bool) l x, existsb p l = false -> p x = true -> ~ In x l.
Proof.
  intros p l x H Hp Hin. assert (existsb p l = true) by (apply existsb_exists; exists x; split; assumption).
  congruence.
Qed.

Lemma In_existsb : forall (p : event -> bool) l x, In x l -> p x = true -> existsb p l = true.
Proof. intros p l x Hin Hp. apply existsb_exists. exists x. split; assumption. Qed.

Lemma order_ok_model : order_ok middleware_list = true.
Proof. vm_compute. reflexivity. Qed.

(* ---- statements over an arbitrary predicate term / middleware list (used by the tie) ---- *)
Section Generic.
  Variable p : pexp.
  Variable ml : list (guard * mw).
  Hypothesis Hok : order_ok ml = true.

  Lemma no_dispatch_when_rejected_gen : forall e stops prefix meth path,
    e AAuth = true -> exempt_with p e prefix meth path = false ->
    ~ In EvDispatch (handle_with p ml e stops false prefix meth path) /\
    (forall m, must_follow_auth m = true -> ~ In (EvRequest m) (handle_with p ml e stops false prefix meth path)).
  Proof.
    intros e stops prefix meth path Ha Hex. unfold handle_with.
    set (f := {| f_configured := e AAuth; f_exempt := exempt_with p e prefix meth path; f_accepts := false |}).
    destruct (run_rejected stops f ml e Ha Hex eq_refl Hok) as (H1 & H2 & _).
    split.
    - apply (existsb_false_not_In _ _ _ H1). reflexivity.
    - intros m Hm. apply (existsb_false_not_In _ _ _ H2). exact Hm.
  Qed.

  Lemma dispatch_after_accept_gen : forall e stops accepts prefix meth path,
    e AAuth = true -> exempt_with p e prefix meth path = false ->
    In EvDispatch (handle_with p ml e stops accepts prefix meth path) ->
    accepts = true /\
    exists pre post, handle_with p ml e stops accepts prefix meth path = pre ++ EvAuthCall :: post /\
                     ~ In EvDispatch pre /\ (forall m, must_follow_auth m = true -> ~ In (EvRequest m) pre).
  Proof.
    intros e stops accepts prefix meth path Ha Hex Hin. unfold handle_with in *.
    set (f := {| f_configured := e AAuth; f_exempt := exempt_with p e prefix meth path; f_accepts := accepts |}) in *.
    assert (Hd : existsb is_dispatch (run_mw stops f (enabled e ml)) = true)
      by (apply (In_existsb _ _ _ Hin); reflexivity).
    destruct (run_dispatch_needs_accept stops f ml e Ha Hex Hok Hd) as (Hacc & pre & post & Heq & H1 & H2).
    split; [exact Hacc |]. exists pre, post. split; [exact Heq |]. split.
    - apply (existsb_false_not_In _ _ _ H1). reflexivity.
    - intros m Hm. apply (existsb_false_not_In _ _ _ H2). exact Hm.
  Qed.

  Lemma bypass_only_if_exempt_gen : forall e stops accepts prefix meth path,
    e AAuth = true ->
    In (EvRequest MwAuth) (handle_with p ml e stops accepts prefix meth path) ->
    ~ In EvAuthCall (handle_with p ml e stops accepts prefix meth path) ->
    exempt_with p e prefix meth path = true.
  Proof.
    intros e stops accepts prefix meth path Ha Hin Hno. unfold handle_with in *.
    exact (run_bypass_exempt stops
             {| f_configured := e AAuth; f_exempt := exempt_with p e prefix meth path; f_accepts := accepts |}
             (enabled e ml) Ha Hin Hno).
  Qed.
End Generic.

(* ---- the statements about the modelled source ---- *)
Lemma no_dispatch_when_rejected : forall e stops prefix meth path,
  e AAuth = true -> ~ allowed e prefix meth path ->
  ~ In EvDispatch (handle e stops false prefix meth path) /\
  (forall m, must_follow_auth m = true -> ~ In (EvRequest m) (handle e stops false prefix meth path)).
Proof.
  intros e stops prefix meth path Ha Hna.
  apply (no_dispatch_when_rejected_gen exempt_pexp middleware_list order_ok_model); [exact Ha |].
  apply exempt_false_iff. exact Hna.
Qed.

Lemma dispatch_only_if_allowed : forall e stops prefix meth path,
  e AAuth = true -> In EvDispatch (handle e stops false prefix meth path) -> allowed e prefix meth path.
Proof.
  intros e stops prefix meth path Ha Hin.
  destruct (exempt e prefix meth path) eqn:E; [apply exempt_iff; exact E |].
  exfalso. apply exempt_false_iff in E.
  destruct (no_dispatch_when_rejected e stops prefix meth path Ha E) as [H _]. exact (H Hin).
Qed.

Lemma dispatch_after_accept : forall e stops accepts prefix meth path,
  e AAuth = true -> ~ allowed e prefix meth path ->
  In EvDispatch (handle e stops accepts prefix meth path) ->
  accepts = true /\
  exists pre post, handle e stops accepts prefix meth path = pre ++ EvAuthCall :: post /\
                   ~ In EvDispatch pre /\ (forall m, must_follow_auth m = true -> ~ In (EvRequest m) pre).
Proof.
  intros e stops accepts prefix meth path Ha Hna.
  apply (dispatch_after_accept_gen exempt_pexp middleware_list order_ok_model); [exact Ha |].
  apply exempt_false_iff. exact Hna.
Qed.

Lemma bypass_only_if_allowed : forall e stops accepts prefix meth path,
  e AAuth = true ->
  In (EvRequest MwAuth) (handle e stops accepts prefix meth path) ->
  ~ In EvAuthCall (handle e stops accepts prefix meth path) ->
  allowed e prefix meth path.
Proof.
  intros e stops accepts prefix meth path Ha Hin Hno. apply exempt_iff.
  exact (bypass_only_if_exempt_gen exempt_pexp middleware_list e stops accepts prefix meth path Ha Hin Hno).
Qed.

(* ------------------------------------------------------------------ *)
(** * the composed authenticator (PKCE cookie member)                  *)
(* ------------------------------------------------------------------ *)

(* every question the composed authenticator asks is about THIS request: the Authorization value is the request's own
   header or "Bearer <its cookie>", and the rest of the request / the moment is passed through unchanged *)
Definition member_presentations (ms : list member) (c : creds) : list (option (list N)) :=
  flat_map (fun m => match member_presentation m c with Some a => [a] | None => [] end) ms.
Definition presentations (pkce : bool) (c : creds) : list (option (list N)) :=
  member_presentations (authenticator_members pkce) c.

Lemma chain_calls_sound : forall (R : Type) (cb : callback R) c rest ms a v,
  In (a, v) (chain_calls cb c rest ms) -> In a (member_presentations ms c) /\ v = cb a rest.
Proof.
  intros R cb c rest ms. induction ms as [| m r IH]; intros a v H; [contradiction |].
  cbn [chain_calls] in H. unfold member_presentations in *. cbn [flat_map].
  destruct (member_presentation m c) as [a' |].
  - destruct H as [H | H].
    + inversion H; subst. split; [left; reflexivity | reflexivity].
    + destruct (cb a' rest); try contradiction.
      destruct (IH a v H) as [H1 H2]. split; [right; exact H1 | exact H2].
  - cbn [app]. apply IH. exact H.
Qed.

Lemma auth_calls_sound : forall (R : Type) pkce (cb : callback R) c rest a v,
  In (a, v) (auth_calls pkce cb c rest) -> In a (presentations pkce c) /\ v = cb a rest.
Proof. intros R pkce cb c rest a v H. exact (chain_calls_sound R cb c rest _ a v H). Qed.

Lemma composed_accepts_fresh : forall (R : Type) pkce (cb : callback R) c rest,
  composed_accepts pkce cb c rest = true ->
  exists a, In a (presentations pkce c) /\ cb a rest = VAccept.
Proof.
  intros R pkce cb c rest H. unfold composed_accepts in H. apply existsb_exists in H.
  destruct H as ([a v] & Hin & Hv). cbn [snd] in Hv.
  destruct (auth_calls_sound R pkce cb c rest a v Hin) as [Hp Hveq].
  exists a. split; [exact Hp |]. rewrite <- Hveq. destruct v; try discriminate Hv. reflexivity.
Qed.

(* at most one question per member *)
Lemma chain_calls_length : forall (R : Type) (cb : callback R) c rest ms,
  (length (chain_calls cb c rest ms) <= length ms)%nat.
Proof.
  intros R cb c rest ms. induction ms as [| m r IH]; [apply le_n |].
  cbn [chain_calls length]. destruct (member_presentation m c) as [a |].
  - cbn [length]. destruct (cb a rest); cbn [length]; lia.
  - lia.
Qed.

Lemma dispatch_needs_fresh_verdict : forall (R : Type) e stops (cb : callback R) c rest prefix meth path,
  e AAuth = true -> ~ allowed e prefix meth path ->
  In EvDispatch (handle_cb e stops cb c rest prefix meth path) ->
  exists a, In a (presentations (pkce_on e) c) /\ cb a rest = VAccept.
Proof.
  intros R e stops cb c rest prefix meth path Ha Hna Hin. unfold handle_cb in Hin.
  destruct (dispatch_after_accept e stops _ prefix meth path Ha Hna Hin) as [Hacc _].
  apply composed_accepts_fresh. exact Hacc.
Qed.

(* a history: every step brings its own callback state; the decision of a step never depends on another step *)
Definition step (R : Type) : Type := (callback R * creds * R * list N * list N)%type.
Lemma history_fresh_verdict : forall (R : Type) e stops prefix (h : list (step R)),
  e AAuth = true ->
  Forall (fun s => let '(cb, c, rest, meth, path) := s in
                   ~ allowed e prefix meth path ->
                   In EvDispatch (handle_cb e stops cb c rest prefix meth path) ->
                   exists a, In a (presentations (pkce_on e) c) /\ cb a rest = VAccept) h.
Proof.
  intros R e stops prefix h Ha. apply Forall_forall. intros [[[[cb c] rest] meth] path] _ Hna Hin.
  exact (dispatch_needs_fresh_verdict R e stops cb c rest prefix meth path Ha Hna Hin).
Qed.
