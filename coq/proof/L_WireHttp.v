(* L_WireHttp: the HTTP model against the reference semantics (C01; reused by C11). *)
From Coq Require Import List NArith ZArith Bool Lia.
From VGI Require Import Corr M_Wire L_Wire.
Import ListNotations.
Open Scope N_scope.

Local Opaque err_event finish_refused no_data_batch empty_batch cap_exn.

(* ------------------------------------------------------------------ cut *)
Definition nonterm (t : list event) : bool := forallb (fun e => negb (terminal e)) t.

Lemma cut_app_nt a b : nonterm a = true -> cut (a ++ b) = a ++ cut b.
Proof.
  induction a as [|e r IH]; intro H; [reflexivity|].
  unfold nonterm in H. simpl in H. apply andb_true_iff in H as [He Hr].
  simpl. destruct (terminal e); [discriminate|]. rewrite (IH Hr). reflexivity.
Qed.

Lemma nonterm_logs ls : nonterm (map ELog ls) = true.
Proof. induction ls; [reflexivity|exact IHls]. Qed.

Lemma nonterm_hdr h sp : nonterm (hdr_events h sp) = true.
Proof. unfold hdr_events. destruct h; [destruct (hdr sp)|]; reflexivity. Qed.

Lemma cut_single e : cut [e] = [e].
Proof. simpl. destruct (terminal e); reflexivity. Qed.

Lemma log_event_go c m e : log_event c m = (e, true) -> e = ELog m.
Proof. unfold log_event. destruct (lvl m), c; intro H; inversion H; reflexivity. Qed.

Lemma cut_consume c : forall fs n, cut (http_consume c fs n) = http_consume c fs n.
Proof.
  induction fs as [|f r IH]; intro n.
  - cbn. destruct (is_zero n); reflexivity.
  - cbn [http_consume]. destruct (is_zero n) eqn:Hz; [reflexivity|].
    destruct f as [m|b|e|v|t|]; try apply IH.
    + destruct (log_event c m) as [e go] eqn:E. destruct go; [|apply cut_single].
      rewrite (log_event_go _ _ _ E). simpl. rewrite IH. reflexivity.
    + simpl. rewrite IH. reflexivity.
    + apply cut_single.
Qed.

Lemma cut_deliver c ls k : cut (deliver c ls k) = deliver c ls (cut k).
Proof.
  induction ls as [|m r IH]; [reflexivity|]. cbn [deliver].
  destruct (log_event c m) as [e go] eqn:E. destruct go; [|apply cut_single].
  rewrite (log_event_go _ _ _ E). simpl. rewrite IH. reflexivity.
Qed.

Lemma cut_err e : cut [err_event e] = [err_event e].
Proof. apply cut_single. Qed.

Lemma cut_obs_prod c : forall sts n, cut (obs_prod c sts n) = obs_prod c sts n.
Proof.
  induction sts as [|x r IH]; intro n.
  - cbn. destruct (is_zero n); reflexivity.
  - cbn [obs_prod]. destruct (is_zero n); [reflexivity|].
    destruct (exec_step true (Some x)) as [fs [|]|e].
    + rewrite cut_deliver. f_equal. destruct (emit x); [|reflexivity]. simpl. destruct (is_zero (opred n)); reflexivity.
    + rewrite cut_deliver. f_equal. destruct (emit x); [|reflexivity]. simpl. rewrite IH. reflexivity.
    + apply cut_single.
Qed.

(* ------------------------------------------------------------------ the client's sequential view of all turns *)
Lemma consume_logs ls q : quiet ls = true ->
  http_consume CbRecord (map FLog ls ++ q) None = map ELog ls ++ http_consume CbRecord q None.
Proof.
  induction ls as [|m r IH]; intro H; [reflexivity|].
  apply quiet_cons in H as [Hm Hr]. cbn [map app http_consume is_zero].
  rewrite (log_event_quiet m Hm), (IH Hr). reflexivity.
Qed.

Lemma consume_data pend q : http_consume CbRecord (map FData pend ++ q) None = map EBatch pend ++ http_consume CbRecord q None.
Proof. induction pend as [|b r IH]; [reflexivity|]. cbn. rewrite IH. reflexivity. Qed.

(* every turn boundary is invisible: consuming the concatenated turns is the reference producer semantics, for every cap *)
Lemma consume_frames cfg : forall sts i z, steps_quiet sts = true ->
  http_consume CbRecord (http_frames cfg sts i z) None = obs_prod CbRecord sts None.
Proof.
  induction sts as [|x r IH]; intros i z Hq; [reflexivity|].
  unfold steps_quiet in Hq. simpl in Hq. apply andb_true_iff in Hq as [Hx Hr].
  cbn [http_frames obs_prod is_zero]. rewrite (exec_prod x).
  destruct (sraise x) as [e|]; [reflexivity|].
  destruct (fin x).
  - rewrite (consume_logs _ _ Hx), (deliver_quiet _ _ Hx). destruct (emit x); reflexivity.
  - destruct (emit x) as [b|]; [|reflexivity].
    rewrite (deliver_quiet _ _ Hx).
    destruct (keep_going cfg (add_sizes cfg z (map FLog (slogs x) ++ [FData b]))).
    + rewrite <- app_assoc. rewrite (consume_logs _ _ Hx). cbn. rewrite (IH _ _ Hr). reflexivity.
    + rewrite <- app_assoc. rewrite (consume_logs _ _ Hx). cbn. rewrite (IH _ _ Hr). reflexivity.
Qed.

(* ------------------------------------------------------------------ the eagerly parsed first response *)
(* when the first response parses to a session, hoisting its logs in front of its batches does not change any
   component of the observation *)
Lemma parse_init_proj (f : event -> bool) :
  (forall m, f (ELog m) = false) \/ (forall b, f (EBatch b) = false) ->
  forall fs pend es pend' later,
  http_parse_init CbRecord fs pend = (es, Some (pend', later)) ->
  filter f (es ++ http_consume CbRecord (map FData pend' ++ later) None)
  = filter f (map EBatch pend ++ http_consume CbRecord fs None)
  /\ forallb is_log es = true.
Proof.
  intros Hf. induction fs as [|fr r IH]; intros pend es pend' later H.
  - inversion H; subst. cbn [app]. split; [|reflexivity].
    rewrite consume_data. reflexivity.
  - cbn [http_parse_init] in H. destruct fr as [m|b|e|v|t|].
    + destruct (log_event CbRecord m) as [ev go] eqn:E. destruct go; [|inversion H].
      destruct (http_parse_init CbRecord r pend) as [es' o'] eqn:E'. inversion H; subst.
      pose proof (log_event_go _ _ _ E) as ->.
      destruct (IH _ _ _ _ E') as [IH1 IH2]. split; [|exact IH2].
      cbn [http_consume is_zero]. rewrite E.
      rewrite !filter_app in *. cbn [filter app].
      destruct Hf as [Hl|Hb].
      * rewrite Hl. rewrite <- filter_app. rewrite <- IH1. rewrite filter_app. reflexivity.
      * assert (Hnil : filter f (map EBatch pend) = []).
        { clear -Hb. induction pend as [|b r IHp]; [reflexivity|]. simpl. rewrite Hb. exact IHp. }
        rewrite Hnil in *. cbn [app] in *. destruct (f (ELog m)); rewrite <- IH1; reflexivity.
    + destruct (IH _ _ _ _ H) as [IH1 IH2]. split; [|exact IH2].
      rewrite IH1. cbn [http_consume is_zero opred option_map]. rewrite map_app. cbn [map]. rewrite <- app_assoc. reflexivity.
    + inversion H.
    + destruct (IH _ _ _ _ H) as [IH1 IH2]. split; [|exact IH2]. rewrite IH1. reflexivity.
    + inversion H; subst. split; [|reflexivity]. cbn [app http_consume is_zero]. rewrite consume_data. reflexivity.
    + destruct (IH _ _ _ _ H) as [IH1 IH2]. split; [|exact IH2]. rewrite IH1. reflexivity.
Qed.

Lemma logs_nonterm es : forallb is_log es = true -> nonterm es = true.
Proof.
  induction es as [|e r IH]; [reflexivity|]. simpl. intro H. apply andb_true_iff in H as [He Hr].
  unfold nonterm. simpl. destruct e; try discriminate He. simpl. exact (IH Hr).
Qed.

Lemma filter_logs_only f es : forallb is_log es = true -> (forall m, f (ELog m) = false) -> filter f es = [].
Proof.
  intros H Hf. induction es as [|e r IH]; [reflexivity|]. simpl in H. apply andb_true_iff in H as [He Hr].
  destruct e; try discriminate He. simpl. rewrite Hf. exact (IH Hr).
Qed.

Lemma filter_hdr f h sp : (forall v, f (EHeader v) = false) -> filter f (hdr_events h sp) = [].
Proof. intro Hf. unfold hdr_events. destruct h; [destruct (hdr sp)|]; simpl; rewrite ?Hf; reflexivity. Qed.

Lemma filter_maplog f ls : (forall m, f (ELog m) = false) -> filter f (map ELog ls) = [].
Proof. intro Hf. induction ls; [reflexivity|]. simpl. rewrite Hf. assumption. Qed.

(* ------------------------------------------------------------------ exchange and unary: exact *)
Lemma http_exch_exact cfg : forall n sts, steps_quiet sts = true -> exch_fits cfg sts n = true ->
  http_exch cfg CbRecord sts n = obs_exch CbRecord sts n.
Proof.
  induction n as [|n IH]; intros sts Hq Hfit; [reflexivity|].
  destruct (hd_quiet sts Hq) as [Hh Ht].
  cbn [http_exch obs_exch exch_fits] in *.
  pose proof (exec_exch (hd_error sts)) as He.
  destruct (exec_step false (hd_error sts)) as [fs fl|e]; [|reflexivity].
  destruct He as [-> ->]. { destruct (hd_error sts); [unfold steps_quiet; simpl; unfold step_logs in Hh; rewrite Hh; reflexivity|reflexivity]. }
  apply andb_true_iff in Hfit as [Hc Hrest].
  destruct (over_cap cfg _); [discriminate Hc|].
  rewrite <- app_assoc. rewrite (cli_read_logs _ _ Hh). cbn [app cli_read].
  rewrite (deliver_quiet _ _ Hh), (IH _ Ht Hrest). rewrite <- app_assoc. reflexivity.
Qed.

(* ------------------------------------------------------------------ C01: HTTP *)
Theorem http_refines_partial : forall cfg p sc,
  legal p sc = true -> records sc = true -> no_exc_logs p = true -> complete sc = true ->
  fits cfg p sc = true -> first_turn_ok cfg p sc = true ->
  proj (run_http cfg p sc) = proj (cut (observe p sc)).
Proof.
  intros cfg p sc Hlegal Hrec Hq Hcomp Hfit Hok. unfold run_http.
  destruct p as [u|sp]; destruct sc as [c|h k a c|h n a c]; try discriminate Hlegal;
    destruct c; try discriminate Hrec; clear Hrec.
  - (* unary: exact *)
    f_equal. f_equal. cbn in Hq. cbn [observe fits] in *. rewrite (deliver_quiet _ _ Hq).
    destruct (ures_of u) as [v|e].
    + cbn [andb]. destruct (over_cap cfg _); [discriminate Hfit|].
      rewrite <- app_assoc. rewrite (cli_read_logs _ _ Hq). cbn. rewrite ?app_nil_r. reflexivity.
    + cbn [andb]. rewrite <- app_assoc. rewrite (cli_read_logs _ _ Hq). cbn. rewrite ?app_nil_r. reflexivity.
  - (* producer, iterated to exhaustion *)
    destruct a; try discriminate Hcomp.
    cbn in Hq. apply andb_true_iff in Hq as [Hil Hst].
    unfold legal in Hlegal. cbn in Hlegal. rewrite andb_true_r in Hlegal. apply andb_true_iff in Hlegal as [Hi Hh].
    cbn [observe first_turn_ok] in *.
    destruct (ires sp) as [|e|]; try discriminate Hi; [|reflexivity].
    assert (Hnh : (h && match hdr sp with None => true | Some _ => false end) = false).
    { destruct h; [destruct (hdr sp); [reflexivity|discriminate Hh]|reflexivity]. }
    rewrite Hnh.
    set (z0 := add_sizes cfg (base cfg) (if h then [] else map FLog (ilogs sp))) in *.
    destruct (http_parse_init CbRecord (map FLog (ilogs sp) ++ http_frames cfg (steps sp) 0 z0) []) as [es o] eqn:E.
    cbn [snd] in Hok. destruct o as [[pend later]|]; [|discriminate Hok].
    rewrite (deliver_quiet _ _ Hil).
    assert (Hall : forall f, (forall m, f (ELog m) = false) \/ (forall b, f (EBatch b) = false) ->
              filter f (es ++ http_consume CbRecord (map FData pend ++ later) None)
              = filter f (map ELog (ilogs sp) ++ obs_prod CbRecord (steps sp) None) /\ forallb is_log es = true).
    { intros f Hf. destruct (parse_init_proj f Hf _ _ _ _ _ E) as [H1 H2]. split; [|exact H2].
      rewrite H1. cbn [map app]. rewrite (consume_logs _ _ Hil), (consume_frames _ _ _ _ Hst). reflexivity. }
    destruct (Hall is_log (or_intror (fun _ => eq_refl))) as [Hlog Hes].
    destruct (Hall is_data (or_introl (fun _ => eq_refl))) as [Hdat _].
    destruct (Hall is_end (or_introl (fun _ => eq_refl))) as [Hend _].
    rewrite (cut_app_nt es _ (logs_nonterm _ Hes)), (cut_app_nt _ _ (nonterm_hdr h sp)), cut_consume.
    rewrite (cut_app_nt _ _ (nonterm_logs _)), (cut_app_nt _ _ (nonterm_hdr h sp)), cut_obs_prod.
    unfold proj. rewrite !filter_app in *.
    rewrite (filter_hdr is_log h sp (fun _ => eq_refl)), (filter_hdr is_end h sp (fun _ => eq_refl)).
    rewrite (filter_logs_only is_data es Hes (fun _ => eq_refl)) in *.
    rewrite (filter_maplog is_data _ (fun _ => eq_refl)) in *.
    rewrite (filter_logs_only is_end es Hes (fun _ => eq_refl)) in *.
    rewrite (filter_maplog is_end _ (fun _ => eq_refl)) in *.
    cbn [app] in *. rewrite Hlog, Hdat, Hend. reflexivity.
  - (* exchange: exact *)
    f_equal. f_equal.
    cbn in Hq. apply andb_true_iff in Hq as [Hil Hst].
    unfold legal in Hlegal. cbn [script_kind_ok after_ok] in Hlegal. apply andb_true_iff in Hlegal as [Hk Ha].
    apply andb_true_iff in Hk as [Hi Hh].
    cbn [observe fits] in *.
    destruct (ires sp) as [|e|]; try discriminate Hi; [|reflexivity].
    assert (Hnh : (h && match hdr sp with None => true | Some _ => false end) = false).
    { destruct h; [destruct (hdr sp); [reflexivity|discriminate Hh]|reflexivity]. }
    rewrite Hnh. rewrite (http_exch_exact cfg _ _ Hst Hfit). reflexivity.
Qed.
