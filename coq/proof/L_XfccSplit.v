(* The quote-aware splitter of M_Xfcc as a three-state machine (outside quotes / inside / after a
   backslash inside) and its laws: lossless, cuts only outside quotes, no re-split, composition. *)
From Coq Require Import List NArith Bool Lia.
From VGI Require Import M_Xfcc.
Import ListNotations.
Open Scope N_scope.

Inductive qst := QOut | QIn | QEsc.

Definition qnext (st : qst) (c : N) : qst :=
  match st with
  | QOut => if c =? c_quote then QIn else QOut
  | QIn => if c =? c_quote then QOut else if c =? c_bslash then QEsc else QIn
  | QEsc => QIn
  end.
Definition is_out (st : qst) : bool := match st with QOut => true | _ => false end.
Definition cuts (d : N) (st : qst) (c : N) : bool := is_out st && (negb (c =? c_quote) && (c =? d)).

Fixpoint split3 (d : N) (st : qst) (s : str) : list str :=
  match s with
  | [] => [[]]
  | c :: r => if cuts d st c then [] :: split3 d QOut r else cons_hd c (split3 d (qnext st c) r)
  end.
Definition run3 (st : qst) (s : str) : qst := fold_left qnext s st.
Definition st_of (inq : bool) : qst := if inq then QIn else QOut.

Lemma list_ind2 (P : str -> Prop) :
  P [] -> (forall c, P [c]) -> (forall c c2 r, P r -> P (c2 :: r) -> P (c :: c2 :: r)) -> forall s, P s.
Proof.
  intros H0 H1 H2 s. assert (H : P s /\ forall c, P (c :: s)).
  { induction s as [|x r [IH1 IH2]].
    - split; [exact H0 | exact H1].
    - split; [apply IH2 | intro c; apply H2; [exact IH1 | apply IH2]]. }
  exact (proj1 H).
Qed.

Lemma split3_nonnil : forall d s st, split3 d st s <> [].
Proof.
  intros d s; induction s as [|c r IH]; intro st; simpl; [discriminate|].
  destruct (cuts d st c); [discriminate|].
  specialize (IH (qnext st c)). destruct (split3 d (qnext st c) r); [contradiction | simpl; discriminate].
Qed.

(* the model's two-characters-at-a-time escape handling is the three-state machine *)
Ltac tests c d :=
  destruct (c =? c_quote) eqn:Eq, (c =? c_bslash) eqn:Eb, (c =? d) eqn:Ed; cbn [negb andb].

Lemma split_st_split3 : forall d s inq, split_st d inq s = split3 d (st_of inq) s.
Proof.
  intros d s. induction s as [|c|c c2 r IHr IHc2] using list_ind2; intro inq.
  - reflexivity.
  - destruct inq; cbn -[N.eqb c_quote c_bslash]; unfold cuts; cbn [is_out]; tests c d; reflexivity.
  - change (split_st d inq (c :: c2 :: r)) with
      (if c =? c_quote then cons_hd c (split_st d (negb inq) (c2 :: r))
       else if (c =? c_bslash) && inq then cons_hd c (cons_hd c2 (split_st d inq r))
       else if (c =? d) && negb inq then [] :: split_st d inq (c2 :: r)
       else cons_hd c (split_st d inq (c2 :: r))).
    change (split3 d (st_of inq) (c :: c2 :: r)) with
      (if cuts d (st_of inq) c then [] :: split3 d QOut (c2 :: r)
       else cons_hd c (split3 d (qnext (st_of inq) c) (c2 :: r))).
    rewrite !IHc2, IHr.
    destruct inq; cbn [st_of qnext negb]; unfold cuts; cbn [is_out]; tests c d; try reflexivity.
Qed.

Lemma end_state_run3 : forall s inq, end_state inq s = false <-> run3 (st_of inq) s = QOut.
Proof.
  intro s. induction s as [|c|c c2 r IHr IHc2] using list_ind2; intro inq.
  - destruct inq; simpl; split; intro H; try reflexivity; discriminate.
  - unfold run3. destruct inq; cbn -[N.eqb c_quote c_bslash]; tests c c; split; intro H; try reflexivity; discriminate.
  - change (end_state inq (c :: c2 :: r)) with
      (if c =? c_quote then end_state (negb inq) (c2 :: r)
       else if (c =? c_bslash) && inq then end_state inq r
       else end_state inq (c2 :: r)).
    change (run3 (st_of inq) (c :: c2 :: r)) with (run3 (qnext (st_of inq) c) (c2 :: r)).
    pose proof (IHr true) as R1. pose proof (IHc2 true) as R2. pose proof (IHc2 false) as R3.
    change (run3 QEsc (c2 :: r)) with (run3 QIn r).
    destruct inq; cbn [st_of qnext negb] in *; tests c c; assumption.
Qed.

Lemma closed_run3 : forall s, closed s = true <-> run3 QOut s = QOut.
Proof.
  intro s. unfold closed. rewrite negb_true_iff. apply (end_state_run3 s false).
Qed.

Lemma run3_app : forall a b st, run3 st (a ++ b) = run3 (run3 st a) b.
Proof. intros; unfold run3; apply fold_left_app. Qed.

(* ---- join ---- *)
Lemma join_cons : forall d p l, l <> [] -> join d (p :: l) = p ++ d :: join d l.
Proof. intros d p l H. destruct l; [contradiction | reflexivity]. Qed.

Lemma join_cons_hd : forall d c l, l <> [] -> join d (cons_hd c l) = c :: join d l.
Proof.
  intros d c l H. destruct l as [|p [|q ps]]; [contradiction | reflexivity | reflexivity].
Qed.

Lemma join_app : forall d l1 l2, l1 <> [] -> l2 <> [] -> join d (l1 ++ l2) = join d l1 ++ d :: join d l2.
Proof.
  intros d l1; induction l1 as [|p l1 IH]; intros l2 H1 H2; [contradiction|].
  destruct l1 as [|q l1].
  - simpl app. rewrite join_cons by exact H2. reflexivity.
  - change ((p :: q :: l1) ++ l2) with (p :: (q :: l1) ++ l2).
    rewrite join_cons by (simpl; discriminate). rewrite IH by (try discriminate; exact H2).
    rewrite (join_cons d p (q :: l1)) by discriminate. rewrite <- app_assoc. reflexivity.
Qed.

Theorem split3_join : forall d s st, join d (split3 d st s) = s.
Proof.
  intros d s; induction s as [|c r IH]; intro st; simpl; [reflexivity|].
  destruct (cuts d st c) eqn:Ec.
  - rewrite join_cons by apply split3_nonnil. rewrite IH. simpl.
    unfold cuts in Ec. apply andb_true_iff in Ec as [_ Ec]. apply andb_true_iff in Ec as [_ Ec].
    apply N.eqb_eq in Ec. subst; reflexivity.
  - rewrite join_cons_hd by apply split3_nonnil. rewrite IH. reflexivity.
Qed.

(* ---- glue: composition of the splits of two adjacent texts ---- *)
Definition prepend (p : str) (l : list str) : list str :=
  match l with q :: qs => (p ++ q) :: qs | [] => [p] end.
Fixpoint glue (l1 l2 : list str) : list str :=
  match l1 with
  | [] => l2
  | p :: ps => match ps with [] => prepend p l2 | _ => p :: glue ps l2 end
  end.

Lemma glue_cons_hd : forall c l1 l2, l1 <> [] -> l2 <> [] -> glue (cons_hd c l1) l2 = cons_hd c (glue l1 l2).
Proof.
  intros c l1 l2 H1 H2. destruct l1 as [|p [|q ps]]; [contradiction | |].
  - simpl. destruct l2; [contradiction | reflexivity].
  - reflexivity.
Qed.
Lemma glue_nil_cons : forall l1 l2, l1 <> [] -> glue ([] :: l1) l2 = [] :: glue l1 l2.
Proof. intros l1 l2 H. destruct l1; [contradiction | reflexivity]. Qed.
Lemma glue_nonnil : forall l1 l2, l2 <> [] -> glue l1 l2 <> [].
Proof.
  intros l1 l2 H. destruct l1 as [|p [|q ps]]; simpl; [exact H | destruct l2; discriminate | discriminate].
Qed.
Lemma glue_cut : forall l1 l2, l1 <> [] -> glue l1 ([] :: l2) = l1 ++ l2.
Proof.
  intros l1; induction l1 as [|p l1 IH]; intros l2 H; [contradiction|].
  destruct l1 as [|q l1].
  - simpl. rewrite app_nil_r. reflexivity.
  - change (glue (p :: q :: l1) ([] :: l2)) with (p :: glue (q :: l1) ([] :: l2)).
    rewrite IH by discriminate. reflexivity.
Qed.

Lemma run3_cut : forall d c r, cuts d QOut c = true -> run3 QOut (c :: r) = run3 QOut r.
Proof.
  intros d c r H. unfold cuts in H. apply andb_true_iff in H as [_ H]. apply andb_true_iff in H as [H _].
  apply negb_true_iff in H. unfold run3; simpl. rewrite H. reflexivity.
Qed.
Lemma cuts_out : forall d st c, cuts d st c = true -> st = QOut.
Proof.
  intros d st c H. unfold cuts in H. apply andb_true_iff in H as [H _]. destruct st; [reflexivity | discriminate | discriminate].
Qed.

Theorem split3_app : forall d a b st,
  split3 d st (a ++ b) = glue (split3 d st a) (split3 d (run3 st a) b).
Proof.
  intros d a; induction a as [|c a IH]; intros b st.
  - simpl. destruct (split3 d st b) eqn:E; [exfalso; revert E; apply split3_nonnil | reflexivity].
  - simpl app. simpl split3. destruct (cuts d st c) eqn:Ec.
    + pose proof (cuts_out _ _ _ Ec) as ->. change (run3 (qnext QOut c) a) with (run3 QOut (c :: a)). rewrite (run3_cut d) by exact Ec.
      rewrite IH. rewrite glue_nil_cons by apply split3_nonnil. reflexivity.
    + rewrite IH.
      rewrite glue_cons_hd; [reflexivity | apply split3_nonnil | apply split3_nonnil].
Qed.

(* a delimiter after a closed prefix always separates *)
Theorem split3_cut_after_closed : forall d a b,
  d <> c_quote -> run3 QOut a = QOut ->
  split3 d QOut (a ++ d :: b) = split3 d QOut a ++ split3 d QOut b.
Proof.
  intros d a b Hd Ha. rewrite split3_app, Ha. simpl split3.
  assert (E : cuts d QOut d = true).
  { unfold cuts. rewrite N.eqb_refl. apply N.eqb_neq in Hd. rewrite Hd. reflexivity. }
  rewrite E. apply glue_cut. apply split3_nonnil.
Qed.

(* ---- cuts are outside quotes; parts do not split again ---- *)
Definition nosplit (d : N) (st : qst) (p : str) : Prop := split3 d st p = [p].

Lemma split3_parts_nosplit : forall d s st,
  match split3 d st s with
  | [] => False
  | p :: rest => nosplit d st p /\ Forall (nosplit d QOut) rest
  end.
Proof.
  intros d s; induction s as [|c r IH]; intro st.
  - simpl. split; [reflexivity | constructor].
  - simpl. destruct (cuts d st c) eqn:Ec.
    + split; [reflexivity|]. specialize (IH QOut). destruct (split3 d QOut r) as [|p rest]; [contradiction|].
      destruct IH as [H1 H2]. constructor; assumption.
    + specialize (IH (qnext st c)). destruct (split3 d (qnext st c) r) as [|p rest]; [contradiction|].
      destruct IH as [H1 H2]. simpl. split; [|exact H2].
      unfold nosplit in *. simpl. rewrite Ec, H1. reflexivity.
Qed.

Lemma split3_parts_closed : forall d s st,
  match split3 d st s with
  | [] => False
  | [p] => True
  | p :: rest => run3 st p = QOut /\ Forall (fun q => run3 QOut q = QOut) (removelast rest)
  end.
Proof.
  intros d s; induction s as [|c r IH]; intro st.
  - simpl. exact I.
  - simpl. destruct (cuts d st c) eqn:Ec.
    + pose proof (cuts_out _ _ _ Ec) as ->. specialize (IH QOut).
      destruct (split3 d QOut r) as [|p [|q rest]] eqn:E; [contradiction | |].
      * split; [reflexivity | constructor].
      * destruct IH as [H1 H2]. split; [reflexivity|].
        change (removelast (p :: q :: rest)) with (p :: removelast (q :: rest)). constructor; assumption.
    + specialize (IH (qnext st c)). destruct (split3 d (qnext st c) r) as [|p [|q rest]]; [contradiction | exact I |].
      destruct IH as [H1 H2]. simpl cons_hd. split; [exact H1 | exact H2].
Qed.

(* uniqueness: any decomposition into closed, non-splitting parts is the one the splitter returns *)
Theorem split3_unique : forall d ps,
  d <> c_quote -> ps <> [] ->
  Forall (fun p => run3 QOut p = QOut) (removelast ps) -> Forall (nosplit d QOut) ps ->
  split3 d QOut (join d ps) = ps.
Proof.
  intros d ps Hd; induction ps as [|p ps IH]; intros Hn Hc Hs; [contradiction|].
  destruct ps as [|q ps].
  - simpl. inversion Hs; subst. assumption.
  - rewrite join_cons by discriminate.
    change (removelast (p :: q :: ps)) with (p :: removelast (q :: ps)) in Hc.
    inversion Hc as [|? ? Hp Hc']; subst. inversion Hs as [|? ? Hsp Hs']; subst.
    rewrite split3_cut_after_closed by assumption. rewrite Hsp, IH; [reflexivity | discriminate | assumption | assumption].
Qed.

(* ---- atoms: closed texts that never split; closed under concatenation ---- *)
Definition atom (d : N) (p : str) : Prop := run3 QOut p = QOut /\ split3 d QOut p = [p].

Lemma atom_app : forall d p q, atom d p -> atom d q -> atom d (p ++ q).
Proof.
  intros d p q [Hp1 Hp2] [Hq1 Hq2]. split.
  - rewrite run3_app, Hp1. exact Hq1.
  - rewrite split3_app, Hp1, Hp2, Hq2. reflexivity.
Qed.
Lemma atom_nil : forall d, atom d [].
Proof. intro d; split; reflexivity. Qed.

Definition plain_for (d : N) (c : N) : bool := negb (c =? c_quote) && negb (c =? d).
Lemma atom_plain : forall d p, forallb (plain_for d) p = true -> atom d p.
Proof.
  intros d p; induction p as [|c p IH]; intro H; [apply atom_nil|].
  simpl in H. apply andb_true_iff in H as [Hc Hp]. apply (atom_app d [c] p); [|apply IH; exact Hp].
  unfold plain_for in Hc. apply andb_true_iff in Hc as [H1 H2]. apply negb_true_iff in H1, H2.
  split.
  - unfold run3; simpl. rewrite H1. reflexivity.
  - simpl. unfold cuts. rewrite H1, H2. reflexivity.
Qed.

Lemma esc_in_quotes : forall d v rest,
  run3 QIn (esc v ++ rest) = run3 QIn rest /\
  split3 d QIn (esc v ++ rest) = prepend (esc v) (split3 d QIn rest).
Proof.
  intros d v; induction v as [|c v IH]; intro rest.
  - simpl. split; [reflexivity|]. destruct (split3 d QIn rest) eqn:E; [exfalso; revert E; apply split3_nonnil | reflexivity].
  - destruct (IH rest) as [IH1 IH2]. simpl esc.
    destruct ((c =? c_quote) || (c =? c_bslash)) eqn:Es.
    + change ((c_bslash :: c :: esc v) ++ rest) with (c_bslash :: c :: (esc v ++ rest)). split.
      * change (run3 QIn (c_bslash :: c :: esc v ++ rest)) with (run3 QIn (esc v ++ rest)). exact IH1.
      * change (split3 d QIn (c_bslash :: c :: esc v ++ rest)) with
          (cons_hd c_bslash (cons_hd c (split3 d QIn (esc v ++ rest)))).
        rewrite IH2. destruct (split3 d QIn rest); reflexivity.
    + apply orb_false_iff in Es as [E1 E2].
      change ((c :: esc v) ++ rest) with (c :: (esc v ++ rest)). split.
      * unfold run3 in *; simpl. rewrite E1, E2. exact IH1.
      * simpl. rewrite E1, E2. rewrite IH2.
        destruct (split3 d QIn rest); reflexivity.
Qed.

Lemma atom_quote_str : forall d v, atom d (quote_str v).
Proof.
  intros d v. unfold quote_str. destruct (esc_in_quotes d v [c_quote]) as [H1 H2]. split.
  - change (run3 QOut (c_quote :: esc v ++ [c_quote])) with (run3 QIn (esc v ++ [c_quote])). rewrite H1. reflexivity.
  - change (split3 d QOut (c_quote :: esc v ++ [c_quote])) with (cons_hd c_quote (split3 d QIn (esc v ++ [c_quote]))).
    rewrite H2. reflexivity.
Qed.

Lemma atom_join : forall d d' ps, plain_for d d' = true -> Forall (atom d) ps -> atom d (join d' ps).
Proof.
  intros d d' ps Hd; induction ps as [|p ps IH]; intro H; [apply atom_nil|].
  inversion H as [|? ? Hp Hps]; subst. destruct ps as [|q ps]; [exact Hp|].
  rewrite join_cons by discriminate. apply atom_app; [exact Hp|].
  apply (atom_app d [d']); [apply atom_plain; simpl; rewrite Hd; reflexivity | apply IH; exact Hps].
Qed.

Lemma split3_join_atoms : forall d ps, d <> c_quote -> ps <> [] -> Forall (atom d) ps -> split3 d QOut (join d ps) = ps.
Proof.
  intros d ps Hd Hn Ha. apply split3_unique; try assumption.
  - clear Hn. induction Ha as [|p ps [Hp _] _ IH]; [constructor|].
    destruct ps as [|q ps]; [constructor|]. change (removelast (p :: q :: ps)) with (p :: removelast (q :: ps)). constructor; assumption.
  - eapply Forall_impl; [|exact Ha]. intros p [_ H]; exact H.
Qed.
