(* L_WireErr: C07 -- the error-metadata codec (Layer A) and the HTTP marker (Layer H) of model/M_WireErr.v. *)
From Coq Require Import List NArith ZArith Bool Lia String.
From VGI Require Import Corr M_Wire M_WireErr.
Import ListNotations.
Open Scope N_scope.

(* ================================================================== Layer A *)
Section CodecFacts.
  Variable dumps : jobj -> str.
  Variable loads : str -> option jobj.
  Hypothesis loads_dumps : forall o, loads (dumps o) = Some o.

  Lemma jget_kind_entries (v : exc_view) :
    jget X_KIND (snd (from_exception v)) = option_map JStr (kind (xe v)).
  Proof.
    unfold from_exception; cbn [snd]. destruct (xcause v), (xcontext v), (kind (xe v)); reflexivity.
  Qed.

  Lemma jget_type_entries (v : exc_view) : jget X_TYPE (snd (from_exception v)) = Some (JStr (cls (xe v))).
  Proof. reflexivity. Qed.

  Lemma jget_tb_entries (v : exc_view) : jget X_TRACEBACK (snd (from_exception v)) = Some (JStr (xtb v)).
  Proof. reflexivity. Qed.

  (* the metadata _write_error_batch puts on the wire, spelled out *)
  Lemma error_metadata_shape (v : exc_view) sid rid :
    error_metadata dumps v sid rid =
      [(K_LEVEL, L_EXCEPTION); (K_MESSAGE, summary (xe v)); (K_EXTRA, dumps (snd (from_exception v)))]
      ++ match kind (xe v) with Some k => [(K_KIND, k)] | None => [] end
      ++ match sid with Some i => [(K_SERVER_ID, i)] | None => [] end
      ++ match rid with [] => [] | _ => [(K_REQUEST_ID, rid)] end.
  Proof.
    unfold error_metadata, stamp, add_to_metadata.
    pose proof (jget_kind_entries v) as Hk.
    destruct (from_exception v) as [msg extra] eqn:E. cbn [snd] in *.
    assert (msg = summary (xe v)) as -> by (unfold from_exception in E; inversion E; reflexivity).
    assert (Hne : extra <> []) by (unfold from_exception in E; inversion E; discriminate).
    destruct extra as [|x0 r0]; [contradiction|]. rewrite Hk.
    destruct (kind (xe v)); cbn [option_map app]; reflexivity.
  Qed.

  (* key lookups on that metadata: every key is found at its own entry (the keys are pairwise different constants) *)
  Lemma mget_error_metadata (v : exc_view) sid rid :
    let md := error_metadata dumps v sid rid in
    mget K_LEVEL md = Some L_EXCEPTION /\ mget K_MESSAGE md = Some (summary (xe v))
    /\ mget K_EXTRA md = Some (dumps (snd (from_exception v)))
    /\ mget K_KIND md = kind (xe v)
    /\ mget K_REQUEST_ID md = match rid with [] => None | _ => Some rid end.
  Proof.
    cbv zeta. rewrite error_metadata_shape.
    destruct (kind (xe v)) as [k|], sid as [i|], rid as [|c r]; repeat split; reflexivity.
  Qed.

  (* C07 (type, text, traceback, request id, kind): the client raises exactly the expected error *)
  Theorem client_error_exact (v : exc_view) sid rid :
    client_error dumps loads v sid rid = DRaise (expected_error v rid).
  Proof.
    unfold client_error, dispatch, dispatch_gen.
    destruct (mget_error_metadata v sid rid) as (Hl & Hm & Hx & Hk & Hr).
    cbn [N.eqb negb]. rewrite Hl, Hm, Hx, Hk, Hr, loads_dumps.
    rewrite jget_type_entries, jget_tb_entries. cbn [jstr_of].
    change (str_eqb L_EXCEPTION L_EXCEPTION) with true. cbv iota.
    unfold expected_error. destruct rid; reflexivity.
  Qed.

  (* the kind is CARRIED: top-level key and mirrored inside log_extra, exactly when the exception has a str kind *)
  Theorem kind_carried (v : exc_view) sid rid :
    mget K_KIND (error_metadata dumps v sid rid) = kind (xe v)
    /\ (forall o, loads (dumps (snd (from_exception v))) = Some o -> jget X_KIND o = option_map JStr (kind (xe v))).
  Proof.
    split.
    - apply (mget_error_metadata v sid rid).
    - intros o Ho. rewrite loads_dumps in Ho. inversion Ho; subst. apply jget_kind_entries.
  Qed.

  (* the client of the unrepaired tree: everything but the kind *)
  Lemma client_error_old (v : exc_view) sid rid :
    dispatch_gen loads false 0 (Some (error_metadata dumps v sid rid)) =
      DRaise {| r_type := cls (xe v); r_message := summary (xe v); r_traceback := xtb v; r_request_id := rid; r_kind := None |}.
  Proof.
    unfold dispatch_gen.
    destruct (mget_error_metadata v sid rid) as (Hl & Hm & Hx & Hk & Hr).
    cbn [N.eqb negb]. rewrite Hl, Hm, Hx, Hr, loads_dumps.
    rewrite jget_type_entries, jget_tb_entries. cbn [jstr_of].
    change (str_eqb L_EXCEPTION L_EXCEPTION) with true. cbv iota.
    destruct rid; reflexivity.
  Qed.
End CodecFacts.

(* M_Wire's abstraction [FErr e -> err_event e] is the (type, message) projection of the real client error *)
Lemma event_of_expected v rid : event_of_error (expected_error v rid) = err_event (xe v).
Proof. reflexivity. Qed.

(* the message carries the exception text: it ends with str(exc) *)
Lemma summary_carries_text e : exists pre, summary e = pre ++ emsg e.
Proof. exists (cls e ++ s ": "%string). unfold summary. rewrite app_assoc. reflexivity. Qed.

(* ================================================================== Layer H *)
Lemma set_http_status_spec code :
  set_http_status code = if code =? 500 then (200, true) else (code, false).
Proof. reflexivity. Qed.

Lemma mk_resp_code failed body :
  h_status (mk_resp (code_of failed) body) = 200 /\ h_marker (mk_resp (code_of failed) body) = failed
  /\ h_body (mk_resp (code_of failed) body) = body.
Proof. destruct failed; repeat split; reflexivity. Qed.

Lemma mk_resp_500 body : mk_resp 500 body = {| h_status := 200; h_marker := true; h_body := body |}.
Proof. reflexivity. Qed.
Lemma mk_resp_200 body : mk_resp 200 body = {| h_status := 200; h_marker := false; h_body := body |}.
Proof. reflexivity. Qed.

Definition resp_ok (r : hresp * bool) : Prop :=
  h_status (fst r) = 200 /\ h_marker (fst r) = snd r /\ has_ferr (h_body (fst r)) = snd r.

Lemma has_ferr_app a b : has_ferr (a ++ b) = has_ferr a || has_ferr b.
Proof. apply existsb_app. Qed.

Lemma has_ferr_logs ls : has_ferr (map FLog ls) = false.
Proof. induction ls as [|m r IH]; [reflexivity|exact IH]. Qed.

Lemma has_ferr_data o : has_ferr (data_frames o) = false.
Proof. destruct o; reflexivity. Qed.

(* frames a successful process() call flushes never contain an error batch *)
Lemma exec_step_frames_clean producer st fs fin : exec_step producer st = SFrames fs fin -> has_ferr fs = false.
Proof.
  unfold exec_step. destruct st as [x|].
  - destruct (M_Wire.fin x && negb producer); [discriminate|].
    destruct (sraise x); [discriminate|].
    destruct (M_Wire.fin x).
    + intro H; inversion H; subst. rewrite has_ferr_app, has_ferr_logs, has_ferr_data. reflexivity.
    + destruct (emit x); intro H; inversion H; subst. rewrite has_ferr_app, has_ferr_logs. reflexivity.
  - destruct producer; intro H; inversion H; reflexivity.
Qed.

Lemma unary_resp_ok cfg u : resp_ok (http_unary_resp cfg u).
Proof.
  unfold http_unary_resp, resp_ok, unary_frame. destruct (ures_of u) as [v|e].
  - destruct (over_cap cfg _); cbn [fst snd]; [rewrite mk_resp_500|rewrite mk_resp_200]; cbn [h_status h_marker h_body];
      repeat split; try reflexivity.
    rewrite !has_ferr_app, has_ferr_logs. reflexivity.
  - cbn [fst snd]. rewrite mk_resp_500. cbn [h_status h_marker h_body]. repeat split; try reflexivity.
    rewrite !has_ferr_app, has_ferr_logs. reflexivity.
Qed.

Lemma http_turn_flag cfg : forall sts i z fs failed nx,
  http_turn cfg sts i z = (fs, failed, nx) -> has_ferr fs = failed.
Proof.
  induction sts as [|x r IH]; intros i z fs failed nx H; cbn [http_turn] in H.
  - inversion H; reflexivity.
  - destruct (exec_step true (Some x)) as [fs0 [|]|e] eqn:E.
    + inversion H; subst. exact (exec_step_frames_clean _ _ _ _ E).
    + destruct (keep_going cfg _).
      * destruct (http_turn cfg r (S i) _) as [[fs' f'] nx'] eqn:E'. inversion H; subst.
        rewrite has_ferr_app, (exec_step_frames_clean _ _ _ _ E), (IH _ _ _ _ _ E'). reflexivity.
      * inversion H; subst. rewrite has_ferr_app, (exec_step_frames_clean _ _ _ _ E). reflexivity.
    + inversion H; reflexivity.
Qed.

Lemma prod_turns_ok cfg : forall fuel sts i z pre, has_ferr pre = false ->
  Forall resp_ok (prod_turns cfg fuel sts i z pre).
Proof.
  induction fuel as [|f IH]; intros sts i z pre Hpre; [constructor|].
  cbn [prod_turns]. destruct (http_turn cfg sts i z) as [[fs failed] nx] eqn:E.
  constructor.
  - unfold resp_ok. cbn [fst snd]. destruct (mk_resp_code failed (pre ++ fs ++ [FEos])) as (H1 & H2 & H3).
    rewrite H1, H2, H3. repeat split. rewrite !has_ferr_app, Hpre, (http_turn_flag _ _ _ _ _ _ _ E).
    cbn. rewrite orb_false_r. reflexivity.
  - destruct (client_stops (pre ++ fs)); [constructor|]. destruct nx as [[r j]|]; [|constructor]. apply IH. reflexivity.
Qed.

Lemma exch_resp_ok cfg st : resp_ok (http_exch_resp cfg st).
Proof.
  unfold http_exch_resp, resp_ok. destruct (exec_step false st) as [fs fl|e] eqn:E.
  - destruct (over_cap cfg _); cbn [fst snd]; [rewrite mk_resp_500|rewrite mk_resp_200]; cbn [h_status h_marker h_body];
      repeat split; try reflexivity.
    rewrite has_ferr_app, (exec_step_frames_clean _ _ _ _ E). reflexivity.
  - cbn [fst snd]. rewrite mk_resp_500. repeat split; reflexivity.
Qed.

Lemma exch_turns_ok cfg : forall n sts, Forall resp_ok (exch_turns cfg sts n).
Proof.
  induction n as [|n IH]; intro sts; [constructor|]. cbn [exch_turns]. constructor; [apply exch_resp_ok|].
  destruct (client_stops _); [constructor|apply IH].
Qed.

Lemma header_frames_clean sp h : has_ferr (header_frames sp h) = false.
Proof.
  unfold header_frames. destruct h; [|apply has_ferr_logs].
  rewrite has_ferr_app, has_ferr_logs. destruct (hdr sp); reflexivity.
Qed.

(* C07 marker: every response of every scripted call has status 200, carries X-VGI-RPC-Error exactly when the
   dispatch of that request failed, and contains an error batch exactly in that case *)
Theorem http_marker_iff_failed cfg p sc : Forall resp_ok (http_session cfg p sc).
Proof.
  unfold http_session. destruct p as [u|sp]; destruct sc as [c|h k a c|h n a c]; try constructor.
  - apply unary_resp_ok.
  - constructor.
  - destruct (ires sp) as [|e|]; [|repeat constructor|constructor].
    apply prod_turns_ok, header_frames_clean.
  - destruct (ires sp) as [|e|]; [|repeat constructor|constructor].
    constructor.
    + unfold resp_ok. cbn [fst snd]. rewrite mk_resp_200. cbn [h_status h_marker h_body]. repeat split.
      rewrite has_ferr_app, header_frames_clean. reflexivity.
    + destruct (client_stops _); [constructor|apply exch_turns_ok].
Qed.

(* Layer H against M_Wire: the frame sequence M_Wire.run_http consumes is the concatenation of the turns of http_turn *)
Lemma http_turn_concat cfg : forall sts i z,
  http_frames cfg sts i z =
    let '(fs, _, nx) := http_turn cfg sts i z in
    fs ++ match nx with Some (r, j) => http_frames cfg r j (base cfg) | None => [] end.
Proof.
  induction sts as [|x r IH]; intros i z; [reflexivity|].
  cbn [http_frames http_turn]. destruct (exec_step true (Some x)) as [fs [|]|e].
  - rewrite app_nil_r. reflexivity.
  - destruct (keep_going cfg _).
    + rewrite (IH (S i) _). destruct (http_turn cfg r (S i) _) as [[fs' f'] nx']. rewrite app_assoc. reflexivity.
    + rewrite <- app_assoc. reflexivity.
  - reflexivity.
Qed.
