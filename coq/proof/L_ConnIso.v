(* L_ConnIso: non-interference of concurrently served connections and the max_connections bound,
   for every schedule, over ANY deterministic per-connection machine (C41, generic layer). *)
From Coq Require Import List NArith ZArith Bool Arith Lia.
From VGI Require Import Corr M_Wire M_ConnIso.
Import ListNotations.
Open Scope nat_scope.

Section Generic.
  Variable St : Type.
  Variable fin lost : St -> bool.
  Variable cstep : St -> St.

  Notation conn := (conn St).
  Notation sys := (sys St).
  Notation sys_step := (sys_step fin lost cstep).
  Notation conn_step := (conn_step fin lost cstep).
  Notation run := (run fin lost cstep).
  Notation solo := (solo fin cstep).

  (* ---------------------------------------------------------------- list update *)
  Lemma set_nth_length i (c : conn) cs : length (set_nth i c cs) = length cs.
  Proof. revert i; induction cs as [|x r IH]; intros [|j]; simpl; auto. Qed.

  Lemma set_nth_same i (c x : conn) cs : nth_error cs i = Some x -> nth_error (set_nth i c cs) i = Some c.
  Proof. revert i; induction cs as [|y r IH]; intros [|j] H; simpl in *; try discriminate; auto. Qed.

  Lemma set_nth_other i j (c : conn) cs : i <> j -> nth_error (set_nth i c cs) j = nth_error cs j.
  Proof.
    revert i j; induction cs as [|y r IH]; intros [|i] [|j] H; simpl; auto; try congruence.
  Qed.

  Definition serving_bit (c : conn) : nat := match ph c with Serving => 1 | _ => 0 end.

  Lemma served_set_nth i (c x : conn) cs :
    nth_error cs i = Some x -> served (set_nth i c cs) + serving_bit x = served cs + serving_bit c.
  Proof.
    revert i; induction cs as [|y r IH]; intros [|j] H; simpl in *; try discriminate.
    - inversion H; subst. unfold serving_bit. lia.
    - specialize (IH j H). lia.
  Qed.

  (* ---------------------------------------------------------------- frame: a step of i touches connection i only *)
  Lemma sys_step_frame g i j : i <> j -> nth_error (conns (sys_step g i)) j = nth_error (conns g) j.
  Proof.
    intro H. unfold M_ConnIso.sys_step. destruct (nth_error (conns g) i) as [c|]; [|reflexivity].
    destruct (conn_step (permits g) c) as [c' p']. simpl. apply set_nth_other; exact H.
  Qed.

  Lemma sys_step_length g i : length (conns (sys_step g i)) = length (conns g).
  Proof.
    unfold M_ConnIso.sys_step. destruct (nth_error (conns g) i) as [c|]; [|reflexivity].
    destruct (conn_step (permits g) c) as [c' p']. simpl. apply set_nth_length.
  Qed.

  Lemma sys_step_self g i c :
    nth_error (conns g) i = Some c -> nth_error (conns (sys_step g i)) i = Some (fst (conn_step (permits g) c)).
  Proof.
    intro H. unfold M_ConnIso.sys_step. rewrite H. destruct (conn_step (permits g) c) as [c' p']. simpl.
    eapply set_nth_same; exact H.
  Qed.

  (* the only thing a connection's step reads outside its own state is whether a permit is free, and the only
     effect of that is to delay the connection: its private state moves by [cstep] or not at all *)
  Lemma conn_step_private p c :
    let c' := fst (conn_step p c) in
    (st c' = st c) \/ (fin (st c) = false /\ st c' = cstep (st c) /\ (ph c = Serving \/ ph c = Zombie)).
  Proof.
    unfold M_ConnIso.conn_step. destruct (ph c) eqn:E; simpl; auto.
    - destruct (has_permit p); simpl; auto.
    - destruct (fin (st c)) eqn:F; simpl; auto. destruct (lost (cstep (st c))); simpl; right; auto.
    - destruct (fin (st c)) eqn:F; simpl; auto.
  Qed.

  (* ---------------------------------------------------------------- solo runs *)
  Lemma solo_S k x : solo (S k) x = (let y := solo k x in if fin y then y else cstep y).
  Proof.
    revert x; induction k as [|k IH]; intro x.
    - simpl. destruct (fin x); reflexivity.
    - change (solo (S (S k)) x) with (if fin x then x else solo (S k) (cstep x)).
      rewrite IH. cbn zeta. change (solo (S k) x) with (if fin x then x else solo k (cstep x)).
      destruct (fin x) eqn:F; [rewrite F|]; reflexivity.
  Qed.

  Lemma solo_fin_stable k x : fin (solo k x) = true -> forall d, solo (d + k) x = solo k x.
  Proof.
    intros H d; induction d as [|d IH]; [reflexivity|].
    change (S d + k) with (S (d + k)). rewrite solo_S. cbn zeta. rewrite IH, H. reflexivity.
  Qed.

  Lemma solo_add a b x : solo (a + b) x = solo b (solo a x).
  Proof.
    revert x; induction a as [|a IH]; intro x; [reflexivity|].
    change (S a + b) with (S (a + b)). simpl. destruct (fin x) eqn:F.
    - clear IH. induction b as [|b IHb]; [reflexivity|]. simpl. rewrite F. reflexivity.
    - apply IH.
  Qed.

  (* ---------------------------------------------------------------- isolation invariant *)
  Variable ss : list St.

  Definition conn_ok (i : nat) (c : conn) : Prop :=
    exists s0 k, nth_error ss i = Some s0 /\ st c = solo k s0
                 /\ (ph c = Fresh \/ ph c = Queued -> st c = s0)
                 /\ (ph c = Done -> fin (st c) = true).

  Definition iso_inv (g : sys) : Prop := forall i c, nth_error (conns g) i = Some c -> conn_ok i c.

  Lemma iso_init maxc : iso_inv (init maxc ss).
  Proof.
    intros i c H. simpl in H. rewrite nth_error_map in H.
    destruct (nth_error ss i) as [s0|] eqn:E; simpl in H; [|discriminate]. inversion H; subst; clear H.
    exists s0, 0. simpl. repeat split; auto. intro D; discriminate.
  Qed.

  Ltac fin_ok := repeat split; auto; try (intros [D|D]; discriminate); try (intro D; discriminate).

  Lemma conn_step_ok p i c : conn_ok i c -> conn_ok i (fst (conn_step p c)).
  Proof.
    intros (s0 & k & Hs & Hk & Hq & Hd).
    unfold M_ConnIso.conn_step. destruct (ph c) eqn:E.
    - simpl. exists s0, 0. simpl. rewrite (Hq (or_introl eq_refl)). fin_ok.
    - destruct (has_permit p); simpl.
      + exists s0, 0. simpl. rewrite (Hq (or_intror eq_refl)). fin_ok.
      + exists s0, k. rewrite E. fin_ok.
    - destruct (fin (st c)) eqn:F; simpl.
      + exists s0, k. fin_ok.
      + assert (Hn : cstep (st c) = solo (S k) s0) by (rewrite solo_S; cbn zeta; rewrite <- Hk, F; reflexivity).
        destruct (lost (cstep (st c))); simpl; exists s0, (S k); fin_ok.
    - destruct (fin (st c)) eqn:F; simpl.
      + exists s0, k. fin_ok.
      + assert (Hn : cstep (st c) = solo (S k) s0) by (rewrite solo_S; cbn zeta; rewrite <- Hk, F; reflexivity).
        exists s0, (S k); fin_ok.
    - simpl. exists s0, k. rewrite E. fin_ok.
  Qed.

  Lemma iso_step g i : iso_inv g -> iso_inv (sys_step g i).
  Proof.
    intros Hg j c Hj. destruct (Nat.eq_dec i j) as [<-|Hne].
    - destruct (nth_error (conns g) i) as [c0|] eqn:E.
      + rewrite (sys_step_self g i c0 E) in Hj. inversion Hj; subst. apply conn_step_ok. apply Hg; exact E.
      + unfold M_ConnIso.sys_step in Hj. rewrite E in Hj. rewrite E in Hj. discriminate.
    - rewrite (sys_step_frame g i j Hne) in Hj. apply Hg; exact Hj.
  Qed.

  Lemma iso_run sched : forall g, iso_inv g -> iso_inv (run sched g).
  Proof.
    induction sched as [|i r IH]; intros g Hg; [exact Hg|]. simpl. apply IH. apply iso_step; exact Hg.
  Qed.

  (* every schedule: connection i's private state (its whole client observation included) is a solo run of its own
     script; a connection is never ended by anything but its own client finishing *)
  Theorem isolated maxc sched i c :
    nth_error (conns (run sched (init maxc ss))) i = Some c ->
    exists s0 k, nth_error ss i = Some s0 /\ st c = solo k s0
                 /\ (ph c = Fresh \/ ph c = Queued -> st c = s0)
                 /\ (ph c = Done -> fin (st c) = true /\ forall d, solo (d + k) s0 = st c).
  Proof.
    intro H. destruct (iso_run sched _ (iso_init maxc) i c H) as (s0 & k & Hs & Hk & Hq & Hd).
    exists s0, k. repeat split; auto.
    intros d. rewrite Hk. apply solo_fin_stable. rewrite <- Hk. auto.
  Qed.

  Lemma run_length sched : forall g, length (conns (run sched g)) = length (conns g).
  Proof.
    induction sched as [|i r IH]; intro g; [reflexivity|]. simpl. rewrite IH. apply sys_step_length.
  Qed.

  (* no connection is dropped or invented *)
  Lemma run_conns_total maxc sched i s0 :
    nth_error ss i = Some s0 -> exists c, nth_error (conns (run sched (init maxc ss))) i = Some c.
  Proof.
    intro H. assert (L : i < length (conns (run sched (init maxc ss)))).
    { rewrite run_length. simpl. rewrite map_length. apply nth_error_Some. rewrite H. discriminate. }
    destruct (nth_error (conns (run sched (init maxc ss))) i) as [c|] eqn:E; [eauto|].
    apply nth_error_None in E. lia.
  Qed.

  (* ---------------------------------------------------------------- the semaphore *)
  Definition sem_inv (m : nat) (g : sys) : Prop :=
    exists p, permits g = Some p /\ p + served (conns g) = m /\ hw g <= m.

  Lemma sem_init m : sem_inv m (init (Some m) ss).
  Proof.
    exists m. simpl. repeat split; [|lia].
    assert (Z : forall l : list St, served (map (fun x => {| ph := Fresh; st := x |}) l) = 0).
    { induction l as [|x r IH]; simpl; auto. }
    rewrite Z. lia.
  Qed.

  Lemma sem_step m g i : sem_inv m g -> sem_inv m (sys_step g i).
  Proof.
    intros (p & Hp & Hs & Hh). unfold M_ConnIso.sys_step.
    destruct (nth_error (conns g) i) as [c|] eqn:E; [|exists p; auto].
    pose proof (served_set_nth i (fst (conn_step (permits g) c)) c (conns g) E) as HS.
    rewrite Hp in *. unfold M_ConnIso.conn_step in *. unfold serving_bit in HS.
    destruct (ph c) eqn:P; simpl in *.
    - exists p. simpl. repeat split; auto; lia.
    - destruct p as [|p']; simpl in *.
      + rewrite P in HS. exists 0. simpl. repeat split; auto; lia.
      + exists p'. simpl. repeat split; auto; lia.
    - destruct (fin (st c)); simpl in *.
      + exists (S p). simpl. repeat split; auto; lia.
      + destruct (lost (cstep (st c))); simpl in *.
        * exists (S p). simpl. repeat split; auto; lia.
        * exists p. simpl. repeat split; auto; lia.
    - destruct (fin (st c)); simpl in *; exists p; simpl; repeat split; auto; lia.
    - rewrite P in HS. exists p. simpl. repeat split; auto; lia.
  Qed.

  Lemma sem_run m sched : forall g, sem_inv m g -> sem_inv m (run sched g).
  Proof.
    induction sched as [|i r IH]; intros g Hg; [exact Hg|]. simpl. apply IH. apply sem_step; exact Hg.
  Qed.

  Theorem served_le_max m sched :
    let g := run sched (init (Some m) ss) in served (conns g) <= m /\ hw g <= m.
  Proof.
    cbn zeta. destruct (sem_run m sched _ (sem_init m)) as (p & _ & Hs & Hh). split; lia.
  Qed.

  (* hw really is the maximum of [served] over the run: every prefix of the schedule stays below it *)
  Lemma hw_mono_step g i : hw g <= hw (sys_step g i).
  Proof.
    unfold M_ConnIso.sys_step. destruct (nth_error (conns g) i) as [c|]; [|lia].
    destruct (conn_step (permits g) c) as [c' p']. simpl. lia.
  Qed.

  Lemma hw_mono sched : forall g, hw g <= hw (run sched g).
  Proof.
    induction sched as [|i r IH]; intro g; [simpl; lia|]. simpl. pose proof (hw_mono_step g i). pose proof (IH (sys_step g i)). lia.
  Qed.

  Lemma hw_covers_step g i : served (conns (sys_step g i)) <= Nat.max (hw g) (served (conns g)) \/ served (conns (sys_step g i)) <= hw (sys_step g i).
  Proof.
    unfold M_ConnIso.sys_step. destruct (nth_error (conns g) i) as [c|]; [|left; lia].
    destruct (conn_step (permits g) c) as [c' p']. simpl. right. lia.
  Qed.

  Lemma hw_bounds_prefix a b g : served (conns g) <= hw g -> served (conns (run a g)) <= hw (run (a ++ b) g).
  Proof.
    revert g; induction a as [|i r IH]; intros g Hg.
    - simpl. pose proof (hw_mono b g). simpl in *. lia.
    - simpl. apply IH. unfold M_ConnIso.sys_step. destruct (nth_error (conns g) i) as [c|]; [|exact Hg].
      destruct (conn_step (permits g) c) as [c' p']. simpl. lia.
  Qed.

  (* a waiting connection waits only while every slot is taken; with a free slot its next step enters serve() *)
  Lemma queued_enters_when_free g i c :
    nth_error (conns g) i = Some c -> ph c = Queued -> has_permit (permits g) = true ->
    exists c', nth_error (conns (sys_step g i)) i = Some c' /\ ph c' = Serving /\ st c' = st c.
  Proof.
    intros H Q P. rewrite (sys_step_self g i c H). unfold M_ConnIso.conn_step. rewrite Q, P. simpl. eauto.
  Qed.

  Lemma sem_full_means_max_serving m g :
    sem_inv m g -> has_permit (permits g) = false -> served (conns g) = m.
  Proof.
    intros (p & Hp & Hs & _) F. rewrite Hp in F. destruct p; simpl in F; [lia|discriminate].
  Qed.
End Generic.

(* ------------------------------------------------------------------ a connection served alone by the same server *)
Section Alone.
  Variable St : Type.
  Variable fin lost : St -> bool.
  Variable cstep : St -> St.
  Notation run := (run fin lost cstep).
  Notation solo := (solo fin cstep).

  Lemma run_snoc l i (g : sys St) : run (l ++ [i]) g = sys_step fin lost cstep (run l g) i.
  Proof. unfold M_ConnIso.run. rewrite fold_left_app. reflexivity. Qed.

  (* one client, nobody else: after connect + acquire, every further step of the schedule is a step of its machine *)
  Lemma alone_run maxc s0 : has_permit maxc = true -> forall k,
    exists c p h, run (repeat 0 (2 + k)) (init maxc [s0]) = {| permits := p; conns := [c]; hw := h |}
                  /\ st c = solo k s0
                  /\ (ph c = Serving \/ ph c = Zombie \/ (ph c = Done /\ fin (st c) = true)).
  Proof.
    intros Hp k; induction k as [|k IH].
    - simpl. unfold M_ConnIso.sys_step at 2. simpl. unfold M_ConnIso.sys_step. simpl.
      unfold M_ConnIso.conn_step. simpl. rewrite Hp. simpl. eexists _, _, _. split; [reflexivity|]. simpl. auto.
    - destruct IH as (c & p & h & Hr & Hs & Hph).
      assert (R : forall n, repeat 0 (S n) = repeat 0 n ++ [0]) by (intro n; simpl; apply repeat_cons).
      pose proof (solo_S St fin cstep k s0) as HS. cbn zeta in HS. rewrite <- Hs in HS.
      set (T := solo (S k) s0) in *. clearbody T.
      replace (2 + S k) with (S (2 + k)) by lia. rewrite (R (2 + k)).
      rewrite run_snoc, Hr. unfold M_ConnIso.sys_step. simpl.
      unfold M_ConnIso.conn_step.
      destruct Hph as [P|[P|[P F]]]; rewrite P.
      + destruct (fin (st c)) eqn:F; simpl.
        * eexists _, _, _. split; [reflexivity|]. cbn [st ph]. rewrite HS, ?F. auto.
        * destruct (lost (cstep (st c))); simpl; eexists _, _, _; (split; [reflexivity|]); cbn [st ph]; rewrite HS, ?F; auto.
      + destruct (fin (st c)) eqn:F; simpl; eexists _, _, _; (split; [reflexivity|]); cbn [st ph]; rewrite HS, ?F; auto.
      + rewrite F in HS. simpl. eexists _, _, _. split; [reflexivity|]. cbn [st ph]. rewrite P, HS. auto.
  Qed.
End Alone.
