(* Lemmas about model/M_Token.v: AAD injectivity (instances of lib/Layout.v), the plaintext parsers are the
   layout decoders and never fault. *)
From Coq Require Import List NArith ZArith Bool Lia Arith.
From VGI Require Import Bytes Layout M_Token.
Import ListNotations.
Open Scope N_scope.

(* ---------------------------------------------------------------- AAD *)

Definition ident_ok (i : identity) : Prop :=
  match i with
  | Anon => True
  | Authd d p => bytes_ok d = true /\ bytes_ok p = true /\ has_nul d = false
  end.

Lemma prefix_kind_disjoint : forall x y, cursor_prefix ++ x <> call_prefix ++ y.
Proof.
  intros x y H. apply (f_equal (fun l => nth 8 l 0)) in H. cbn in H. discriminate H.
Qed.

Lemma aad_prefix_inj : forall k1 k2 x y, aad_prefix k1 ++ x = aad_prefix k2 ++ y -> k1 = k2.
Proof.
  intros k1 k2 x y H. destruct k1, k2; try reflexivity; cbn [aad_prefix] in H.
  - exfalso. exact (prefix_kind_disjoint _ _ H).
  - exfalso. symmetry in H. exact (prefix_kind_disjoint _ _ H).
Qed.

(* the layouts really produce what _compute_aad concatenates *)
Lemma aad_prefix_ok : forall k, bytes_ok (aad_prefix k) = true.
Proof. intros []; vm_compute; reflexivity. Qed.

Lemma enc_aad_anon : forall k, enc (aad_anon_layout k) [] = Some (compute_aad k Anon).
Proof. intros []; vm_compute; reflexivity. Qed.

(* the anonymous layout with its tag byte split off, the shape enc_tag_disjoint speaks about *)
Definition aad_anon_layout_split (k : kind) : layout := [FConst (aad_prefix k); FConst [0]; FConst (tl anon_tail)].
Lemma enc_aad_anon_split : forall k, enc (aad_anon_layout_split k) [] = enc (aad_anon_layout k) [].
Proof. intros []; vm_compute; reflexivity. Qed.

Lemma enc_aad_auth : forall k d p,
  bytes_ok d = true -> bytes_ok p = true -> has_nul d = false ->
  enc (aad_auth_layout k) [ABytes d; ABytes p] = Some (compute_aad k (Authd d p)).
Proof.
  intros k d p Hd Hp Hn. unfold aad_auth_layout. cbn [enc enc_field].
  rewrite aad_prefix_ok. change (bytes_ok [1]) with true. cbv iota. rewrite Hd, Hn. cbn [negb andb]. cbv iota.
  rewrite Hp. cbv iota.
  cbn [compute_aad app]. rewrite app_nil_r. rewrite <- !app_assoc. reflexivity.
Qed.

Lemma aad_auth_pd : forall k, prefix_decodable (aad_auth_layout k) = true.
Proof. intros []; vm_compute; reflexivity. Qed.

Theorem aad_injective : forall k1 k2 i1 i2,
  ident_ok i1 -> ident_ok i2 -> compute_aad k1 i1 = compute_aad k2 i2 -> k1 = k2 /\ i1 = i2.
Proof.
  intros k1 k2 i1 i2 H1 H2 H.
  assert (Hk : k1 = k2).
  { destruct i1, i2; cbn [compute_aad] in H; eapply aad_prefix_inj; exact H. }
  subst k2. split; [reflexivity|].
  destruct i1 as [|d1 p1], i2 as [|d2 p2].
  - reflexivity.
  - exfalso. destruct H2 as [Hd [Hp Hn]].
    pose proof (enc_aad_anon k1) as Ea. rewrite <- enc_aad_anon_split in Ea. rewrite H in Ea.
    pose proof (enc_aad_auth k1 d2 p2 Hd Hp Hn) as Eb.
    unfold aad_anon_layout_split in Ea. unfold aad_auth_layout in Eb.
    refine (enc_tag_disjoint _ 0 1 _ _ _ _ _ _ Ea Eb). discriminate.
  - exfalso. destruct H1 as [Hd [Hp Hn]].
    pose proof (enc_aad_anon k1) as Ea. rewrite <- enc_aad_anon_split in Ea. rewrite <- H in Ea.
    pose proof (enc_aad_auth k1 d1 p1 Hd Hp Hn) as Eb.
    unfold aad_anon_layout_split in Ea. unfold aad_auth_layout in Eb.
    refine (enc_tag_disjoint _ 0 1 _ _ _ _ _ _ Ea Eb). discriminate.
  - destruct H1 as [Hd1 [Hp1 Hn1]]. destruct H2 as [Hd2 [Hp2 Hn2]].
    pose proof (enc_aad_auth k1 d1 p1 Hd1 Hp1 Hn1) as E1.
    pose proof (enc_aad_auth k1 d2 p2 Hd2 Hp2 Hn2) as E2.
    rewrite H in E1.
    pose proof (enc_inj _ _ _ _ (aad_auth_pd k1) E1 E2) as Hargs.
    injection Hargs as Hd' Hp'. subst. reflexivity.
Qed.

Theorem cursor_call_aad_disjoint : forall i1 i2, compute_aad KCursor i1 <> compute_aad KCall i2.
Proof.
  intros i1 i2 H. assert (KCursor = KCall) as Hk; [|discriminate Hk].
  destruct i1, i2; cbn [compute_aad] in H; eapply aad_prefix_inj; exact H.
Qed.

(* ---------------------------------------------------------------- slices *)

Lemma blen_skipn : forall (d : bytes) n, (n <= length d)%nat -> blen (skipn n d) = blen d - N.of_nat n.
Proof. intros d n H. unfold blen. rewrite skipn_length. lia. Qed.

Lemma slice_as_firstn_skipn : forall d lo hi, slice d lo hi = firstn (N.to_nat (hi - lo)) (skipn (N.to_nat lo) d).
Proof. reflexivity. Qed.

Lemma skipn_skipn : forall {A} (a b : nat) (l : list A), skipn a (skipn b l) = skipn (b + a) l.
Proof.
  intros A a b. induction b as [|b IH]; intros l; cbn [skipn plus].
  - reflexivity.
  - destruct l as [|x l]; [destruct a; reflexivity|]. apply IH.
Qed.

(* ---------------------------------------------------------------- _read_segment = FLen W32 at an offset *)

Inductive seg_view (k : kind) (d : bytes) (pos : N) : res (bytes * N) -> option (list arg * bytes) -> Prop :=
| SegOk : forall seg e,
    pos + 4 <= e -> e <= blen d ->
    seg_view k d pos (Ok (seg, e)) (Some ([ABytes seg], skipn (N.to_nat e) d))
| SegRej : seg_view k d pos (Rej (MMalformed k)) None.

Lemma read_segment_view : forall k d pos,
  pos <= blen d ->
  seg_view k d pos (read_segment k d pos) (dec_field (FLen W32) (skipn (N.to_nat pos) d)).
Proof.
  intros k d pos Hpos. unfold read_segment, uint_at, HEADER_LEN. cbn [dec_field wbytes].
  assert (Hlen : length (skipn (N.to_nat pos) d) = (length d - N.to_nat pos)%nat) by apply skipn_length.
  unfold blen in *.
  destruct (N.of_nat (length d) <? pos + 4) eqn:E1.
  - apply N.ltb_lt in E1.
    assert (Hl : Nat.leb 4 (length (skipn (N.to_nat pos) d)) = false).
    { apply Nat.leb_gt. rewrite Hlen. lia. }
    rewrite Hl. constructor.
  - apply N.ltb_ge in E1.
    assert (Hl : Nat.leb 4 (length (skipn (N.to_nat pos) d)) = true).
    { apply Nat.leb_le. rewrite Hlen. lia. }
    rewrite Hl.
    assert (E2 : (pos + 4 <=? N.of_nat (length d)) = true) by (apply N.leb_le; lia).
    rewrite E2.
    assert (Hsl : slice d pos (pos + 4) = firstn 4 (skipn (N.to_nat pos) d)).
    { unfold slice. replace (pos + 4 - pos) with 4 by lia. reflexivity. }
    rewrite Hsl. cbv zeta.
    set (n := le_decode (firstn 4 (skipn (N.to_nat pos) d))).
    assert (Hlen2 : length (skipn 4 (skipn (N.to_nat pos) d)) = (length d - N.to_nat pos - 4)%nat).
    { rewrite skipn_length, Hlen. reflexivity. }
    destruct (N.of_nat (length d) <? pos + 4 + n) eqn:E3.
    + apply N.ltb_lt in E3.
      assert (Hn : (n <=? N.of_nat (length (skipn 4 (skipn (N.to_nat pos) d)))) = false).
      { apply N.leb_gt. rewrite Hlen2. lia. }
      rewrite Hn. constructor.
    + apply N.ltb_ge in E3.
      assert (Hn : (n <=? N.of_nat (length (skipn 4 (skipn (N.to_nat pos) d)))) = true).
      { apply N.leb_le. rewrite Hlen2. lia. }
      rewrite Hn.
      assert (Hseg : slice d (pos + 4) (pos + 4 + n) = firstn (N.to_nat n) (skipn 4 (skipn (N.to_nat pos) d))).
      { unfold slice. replace (pos + 4 + n - (pos + 4)) with n by lia.
        rewrite skipn_skipn. replace (N.to_nat (pos + 4)) with (N.to_nat pos + 4)%nat by lia. reflexivity. }
      assert (Hrest : skipn (N.to_nat n) (skipn 4 (skipn (N.to_nat pos) d)) = skipn (N.to_nat (pos + 4 + n)) d).
      { rewrite !skipn_skipn. f_equal. lia. }
      rewrite Hseg, Hrest. apply SegOk; unfold blen; lia.
Qed.

Lemma read_segment_no_crash : forall k d pos, pos <= blen d -> read_segment k d pos <> Crash.
Proof.
  intros k d pos H Hc. pose proof (read_segment_view k d pos H) as V.
  remember (dec_field (FLen W32) (skipn (N.to_nat pos) d)) as o. rewrite Hc in V. inversion V.
Qed.

(* the end test: e = len  <->  nothing is left *)
Lemma rest_nil_iff : forall (d : bytes) e, e <= blen d -> ((e =? blen d) = true <-> skipn (N.to_nat e) d = []).
Proof.
  intros d e He. unfold blen in *. split; intros H.
  - apply N.eqb_eq in H. subst e. rewrite Nat2N.id. apply skipn_all.
  - apply N.eqb_eq. apply (f_equal (@length N)) in H. rewrite skipn_length in H. cbn [length] in H. lia.
Qed.

Lemma dec_nil_rest : forall (r : bytes), dec [] r = match r with [] => Some [] | _ :: _ => None end.
Proof. reflexivity. Qed.

(* reading n length-prefixed segments from an offset, in both presentations *)
Lemma flen_step : forall k (pl : bytes) pos (L : layout),
  pos <= blen pl ->
  match read_segment k pl pos with
  | Ok (seg, e) =>
      pos + 4 <= e /\ e <= blen pl /\
      dec (FLen W32 :: L) (skipn (N.to_nat pos) pl) =
      match dec L (skipn (N.to_nat e) pl) with Some a => Some (ABytes seg :: a) | None => None end
  | Rej m => m = MMalformed k /\ dec (FLen W32 :: L) (skipn (N.to_nat pos) pl) = None
  | Crash => False
  end.
Proof.
  intros k pl pos L Hpos. pose proof (read_segment_view k pl pos Hpos) as V.
  cbn [dec].
  remember (read_segment k pl pos) as r eqn:Hr.
  remember (dec_field (FLen W32) (skipn (N.to_nat pos) pl)) as o eqn:Ho.
  destruct V as [seg e He1 He2|].
  - split; [exact He1|]. split; [exact He2|].
    destruct (dec L (skipn (N.to_nat e) pl)); reflexivity.
  - split; reflexivity.
Qed.

(* ---------------------------------------------------------------- cursor plaintext *)

Definition cursor_view (pl : bytes) : res (bytes * bytes) :=
  match dec cursor_layout pl with
  | Some [AInt _; ABytes cid; ABytes st] => Ok (st, cid)
  | _ => Rej (MMalformed KCursor)
  end.

Lemma header_dec : forall (pl : bytes) (L : layout),
  24 <= blen pl ->
  dec (FInt W64 :: FFixed 16 :: L) pl =
  match dec L (skipn 24 pl) with
  | Some a => Some (AInt (le_decode (firstn 8 pl)) :: ABytes (slice pl 8 24) :: a)
  | None => None
  end.
Proof.
  intros pl L H. unfold blen in H. cbn [dec dec_field wbytes].
  assert (H8 : Nat.leb 8 (length pl) = true) by (apply Nat.leb_le; lia).
  rewrite H8.
  assert (H16 : Nat.leb 16 (length (skipn 8 pl)) = true) by (apply Nat.leb_le; rewrite skipn_length; lia).
  rewrite H16. rewrite skipn_skipn. cbn [plus].
  unfold slice. replace (N.to_nat (24 - 8)) with 16%nat by reflexivity. replace (N.to_nat 8) with 8%nat by reflexivity.
  destruct (dec L (skipn 24 pl)); reflexivity.
Qed.

Lemma header_dec_short : forall (pl : bytes) (L : layout),
  blen pl < 24 -> dec (FInt W64 :: FFixed 16 :: L) pl = None.
Proof.
  intros pl L H. unfold blen in H. cbn [dec dec_field wbytes].
  destruct (Nat.leb 8 (length pl)) eqn:H8; [|reflexivity].
  apply Nat.leb_le in H8.
  assert (H16 : Nat.leb 16 (length (skipn 8 pl)) = false) by (apply Nat.leb_gt; rewrite skipn_length; lia).
  rewrite H16. reflexivity.
Qed.

Theorem parse_cursor_is_dec : forall pl, parse_cursor pl = cursor_view pl.
Proof.
  intros pl. unfold parse_cursor, cursor_view, cursor_layout, MIN_CURSOR_PLAINTEXT_LEN, TIMESTAMP_LEN, CALL_ID_LEN.
  replace (8 + 16) with 24 by reflexivity.
  destruct (blen pl <? 28) eqn:E.
  - apply N.ltb_lt in E.
    destruct (N.lt_ge_cases (blen pl) 24) as [Hs|Hl].
    + rewrite (header_dec_short pl _ Hs). reflexivity.
    + rewrite (header_dec pl _ Hl). cbn [dec dec_field wbytes].
      assert (H4 : Nat.leb 4 (length (skipn 24 pl)) = false).
      { apply Nat.leb_gt. rewrite skipn_length. unfold blen in *. lia. }
      rewrite H4. reflexivity.
  - apply N.ltb_ge in E.
    assert (Hl : 24 <= blen pl) by lia.
    rewrite (header_dec pl _ Hl).
    change (skipn 24 pl) with (skipn (N.to_nat 24) pl).
    pose proof (flen_step KCursor pl 24 [] Hl) as S1.
    destruct (read_segment KCursor pl 24) as [[st e]| m |]; [|destruct S1 as [Hm S1]; rewrite S1; subst m; reflexivity|contradiction].
    destruct S1 as [A1 [B1 S1]]. rewrite S1. rewrite dec_nil_rest.
    pose proof (rest_nil_iff pl e B1) as Hnil.
    destruct (e =? blen pl) eqn:Ee; cbn [negb].
    + destruct Hnil as [Hnil _]. rewrite (Hnil eq_refl). reflexivity.
    + destruct (skipn (N.to_nat e) pl) eqn:Es.
      { destruct Hnil as [_ Hnil]. specialize (Hnil eq_refl). discriminate Hnil. }
      reflexivity.
Qed.

(* ---------------------------------------------------------------- call plaintext *)

Definition call_view (pl : bytes) : res call_fields :=
  match dec call_layout pl with
  | Some [AInt _; ABytes cid; ABytes cs; ABytes ty; ABytes sch; ABytes isch; ABytes sid] =>
      Ok {| f_call_state := cs; f_type := ty; f_schema := sch; f_ischema := isch; f_call_id := cid; f_stream_id := sid |}
  | _ => Rej (MMalformed KCall)
  end.

Theorem parse_call_is_dec : forall pl, parse_call pl = call_view pl.
Proof.
  intros pl. unfold parse_call, call_view, call_layout, MIN_CALL_PLAINTEXT_LEN, TIMESTAMP_LEN, CALL_ID_LEN.
  replace (8 + 16) with 24 by reflexivity.
  destruct (N.lt_ge_cases (blen pl) 24) as [Hs|Hl].
  - rewrite (header_dec_short pl _ Hs).
    assert (E : (blen pl <? 44) = true) by (apply N.ltb_lt; lia). rewrite E. reflexivity.
  - rewrite (header_dec pl _ Hl).
    change (skipn 24 pl) with (skipn (N.to_nat 24) pl).
    (* five segments *)
    pose proof (flen_step KCall pl 24 [FLen W32; FLen W32; FLen W32; FLen W32] Hl) as S1.
    destruct (blen pl <? 44) eqn:E44.
    + (* too short: the decoder fails as well, since five headers need 20 bytes *)
      apply N.ltb_lt in E44.
      destruct (read_segment KCall pl 24) as [[cs p1]| m |]; [|destruct S1 as [_ S1]; rewrite S1; reflexivity|contradiction].
      destruct S1 as [A1 [B1 S1]]. rewrite S1.
      pose proof (flen_step KCall pl p1 [FLen W32; FLen W32; FLen W32] B1) as S2.
      destruct (read_segment KCall pl p1) as [[ty p2]| m |]; [|destruct S2 as [_ S2]; rewrite S2; reflexivity|contradiction].
      destruct S2 as [A2 [B2 S2]]. rewrite S2.
      pose proof (flen_step KCall pl p2 [FLen W32; FLen W32] B2) as S3.
      destruct (read_segment KCall pl p2) as [[sch p3]| m |]; [|destruct S3 as [_ S3]; rewrite S3; reflexivity|contradiction].
      destruct S3 as [A3 [B3 S3]]. rewrite S3.
      pose proof (flen_step KCall pl p3 [FLen W32] B3) as S4.
      destruct (read_segment KCall pl p3) as [[isch p4]| m |]; [|destruct S4 as [_ S4]; rewrite S4; reflexivity|contradiction].
      destruct S4 as [A4 [B4 S4]]. rewrite S4.
      pose proof (flen_step KCall pl p4 [] B4) as S5.
      destruct (read_segment KCall pl p4) as [[sid e]| m |]; [|destruct S5 as [_ S5]; rewrite S5; reflexivity|contradiction].
      destruct S5 as [A5 [B5 S5]]. exfalso. lia.
    + destruct (read_segment KCall pl 24) as [[cs p1]| m |]; [|destruct S1 as [Hm S1]; rewrite S1; subst m; reflexivity|contradiction].
      destruct S1 as [A1 [B1 S1]]. rewrite S1.
      pose proof (flen_step KCall pl p1 [FLen W32; FLen W32; FLen W32] B1) as S2.
      destruct (read_segment KCall pl p1) as [[ty p2]| m |]; [|destruct S2 as [Hm S2]; rewrite S2; subst m; reflexivity|contradiction].
      destruct S2 as [A2 [B2 S2]]. rewrite S2.
      pose proof (flen_step KCall pl p2 [FLen W32; FLen W32] B2) as S3.
      destruct (read_segment KCall pl p2) as [[sch p3]| m |]; [|destruct S3 as [Hm S3]; rewrite S3; subst m; reflexivity|contradiction].
      destruct S3 as [A3 [B3 S3]]. rewrite S3.
      pose proof (flen_step KCall pl p3 [FLen W32] B3) as S4.
      destruct (read_segment KCall pl p3) as [[isch p4]| m |]; [|destruct S4 as [Hm S4]; rewrite S4; subst m; reflexivity|contradiction].
      destruct S4 as [A4 [B4 S4]]. rewrite S4.
      pose proof (flen_step KCall pl p4 [] B4) as S5.
      destruct (read_segment KCall pl p4) as [[sid e]| m |]; [|destruct S5 as [Hm S5]; rewrite S5; subst m; reflexivity|contradiction].
      destruct S5 as [A5 [B5 S5]]. rewrite S5. rewrite dec_nil_rest.
      pose proof (rest_nil_iff pl e B5) as Hnil.
      destruct (e =? blen pl) eqn:Ee; cbn [negb].
      * destruct Hnil as [Hnil _]. rewrite (Hnil eq_refl). reflexivity.
      * destruct (skipn (N.to_nat e) pl) eqn:Es.
        { destruct Hnil as [_ Hnil]. specialize (Hnil eq_refl). discriminate Hnil. }
        reflexivity.
Qed.

(* ---------------------------------------------------------------- what a mint writes is what the layouts encode *)

Definition U32 : N := 4294967296.
Definition U64 : N := 18446744073709551616.
Lemma wmax32 : wmax W32 = U32. Proof. reflexivity. Qed.
Lemma wmax64 : wmax W64 = U64. Proof. reflexivity. Qed.

Definition seg_ok (b : bytes) : Prop := blen b < U32 /\ bytes_ok b = true.
Definition head_ok (c : N) (cid : bytes) : Prop := c < U64 /\ length cid = 16%nat /\ bytes_ok cid = true.
Definition wf_cursor (c : N) (cid st : bytes) : Prop := head_ok c cid /\ seg_ok st.
Definition wf_call (c : N) (cid cs ty sch isch sid : bytes) : Prop :=
  head_ok c cid /\ seg_ok cs /\ seg_ok ty /\ seg_ok sch /\ seg_ok isch /\ seg_ok sid.

Lemma enc_flen : forall L b a r,
  seg_ok b -> enc L a = Some r ->
  enc (FLen W32 :: L) (ABytes b :: a) = Some (le_encode 4 (blen b) ++ b ++ r).
Proof.
  intros L b a r [Hl Hb] H. cbn [enc enc_field]. rewrite wmax32.
  unfold blen in Hl. apply N.ltb_lt in Hl. rewrite Hl, Hb. cbn [andb]. rewrite H.
  rewrite <- app_assoc. reflexivity.
Qed.

Lemma enc_flen_inv : forall L b a r,
  enc (FLen W32 :: L) (ABytes b :: a) = Some r ->
  seg_ok b /\ exists r', enc L a = Some r' /\ r = le_encode 4 (blen b) ++ b ++ r'.
Proof.
  intros L b a r H. cbn [enc enc_field] in H. rewrite wmax32 in H.
  destruct ((N.of_nat (length b) <? U32) && bytes_ok b) eqn:E; [|discriminate H].
  apply andb_true_iff in E. destruct E as [E1 E2]. apply N.ltb_lt in E1.
  destruct (enc L a) as [r'|]; [|discriminate H]. injection H as H. subst r.
  split; [split; assumption|]. exists r'. split; [reflexivity|]. reflexivity.
Qed.

Lemma enc_head : forall L c cid a r,
  head_ok c cid -> enc L a = Some r ->
  enc (FInt W64 :: FFixed 16 :: L) (AInt c :: ABytes cid :: a) = Some (le_encode 8 c ++ cid ++ r).
Proof.
  intros L c cid a r [Hc [Hl Hb]] H. cbn [enc enc_field]. rewrite wmax64.
  apply N.ltb_lt in Hc. rewrite Hc. rewrite Hl, Hb. cbn [Nat.eqb andb]. rewrite H. reflexivity.
Qed.

Lemma enc_head_inv : forall L c cid a r,
  enc (FInt W64 :: FFixed 16 :: L) (AInt c :: ABytes cid :: a) = Some r ->
  head_ok c cid /\ exists r', enc L a = Some r' /\ r = le_encode 8 c ++ cid ++ r'.
Proof.
  intros L c cid a r H. cbn [enc enc_field] in H. rewrite wmax64 in H.
  destruct (c <? U64) eqn:Ec; [|discriminate H].
  destruct (Nat.eqb (length cid) 16 && bytes_ok cid) eqn:E; [|discriminate H].
  apply andb_true_iff in E. destruct E as [E1 E2]. apply Nat.eqb_eq in E1. apply N.ltb_lt in Ec.
  destruct (enc L a) as [r'|]; [|discriminate H]. injection H as H. subst r.
  split; [repeat split; assumption|]. exists r'. split; reflexivity.
Qed.

Lemma enc_cursor_iff : forall c cid st pl,
  enc cursor_layout [AInt c; ABytes cid; ABytes st] = Some pl <-> wf_cursor c cid st /\ pl = cursor_plaintext c cid st.
Proof.
  intros c cid st pl. unfold cursor_layout, cursor_plaintext. split.
  - intros H. apply enc_head_inv in H. destruct H as [Hh [r1 [H1 E1]]].
    apply enc_flen_inv in H1. destruct H1 as [Hs [r2 [H2 E2]]].
    cbn [enc] in H2. injection H2 as H2. subst. rewrite app_nil_r. split; [split; assumption|reflexivity].
  - intros [[Hh Hs] E]. subst pl.
    rewrite (enc_head _ c cid _ _ Hh (enc_flen [] st [] [] Hs eq_refl)). rewrite app_nil_r. reflexivity.
Qed.

Lemma enc_call_iff : forall c cid cs ty sch isch sid pl,
  enc call_layout [AInt c; ABytes cid; ABytes cs; ABytes ty; ABytes sch; ABytes isch; ABytes sid] = Some pl
  <-> wf_call c cid cs ty sch isch sid /\ pl = call_plaintext c cid cs ty sch isch sid.
Proof.
  intros c cid cs ty sch isch sid pl. unfold call_layout, call_plaintext. split.
  - intros H. apply enc_head_inv in H. destruct H as [Hh [r1 [H1 E1]]].
    apply enc_flen_inv in H1. destruct H1 as [Hs1 [r2 [H2 E2]]].
    apply enc_flen_inv in H2. destruct H2 as [Hs2 [r3 [H3 E3]]].
    apply enc_flen_inv in H3. destruct H3 as [Hs3 [r4 [H4 E4]]].
    apply enc_flen_inv in H4. destruct H4 as [Hs4 [r5 [H5 E5]]].
    apply enc_flen_inv in H5. destruct H5 as [Hs5 [r6 [H6 E6]]].
    cbn [enc] in H6. injection H6 as H6. subst. rewrite app_nil_r.
    split; [repeat split; try apply Hh; try apply Hs1; try apply Hs2; try apply Hs3; try apply Hs4; try apply Hs5|reflexivity].
  - intros [[Hh [Hs1 [Hs2 [Hs3 [Hs4 Hs5]]]]] E]. subst pl.
    rewrite (enc_head _ c cid _ _ Hh
               (enc_flen _ cs _ _ Hs1 (enc_flen _ ty _ _ Hs2 (enc_flen _ sch _ _ Hs3
                 (enc_flen _ isch _ _ Hs4 (enc_flen [] sid [] [] Hs5 eq_refl)))))).
    rewrite app_nil_r. reflexivity.
Qed.

Lemma cursor_layout_pd : prefix_decodable cursor_layout = true. Proof. reflexivity. Qed.
Lemma call_layout_pd : prefix_decodable call_layout = true. Proof. reflexivity. Qed.

Ltac shape H :=
  repeat match type of H with
         | context [match ?x with _ => _ end] => destruct x; try discriminate H
         end.

(* the cursor parser accepts exactly the encodings of the cursor layout (no trailing bytes, no short input) *)
Theorem parse_cursor_exact : forall pl st cid,
  bytes_ok pl = true ->
  (parse_cursor pl = Ok (st, cid) <-> exists c, wf_cursor c cid st /\ pl = cursor_plaintext c cid st).
Proof.
  intros pl st cid Hok. rewrite parse_cursor_is_dec. unfold cursor_view. split.
  - intros H. destruct (dec cursor_layout pl) as [a|] eqn:D; [|discriminate H].
    shape H. injection H as H1 H2. subst.
    apply (enc_dec _ _ _ cursor_layout_pd Hok) in D. apply enc_cursor_iff in D. eexists. exact D.
  - intros [c [Hw E]].
    assert (D : enc cursor_layout [AInt c; ABytes cid; ABytes st] = Some pl) by (apply enc_cursor_iff; split; assumption).
    apply (dec_enc _ _ _ cursor_layout_pd) in D. rewrite D. reflexivity.
Qed.

Theorem parse_call_exact : forall pl f,
  bytes_ok pl = true ->
  (parse_call pl = Ok f <->
   exists c, wf_call c (f_call_id f) (f_call_state f) (f_type f) (f_schema f) (f_ischema f) (f_stream_id f) /\
             pl = call_plaintext c (f_call_id f) (f_call_state f) (f_type f) (f_schema f) (f_ischema f) (f_stream_id f)).
Proof.
  intros pl f Hok. rewrite parse_call_is_dec. unfold call_view. split.
  - intros H. destruct (dec call_layout pl) as [a|] eqn:D; [|discriminate H].
    shape H. injection H as H. subst f. cbn [f_call_id f_call_state f_type f_schema f_ischema f_stream_id].
    apply (enc_dec _ _ _ call_layout_pd Hok) in D. apply enc_call_iff in D. eexists. exact D.
  - intros [c [Hw E]].
    assert (D : enc call_layout [AInt c; ABytes (f_call_id f); ABytes (f_call_state f); ABytes (f_type f);
                                 ABytes (f_schema f); ABytes (f_ischema f); ABytes (f_stream_id f)] = Some pl)
      by (apply enc_call_iff; split; assumption).
    apply (dec_enc _ _ _ call_layout_pd) in D. rewrite D. destruct f; reflexivity.
Qed.

(* totality: no input makes the parsers (or the TTL read after a successful parse) fault *)
Theorem parse_no_crash : forall pl, parse_cursor pl <> Crash /\ parse_call pl <> Crash.
Proof.
  intros pl. rewrite parse_cursor_is_dec, parse_call_is_dec. unfold cursor_view, call_view. split; intros H.
  - destruct (dec cursor_layout pl); [|discriminate H]. shape H.
  - destruct (dec call_layout pl); [|discriminate H]. shape H.
Qed.

Lemma parse_cursor_len : forall pl r, parse_cursor pl = Ok r -> 28 <= blen pl.
Proof.
  intros pl r H. unfold parse_cursor, MIN_CURSOR_PLAINTEXT_LEN in H.
  destruct (blen pl <? 28) eqn:E; [discriminate H|]. apply N.ltb_ge in E. exact E.
Qed.
Lemma parse_call_len : forall pl r, parse_call pl = Ok r -> 44 <= blen pl.
Proof.
  intros pl r H. unfold parse_call, MIN_CALL_PLAINTEXT_LEN in H.
  destruct (blen pl <? 44) eqn:E; [discriminate H|]. apply N.ltb_ge in E. exact E.
Qed.

Lemma ttl_check_no_crash : forall k ttl now pl, 8 <= blen pl -> ttl_check k ttl now pl <> Crash.
Proof.
  intros k ttl now pl H Hc. unfold ttl_check, uint_at in Hc.
  destruct (0 <? ttl)%Z; [|discriminate Hc].
  assert (E : (0 + 8 <=? blen pl) = true) by (apply N.leb_le; lia). rewrite E in Hc.
  destruct (ttl <? now - Z.of_N (le_decode (slice pl 0 (0 + 8))))%Z; discriminate Hc.
Qed.

(* the timestamp the TTL test reads is the one the mint wrote *)
Lemma created_at_read : forall c r, c < U64 -> uint_at 8 (le_encode 8 c ++ r) 0 = Some c.
Proof.
  intros c r Hc. unfold uint_at, blen.
  assert (E : (0 + 8 <=? N.of_nat (length (le_encode 8 c ++ r))) = true).
  { apply N.leb_le. rewrite app_length, le_encode_length. lia. }
  rewrite E. unfold slice. change (N.to_nat (0 + 8 - 0)) with 8%nat. change (N.to_nat 0) with 0%nat. cbn [skipn].
  rewrite (firstn_app_exact' 8 (le_encode 8 c) r (le_encode_length 8 c)).
  rewrite le_decode_encode; [reflexivity|exact Hc].
Qed.

(* ---------------------------------------------------------------- normalize_key *)
(* with a collision-free hash that outputs 32 bytes, two operator keys derive the same AEAD key only if they are
   equal or one of them is the (32-byte) digest of the other *)
Theorem normalize_key_injective : forall (sha256 : bytes -> bytes) k1 k2,
  (forall x y, sha256 x = sha256 y -> x = y) ->
  normalize_key_with sha256 k1 = normalize_key_with sha256 k2 ->
  k1 = k2 \/ (blen k1 = KEY_LEN /\ blen k2 <> KEY_LEN /\ k1 = sha256 k2)
          \/ (blen k2 = KEY_LEN /\ blen k1 <> KEY_LEN /\ k2 = sha256 k1).
Proof.
  intros sha256 k1 k2 Hinj H. unfold normalize_key_with in H.
  destruct (blen k1 =? KEY_LEN) eqn:E1; destruct (blen k2 =? KEY_LEN) eqn:E2.
  - left. exact H.
  - right. left. apply N.eqb_eq in E1. apply N.eqb_neq in E2. auto.
  - right. right. apply N.eqb_eq in E2. apply N.eqb_neq in E1. auto.
  - left. apply Hinj. exact H.
Qed.
