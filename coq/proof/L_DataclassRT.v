(* The Arrow round trip by structural induction over the annotation grammar (model_cfg). *)
From Coq Require Import List NArith ZArith Bool Lia.
From VGI Require Import M_Dataclass L_Dataclass.
Import ListNotations.
Open Scope N_scope.

Lemma arrow_none a : arrow_rt a VNone = Ok VNone.
Proof. destruct a; reflexivity. Qed.

Lemma inst_nonopt_notnone t : is_opt t = false -> instb t VNone = false.
Proof. destruct t; simpl; try discriminate; try reflexivity. destruct s; reflexivity. Qed.

Lemma inst_opt_some t x : is_none x = false -> instb (TOpt t) x = instb t x.
Proof. destruct x; simpl; try discriminate; reflexivity. Qed.

Lemma enum_name_in ms n : enum_by_name ms n = true -> In n (map fst ms).
Proof.
  induction ms as [|[m v] r IH]; simpl; [discriminate|].
  destruct (list_eq_dec N.eq_dec m n); [left; assumption|right; auto].
Qed.

Lemma data_facts ce t c fs : unopt t = TData c fs -> wfb t = true -> cenv_okb ce t = true ->
  lookup_cls ce c = Some fs /\ nodupb (map f_name fs) = true /\ wf_fields wfb fs = true /\ cenv_fields (cenv_okb ce) fs = true
  /\ (t = TData c fs \/ t = TOpt (TData c fs)).
Proof.
  assert (Hd : forall c fs, wfb (TData c fs) = true -> cenv_okb ce (TData c fs) = true ->
               lookup_cls ce c = Some fs /\ nodupb (map f_name fs) = true /\ wf_fields wfb fs = true /\ cenv_fields (cenv_okb ce) fs = true).
  { intros c0 fs0 Hw Hc. simpl in Hw, Hc. apply andb_true_iff in Hw as [Hw1 Hw2]. apply andb_true_iff in Hc as [Hc1 Hc2].
    destruct (lookup_cls ce c0) as [fs'|] eqn:E; [|discriminate].
    assert (He : TData c0 fs0 = TData c0 fs') by (apply ty_eqb_eq; exact Hc1).
    inversion He; subst. auto. }
  intros Hu Hw Hc. destruct t; simpl in Hu; try discriminate.
  - destruct t; try discriminate. inversion Hu; subst.
    change (wfb (TOpt (TData c fs))) with (negb (is_opt (TData c fs)) && wfb (TData c fs)) in Hw.
    apply andb_true_iff in Hw as [_ Hw]. change (cenv_okb ce (TOpt (TData c fs))) with (cenv_okb ce (TData c fs)) in Hc.
    destruct (Hd c fs Hw Hc) as (H1 & H2 & H3 & H4). auto 10.
  - inversion Hu; subst. destruct (Hd c fs Hw Hc) as (H1 & H2 & H3 & H4). auto 10.
Qed.

Section RT.
  Variable ce : cenv.

  Definition ELEM (t : ty) (a : aty) (x raw : pv) : Prop :=
    ser cf ce false x = Ok raw /\ arrow_rt a raw = Ok raw /\ (ipc_clean raw = true -> de cf t raw = Ok x) /\ is_none raw = is_none x.
  Definition RT (t : ty) (a : aty) : Prop := forall x, instb t x = true -> exists raw, ELEM t a x raw.
  Definition OBJ (c : N) (fs : list fdecl) : Prop :=
    forall x, instb (TData c fs) x = true -> exists vals row sch, x = VObj c vals /\ FR ce fs vals row sch.
  Definition P (t : ty) : Prop :=
    wfb t = true -> cenv_okb ce t = true ->
    (exists a, infer cf t = Ok a /\ RT t a) /\ (forall c fs, unopt t = TData c fs -> OBJ c fs).

  (* ---- element lists *)
  Lemma elems t a : RT t a -> forall l, forallb (instb t) l = true -> exists raws, Forall2 (ELEM t a) l raws.
  Proof.
    intros H l. induction l as [|x r IH]; simpl; intros Hl; [exists []; constructor|].
    apply andb_true_iff in Hl as [Hx Hr]. destruct (H x Hx) as [raw Hraw]. destruct (IH Hr) as [raws Hraws].
    exists (raw :: raws). constructor; assumption.
  Qed.
  Lemma elems_ser t a l raws : Forall2 (ELEM t a) l raws -> mapM (ser cf ce false) l = Ok raws.
  Proof. intros H. apply mapM_ok. induction H as [|x y l l' Hxy _ IH]; constructor; [apply Hxy|exact IH]. Qed.
  Lemma elems_arrow t a l raws : Forall2 (ELEM t a) l raws -> mapM (arrow_rt a) raws = Ok raws.
  Proof. intros H. apply mapM_id. induction H as [|x y l l' Hxy _ IH]; constructor; [apply Hxy|exact IH]. Qed.
  Lemma elems_de t a l raws : Forall2 (ELEM t a) l raws -> forallb ipc_clean raws = true -> mapM (de cf t) raws = Ok l.
  Proof.
    intros H Hc. apply mapM_ok. induction H as [|x y l l' Hxy _ IH]; [constructor|].
    simpl in Hc. apply andb_true_iff in Hc as [Hc1 Hc2]. constructor; [apply Hxy; exact Hc1|auto].
  Qed.

  (* ---- dict items *)
  Definition ITEM (k v : ty) (ak av : aty) (p : pv * pv) (tup : pv) : Prop :=
    exists rk rv, tup = VTuple [rk; rv] /\ ELEM k ak (fst p) rk /\ ELEM v av (snd p) rv /\ is_none rk = false.
  Definition untup (p : pv) : pv * pv := match p with VTuple [a; b] => (a, b) | _ => (VNone, VNone) end.

  Lemma items k v ak av : is_opt k = false -> RT k ak -> RT v av ->
    forall l, forallb (fun p => instb k (fst p) && instb v (snd p) && hashable (fst p)) l = true ->
    exists tups, Forall2 (ITEM k v ak av) l tups.
  Proof.
    intros Hk Hrk Hrv l. induction l as [|[kx vx] r IH]; simpl; intros Hl; [exists []; constructor|].
    apply andb_true_iff in Hl as [Hx Hr]. apply andb_true_iff in Hx as [Hx _]. apply andb_true_iff in Hx as [Hkx Hvx].
    destruct (Hrk kx Hkx) as [rk Hrk']. destruct (Hrv vx Hvx) as [rv Hrv']. destruct (IH Hr) as [tups Htups].
    exists (VTuple [rk; rv] :: tups). constructor; [|exact Htups].
    exists rk, rv. repeat split; try assumption; try apply Hrk'; try apply Hrv'.
    destruct Hrk' as (_ & _ & _ & Hn). simpl in Hn. rewrite Hn.
    destruct kx; try reflexivity. rewrite (inst_nonopt_notnone k Hk) in Hkx. discriminate.
  Qed.
  Lemma items_ser k v ak av l tups : Forall2 (ITEM k v ak av) l tups -> ser_pairs (ser cf ce false) l = Ok tups.
  Proof.
    induction 1 as [|[kx vx] tup l tups (rk & rv & -> & Hk & Hv & _) _ IH]; simpl; [reflexivity|].
    destruct Hk as (Hk & _). destruct Hv as (Hv & _). simpl in Hk, Hv. rewrite Hk. simpl. rewrite Hv. simpl. rewrite IH. reflexivity.
  Qed.
  Lemma items_arrow k v ak av l tups : Forall2 (ITEM k v ak av) l tups -> mapM (arrow_pair arrow_rt ak av) tups = Ok tups.
  Proof.
    intros H. apply mapM_id. induction H as [|[kx vx] tup l tups (rk & rv & -> & Hk & Hv & Hn) _ IH]; constructor; [|exact IH].
    destruct Hk as (_ & Hk & _). destruct Hv as (_ & Hv & _). simpl. rewrite Hk. simpl. rewrite Hn. rewrite Hv. reflexivity.
  Qed.
  Lemma items_pairs k v ak av l tups : Forall2 (ITEM k v ak av) l tups -> mapM as_pair tups = Ok (map untup tups).
  Proof.
    induction 1 as [|[kx vx] tup l tups (rk & rv & -> & _) _ IH]; simpl; [reflexivity|]. rewrite IH. reflexivity.
  Qed.
  Lemma items_de k v ak av l tups : Forall2 (ITEM k v ak av) l tups -> forallb ipc_clean tups = true ->
    mapM (fun p => k' <- de cf k (fst p) ;; x' <- de cf v (snd p) ;; Ok (k', x')) (map untup tups) = Ok l.
  Proof.
    induction 1 as [|[kx vx] tup l tups (rk & rv & -> & Hk & Hv & _) _ IH]; simpl; intros Hc; [reflexivity|].
    apply andb_true_iff in Hc as [Hc1 Hc2]. apply andb_true_iff in Hc1 as [Hck Hcv]. apply andb_true_iff in Hcv as [Hcv _].
    destruct Hk as (_ & _ & Hk & _). destruct Hv as (_ & _ & Hv & _). simpl in Hk, Hv.
    rewrite (Hk Hck). simpl. rewrite (Hv Hcv). simpl. rewrite (IH Hc2). reflexivity.
  Qed.
  Lemma items_hash k v ak av l tups : Forall2 (ITEM k v ak av) l tups -> True. Proof. auto. Qed.

  (* ---- a nested dataclass in its binary form *)
  Lemma binary_field c fs : OBJ c fs -> lookup_cls ce c = Some fs -> nodupb (map f_name fs) = true ->
    forall y, instb (TData c fs) y = true ->
    exists ok row, is_obj y = true /\ ser cf ce true y = Ok (VIpcRow ok row) /\
                   (ipc_clean (VIpcRow ok row) = true -> from_bytes (de cf) c fs (VIpcRow ok row) = Ok y).
  Proof.
    intros Ho Hlk Hnd y Hy. destruct (Ho y Hy) as (vals & row & sch & -> & Hfr).
    exists (batch_valid sch row), row. split; [reflexivity|]. split.
    - apply (obj_ser_true ce c fs vals row sch Hfr Hnd Hlk).
    - intros Hc. simpl in Hc. apply andb_true_iff in Hc as [Hv Hc]. rewrite Hv.
      apply (obj_from_bytes ce c fs vals row sch Hfr Hnd Hc).
  Qed.

  (* ---- fields *)
  Lemma build_FR fs : Forall (fun f => P (f_ty f)) fs -> wf_fields wfb fs = true -> cenv_fields (cenv_okb ce) fs = true ->
    forall vals, inst_fields instb fs vals = true -> exists row sch, FR ce fs vals row sch.
  Proof.
    induction 1 as [|[[[n k] d] t] fq Hp _ IH]; intros Hw Hc vals Hi.
    - destruct vals; [|discriminate]. exists [], []. constructor.
    - destruct vals as [|[n' y] vq]; [discriminate|]. simpl in Hw, Hc, Hi.
      apply andb_true_iff in Hw as [Hw1 Hw2]. apply andb_true_iff in Hc as [Hc1 Hc2].
      apply andb_true_iff in Hi as [Hi Hi3]. apply andb_true_iff in Hi as [Hi1 Hi2].
      apply N.eqb_eq in Hi1. subst n'.
      destruct (IH Hw2 Hc2 vq Hi3) as (rq & sq & Hfr).
      unfold f_ty in Hp. simpl in Hp.
      destruct k.
      + (* plain *)
        destruct (Hp Hw1 Hc1) as [(a & Ha & Hrt) _]. destruct (Hrt y Hi2) as (raw & H1 & H2 & H3 & H4).
        exists ((n, raw) :: rq), ((n, a) :: sq). apply FR_ser; try assumption. discriminate.
      + (* binary *)
        apply andb_true_iff in Hw1 as [Hd Hwt].
        destruct (unopt t) as [| | | | | |c' fs'| |] eqn:Eu; try discriminate.
        destruct (data_facts ce t c' fs' Eu Hwt Hc1) as (Hlk & Hnd & _ & _ & Hshape).
        destruct (Hp Hwt Hc1) as [_ Hobj]. specialize (Hobj c' fs' Eu).
        assert (Hcases : y = VNone /\ t = TOpt (TData c' fs') \/ instb (TData c' fs') y = true).
        { destruct Hshape as [->| ->]; [right; exact Hi2|].
          destruct y; try (right; exact Hi2). left; auto. }
        destruct Hcases as [[-> ->]|Hy].
        * exists ((n, VNone) :: rq), ((n, ABin) :: sq). apply FR_ser; try assumption; try reflexivity. discriminate.
        * destruct (binary_field c' fs' Hobj Hlk Hnd y Hy) as (ok & row & Hio & Hser & Hde).
          exists ((n, VIpcRow ok row) :: rq), ((n, ABin) :: sq). apply FR_ser; try assumption; try reflexivity.
          -- discriminate.
          -- rewrite Hio. exact Hser.
          -- intros Hcl. destruct Hshape as [->| ->]; [rewrite de_bin; auto|].
             rewrite de_opt by reflexivity. change (casc cf (de cf) (TData c' fs') (VIpcRow ok row)) with (from_bytes (de cf) c' fs' (VIpcRow ok row)). auto.
      + (* transient *)
        destruct d as [l|]; [|discriminate]. apply lit_is_eq in Hi2.
        exists rq, sq. apply FR_trans; assumption.
  Qed.

  Lemma schema_total fs : Forall (fun f => P (f_ty f)) fs -> wf_fields wfb fs = true -> cenv_fields (cenv_okb ce) fs = true ->
    exists sch, schema_fields cf fs = Ok sch.
  Proof.
    unfold schema_fields.
    induction 1 as [|[[[n k] d] t] fq Hp _ IH]; intros Hw Hc; [exists []; reflexivity|].
    simpl in Hw, Hc. apply andb_true_iff in Hw as [Hw1 Hw2]. apply andb_true_iff in Hc as [Hc1 Hc2].
    destruct (IH Hw2 Hc2) as (sq & Hsq). unfold f_ty in Hp. simpl in Hp. simpl.
    destruct k.
    - destruct (Hp Hw1 Hc1) as [(a & Ha & _) _]. rewrite Ha. simpl. rewrite Hsq. eexists; reflexivity.
    - rewrite Hsq. eexists; reflexivity.
    - destruct d; [|discriminate]. exists sq. exact Hsq.
  Qed.

  (* ---- the induction *)
  Theorem main : forall t, P t.
  Proof.
    induction t as [s|e ms|t IH|t IH|t IH|k v IHk IHv|c fs IH| |] using ty_ind'; intros Hw Hc.
    - (* scalar *)
      split; [|intros c fs Hu; discriminate].
      destruct s; eexists; (split; [reflexivity|]); intros x Hi; destruct x; simpl in Hi; try discriminate;
        eexists; (split; [reflexivity|]); (split; [simpl; try rewrite Hi; reflexivity|]); (split; [intros _; reflexivity|reflexivity]).
    - (* enum *)
      split; [|intros c fs Hu; discriminate].
      exists ADictStr. split; [reflexivity|]. intros x Hi. destruct x; simpl in Hi; try discriminate.
      apply andb_true_iff in Hi as [He Hn]. apply N.eqb_eq in He. subst e0.
      simpl in Hw. apply andb_true_iff in Hw as [_ Hw].
      assert (Hcp : forallb scalar_cp name = true).
      { apply enum_name_in in Hn. apply in_map_iff in Hn as [m [Hm1 Hm2]]. rewrite forallb_forall in Hw. specialize (Hw m Hm2). rewrite Hm1 in Hw. exact Hw. }
      exists (VStr name). split; [reflexivity|]. split; [simpl; rewrite Hcp; reflexivity|]. split; [|reflexivity].
      intros _. rewrite de_enum. unfold enum_lookup. rewrite Hn. reflexivity.
    - (* optional *)
      simpl in Hw, Hc. apply andb_true_iff in Hw as [Hno Hw]. apply negb_true_iff in Hno.
      destruct (IH Hw Hc) as [(a & Ha & Hrt) Hobj]. split.
      + exists a. split; [exact Ha|]. intros x Hi. destruct (is_none x) eqn:En.
        * destruct x; try discriminate. exists VNone. split; [reflexivity|]. split; [apply arrow_none|]. split; [intros _; reflexivity|reflexivity].
        * rewrite (inst_opt_some t x En) in Hi. destruct (Hrt x Hi) as (raw & H1 & H2 & H3 & H4).
          exists raw. split; [exact H1|]. split; [exact H2|]. split; [|exact H4].
          intros Hcl. assert (Hn : is_none raw = false) by (rewrite H4; exact En).
          rewrite (de_opt t raw Hn). rewrite <- (de_nonopt t raw Hno Hn). auto.
      + intros c fs Hu. simpl in Hu. apply Hobj. rewrite Hu. reflexivity.
    - (* list *)
      simpl in Hw, Hc. destruct (IH Hw Hc) as [(a & Ha & Hrt) _]. split; [|intros c fs Hu; discriminate].
      exists (AList a). split; [simpl; rewrite Ha; reflexivity|]. intros x Hi. destruct x; simpl in Hi; try discriminate.
      destruct (elems t a Hrt l Hi) as (raws & Hr). exists (VList raws).
      split; [rewrite ser_list; rewrite (elems_ser _ _ _ _ Hr); reflexivity|].
      split; [simpl; rewrite (elems_arrow _ _ _ _ Hr); reflexivity|]. split; [|reflexivity].
      intros Hcl. simpl in Hcl. rewrite de_list. rewrite (elems_de _ _ _ _ Hr Hcl). reflexivity.
    - (* frozenset *)
      simpl in Hw, Hc. destruct (IH Hw Hc) as [(a & Ha & Hrt) _]. split; [|intros c fs Hu; discriminate].
      exists (AList a). split; [simpl; rewrite Ha; reflexivity|]. intros x Hi. destruct x; simpl in Hi; try discriminate.
      apply andb_true_iff in Hi as [Hi Hh].
      destruct (elems t a Hrt l Hi) as (raws & Hr). exists (VList raws).
      split; [rewrite ser_set; rewrite (elems_ser _ _ _ _ Hr); reflexivity|].
      split; [simpl; rewrite (elems_arrow _ _ _ _ Hr); reflexivity|]. split; [|reflexivity].
      intros Hcl. simpl in Hcl. rewrite de_set. rewrite (elems_de _ _ _ _ Hr Hcl). simpl. unfold mk_set. rewrite Hh. reflexivity.
    - (* dict *)
      simpl in Hw, Hc. apply andb_true_iff in Hw as [Hw Hwv]. apply andb_true_iff in Hw as [Hno Hwk]. apply negb_true_iff in Hno.
      apply andb_true_iff in Hc as [Hck Hcv].
      destruct (IHk Hwk Hck) as [(ak & Hak & Hrk) _]. destruct (IHv Hwv Hcv) as [(av & Hav & Hrv) _].
      split; [|intros c fs Hu; discriminate].
      exists (AMap ak av). split; [simpl; rewrite Hak; simpl; rewrite Hav; reflexivity|].
      intros x Hi. destruct x; simpl in Hi; try discriminate.
      destruct (items k v ak av Hno Hrk Hrv l Hi) as (tups & Ht). exists (VList tups).
      split; [rewrite ser_dict; rewrite (items_ser _ _ _ _ _ _ Ht); reflexivity|].
      split; [simpl; rewrite (items_arrow _ _ _ _ _ _ Ht); reflexivity|]. split; [|reflexivity].
      intros Hcl. simpl in Hcl. rewrite de_dict. rewrite (items_pairs _ _ _ _ _ _ Ht). simpl.
      rewrite (items_de _ _ _ _ _ _ Ht Hcl). simpl. unfold mk_dict.
      assert (Hh : forallb (fun p => hashable (fst p)) l = true).
      { rewrite forallb_forall in *. intros p Hp. specialize (Hi p Hp). apply andb_true_iff in Hi as [_ Hi]. exact Hi. }
      rewrite Hh. reflexivity.
    - (* dataclass *)
      destruct (data_facts ce (TData c fs) c fs eq_refl Hw Hc) as (Hlk & Hnd & Hwf & Hcf & _).
      assert (Hobj : OBJ c fs).
      { intros x Hi. destruct x; simpl in Hi; try discriminate. apply andb_true_iff in Hi as [He Hi]. apply N.eqb_eq in He. subst c0.
        destruct (build_FR fs IH Hwf Hcf vals Hi) as (row & sch & Hfr). exists vals, row, sch. auto. }
      destruct (schema_total fs IH Hwf Hcf) as (sch & Hsch).
      split; [|intros c' fs' Hu; simpl in Hu; inversion Hu; subst; exact Hobj].
      exists (AStruct sch). split; [simpl; fold (schema_fields cf fs); rewrite Hsch; reflexivity|].
      intros x Hi. destruct (Hobj x Hi) as (vals & row & sch' & -> & Hfr).
      assert (sch' = sch) by (pose proof (FR_schema _ _ _ _ _ Hfr) as E; rewrite Hsch in E; congruence). subst sch'.
      exists (VRow row). split; [apply (obj_ser_false ce c fs vals row sch Hfr Hlk)|].
      split; [apply (obj_arrow ce fs vals row sch Hfr Hnd)|]. split; [|reflexivity].
      intros Hcl. rewrite de_struct. apply (obj_struct_de ce c fs vals row sch Hfr Hnd). exact Hcl.
    - (* pa.Schema *)
      split; [|intros c fs Hu; discriminate]. exists ABin. split; [reflexivity|].
      intros x Hi. destruct x; simpl in Hi; try discriminate. exists (VIpcSchema i). repeat split; reflexivity.
    - (* pa.RecordBatch *)
      split; [|intros c fs Hu; discriminate]. exists ABin. split; [reflexivity|].
      intros x Hi. destruct x; simpl in Hi; try discriminate. exists (VIpcBatch i). repeat split; reflexivity.
  Qed.

  (* ---- the class-level statements *)
  Theorem class_fr c fs x : wfb (TData c fs) = true -> cenv_okb ce (TData c fs) = true -> instb (TData c fs) x = true ->
    exists vals row sch, x = VObj c vals /\ FR ce fs vals row sch /\ lookup_cls ce c = Some fs /\ nodupb (map f_name fs) = true.
  Proof.
    intros Hw Hc Hi. destruct (main (TData c fs) Hw Hc) as [_ Hobj].
    destruct (Hobj c fs eq_refl x Hi) as (vals & row & sch & Hx & Hfr).
    destruct (data_facts ce (TData c fs) c fs eq_refl Hw Hc) as (Hlk & Hnd & _).
    exists vals, row, sch. auto.
  Qed.

  Theorem serialize_total c fs x : wfb (TData c fs) = true -> cenv_okb ce (TData c fs) = true -> instb (TData c fs) x = true ->
    exists b, serialize_to_bytes cf ce x = Ok b.
  Proof.
    intros Hw Hc Hi. destruct (class_fr c fs x Hw Hc Hi) as (vals & row & sch & -> & Hfr & Hlk & Hnd).
    eexists. apply (obj_ser_true ce c fs vals row sch Hfr Hnd Hlk).
  Qed.

  Theorem arrow_roundtrip c fs x b : wfb (TData c fs) = true -> cenv_okb ce (TData c fs) = true -> instb (TData c fs) x = true ->
    serialize_to_bytes cf ce x = Ok b -> ipc_clean b = true -> deserialize_from_bytes cf (TData c fs) b = Ok x.
  Proof.
    intros Hw Hc Hi Hs Hcl. destruct (class_fr c fs x Hw Hc Hi) as (vals & row & sch & -> & Hfr & Hlk & Hnd).
    unfold serialize_to_bytes in Hs. rewrite (obj_ser_true ce c fs vals row sch Hfr Hnd Hlk) in Hs. inversion Hs; subst b.
    simpl in Hcl. apply andb_true_iff in Hcl as [Hv Hcl]. rewrite Hv. simpl.
    apply (obj_from_bytes ce c fs vals row sch Hfr Hnd Hcl).
  Qed.
End RT.
