(* The resolution path of model/M_StickyTok.v (middleware and DELETE) over an ideal AEAD:
   resumed <-> sealed by THIS worker for THIS identity and still registered and unexpired. *)
From Coq Require Import List NArith ZArith Bool Lia Arith.
From VGI Require Import Bytes Layout M_StickyTok L_StickyTok.
Import ListNotations.
Open Scope N_scope.

(* ---------------------------------------------------------------- registry *)
Definition live (r : registry) (sid pk : bytes) (now : Z) : Prop :=
  exists exp, reg_lookup r sid = Some (exp, pk) /\ (now <= exp)%Z.

Lemma reg_lookup_remove_same : forall r sid, reg_lookup (reg_remove r sid) sid = None.
Proof.
  induction r as [|[s v] r IH]; intros sid; cbn [reg_remove reg_lookup].
  - reflexivity.
  - destruct (Bytes.bytes_eqb s sid) eqn:E; [apply IH|]. cbn [reg_lookup]. rewrite E. apply IH.
Qed.

Lemma reg_lookup_remove_other : forall r sid sid', sid' <> sid -> reg_lookup (reg_remove r sid) sid' = reg_lookup r sid'.
Proof.
  induction r as [|[s v] r IH]; intros sid sid' Hne; cbn [reg_remove reg_lookup].
  - reflexivity.
  - destruct (Bytes.bytes_eqb s sid) eqn:E.
    + apply Bytes.bytes_eqb_eq in E. subst s.
      destruct (Bytes.bytes_eqb sid sid') eqn:E2.
      * apply Bytes.bytes_eqb_eq in E2. subst. contradiction.
      * apply IH. exact Hne.
    + cbn [reg_lookup]. destruct (Bytes.bytes_eqb s sid'); [reflexivity|]. apply IH. exact Hne.
Qed.

Lemma reg_lookup_remove_sub : forall r sid sid' v, reg_lookup (reg_remove r sid) sid' = Some v -> reg_lookup r sid' = Some v.
Proof.
  intros r sid sid' v H. destruct (Bytes.bytes_eqb_spec sid' sid) as [E|E].
  - subst. rewrite reg_lookup_remove_same in H. discriminate H.
  - rewrite reg_lookup_remove_other in H by exact E. exact H.
Qed.

Lemma reg_lookup_insert_same : forall r sid v, reg_lookup (reg_insert r sid v) sid = Some v.
Proof. intros r sid v. unfold reg_insert. cbn [reg_lookup]. rewrite Bytes.bytes_eqb_refl. reflexivity. Qed.

Lemma reg_lookup_insert_other : forall r sid v sid', sid' <> sid -> reg_lookup (reg_insert r sid v) sid' = reg_lookup r sid'.
Proof.
  intros r sid v sid' Hne. unfold reg_insert. cbn [reg_lookup].
  destruct (Bytes.bytes_eqb sid sid') eqn:E.
  - apply Bytes.bytes_eqb_eq in E. subst. contradiction.
  - apply reg_lookup_remove_other. exact Hne.
Qed.

(* registries are dicts: at most one entry per session id *)
Fixpoint reg_nodup (r : registry) : Prop :=
  match r with
  | [] => True
  | (s, _) :: r' => reg_lookup r' s = None /\ reg_nodup r'
  end.

Lemma reg_remove_absent : forall r sid, reg_lookup r sid = None -> reg_remove r sid = r.
Proof.
  induction r as [|[s v] r IH]; intros sid H; cbn [reg_remove reg_lookup] in *.
  - reflexivity.
  - destruct (Bytes.bytes_eqb s sid); [discriminate H|]. rewrite IH by exact H. reflexivity.
Qed.

Lemma reg_nodup_remove : forall r sid, reg_nodup r -> reg_nodup (reg_remove r sid).
Proof.
  induction r as [|[s v] r IH]; intros sid H; cbn [reg_remove reg_nodup] in *.
  - exact I.
  - destruct H as [H1 H2]. destruct (Bytes.bytes_eqb s sid) eqn:E.
    + apply IH. exact H2.
    + cbn [reg_nodup]. split; [|apply IH; exact H2].
      destruct (reg_lookup (reg_remove r sid) s) eqn:L; [|reflexivity].
      apply reg_lookup_remove_sub in L. rewrite H1 in L. discriminate L.
Qed.

Lemma reg_nodup_insert : forall r sid v, reg_nodup r -> reg_nodup (reg_insert r sid v).
Proof.
  intros r sid v H. unfold reg_insert. cbn [reg_nodup]. split; [apply reg_lookup_remove_same|apply reg_nodup_remove; exact H].
Qed.

Lemma reg_lookup_filter_none : forall (f : entry -> bool) r sid, reg_lookup r sid = None -> reg_lookup (filter f r) sid = None.
Proof.
  induction r as [|[s v] r IH]; intros sid H; cbn [filter reg_lookup] in *.
  - reflexivity.
  - destruct (Bytes.bytes_eqb s sid) eqn:E; [discriminate H|].
    destruct (f (s, v)); cbn [reg_lookup]; rewrite ?E; apply IH; exact H.
Qed.

Lemma reg_lookup_drain : forall r now sid exp pk,
  reg_nodup r ->
  reg_lookup (reg_drain r now) sid = Some (exp, pk) -> reg_lookup r sid = Some (exp, pk) /\ (now <= exp)%Z.
Proof.
  induction r as [|[s [e p]] r IH]; intros now sid exp pk Hnd H; unfold reg_drain in H; cbn [filter fst snd] in H.
  - discriminate H.
  - destruct Hnd as [Hn1 Hn2]. cbn [reg_lookup]. destruct (e <? now)%Z eqn:E; cbn [negb] in H.
    + destruct (Bytes.bytes_eqb s sid) eqn:Es.
      * apply Bytes.bytes_eqb_eq in Es. subst s.
        rewrite (reg_lookup_filter_none _ r sid Hn1) in H. discriminate H.
      * apply (IH now sid exp pk Hn2). exact H.
    + cbn [reg_lookup] in H. destruct (Bytes.bytes_eqb s sid) eqn:Es.
      * injection H as H1 H2. subst. split; [reflexivity|]. apply Z.ltb_ge in E. exact E.
      * apply (IH now sid exp pk Hn2). exact H.
Qed.

Lemma reg_nodup_drain : forall r now, reg_nodup r -> reg_nodup (reg_drain r now).
Proof.
  induction r as [|[s v] r IH]; intros now H; unfold reg_drain; cbn [filter].
  - exact I.
  - destruct H as [H1 H2]. destruct (negb (fst (snd (s, v)) <? now)%Z).
    + cbn [reg_nodup]. split; [apply reg_lookup_filter_none; exact H1|apply IH; exact H2].
    + apply IH. exact H2.
Qed.

(* _SessionRegistry.get *)
Lemma reg_get_true_inv : forall r sid pk now r',
  reg_get r sid pk now = (true, r') -> r' = r /\ live r sid pk now.
Proof.
  intros r sid pk now r' H. unfold reg_get in H.
  destruct (reg_lookup r sid) as [[exp pk']|] eqn:L; [|discriminate H].
  destruct (exp <? now)%Z eqn:E; [discriminate H|].
  destruct (Bytes.bytes_eqb pk' pk) eqn:Ep; cbn [negb] in H; [|discriminate H].
  injection H as H. apply Bytes.bytes_eqb_eq in Ep. subst pk' r'. split; [reflexivity|].
  exists exp. split; [exact L|]. apply Z.ltb_ge in E. exact E.
Qed.

Lemma reg_get_live : forall r sid pk now, live r sid pk now -> reg_get r sid pk now = (true, r).
Proof.
  intros r sid pk now [exp [L E]]. unfold reg_get. rewrite L.
  assert (E' : (exp <? now)%Z = false) by (apply Z.ltb_ge; exact E). rewrite E'.
  rewrite Bytes.bytes_eqb_refl. reflexivity.
Qed.

(* a miss removes at most an expired entry: every live session stays live *)
Lemma reg_get_preserves_live : forall r sid pk now hit r' sid' pk',
  reg_get r sid pk now = (hit, r') -> live r sid' pk' now -> live r' sid' pk' now.
Proof.
  intros r sid pk now hit r' sid' pk' H [exp' [L' E']]. unfold reg_get in H.
  destruct (reg_lookup r sid) as [[exp pk0]|] eqn:L.
  - destruct (exp <? now)%Z eqn:E.
    + injection H as _ H. subst r'. exists exp'. split; [|exact E'].
      destruct (Bytes.bytes_eqb_spec sid' sid) as [Es|Es].
      * subst sid'. rewrite L in L'. injection L' as L1 L2. subst. apply Z.ltb_lt in E. lia.
      * rewrite reg_lookup_remove_other by exact Es. exact L'.
    + destruct (negb (Bytes.bytes_eqb pk0 pk)); injection H as _ H; subst r'; exists exp'; split; assumption.
  - injection H as _ H. subst r'. exists exp'. split; assumption.
Qed.

Lemma reg_get_sub : forall r sid pk now hit r' sid' v,
  reg_get r sid pk now = (hit, r') -> reg_lookup r' sid' = Some v -> reg_lookup r sid' = Some v.
Proof.
  intros r sid pk now hit r' sid' v H L'. unfold reg_get in H.
  destruct (reg_lookup r sid) as [[exp pk0]|] eqn:L.
  - destruct (exp <? now)%Z.
    + injection H as _ H. subst r'. eapply reg_lookup_remove_sub. exact L'.
    + destruct (negb (Bytes.bytes_eqb pk0 pk)); injection H as _ H; subst r'; exact L'.
  - injection H as _ H. subst r'. exact L'.
Qed.

Lemma reg_get_nodup : forall r sid pk now hit r', reg_get r sid pk now = (hit, r') -> reg_nodup r -> reg_nodup r'.
Proof.
  intros r sid pk now hit r' H Hn. unfold reg_get in H.
  destruct (reg_lookup r sid) as [[exp pk0]|].
  - destruct (exp <? now)%Z.
    + injection H as _ H. subst r'. apply reg_nodup_remove. exact Hn.
    + destruct (negb (Bytes.bytes_eqb pk0 pk)); injection H as _ H; subst r'; exact Hn.
  - injection H as _ H. subst r'. exact Hn.
Qed.

Lemma reg_close_sub : forall r sid sid' v, reg_lookup (snd (reg_close r sid)) sid' = Some v -> reg_lookup r sid' = Some v.
Proof.
  intros r sid sid' v H. unfold reg_close in H. destruct (reg_lookup r sid); cbn [snd] in H.
  - eapply reg_lookup_remove_sub. exact H.
  - exact H.
Qed.

Lemma reg_close_gone : forall r sid, reg_lookup (snd (reg_close r sid)) sid = None.
Proof.
  intros r sid. unfold reg_close. destruct (reg_lookup r sid) eqn:L; cbn [snd].
  - apply reg_lookup_remove_same.
  - exact L.
Qed.

Lemma reg_close_nodup : forall r sid, reg_nodup r -> reg_nodup (snd (reg_close r sid)).
Proof.
  intros r sid H. unfold reg_close. destruct (reg_lookup r sid); cbn [snd]; [apply reg_nodup_remove|]; exact H.
Qed.

(* ---------------------------------------------------------------- the ideal AEAD *)
Record mint := { m_worker : nat; m_ident : identity; m_created : N; m_sid : bytes; m_exp : N; m_nonce : bytes }.

Definition mint_wf (e : mint) : Prop :=
  ident_ok (m_ident e) /\ length (m_sid e) = 12%nat /\ m_exp e < U64 /\ length (m_nonce e) = 24%nat.

Section Ideal.
  Variable aead_seal : bytes -> bytes -> bytes -> bytes -> bytes.
  Variable aead_open : bytes -> bytes -> bytes -> bytes -> option bytes.
  Variable utf8_replace : bytes -> list N.
  Variable codec : sid_codec.
  Variable ws : list worker.                  (* the deployment: worker k has key and server id [nth k ws] *)
  Variable minted : mint -> Prop.             (* the session tokens the workers sealed (the mint log) *)

  Notation decode_sid' := (decode_sid utf8_replace codec).
  Notation open_bytes' := (open_bytes aead_open).
  Notation open_token' := (open_token aead_open).
  Notation resolve' := (resolve aead_open utf8_replace codec).
  Notation call' := (call aead_open utf8_replace codec).
  Notation delete' := (delete aead_open utf8_replace codec).
  Notation seal_bytes' := (seal_bytes aead_seal).

  (* AEAD correctness and tag length (only needed for "genuine => served") *)
  Definition aead_correct : Prop :=
    (forall k a n p, aead_open k a n (aead_seal k a n p) = Some p) /\
    (forall k a n p, (16 <= length (aead_seal k a n p))%nat).

  (* the payload and the envelope of a minted token *)
  Definition mint_payload (e : mint) (v : worker) (sb : bytes) : bytes :=
    session_plain (m_created e) sb (m_sid e) (m_exp e).
  Definition is_envelope (e : mint) (raw : bytes) : Prop :=
    exists v sb, nth_error ws (m_worker e) = Some v /\ utf8_encode (w_id v) = Some sb /\
      raw = seal_bytes' (mint_payload e v sb) (w_key v) (compute_aad (m_ident e)) (m_nonce e).

  (* unforgeability of ONE presented ciphertext: if it opens under this key and this AAD, a worker holding the key
     sealed exactly it, as a session token, under exactly this AAD *)
  Definition unforged (key aad nonce body : bytes) : Prop :=
    forall p, aead_open key aad nonce body = Some p ->
      exists e v sb, minted e /\ nth_error ws (m_worker e) = Some v /\ w_key v = key /\
        compute_aad (m_ident e) = aad /\ m_nonce e = nonce /\ utf8_encode (w_id v) = Some sb /\
        p = mint_payload e v sb /\ body = aead_seal key aad nonce p.
  Definition token_unforged (key aad : bytes) (hdr : list N) : Prop :=
    forall raw, decode_text hdr = Some raw -> unforged key aad (firstn 24 (tl raw)) (skipn 24 (tl raw)).

  (* workers that share a key are told apart by their server ids, as the source compares them *)
  Definition no_alias : Prop :=
    forall k1 k2 w1 w2 sb, nth_error ws k1 = Some w1 -> nth_error ws k2 = Some w2 -> w_key w1 = w_key w2 ->
      utf8_encode (w_id w1) = Some sb -> decode_sid' sb = w_id w2 -> k1 = k2.
  (* a worker recognises its own server id in what it sealed *)
  Definition codec_ok (w : worker) : Prop := forall sb, utf8_encode (w_id w) = Some sb -> decode_sid' sb = w_id w.

  (* the property's condition: the header decodes to the envelope of a token minted by worker k for identity i, whose
     session sid is still registered for i and unexpired *)
  Definition genuine (k : nat) (i : identity) (hdr : list N) (sid : bytes) (reg : registry) (now : Z) : Prop :=
    exists raw e, decode_text hdr = Some raw /\ minted e /\ is_envelope e raw /\
      m_worker e = k /\ m_ident e = i /\ m_sid e = sid /\ live reg sid (principal_key i) now.

  (* ---------- inversion of the opening pipeline ---------- *)
  Lemma open_bytes_some : forall raw key aad pl,
    open_bytes' raw key aad = Some pl ->
    exists t, raw = TOKEN_VERSION :: t /\ aead_open key aad (firstn 24 t) (skipn 24 t) = Some pl.
  Proof.
    intros raw key aad pl H. unfold open_bytes in H.
    destruct (blen raw <? MIN_TOKEN_LEN); [discriminate H|].
    destruct raw as [|v t]; [discriminate H|].
    destruct (v =? TOKEN_VERSION) eqn:Ev; cbn [negb] in H; [|discriminate H].
    apply N.eqb_eq in Ev. subst v. exists t. split; [reflexivity|]. exact H.
  Qed.

  Lemma open_bytes_seal : forall p key aad nonce,
    aead_correct -> length nonce = 24%nat ->
    open_bytes' (seal_bytes' p key aad nonce) key aad = Some p.
  Proof.
    intros p key aad nonce [Hc Hl] Hn. unfold open_bytes, seal_bytes.
    assert (E : (blen (TOKEN_VERSION :: nonce ++ aead_seal key aad nonce p) <? MIN_TOKEN_LEN) = false).
    { apply N.ltb_ge. unfold blen, MIN_TOKEN_LEN. cbn [length]. rewrite app_length, Hn. specialize (Hl key aad nonce p). lia. }
    rewrite E. rewrite N.eqb_refl. cbn [negb].
    unfold slice, VERSION_LEN, NONCE_LEN. change (N.to_nat (1 + 24 - 1)) with 24%nat. change (N.to_nat 1) with 1%nat.
    change (N.to_nat (1 + 24)) with 25%nat.
    set (body := aead_seal key aad nonce p).
    change (skipn 1 (TOKEN_VERSION :: nonce ++ body)) with (nonce ++ body).
    change (skipn 25 (TOKEN_VERSION :: nonce ++ body)) with (skipn 24 (nonce ++ body)).
    rewrite (firstn_app_exact' 24 nonce _ Hn).
    rewrite (skipn_app_exact' 24 nonce _ Hn). apply Hc.
  Qed.

  Lemma resolve_resume_inv : forall w reg now i hdr sid reg',
    resolve' w reg now i hdr = (RResume sid, reg') ->
    exists txt raw pl sb e0,
      hdr = Some txt /\ txt <> [] /\ decode_text txt = Some raw /\
      open_bytes' raw (w_key w) (compute_aad i) = Some pl /\ parse_plain pl = Some (sb, sid, e0) /\
      decode_sid' sb = w_id w /\ reg' = reg /\ live reg sid (principal_key i) now.
  Proof.
    intros w reg now i hdr sid reg' H. unfold resolve in H.
    destruct hdr as [[|c t]|]; try discriminate H.
    unfold open_token in H.
    destruct (decode_text (c :: t)) as [raw|] eqn:D; [|discriminate H].
    destruct (open_bytes' raw (w_key w) (compute_aad i)) as [pl|] eqn:O; [|discriminate H].
    destruct (parse_plain pl) as [[[sb sid0] e0]|] eqn:P; [|discriminate H].
    destruct (text_eqb (decode_sid' sb) (w_id w)) eqn:T; cbn [negb] in H; [|discriminate H].
    destruct (reg_get reg sid0 (principal_key i) now) as [hit reg1] eqn:G.
    destruct hit; [|discriminate H].
    injection H as H1 H2. subst sid0 reg1.
    apply reg_get_true_inv in G. destruct G as [G1 G2].
    apply text_eqb_eq in T.
    exists (c :: t), raw, pl, sb, e0. repeat split; try assumption; try reflexivity. discriminate.
  Qed.

  (* ---------- access => genuine ---------- *)
  Theorem resume_sound : forall k w reg now i txt sid reg',
    nth_error ws k = Some w ->
    (forall e, minted e -> mint_wf e) -> ident_ok i -> no_alias ->
    token_unforged (w_key w) (compute_aad i) txt ->
    resolve' w reg now i (Some txt) = (RResume sid, reg') ->
    genuine k i txt sid reg now /\ reg' = reg.
  Proof.
    intros k w reg now i txt sid reg' Hw Hwf Hi Hna Hu H.
    apply resolve_resume_inv in H.
    destruct H as [txt' [raw [pl [sb [e0 [Eh [_ [D [O [P [S [R L]]]]]]]]]]]].
    injection Eh as Eh. subst txt'. split; [|exact R].
    apply open_bytes_some in O. destruct O as [t [Hraw O]].
    specialize (Hu raw D). subst raw. cbn [tl] in Hu.
    destruct (Hu pl O) as [e [v [sb' [Hm [Hv [Hk [Haad [Hn [Henc [Hp Hbody]]]]]]]]]].
    destruct (Hwf e Hm) as [Hie [Hsl [Hel Hnl]]].
    pose proof (aad_injective _ _ Hie Hi Haad) as Hident.
    unfold mint_payload in Hp. subst pl.
    rewrite (parse_session_plain _ _ _ _ Hsl Hel) in P. injection P as P1 P2 P3. subst sb' sid.
    assert (Hkk : m_worker e = k).
    { apply (Hna (m_worker e) k v w sb Hv Hw Hk Henc S). }
    exists (TOKEN_VERSION :: t), e. split; [exact D|]. split; [exact Hm|]. split.
    { exists v, sb. split; [exact Hv|]. split; [exact Henc|].
      unfold seal_bytes. f_equal. rewrite <- (firstn_skipn 24 t) at 1. rewrite <- Hn. f_equal.
      rewrite Hbody. unfold mint_payload. rewrite Hk, Haad, Hn. reflexivity. }
    split; [exact Hkk|]. split; [exact Hident|]. split; [reflexivity|]. exact L.
  Qed.

  (* ---------- genuine => access ---------- *)
  Lemma decode_text_nil : decode_text [] = Some [].
  Proof. reflexivity. Qed.

  Theorem resume_complete : forall k w reg now i txt sid,
    nth_error ws k = Some w ->
    (forall e, minted e -> mint_wf e) -> aead_correct -> codec_ok w ->
    genuine k i txt sid reg now ->
    resolve' w reg now i (Some txt) = (RResume sid, reg).
  Proof.
    intros k w reg now i txt sid Hw Hwf Hac Hco [raw [e [D [Hm [[v [sb [Hv [Henc Hraw]]]] [Hk [Hi [Hs L]]]]]]]].
    destruct (Hwf e Hm) as [Hie [Hsl [Hel Hnl]]].
    rewrite Hk in Hv. rewrite Hw in Hv. injection Hv as Hv. subst v.
    unfold resolve. destruct txt as [|c t].
    { rewrite decode_text_nil in D. injection D as D. subst raw. unfold seal_bytes in Hraw. discriminate Hraw. }
    unfold open_token. rewrite D. subst raw. rewrite Hi.
    rewrite (open_bytes_seal _ _ _ _ Hac Hnl).
    unfold mint_payload. rewrite (parse_session_plain _ _ _ _ Hsl Hel).
    rewrite (Hco sb Henc). rewrite text_eqb_refl. cbn [negb]. rewrite Hs.
    rewrite (reg_get_live _ _ _ _ L). reflexivity.
  Qed.

  (* ---------- every other presentation: session_lost ---------- *)
  Lemma resolve_nonempty : forall w reg now i c t,
    (exists sid reg', resolve' w reg now i (Some (c :: t)) = (RResume sid, reg')) \/
    (exists l reg', resolve' w reg now i (Some (c :: t)) = (RLost l, reg')).
  Proof.
    intros w reg now i c t. unfold resolve.
    destruct (open_token' (w_key w) (compute_aad i) (c :: t)) as [l|[[sb sid] e0]].
    - right. eexists. eexists. reflexivity.
    - destruct (negb (text_eqb (decode_sid' sb) (w_id w))).
      + right. eexists. eexists. reflexivity.
      + destruct (reg_get reg sid (principal_key i) now) as [hit reg1]. destruct hit.
        * left. eexists. eexists. reflexivity.
        * right. eexists. eexists. reflexivity.
  Qed.

  (* whatever the outcome, nothing that was live is lost by a refusal (at most an expired entry is evicted),
     and the registry only shrinks *)
  Lemma resolve_preserves_live : forall w reg now i hdr r reg' sid' pk',
    resolve' w reg now i hdr = (r, reg') -> live reg sid' pk' now -> live reg' sid' pk' now.
  Proof.
    intros w reg now i hdr r reg' sid' pk' H L. unfold resolve in H.
    destruct hdr as [[|c t]|]; try (injection H as _ H; subst reg'; exact L).
    destruct (open_token' (w_key w) (compute_aad i) (c :: t)) as [l|[[sb sid] e0]].
    - injection H as _ H. subst reg'. exact L.
    - destruct (negb (text_eqb (decode_sid' sb) (w_id w))).
      + injection H as _ H. subst reg'. exact L.
      + destruct (reg_get reg sid (principal_key i) now) as [hit reg1] eqn:G.
        destruct hit; injection H as _ H; subst reg'; eapply reg_get_preserves_live; eassumption.
  Qed.

  Lemma resolve_sub : forall w reg now i hdr r reg' sid' v,
    resolve' w reg now i hdr = (r, reg') -> reg_lookup reg' sid' = Some v -> reg_lookup reg sid' = Some v.
  Proof.
    intros w reg now i hdr r reg' sid' v H L. unfold resolve in H.
    destruct hdr as [[|c t]|]; try (injection H as _ H; subst reg'; exact L).
    destruct (open_token' (w_key w) (compute_aad i) (c :: t)) as [l|[[sb sid] e0]].
    - injection H as _ H. subst reg'. exact L.
    - destruct (negb (text_eqb (decode_sid' sb) (w_id w))).
      + injection H as _ H. subst reg'. exact L.
      + destruct (reg_get reg sid (principal_key i) now) as [hit reg1] eqn:G.
        destruct hit; injection H as _ H; subst reg'; eapply reg_get_sub; eassumption.
  Qed.

  Lemma resolve_nodup : forall w reg now i hdr r reg', resolve' w reg now i hdr = (r, reg') -> reg_nodup reg -> reg_nodup reg'.
  Proof.
    intros w reg now i hdr r reg' H Hn. unfold resolve in H.
    destruct hdr as [[|c t]|]; try (injection H as _ H; subst reg'; exact Hn).
    destruct (open_token' (w_key w) (compute_aad i) (c :: t)) as [l|[[sb sid] e0]].
    - injection H as _ H. subst reg'. exact Hn.
    - destruct (negb (text_eqb (decode_sid' sb) (w_id w))).
      + injection H as _ H. subst reg'. exact Hn.
      + destruct (reg_get reg sid (principal_key i) now) as [hit reg1] eqn:G.
        destruct hit; injection H as _ H; subst reg'; eapply reg_get_nodup; eassumption.
  Qed.

  Definition premises (k : nat) (w : worker) (i : identity) (txt : list N) : Prop :=
    nth_error ws k = Some w /\ (forall e, minted e -> mint_wf e) /\ ident_ok i /\ no_alias /\
    token_unforged (w_key w) (compute_aad i) txt.

  Theorem access_iff : forall k w reg now i txt sid,
    premises k w i txt -> aead_correct -> codec_ok w ->
    ((exists reg', resolve' w reg now i (Some txt) = (RResume sid, reg')) <-> genuine k i txt sid reg now).
  Proof.
    intros k w reg now i txt sid [Hw [Hwf [Hi [Hna Hu]]]] Hac Hco. split.
    - intros [reg' H]. apply (resume_sound k w reg now i txt sid reg' Hw Hwf Hi Hna Hu H).
    - intros G. exists reg. apply (resume_complete k w reg now i txt sid Hw Hwf Hac Hco G).
  Qed.

  Definition lost_obs (l : lost) : call_obs :=
    {| co_lost := Some l; co_dispatched := false; co_session := None; co_close_hdr := false |}.

  Theorem other_presentations_lost : forall k w reg now i c t closes,
    premises k w i (c :: t) ->
    (forall sid, ~ genuine k i (c :: t) sid reg now) ->
    exists l reg',
      call' w reg now i (Some (c :: t)) closes = (lost_obs l, reg') /\
      delete' w reg now i (Some (c :: t)) = (resp_200, reg') /\
      (forall sid' pk', live reg sid' pk' now -> live reg' sid' pk' now).
  Proof.
    intros k w reg now i c t closes [Hw [Hwf [Hi [Hna Hu]]]] Hng.
    destruct (resolve_nonempty w reg now i c t) as [[sid [reg' H]]|[l [reg' H]]].
    - exfalso. apply (Hng sid). apply (resume_sound k w reg now i (c :: t) sid reg' Hw Hwf Hi Hna Hu H).
    - exists l, reg'. unfold call, delete. rewrite H. split; [reflexivity|]. split; [reflexivity|].
      intros sid' pk' L. eapply resolve_preserves_live; eassumption.
  Qed.

  (* ---------- DELETE ---------- *)
  Theorem delete_204_iff : forall k w reg now i txt,
    premises k w i txt -> aead_correct -> codec_ok w ->
    (fst (delete' w reg now i (Some txt)) = resp_204 <-> exists sid, genuine k i txt sid reg now).
  Proof.
    intros k w reg now i txt Hp Hac Hco. unfold delete.
    destruct (resolve' w reg now i (Some txt)) as [r reg'] eqn:R. split.
    - intros H. destruct r as [|sid|l]; cbn [fst] in H; try discriminate H.
      exists sid. apply (access_iff k w reg now i txt sid Hp Hac Hco). exists reg'. exact R.
    - intros [sid G]. apply (access_iff k w reg now i txt sid Hp Hac Hco) in G. destruct G as [reg2 G].
      rewrite R in G. injection G as G1 G2. subst r. reflexivity.
  Qed.

  Theorem delete_two_responses : forall w reg now i hdr,
    fst (delete' w reg now i hdr) = resp_204 \/ fst (delete' w reg now i hdr) = resp_200.
  Proof.
    intros w reg now i hdr. unfold delete. destruct (resolve' w reg now i hdr) as [[|sid|l] reg']; [right|left|right]; reflexivity.
  Qed.

  Theorem delete_204_closes : forall w reg now i hdr reg',
    delete' w reg now i hdr = (resp_204, reg') ->
    exists sid, (exists r1, resolve' w reg now i hdr = (RResume sid, r1)) /\ reg_lookup reg' sid = None /\
                (forall sid' v, reg_lookup reg' sid' = Some v -> reg_lookup reg sid' = Some v).
  Proof.
    intros w reg now i hdr reg' H. unfold delete in H.
    destruct (resolve' w reg now i hdr) as [[|sid|l] r1] eqn:R; try discriminate H.
    injection H as H. subst reg'. exists sid. split; [exists r1; reflexivity|]. split; [apply reg_close_gone|].
    intros sid' v L. apply reg_close_sub in L. eapply resolve_sub; eassumption.
  Qed.

  Theorem delete_200_keeps_live : forall w reg now i hdr reg',
    delete' w reg now i hdr = (resp_200, reg') -> forall sid' pk', live reg sid' pk' now -> live reg' sid' pk' now.
  Proof.
    intros w reg now i hdr reg' H sid' pk' L. unfold delete in H.
    destruct (resolve' w reg now i hdr) as [[|sid|l] r1] eqn:R; try discriminate H;
      injection H as H; subst reg'; eapply resolve_preserves_live; eassumption.
  Qed.

  (* a call that closes: the session is gone afterwards *)
  Theorem call_close_gone : forall w reg now i hdr sid o reg',
    call' w reg now i hdr true = (o, reg') -> co_session o = Some sid -> reg_lookup reg' sid = None.
  Proof.
    intros w reg now i hdr sid o reg' H Hs. unfold call in H.
    destruct (resolve' w reg now i hdr) as [[|sid0|l] r1]; injection H as H1 H2; subst o reg'; cbn [co_session] in Hs; try discriminate Hs.
    injection Hs as Hs. subst sid0. apply reg_close_gone.
  Qed.
End Ideal.
