(* L_ConnIsoWire: the private machine of one client connection (M_ConnIso.cstep), run alone to completion,
   observes exactly its calls run one after the other on the wire core: ctrace = seq_calls = run_pipe per call. *)
From Coq Require Import List NArith ZArith Bool Arith Lia.
From VGI Require Import Corr M_Wire L_Wire M_ConnIso L_ConnIso.
Import ListNotations.
Open Scope nat_scope.

Notation csolo := (solo cfin cstep).

Lemma cut_idem t : cut (cut t) = cut t.
Proof.
  induction t as [|e r IH]; [reflexivity|]. simpl. destruct (terminal e) eqn:T; simpl; rewrite T; [reflexivity|].
  rewrite IH. reflexivity.
Qed.

Lemma csolo_step x m : todo x <> [] -> csolo (S m) x = csolo m (cstep x).
Proof.
  intro H. simpl. unfold cfin. destruct (cur_ x); destruct (todo x); try reflexivity; congruence.
Qed.

Lemma end_call_go_on x es1 o es2 : end_call (go_on x es1 o) es2 = end_call x (es1 ++ es2).
Proof. unfold end_call, go_on. simpl. rewrite <- app_assoc. reflexivity. Qed.

Lemma cstep_open x o : cur_ x = Open o ->
  cstep x = if is_zero (o_n o) then end_call x (pipe_after (o_c o) (o_a o) (Live (o_q o) (o_alive o)))
            else let '(es, z) := read_one o in
                 match z with
                 | Live q' alive' =>
                     go_on x es {| o_prod := o_prod o; o_c := o_c o; o_a := o_a o; o_alive := alive'; o_sts := tl (o_sts o);
                                   o_n := opred (o_n o); o_q := q' |}
                 | Over => end_call x es
                 end.
Proof. intro H. unfold cstep. rewrite H. reflexivity. Qed.

Lemma pipe_prod_is_zero c alive sts n q : is_zero n = true -> pipe_prod c alive sts n q = (@nil event, Live q alive).
Proof. intro H. destruct sts; simpl; rewrite H; reflexivity. Qed.

(* ------------------------------------------------------------------ producer loop *)
Lemma prod_loop : forall sts x c a alive n q,
  cur_ x = Open {| o_prod := true; o_c := c; o_a := a; o_alive := alive; o_sts := sts; o_n := n; o_q := q |} ->
  todo x <> [] ->
  exists j, forall m,
    csolo (j + m) x = csolo m (end_call x (fst (pipe_prod c alive sts n q) ++ pipe_after c a (snd (pipe_prod c alive sts n q)))).
Proof.
  induction sts as [|s1 sts' IH]; intros x c a alive n q Hc Ht.
  - exists 1. intro m. change (1 + m) with (S m). rewrite (csolo_step x m Ht), (cstep_open x _ Hc). cbn [o_n o_c o_a o_q o_alive].
    destruct (is_zero n) eqn:Z.
    + rewrite (pipe_prod_is_zero c alive [] n q Z). reflexivity.
    + unfold read_one. cbn [o_prod o_c o_alive o_sts o_q pipe_prod is_zero]. rewrite Z.
      destruct (if alive then srv_tick true (hd_error []) else ([], true)) as [fs ended].
      destruct (cli_read c (q ++ fs)) as [[es o] r]. destruct o as [b|v|t| |e|]; cbn [fst snd pipe_after]; rewrite app_nil_r; reflexivity.
  - destruct (is_zero n) eqn:Z.
    + exists 1. intro m. change (1 + m) with (S m). rewrite (csolo_step x m Ht), (cstep_open x _ Hc). cbn [o_n o_c o_a o_q o_alive].
      rewrite Z, (pipe_prod_is_zero c alive (s1 :: sts') n q Z). reflexivity.
    + pose proof (cstep_open x _ Hc) as Hs. cbn [o_n o_c o_a o_q o_alive o_prod o_sts] in Hs. rewrite Z in Hs.
      unfold read_one in Hs. cbn [o_prod o_c o_alive o_sts o_q pipe_prod is_zero opred option_map Nat.pred tl] in Hs.
      cbn [pipe_prod]. rewrite Z.
      destruct (if alive then srv_tick true (hd_error (s1 :: sts')) else ([], true)) as [fs ended].
      destruct (cli_read c (q ++ fs)) as [[es o] r].
      destruct o as [b|v|t| |e|].
      * (* RdData: the stream goes on *)
        rewrite (pipe_prod_zero c (alive && negb ended) sts' r) in Hs.
        set (x' := go_on x (es ++ [EBatch b])
                     {| o_prod := true; o_c := c; o_a := a; o_alive := alive && negb ended; o_sts := sts'; o_n := opred n; o_q := r |}) in *.
        destruct (IH x' c a (alive && negb ended) (opred n) r eq_refl Ht) as [j Hj].
        exists (S j). intro m. change (S j + m) with (S (j + m)). rewrite (csolo_step x (j + m) Ht), Hs, Hj.
        unfold x'. rewrite end_call_go_on.
        destruct (pipe_prod c (alive && negb ended) sts' (opred n) r) as [es' z]. cbn [fst snd].
        rewrite <- !app_assoc. reflexivity.
      * exists 1. intro m. change (1 + m) with (S m). rewrite (csolo_step x m Ht), Hs. cbn [fst snd pipe_after]. rewrite app_nil_r. reflexivity.
      * exists 1. intro m. change (1 + m) with (S m). rewrite (csolo_step x m Ht), Hs. cbn [fst snd pipe_after]. rewrite app_nil_r. reflexivity.
      * exists 1. intro m. change (1 + m) with (S m). rewrite (csolo_step x m Ht), Hs. cbn [fst snd pipe_after]. rewrite app_nil_r. reflexivity.
      * exists 1. intro m. change (1 + m) with (S m). rewrite (csolo_step x m Ht), Hs. cbn [fst snd pipe_after]. rewrite app_nil_r. reflexivity.
      * exists 1. intro m. change (1 + m) with (S m). rewrite (csolo_step x m Ht), Hs. cbn [fst snd pipe_after]. rewrite app_nil_r. reflexivity.
Qed.

(* ------------------------------------------------------------------ exchange loop *)
Lemma exch_loop : forall n sts x c a alive q,
  cur_ x = Open {| o_prod := false; o_c := c; o_a := a; o_alive := alive; o_sts := sts; o_n := Some n; o_q := q |} ->
  todo x <> [] ->
  exists j, forall m,
    csolo (j + m) x = csolo m (end_call x (fst (pipe_exch c alive sts n q) ++ pipe_after c a (snd (pipe_exch c alive sts n q)))).
Proof.
  induction n as [|n' IH]; intros sts x c a alive q Hc Ht.
  - exists 1. intro m. change (1 + m) with (S m). rewrite (csolo_step x m Ht), (cstep_open x _ Hc). reflexivity.
  - pose proof (cstep_open x _ Hc) as Hs. cbn [o_n o_c o_a o_q o_alive o_prod o_sts is_zero] in Hs.
    unfold read_one in Hs. cbn [o_prod o_c o_alive o_sts o_q pipe_exch opred option_map Nat.pred] in Hs.
    cbn [pipe_exch].
    destruct (if alive then srv_tick false (hd_error sts) else ([], true)) as [fs ended].
    destruct (cli_read c (q ++ fs)) as [[es o] r].
    destruct o as [b|v|t| |e|].
    + set (x' := go_on x (es ++ [EBatch b])
                   {| o_prod := false; o_c := c; o_a := a; o_alive := alive && negb ended; o_sts := tl sts; o_n := Some n'; o_q := r |}) in *.
      destruct (IH (tl sts) x' c a (alive && negb ended) r eq_refl Ht) as [j Hj].
      exists (S j). intro m. change (S j + m) with (S (j + m)). rewrite (csolo_step x (j + m) Ht), Hs, Hj.
      unfold x'. rewrite end_call_go_on.
      destruct (pipe_exch c (alive && negb ended) (tl sts) n' r) as [es' z]. cbn [fst snd].
      rewrite <- !app_assoc. reflexivity.
    + exists 1. intro m. change (1 + m) with (S m). rewrite (csolo_step x m Ht), Hs. cbn [fst snd pipe_after]. rewrite app_nil_r. reflexivity.
    + exists 1. intro m. change (1 + m) with (S m). rewrite (csolo_step x m Ht), Hs. cbn [fst snd pipe_after]. rewrite app_nil_r. reflexivity.
    + exists 1. intro m. change (1 + m) with (S m). rewrite (csolo_step x m Ht), Hs. cbn [fst snd pipe_after]. rewrite app_nil_r. reflexivity.
    + exists 1. intro m. change (1 + m) with (S m). rewrite (csolo_step x m Ht), Hs. cbn [fst snd pipe_after]. rewrite app_nil_r. reflexivity.
    + exists 1. intro m. change (1 + m) with (S m). rewrite (csolo_step x m Ht), Hs. cbn [fst snd pipe_after]. rewrite app_nil_r. reflexivity.
Qed.

(* ------------------------------------------------------------------ one call *)
(* the state between two calls *)
Definition between (x : cstate) : Prop := cur_ x = Idle /\ acc x = [].

Definition after_call (x x' : cstate) (t : list event) (r : list call) : Prop :=
  between x' /\ tr x' = tr x ++ [t] /\ todo x' = (if poisoned t then [] else r).

Lemma end_call_after x es r cl : acc x = [] -> todo x = cl :: r -> after_call x (end_call x es) (cut es) r.
Proof.
  intros Ha Ht. unfold after_call, between, end_call. simpl. rewrite Ha, Ht. simpl. repeat split; reflexivity.
Qed.

Lemma stream_call x sp h prod c a n r cl
      (body : bool -> list frame -> list event * sess) :
  between x -> todo x = cl :: r ->
  (forall alive q y, cur_ y = Open {| o_prod := prod; o_c := c; o_a := a; o_alive := alive; o_sts := steps sp; o_n := n; o_q := q |} ->
                     todo y <> [] ->
                     exists j, forall m, csolo (j + m) y = csolo m (end_call y (fst (body alive q) ++ pipe_after c a (snd (body alive q))))) ->
  exists j x', (forall m, csolo (j + m) (open_call x sp h prod c a n) = csolo m x')
               /\ after_call x x' (cut (pipe_stream_for (negb prod) sp h c a body)) r.
Proof.
  intros [Hi Ha] Ht Hloop. unfold open_call, pipe_stream_for.
  destruct (srv_init_for (negb prod) sp h) as [q0 alive]. destruct h.
  - destruct (cli_read c q0) as [[es o] r0].
    assert (E : forall es', exists j x', (forall m, csolo (j + m)
               (end_call x es') = csolo m x')
               /\ after_call x x' (cut es') r).
    { intro es'. exists 0. eexists. split; [intro m; reflexivity|].
      unfold after_call, between, end_call. simpl. rewrite Ha, Ht. simpl. repeat split; reflexivity. }
    destruct o as [b0|v|t0| |e0|]; try apply E.
    set (y := go_on x (es ++ [EHeader v]) {| o_prod := prod; o_c := c; o_a := a; o_alive := alive; o_sts := steps sp; o_n := n; o_q := skip_eos r0 |}).
    assert (Hy : todo y <> []) by (unfold y, go_on; simpl; rewrite Ht; discriminate).
    destruct (Hloop alive (skip_eos r0) y eq_refl Hy) as [j Hj].
    exists j. eexists. split; [exact Hj|].
    destruct (body alive (skip_eos r0)) as [es' z]. cbn [fst snd].
    unfold after_call, between, end_call, y, go_on. simpl. rewrite Ha, Ht. simpl.
    replace ((es ++ [EHeader v]) ++ es' ++ pipe_after c a z) with (es ++ EHeader v :: es' ++ pipe_after c a z)
      by (rewrite <- app_assoc; reflexivity).
    repeat split; reflexivity.
  - set (y := go_on x [] {| o_prod := prod; o_c := c; o_a := a; o_alive := alive; o_sts := steps sp; o_n := n; o_q := q0 |}).
    assert (Hy : todo y <> []) by (unfold y, go_on; simpl; rewrite Ht; discriminate).
    destruct (Hloop alive q0 y eq_refl Hy) as [j Hj].
    exists j. eexists. split; [exact Hj|].
    destruct (body alive q0) as [es' z]. cbn [fst snd].
    unfold after_call, between, end_call, y, go_on. simpl. rewrite Ha, Ht. simpl. repeat split; reflexivity.
Qed.

Lemma one_call x p sc r :
  between x -> todo x = (p, sc) :: r ->
  exists j x', (forall m, csolo (j + m) x = csolo m x') /\ after_call x x' (run_pipe p sc) r.
Proof.
  intros Hb Ht. pose proof Hb as [Hi Ha].
  assert (Hne : todo x <> []) by (rewrite Ht; discriminate).
  assert (Hs : cstep x = match p, sc with
                         | PStream sp, SIter h k a c => open_call x sp h true c a (match a with AStop => None | _ => Some k end)
                         | PStream sp, SExch h n a c => open_call x sp h false c a (Some n)
                         | _, _ => end_call x (run_pipe p sc)
                         end).
  { unfold cstep. rewrite Hi, Ht. reflexivity. }
  assert (Plain : cstep x = end_call x (run_pipe p sc) ->
                  exists j x', (forall m, csolo (j + m) x = csolo m x') /\ after_call x x' (run_pipe p sc) r).
  { intro E. exists 1, (end_call x (run_pipe p sc)). split.
    - intro m. change (1 + m) with (S m). rewrite (csolo_step x m Hne), E. reflexivity.
    - replace (run_pipe p sc) with (cut (run_pipe p sc)) at 2 by (unfold run_pipe; apply cut_idem).
      eapply end_call_after; eauto. }
  destruct p as [u|sp]; destruct sc as [c|h k a c|h n a c]; try (apply Plain; exact Hs).
  - (* producer *)
    destruct (stream_call x sp h true c a (match a with AStop => None | _ => Some k end) r (PStream sp, SIter h k a c)
                (fun alive q => pipe_prod c alive (steps sp) (match a with AStop => None | _ => Some k end) q) Hb Ht) as (j & x' & Hj & Ha').
    { intros alive q y Hy Hty. apply prod_loop; assumption. }
    exists (S j), x'. split; [|exact Ha'].
    intro m. change (S j + m) with (S (j + m)). rewrite (csolo_step x (j + m) Hne), Hs. apply Hj.
  - (* exchange *)
    destruct (stream_call x sp h false c a (Some n) r (PStream sp, SExch h n a c)
                (fun alive q => pipe_exch c alive (steps sp) n q) Hb Ht) as (j & x' & Hj & Ha').
    { intros alive q y Hy Hty. apply exch_loop; assumption. }
    exists (S j), x'. split; [|exact Ha'].
    intro m. change (S j + m) with (S (j + m)). rewrite (csolo_step x (j + m) Hne), Hs. apply Hj.
Qed.

(* ------------------------------------------------------------------ a whole connection script *)
Lemma script_runs : forall cs x, between x -> todo x = cs ->
  exists k, cfin (csolo k x) = true /\ tr (csolo k x) = tr x ++ seq_calls cs.
Proof.
  induction cs as [|[p sc] r IH]; intros x Hb Ht.
  - exists 0. simpl. destruct Hb as [Hi _]. unfold cfin. rewrite Hi, Ht, app_nil_r. split; reflexivity.
  - destruct (one_call x p sc r Hb Ht) as (j & x' & Hj & (Hb' & Htr & Htd)).
    simpl. destruct (poisoned (run_pipe p sc)) eqn:P.
    + exists (j + 0). rewrite Hj. simpl. destruct Hb' as [Hi' _]. unfold cfin. rewrite Hi', Htd, Htr. split; reflexivity.
    + destruct (IH x' Hb' Htd) as (k & Hf & Hk).
      exists (j + k). rewrite Hj. split; [exact Hf|]. rewrite Hk, Htr, <- app_assoc. reflexivity.
Qed.

Theorem solo_is_seq_calls cs :
  exists k, cfin (csolo k (cinit cs)) = true /\ ctrace (csolo k (cinit cs)) = seq_calls cs.
Proof.
  destruct (script_runs cs (cinit cs)) as (k & Hf & Hk); [split; reflexivity|reflexivity|].
  exists k. split; [exact Hf|exact Hk].
Qed.

(* a finished solo run is THE solo run: any two finished runs of the same script coincide *)
Lemma csolo_fin_unique x a b : cfin (csolo a x) = true -> cfin (csolo b x) = true -> csolo a x = csolo b x.
Proof.
  intros Ha Hb. destruct (Nat.le_ge_cases a b) as [L|L].
  - replace b with ((b - a) + a) by lia. symmetry. apply (solo_fin_stable cstate cfin cstep); exact Ha.
  - replace a with ((a - b) + b) by lia. apply (solo_fin_stable cstate cfin cstep); exact Hb.
Qed.
