(* Codec tie (kept apart from tie/T_StickyTok.v so that a source whose server-id codec does not round-trip breaks
   exactly these obligations): the regenerated codec is the one under which every worker recognises its own tokens,
   and the access theorem restated over the source's codec with deployment-level premises only. *)
From Coq Require Import List NArith ZArith Bool.
From VGI Require Import Bytes Layout M_StickyTok L_StickyTok L_StickyTokServe L_StickyTokHist G_StickyTok P_C25.
Import ListNotations.
Open Scope N_scope.

(* the codec of the server-id comparison: the one under which every worker recognises its own tokens.
   (.decode("ascii", errors="replace") makes this lemma -- and with it this file -- fail: see refuted/R_C25.v) *)
Lemma codec_tie : gen_sid_codec = Utf8Replace.
Proof. reflexivity. Qed.

(* the access theorem over the source's codec, with the deployment-level premises only: Python's codec round trip and
   distinct server ids among workers sharing a key *)
Theorem C25_source_access_iff :
  forall aead_seal aead_open utf8_replace (ws : list worker) (minted : mint -> Prop) k w reg now i hdr sid,
  nth_error ws k = Some w -> (forall e, minted e -> mint_wf e) -> ident_ok i ->
  codec_roundtrip utf8_replace -> distinct_ids ws ->
  token_unforged aead_seal aead_open ws minted (w_key w) (compute_aad i) hdr ->
  aead_correct aead_seal aead_open ->
  ((exists reg', resolve aead_open utf8_replace gen_sid_codec w reg now i (Some hdr) = (RResume sid, reg'))
   <-> genuine aead_seal ws minted k i hdr sid reg now).
Proof.
  intros aead_seal aead_open utf8_replace ws minted k w reg now i hdr sid Hw Hwf Hi Hr Hd Hu Hac.
  rewrite codec_tie.
  apply (C25_access_iff_same_worker_identity_live aead_seal aead_open utf8_replace Utf8Replace ws minted k w reg now i hdr sid).
  - split; [exact Hw|]. split; [exact Hwf|]. split; [exact Hi|]. split; [apply no_alias_utf8; assumption|exact Hu].
  - exact Hac.
  - apply codec_ok_utf8. exact Hr.
Qed.
