(* C15: the table of the property as a specification, and the proofs that the model (model/M_HttpStatus.v, configuration
   cfg_model) meets it on the WHOLE request space.  The space is finite (3*4*13*3*5*3*4*2*3 = 168480 descriptors):
   each statement is decided by vm_compute over [all_reqs] and lifted with forallb_forall and [all_reqs_complete]. *)
From Coq Require Import List NArith Bool.
From VGI Require Import M_HttpStatus.
Import ListNotations.
Open Scope N_scope.

(* ------------------------------------------------------------------------------------------------------------------ *)
(* the property's own vocabulary *)

Definition auth_fails (r : req) : bool := match r_auth r with ABad | AMissing => true | _ => false end.
(* "oversize" is relative to the cap the server advertises; without a cap no body is oversize *)
Definition oversize (r : req) : bool := match r_cap r, r_body r with CapOn, BOversize => true | _, _ => false end.
Definition wrong_media (r : req) : bool :=
  match r_ctype r with CtOk => false | _ => true end || match r_cenc r with CeUnknown => true | _ => false end.
Definition unknown_method (r : req) : bool := match r_meth r with MUnknown => true | _ => false end.

(* malformed IPC / missing or mismatched metadata / parameter or version rejection, per route.
   Reading adopted: an /exchange request carries no call metadata (method, request version, trace context), so only
   the IPC framing and the tokens can be defective there; an input batch of the wrong schema makes the dispatched turn
   fail (call_fails) rather than being a parameter rejection. *)
Definition body_defect (r : req) : bool :=
  match r_route r, r_body r with
  | _, (BCorrupt | BCorruptIO | BTruncated | BEmpty | BNoBatch) => true
  | (RUnary | RInit), (BNoMethod | BMethodMismatch | BNoReqVersion | BBadReqVersion | BBadTraceparent | BBadParams) => true
  | _, _ => false
  end.
Definition token_defect (r : req) : bool :=
  match r_route r, r_token r with RExchange, (TTampered | TMissing) => true | _, _ => false end.
Definition bad_request (r : req) : bool :=
  match r_meth r with MMismatch => true | _ => false end
  || match r_cenc r with CeCorrupt => true | _ => false end      (* the body does not decode: malformed *)
  || body_defect r || token_defect r.

(* the statuses the defects of a request justify, by the statement's list *)
Definition defects (r : req) : list N :=
  (if auth_fails r then [401] else []) ++ (if oversize r then [413] else []) ++ (if wrong_media r then [415] else [])
  ++ (if unknown_method r then [404] else []) ++ (if bad_request r then [400] else []).

Definition decodable (b : rbody) : bool := match b with RbNotArrow => false | _ => true end.

(* ------------------------------------------------------------------------------------------------------------------ *)
(* the table as a function: first applicable rule.  The ORDER is the documented evaluation order of the server
   (size cap, content coding, authentication, content type, method lookup, method kind, request, tokens). *)
Definition refusal (st : N) : resp := mkResp st false RcArrow RbArrowErr.     (* Arrow IPC error stream *)
Definition plain (st : N) : resp := mkResp st false RcJson RbNotArrow.        (* framework / unauthorized-spec body *)

Definition spec (r : req) : resp :=
  if oversize r then refusal 413
  else match r_cenc r with
  | CeUnknown => plain 415
  | CeCorrupt => refusal 400
  | _ =>
    if auth_fails r then plain 401
    else match r_ctype r with
    | CtWrong | CtMissing => refusal 415
    | CtOk =>
      match r_meth r with
      | MUnknown => refusal 404
      | MMismatch => refusal 400
      | _ =>
        if body_defect r then refusal 400
        else if token_defect r then refusal 400
        else if call_fails r then mkResp 200 true RcArrow RbArrowErr
        else mkResp 200 false RcArrow RbArrowOk
      end
    end
  end.

(* ------------------------------------------------------------------------------------------------------------------ *)
(* completeness of the enumeration *)

Lemma all_reqs_complete : forall r, In r all_reqs.
Proof.
  intros [a b c d e f g h i]. unfold all_reqs.
  apply in_flat_map; exists a; split; [destruct a; simpl; tauto|].
  apply in_flat_map; exists b; split; [destruct b; simpl; tauto|].
  apply in_flat_map; exists c; split; [destruct c; simpl; tauto|].
  apply in_flat_map; exists d; split; [destruct d; simpl; tauto|].
  apply in_flat_map; exists e; split; [destruct e; simpl; tauto|].
  apply in_flat_map; exists f; split; [destruct f; simpl; tauto|].
  apply in_flat_map; exists g; split; [destruct g; simpl; tauto|].
  apply in_flat_map; exists h; split; [destruct h; simpl; tauto|].
  apply in_map_iff; exists i; split; [reflexivity | destruct i; simpl; tauto].
Qed.

Lemma all_reqs_length : N.of_nat (length all_reqs) = 168480.
Proof. vm_compute. reflexivity. Qed.

Lemma decide_all (P : req -> bool) : forallb P all_reqs = true -> forall r, P r = true.
Proof. intros H r. exact (proj1 (forallb_forall P all_reqs) H r (all_reqs_complete r)). Qed.

(* ------------------------------------------------------------------------------------------------------------------ *)
(* decidable equality of responses *)

Definition rctype_eqb (a b : rctype) : bool :=
  match a, b with RcArrow, RcArrow | RcJson, RcJson | RcOther, RcOther => true | _, _ => false end.
Definition rbody_eqb (a b : rbody) : bool :=
  match a, b with RbArrowOk, RbArrowOk | RbArrowErr, RbArrowErr | RbNotArrow, RbNotArrow => true | _, _ => false end.
Definition resp_eqb (x y : resp) : bool :=
  (status x =? status y) && Bool.eqb (marker x) (marker y) && rctype_eqb (r_ct x) (r_ct y) && rbody_eqb (r_bd x) (r_bd y).

Lemma resp_eqb_eq : forall x y, resp_eqb x y = true -> x = y.
Proof.
  intros [s1 m1 c1 b1] [s2 m2 c2 b2]. unfold resp_eqb; simpl. intro H.
  apply andb_true_iff in H as [H Hb]. apply andb_true_iff in H as [H Hc]. apply andb_true_iff in H as [Hs Hm].
  apply N.eqb_eq in Hs. apply Bool.eqb_prop in Hm. subst.
  destruct c1, c2; try discriminate; destruct b1, b2; try discriminate; reflexivity.
Qed.

(* ------------------------------------------------------------------------------------------------------------------ *)
(* 1. total mapping: the model IS the table *)

Lemma run_eq_spec_b : forallb (fun r => resp_eqb (run r) (spec r)) all_reqs = true.
Proof. vm_compute. reflexivity. Qed.

Theorem run_eq_spec : forall r, run r = spec r.
Proof. intro r. apply resp_eqb_eq. exact (decide_all _ run_eq_spec_b r). Qed.

(* 2. the statement, free of any precedence: 200 exactly for requests without a defect, the marker exactly for a
      dispatched call that failed, and every other status is one that a defect of the request justifies *)
Definition is_nil {A} (l : list A) : bool := match l with [] => true | _ => false end.
Definition mem (x : N) (l : list N) : bool := existsb (N.eqb x) l.

Lemma mem_In : forall x l, mem x l = true -> In x l.
Proof. intros x l H. apply existsb_exists in H as [y [Hy E]]. apply N.eqb_eq in E. subst. exact Hy. Qed.

Lemma ok_iff_b : forallb (fun r => Bool.eqb (status (run r) =? 200) (is_nil (defects r))) all_reqs = true.
Proof. vm_compute. reflexivity. Qed.

Theorem ok_iff_no_defect : forall r, status (run r) = 200 <-> defects r = [].
Proof.
  intro r. pose proof (decide_all _ ok_iff_b r) as H. apply Bool.eqb_prop in H.
  split; intro E.
  - apply N.eqb_eq in E. rewrite E in H. destruct (defects r); [reflexivity | discriminate].
  - rewrite E in H. simpl in H. apply N.eqb_eq. exact H.
Qed.

Lemma marker_iff_b : forallb (fun r => Bool.eqb (marker (run r)) (is_nil (defects r) && call_fails r)) all_reqs = true.
Proof. vm_compute. reflexivity. Qed.

Theorem marker_iff_failed : forall r, marker (run r) = true <-> (defects r = [] /\ call_fails r = true).
Proof.
  intro r. pose proof (decide_all _ marker_iff_b r) as H. apply Bool.eqb_prop in H. rewrite H.
  rewrite andb_true_iff. split; intros [A B]; split; try exact B.
  - destruct (defects r); [reflexivity | discriminate].
  - rewrite A. reflexivity.
Qed.

Lemma justified_b : forallb (fun r => (status (run r) =? 200) || mem (status (run r)) (defects r)) all_reqs = true.
Proof. vm_compute. reflexivity. Qed.

Theorem refusal_justified : forall r, status (run r) <> 200 -> In (status (run r)) (defects r).
Proof.
  intros r Hne. pose proof (decide_all _ justified_b r) as H. apply orb_true_iff in H as [H | H].
  - apply N.eqb_eq in H. contradiction.
  - apply mem_In. exact H.
Qed.

(* 3. no 5xx: the status is always one of the six of the statement *)
Lemma statuses_b : forallb (fun r => mem (status (run r)) [200; 400; 401; 404; 413; 415]) all_reqs = true.
Proof. vm_compute. reflexivity. Qed.

Theorem no_5xx : forall r, In (status (run r)) [200; 400; 401; 404; 413; 415] /\ status (run r) < 500.
Proof.
  intro r. pose proof (mem_In _ _ (decide_all _ statuses_b r)) as H. split; [exact H|].
  simpl in H. destruct H as [H|[H|[H|[H|[H|[H|[]]]]]]]; rewrite <- H; reflexivity.
Qed.

(* 4. every response other than 401 and 415 is a decodable Arrow IPC body, labelled as such *)
Lemma decodable_b :
  forallb (fun r => (status (run r) =? 401) || (status (run r) =? 415)
                    || (decodable (r_bd (run r)) && rctype_eqb (r_ct (run r)) RcArrow)) all_reqs = true.
Proof. vm_compute. reflexivity. Qed.

Theorem decodable_unless_401_415 : forall r,
  status (run r) <> 401 -> status (run r) <> 415 -> decodable (r_bd (run r)) = true /\ r_ct (run r) = RcArrow.
Proof.
  intros r H1 H5. pose proof (decide_all _ decodable_b r) as H.
  apply orb_true_iff in H as [H | H]; [apply orb_true_iff in H as [H | H]; apply N.eqb_eq in H; contradiction|].
  apply andb_true_iff in H as [Hd Hc]. split; [exact Hd|]. destruct (r_ct (run r)); try discriminate; reflexivity.
Qed.

(* 5. a refusal never carries the marker, and a 200 carries an error batch exactly with the marker *)
Lemma shape_b :
  forallb (fun r => Bool.eqb (marker (run r)) (rbody_eqb (r_bd (run r)) RbArrowErr && (status (run r) =? 200))
                    && ((status (run r) =? 200) || negb (rbody_eqb (r_bd (run r)) RbArrowOk))) all_reqs = true.
Proof. vm_compute. reflexivity. Qed.

Theorem marker_only_on_failed_200 : forall r,
  (marker (run r) = true <-> (r_bd (run r) = RbArrowErr /\ status (run r) = 200)) /\
  (status (run r) <> 200 -> r_bd (run r) <> RbArrowOk).
Proof.
  intro r. pose proof (decide_all _ shape_b r) as H. apply andb_true_iff in H as [Hm Hs].
  apply Bool.eqb_prop in Hm. split.
  - rewrite Hm, andb_true_iff, N.eqb_eq. split; intros [A B]; split; try exact B.
    + destruct (r_bd (run r)); try discriminate; reflexivity.
    + rewrite A. reflexivity.
  - intros Hne E. apply orb_true_iff in Hs as [Hs | Hs]; [apply N.eqb_eq in Hs; contradiction|].
    rewrite E in Hs. discriminate.
Qed.
