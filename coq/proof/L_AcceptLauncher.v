(* C33, launcher half: invariants of [lstep] for EVERY schedule, under the flock mutual-exclusion hypothesis. *)
From Coq Require Import List NArith Bool Arith Lia.
From VGI Require Import M_Accept L_Accept.
Import ListNotations.

Definition crit (p : ppc) : bool :=
  match p with L1 | L2 | L3 | L4 | L5 | G2 | G3 => true | _ => false end.
Definition ready_phase (p : wph) : bool := match p with W4 | W5 | W6 | W7 => true | _ => false end.
Definition bound_open (p : wph) : bool := match p with W3 | W4 | W5 => true | _ => false end.

Definition getp (s : lst) (i : nat) := nth_error (procs s) i.
Definition getw (s : lst) (w : nat) := nth_error (workers s) w.

Record LInv (s : lst) : Prop := {
  (* whoever is inside the critical section is the lock holder (=> at most one) *)
  l_mutex : forall i p, getp s i = Some p -> crit (p_pc p) = true -> lock s = Some i;
  (* a worker that has not printed its ready line yet belongs to a launcher waiting for that line *)
  l_start : forall w k, getw s w = Some k -> starting (w_ph k) = true ->
            exists i p, getp s i = Some p /\ p_pc p = L4 /\ p_w p = Some w;
  (* a worker whose socket is bound and open is the one the path names *)
  l_path : forall w k, getw s w = Some k -> bound_open (w_ph k) = true -> fs s = Some w;
  (* while a launcher waits for its worker, no other worker is alive *)
  l_wait : forall i p w, getp s i = Some p -> p_pc p = L4 -> p_w p = Some w ->
           forall v k, getw s v = Some k -> alive (w_ph k) = true -> v = w;
  (* between a failed probe and Popen no worker is alive *)
  l_none : forall i p, getp s i = Some p -> (p_pc p = L2 \/ p_pc p = L3) ->
           forall v k, getw s v = Some k -> alive (w_ph k) = false;
  l_ready : forall w k, getw s w = Some k -> ready_phase (w_ph k) = true -> w_ready_ok k = true;
  l_ret : ret_ok s = true;
  l_spawn : spawn_ok s = true
}.

Ltac upd H :=
  rewrite nth_error_upd_nth in H;
  match type of H with
  | match nth_error ?l ?j with _ => _ end = Some _ =>
      let E := fresh "E" in destruct (nth_error l j) eqn:E; [|discriminate H]
  end;
  match type of H with
  | Some (if Nat.eqb ?i ?j then _ else _) = Some _ =>
      let N := fresh "N" in destruct (Nat.eqb_spec i j) as [N|N]; [try subst j|]; inversion H; subst; clear H
  end.

Lemma existsb_alive_false : forall ws,
  (forall v k, nth_error ws v = Some k -> alive (w_ph k) = false) ->
  existsb (fun k => alive (w_ph k)) ws = false.
Proof.
  induction ws as [|x r IH]; intro H; simpl; [reflexivity|].
  rewrite (H 0%nat x eq_refl). simpl. apply IH. intros v k Hv. exact (H (S v) k Hv).
Qed.

Lemma linv_init kinds : LInv (linit kinds).
Proof.
  unfold linit. constructor; unfold getp, getw; cbn.
  - intros i p H Hc. apply nth_error_In in H. apply in_map_iff in H as (g & Hg & _).
    subst p. destruct g; discriminate.
  - intros w k H; destruct w; discriminate.
  - intros w k H; destruct w; discriminate.
  - intros i p w H Hp. apply nth_error_In in H. apply in_map_iff in H as (g & Hg & _).
    subst p. destruct g; discriminate.
  - intros i p H [Hp|Hp]; apply nth_error_In in H; apply in_map_iff in H as (g & Hg & _);
      subst p; destruct g; discriminate.
  - intros w k H; destruct w; discriminate.
  - reflexivity.
  - reflexivity.
Qed.

Section Flock.
  Variable flock_grant : option nat -> nat -> bool.
  (* the OS never grants the per-hash file lock while another process holds it *)
  Hypothesis flock_excl : forall h i, flock_grant (Some h) i = false.

  (* two processes inside the critical section are the same process *)
  Lemma crit_unique s : LInv s -> forall i p j q, getp s i = Some p -> getp s j = Some q ->
    crit (p_pc p) = true -> crit (p_pc q) = true -> i = j.
  Proof.
    intros I i p j q Hi Hj Ci Cj.
    pose proof (l_mutex _ I i p Hi Ci) as A. pose proof (l_mutex _ I j q Hj Cj) as B.
    rewrite A in B. inversion B; reflexivity.
  Qed.

  (* while some process other than a waiting launcher is in the critical section, no worker is starting *)
  Lemma no_starting s : LInv s -> forall i p, getp s i = Some p -> crit (p_pc p) = true -> p_pc p <> L4 ->
    forall w k, getw s w = Some k -> starting (w_ph k) = false.
  Proof.
    intros I i p Hi Ci N4 w k Hw. destruct (starting (w_ph k)) eqn:E; [|reflexivity].
    destruct (l_start _ I w k Hw E) as (j & q & Hj & Hq & _).
    assert (i = j) by (eapply crit_unique; eauto; rewrite Hq; reflexivity).
    subst j. rewrite Hi in Hj; inversion Hj; subst q. contradiction.
  Qed.

  (* ... and if in addition the probe fails, no worker is alive *)
  Lemma no_alive s : LInv s -> forall i p, getp s i = Some p -> crit (p_pc p) = true -> p_pc p <> L4 ->
    probe s = false -> forall w k, getw s w = Some k -> alive (w_ph k) = false.
  Proof.
    intros I i p Hi Ci N4 Hpr w k Hw. unfold alive.
    rewrite (no_starting s I i p Hi Ci N4 w k Hw). cbn.
    destruct (listening (w_ph k)) eqn:E; [|reflexivity].
    assert (B : bound_open (w_ph k) = true) by (destruct (w_ph k); try discriminate; reflexivity).
    pose proof (l_path _ I w k Hw B) as F. unfold probe in Hpr. rewrite F in Hpr.
    unfold getw in Hw. rewrite Hw in Hpr. congruence.
  Qed.

  Lemma inv_proc i s : LInv s -> LInv (proc_step flock_grant i s).
  Proof.
    intros I. unfold proc_step. destruct (nth_error (procs s) i) as [p|] eqn:Ei; [|exact I].
    assert (Hi : getp s i = Some p) by exact Ei.
    destruct (p_pc p) eqn:Epc.
    - (* L0 *)
      destruct (flock_grant (lock s) i) eqn:Eg; [|exact I].
      assert (Hl : lock s = None) by (destruct (lock s) as [h|]; [rewrite flock_excl in Eg; discriminate | reflexivity]).
      destruct I as [I1 I2 I3 I4 I5 I6 I7 I8]. constructor; unfold getp, getw in *; cbn.
      + intros j q H Hc. upd H; [reflexivity|]. rewrite (I1 _ _ E Hc) in Hl. discriminate.
      + intros w k Hw Hs. destruct (I2 w k Hw Hs) as (j & q & Hj & Hq & Hqw).
        exists j, q. split; [|split; assumption]. rewrite nth_error_upd_nth, Hj.
        destruct (Nat.eqb_spec i j); [subst j; rewrite Ei in Hj; inversion Hj; subst; congruence | reflexivity].
      + exact I3.
      + intros j q w H Hq Hw. upd H; [discriminate|]. eapply I4; eauto.
      + intros j q H Hq. upd H; [destruct Hq; discriminate|]. eapply I5; eauto.
      + exact I6.
      + exact I7.
      + exact I8.
    - (* L1 *)
      destruct (probe s) eqn:Epr.
      + destruct I as [I1 I2 I3 I4 I5 I6 I7 I8]. constructor; unfold getp, getw in *; cbn.
        * intros j q H Hc. upd H; [|eauto]. apply (I1 _ _ Ei). rewrite Epc; reflexivity.
        * intros w k Hw Hs. destruct (I2 w k Hw Hs) as (j & q & Hj & Hq & Hqw).
          exists j, q. split; [|split; assumption]. rewrite nth_error_upd_nth, Hj.
          destruct (Nat.eqb_spec i j); [subst j; rewrite Ei in Hj; inversion Hj; subst; congruence | reflexivity].
        * exact I3.
        * intros j q w H Hq Hw. upd H; [discriminate|]. eapply I4; eauto.
        * intros j q H Hq. upd H; [destruct Hq; discriminate|]. eapply I5; eauto.
        * exact I6.
        * rewrite I7. reflexivity.
        * exact I8.
      + assert (NA : forall w k, getw s w = Some k -> alive (w_ph k) = false).
        { eapply no_alive; eauto; rewrite Epc; [reflexivity | discriminate]. }
        destruct I as [I1 I2 I3 I4 I5 I6 I7 I8]. constructor; unfold getp, getw in *; cbn.
        * intros j q H Hc. upd H; [|eauto]. apply (I1 _ _ Ei). rewrite Epc; reflexivity.
        * intros w k Hw Hs. pose proof (NA w k Hw) as A. unfold alive in A. rewrite Hs in A. discriminate.
        * exact I3.
        * intros j q w H Hq Hw. upd H; [discriminate|]. eapply I4; eauto.
        * intros j q H Hq. upd H; [exact NA|]. eapply I5; eauto.
        * exact I6.
        * exact I7.
        * exact I8.
    - (* L2 *)
      assert (NA : forall w k, getw s w = Some k -> alive (w_ph k) = false).
      { eapply (l_none _ I i p Hi). left; exact Epc. }
      destruct I as [I1 I2 I3 I4 I5 I6 I7 I8]. constructor; unfold getp, getw in *; cbn.
      + intros j q H Hc. upd H; [|eauto]. apply (I1 _ _ Ei). rewrite Epc; reflexivity.
      + intros w k Hw Hs. pose proof (NA w k Hw) as A. unfold alive in A. rewrite Hs in A. discriminate.
      + intros w k Hw Hb. pose proof (NA w k Hw) as A. destruct (w_ph k); discriminate.
      + intros j q w H Hq Hw. upd H; [discriminate|]. eapply I4; eauto.
      + intros j q H Hq. upd H; [exact NA|]. eapply I5; eauto.
      + exact I6.
      + exact I7.
      + exact I8.
    - (* L3 *)
      assert (NA : forall w k, getw s w = Some k -> alive (w_ph k) = false).
      { eapply (l_none _ I i p Hi). right; exact Epc. }
      assert (CU : forall j q, getp s j = Some q -> crit (p_pc q) = true -> i = j).
      { intros j q Hj Hc. eapply crit_unique; eauto. rewrite Epc; reflexivity. }
      destruct I as [I1 I2 I3 I4 I5 I6 I7 I8]. constructor; unfold getp, getw in *; cbn.
      + intros j q H Hc. upd H; [|eauto]. apply (I1 _ _ Ei). rewrite Epc; reflexivity.
      + intros w k Hw Hs. rewrite nth_error_snoc in Hw.
        destruct (Nat.ltb w (length (workers s))).
        * pose proof (NA w k Hw) as A. unfold alive in A. rewrite Hs in A. discriminate.
        * destruct (Nat.eqb_spec w (length (workers s))); [|discriminate]. subst w.
          exists i. eexists. split; [rewrite nth_error_upd_nth, Ei, Nat.eqb_refl; reflexivity|]. cbn. split; reflexivity.
      + intros w k Hw Hb. rewrite nth_error_snoc in Hw.
        destruct (Nat.ltb w (length (workers s))); [eapply I3; eauto|].
        destruct (Nat.eqb w (length (workers s))); [|discriminate]. inversion Hw; subst. discriminate.
      + intros j q w H Hq Hw v k Hv Ha. upd H.
        * cbn in Hw. inversion Hw; subst w. rewrite nth_error_snoc in Hv.
          destruct (Nat.ltb v (length (workers s))); [rewrite (NA v k Hv) in Ha; discriminate|].
          destruct (Nat.eqb_spec v (length (workers s))); [assumption | discriminate].
        * exfalso. apply N. eapply CU; eauto. rewrite Hq; reflexivity.
      + intros j q H Hq. upd H; [destruct Hq; discriminate|].
        exfalso. apply N. eapply CU; eauto. destruct Hq as [Hq|Hq]; rewrite Hq; reflexivity.
      + intros w k Hw Hr. rewrite nth_error_snoc in Hw.
        destruct (Nat.ltb w (length (workers s))); [eapply I6; eauto|].
        destruct (Nat.eqb w (length (workers s))); [|discriminate]. inversion Hw; subst. discriminate.
      + exact I7.
      + rewrite I8. rewrite existsb_alive_false; [reflexivity | exact NA].
    - (* L4 *)
      destruct (p_w p) as [w|] eqn:Ew; [|exact I].
      destruct (nth_error (workers s) w) as [k|] eqn:Ek; [|exact I].
      assert (G : forall r rv, starting (w_ph k) = false -> rv = true ->
                  LInv (set_ret (ret_ok s && rv) (set_proc i (Build_proc L5 (Some w) r) s))).
      { intros r rv Hns Hr.
        destruct I as [I1 I2 I3 I4 I5 I6 I7 I8]. constructor; unfold getp, getw in *; cbn.
        - intros j q H Hc. upd H; [|eauto]. apply (I1 _ _ Ei). rewrite Epc; reflexivity.
        - intros v kv Hv Hs. destruct (I2 v kv Hv Hs) as (j & q & Hj & Hq & Hqw).
          exists j, q. split; [|split; assumption]. rewrite nth_error_upd_nth, Hj.
          destruct (Nat.eqb_spec i j); [|reflexivity]. subst j. rewrite Ei in Hj; inversion Hj; subst q.
          rewrite Ew in Hqw; inversion Hqw; subst v. rewrite Ek in Hv; inversion Hv; subst kv. congruence.
        - exact I3.
        - intros j q v H Hq Hv. upd H; [discriminate|]. eapply I4; eauto.
        - intros j q H Hq. upd H; [destruct Hq; discriminate|]. eapply I5; eauto.
        - exact I6.
        - rewrite I7, Hr. reflexivity.
        - exact I8. }
      pose proof (l_ready _ I w k Ek) as RD.
      destruct (w_ph k) eqn:Eph; try exact I.
      + apply (G 2%N); [reflexivity | apply RD; reflexivity].
      + apply (G 2%N); [reflexivity | apply RD; reflexivity].
      + apply (G 2%N); [reflexivity | apply RD; reflexivity].
      + apply (G 2%N); [reflexivity | apply RD; reflexivity].
      + specialize (G 3%N true eq_refl eq_refl). rewrite andb_true_r in G. exact G.
    - (* L5 *)
      assert (CU : forall j q, getp s j = Some q -> crit (p_pc q) = true -> i = j).
      { intros j q Hj Hc. eapply crit_unique; eauto. rewrite Epc; reflexivity. }
      destruct I as [I1 I2 I3 I4 I5 I6 I7 I8]. constructor; unfold getp, getw in *; cbn.
      + intros j q H Hc. upd H; [discriminate|]. exfalso. apply N. eapply CU; eauto.
      + intros w k Hw Hs. destruct (I2 w k Hw Hs) as (j & q & Hj & Hq & Hqw).
        exists j, q. split; [|split; assumption]. rewrite nth_error_upd_nth, Hj.
        destruct (Nat.eqb_spec i j); [subst j; rewrite Ei in Hj; inversion Hj; subst; congruence | reflexivity].
      + exact I3.
      + intros j q w H Hq Hw. upd H; [discriminate|]. eapply I4; eauto.
      + intros j q H Hq. upd H; [destruct Hq; discriminate|]. eapply I5; eauto.
      + exact I6.
      + exact I7.
      + exact I8.
    - (* L6 *) exact I.
    - (* G0 *)
      destruct I as [I1 I2 I3 I4 I5 I6 I7 I8]. constructor; unfold getp, getw in *; cbn.
      + intros j q H Hc. upd H; [destruct (meta s); discriminate|]. eauto.
      + intros w k Hw Hs. destruct (I2 w k Hw Hs) as (j & q & Hj & Hq & Hqw).
        exists j, q. split; [|split; assumption]. rewrite nth_error_upd_nth, Hj.
        destruct (Nat.eqb_spec i j); [subst j; rewrite Ei in Hj; inversion Hj; subst; congruence | reflexivity].
      + exact I3.
      + intros j q w H Hq Hw. upd H; [destruct (meta s); discriminate|]. eapply I4; eauto.
      + intros j q H Hq. upd H; [destruct (meta s); destruct Hq; discriminate|]. eapply I5; eauto.
      + exact I6.
      + exact I7.
      + exact I8.
    - (* G1 *)
      destruct (flock_grant (lock s) i) eqn:Eg.
      + assert (Hl : lock s = None) by (destruct (lock s) as [h|]; [rewrite flock_excl in Eg; discriminate | reflexivity]).
        destruct I as [I1 I2 I3 I4 I5 I6 I7 I8]. constructor; unfold getp, getw in *; cbn.
        * intros j q H Hc. upd H; [reflexivity|]. rewrite (I1 _ _ E Hc) in Hl. discriminate.
        * intros w k Hw Hs. destruct (I2 w k Hw Hs) as (j & q & Hj & Hq & Hqw).
          exists j, q. split; [|split; assumption]. rewrite nth_error_upd_nth, Hj.
          destruct (Nat.eqb_spec i j); [subst j; rewrite Ei in Hj; inversion Hj; subst; congruence | reflexivity].
        * exact I3.
        * intros j q w H Hq Hw. upd H; [discriminate|]. eapply I4; eauto.
        * intros j q H Hq. upd H; [destruct Hq; discriminate|]. eapply I5; eauto.
        * exact I6.
        * exact I7.
        * exact I8.
      + destruct I as [I1 I2 I3 I4 I5 I6 I7 I8]. constructor; unfold getp, getw in *; cbn.
        * intros j q H Hc. upd H; [discriminate|]. eauto.
        * intros w k Hw Hs. destruct (I2 w k Hw Hs) as (j & q & Hj & Hq & Hqw).
          exists j, q. split; [|split; assumption]. rewrite nth_error_upd_nth, Hj.
          destruct (Nat.eqb_spec i j); [subst j; rewrite Ei in Hj; inversion Hj; subst; congruence | reflexivity].
        * exact I3.
        * intros j q w H Hq Hw. upd H; [discriminate|]. eapply I4; eauto.
        * intros j q H Hq. upd H; [destruct Hq; discriminate|]. eapply I5; eauto.
        * exact I6.
        * exact I7.
        * exact I8.
    - (* G2 *)
      assert (HG3 : forall s0, procs s0 = procs s -> workers s0 = workers s -> lock s0 = lock s ->
                    ret_ok s0 = ret_ok s -> spawn_ok s0 = spawn_ok s ->
                    (forall w k, getw s w = Some k -> bound_open (w_ph k) = true -> fs s0 = Some w) ->
                    LInv (set_proc i (Build_proc G3 (p_w p) (p_res p)) s0)).
      { intros s0 Hp0 Hw0 Hl0 Hr0 Hs0 HJ.
        destruct I as [I1 I2 I3 I4 I5 I6 I7 I8]. constructor; unfold getp, getw in *; cbn; rewrite ?Hp0, ?Hw0, ?Hl0, ?Hr0, ?Hs0.
        - intros j q H Hc. upd H; [|eauto]. apply (I1 _ _ Ei). rewrite Epc; reflexivity.
        - intros w k Hw Hs. destruct (I2 w k Hw Hs) as (j & q & Hj & Hq & Hqw).
          exists j, q. split; [|split; assumption]. rewrite nth_error_upd_nth, Hj.
          destruct (Nat.eqb_spec i j); [subst j; rewrite Ei in Hj; inversion Hj; subst; congruence | reflexivity].
        - exact HJ.
        - intros j q w H Hq Hw. upd H; [discriminate|]. eapply I4; eauto.
        - intros j q H Hq. upd H; [destruct Hq; discriminate|]. eapply I5; eauto.
        - exact I6.
        - exact I7.
        - exact I8. }
      destruct (probe s) eqn:Epr.
      + apply HG3; try reflexivity. exact (l_path _ I).
      + assert (NA : forall w k, getw s w = Some k -> alive (w_ph k) = false).
        { eapply no_alive; eauto; rewrite Epc; [reflexivity | discriminate]. }
        assert (CU : forall j q, getp s j = Some q -> crit (p_pc q) = true -> i = j).
        { intros j q Hj Hc. eapply crit_unique; eauto. rewrite Epc; reflexivity. }
        destruct I as [I1 I2 I3 I4 I5 I6 I7 I8]. constructor; unfold getp, getw in *; cbn.
        * intros j q H Hc. upd H; [discriminate|]. exfalso. apply N. eapply CU; eauto.
        * intros w k Hw Hs. pose proof (NA w k Hw) as A. unfold alive in A. rewrite Hs in A. discriminate.
        * intros w k Hw Hb. pose proof (NA w k Hw) as A. destruct (w_ph k); discriminate.
        * intros j q w H Hq Hw. upd H; [discriminate|]. eapply I4; eauto.
        * intros j q H Hq. upd H; [destruct Hq; discriminate|]. eapply I5; eauto.
        * exact I6.
        * exact I7.
        * exact I8.
    - (* G3 *)
      assert (CU : forall j q, getp s j = Some q -> crit (p_pc q) = true -> i = j).
      { intros j q Hj Hc. eapply crit_unique; eauto. rewrite Epc; reflexivity. }
      destruct I as [I1 I2 I3 I4 I5 I6 I7 I8]. constructor; unfold getp, getw in *; cbn.
      + intros j q H Hc. upd H; [discriminate|]. exfalso. apply N. eapply CU; eauto.
      + intros w k Hw Hs. destruct (I2 w k Hw Hs) as (j & q & Hj & Hq & Hqw).
        exists j, q. split; [|split; assumption]. rewrite nth_error_upd_nth, Hj.
        destruct (Nat.eqb_spec i j); [subst j; rewrite Ei in Hj; inversion Hj; subst; congruence | reflexivity].
      + exact I3.
      + intros j q w H Hq Hw. upd H; [discriminate|]. eapply I4; eauto.
      + intros j q H Hq. upd H; [destruct Hq; discriminate|]. eapply I5; eauto.
      + exact I6.
      + exact I7.
      + exact I8.
    - (* G3u *)
      destruct I as [I1 I2 I3 I4 I5 I6 I7 I8]. constructor; unfold getp, getw in *; cbn.
      + intros j q H Hc. upd H; [discriminate|]. eauto.
      + intros w k Hw Hs. destruct (I2 w k Hw Hs) as (j & q & Hj & Hq & Hqw).
        exists j, q. split; [|split; assumption]. rewrite nth_error_upd_nth, Hj.
        destruct (Nat.eqb_spec i j); [subst j; rewrite Ei in Hj; inversion Hj; subst; congruence | reflexivity].
      + exact I3.
      + intros j q w H Hq Hw. upd H; [discriminate|]. eapply I4; eauto.
      + intros j q H Hq. upd H; [destruct Hq; discriminate|]. eapply I5; eauto.
      + exact I6.
      + exact I7.
      + exact I8.
    - (* G4 *) exact I.
  Qed.

  (* a worker step that changes worker w from k to k' and the path from fs to fs', procs untouched *)
  Lemma inv_wk_change s w k k' fs' :
    LInv s -> getw s w = Some k ->
    (starting (w_ph k') = true -> starting (w_ph k) = true) ->
    (alive (w_ph k') = true -> alive (w_ph k) = true) ->
    (bound_open (w_ph k') = true -> fs' = Some w) ->
    (forall v kv, v <> w -> getw s v = Some kv -> bound_open (w_ph kv) = true -> fs' = Some v) ->
    (ready_phase (w_ph k') = true -> w_ready_ok k' = true) ->
    LInv (set_wk w k' (set_fs fs' s)).
  Proof.
    intros [I1 I2 I3 I4 I5 I6 I7 I8] Hw Hst Hal Hbo Hoth Hrd.
    constructor; unfold getp, getw in *; cbn.
    - exact I1.
    - intros v kv H Hs. upd H; [eapply I2; [exact Hw | apply Hst; exact Hs] | eapply I2; eauto].
    - intros v kv H Hb. upd H; [apply Hbo; exact Hb|]. eapply Hoth; eauto.
    - intros j q x Hj Hq Hx v kv H Ha. upd H; [eapply I4; [exact Hj | exact Hq | exact Hx | exact Hw | apply Hal; exact Ha] | eapply I4; eauto].
    - intros j q Hj Hq v kv H. upd H; [|eapply I5; eauto].
      match goal with |- alive (w_ph ?x) = false => destruct (alive (w_ph x)) eqn:A; [|reflexivity] end.
      pose proof (Hal eq_refl) as B. rewrite (I5 j q Hj Hq _ _ Hw) in B. discriminate B.
    - intros v kv H Hr. upd H; [apply Hrd; exact Hr|]. eapply I6; eauto.
    - exact I7.
    - exact I8.
  Qed.

  (* a starting worker is the only alive one *)
  Lemma starting_alone s : LInv s -> forall w k, getw s w = Some k -> starting (w_ph k) = true ->
    forall v kv, getw s v = Some kv -> alive (w_ph kv) = true -> v = w.
  Proof.
    intros I w k Hw Hs v kv Hv Ha.
    destruct (l_start _ I w k Hw Hs) as (j & q & Hj & Hq & Hqw).
    eapply (l_wait _ I j q w); eauto.
  Qed.

  Lemma bound_open_alive p : bound_open p = true -> alive p = true.
  Proof. destruct p; intro H; try discriminate; reflexivity. Qed.

  Lemma set_fs_same s : set_fs (fs s) s = s.
  Proof. destruct s; reflexivity. Qed.

  Lemma inv_wk_same s w k k' :
    LInv s -> getw s w = Some k ->
    (starting (w_ph k') = true -> starting (w_ph k) = true) ->
    (alive (w_ph k') = true -> alive (w_ph k) = true) ->
    (bound_open (w_ph k') = true -> fs s = Some w) ->
    (ready_phase (w_ph k') = true -> w_ready_ok k' = true) ->
    LInv (set_wk w k' s).
  Proof.
    intros I Hw Hst Hal Hbo Hrd.
    pose proof (inv_wk_change s w k k' (fs s) I Hw Hst Hal Hbo) as G.
    rewrite set_fs_same in G. apply G; [|exact Hrd].
    intros v kv _ Hv Hb. eapply (l_path _ I); eauto.
  Qed.

  Lemma inv_wk w s : LInv s -> LInv (wk_step w s).
  Proof.
    intros I. unfold wk_step. destruct (nth_error (workers s) w) as [k|] eqn:Ew; [|exact I].
    assert (Hw : getw s w = Some k) by exact Ew.
    assert (ALONE : starting (w_ph k) = true ->
                    forall v kv, v <> w -> getw s v = Some kv -> bound_open (w_ph kv) = true -> False).
    { intros Hs v kv Nv Hv Hb. apply Nv.
      eapply (starting_alone s I w k); eauto. apply bound_open_alive; exact Hb. }
    destruct (w_ph k) eqn:Eph.
    - (* W0 *)
      destruct (probe s).
      + apply (inv_wk_same s w k _ I Hw); cbn; intro H; try discriminate H.
      + apply (inv_wk_same s w k _ I Hw); cbn; intro H; try discriminate H; rewrite Eph; reflexivity.
    - (* W1 *)
      apply (inv_wk_change s w k _ _ I Hw); cbn.
      + intros _. rewrite Eph; reflexivity.
      + intros _. rewrite Eph; reflexivity.
      + intro H; discriminate H.
      + intros v kv Nv Hv Hb. exfalso. eapply ALONE; eauto.
      + intro H; discriminate H.
    - (* W2 *)
      destruct (fs s) as [x|] eqn:Efs.
      + apply (inv_wk_same s w k _ I Hw); cbn; intro H; discriminate H.
      + apply (inv_wk_change s w k _ _ I Hw); cbn.
        * intros _. rewrite Eph; reflexivity.
        * intros _. rewrite Eph; reflexivity.
        * intros _. reflexivity.
        * intros v kv Nv Hv Hb. exfalso. eapply ALONE; eauto.
        * intro H; discriminate H.
    - (* W3 *)
      assert (F : fs s = Some w) by (eapply (l_path _ I); eauto; rewrite Eph; reflexivity).
      apply (inv_wk_same s w k _ I Hw); cbn.
      + intro H; discriminate H.
      + intros _. rewrite Eph; reflexivity.
      + intros _. exact F.
      + intros _. rewrite F. cbn. apply Nat.eqb_refl.
    - (* W4 *) exact I.
    - (* W5 *)
      apply (inv_wk_same s w k _ I Hw); cbn; intro H; try discriminate H.
      eapply (l_ready _ I); eauto. rewrite Eph; reflexivity.
    - (* W6 *)
      assert (R : w_ready_ok k = true) by (eapply (l_ready _ I); eauto; rewrite Eph; reflexivity).
      destruct (opt_is (fs s) w) eqn:Eo.
      + apply (inv_wk_change s w k _ _ I Hw); cbn.
        * intro H; discriminate H.
        * intro H; discriminate H.
        * intro H; discriminate H.
        * intros v kv Nv Hv Hb. exfalso. pose proof (l_path _ I v kv Hv Hb) as F.
          rewrite F in Eo. cbn in Eo. apply Nat.eqb_eq in Eo. contradiction.
        * intros _. exact R.
      + apply (inv_wk_same s w k _ I Hw); cbn; intro H; try discriminate H. exact R.
    - (* W7 *) exact I.
    - (* WFail *) exact I.
  Qed.

  Lemma inv_stop w s : LInv s -> LInv (stop_step w s).
  Proof.
    intros I. unfold stop_step. destruct (nth_error (workers s) w) as [k|] eqn:Ew; [|exact I].
    assert (Hw : getw s w = Some k) by exact Ew.
    destruct (w_ph k) eqn:Eph; try exact I.
    apply (inv_wk_same s w k _ I Hw); cbn.
    - intro H; discriminate H.
    - intros _. rewrite Eph; reflexivity.
    - intros _. eapply (l_path _ I); eauto. rewrite Eph; reflexivity.
    - intros _. eapply (l_ready _ I); eauto. rewrite Eph; reflexivity.
  Qed.

  Lemma linv_step s a : LInv s -> LInv (lstep flock_grant s a).
  Proof. intros I. destruct a; cbn; [apply inv_proc | apply inv_wk | apply inv_stop]; exact I. Qed.

  Lemma linv_run kinds sch : LInv (lrun flock_grant kinds sch).
  Proof.
    unfold lrun. assert (G : forall sch s, LInv s -> LInv (fold_left (lstep flock_grant) sch s)).
    { induction sch0 as [|a r IH]; intros s I; cbn; [exact I | apply IH, linv_step, I]. }
    apply G. apply linv_init.
  Qed.

  (* ---- the statements ---- *)
  Theorem one_worker_per_hash : forall kinds sch, let s := lrun flock_grant kinds sch in
    (forall v kv w kw, getw s v = Some kv -> getw s w = Some kw ->
                       alive (w_ph kv) = true -> alive (w_ph kw) = true -> v = w)
    /\ spawn_ok s = true.
  Proof.
    intros kinds sch s. pose proof (linv_run kinds sch) as I. fold s in I.
    split; [|exact (l_spawn _ I)].
    intros v kv w kw Hv Hw Av Aw.
    destruct (starting (w_ph kv)) eqn:Sv.
    - symmetry. eapply (starting_alone s I v kv); eauto.
    - destruct (starting (w_ph kw)) eqn:Sw.
      + eapply (starting_alone s I w kw); eauto.
      + unfold alive in Av, Aw. rewrite Sv in Av. rewrite Sw in Aw. cbn in Av, Aw.
        assert (Bv : bound_open (w_ph kv) = true) by (destruct (w_ph kv); try discriminate; reflexivity).
        assert (Bw : bound_open (w_ph kw) = true) by (destruct (w_ph kw); try discriminate; reflexivity).
        pose proof (l_path _ I v kv Hv Bv) as F1. pose proof (l_path _ I w kw Hw Bw) as F2.
        rewrite F1 in F2. inversion F2; reflexivity.
  Qed.

  Theorem returned_path_accepting : forall kinds sch, ret_ok (lrun flock_grant kinds sch) = true.
  Proof. intros kinds sch. exact (l_ret _ (linv_run kinds sch)). Qed.

  (* a worker whose listener is open is the worker the socket path names: connect(path) reaches it *)
  Theorem listening_worker_reachable : forall kinds sch w k, let s := lrun flock_grant kinds sch in
    getw s w = Some k -> listening (w_ph k) = true -> fs s = Some w /\ probe s = true.
  Proof.
    intros kinds sch w k s Hw Hl. pose proof (linv_run kinds sch) as I. fold s in I.
    assert (B : bound_open (w_ph k) = true) by (destruct (w_ph k); try discriminate; reflexivity).
    pose proof (l_path _ I w k Hw B) as F. split; [exact F|].
    unfold probe. rewrite F. unfold getw in Hw. rewrite Hw. exact Hl.
  Qed.

  (* the ready line a launcher acts on was printed by a worker that was listening on the path at that moment *)
  Theorem ready_line_truthful : forall kinds sch w k, let s := lrun flock_grant kinds sch in
    getw s w = Some k -> ready_phase (w_ph k) = true -> w_ready_ok k = true.
  Proof. intros kinds sch w k s Hw Hr. exact (l_ready _ (linv_run kinds sch) w k Hw Hr). Qed.
End Flock.
