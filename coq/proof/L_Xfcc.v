(* Lemmas about the XFCC model: splitter laws on the model's own functions, printer/parser round trip,
   compositionality of the parse, selection, reason codes. *)
From Coq Require Import List NArith Bool Lia.
From VGI Require Import M_Xfcc L_XfccSplit.
Import ListNotations.
Open Scope N_scope.

(* ------------------------------------------------------------------ splitter, in the model's vocabulary *)
Lemma split_rq_split3 : forall d s, split_rq d s = split3 d QOut s.
Proof. intros; unfold split_rq; apply (split_st_split3 d s false). Qed.

Lemma split_rq_nonnil : forall d s, split_rq d s <> [].
Proof. intros; rewrite split_rq_split3; apply split3_nonnil. Qed.

Lemma split_rq_lossless : forall d s, join d (split_rq d s) = s.
Proof. intros; rewrite split_rq_split3; apply split3_join. Qed.

Lemma split_rq_parts_nosplit : forall d s, Forall (fun p => split_rq d p = [p]) (split_rq d s).
Proof.
  intros d s. pose proof (split3_parts_nosplit d s QOut) as H. rewrite split_rq_split3.
  destruct (split3 d QOut s) as [|p rest]; [contradiction|]. destruct H as [H1 H2].
  constructor; [rewrite split_rq_split3; exact H1|].
  eapply Forall_impl; [|exact H2]. intros q Hq. rewrite split_rq_split3; exact Hq.
Qed.

Lemma split_rq_parts_closed : forall d s, Forall (fun p => closed p = true) (removelast (split_rq d s)).
Proof.
  intros d s. pose proof (split3_parts_closed d s QOut) as H. rewrite split_rq_split3.
  destruct (split3 d QOut s) as [|p [|q rest]]; [contradiction | constructor |].
  destruct H as [H1 H2]. change (removelast (p :: q :: rest)) with (p :: removelast (q :: rest)).
  constructor; [apply closed_run3; exact H1|].
  eapply Forall_impl; [|exact H2]. intros x Hx. apply closed_run3; exact Hx.
Qed.

Lemma split_rq_cut : forall d a b, d <> c_quote -> closed a = true ->
  split_rq d (a ++ d :: b) = split_rq d a ++ split_rq d b.
Proof.
  intros d a b Hd Ha. rewrite !split_rq_split3. apply split3_cut_after_closed; [exact Hd | apply closed_run3; exact Ha].
Qed.

Lemma split_rq_unique : forall d ps, d <> c_quote -> ps <> [] ->
  Forall (fun p => closed p = true) (removelast ps) -> Forall (fun p => split_rq d p = [p]) ps ->
  split_rq d (join d ps) = ps.
Proof.
  intros d ps Hd Hn Hc Hs. rewrite split_rq_split3. apply split3_unique; try assumption.
  - eapply Forall_impl; [|exact Hc]. intros p Hp. apply closed_run3; exact Hp.
  - eapply Forall_impl; [|exact Hs]. intros p Hp. unfold nosplit. rewrite <- split_rq_split3. exact Hp.
Qed.

Lemma atom_model : forall d p, atom d p <-> closed p = true /\ split_rq d p = [p].
Proof.
  intros d p. unfold atom. rewrite split_rq_split3. rewrite closed_run3. reflexivity.
Qed.

Lemma closed_app : forall a b, closed a = true -> closed b = true -> closed (a ++ b) = true.
Proof.
  intros a b Ha Hb. apply closed_run3. rewrite run3_app. apply closed_run3 in Ha. rewrite Ha. apply closed_run3; exact Hb.
Qed.

Lemma quoted_atom : forall d v, closed (quote_str v) = true /\ split_rq d (quote_str v) = [quote_str v].
Proof. intros d v. apply atom_model. apply atom_quote_str. Qed.

Lemma closed_delim : forall d, d <> c_quote -> closed [d] = true.
Proof.
  intros d Hd. unfold closed. simpl. apply N.eqb_neq in Hd. rewrite Hd. rewrite andb_false_r. reflexivity.
Qed.

Lemma quoted_between_delims : forall d v a b, d <> c_quote -> closed a = true ->
  split_rq d (a ++ d :: quote_str v ++ d :: b) = split_rq d a ++ [quote_str v] ++ split_rq d b.
Proof.
  intros d v a b Hd Ha. rewrite split_rq_cut by assumption. f_equal.
  destruct (quoted_atom d v) as [Hc Hs]. rewrite split_rq_cut by assumption. rewrite Hs. reflexivity.
Qed.

(* ------------------------------------------------------------------ strip *)
Lemma lstrip_id : forall s, hd_ok s = true -> lstrip s = s.
Proof. intros [|c r] H; [reflexivity|]. simpl in *. apply negb_true_iff in H. rewrite H. reflexivity. Qed.

Lemma strip_id : forall s, no_edge_space s = true -> strip s = s.
Proof.
  intros s H. unfold no_edge_space in H. apply andb_true_iff in H as [H1 H2].
  unfold strip, rstrip. rewrite (lstrip_id s H1). rewrite (lstrip_id (rev s) H2). apply rev_involutive.
Qed.

Lemma hd_ok_app : forall a b, a <> [] -> hd_ok (a ++ b) = hd_ok a.
Proof. intros [|c a] b H; [contradiction | reflexivity]. Qed.

Lemma nes_intro : forall s, hd_ok s = true -> hd_ok (rev s) = true -> no_edge_space s = true.
Proof. intros s H1 H2. unfold no_edge_space. rewrite H1, H2. reflexivity. Qed.

Lemma forallb_hd_ok : forall (f : N -> bool) s,
  (forall c, f c = true -> is_space c = false) -> forallb f s = true -> hd_ok s = true /\ hd_ok (rev s) = true.
Proof.
  intros f s Hf Hs. rewrite forallb_forall in Hs. split.
  - destruct s as [|c r]; [reflexivity|]. simpl. rewrite (Hf c); [reflexivity | apply Hs; left; reflexivity].
  - destruct (rev s) as [|c r] eqn:E; [reflexivity|]. simpl. rewrite (Hf c); [reflexivity|].
    apply Hs. apply in_rev. rewrite E. left; reflexivity.
Qed.

Lemma strip_nil : strip [] = [].
Proof. reflexivity. Qed.

(* ------------------------------------------------------------------ escape / dequote *)
Lemma unescape_esc : forall v, unescape (esc v) = v.
Proof.
  induction v as [|c v IH]; [reflexivity|]. simpl esc.
  destruct ((c =? c_quote) || (c =? c_bslash)) eqn:E.
  - change (unescape (c_bslash :: c :: esc v)) with (if c =? c_lf then c_bslash :: unescape (c :: esc v) else c :: unescape (esc v)).
    assert (Hlf : (c =? c_lf) = false).
    { apply orb_true_iff in E as [E|E]; apply N.eqb_eq in E; subst; reflexivity. }
    rewrite Hlf, IH. reflexivity.
  - apply orb_false_iff in E as [_ E]. simpl. rewrite E, IH. reflexivity.
Qed.

Lemma dequote_quoted : forall v, dequote (quote_str v) = v.
Proof.
  intro v. unfold dequote, quote_str. rewrite rev_app_distr. simpl rev. simpl app.
  rewrite N.eqb_refl. simpl. rewrite rev_involutive. apply unescape_esc.
Qed.

Lemma dequote_bare : forall v, forallb bare_char v = true -> dequote v = v.
Proof.
  intros [|c r] H; [reflexivity|]. unfold dequote. destruct (rev r) as [|l m]; [reflexivity|].
  simpl in H. apply andb_true_iff in H as [H _]. unfold bare_char in H. apply negb_true_iff in H.
  apply orb_false_iff in H as [H _]. apply orb_false_iff in H as [H _]. rewrite H. reflexivity.
Qed.

(* ------------------------------------------------------------------ one item *)
Lemma find_eq_key : forall k v, forallb key_char k = true -> find_eq (k ++ c_eq :: v) = Some (k, v).
Proof.
  induction k as [|c k IH]; intros v H.
  - reflexivity.
  - simpl in H. apply andb_true_iff in H as [Hc Hk]. simpl. rewrite (IH v Hk).
    unfold key_char in Hc. apply negb_true_iff in Hc. repeat (apply orb_false_iff in Hc as [Hc ?]).
    match goal with H : (c =? c_eq) = false |- _ => rewrite H end. reflexivity.
Qed.

Lemma key_char_nospace : forall c, key_char c = true -> is_space c = false.
Proof.
  intros c H. unfold key_char in H. apply negb_true_iff in H. apply orb_false_iff in H as [_ H]. exact H.
Qed.

Definition value_text (it : item) : str := if it_quoted it then quote_str (it_value it) else it_value it.

Lemma print_item_eq : forall it, print_item it = it_key it ++ c_eq :: value_text it.
Proof. reflexivity. Qed.

Lemma value_text_edges : forall it, wf_item it = true -> no_edge_space (value_text it) = true.
Proof.
  intros [k q v] H. unfold wf_item in H. simpl in H. apply andb_true_iff in H as [_ H]. unfold value_text; simpl.
  destruct q.
  - unfold quote_str. apply nes_intro; [reflexivity|]. simpl rev. rewrite rev_app_distr. reflexivity.
  - simpl in H. apply andb_true_iff in H as [_ H]. exact H.
Qed.

Lemma value_text_dequote : forall it, wf_item it = true -> dequote (value_text it) = it_value it.
Proof.
  intros [k q v] H. unfold wf_item in H. simpl in H. apply andb_true_iff in H as [_ H]. unfold value_text; simpl.
  destruct q; [apply dequote_quoted|]. simpl in H. apply andb_true_iff in H as [H _]. apply dequote_bare; exact H.
Qed.

Lemma print_item_edges : forall it, wf_item it = true ->
  print_item it <> [] /\ hd_ok (print_item it) = true /\ hd_ok (rev (print_item it)) = true.
Proof.
  intros it H. pose proof (value_text_edges it H) as Hv. unfold no_edge_space in Hv. apply andb_true_iff in Hv as [Hv1 Hv2].
  assert (Hk : forallb key_char (it_key it) = true).
  { unfold wf_item in H. apply andb_true_iff in H as [H _]. exact H. }
  destruct (forallb_hd_ok key_char (it_key it) key_char_nospace Hk) as [Hk1 Hk2].
  rewrite print_item_eq. split; [destruct (it_key it); discriminate|]. split.
  - destruct (it_key it) as [|c k]; [reflexivity | exact Hk1].
  - rewrite rev_app_distr. simpl rev. destruct (rev (value_text it)) as [|l m] eqn:E.
    + reflexivity.
    + simpl app. exact Hv2.
Qed.

Lemma parse_pair_item : forall unq e it, wf_item it = true ->
  parse_pair unq e (print_item it) = set_field unq e (lower (it_key it)) (it_value it).
Proof.
  intros unq e it H. destruct (print_item_edges it H) as [Hn [H1 H2]].
  unfold parse_pair. rewrite (strip_id _ (nes_intro _ H1 H2)).
  destruct (print_item it) eqn:E; [contradiction|]. rewrite <- E. clear E.
  assert (Hk : forallb key_char (it_key it) = true).
  { unfold wf_item in H. apply andb_true_iff in H as [H _]. exact H. }
  rewrite print_item_eq, (find_eq_key _ _ Hk).
  destruct (forallb_hd_ok key_char (it_key it) key_char_nospace Hk) as [Hk1 Hk2].
  rewrite (strip_id _ (nes_intro _ Hk1 Hk2)). rewrite (strip_id _ (value_text_edges it H)).
  rewrite (value_text_dequote it H). reflexivity.
Qed.

(* ------------------------------------------------------------------ items are atoms for both delimiters *)
Lemma key_char_plain : forall d c, d = c_comma \/ d = c_semi -> key_char c = true -> plain_for d c = true.
Proof.
  intros d c Hd H. unfold key_char in H. apply negb_true_iff in H. repeat (apply orb_false_iff in H as [H ?]).
  unfold plain_for. destruct Hd; subst d;
    repeat match goal with E : (c =? _) = false |- _ => rewrite E; clear E end; reflexivity.
Qed.
Lemma bare_char_plain : forall d c, d = c_comma \/ d = c_semi -> bare_char c = true -> plain_for d c = true.
Proof.
  intros d c Hd H. unfold bare_char in H. apply negb_true_iff in H. repeat (apply orb_false_iff in H as [H ?]).
  unfold plain_for. destruct Hd; subst d;
    repeat match goal with E : (c =? _) = false |- _ => rewrite E; clear E end; reflexivity.
Qed.

Lemma forallb_impl : forall (f g : N -> bool) s, (forall c, f c = true -> g c = true) -> forallb f s = true -> forallb g s = true.
Proof.
  intros f g s H Hs. rewrite forallb_forall in *. intros c Hc. apply H. apply Hs. exact Hc.
Qed.

Lemma atom_item : forall d it, d = c_comma \/ d = c_semi -> wf_item it = true -> atom d (print_item it).
Proof.
  intros d it Hd H. rewrite print_item_eq. unfold wf_item in H. apply andb_true_iff in H as [Hk Hv].
  apply atom_app; [apply atom_plain; eapply forallb_impl; [|exact Hk]; intros c; apply key_char_plain; exact Hd|].
  apply (atom_app d [c_eq]).
  - apply atom_plain. destruct Hd; subst d; reflexivity.
  - unfold value_text. destruct (it_quoted it); [apply atom_quote_str|].
    simpl in Hv. apply andb_true_iff in Hv as [Hv _].
    apply atom_plain; eapply forallb_impl; [|exact Hv]; intros c; apply bare_char_plain; exact Hd.
Qed.

Lemma wf_elem_items : forall its, wf_elem its = true -> its <> [] /\ Forall (fun it => wf_item it = true) its.
Proof.
  intros its H. unfold wf_elem in H. destruct its as [|it its]; [discriminate|].
  split; [discriminate|]. apply Forall_forall. rewrite forallb_forall in H. exact H.
Qed.

Lemma split_print_elem : forall its, wf_elem its = true -> split_rq c_semi (print_elem its) = map print_item its.
Proof.
  intros its H. destruct (wf_elem_items its H) as [Hn Hw]. rewrite split_rq_split3. unfold print_elem.
  apply split3_join_atoms; [discriminate | destruct its; [contradiction | discriminate] |].
  apply Forall_forall. intros p Hp. apply in_map_iff in Hp as [it [<- Hit]].
  apply atom_item; [right; reflexivity|]. rewrite Forall_forall in Hw. apply Hw; exact Hit.
Qed.

Lemma atom_print_elem : forall its, wf_elem its = true -> atom c_comma (print_elem its).
Proof.
  intros its H. destruct (wf_elem_items its H) as [Hn Hw]. unfold print_elem. apply atom_join; [reflexivity|].
  apply Forall_forall. intros p Hp. apply in_map_iff in Hp as [it [<- Hit]].
  apply atom_item; [left; reflexivity|]. rewrite Forall_forall in Hw. apply Hw; exact Hit.
Qed.

(* edges of a joined text *)
Lemma join_edges : forall d ps, ps <> [] ->
  Forall (fun p => p <> [] /\ hd_ok p = true /\ hd_ok (rev p) = true) ps ->
  join d ps <> [] /\ hd_ok (join d ps) = true /\ hd_ok (rev (join d ps)) = true.
Proof.
  intros d ps; induction ps as [|p ps IH]; intros Hn H; [contradiction|].
  inversion H as [|? ? [Hp0 [Hp1 Hp2]] Hps]; subst. destruct ps as [|q ps]; [simpl; auto|].
  rewrite join_cons by discriminate. destruct (IH ltac:(discriminate) Hps) as [I0 [I1 I2]].
  split; [destruct p; [contradiction | discriminate]|]. split.
  - rewrite hd_ok_app by exact Hp0. exact Hp1.
  - rewrite rev_app_distr. change (d :: join d (q :: ps)) with ([d] ++ join d (q :: ps)). rewrite rev_app_distr.
    rewrite <- app_assoc. rewrite hd_ok_app; [exact I2|]. intro E. apply (f_equal (@rev N)) in E. rewrite rev_involutive in E. exact (I0 E).
Qed.

Lemma print_elem_edges : forall its, wf_elem its = true ->
  print_elem its <> [] /\ no_edge_space (print_elem its) = true.
Proof.
  intros its H. destruct (wf_elem_items its H) as [Hn Hw]. unfold print_elem.
  destruct (join_edges c_semi (map print_item its)) as [J0 [J1 J2]].
  - destruct its; [contradiction | discriminate].
  - apply Forall_forall. intros p Hp. apply in_map_iff in Hp as [it [<- Hit]].
    apply print_item_edges. rewrite Forall_forall in Hw. apply Hw; exact Hit.
  - split; [exact J0 | apply nes_intro; assumption].
Qed.

Lemma fold_left_map_items : forall unq its e,
  Forall (fun it => wf_item it = true) its ->
  fold_left (parse_pair unq) (map print_item its) e =
  fold_left (fun e it => set_field unq e (lower (it_key it)) (it_value it)) its e.
Proof.
  intros unq its; induction its as [|it its IH]; intros e H; [reflexivity|].
  inversion H; subst. simpl. rewrite parse_pair_item by assumption. apply IH; assumption.
Qed.

Lemma parse_elem_print : forall unq its, wf_elem its = true -> parse_elem unq (print_elem its) = sem_elem unq its.
Proof.
  intros unq its H. unfold parse_elem. rewrite split_print_elem by exact H.
  apply fold_left_map_items. apply (wf_elem_items its H).
Qed.

Lemma parse_raws_app : forall unq l1 l2, parse_raws unq (l1 ++ l2) = parse_raws unq l1 ++ parse_raws unq l2.
Proof.
  intros unq l1 l2; induction l1 as [|r l1 IH]; [reflexivity|]. simpl. destruct (strip r); rewrite IH; reflexivity.
Qed.

Lemma parse_raws_printed : forall unq es, Forall (fun its => wf_elem its = true) es ->
  parse_raws unq (map print_elem es) = map (sem_elem unq) es.
Proof.
  intros unq es; induction es as [|its es IH]; intro H; [reflexivity|].
  inversion H as [|? ? Hw Hes]; subst. simpl. destruct (print_elem_edges its Hw) as [Hn He].
  rewrite (strip_id _ He). destruct (print_elem its) eqn:E; [contradiction|]. rewrite <- E.
  rewrite parse_elem_print by exact Hw. rewrite IH by exact Hes. reflexivity.
Qed.

Theorem print_parse : forall unq es, Forall (fun its => wf_elem its = true) es ->
  parse_xfcc_with unq (print_xfcc es) = map (sem_elem unq) es.
Proof.
  intros unq es H. unfold parse_xfcc_with, print_xfcc. destruct es as [|its es]; [reflexivity|].
  rewrite split_rq_split3. rewrite split3_join_atoms.
  - apply parse_raws_printed; exact H.
  - discriminate.
  - discriminate.
  - apply Forall_forall. intros p Hp. apply in_map_iff in Hp as [x [<- Hx]]. apply atom_print_elem.
    rewrite Forall_forall in H. apply H; exact Hx.
Qed.

(* ------------------------------------------------------------------ canonical records *)
Definition opt_inv (unq enc : str -> str) (o : option str) : Prop :=
  match o with Some v => unq (enc v) = v | None => True end.
Definition enc_ok (unq enc : str -> str) (e : elem) : Prop :=
  opt_inv unq enc (e_cert e) /\ opt_inv unq enc (e_uri e) /\ opt_inv unq enc (e_by e).

Lemma fold_dns : forall unq vs e,
  fold_left (fun e it => set_field unq e (lower (it_key it)) (it_value it)) (map (fun v => mkItem K_DNS true v) vs) e =
  mkElem (e_hash e) (e_cert e) (e_subject e) (e_uri e) (e_dns e ++ vs) (e_by e).
Proof.
  intros unq vs; induction vs as [|v vs IH]; intro e.
  - simpl. rewrite app_nil_r. destruct e; reflexivity.
  - simpl map. simpl fold_left. rewrite IH. simpl. rewrite <- app_assoc. reflexivity.
Qed.

Lemma sem_items_of_elem : forall unq enc e, enc_ok unq enc e -> sem_elem unq (items_of_elem enc e) = e.
Proof.
  intros unq enc [h c s u dns b] [Hc [Hu Hb]]. simpl in Hc, Hu, Hb. unfold sem_elem, items_of_elem. simpl.
  rewrite !fold_left_app. rewrite fold_dns.
  destruct h, c, s, u, b; cbv -[app] in *; rewrite ?Hc, ?Hu, ?Hb; reflexivity.
Qed.

Lemma wf_dns_items : forall dns, forallb wf_item (map (fun v => mkItem K_DNS true v) dns) = true.
Proof. induction dns as [|v dns IH]; [reflexivity|]. simpl map. simpl forallb. rewrite IH. reflexivity. Qed.

Lemma wf_items_of_elem : forall enc e, elem_nonempty e = true -> wf_elem (items_of_elem enc e) = true.
Proof.
  intros enc [h c s u dns b] H. unfold elem_nonempty in H. unfold wf_elem.
  assert (Hall : forallb wf_item (items_of_elem enc (mkElem h c s u dns b)) = true).
  { unfold items_of_elem. simpl. rewrite !forallb_app.
    rewrite wf_dns_items. destruct h, c, s, u, b; reflexivity. }
  rewrite Hall. unfold items_of_elem in *. simpl in *.
  destruct h; [reflexivity|]. destruct c; [reflexivity|]. destruct s; [reflexivity|]. destruct u; [reflexivity|].
  destruct dns; [|reflexivity]. destruct b; [reflexivity|]. simpl in H. discriminate.
Qed.

Theorem print_parse_records : forall unq enc es,
  Forall (fun e => elem_nonempty e = true /\ enc_ok unq enc e) es ->
  parse_xfcc_with unq (print_xfcc (map (items_of_elem enc) es)) = es.
Proof.
  intros unq enc es H. rewrite print_parse.
  - rewrite map_map. induction H as [|e es [_ He] _ IH]; [reflexivity|]. simpl. rewrite sem_items_of_elem by exact He. rewrite IH. reflexivity.
  - apply Forall_forall. intros its Hin. apply in_map_iff in Hin as [e [<- He]].
    rewrite Forall_forall in H. apply wf_items_of_elem. apply (H e He).
Qed.

(* ------------------------------------------------------------------ unquote on fully percent-encoded ASCII *)
Lemma dec_rep_ascii : forall b, forallb (fun c => c <? 128) b = true -> dec_rep b = b.
Proof.
  induction b as [|c b IH]; intro H; [reflexivity|]. simpl in H. apply andb_true_iff in H as [Hc Hb].
  simpl. rewrite Hc, (IH Hb). reflexivity.
Qed.

Lemma unquote_aux_ascii : forall s run, forallb (fun c => c <? 128) s = true ->
  unquote_aux run s = dec_rep (unpct (rev run ++ s)).
Proof.
  induction s as [|c s IH]; intros run H.
  - simpl. rewrite app_nil_r. reflexivity.
  - simpl in H. apply andb_true_iff in H as [Hc Hs]. simpl. rewrite Hc. rewrite (IH (c :: run) Hs).
    simpl. rewrite <- app_assoc. reflexivity.
Qed.

Definition hex_ok (c : N) : bool :=
  is_hex (hexdig (c / 16)) && is_hex (hexdig (c mod 16)) && (16 * hexval (hexdig (c / 16)) + hexval (hexdig (c mod 16)) =? c)
  && (hexdig (c / 16) <? 128) && (hexdig (c mod 16) <? 128).

Lemma hex_ok_all : forall c, c < 128 -> hex_ok c = true.
Proof.
  assert (H : forallb hex_ok (map N.of_nat (seq 0 128)) = true) by (vm_compute; reflexivity).
  rewrite forallb_forall in H. intros c Hc. apply H. apply in_map_iff. exists (N.to_nat c). split.
  - apply N2Nat.id.
  - apply in_seq. lia.
Qed.

Lemma unpct_pct_all : forall v, forallb (fun c => c <? 128) v = true ->
  unpct (pct_all v) = v /\ forallb (fun c => c <? 128) (pct_all v) = true.
Proof.
  induction v as [|c v IH]; intro H; [split; reflexivity|].
  simpl in H. apply andb_true_iff in H as [Hc Hv]. destruct (IH Hv) as [I1 I2].
  apply N.ltb_lt in Hc. pose proof (hex_ok_all c Hc) as Hh. unfold hex_ok in Hh.
  repeat (apply andb_true_iff in Hh as [Hh ?]).
  change (pct_all (c :: v)) with (c_pct :: hexdig (c / 16) :: hexdig (c mod 16) :: pct_all v). split.
  - change (unpct (c_pct :: hexdig (c / 16) :: hexdig (c mod 16) :: pct_all v)) with
      (if is_hex (hexdig (c / 16)) && is_hex (hexdig (c mod 16))
       then (16 * hexval (hexdig (c / 16)) + hexval (hexdig (c mod 16))) :: unpct (pct_all v)
       else c_pct :: unpct (hexdig (c / 16) :: hexdig (c mod 16) :: pct_all v)).
    rewrite Hh. match goal with E : is_hex (hexdig (c mod 16)) = true |- _ => rewrite E end. simpl andb. cbv iota.
    rewrite I1. f_equal. apply N.eqb_eq. assumption.
  - simpl forallb. rewrite I2. repeat match goal with E : (_ <? 128) = true |- _ => rewrite E; clear E end. reflexivity.
Qed.

Theorem unquote_pct_all : forall v, forallb (fun c => c <? 128) v = true -> unquote (pct_all v) = v.
Proof.
  intros v H. destruct (unpct_pct_all v H) as [H1 H2]. unfold unquote.
  rewrite (unquote_aux_ascii _ [] H2). simpl. rewrite H1. apply dec_rep_ascii. exact H.
Qed.

Theorem print_parse_concrete : forall es,
  Forall (fun e => elem_nonempty e = true /\ elem_url_ascii e = true) es ->
  parse_xfcc (print_xfcc (map (items_of_elem pct_all) es)) = es.
Proof.
  intros es H. apply print_parse_records. eapply Forall_impl; [|exact H].
  intros [h c s u dns b] [Hn Ha]. split; [exact Hn|]. unfold elem_url_ascii in Ha. simpl in Ha.
  apply andb_true_iff in Ha as [Ha Hb]. apply andb_true_iff in Ha as [Hc Hu].
  unfold enc_ok; simpl. repeat split.
  - destruct c; [apply unquote_pct_all; exact Hc | exact I].
  - destruct u; [apply unquote_pct_all; exact Hu | exact I].
  - destruct b; [apply unquote_pct_all; exact Hb | exact I].
Qed.

(* ------------------------------------------------------------------ compositionality, selection, reasons *)
Theorem parse_compositional : forall unq a b, closed a = true ->
  parse_xfcc_with unq (a ++ c_comma :: b) = parse_xfcc_with unq a ++ parse_xfcc_with unq b.
Proof.
  intros unq a b Ha. unfold parse_xfcc_with. rewrite split_rq_cut by (try discriminate; exact Ha). apply parse_raws_app.
Qed.

Lemma parse_nil : forall unq, parse_xfcc_with unq [] = [].
Proof. reflexivity. Qed.

Lemma parse_nonnil_text : forall unq h, parse_xfcc_with unq h <> [] -> h <> [].
Proof. intros unq h H E. subst. apply H. reflexivity. Qed.

Lemma parse_raws_flat_map : forall unq raws,
  parse_raws unq raws = flat_map (fun raw => match strip raw with [] => [] | s => [parse_elem unq s] end) raws.
Proof.
  intros unq raws; induction raws as [|r raws IH]; [reflexivity|]. simpl. rewrite IH. destruct (strip r); reflexivity.
Qed.

Lemma is_missing_some : forall g (h : list N), h <> [] -> is_missing g (@Some (list N) h) = false.
Proof. intros g [|c h] H; [contradiction|]. destruct g; reflexivity. Qed.

Lemma auth_select_present : forall unq g first h, is_missing g (Some h) = false ->
  auth_select_with unq g first (Some h) =
  match select_elem first (parse_raws unq (split_rq c_comma h)) with
  | None => inl InvalidCredential
  | Some e => inr e
  end.
Proof. intros unq g first h H. unfold auth_select_with. rewrite H. reflexivity. Qed.

Theorem selected_only : forall unq g first h, is_missing g (Some h) = false ->
  authenticate_with unq g first (Some h) =
  match select_elem first
          (flat_map (fun raw => match strip raw with [] => [] | s => [parse_elem unq s] end) (split_rq c_comma h)) with
  | None => inl InvalidCredential
  | Some e => inr (default_identity e)
  end.
Proof.
  intros unq g first h H. unfold authenticate_with. rewrite auth_select_present by exact H.
  rewrite parse_raws_flat_map. destruct (select_elem first _); reflexivity.
Qed.

Lemma last_opt_app : forall (A : Type) (l1 l2 : list A), l2 <> [] -> last_opt (l1 ++ l2) = last_opt l2.
Proof.
  intros A l1 l2 H. unfold last_opt. rewrite rev_app_distr. destruct (rev l2) eqn:E; [|reflexivity].
  exfalso. apply H. apply (f_equal (@rev A)) in E. rewrite rev_involutive in E. exact E.
Qed.
Lemma hd_error_app : forall (A : Type) (l1 l2 : list A), l1 <> [] -> hd_error (l1 ++ l2) = hd_error l1.
Proof. intros A [|x l1] l2 H; [contradiction | reflexivity]. Qed.

Theorem first_ignores_suffix : forall unq g a b, closed a = true -> parse_xfcc_with unq a <> [] ->
  authenticate_with unq g true (Some (a ++ c_comma :: b)) = authenticate_with unq g true (Some a).
Proof.
  intros unq g a b Ha Hp. unfold authenticate_with, auth_select_with, str in *.
  rewrite (is_missing_some g a (parse_nonnil_text unq a Hp)).
  rewrite is_missing_some by (destruct a; discriminate).
  rewrite parse_compositional by exact Ha. unfold select_elem. rewrite hd_error_app by exact Hp. reflexivity.
Qed.

Theorem last_ignores_prefix : forall unq g a b, closed a = true -> parse_xfcc_with unq b <> [] ->
  authenticate_with unq g false (Some (a ++ c_comma :: b)) = authenticate_with unq g false (Some b).
Proof.
  intros unq g a b Ha Hp. unfold authenticate_with, auth_select_with, str in *.
  rewrite (is_missing_some g b (parse_nonnil_text unq b Hp)).
  rewrite is_missing_some by (destruct a; discriminate).
  rewrite parse_compositional by exact Ha. unfold select_elem. rewrite last_opt_app by exact Hp. reflexivity.
Qed.

Lemma select_none : forall first es, select_elem first es = None <-> es = [].
Proof.
  intros first es. unfold select_elem, last_opt. destruct first.
  - destruct es; simpl; split; intro H; try reflexivity; discriminate.
  - destruct (rev es) eqn:E.
    + split; [intros _|reflexivity]. apply (f_equal (@rev elem)) in E. rewrite rev_involutive in E. exact E.
    + split; [discriminate|]. intro H; subst; discriminate.
Qed.

Theorem reasons_any_guard : forall unq g first,
  authenticate_with unq g first None = inl ProxyRequired /\
  forall h, (g = GuardFalsy -> h <> []) -> parse_xfcc_with unq h = [] ->
            authenticate_with unq g first (Some h) = inl InvalidCredential.
Proof.
  intros unq g first. split; [destruct g; reflexivity|].
  intros h Hg Hp. unfold authenticate_with, auth_select_with, str in *.
  assert (Hm : is_missing g (Some h) = false).
  { destruct g; [apply is_missing_some; apply Hg; reflexivity | destruct h; reflexivity]. }
  rewrite Hm, Hp. destruct first; reflexivity.
Qed.

Theorem success_iff_element : forall unq g first h,
  (exists i, authenticate_with unq g first (Some h) = inr i) <-> parse_xfcc_with unq h <> [].
Proof.
  intros unq g first h. unfold authenticate_with, auth_select_with, str in *. split.
  - intros [i Hi] Hp. destruct (is_missing g (Some h)); [discriminate|]. rewrite Hp in Hi.
    destruct first; discriminate.
  - intro Hp. rewrite (is_missing_some g h (parse_nonnil_text unq h Hp)).
    destruct (select_elem first (parse_xfcc_with unq h)) eqn:E.
    + eexists; reflexivity.
    + apply select_none in E. contradiction.
Qed.

Lemma parse_nil_iff_blank : forall unq h,
  parse_xfcc_with unq h = [] <-> Forall (fun raw => strip raw = []) (split_rq c_comma h).
Proof.
  intros unq h. unfold parse_xfcc_with. induction (split_rq c_comma h) as [|r l IH]; simpl.
  - split; [constructor | reflexivity].
  - destruct (strip r) eqn:E.
    + rewrite IH. split; [intro H; constructor; assumption | intro H; inversion H; assumption].
    + split; [discriminate | intro H; inversion H as [|? ? H1 H2]; rewrite E in H1; discriminate].
Qed.
