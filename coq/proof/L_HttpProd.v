(* L_HttpProd: proofs about the turn-by-turn HTTP producer model (C11). *)
From Coq Require Import List NArith ZArith Bool Lia Arith.
From VGI Require Import Bytes Layout Corr M_Wire L_Wire L_WireHttp M_HttpProd.
Import ListNotations.
Open Scope N_scope.

Local Opaque err_event finish_refused no_data_batch empty_batch.

(* ------------------------------------------------------------------ logs in front of a frame list *)
Fixpoint logs_go (c : cb) (ls : list logmsg) : bool :=
  match ls with [] => true | m :: r => snd (log_event c m) && logs_go c r end.
Fixpoint log_events (c : cb) (ls : list logmsg) : list event :=
  match ls with [] => [] | m :: r => fst (log_event c m) :: (if snd (log_event c m) then log_events c r else []) end.

Lemma deliver_split c ls k : deliver c ls k = if logs_go c ls then log_events c ls ++ k else log_events c ls.
Proof.
  induction ls as [|m r IH]; [reflexivity|]. cbn [deliver logs_go log_events].
  destruct (log_event c m) as [e go]. cbn [fst snd]. destruct go; cbn [andb]; [|reflexivity].
  rewrite IH. destruct (logs_go c r); reflexivity.
Qed.

Lemma consume_split c ls q :
  consume_turn c (map FLog ls ++ q) =
  if logs_go c ls then (log_events c ls ++ fst (consume_turn c q), snd (consume_turn c q)) else (log_events c ls, false).
Proof.
  induction ls as [|m r IH].
  - cbn. destruct (consume_turn c q); reflexivity.
  - cbn [map app consume_turn logs_go log_events]. destruct (log_event c m) as [e go]. cbn [fst snd].
    destruct go; cbn [andb]; [|reflexivity]. rewrite IH. destruct (logs_go c r); reflexivity.
Qed.

Lemma batches_of_app a b : batches_of (a ++ b) = batches_of a ++ batches_of b.
Proof. unfold batches_of. apply flat_map_app. Qed.

Lemma batches_of_map l : batches_of (map EBatch l) = l.
Proof. induction l as [|b r IH]; [reflexivity|]. cbn. f_equal. exact IH. Qed.

Lemma log_event_no_batch c m : batches_of [fst (log_event c m)] = [].
Proof. unfold log_event. destruct (lvl m); destruct c; reflexivity. Qed.

Lemma batches_log_events c ls : batches_of (log_events c ls) = [].
Proof.
  induction ls as [|m r IH]; [reflexivity|]. cbn [log_events].
  change (fst (log_event c m) :: ?x) with ([fst (log_event c m)] ++ x).
  rewrite batches_of_app, log_event_no_batch. destruct (snd (log_event c m)); [exact IH|reflexivity].
Qed.

(* ------------------------------------------------------------------ one turn against the reference *)
Lemma skipn_succ_cons {A} (x : A) r i j : (i < j)%nat -> skipn (j - i) (x :: r) = skipn (j - S i) r.
Proof. intro H. replace (j - i)%nat with (S (j - S i)) by lia. reflexivity. Qed.

Lemma turn_obs fsz go c : forall sts i z gs t es alive,
  turn_groups fsz go sts i z = (gs, t) -> consume_turn c (concat gs) = (es, alive) ->
  (alive = false -> obs_prod c sts None = es) /\
  (alive = true -> match t with
                   | Some j => (i < j <= i + length sts)%nat /\ obs_prod c sts None = es ++ obs_prod c (skipn (j - i) sts) None
                   | None => obs_prod c sts None = es ++ [EDone]
                   end).
Proof.
  induction sts as [|x r IH]; intros i z gs t es alive Ht Hc.
  - cbn in Ht. inversion Ht; subst. cbn in Hc. inversion Hc; subst. split; [discriminate|]. reflexivity.
  - cbn [turn_groups] in Ht. cbn [obs_prod is_zero opred option_map]. rewrite (exec_prod x) in *.
    destruct (sraise x) as [e|].
    { inversion Ht; subst. cbn in Hc. inversion Hc; subst. split; [reflexivity|discriminate]. }
    destruct (fin x).
    { inversion Ht; subst. cbn [concat] in Hc. rewrite app_nil_r in Hc. rewrite consume_split in Hc.
      rewrite deliver_split. destruct (logs_go c (slogs x)).
      - destruct (emit x) as [b|]; cbn in Hc; inversion Hc; subst; split; try discriminate; intros _;
          cbn [opred option_map is_zero]; rewrite <- ?app_assoc; reflexivity.
      - inversion Hc; subst. split; [reflexivity|discriminate]. }
    destruct (emit x) as [b|].
    2:{ inversion Ht; subst. cbn in Hc. inversion Hc; subst. split; [reflexivity|discriminate]. }
    rewrite deliver_split.
    destruct (go (fold_left (fun a f => a + fsz f) (map FLog (slogs x) ++ [FData b]) z)).
    + destruct (turn_groups fsz go r (S i) _) as [gs' t'] eqn:E. inversion Ht; subst. clear Ht.
      cbn [concat] in Hc. rewrite <- app_assoc in Hc. rewrite consume_split in Hc.
      destruct (logs_go c (slogs x)).
      * cbn [app consume_turn] in Hc. destruct (consume_turn c (concat gs')) as [es' al'] eqn:E'.
        cbn [fst snd] in Hc. inversion Hc; subst. clear Hc.
        destruct (IH _ _ _ _ _ _ E E') as [IH1 IH2]. split.
        -- intro Ha. rewrite (IH1 Ha). reflexivity.
        -- intro Ha. specialize (IH2 Ha). destruct t as [j|].
           ++ destruct IH2 as [Hj Ho]. split; [cbn [length]; lia|].
              rewrite (skipn_succ_cons x r i j) by lia. rewrite Ho. rewrite <- app_assoc. reflexivity.
           ++ rewrite IH2. rewrite <- app_assoc. reflexivity.
      * inversion Hc; subst. split; [reflexivity|discriminate].
    + inversion Ht; subst. clear Ht. cbn [concat] in Hc. rewrite app_nil_r in Hc. rewrite consume_split in Hc.
      destruct (logs_go c (slogs x)).
      * cbn in Hc. inversion Hc; subst. split; [discriminate|]. intros _. split; [cbn [length]; lia|].
        replace (S i - i)%nat with 1%nat by lia. cbn [skipn]. rewrite <- app_assoc. reflexivity.
      * inversion Hc; subst. split; [reflexivity|discriminate].
Qed.

Lemma turn_tok_bound fsz go : forall sts i z gs j, turn_groups fsz go sts i z = (gs, Some j) -> (i < j <= i + length sts)%nat.
Proof.
  induction sts as [|x r IH]; intros i z gs j H; cbn [turn_groups] in H; [inversion H|].
  destruct (exec_step true (Some x)) as [fs [|]|e]; try (inversion H; fail).
  destruct (go _).
  - destruct (turn_groups fsz go r (S i) _) as [gs' t'] eqn:E. inversion H; subst. apply IH in E. cbn [length]. lia.
  - inversion H; subst. cbn [length]. lia.
Qed.

Lemma turn_groups_ext fsz go go' : (forall z, go z = go' z) -> forall sts i z, turn_groups fsz go sts i z = turn_groups fsz go' sts i z.
Proof.
  intro H. induction sts as [|x r IH]; intros i z; [reflexivity|]. cbn [turn_groups].
  destruct (exec_step true (Some x)) as [fs [|]|e]; try reflexivity. rewrite H, IH. reflexivity.
Qed.

(* ------------------------------------------------------------------ the turns, concatenated, are the wire core's frames *)
Lemma go_keep cfg z : go_of cfg (fun z => z) z = keep_going cfg z.
Proof. unfold go_of, keep_going. destruct (cap cfg); reflexivity. Qed.

Lemma turns_flat cfg : forall sts i z,
  http_frames cfg sts i z =
  let '(gs, t) := turn_groups (fsize cfg) (keep_going cfg) sts i z in
  concat gs ++ match t with Some j => FToken j :: http_frames cfg (skipn (j - i) sts) j (base cfg) | None => [] end.
Proof.
  induction sts as [|x r IH]; intros i z; [reflexivity|]. cbn [http_frames turn_groups].
  destruct (exec_step true (Some x)) as [fs [|]|e]; try (cbn; rewrite ?app_nil_r; reflexivity).
  unfold add_sizes. destruct (keep_going cfg _) eqn:K.
  - rewrite IH. destruct (turn_groups (fsize cfg) (keep_going cfg) r (S i) _) as [gs' t'] eqn:E.
    cbn [concat]. rewrite <- app_assoc. destruct t' as [j|]; [|reflexivity].
    apply turn_tok_bound in E. rewrite (skipn_succ_cons x r i j) by lia. reflexivity.
  - cbn [concat]. rewrite app_nil_r. replace (S i - i)%nat with 1%nat by lia. reflexivity.
Qed.

(* ------------------------------------------------------------------ caches *)
Definition cache_ok (cid : N) (cp : option N) (c : list (N * option N)) : Prop := forall v, In (cid, v) c -> v = cp.

Lemma cache_find_in cid : forall c v, cache_find cid c = Some v -> In (cid, v) c.
Proof.
  induction c as [|[k v'] r IH]; intros v H; [discriminate|]. cbn in H.
  destruct (k =? cid) eqn:E.
  - apply N.eqb_eq in E. inversion H; subst. left. reflexivity.
  - right. apply IH. exact H.
Qed.

Lemma in_firstn {A} (x : A) : forall n l, In x (firstn n l) -> In x l.
Proof. induction n as [|n IH]; intros [|y l] H; cbn in *; try contradiction. destruct H as [H|H]; [left; exact H|right; apply IH; exact H]. Qed.

Lemma cache_del_not_in cid v c : ~ In (cid, v) (cache_del cid c).
Proof. unfold cache_del. intro H. apply filter_In in H as [_ H]. cbn in H. rewrite N.eqb_refl in H. discriminate. Qed.

Lemma cache_ok_touch cid cp c : cache_ok cid cp (cache_touch cid cp c).
Proof. intros v [H|H]; [inversion H; reflexivity|]. exfalso. exact (cache_del_not_in _ _ _ H). Qed.

Lemma cache_ok_put n cid cp c : cache_ok cid cp (cache_put n cid cp c).
Proof. intros v H. apply in_firstn in H. exact (cache_ok_touch cid cp c v H). Qed.

Lemma cache_ok_nil cid cp : cache_ok cid cp [].
Proof. intros v []. Qed.

(* a worker that shares the key and whose cache, if it knows this call at all, knows it correctly *)
Definition worker_ok (key cid : N) (cp : option N) (w : worker) : Prop := w_key w = key /\ cache_ok cid cp (w_cache w).
Definition same_conf (w w' : worker) : Prop := w_key w' = w_key w /\ w_cfg w' = w_cfg w /\ w_lag w' = w_lag w /\ w_ents w' = w_ents w.

Lemma resolve_ok key cid cp w ct k :
  worker_ok key cid cp w -> ct_key ct = key -> ct_cid ct = cid ->
  kt_key k = key -> kt_cid k = cid -> kt_pid k = cp ->
  exists w', resolve w ct (Some k) = inr (cp, w') /\ same_conf w w' /\ worker_ok key cid cp w'.
Proof.
  intros [Hk Hc] Hck Hcc Hkk Hkc Hkp. unfold resolve. rewrite Hck, Hk, N.eqb_refl. cbn [negb]. rewrite Hcc.
  destruct (cache_find cid (w_cache w)) as [v|] eqn:E.
  - apply cache_find_in in E. apply Hc in E. subst v. eexists. split; [reflexivity|]. split; [repeat split|].
    split; [exact Hk|]. cbn. apply cache_ok_touch.
  - rewrite Hkk, N.eqb_refl, Hkc, N.eqb_refl. cbn [negb]. rewrite Hkp. eexists. split; [reflexivity|]. split; [repeat split|].
    split; [exact Hk|]. cbn. apply cache_ok_put.
Qed.

(* ------------------------------------------------------------------ following continuation tokens *)
Section World.
  Variable progs : N -> stream_prog.

  Definition mkct (key cid : N) (curpid : option N) (i : nat) : ctok := {| ct_key := key; ct_cid := cid; ct_pid := curpid; ct_i := i |}.
  Definition mkkt (key cid : N) (cp : option N) : ktok := {| kt_key := key; kt_cid := cid; kt_pid := cp |}.
  Definition the_pid (curpid cp : option N) : N := match curpid with Some p => p | None => match cp with Some p => p | None => 0 end end.

  Lemma skipn_skipn' {A} (l : list A) a b : skipn a (skipn b l) = skipn (a + b) l.
  Proof. revert l. induction b as [|b IH]; intro l; [rewrite Nat.add_0_r; reflexivity|]. destruct l; [rewrite !skipn_nil; reflexivity|]. rewrite Nat.add_succ_r. cbn [skipn]. apply IH. Qed.

  Lemma follow_obs key cid curpid cp c : forall fuel w i,
    worker_ok key cid cp w ->
    (length (skipn i (steps (progs (the_pid curpid cp)))) < fuel)%nat ->
    fst (fst (follow progs fuel c w (mkct key cid curpid i) (Some (mkkt key cid cp))))
    = obs_prod c (skipn i (steps (progs (the_pid curpid cp)))) None.
  Proof.
    induction fuel as [|f IH]; intros w i Hw Hf; [lia|].
    cbn [follow]. unfold exch.
    destruct (resolve_ok key cid cp w (mkct key cid curpid i) (mkkt key cid cp) Hw eq_refl eq_refl eq_refl eq_refl eq_refl)
      as [w' [Hr [[Hk' [Hc' [Hl' He']]] Hw']]].
    rewrite Hr. cbn [ct_i ct_pid ct_cid mkct]. unfold eff_pid. cbn [ct_pid mkct]. fold (the_pid curpid cp).
    set (sts := skipn i (steps (progs (the_pid curpid cp)))) in *.
    destruct (turn_groups (fsize (w_cfg w)) (go_of (w_cfg w) (w_lag w)) sts i (base (w_cfg w))) as [gs t] eqn:E.
    destruct (consume_turn c (concat gs)) as [es alive] eqn:E'.
    destruct (turn_obs _ _ c _ _ _ _ _ _ _ E E') as [H1 H2].
    destruct alive.
    - specialize (H2 eq_refl). destruct t as [j|]; cbn [option_map].
      + destruct H2 as [Hj Ho].
        assert (Hkw : w_key w = key) by (destruct Hw; assumption).
        rewrite Hkw. change {| ct_key := key; ct_cid := cid; ct_pid := curpid; ct_i := j |} with (mkct key cid curpid j).
        specialize (IH w' j Hw').
        assert (Hs : skipn (j - i) sts = skipn j (steps (progs (the_pid curpid cp)))).
        { unfold sts. rewrite skipn_skipn'. f_equal. lia. }
        rewrite <- Hs in IH.
        assert (Hlen : (length (skipn (j - i) sts) < f)%nat).
        { rewrite skipn_length. lia. }
        specialize (IH Hlen).
        destruct (follow progs f c w' (mkct key cid curpid j) (Some (mkkt key cid cp))) as [[es' tr] w''].
        cbn [fst] in *. rewrite IH, Ho. reflexivity.
      + cbn [fst]. rewrite H2. reflexivity.
    - cbn [fst]. rewrite (H1 eq_refl). reflexivity.
  Qed.

  (* ---------------------------------------------------------------- the first response *)
  Lemma parse_consume c : forall fs pend es pend',
    parse_init c fs pend = (es, Some pend') ->
    exists es2, consume_turn c fs = (es2, true) /\ pend' = pend ++ batches_of es2 /\ batches_of es = [].
  Proof.
    induction fs as [|f r IH]; intros pend es pend' H.
    - cbn in H. inversion H; subst. exists []. rewrite app_nil_r. repeat split.
    - cbn [parse_init] in H. cbn [consume_turn]. destruct f as [m|b|e|v|t|].
      + destruct (log_event c m) as [ev go] eqn:E. destruct go; [|inversion H].
        destruct (parse_init c r pend) as [es' o'] eqn:E'. inversion H; subst.
        destruct (IH _ _ _ E') as [es2 [H1 [H2 H3]]]. rewrite H1. exists (ev :: es2). split; [reflexivity|].
        assert (Hev : batches_of [ev] = []). { replace ev with (fst (log_event c m)) by (rewrite E; reflexivity). apply log_event_no_batch. }
        split.
        * change (ev :: es2) with ([ev] ++ es2). rewrite batches_of_app, Hev. exact H2.
        * change (ev :: es') with ([ev] ++ es'). rewrite batches_of_app, Hev. exact H3.
      + destruct (IH _ _ _ H) as [es2 [H1 [H2 H3]]]. rewrite H1. exists (EBatch b :: es2). split; [reflexivity|].
        split; [|exact H3]. rewrite H2. cbn. rewrite <- app_assoc. reflexivity.
      + inversion H.
      + destruct (IH _ _ _ H) as [es2 [H1 [H2 H3]]]. exists es2. repeat split; assumption.
      + destruct (IH _ _ _ H) as [es2 [H1 [H2 H3]]]. exists es2. repeat split; assumption.
      + destruct (IH _ _ _ H) as [es2 [H1 [H2 H3]]]. exists es2. repeat split; assumption.
  Qed.

  Definition callpid_of (sh : shape) (pid : N) : option N := match sh with ShPlain => None | _ => Some pid end.
  Definition curpid_of (sh : shape) (pid : N) : option N := match sh with ShPlain => Some pid | _ => None end.
  Lemma the_pid_shape sh pid : the_pid (curpid_of sh pid) (callpid_of sh pid) = pid.
  Proof. destruct sh; reflexivity. Qed.

  (* iterating a freshly opened stream: the batches are those of the reference semantics, whatever the worker's
     cap / sizes / codec lag / cache -- provided the first response carries no error (the session is returned) *)
  Lemma iterate_batches c w sh pid cid fuel :
    first_ok progs c w sh pid cid = true -> (length (steps (progs pid)) < fuel)%nat ->
    batches_of (fst (fst (iterate progs fuel c w sh pid cid))) = batches_of (obs_prod c (steps (progs pid)) None).
  Proof.
    unfold first_ok, iterate, init. intros Hok Hf.
    destruct (ires (progs pid)) as [|e|]; cbn [fst] in Hok; try discriminate.
    set (z0 := frames_size _ _ _) in *.
    destruct (turn_groups (fsize (w_cfg w)) (go_of (w_cfg w) (fun z => z)) (steps (progs pid)) 0 z0) as [gs t] eqn:E.
    cbn [fst] in Hok. cbn [concat] in *.
    destruct (parse_init c (map FLog (ilogs (progs pid)) ++ concat gs) []) as [es o] eqn:EP.
    cbn [snd] in Hok. destruct o as [pend|]; [|discriminate]. clear Hok.
    destruct (parse_consume c _ _ _ _ EP) as [es2 [H1 [H2 H3]]]. cbn [app] in H2.
    rewrite consume_split in H1. destruct (logs_go c (ilogs (progs pid))); [|discriminate].
    destruct (consume_turn c (concat gs)) as [es3 al3] eqn:E3. cbn [fst snd] in H1. inversion H1; subst es2 al3. clear H1.
    destruct (turn_obs _ _ c _ _ _ _ _ _ _ E E3) as [_ Hobs]. specialize (Hobs eq_refl).
    rewrite batches_of_app, batches_log_events in H2. cbn [app] in H2.
    destruct t as [j|]; cbn [option_map].
    - destruct Hobs as [Hj Ho]. rewrite Nat.sub_0_r in Ho.
      assert (HF : forall w1, worker_ok (w_key w) cid (callpid_of sh pid) w1 ->
                fst (fst (follow progs fuel c w1 (mkct (w_key w) cid (curpid_of sh pid) j) (Some (mkkt (w_key w) cid (callpid_of sh pid)))))
                = obs_prod c (skipn j (steps (progs pid))) None).
      { intros w1 Hw1. pose proof (follow_obs (w_key w) cid (curpid_of sh pid) (callpid_of sh pid) c fuel w1 j Hw1) as HF.
        rewrite the_pid_shape in HF. apply HF. rewrite skipn_length. lia. }
      destruct sh; cbn [callpid_of curpid_of] in HF; unfold mkct, mkkt in HF;
        (match goal with |- context [follow progs fuel c ?w1 ?a ?b] =>
           specialize (HF w1 (conj eq_refl (cache_ok_put _ _ _ _))); destruct (follow progs fuel c w1 a b) as [[es' tr] w'']
         end);
        cbn [fst] in *; rewrite !batches_of_app, batches_of_map, H3, H2, Ho, batches_of_app, HF; reflexivity.
    - cbn [fst]. rewrite !batches_of_app, batches_of_map, H3, H2, Hobs, batches_of_app. reflexivity.
  Qed.
End World.

(* ------------------------------------------------------------------ overshoot *)
Lemma frames_size_shift fsz : forall l a, frames_size fsz a l = a + frames_size fsz 0 l.
Proof.
  unfold frames_size. induction l as [|f r IH]; intro a; cbn [fold_left]; [lia|].
  rewrite IH, (IH (0 + fsz f)). lia.
Qed.

Lemma frames_size_app fsz a l1 l2 : frames_size fsz a (l1 ++ l2) = frames_size fsz (frames_size fsz a l1) l2.
Proof. apply fold_left_app. Qed.

Lemma single_not_snoc {A} (g : A) pre last : [g] = pre ++ [last] -> pre = [].
Proof. destruct pre as [|p pre]; [reflexivity|]. intro H. inversion H. destruct pre; discriminate. Qed.

Lemma overshoot_pre fsz cfg lag c : (forall z, lag z = z) -> cap cfg = Some c ->
  forall sts i z pre last t,
  turn_groups fsz (go_of cfg lag) sts i z = (pre ++ [last], t) -> pre <> [] -> frames_size fsz z (concat pre) < c.
Proof.
  intros Hlag Hcap. induction sts as [|x r IH]; intros i z pre last t H Hne; cbn [turn_groups] in H.
  - inversion H. destruct pre; discriminate.
  - destruct (exec_step true (Some x)) as [fs [|]|e];
      try (inversion H as [[H1 H2]]; apply single_not_snoc in H1; contradiction).
    destruct (go_of cfg lag _) eqn:G.
    + destruct (turn_groups fsz (go_of cfg lag) r (S i) _) as [gs' t'] eqn:E. inversion H as [[H1 H2]]. subst t'.
      destruct pre as [|p pre']; [contradiction|]. inversion H1; subst p gs'. clear H1 H.
      destruct pre' as [|q pre''].
      * cbn [concat]. rewrite app_nil_r. unfold go_of in G. rewrite Hcap in G. cbn in G. rewrite Hlag in G.
        apply N.ltb_lt in G. exact G.
      * cbn [concat]. rewrite frames_size_app. apply (IH _ _ _ _ _ E). discriminate.
    + inversion H as [[H1 H2]]. apply single_not_snoc in H1. contradiction.
Qed.

Lemma overshoot_body fsz cfg lag c sts i z pre last t :
  (forall z, lag z = z) -> cap cfg = Some c ->
  turn_groups fsz (go_of cfg lag) sts i z = (pre ++ [last], t) -> pre <> [] ->
  frames_size fsz z (concat (pre ++ [last])) < c + group_size fsz last.
Proof.
  intros Hlag Hcap H Hne. pose proof (overshoot_pre fsz cfg lag c Hlag Hcap _ _ _ _ _ _ H Hne) as Hp.
  rewrite concat_app, frames_size_app. cbn [concat]. rewrite app_nil_r. rewrite frames_size_shift. unfold group_size. lia.
Qed.

(* ------------------------------------------------------------------ resume-token bytes *)
Lemma resume_roundtrip st call b :
  enc_resume st call = Some b ->
  dec_resume b = Some (st, match call with Some [] => None | x => x end).
Proof.
  unfold enc_resume, dec_resume. intro H. rewrite (dec_enc resume_layout _ _ eq_refl H).
  destruct call as [[|x c]|]; reflexivity.
Qed.

Lemma resume_encodes st call :
  bytes_ok st = true -> bytes_ok (match call with Some c => c | None => [] end) = true -> N.of_nat (length st) < 4294967296 ->
  exists b, enc_resume st call = Some b.
Proof.
  intros H1 H2 H3. unfold enc_resume, resume_layout. cbn [enc enc_field].
  assert (Hw : wmax W32 = 4294967296) by reflexivity. rewrite Hw.
  apply N.ltb_lt in H3. rewrite H3, H1. cbn [andb enc enc_field]. rewrite H2. eexists. reflexivity.
Qed.

(* ------------------------------------------------------------------ next_with_token and resumption *)
Section Resume.
  Variable progs : N -> stream_prog.

  Lemma go_none cfg lag : cap cfg = None -> forall z, go_of cfg lag z = false.
  Proof. intros H z. unfold go_of. rewrite H. reflexivity. Qed.

  Lemma turn_groups_nogo fsz go sts i z : (forall z, go z = false) ->
    turn_groups fsz go sts i z =
    match sts with
    | [] => ([], None)
    | x :: r => match exec_step true (Some x) with
                | SErr e => ([[FErr e]], None)
                | SFrames fs true => ([fs], None)
                | SFrames fs false => ([fs], Some (S i))
                end
    end.
  Proof. intro H. destruct sts as [|x r]; [reflexivity|]. cbn [turn_groups]. destruct (exec_step true (Some x)) as [fs [|]|e]; try reflexivity. rewrite H. reflexivity. Qed.

  Lemma nwt_scan_logs : forall ls q seen,
    (logs_go CbRecord ls = true -> nwt_scan (map FLog ls ++ q) seen = nwt_scan q seen) /\
    (logs_go CbRecord ls = false -> exists e, nwt_scan (map FLog ls ++ q) seen = inl (Some e)).
  Proof.
    induction ls as [|m r IH]; intros q seen; cbn [logs_go map app nwt_scan].
    - split; [reflexivity|discriminate].
    - destruct (log_event CbRecord m) as [e go]. cbn [snd]. destruct go; cbn [andb].
      + apply IH.
      + split; [discriminate|]. intros _. exists e. reflexivity.
  Qed.

  (* the first n steps each emit one batch, do not finish, do not raise, and their logs are dispatched *)
  Fixpoint good_prefix (sts : list step) (n : nat) {struct n} : option (list batch) :=
    match n with
    | O => Some []
    | S n' =>
        match sts with
        | [] => None
        | x :: r =>
            match sraise x, fin x, emit x, logs_go CbRecord (slogs x) with
            | None, false, Some b, true => option_map (cons b) (good_prefix r n')
            | _, _, _, _ => None
            end
        end
    end.

  Lemma good_obs : forall n sts bs, good_prefix sts n = Some bs ->
    emitted sts = bs ++ emitted (skipn n sts).
  Proof.
    unfold emitted. induction n as [|n IH]; intros sts bs H; cbn [good_prefix] in H.
    - inversion H; subst. reflexivity.
    - destruct sts as [|x r]; [discriminate|].
      destruct (sraise x) eqn:E1; [discriminate|]. destruct (fin x) eqn:E2; [discriminate|].
      destruct (emit x) as [b|] eqn:E3; [|discriminate]. destruct (logs_go CbRecord (slogs x)) eqn:E4; [|discriminate].
      destruct (good_prefix r n) as [bs'|] eqn:E5; [|discriminate]. cbn in H. inversion H; subst bs.
      cbn [obs_prod is_zero opred option_map skipn]. rewrite (exec_prod x), E1, E2, E3. rewrite deliver_split, E4.
      rewrite batches_of_app, batches_log_events. cbn [app]. change (EBatch b :: ?t) with ([EBatch b] ++ t).
      rewrite batches_of_app. cbn [batches_of flat_map app]. rewrite (IH _ _ E5). reflexivity.
  Qed.

  Lemma nth_single {A} (x : A) k y : nth_error [x] k = Some y -> k = O /\ y = x.
  Proof. destruct k as [|k]; cbn; intro H; [inversion H; split; reflexivity|destruct k; discriminate]. Qed.

  Lemma dead_no_token : forall fuel w ss rs w2,
    s_ct ss = None -> (length (s_pend ss) <= 1)%nat -> nwt_all progs fuel w ss = (rs, w2) ->
    forall k b tok, nth_error rs k <> Some (NItem b (Some tok)).
  Proof.
    induction fuel as [|f IH]; intros w ss rs w2 Hct Hp H k b tok; cbn [nwt_all] in H.
    - inversion H. destruct k; discriminate.
    - unfold nwt in H. destruct (s_pend ss) as [|b0 [|b1 rest]] eqn:EP.
      + rewrite Hct in H. destruct (s_fin ss); inversion H; intro Hn; apply nth_single in Hn as [_ Hn]; discriminate.
      + unfold resume_tok in H. cbn [s_ct] in H. rewrite Hct in H.
        destruct (nwt_all progs f w _) as [rs' w'] eqn:E. inversion H; subst rs w2.
        destruct k as [|k]; cbn [nth_error]; [discriminate|].
        refine (IH _ _ _ _ _ _ E _ _ _); [reflexivity|cbn; lia].
      + cbn [length] in Hp. lia.
  Qed.

  Variables (key cid : N) (curpid cp : option N).
  Let pid := the_pid curpid cp.
  Let kt := mkkt key cid cp.

  Lemma skipn_cons_next {A} (l : list A) i x r : skipn i l = x :: r -> skipn (S i) l = r.
  Proof. revert l. induction i as [|i IH]; intros l H; cbn in *; [subst; reflexivity|]. destruct l; [discriminate|]. apply IH. exact H. Qed.

  (* a session positioned at cursor i with nothing pending, on an uncapped worker *)
  Lemma nwt_from : forall fuel i w ss rs w2 k b tok,
    cap (w_cfg w) = None -> worker_ok key cid cp w ->
    s_pend ss = [] -> s_fin ss = false -> s_ct ss = Some (mkct key cid curpid i) -> s_kt ss = Some kt ->
    nwt_all progs fuel w ss = (rs, w2) -> nth_error rs k = Some (NItem b (Some tok)) ->
    tok = (mkct key cid curpid (i + S k), Some kt) /\
    exists bs, good_prefix (skipn i (steps (progs pid))) (S k) = Some bs /\ items_batches (firstn (S k) rs) = bs.
  Proof.
    induction fuel as [|f IH]; intros i w ss rs w2 k b tok Hcap Hw Hp Hfin Hct Hkt H Hn; cbn [nwt_all] in H.
    { inversion H; subst. destruct k; discriminate. }
    unfold nwt in H. rewrite Hp, Hfin, Hct, Hkt in H. unfold exch in H.
    destruct (resolve_ok key cid cp w (mkct key cid curpid i) kt Hw eq_refl eq_refl eq_refl eq_refl eq_refl)
      as [w' [Hr [[Hk' [Hc' [Hl' He']]] Hw']]].
    rewrite Hr in H. unfold eff_pid in H. cbn [ct_i ct_pid ct_cid mkct] in H. fold (the_pid curpid cp) in H. fold pid in H.
    rewrite (turn_groups_nogo _ _ _ _ _ (go_none _ _ Hcap)) in H.
    destruct (skipn i (steps (progs pid))) as [|x r] eqn:ES.
    { cbn in H. inversion H; subst. apply nth_single in Hn as [_ Hn]. discriminate. }
    rewrite (exec_prod x) in H.
    destruct (sraise x) as [e|] eqn:E1.
    { cbn in H. inversion H; subst. apply nth_single in Hn as [_ Hn]. discriminate. }
    destruct (fin x) eqn:E2.
    { (* finishing step: at most an item without token *)
      cbn [concat] in H. rewrite app_nil_r in H.
      destruct (nwt_scan_logs (slogs x) (data_frames (emit x)) None) as [S1 S2].
      destruct (logs_go CbRecord (slogs x)).
      - rewrite (S1 eq_refl) in H. destruct (emit x) as [b0|]; cbn in H.
        + destruct (nwt_all progs f w' _) as [rs' w''] eqn:E. inversion H; subst rs w2.
          destruct k as [|k]; cbn [nth_error] in Hn; [discriminate|].
          exfalso. refine (dead_no_token _ _ _ _ _ _ _ E _ _ _ Hn); [reflexivity|cbn; lia].
        + inversion H; subst. apply nth_single in Hn as [_ Hn]. discriminate.
      - destruct (S2 eq_refl) as [e He]. rewrite He in H. inversion H; subst. apply nth_single in Hn as [_ Hn]. discriminate. }
    destruct (emit x) as [b0|] eqn:E3.
    2:{ cbn in H. inversion H; subst. apply nth_single in Hn as [_ Hn]. discriminate. }
    cbn [concat] in H. rewrite app_nil_r in H.
    destruct (nwt_scan_logs (slogs x) [FData b0] None) as [S1 S2].
    destruct (logs_go CbRecord (slogs x)) eqn:E4.
    2:{ destruct (S2 eq_refl) as [e He]. rewrite He in H. inversion H; subst. apply nth_single in Hn as [_ Hn]. discriminate. }
    rewrite (S1 eq_refl) in H. cbn [nwt_scan option_map] in H.
    assert (Hkw : w_key w = key) by (destruct Hw; assumption). rewrite Hkw in H.
    change {| ct_key := key; ct_cid := cid; ct_pid := curpid; ct_i := S i |} with (mkct key cid curpid (S i)) in H.
    match type of H with context [nwt_all progs f w' ?s] => destruct (nwt_all progs f w' s) as [rs' w''] eqn:E end.
    unfold resume_tok in H. cbn [s_ct s_kt] in H. inversion H; subst rs w2. clear H.
    assert (Hcap' : cap (w_cfg w') = None) by (rewrite Hc'; exact Hcap).
    destruct k as [|k]; cbn [nth_error] in Hn.
    - inversion Hn as [[Hb Ht]]. clear Hn. subst b tok. split; [rewrite Nat.add_1_r; reflexivity|].
      exists [b0]. cbn [good_prefix]. rewrite E1, E2, E3, E4. split; reflexivity.
    - destruct (IH (S i) w' {| s_pend := []; s_fin := false; s_ct := Some (mkct key cid curpid (S i)); s_kt := Some kt |}
                 rs' w'' k b tok Hcap' Hw' eq_refl eq_refl eq_refl eq_refl E Hn) as [Ht [bs [Hg Hi]]].
      split; [rewrite Ht; f_equal; f_equal; lia|].
      exists (b0 :: bs). split.
      + change (good_prefix (x :: r) (S (S k))) with
          (match sraise x, fin x, emit x, logs_go CbRecord (slogs x) with
           | None, false, Some b1, true => option_map (cons b1) (good_prefix r (S k)) | _, _, _, _ => None end).
        rewrite E1, E2, E3, E4. rewrite (skipn_cons_next _ _ _ _ ES) in Hg. rewrite Hg. reflexivity.
      + cbn [firstn items_batches flat_map app] in *. rewrite Hi. reflexivity.
  Qed.
End Resume.

Section ResumeMain.
  Variable progs : N -> stream_prog.

  Lemma parse_split c ls q pend :
    parse_init c (map FLog ls ++ q) pend =
    if logs_go c ls then (log_events c ls ++ fst (parse_init c q pend), snd (parse_init c q pend)) else (log_events c ls, None).
  Proof.
    induction ls as [|m r IH].
    - cbn. destruct (parse_init c q pend); reflexivity.
    - cbn [map app parse_init logs_go log_events]. destruct (log_event c m) as [e go]. cbn [fst snd].
      destruct go; cbn [andb]; [|reflexivity]. rewrite IH. destruct (logs_go c r); reflexivity.
  Qed.

  Theorem resume_remaining : forall w0 sh pid cid ss w1 fuel rs w2 k b tok,
    cap (w_cfg w0) = None ->
    open_sess progs w0 sh pid cid = inr (ss, w1) ->
    nwt_all progs fuel w1 ss = (rs, w2) ->
    nth_error rs k = Some (NItem b (Some tok)) ->
    tok = (mkct (w_key w0) cid (curpid_of sh pid) (S k), Some (mkkt (w_key w0) cid (callpid_of sh pid))) /\
    emitted (steps (progs pid)) = items_batches (firstn (S k) rs) ++ emitted (skipn (S k) (steps (progs pid))) /\
    forall w' c fuel', w_key w' = w_key w0 -> cache_ok cid (callpid_of sh pid) (w_cache w') ->
      (length (steps (progs pid)) < fuel')%nat ->
      fst (fst (resume_iter progs fuel' c w' tok)) = obs_prod c (skipn (S k) (steps (progs pid))) None.
  Proof.
    intros w0 sh pid cid ss w1 fuel rs w2 k b tok Hcap Hopen Hall Hn.
    assert (Hmain : tok = (mkct (w_key w0) cid (curpid_of sh pid) (S k), Some (mkkt (w_key w0) cid (callpid_of sh pid))) /\
                    exists bs, good_prefix (steps (progs pid)) (S k) = Some bs /\ items_batches (firstn (S k) rs) = bs).
    { unfold open_sess, init in Hopen.
      destruct (ires (progs pid)); try discriminate.
      rewrite (turn_groups_nogo _ _ _ _ _ (go_none _ _ Hcap)) in Hopen.
      set (w1' := set_cache w0 _) in *.
      assert (Hw1 : worker_ok (w_key w0) cid (callpid_of sh pid) w1').
      { split; [reflexivity|]. cbn. unfold callpid_of. destruct sh; apply cache_ok_put. }
      assert (Hcap1 : cap (w_cfg w1') = None) by exact Hcap.
      destruct (steps (progs pid)) as [|x r] eqn:ES.
      { (* no steps: finished at once *)
        cbn [concat] in Hopen. rewrite app_nil_r in Hopen. rewrite <- (app_nil_r (map FLog _)) in Hopen. rewrite parse_split in Hopen.
        destruct (logs_go CbRecord (ilogs (progs pid))); cbn in Hopen; [|discriminate].
        inversion Hopen; subst ss w1. exfalso.
        refine (dead_no_token progs _ _ _ _ _ _ _ Hall _ _ _ Hn); [reflexivity|cbn; lia]. }
      rewrite (exec_prod x) in Hopen.
      destruct (sraise x) as [e|] eqn:E1.
      { cbn [concat] in Hopen. rewrite parse_split in Hopen. destruct (logs_go CbRecord (ilogs (progs pid))); cbn in Hopen; discriminate. }
      destruct (fin x) eqn:E2.
      { cbn [concat] in Hopen. rewrite app_nil_r in Hopen. rewrite parse_split in Hopen.
        destruct (logs_go CbRecord (ilogs (progs pid))); [|cbn in Hopen; discriminate].
        rewrite parse_split in Hopen. destruct (logs_go CbRecord (slogs x)); [|cbn in Hopen; discriminate].
        exfalso. destruct (emit x); cbn in Hopen; inversion Hopen; subst ss w1;
          (refine (dead_no_token progs _ _ _ _ _ _ _ Hall _ _ _ Hn); [reflexivity|cbn; lia]). }
      destruct (emit x) as [b0|] eqn:E3.
      2:{ cbn [concat] in Hopen. rewrite parse_split in Hopen. destruct (logs_go CbRecord (ilogs (progs pid))); cbn in Hopen; discriminate. }
      cbn [concat] in Hopen. rewrite app_nil_r in Hopen. rewrite parse_split in Hopen.
      destruct (logs_go CbRecord (ilogs (progs pid))); [|cbn in Hopen; discriminate].
      rewrite parse_split in Hopen. destruct (logs_go CbRecord (slogs x)) eqn:E4; [|cbn in Hopen; discriminate].
      cbn in Hopen. inversion Hopen; subst ss w1. clear Hopen.
      destruct fuel as [|f]; cbn [nwt_all] in Hall.
      { inversion Hall; subst. destruct k; discriminate. }
      unfold nwt in Hall. cbn [s_pend s_fin s_ct s_kt] in Hall.
      match type of Hall with context [nwt_all progs f w1' ?s] => destruct (nwt_all progs f w1' s) as [rs' w''] eqn:E end.
      unfold resume_tok in Hall. cbn [s_ct s_kt] in Hall. inversion Hall; subst rs w2. clear Hall.
      assert (Hg1 : good_prefix (x :: r) 1 = Some [b0]).
      { cbn [good_prefix]. rewrite E1, E2, E3, E4. reflexivity. }
      destruct k as [|k]; cbn [nth_error] in Hn.
      - inversion Hn as [[Hb Ht]]. clear Hn. subst b tok. split.
        + unfold mkct, mkkt, curpid_of, callpid_of. destruct sh; reflexivity.
        + exists [b0]. split; [exact Hg1|reflexivity].
      - assert (Hshape : the_pid (curpid_of sh pid) (callpid_of sh pid) = pid) by apply the_pid_shape.
        pose proof (nwt_from progs (w_key w0) cid (curpid_of sh pid) (callpid_of sh pid) f 1 w1'
                      {| s_pend := []; s_fin := false; s_ct := Some (mkct (w_key w0) cid (curpid_of sh pid) 1);
                         s_kt := Some (mkkt (w_key w0) cid (callpid_of sh pid)) |} rs' w'' k b tok Hcap1 Hw1 eq_refl eq_refl eq_refl eq_refl) as HN.
        rewrite Hshape, ES in HN. cbn [skipn] in HN.
        assert (E' : nwt_all progs f w1'
                       {| s_pend := []; s_fin := false; s_ct := Some (mkct (w_key w0) cid (curpid_of sh pid) 1);
                          s_kt := Some (mkkt (w_key w0) cid (callpid_of sh pid)) |} = (rs', w'')).
        { rewrite <- E. unfold mkct, mkkt, curpid_of, callpid_of. destruct sh; reflexivity. }
        destruct (HN E' Hn) as [Ht [bs [Hg Hi]]]. split; [rewrite Ht; reflexivity|].
        exists (b0 :: bs). split.
        + change (good_prefix (x :: r) (S (S k))) with
            (match sraise x, fin x, emit x, logs_go CbRecord (slogs x) with
             | None, false, Some b1, true => option_map (cons b1) (good_prefix r (S k)) | _, _, _, _ => None end).
          rewrite E1, E2, E3, E4, Hg. reflexivity.
        + cbn [firstn items_batches flat_map app] in *. rewrite Hi. reflexivity. }
    destruct Hmain as [Ht [bs [Hg Hi]]]. split; [exact Ht|]. split.
    - rewrite Hi. apply good_obs. exact Hg.
    - intros w' c fuel' Hk Hc Hf. rewrite Ht. unfold resume_iter. cbn [fst snd].
      pose proof (follow_obs progs (w_key w0) cid (curpid_of sh pid) (callpid_of sh pid) c fuel' w' (S k) (conj Hk Hc)) as HF.
      rewrite the_pid_shape in HF. apply HF. rewrite skipn_length. lia.
  Qed.
End ResumeMain.

(* ------------------------------------------------------------------ seek_to_token on ANY session *)
Section SeekMain.
  Variable progs : N -> stream_prog.

  (* whatever the session was before (fresh, finished by its /init response, read to end-of-stream): after
     seek_to_token(tok) iteration observes the reference semantics of the remaining steps *)
  Theorem seek_remaining : forall w0 sh pid cid ss w1 fuel rs w2 k b tok,
    cap (w_cfg w0) = None ->
    open_sess progs w0 sh pid cid = inr (ss, w1) ->
    nwt_all progs fuel w1 ss = (rs, w2) ->
    nth_error rs k = Some (NItem b (Some tok)) ->
    forall (any : sess) w' c fuel', w_key w' = w_key w0 -> cache_ok cid (callpid_of sh pid) (w_cache w') ->
      (length (steps (progs pid)) < fuel')%nat ->
      fst (fst (iter_sess progs fuel' c w' (seek any tok))) = obs_prod c (skipn (S k) (steps (progs pid))) None.
  Proof.
    intros w0 sh pid cid ss w1 fuel rs w2 k b tok Hc Ho Ha Hn any w' c fuel' Hk Hcache Hf.
    destruct (resume_remaining progs w0 sh pid cid ss w1 fuel rs w2 k b tok Hc Ho Ha Hn) as [_ [_ H]].
    specialize (H w' c fuel' Hk Hcache Hf). unfold resume_iter in H.
    unfold iter_sess, seek. cbn [s_fin s_ct s_kt s_pend map app].
    destruct (follow progs fuel' c w' (fst tok) (snd tok)) as [[es tr] w'']. exact H.
  Qed.
End SeekMain.
