(* C31: the hedging loop as a whole, one attempt (_fetch_with_probe) and fetch_url *)
From Coq Require Import List ZArith NArith Bool Lia Arith.
From VGI Require Import M_Fetch L_Fetch L_FetchPar.
Import ListNotations.
Open Scope Z_scope.

Section ParLoop.
  Variable valid : N -> bool.
  Variable c : cfg.
  Variable url : N.
  Variable ranges : list (Z * Z).
  Variable tasks : tasktab.
  Notation INV := (Inv valid c url ranges tasks).

  Lemma par_loop_inv : forall rounds st, INV st ->
    match par_loop valid c url ranges tasks rounds st with PDone st' => INV st' | PFail _ st' => INV st' end.
  Proof.
    induction rounds as [|[[done order] now] rest IH]; intros st HI; cbn [par_loop];
      destruct (p_pending st) eqn:EP; auto.
    destruct done as [|d0 dr]; auto.
    destruct (proc_done valid c url ranges tasks (d0 :: dr) st None) as [[st1 [e|]]|] eqn:EPD; auto.
    - eapply proc_done_inv; eauto.
    - assert (H1 : INV st1) by (eapply proc_done_inv; eauto).
      destruct (Nat.eqb (length (p_results st1)) (length ranges)); auto.
      destruct ((0 <? c_mult2 c) && negb (budget_exhausted c st1) && (2 <=? len (p_ctimes st1))).
      + destruct (negb (same_members order (p_pending st1))); auto.
        destruct (hedge_loop c tasks now (median (p_ctimes st1)) order st1) as [st2|] eqn:EH; auto.
        apply IH. eapply hedge_loop_inv; eauto.
      + apply IH; auto.
  Qed.

  Lemma run_parallel_inv : forall rounds r st,
    run_parallel valid c url ranges tasks rounds = (r, st) -> INV st.
  Proof.
    intros rounds r st H. unfold run_parallel in H.
    pose proof (par_loop_inv rounds (init_pst ranges) (Inv_init valid c url ranges tasks)) as HI.
    destruct (par_loop valid c url ranges tasks rounds (init_pst ranges)) as [st'|e st'].
    - destruct (assemble _ _) as [d|]; [destruct (c_max_fetch c <? len d)|]; inversion H; subst; auto.
    - inversion H; subst; auto.
  Qed.

  (* hedges: every created task beyond the initial ones is a hedge of a distinct chunk, within the budget *)
  Lemma run_parallel_hedges : forall rounds r st,
    run_parallel valid c url ranges tasks rounds = (r, st) ->
    p_chunkof st = seq 0 (length ranges) ++ p_hedged st
    /\ (length (p_hedged st) <= length ranges)%nat
    /\ (0 < c_max_hedges c -> len (p_hedged st) <= c_max_hedges c).
  Proof.
    intros rounds r st H. apply run_parallel_inv in H. destruct H as [I1 I2 I3 I4 _ _].
    repeat split; auto.
    rewrite <- (seq_length (length ranges) 0).
    apply NoDup_incl_length; auto.
    intros x Hx. rewrite Forall_forall in I3. apply in_seq. specialize (I3 x Hx). lia.
  Qed.

  (* the reassembled bytes: in range order, one successful exact-size 206 body per range *)
  Lemma assemble_honest : forall (obj : list N) res,
    (forall ck x, lookup ck res = Some x -> exists rg, nth_error ranges ck = Some rg /\ x = slice obj rg) ->
    forall m a d, (a + m = length ranges)%nat -> assemble (seq a m) res = Some d ->
    d = concat (map (slice obj) (skipn a ranges)).
  Proof.
    intros obj res Hres. induction m as [|m IH]; intros a d Ha H.
    - simpl in H. inversion H; subst. replace a with (length ranges) by lia. rewrite skipn_all. reflexivity.
    - cbn [seq assemble] in H.
      destruct (lookup a res) as [x|] eqn:EL; [|discriminate].
      destruct (assemble (seq (S a) m) res) as [rest|] eqn:EA; [|discriminate].
      inversion H; subst.
      destruct (Hres a x EL) as (rg & Hrg & Hx).
      rewrite (nth_error_skipn_cons ranges a rg Hrg). cbn [map concat].
      rewrite (IH (S a) rest ltac:(lia) EA). subst x. reflexivity.
  Qed.

  Lemma run_parallel_ok_results : forall rounds d st,
    run_parallel valid c url ranges tasks rounds = (ROk d, st) ->
    assemble (seq 0 (length ranges)) (p_results st) = Some d /\ len d <= c_max_fetch c.
  Proof.
    intros rounds d st H. unfold run_parallel in H.
    destruct (par_loop valid c url ranges tasks rounds (init_pst ranges)) as [st'|e st']; [|discriminate].
    destruct (assemble _ _) as [d'|] eqn:EA; [|discriminate].
    destruct (c_max_fetch c <? len d') eqn:E; inversion H; subst. apply Z.ltb_ge in E. auto.
  Qed.

  (* exactness: if every task script answers a range honestly (a successful task for range rg yields the slice of
     the object) and the ranges cover the object, success returns the object *)
  Lemma run_parallel_exact : forall (obj : list N) rounds d st,
    covers 0 (len obj) ranges ->
    (forall tid t0 t1 hops rg x ob, nth_error tasks tid = Some (t0, t1, hops) -> In rg ranges ->
        run_task valid c url rg hops = (TOk x, ob) -> x = slice obj rg) ->
    run_parallel valid c url ranges tasks rounds = (ROk d, st) -> d = obj.
  Proof.
    intros obj rounds d st Hcov Hhon H.
    pose proof (run_parallel_inv _ _ _ H) as [_ _ _ _ I5 _].
    apply run_parallel_ok_results in H as [HA _].
    rewrite (assemble_honest obj (p_results st)) with (m := length ranges) (a := O) (d := d); auto.
    - simpl. apply covers_slices_all; auto.
    - intros ck x Hl. destruct (I5 ck x Hl) as (rg & tid & t0 & t1 & hops & ob & Hrg & Ht & Hrun).
      exists rg. split; auto. eapply Hhon; eauto. eapply nth_error_In; eauto.
  Qed.
End ParLoop.

(* ---- probes ---- *)
Section ProbeFacts.
  Variable valid : N -> bool.
  Variable c : cfg.
  Variable url : N.

  Definition probe (presigned : bool) (hops : list resp) : pres * sobs :=
    if presigned then range_probe valid c url hops else head_probe valid c url hops.

  Lemma probe_facts : forall presigned hops,
    0 <= c_max_fetch c ->
    let ob := snd (probe presigned hops) in
    Forall (fun u => valid u = true) (fst ob)
    /\ (N.of_nat (length (fst ob)) <= c_max_redir c + 1)%N
    /\ 0 <= snd ob <= 2
    /\ (presigned = false -> snd ob = 0).
  Proof.
    intros presigned hops Hm. unfold probe, range_probe, head_probe.
    pose proof (follow_contacted_valid valid (c_max_redir c) hops 0%N url) as HV.
    pose proof (follow_contacted_length valid (c_max_redir c) hops 0%N url ltac:(lia)) as HL.
    destruct presigned.
    - destruct (follow valid (c_max_redir c) 0%N url hops) as [r tr|e tr]; simpl in HV, HL.
      + destruct (r_status r =? 206).
        * pose proof (read_range_taken (r_units r) 1 (c_max_fetch c) (r_berr r) ltac:(lia) Hm) as HT.
          destruct (read_range 1 (c_max_fetch c) 0 [] (r_units r) (r_berr r)) as [[d|e] n]; simpl in *;
            (repeat split; auto; try lia; discriminate).
        * destruct (r_status r =? 200); [simpl; repeat split; auto; try lia; discriminate|].
          destruct (is_fallback (r_status r)); [simpl; repeat split; auto; try lia; discriminate|].
          destruct (negb (is_2xx (r_status r))); simpl; repeat split; auto; try lia; discriminate.
      + simpl; repeat split; auto; try lia; discriminate.
    - destruct (follow valid (c_max_redir c) 0%N url hops) as [r tr|e tr]; simpl in HV, HL.
      + destruct (is_fallback (r_status r)); [simpl; repeat split; auto; lia|].
        destruct (negb (is_2xx (r_status r))); simpl; repeat split; auto; lia.
      + simpl; repeat split; auto; lia.
  Qed.
End ProbeFacts.

(* ---- post_decode ---- *)
Lemma post_decode_ok : forall c dec ce data d dc,
  post_decode c dec ce data = (ROk d, dc) ->
  len d <= max_dec c
  /\ match codec_of ce with
     | None => d = data /\ dc = None
     | Some k => dec k data (max_dec c) = Some d /\ dc = Some (k, data, max_dec c)
     end.
Proof.
  intros c dec ce data d dc. unfold post_decode.
  destruct (codec_of ce) as [k|].
  - destruct (dec k data (max_dec c)) as [x|] eqn:ED; [|discriminate].
    destruct (max_dec c <? len x) eqn:E; intros H; inversion H; subst. apply Z.ltb_ge in E. auto.
  - destruct (max_dec c <? len data) eqn:E; intros H; inversion H; subst. apply Z.ltb_ge in E. auto.
Qed.

Lemma post_decode_dc : forall c dec ce data r dc,
  post_decode c dec ce data = (r, dc) ->
  match dc with None => True | Some (_, _, m) => m = max_dec c end.
Proof.
  intros c dec ce data r dc. unfold post_decode.
  destruct (codec_of ce) as [k|].
  - destruct (dec k data (max_dec c)) as [x|]; [destruct (max_dec c <? len x)|]; intros H; inversion H; subst; auto.
  - destruct (max_dec c <? len data); intros H; inversion H; subst; auto.
Qed.

(* the path decision of _fetch_with_probe: Some z = parallel ranges over z, None = single GET *)
Definition parallel_len (c : cfg) (cl : option Z) (ar : bool) : option Z :=
  match cl with Some z => if ar && (c_threshold c <=? z) then Some z else None | None => None end.

(* ---- one attempt: which of the three shapes it took, and what it observed ---- *)
Inductive shape (valid : N -> bool) (c : cfg) (presigned : bool) (url : N) (dec : Z -> list N -> Z -> option (list N))
          (sc : ascript) (r : rres) (o : aobs) : Prop :=
| ShStopped :                                  (* probe failed, or the declared length exceeds max_fetch_bytes *)
    (exists e, r = RErr e) -> o_get o = None -> o_done o = [] -> o_chunkof o = [] -> o_dec o = None ->
    shape valid c presigned url dec sc r o
| ShSingle : forall cl ar ce fr,               (* single GET *)
    fst (probe valid c url presigned (s_probe sc)) = PInfo cl ar ce ->
    parallel_len c cl ar = None ->
    fr = follow valid (c_max_redir c) 0%N url (s_get sc) ->
    o_done o = [] -> o_chunkof o = [] ->
    (exists n, o_get o = Some (contacted_of fr, n) /\
       match fr with
       | FErr e _ => r = RErr e /\ n = 0 /\ o_dec o = None
       | FOk rs _ =>
           if negb (is_2xx (r_status rs)) then r = RErr (EStatus (r_status rs)) /\ n = 0 /\ o_dec o = None
           else
             let ce' := if r_cenc rs =? 0 then ce else r_cenc rs in
             match read_single (c_max_fetch c) 0 [] (iter_chunked io_chunk (r_units rs)) (r_berr rs) with
             | (RErr e, n') => r = RErr e /\ n = n' /\ o_dec o = None
             | (ROk d, n') => n = n' /\ post_decode c dec ce' d = (r, o_dec o)
             end
       end) ->
    shape valid c presigned url dec sc r o
| ShParallel : forall z ar ce r' st,           (* parallel ranges over the probed length z *)
    fst (probe valid c url presigned (s_probe sc)) = PInfo (Some z) ar ce ->
    parallel_len c (Some z) ar = Some z ->
    z <= c_max_fetch c -> c_threshold c <= z ->
    run_parallel valid c url (compute_ranges z (c_chunk c)) (s_tasks sc) (s_rounds sc) = (r', st) ->
    o_get o = None -> o_done o = p_done st -> o_chunkof o = p_chunkof st ->
    match r' with
    | RErr e => r = RErr e /\ o_dec o = None
    | ROk d => post_decode c dec ce d = (r, o_dec o)
    end ->
    shape valid c presigned url dec sc r o.

Lemma attempt_shape : forall valid c presigned url dec sc r o,
  attempt valid c presigned url dec sc = (r, o) ->
  o_probe o = snd (probe valid c url presigned (s_probe sc)) /\ shape valid c presigned url dec sc r o.
Proof.
  intros valid c presigned url dec sc r o. unfold attempt. fold (probe valid c url presigned (s_probe sc)).
  destruct (probe valid c url presigned (s_probe sc)) as [p pobs] eqn:EP.
  destruct p as [cl ar ce|e].
  2:{ intros H; inversion H; subst; simpl. split; auto. apply ShStopped; simpl; eauto. }
  destruct (match cl with Some z => c_max_fetch c <? z | None => false end) eqn:EG.
  { intros H; inversion H; subst; simpl. split; auto. apply ShStopped; simpl; eauto. }
  destruct (match cl with Some z => if ar && (c_threshold c <=? z) then Some z else None | None => None end) as [z|] eqn:EU.
  - destruct cl as [z0|]; [|discriminate].
    assert (EU' : parallel_len c (Some z0) ar = Some z) by exact EU.
    destruct (ar && (c_threshold c <=? z0)) eqn:EA; [|discriminate]. inversion EU; subst z0.
    apply andb_true_iff in EA as [_ ET]. apply Z.leb_le in ET. apply Z.ltb_ge in EG.
    destruct (run_parallel valid c url (compute_ranges z (c_chunk c)) (s_tasks sc) (s_rounds sc)) as [r' st] eqn:ER.
    assert (HP : fst (probe valid c url presigned (s_probe sc)) = PInfo (Some z) ar ce) by (rewrite EP; reflexivity).
    destruct r' as [d|e].
    + destruct (post_decode c dec ce d) as [r2 dc] eqn:EPD. intros H; inversion H; subst; simpl. split; auto.
      eapply ShParallel with (z := z) (ar := ar) (ce := ce) (r' := ROk d) (st := st);
        [exact HP | exact EU' | exact EG | exact ET | exact ER | reflexivity | reflexivity | reflexivity | simpl; exact EPD].
    + intros H; inversion H; subst; simpl. split; auto.
      eapply ShParallel with (z := z) (ar := ar) (ce := ce) (r' := RErr e) (st := st);
        [exact HP | exact EU' | exact EG | exact ET | exact ER | reflexivity | reflexivity | reflexivity | simpl; auto].
  - assert (HP : fst (probe valid c url presigned (s_probe sc)) = PInfo cl ar ce) by (rewrite EP; reflexivity).
    destruct (follow valid (c_max_redir c) 0%N url (s_get sc)) as [rs tr|e tr] eqn:EF.
    + destruct (negb (is_2xx (r_status rs))) eqn:E2.
      * intros H; inversion H; subst; simpl. split; auto.
        eapply ShSingle with (cl := cl) (ar := ar) (ce := ce) (fr := FOk rs tr);
          [exact HP | exact EU | symmetry; exact EF | reflexivity | reflexivity |].
        exists 0. simpl. rewrite E2. auto.
      * destruct (read_single (c_max_fetch c) 0 [] (iter_chunked io_chunk (r_units rs)) (r_berr rs)) as [[d|e] n] eqn:ERS.
        -- destruct (post_decode c dec (if r_cenc rs =? 0 then ce else r_cenc rs) d) as [r2 dc] eqn:EPD.
           intros H; inversion H; subst; simpl. split; auto.
           eapply ShSingle with (cl := cl) (ar := ar) (ce := ce) (fr := FOk rs tr);
             [exact HP | exact EU | symmetry; exact EF | reflexivity | reflexivity |].
           exists n. simpl. rewrite E2, ERS. auto.
        -- intros H; inversion H; subst; simpl. split; auto.
           eapply ShSingle with (cl := cl) (ar := ar) (ce := ce) (fr := FOk rs tr);
             [exact HP | exact EU | symmetry; exact EF | reflexivity | reflexivity |].
           exists n. simpl. rewrite E2, ERS. auto.
    + intros H; inversion H; subst; simpl. split; auto.
      eapply ShSingle with (cl := cl) (ar := ar) (ce := ce) (fr := FErr e tr);
        [exact HP | exact EU | symmetry; exact EF | reflexivity | reflexivity |].
      exists 0. simpl. auto.
Qed.
