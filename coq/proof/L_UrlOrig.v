(* C37: the original URL the flow redirects to after login stays on the service origin. *)
From Coq Require Import List NArith Bool Lia ZifyBool.
From VGI Require Import Bytes Layout Utf8 M_Url L_Url.
Import ListNotations.
Open Scope N_scope.

Definition fallback_of (prefix : str) : str := match prefix with [] => [47] | _ => prefix end.

Lemma original_cases : forall brk prefix u v,
  validate_original_url brk prefix u = POk v ->
  v = fallback_of prefix \/ (orig_guard v = false /\ (prefix = [] \/ is_prefix prefix v = true)).
Proof.
  intros brk prefix u v H. unfold validate_original_url, validate_original_url_gen in H.
  set (u1 := if 2048 <? N.of_nat (length u) then firstn (N.to_nat 2048) u else u) in *.
  destruct (py_urlsplit brk u1) as [[[sch netloc] rest]|]; [|discriminate].
  fold (fallback_of prefix) in H.
  destruct (nonempty sch || nonempty netloc); [inversion H; left; reflexivity|].
  cbn [andb] in H. destruct (orig_guard u1) eqn:Eg; [inversion H; left; reflexivity|].
  destruct (nonempty prefix && negb (is_prefix prefix u1)) eqn:Ep; inversion H; subst v; [left; reflexivity|].
  right. split; [exact Eg|]. destruct prefix as [|p0 p']; [left; reflexivity|right].
  cbn [nonempty andb] in Ep. apply negb_false_iff in Ep. exact Ep.
Qed.

Lemma lstrip_suffix : forall s, exists p, s = p ++ lstrip s.
Proof.
  induction s as [|c r [p IH]]; [exists []; reflexivity|]. cbn [lstrip]. destruct (is_c0sp c).
  - exists (c :: p). cbn. f_equal. exact IH.
  - exists []. reflexivity.
Qed.
Lemma rstrip_prefix : forall s, exists t, s = rstrip s ++ t.
Proof.
  intros s. unfold rstrip. destruct (lstrip_suffix (rev s)) as [p Hp]. exists (rev p).
  rewrite <- rev_app_distr. rewrite <- Hp. rewrite rev_involutive. reflexivity.
Qed.
Lemma remove_tnl_id : forall s, existsb is_tnl s = false -> remove_tnl s = s.
Proof.
  induction s as [|c r IH]; intros H; [reflexivity|]. cbn [existsb] in H. apply orb_false_iff in H. destruct H as [Hc Hr].
  unfold remove_tnl. cbn [filter]. rewrite Hc. cbn [negb]. f_equal. apply IH. exact Hr.
Qed.

Lemma split_scheme_slash : forall s, split_scheme (47 :: s) = ([], 47 :: s).
Proof.
  intros s. unfold split_scheme. cbn [span_until]. change (58 =? 47) with false. cbv iota.
  destruct (span_until (N.eqb 58) s) as [a b]. destruct b; reflexivity.
Qed.

(* a string that passes the guard is, for a browser, a path on the base URL's origin *)
Theorem guard_same_origin : forall v base, orig_guard v = false -> whatwg_origin base v = OBase.
Proof.
  intros v base H. unfold orig_guard in H. destruct v as [|c0 r]; [discriminate|].
  destruct (c0 =? 47) eqn:E0; [|discriminate]. apply N.eqb_eq in E0. subst c0.
  apply orb_false_iff in H. destruct H as [H2 Ht].
  unfold whatwg_origin, w_pre. change (lstrip (47 :: r)) with (47 :: r).
  pose proof (rstrip_app_nonblank [] 47 r eq_refl) as Hrs. cbn [app] in Hrs. rewrite Hrs.
  destruct (rstrip_prefix r) as [t Hr].
  assert (Htn : existsb is_tnl (47 :: rstrip r) = false).
  { cbn [existsb]. cbn [existsb] in Ht. apply orb_false_iff in Ht. destruct Ht as [_ Ht].
    rewrite Hr in Ht. rewrite existsb_app in Ht. apply orb_false_iff in Ht. destruct Ht as [Ht _]. rewrite Ht. reflexivity. }
  rewrite (remove_tnl_id _ Htn). unfold w_from_pre. rewrite split_scheme_slash. unfold w_relative.
  destruct (rstrip r) as [|c2 r'] eqn:Er; [reflexivity|].
  assert (Hc2 : is_slashy c2 = false).
  { destruct r as [|x r0]; [cbn in Hr; discriminate|]. cbn in Hr. inversion Hr; subst x. exact H2. }
  rewrite Hc2. rewrite andb_false_r. reflexivity.
Qed.

Theorem original_same_origin : forall brk prefix u v base,
  (prefix = [] \/ orig_guard prefix = false) ->
  validate_original_url brk prefix u = POk v -> whatwg_origin base v = OBase.
Proof.
  intros brk prefix u v base Hp H. destruct (original_cases _ _ _ _ H) as [E|[Hg _]].
  - subst v. destruct Hp as [Hp|Hp]; [subst prefix; apply guard_same_origin; reflexivity|].
    destruct prefix; [apply guard_same_origin; reflexivity|apply guard_same_origin; exact Hp].
  - apply guard_same_origin. exact Hg.
Qed.
