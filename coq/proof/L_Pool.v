(* C32: invariants of the pool model (model/M_Pool.v) for every schedule. *)
From Coq Require Import List Arith Bool Lia Permutation.
From VGI Require Import M_Pool.
Import ListNotations.
Arguments read_logs : simpl never.
Arguments do_drain : simpl never.

(* ------------------------------------------------------------------------------------------------ *)
(* What the theorems need from the source-derived decisions                                          *)
Definition flags_clean (f : flags) : bool :=
  negb (f_inflight f) && (negb (f_opened f) || (f_has_sess f && f_sclosed f && f_sdrained f)).

Definition drains_ok (D : drains) : Prop :=
  (forall x, d_close_swallow D x = true -> d_close_mark D = false) /\
  (forall x, d_cancel_swallow D x = true -> d_cancel_mark D = false).

Record cfg_ok (C : cfg) : Prop := mkCfgOk {
  ok_track : c_track C = true;
  ok_abandoned : forall f, c_abandoned C f = false -> flags_clean f = true;
  ok_discard : forall closed m, c_discard C closed m = false -> 1 <= m;
  ok_evict : forall total m, c_evict C total m = false -> total < m;
  ok_drains : drains_ok (c_drains C)
}.

Lemma cfg_fixed_ok : cfg_ok cfg_fixed.
Proof.
  split; simpl.
  - reflexivity.
  - intros [a b c d e]; unfold abandoned_fixed, flags_clean; simpl.
    destruct a, b, c, d, e; simpl; intro H; try discriminate; reflexivity.
  - intros closed m H. apply orb_false_iff in H as [_ H]. apply Nat.eqb_neq in H. lia.
  - intros total m H. apply Nat.leb_gt in H. exact H.
  - split; intros x _; reflexivity.
Qed.

(* ------------------------------------------------------------------------------------------------ *)
Lemma NoDup_app_remove_l {A} (a b : list A) : NoDup (a ++ b) -> NoDup b.
Proof. induction a as [|x r IH]; simpl; intro H; [exact H|]. inversion H; subst. auto. Qed.
Lemma NoDup_app_remove_r {A} (a b : list A) : NoDup (a ++ b) -> NoDup a.
Proof.
  induction a as [|x r IH]; simpl; intro H; [constructor|]. inversion H as [|? ? Hn Hr]; subst.
  constructor; [|auto]. intro Hi. apply Hn. apply in_or_app; left; exact Hi.
Qed.

(* Sub l' l : l' is l with some elements removed (up to order)                                        *)
Definition Sub {A} (l' l : list A) : Prop := exists ex, Permutation l (ex ++ l').

Lemma Sub_refl {A} (l : list A) : Sub l l.
Proof. exists []. reflexivity. Qed.
Lemma Sub_perm {A} (l' l : list A) : Permutation l l' -> Sub l' l.
Proof. intro H. exists []. exact H. Qed.
Lemma Sub_trans {A} (a b c : list A) : Sub a b -> Sub b c -> Sub a c.
Proof.
  intros [e1 H1] [e2 H2]. exists (e2 ++ e1). rewrite H2, H1, app_assoc. reflexivity.
Qed.
Lemma Sub_cons_drop {A} (x : A) l : Sub l (x :: l).
Proof. exists [x]. reflexivity. Qed.
Lemma Sub_nil {A} (l : list A) : Sub [] l.
Proof. exists l. rewrite app_nil_r. reflexivity. Qed.
Lemma Sub_app {A} (a a' b b' : list A) : Sub a' a -> Sub b' b -> Sub (a' ++ b') (a ++ b).
Proof.
  intros [e1 H1] [e2 H2]. exists (e1 ++ e2). rewrite H1, H2.
  rewrite <- !app_assoc. apply Permutation_app_head.
  rewrite !app_assoc. apply Permutation_app_tail. apply Permutation_app_comm.
Qed.
Lemma Sub_map {A B} (f : A -> B) l' l : Sub l' l -> Sub (map f l') (map f l).
Proof. intros [e H]. exists (map f e). rewrite <- map_app. apply Permutation_map. exact H. Qed.
Lemma Sub_incl {A} (l' l : list A) : Sub l' l -> incl l' l.
Proof.
  intros [e H] x Hx. eapply Permutation_in; [symmetry; exact H|]. apply in_or_app; right; exact Hx.
Qed.
Lemma Sub_NoDup {A} (l' l : list A) : Sub l' l -> NoDup l -> NoDup l'.
Proof.
  intros [e H] Hn. eapply Permutation_NoDup in Hn; [|exact H].
  apply NoDup_app_remove_l in Hn. exact Hn.
Qed.
Lemma Sub_length {A} (l' l : list A) : Sub l' l -> length l' <= length l.
Proof. intros [e H]. apply Permutation_length in H. rewrite H, app_length. lia. Qed.
Lemma Sub_perm_l {A} (a b c : list A) : Permutation a b -> Sub a c -> Sub b c.
Proof. intros H [e H1]. exists e. rewrite H1. apply Permutation_app_head. exact H. Qed.
Lemma Sub_perm_r {A} (a b c : list A) : Permutation b c -> Sub a b -> Sub a c.
Proof. intros H [e H1]. exists e. rewrite <- H. exact H1. Qed.

(* ------------------------------------------------------------------------------------------------ *)
(* upd_nth                                                                                            *)
Lemma length_upd_nth {A} i (f : A -> A) l : length (upd_nth i f l) = length l.
Proof. revert i; induction l as [|x r IH]; intros [|j]; simpl; auto. Qed.

Lemma nth_error_upd_nth {A} i (f : A -> A) l j :
  nth_error (upd_nth i f l) j = if Nat.eqb i j then option_map f (nth_error l j) else nth_error l j.
Proof.
  revert i j; induction l as [|x r IH]; intros [|i] [|j]; simpl; auto.
  destruct (Nat.eqb i j); reflexivity.
Qed.

Lemma upd_nth_split {A} (f : A -> A) l1 x l2 : upd_nth (length l1) f (l1 ++ x :: l2) = l1 ++ f x :: l2.
Proof. induction l1 as [|y r IH]; simpl; [reflexivity|]. rewrite IH. reflexivity. Qed.

(* ------------------------------------------------------------------------------------------------ *)
(* the idle dictionary                                                                                *)
Definition nonempty (d : idict) : Prop := Forall (fun kq => snd kq <> []) d.

Lemma idle_get_del_perm k d q :
  idle_get k d = Some q -> Permutation (idle_entries d) (q ++ idle_entries (idle_del k d)).
Proof.
  unfold idle_entries. induction d as [|[k' q'] r IH]; simpl; [discriminate|].
  destruct (Nat.eqb k k'); intro H.
  - inversion H; subst. reflexivity.
  - simpl. rewrite (IH H). rewrite !app_assoc. apply Permutation_app_tail. apply Permutation_app_comm.
Qed.

Lemma idle_put_del_perm k d q q' :
  idle_get k d = Some q -> Permutation (idle_entries (idle_put k q' d)) (q' ++ idle_entries (idle_del k d)).
Proof.
  unfold idle_entries. induction d as [|[k' q0] r IH]; simpl; [discriminate|].
  destruct (Nat.eqb k k'); intro H.
  - simpl. reflexivity.
  - simpl. rewrite (IH H). rewrite !app_assoc. apply Permutation_app_tail. apply Permutation_app_comm.
Qed.

Lemma nonempty_del k d : nonempty d -> nonempty (idle_del k d).
Proof.
  unfold nonempty. induction d as [|[k' q] r IH]; simpl; intro H; [constructor|].
  inversion H; subst. destruct (Nat.eqb k k'); [assumption|]. constructor; auto.
Qed.
Lemma nonempty_put k q d : q <> [] -> nonempty d -> nonempty (idle_put k q d).
Proof.
  unfold nonempty. intros Hq. induction d as [|[k' q'] r IH]; simpl; intro H; [constructor|].
  inversion H; subst. destruct (Nat.eqb k k'); constructor; auto.
Qed.
Lemma nonempty_append k e d : nonempty d -> nonempty (idle_append k e d).
Proof.
  unfold nonempty. induction d as [|[k' q'] r IH]; simpl; intro H.
  - constructor; [simpl; discriminate|constructor].
  - inversion H; subst. destruct (Nat.eqb k k'); constructor; auto.
    simpl. destruct q'; discriminate.
Qed.

(* removing the last / first element of the deque of key k *)
Lemma shrink_perm k d q q' e :
  idle_get k d = Some q -> Permutation q (e :: q') ->
  Permutation (idle_entries d) (e :: idle_entries (match q' with [] => idle_del k d | _ => idle_put k q' d end)).
Proof.
  intros Hg Hq. rewrite (idle_get_del_perm _ _ _ Hg).
  destruct q' as [|x q''].
  - rewrite Hq. reflexivity.
  - rewrite (idle_put_del_perm _ _ _ (x :: q'') Hg). rewrite Hq. reflexivity.
Qed.
Lemma shrink_nonempty k d q' :
  nonempty d -> nonempty (match q' with [] => idle_del k d | _ => idle_put k q' d end).
Proof.
  intro H. destruct q'; [apply nonempty_del; exact H|apply nonempty_put; [discriminate|exact H]].
Qed.

Lemma idle_pop_perm k d e d' :
  idle_pop k d = Some (e, d') -> Permutation (idle_entries d) (e :: idle_entries d').
Proof.
  unfold idle_pop. destruct (idle_get k d) as [q|] eqn:Hg; [|discriminate].
  destruct (rev q) as [|e0 rq] eqn:Hr; [discriminate|]. intro H; inversion H; subst; clear H.
  apply (shrink_perm _ _ _ _ _ Hg).
  rewrite <- (rev_involutive q), Hr. simpl. rewrite Permutation_app_comm. reflexivity.
Qed.
Lemma idle_pop_nonempty k d e d' : idle_pop k d = Some (e, d') -> nonempty d -> nonempty d'.
Proof.
  unfold idle_pop. destruct (idle_get k d) as [q|]; [|discriminate].
  destruct (rev q) as [|e0 rq]; [discriminate|]. intro H; inversion H; subst. apply shrink_nonempty.
Qed.

Lemma oldest_spec d : nonempty d -> forall best,
  match oldest d best with
  | None => best = None /\ d = []
  | Some k => (exists t, best = Some (k, t)) \/ (exists e q, idle_get k d = Some (e :: q))
  end.
Proof.
  induction d as [|[k q] r IH]; intros Hn best; simpl.
  - destruct best as [[k t]|]; simpl; [left; eauto|auto].
  - inversion Hn as [|? ? Hq Hr]; subst. simpl in Hq.
    destruct q as [|[p t] q']; [congruence|].
    assert (Hk : forall b', b' = Some (k, t) ->
              match oldest r b' with
              | None => False
              | Some k0 => (exists t0, best = Some (k0, t0)) \/ (exists e q0, (if Nat.eqb k0 k then Some ((p, t) :: q') else idle_get k0 r) = Some (e :: q0))
              end).
    { intros b' ->. specialize (IH Hr (Some (k, t))). destruct (oldest r (Some (k, t))) as [k0|].
      - destruct IH as [[t0 H0]|[e [q0 H0]]].
        + inversion H0; subst. right. rewrite Nat.eqb_refl. eauto.
        + right. destruct (Nat.eqb k0 k); eauto.
      - destruct IH as [H0 _]. discriminate. }
    destruct best as [[bk bt]|].
    + destruct (Nat.ltb t bt).
      * specialize (Hk _ eq_refl). destruct (oldest r (Some (k, t))); [exact Hk|contradiction].
      * specialize (IH Hr (Some (bk, bt))). destruct (oldest r (Some (bk, bt))) as [k0|].
        -- destruct IH as [H0|[e [q0 H0]]]; [left; exact H0|]. right.
           destruct (Nat.eqb k0 k); eauto.
        -- destruct IH as [H0 _]; discriminate.
    + specialize (Hk _ eq_refl). destruct (oldest r (Some (k, t))); [exact Hk|contradiction].
Qed.

Lemma idle_evict_spec d d' ev :
  nonempty d -> idle_evict d = (d', ev) ->
  nonempty d' /\
  match ev with
  | Some p => exists t, Permutation (idle_entries d) ((p, t) :: idle_entries d')
  | None => d' = d /\ d = []
  end.
Proof.
  intros Hn. unfold idle_evict. pose proof (oldest_spec d Hn None) as Ho.
  destruct (oldest d None) as [k|].
  - destruct Ho as [[t H0]|[e [q Hg]]]; [discriminate|]. rewrite Hg. destruct e as [p t].
    intro H; inversion H; subst; clear H. split; [apply shrink_nonempty; exact Hn|].
    exists t. apply (shrink_perm _ _ _ _ _ Hg). reflexivity.
  - destruct Ho as [_ Hd]. intro H; inversion H; subst. split; [constructor|auto].
Qed.

Lemma idle_append_perm k e d : Permutation (idle_entries (idle_append k e d)) (e :: idle_entries d).
Proof.
  unfold idle_entries. induction d as [|[k' q] r IH]; simpl; [reflexivity|].
  destruct (Nat.eqb k k'); simpl.
  - rewrite <- app_assoc. simpl. symmetry. apply Permutation_middle.
  - rewrite IH. symmetry. apply Permutation_middle.
Qed.

Lemma drop_expired_split now t q ex kept :
  drop_expired now t q = (ex, kept) -> exists exe, map fst exe = ex /\ q = exe ++ kept.
Proof.
  revert ex kept; induction q as [|[p t0] r IH]; simpl; intros ex kept H.
  - inversion H; subst. exists []. auto.
  - destruct (Nat.leb t (now - t0)).
    + destruct (drop_expired now t r) as [ex0 kept0] eqn:E. inversion H; subst.
      destruct (IH _ _ eq_refl) as [exe [H1 H2]]. exists ((p, t0) :: exe). simpl. subst. auto.
    + inversion H; subst. exists []. auto.
Qed.

Lemma idle_reap_spec now t d ex d' :
  idle_reap now t d = (ex, d') -> Sub (idle_entries d') (idle_entries d) /\ nonempty d'.
Proof.
  unfold idle_entries. revert ex d'; induction d as [|[k q] r IH]; simpl; intros ex d' H.
  - inversion H; subst. split; [apply Sub_refl|constructor].
  - destruct (drop_expired now t q) as [ex1 kept] eqn:E1.
    destruct (idle_reap now t r) as [ex2 r'] eqn:E2. inversion H; subst; clear H.
    destruct (IH _ _ eq_refl) as [Hs Hn].
    destruct (drop_expired_split _ _ _ _ _ E1) as [exe [_ Hq]]. subst q.
    assert (Hs1 : Sub kept (exe ++ kept)) by (exists exe; reflexivity).
    destruct kept as [|x kept'].
    + split; [|exact Hn]. rewrite app_nil_r. eapply Sub_trans; [exact Hs|].
      exists exe. reflexivity.
    + split.
      * simpl. change (x :: kept' ++ flat_map snd r') with ((x :: kept') ++ flat_map snd r').
        apply Sub_app; assumption.
      * constructor; [simpl; discriminate|exact Hn].
Qed.

(* ------------------------------------------------------------------------------------------------ *)
(* worlds: which setters touch what                                                                   *)
Lemma conn_of_workers g g' : g_workers g' = g_workers g -> forall p, conn_of g' p = conn_of g p.
Proof. intros H p. unfold conn_of. rewrite H. reflexivity. Qed.
Lemma alive_of_workers g g' : g_workers g' = g_workers g -> forall p, alive_of g' p = alive_of g p.
Proof. intros H p. unfold alive_of. rewrite H. reflexivity. Qed.

Lemma conn_of_terminate p g q : conn_of (terminate p g) q = conn_of g q.
Proof.
  unfold conn_of, terminate; simpl. rewrite nth_error_upd_nth.
  destruct (Nat.eqb p q); [|reflexivity]. destruct (nth_error (g_workers g) q); reflexivity.
Qed.
Lemma conn_of_kill p g q : conn_of (kill p g) q = conn_of g q.
Proof.
  unfold conn_of, kill; simpl. rewrite nth_error_upd_nth.
  destruct (Nat.eqb p q); [|reflexivity]. destruct (nth_error (g_workers g) q); reflexivity.
Qed.
Lemma conn_of_set_conn_other p c g q : q <> p -> conn_of (set_conn p c g) q = conn_of g q.
Proof.
  intro H. unfold conn_of, set_conn; simpl. rewrite nth_error_upd_nth.
  destruct (Nat.eqb p q) eqn:E; [apply Nat.eqb_eq in E; congruence|reflexivity].
Qed.
Lemma conn_of_set_conn_same p c g : p < length (g_workers g) -> conn_of (set_conn p c g) p = c.
Proof.
  intro H. unfold conn_of, set_conn; simpl. rewrite nth_error_upd_nth, Nat.eqb_refl.
  destruct (nth_error (g_workers g) p) eqn:E; [reflexivity|]. apply nth_error_None in E. lia.
Qed.
Lemma length_terminate p g : length (g_workers (terminate p g)) = length (g_workers g).
Proof. unfold terminate; simpl. apply length_upd_nth. Qed.
Lemma terminate_all_facts ps g :
  length (g_workers (terminate_all ps g)) = length (g_workers g) /\
  g_idle (terminate_all ps g) = g_idle g /\ g_handouts (terminate_all ps g) = g_handouts g /\
  forall q, conn_of (terminate_all ps g) q = conn_of g q.
Proof.
  unfold terminate_all. revert g; induction ps as [|p r IH]; intro g; simpl; [auto|].
  destruct (IH (terminate p g)) as (H1 & H2 & H3 & H4). rewrite H1, H2, H3, length_terminate.
  repeat split; auto. intro q. rewrite H4. apply conn_of_terminate.
Qed.

(* ------------------------------------------------------------------------------------------------ *)
(* client operations keep "flags look clean => connection is at a boundary"                           *)
Definition ustate_ok (u : ustate) : Prop :=
  (flags_clean (u_fl u) = true -> u_conn u = Boundary) /\
  (forall m, u_open u = Some m -> f_opened (u_fl u) = true /\ f_sclosed (u_fl u) = false /\ f_sdrained (u_fl u) = false).

Ltac crush_flags :=
  repeat match goal with
         | f : flags |- _ => destruct f as [? ? ? ? ?]
         | b : bool |- _ => destruct b
         end; simpl in *; try discriminate; try congruence; auto.

Lemma not_clean_undrained fl : f_opened fl = true -> f_sdrained fl = false -> flags_clean fl = false.
Proof.
  destruct fl as [a b c d e]; simpl; intros -> ->. unfold flags_clean; simpl.
  destruct a, c, d; reflexivity.
Qed.

Lemma closed_undrained_ok c fl n :
  f_opened fl = true -> f_sdrained fl = false -> ustate_ok (mkU c (fl_sclosed true fl) None n).
Proof.
  intros Ha Hc. split; simpl; [|discriminate].
  rewrite (not_clean_undrained (fl_sclosed true fl)); [discriminate| |]; simpl; assumption.
Qed.

Lemma do_drain_ok swallow mark n ra fl cbn :
  (forall x, swallow x = true -> mark = false) -> f_opened fl = true -> f_sdrained fl = false ->
  ustate_ok (fst (do_drain swallow mark n ra (fl_sclosed true fl) cbn)).
Proof.
  intros Hm Ha Hc. unfold do_drain. destruct (read_logs n cbn ra) as [cnt r]. destruct r as [x|]; simpl.
  - destruct (swallow x) eqn:Es; simpl.
    + rewrite (Hm x Es). apply closed_undrained_ok; assumption.
    + apply closed_undrained_ok; assumption.
  - split; simpl; [reflexivity|discriminate].
Qed.

Lemma do_close_ok D alive ra u : drains_ok D -> ustate_ok u -> u_open u <> None -> ustate_ok (fst (do_close true D alive ra u)).
Proof.
  intros [HD _] [H1 H2] Ho. destruct u as [c fl o n]; simpl in *. destruct o as [m|]; [|congruence].
  destruct (H2 m eq_refl) as (Ha & Hb & Hc). unfold do_close; cbn [u_fl u_conn u_cbn negb].
  destruct alive; cbn [negb]; [|apply closed_undrained_ok; assumption].
  destruct c; first [apply do_drain_ok; assumption | apply closed_undrained_ok; assumption | (simpl; apply closed_undrained_ok; assumption)].
Qed.

Lemma do_cancel_ok D alive ra u : drains_ok D -> ustate_ok u -> u_open u <> None -> ustate_ok (fst (do_cancel true D alive ra u)).
Proof.
  intros [_ HD] [H1 H2] Ho. destruct u as [c fl o n]; simpl in *. destruct o as [m|]; [|congruence].
  destruct (H2 m eq_refl) as (Ha & Hb & Hc). unfold do_cancel; cbn [u_fl u_conn u_cbn negb].
  destruct alive; cbn [negb]; [|apply closed_undrained_ok; assumption].
  destruct c; first [apply do_drain_ok; assumption | apply closed_undrained_ok; assumption | (simpl; apply closed_undrained_ok; assumption)].
Qed.

Lemma do_exit_ok D alive ra u : drains_ok D -> ustate_ok u -> ustate_ok (do_exit true D alive ra u).
Proof.
  intros HD H. unfold do_exit. destruct (u_open u) as [[|]|] eqn:E; auto.
  apply do_close_ok; [exact HD|exact H|congruence].
Qed.

Lemma do_op_ok D alive ra o u : drains_ok D -> ustate_ok u -> ustate_ok (fst (do_op true D alive ra o u)).
Proof.
  intros HD H. pose proof H as [H1 H2]. destruct o; simpl.
  - (* unary *)
    destruct (u_open u) eqn:Eo; simpl; [exact H|].
    destruct alive; simpl.
    + destruct (u_conn u) eqn:Ec; simpl;
        try (split; simpl; [unfold flags_clean; simpl; intro; discriminate|discriminate]).
      destruct (read_logs LOGS (u_cbn u) ra) as [cnt r]. destruct r as [[| | |]|]; simpl;
        try (split; simpl; [unfold flags_clean; simpl; intro; discriminate|discriminate]);
        (split; simpl; [reflexivity|discriminate]).
    + split; simpl; [unfold flags_clean; simpl; intro; discriminate|discriminate].
  - (* open *)
    destruct (u_open u) eqn:Eo; simpl; [exact H|].
    destruct alive; simpl.
    + destruct (u_conn u) eqn:Ec; simpl;
        try (split; simpl; [unfold flags_clean; simpl; intro; discriminate|discriminate]).
      destruct (read_logs LOGS (u_cbn u) ra) as [cnt r]. destruct r; simpl.
      * split; simpl; [unfold flags_clean; simpl; intro; discriminate|discriminate].
      * split; simpl.
        -- unfold flags_clean; simpl. destruct (f_inflight (u_fl u)); simpl; intro; discriminate.
        -- intros m0 _. auto.
    + split; simpl; [unfold flags_clean; simpl; intro; discriminate|discriminate].
  - (* tick *)
    destruct (u_open u) as [m|] eqn:Eo; simpl; [|exact H].
    destruct (H2 m eq_refl) as (Ha & Hb & Hc).
    assert (Hnc : flags_clean (u_fl u) = false) by (apply not_clean_undrained; assumption).
    assert (Hopen : forall c n, ustate_ok (mkU c (u_fl u) (Some m) n)).
    { intros c n. split; simpl; [rewrite Hnc; intro; discriminate|intros m0 _; auto]. }
    destruct alive; simpl; [|apply closed_undrained_ok; assumption].
    destruct (u_conn u) eqn:Ec; simpl; try apply Hopen.
    destruct (read_logs LOGS (u_cbn u) ra) as [cnt r]. destruct r as [[| | |]|]; simpl; try apply Hopen.
    + apply do_close_ok; [exact HD|apply Hopen|simpl; discriminate].
    + apply closed_undrained_ok; assumption.
  - (* close *)
    destruct (u_open u) eqn:Eo; simpl; [|exact H]. apply do_close_ok; [exact HD|exact H|congruence].
  - (* cancel *)
    destruct (u_open u) eqn:Eo; simpl; [|exact H]. apply do_cancel_ok; [exact HD|exact H|congruence].
Qed.

(* ------------------------------------------------------------------------------------------------ *)
(* The invariant                                                                                      *)
Definition olist (t : thread) : list nat := match owner_of t with Some p => [p] | None => [] end.

Lemma owned_app l1 l2 : owned (l1 ++ l2) = owned l1 ++ owned l2.
Proof. unfold owned. apply flat_map_app. Qed.
Lemma owned_cons t l : owned (t :: l) = olist t ++ owned l.
Proof. reflexivity. Qed.

Definition wf_local (g : world) (t : thread) : Prop :=
  match t with
  | TB b =>
      match b_pc b with
      | BStart | BLock | BSpawn =>
          b_pid b = None /\ ustate_ok (mkU Boundary (b_fl b) (b_open b) (b_cbn b))
      | BSpawnFail | BDone => b_pid b = None
      | BCount | BUse =>
          exists p, b_pid b = Some p /\ ustate_ok (mkU (conn_of g p) (b_fl b) (b_open b) (b_cbn b))
      | BRetPoll ab => exists p, b_pid b = Some p /\ (ab = false -> conn_of g p = Boundary)
      | BRetDead | BRetAb => exists p, b_pid b = Some p
      | BRetLock => exists p, b_pid b = Some p /\ conn_of g p = Boundary
      end
  | _ => True
  end.

Record Inv (max : nat) (s : state) : Prop := mkInv {
  i_nodup : NoDup (owned (snd s) ++ idle_pids (g_idle (fst s)));
  i_bound : forall p, In p (owned (snd s) ++ idle_pids (g_idle (fst s))) -> p < length (g_workers (fst s));
  i_count : idle_total (g_idle (fst s)) <= max;
  i_clean : forall p, In p (idle_pids (g_idle (fst s))) -> conn_of (fst s) p = Boundary;
  i_nonempty : nonempty (g_idle (fst s));
  i_local : Forall (wf_local (fst s)) (snd s);
  i_hand : Forall handout_ok (g_handouts (fst s))
}.

Lemma wf_local_frame g g' t :
  (forall q, In q (olist t) -> conn_of g' q = conn_of g q) -> wf_local g t -> wf_local g' t.
Proof.
  intros Hf. destruct t as [b| |]; simpl; auto. unfold olist in Hf; simpl in Hf.
  destruct (b_pc b); auto; try (intros (p & Hp); rewrite Hp in Hf; exists p; exact Hp);
    intros (p & Hp & H); rewrite Hp in Hf;
    assert (Hc : conn_of g' p = conn_of g p) by (apply Hf; simpl; auto);
    exists p; (split; [exact Hp|]); try rewrite Hc; auto.
Qed.

Lemma NoDup_app_disj {A} (a b : list A) x : NoDup (a ++ b) -> In x a -> ~ In x b.
Proof.
  induction a as [|y r IH]; simpl; intros Hn Ha Hb; [contradiction|].
  inversion Hn as [|? ? Hy Hr]; subst. destruct Ha as [->|Ha].
  - apply Hy. apply in_or_app; right; exact Hb.
  - exact (IH Hr Ha Hb).
Qed.

(* the general preservation lemma for a step of the thread standing between l1 and l2 *)
Lemma inv_thread_step max g g' l1 t t' l2 fresh :
  Inv max (g, l1 ++ t :: l2) ->
  Sub (olist t' ++ idle_pids (g_idle g')) (fresh ++ olist t ++ idle_pids (g_idle g)) ->
  (fresh = [] /\ length (g_workers g') = length (g_workers g) \/
   fresh = [length (g_workers g)] /\ length (g_workers g') = S (length (g_workers g))) ->
  (forall q, q < length (g_workers g) -> ~ In q (olist t) -> conn_of g' q = conn_of g q) ->
  (forall p, In p (idle_pids (g_idle g')) -> In p (fresh ++ olist t) -> conn_of g' p = Boundary) ->
  idle_total (g_idle g') <= max ->
  nonempty (g_idle g') ->
  wf_local g' t' ->
  Forall handout_ok (g_handouts g') ->
  Inv max (g', l1 ++ t' :: l2).
Proof.
  intros [Hn Hb Hc Hcl Hne Hl Hh] Hsub Hlen Hframe Hnew Hcount Hne' Hwf Hh'. simpl in *.
  rewrite owned_app, owned_cons in Hn, Hb.
  set (I := idle_pids (g_idle g)) in *. set (I' := idle_pids (g_idle g')) in *.
  assert (HP : Permutation (fresh ++ (owned l1 ++ olist t ++ owned l2) ++ I)
                           ((owned l1 ++ owned l2) ++ (fresh ++ olist t ++ I))).
  { rewrite <- !app_assoc.
    etransitivity; [apply Permutation_app_swap_app|].
    apply Permutation_app_head.
    rewrite (app_assoc fresh (olist t)). etransitivity; [apply Permutation_app_swap_app|].
    rewrite <- !app_assoc. reflexivity. }
  assert (HS : Sub ((owned l1 ++ olist t' ++ owned l2) ++ I') (fresh ++ (owned l1 ++ olist t ++ owned l2) ++ I)).
  { eapply Sub_perm_r; [symmetry; exact HP|].
    eapply Sub_perm_l with (a := (owned l1 ++ owned l2) ++ (olist t' ++ I')).
    - rewrite <- !app_assoc. apply Permutation_app_head. apply Permutation_app_swap_app.
    - apply Sub_app; [apply Sub_refl|exact Hsub]. }
  assert (Hfresh : NoDup (fresh ++ (owned l1 ++ olist t ++ owned l2) ++ I)).
  { destruct Hlen as [[-> _]|[-> _]]; simpl; [exact Hn|]. constructor; [|exact Hn].
    intro Hin. apply Hb in Hin. lia. }
  assert (Hold : forall p, In p ((owned l1 ++ olist t ++ owned l2) ++ I) -> p < length (g_workers g)) by exact Hb.
  constructor; simpl; rewrite ?owned_app, ?owned_cons.
  - eapply Sub_NoDup; [exact HS|exact Hfresh].
  - intros p Hp. apply (Sub_incl _ _ HS) in Hp. apply in_app_or in Hp as [Hp|Hp].
    + destruct Hlen as [[-> _]|[-> Hl']]; simpl in Hp; [contradiction|]. destruct Hp as [<-|[]]. lia.
    + apply Hold in Hp. destruct Hlen as [[_ Hl']|[_ Hl']]; lia.
  - exact Hcount.
  - intros p Hp.
    assert (Hp' : In p (fresh ++ olist t ++ I)).
    { apply (Sub_incl _ _ Hsub). apply in_or_app; right; exact Hp. }
    rewrite app_assoc in Hp'. apply in_app_or in Hp' as [Hp'|Hp']; [apply Hnew; assumption|].
    destruct (in_dec Nat.eq_dec p (olist t)) as [Hin|Hnin].
    + apply Hnew; [exact Hp|apply in_or_app; right; exact Hin].
    + rewrite Hframe; [apply Hcl; exact Hp'| |exact Hnin].
      apply Hold. apply in_or_app; right; exact Hp'.
  - exact Hne'.
  - apply Forall_app in Hl as [Hl1 Hl2]. inversion Hl2 as [|? ? _ Hl2']; subst.
    assert (Hothers : forall t0, In t0 (l1 ++ l2) -> wf_local g t0 -> wf_local g' t0).
    { intros t0 Hin Hw. apply (wf_local_frame g g'); [|exact Hw]. intros q Hq. apply Hframe.
      - apply Hold. apply in_or_app; left. apply in_app_or in Hin as [Hin|Hin].
        + apply in_or_app; left. unfold owned. apply in_flat_map. exists t0. split; assumption.
        + apply in_or_app; right; apply in_or_app; right. unfold owned. apply in_flat_map. exists t0. split; assumption.
      - intro Hqt. (* q owned by t0 and by t: contradicts NoDup *)
        apply NoDup_app_remove_r in Hn.
        apply in_app_or in Hin as [Hin|Hin].
        + apply in_split in Hin as (a & b & ->). rewrite owned_app, owned_cons in Hn.
          rewrite <- !app_assoc in Hn. apply NoDup_app_remove_l in Hn.
          apply in_split in Hq as (x & y & Hq). rewrite Hq in Hn. rewrite <- !app_assoc in Hn.
          apply NoDup_app_remove_l in Hn. simpl in Hn. inversion Hn as [|? ? Hni _]; subst.
          apply Hni. apply in_or_app; right. apply in_or_app; right. apply in_or_app; left. exact Hqt.
        + apply in_split in Hin as (a & b & ->). rewrite owned_app, owned_cons in Hn.
          apply NoDup_app_remove_l in Hn.
          apply in_split in Hqt as (x & y & Hqt). rewrite Hqt in Hn. rewrite <- !app_assoc in Hn.
          apply NoDup_app_remove_l in Hn. simpl in Hn. inversion Hn as [|? ? Hni _]; subst.
          apply Hni. apply in_or_app; right. apply in_or_app; right. apply in_or_app; left. exact Hq. }
    apply Forall_app; split.
    + rewrite Forall_forall in *. intros t0 Ht0. apply Hothers; [apply in_or_app; left; exact Ht0|apply Hl1; exact Ht0].
    + constructor; [exact Hwf|]. rewrite Forall_forall in *. intros t0 Ht0.
      apply Hothers; [apply in_or_app; right; exact Ht0|apply Hl2'; exact Ht0].
  - exact Hh'.
Qed.

(* steps that touch neither the idle dictionary nor any connection *)
Lemma inv_quiet max g g' l1 t t' l2 :
  Inv max (g, l1 ++ t :: l2) ->
  g_idle g' = g_idle g -> length (g_workers g') = length (g_workers g) ->
  (forall q, conn_of g' q = conn_of g q) -> g_handouts g' = g_handouts g ->
  Sub (olist t') (olist t) -> wf_local g' t' -> Inv max (g', l1 ++ t' :: l2).
Proof.
  intros HI Hi Hl Hc Hh Hs Hw. pose proof HI as [Hn Hb Hcnt Hcl Hne Hloc Hha]. simpl in *.
  apply (inv_thread_step max g g' l1 t t' l2 []); auto; simpl; rewrite ?Hi, ?Hh; auto.
  - apply Sub_app; [exact Hs|apply Sub_refl].
  - intros p Hp _. rewrite Hc. apply Hcl. exact Hp.
Qed.

Lemma inv_env max g g' ths :
  Inv max (g, ths) ->
  g_idle g' = g_idle g -> length (g_workers g') = length (g_workers g) ->
  (forall q, conn_of g' q = conn_of g q) -> g_handouts g' = g_handouts g ->
  Inv max (g', ths).
Proof.
  intros [Hn Hb Hcnt Hcl Hne Hloc Hha] Hi Hl Hc Hh. simpl in *.
  constructor; simpl; rewrite ?Hi, ?Hl, ?Hh; auto.
  - intros p Hp. rewrite Hc. auto.
  - eapply Forall_impl; [|exact Hloc]. intros t Ht. apply (wf_local_frame g g'); auto.
Qed.

Lemma nth_error_split_len {A} (l : list A) i x :
  nth_error l i = Some x -> exists l1 l2, l = l1 ++ x :: l2 /\ length l1 = i.
Proof. apply nth_error_split. Qed.

Lemma in_idle_pids p t d : In (p, t) (idle_entries d) -> In p (idle_pids d).
Proof. intro H. unfold idle_pids. change p with (fst (p, t)). apply in_map. exact H. Qed.

Lemma owned_not_idle max g l1 t l2 p :
  Inv max (g, l1 ++ t :: l2) -> In p (olist t) -> ~ In p (idle_pids (g_idle g)).
Proof.
  intros [Hn _ _ _ _ _ _] Hp. simpl in Hn. apply (NoDup_app_disj _ _ p Hn).
  rewrite owned_app, owned_cons. apply in_or_app; right. apply in_or_app; left. exact Hp.
Qed.

Lemma owned_bound max g l1 t l2 p :
  Inv max (g, l1 ++ t :: l2) -> In p (olist t) -> p < length (g_workers g).
Proof.
  intros [_ Hb _ _ _ _ _] Hp. simpl in Hb. apply Hb. apply in_or_app; left.
  rewrite owned_app, owned_cons. apply in_or_app; right. apply in_or_app; left. exact Hp.
Qed.

Lemma conn_of_spawn_old g w q x :
  q < length (g_workers g) -> conn_of (set_handouts x (set_workers (g_workers g ++ [w]) g)) q = conn_of g q.
Proof. intro H. unfold conn_of; simpl. rewrite nth_error_app1; auto. Qed.
Lemma conn_of_spawn_new g w x :
  conn_of (set_handouts x (set_workers (g_workers g ++ [w]) g)) (length (g_workers g)) = w_conn w.
Proof. unfold conn_of; simpl. rewrite nth_error_app2; [|lia]. rewrite Nat.sub_diag. reflexivity. Qed.

Section Steps.
  Variable C : cfg.
  Variable max timeout : nat.
  Hypothesis Hok : cfg_ok C.

  Ltac quiet g b l1 := apply (inv_quiet max g _ l1 (TB b)); [assumption|reflexivity|try reflexivity|intro; try reflexivity|reflexivity| |].

  Lemma bstep_inv i g b l1 l2 :
    Inv max (g, l1 ++ TB b :: l2) ->
    Inv max (fst (bstep C max i g b), l1 ++ TB (snd (bstep C max i g b)) :: l2).
  Proof.
    intro HI. pose proof HI as [Hn Hb Hcnt Hcl Hne Hloc Hha]. simpl in *.
    assert (Hw : wf_local g (TB b)).
    { apply Forall_app in Hloc as [_ Hl2]. inversion Hl2; assumption. }
    simpl in Hw. unfold bstep. destruct (b_pc b) eqn:Epc.
    - (* BStart *)
      destruct (g_closed g); cbn [fst snd]; quiet g b l1; try apply Sub_refl; simpl; tauto.
    - (* BLock *)
      destruct Hw as [Hpid Hu].
      assert (Hol : olist (TB b) = []) by (unfold olist; simpl; rewrite Hpid; reflexivity).
      cbn [g_idle set_active bump set_cnt].
      destruct (idle_pop (b_key b) (g_idle g)) as [[[p t0] d']|] eqn:Ep.
      + pose proof (idle_pop_perm _ _ _ _ Ep) as Hperm.
        pose proof (idle_pop_nonempty _ _ _ _ Ep Hne) as Hne'.
        assert (Hpin : In p (idle_pids (g_idle g))).
        { apply (in_idle_pids p t0). eapply Permutation_in; [symmetry; exact Hperm|]. left; reflexivity. }
        assert (Hpp : Permutation (idle_pids (g_idle g)) (p :: idle_pids d')).
        { unfold idle_pids. change (p :: map fst (idle_entries d')) with (map fst ((p, t0) :: idle_entries d')).
          apply Permutation_map. exact Hperm. }
        assert (Hlen' : idle_total d' <= max).
        { unfold idle_total in *. apply Permutation_length in Hperm. simpl in Hperm. lia. }
        set (g2 := bump K_reuses 1 _).
        assert (Ha2 : forall q, alive_of g2 q = alive_of g q) by (intro; reflexivity).
        assert (Hc2 : forall q, conn_of g2 q = conn_of g q) by (intro; reflexivity).
        assert (Hh2 : g_handouts g2 = g_handouts g) by reflexivity.
        rewrite !Ha2, !Hc2, Hh2. destruct (alive_of g p) eqn:Ealive; cbn [fst snd].
        * apply (inv_thread_step max g _ l1 (TB b) _ l2 []).
          -- exact HI.
          -- rewrite Hol. apply Sub_perm. exact Hpp.
          -- left. split; reflexivity.
          -- intros q _ _. reflexivity.
          -- rewrite Hol. intros q _ Hq. contradiction.
          -- exact Hlen'.
          -- exact Hne'.
          -- cbn. exists p. split; [reflexivity|].
             replace (conn_of _ p) with Boundary; [exact Hu|]. symmetry. apply (Hcl p Hpin).
          -- cbn. apply Forall_app; split; [exact Hha|]. constructor; [|constructor].
             intros _. cbn. split; [reflexivity|]. rewrite (Hcl p Hpin). reflexivity.
        * apply (inv_thread_step max g _ l1 (TB b) _ l2 []).
          -- exact HI.
          -- rewrite Hol. unfold olist; cbn. rewrite Hpid. cbn.
             eapply Sub_perm_r; [symmetry; exact Hpp|]. apply Sub_cons_drop.
          -- left. split; [reflexivity|]. rewrite length_terminate. reflexivity.
          -- intros q _ _. rewrite conn_of_terminate. reflexivity.
          -- rewrite Hol. intros q _ Hq. contradiction.
          -- exact Hlen'.
          -- exact Hne'.
          -- cbn. tauto.
          -- exact Hha.
      + cbn [fst snd]. quiet g b l1; [apply Sub_refl|simpl; tauto].
    - (* BSpawn *)
      destruct Hw as [Hpid Hu].
      assert (Hol : olist (TB b) = []) by (unfold olist; simpl; rewrite Hpid; reflexivity).
      destruct (b_spawn_ok b); cbn [fst snd].
      + apply (inv_thread_step max g _ l1 (TB b) _ l2 [length (g_workers g)]).
        * exact HI.
        * rewrite Hol. apply Sub_refl.
        * right. split; [reflexivity|]. cbn. rewrite app_length. simpl. lia.
        * intros q Hq _. apply conn_of_spawn_old. exact Hq.
        * rewrite Hol. cbn. intros q Hq [<-|[]]. exfalso.
          assert (length (g_workers g) < length (g_workers g)); [|lia].
          apply Hb. apply in_or_app; right. exact Hq.
        * exact Hcnt.
        * exact Hne.
        * cbn. exists (length (g_workers g)). split; [reflexivity|]. rewrite conn_of_spawn_new. exact Hu.
        * cbn. apply Forall_app; split; [exact Hha|]. constructor; [|constructor]. intro H; discriminate.
      + quiet g b l1; [apply Sub_refl|simpl; tauto].
    - (* BSpawnFail *)
      cbn [fst snd]. quiet g b l1; [apply Sub_refl|simpl; tauto].
    - (* BCount *)
      cbn [fst snd]. quiet g b l1; [apply Sub_refl|simpl; tauto].
    - (* BUse *)
      destruct Hw as (p & Hpid & Hu). rewrite Hpid.
      assert (Hol : olist (TB b) = [p]) by (unfold olist; simpl; rewrite Hpid; reflexivity).
      assert (Hplt : p < length (g_workers g)) by (apply (owned_bound max g l1 (TB b) l2); [exact HI|rewrite Hol; left; reflexivity]).
      assert (Hpni : ~ In p (idle_pids (g_idle g))) by (apply (owned_not_idle max g l1 (TB b) l2); [exact HI|rewrite Hol; left; reflexivity]).
      rewrite (ok_track C Hok).
      set (u := mkU (conn_of g p) (b_fl b) (b_open b) (b_cbn b)) in *.
      assert (Hfin : forall u0, ustate_ok u0 ->
        Inv max (set_conn p (u_conn (do_exit true (c_drains C) (alive_of g p) (b_raise b) u0)) g,
                 l1 ++ TB (mkB (BRetPoll (if alive_of g p then c_abandoned C (u_fl (do_exit true (c_drains C) (alive_of g p) (b_raise b) u0)) else true))
                              (b_key b) (b_spawn_ok b) [] (b_raise b) (u_cbn (do_exit true (c_drains C) (alive_of g p) (b_raise b) u0)) (Some p)
                              (u_fl (do_exit true (c_drains C) (alive_of g p) (b_raise b) u0)) (u_open (do_exit true (c_drains C) (alive_of g p) (b_raise b) u0))) :: l2)).
      { intros u0 Hu0. pose proof (do_exit_ok (c_drains C) (alive_of g p) (b_raise b) u0 (ok_drains C Hok) Hu0) as [Hx1 Hx2].
        set (u' := do_exit true (c_drains C) (alive_of g p) (b_raise b) u0) in *.
        apply (inv_thread_step max g _ l1 (TB b) _ l2 []).
        - exact HI.
        - rewrite Hol. apply Sub_refl.
        - left. split; [reflexivity|]. cbn. apply length_upd_nth.
        - rewrite Hol. intros q _ Hq. apply conn_of_set_conn_other. intro Heq. apply Hq. left; auto.
        - rewrite Hol. cbn. intros q Hq [<-|[]]. contradiction.
        - exact Hcnt.
        - exact Hne.
        - cbn. exists p. split; [reflexivity|]. rewrite conn_of_set_conn_same by exact Hplt.
          intro Hab. destruct (alive_of g p); [|discriminate]. apply Hx1. apply (ok_abandoned C Hok). exact Hab.
        - exact Hha. }
      destruct (b_ops b) as [|o rest].
      + cbn [fst snd]. apply Hfin. exact Hu.
      + pose proof (do_op_ok (c_drains C) (alive_of g p) (b_raise b) o u (ok_drains C Hok) Hu) as Hu1.
        destruct (do_op true (c_drains C) (alive_of g p) (b_raise b) o u) as [u1 raised]. cbn [fst] in Hu1.
        destruct raised; cbn [fst snd].
        * apply Hfin. exact Hu1.
        * apply (inv_thread_step max g _ l1 (TB b) _ l2 []).
          -- exact HI.
          -- rewrite Hol. unfold olist; cbn. rewrite ?Hpid. apply Sub_refl.
          -- left. split; [reflexivity|]. cbn. apply length_upd_nth.
          -- rewrite Hol. intros q _ Hq. apply conn_of_set_conn_other. intro Heq. apply Hq. left; auto.
          -- rewrite Hol. cbn. intros q Hq [<-|[]]. contradiction.
          -- exact Hcnt.
          -- exact Hne.
          -- cbn. exists p. split; [first [exact Hpid|reflexivity]|]. rewrite conn_of_set_conn_same by exact Hplt.
             destruct u1; exact Hu1.
          -- exact Hha.
    - (* BRetPoll *)
      destruct Hw as (p & Hpid & Hc). rewrite Hpid.
      destruct (alive_of g p); cbn [fst snd]; [destruct ab|]; quiet g b l1; try apply Sub_refl; cbn; eauto.
    - (* BRetDead *)
      destruct Hw as (p & Hpid). rewrite Hpid. cbn [fst snd].
      apply (inv_quiet max g _ l1 (TB b)); [assumption|reflexivity|rewrite length_terminate; reflexivity|intro; rewrite conn_of_terminate; reflexivity|reflexivity|apply Sub_nil|reflexivity].
    - (* BRetAb *)
      destruct Hw as (p & Hpid). rewrite Hpid. cbn [fst snd].
      apply (inv_quiet max g _ l1 (TB b)); [assumption|reflexivity|rewrite length_terminate; reflexivity|intro; rewrite conn_of_terminate; reflexivity|reflexivity|apply Sub_nil|reflexivity].
    - (* BRetLock *)
      destruct Hw as (p & Hpid & Hc). rewrite Hpid.
      assert (Hol : olist (TB b) = [p]) by (unfold olist; simpl; rewrite Hpid; reflexivity).
      cbn [g_closed set_active].
      destruct (c_discard C (g_closed g) max) eqn:Ed; cbn [fst snd].
      + apply (inv_quiet max g _ l1 (TB b)); [assumption|reflexivity|rewrite length_terminate; reflexivity|intro; rewrite conn_of_terminate; reflexivity|reflexivity|apply Sub_nil|reflexivity].
      + pose proof (ok_discard C Hok _ _ Ed) as Hm1.
        cbn [g_idle g_now set_active].
        assert (Hev : exists d1 ev,
                   (if c_evict C (idle_total (g_idle g)) max then idle_evict (g_idle g) else (g_idle g, None)) = (d1, ev) /\
                   nonempty d1 /\ Sub (idle_pids d1) (idle_pids (g_idle g)) /\ S (idle_total d1) <= max).
        { destruct (c_evict C (idle_total (g_idle g)) max) eqn:Ee.
          - destruct (idle_evict (g_idle g)) as [d1 ev] eqn:E1. exists d1, ev. split; [reflexivity|].
            destruct (idle_evict_spec _ _ _ Hne E1) as [Hn1 Hs1]. split; [exact Hn1|].
            destruct ev as [e|].
            + destruct Hs1 as [t Hp]. split.
              * unfold idle_pids. eapply Sub_perm_r; [symmetry; apply Permutation_map; exact Hp|]. simpl. apply Sub_cons_drop.
              * unfold idle_total in *. apply Permutation_length in Hp. simpl in Hp. lia.
            + destruct Hs1 as [-> Hd]. split; [apply Sub_refl|]. rewrite Hd. simpl. exact Hm1.
          - exists (g_idle g), None. split; [reflexivity|]. split; [exact Hne|]. split; [apply Sub_refl|].
            apply (ok_evict C Hok) in Ee. lia. }
        destruct Hev as (d1 & ev & -> & Hn1 & Hs1 & Hc1).
        assert (Happ : Permutation (idle_pids (idle_append (b_key b) (p, g_now g) d1)) (p :: idle_pids d1)).
        { unfold idle_pids. change (p :: map fst (idle_entries d1)) with (map fst ((p, g_now g) :: idle_entries d1)).
          apply Permutation_map. apply idle_append_perm. }
        assert (Htot : idle_total (idle_append (b_key b) (p, g_now g) d1) = S (idle_total d1)).
        { unfold idle_total. rewrite (Permutation_length (idle_append_perm _ _ _)). reflexivity. }
        destruct ev as [e|]; cbn [fst snd];
          (apply (inv_thread_step max g _ l1 (TB b) _ l2 []);
           [ exact HI
           | rewrite Hol; unfold olist; cbn [g_idle g_now terminate set_workers bump set_cnt set_idle set_active]; cbn [owner_of b_pid app];
             (eapply Sub_perm_l; [symmetry; exact Happ|]; apply (Sub_app [p] [p]); [apply Sub_refl|exact Hs1])
           | left; split; [reflexivity|]; rewrite ?length_terminate; reflexivity
           | intros q _ _; rewrite ?conn_of_terminate; reflexivity
           | rewrite Hol; cbn; intros q _ [<-|[]]; rewrite ?conn_of_terminate; exact Hc
           | cbn [g_idle g_now terminate set_workers bump set_cnt set_idle set_active]; rewrite Htot; exact Hc1
           | cbn [g_idle g_now terminate set_workers bump set_cnt set_idle set_active]; apply nonempty_append; exact Hn1
           | cbn; reflexivity
           | exact Hha ]).
    - (* BDone *)
      cbn [fst snd]. quiet g b l1; [apply Sub_refl|simpl; rewrite Epc; exact Hw].
  Qed.

  Lemma rstep_inv g r l1 l2 :
    Inv max (g, l1 ++ TR r :: l2) ->
    Inv max (fst (rstep timeout g r), l1 ++ TR (snd (rstep timeout g r)) :: l2).
  Proof.
    intro HI. pose proof HI as [Hn Hb Hcnt Hcl Hne Hloc Hha]. simpl in *.
    destruct r as [|now|]; simpl.
    - destruct (g_stop g); cbn [fst snd];
        (apply (inv_quiet max g g l1 (TR RWait)); [assumption|reflexivity|reflexivity|reflexivity|reflexivity|apply Sub_refl|exact I]).
    - destruct (idle_reap now timeout (g_idle g)) as [ex d'] eqn:Er. cbn [fst snd].
      destruct (idle_reap_spec _ _ _ _ _ Er) as [Hs Hn'].
      destruct (terminate_all_facts ex (bump K_ev_idle (length ex) (set_idle d' g))) as (F1 & F2 & F3 & F4).
      apply (inv_thread_step max g _ l1 (TR (RLock now)) _ l2 []).
      + exact HI.
      + rewrite F2. cbn. unfold idle_pids. apply Sub_map. exact Hs.
      + left. split; [reflexivity|]. rewrite F1. reflexivity.
      + intros q _ _. rewrite F4. reflexivity.
      + cbn. intros q _ Hq. contradiction.
      + rewrite F2. pose proof (Sub_length _ _ Hs) as Hl. unfold idle_total in *. cbn [g_idle bump set_cnt set_idle]. lia.
      + rewrite F2. exact Hn'.
      + exact I.
      + rewrite F3. exact Hha.
    - cbn [fst snd]. apply (inv_quiet max g g l1 (TR RDone)); [assumption|reflexivity|reflexivity|reflexivity|reflexivity|apply Sub_refl|exact I].
  Qed.

  Lemma cstep_inv g c l1 l2 :
    Inv max (g, l1 ++ TC c :: l2) ->
    Inv max (fst (cstep g c), l1 ++ TC (snd (cstep g c)) :: l2).
  Proof.
    intro HI. pose proof HI as [Hn Hb Hcnt Hcl Hne Hloc Hha]. simpl in *.
    destruct c; simpl.
    - destruct (g_closed g); cbn [fst snd];
        (apply (inv_quiet max g _ l1 (TC CStart)); [assumption|reflexivity|reflexivity|reflexivity|reflexivity|apply Sub_refl|exact I]).
    - apply (inv_quiet max g g l1 (TC CJoin)); [assumption|reflexivity|reflexivity|reflexivity|reflexivity|apply Sub_refl|exact I].
    - destruct (terminate_all_facts (idle_pids (g_idle g)) (bump K_discards (length (idle_pids (g_idle g))) (set_idle [] g))) as (F1 & F2 & F3 & F4).
      apply (inv_thread_step max g _ l1 (TC CCollect) _ l2 []).
      + exact HI.
      + rewrite F2. cbn. apply Sub_nil.
      + left. split; [reflexivity|]. rewrite F1. reflexivity.
      + intros q _ _. rewrite F4. reflexivity.
      + cbn. intros q _ Hq. contradiction.
      + rewrite F2. cbn. lia.
      + rewrite F2. constructor.
      + exact I.
      + rewrite F3. exact Hha.
    - apply (inv_quiet max g g l1 (TC CDone)); [assumption|reflexivity|reflexivity|reflexivity|reflexivity|apply Sub_refl|exact I].
  Qed.

  Lemma step_inv s x : Inv max s -> Inv max (step C max timeout s x).
  Proof.
    destruct s as [g ths]. intro HI. destruct x as [|p|i]; simpl.
    - apply (inv_env max g); [exact HI|reflexivity|reflexivity|reflexivity|reflexivity].
    - apply (inv_env max g); [exact HI|reflexivity| |intro; apply conn_of_kill|reflexivity].
      unfold kill; simpl. apply length_upd_nth.
    - destruct (nth_error ths i) as [t|] eqn:En; [|exact HI].
      destruct (nth_error_split_len _ _ _ En) as (l1 & l2 & -> & Hlen). subst i.
      destruct t as [b|r|c]; simpl.
      + pose proof (bstep_inv (length l1) g b l1 l2 HI) as H.
        destruct (bstep C max (length l1) g b) as [g' b']. rewrite upd_nth_split. exact H.
      + pose proof (rstep_inv g r l1 l2 HI) as H.
        destruct (rstep timeout g r) as [g' r']. rewrite upd_nth_split. exact H.
      + pose proof (cstep_inv g c l1 l2 HI) as H.
        destruct (cstep g c) as [g' c']. rewrite upd_nth_split. exact H.
  Qed.

  Lemma run_inv sch : forall s, Inv max s -> Inv max (run C max timeout s sch).
  Proof.
    induction sch as [|x r IH]; intros s H; simpl; [exact H|]. apply IH. apply step_inv. exact H.
  Qed.

  Lemma wf_init_thread g sp : wf_local g (init_thread sp).
  Proof.
    destruct sp; simpl; auto. split; [reflexivity|]. split; simpl; [reflexivity|]. intros m H; discriminate.
  Qed.

  Lemma owned_init specs : owned (map init_thread specs) = [].
  Proof.
    induction specs as [|sp r IH]; [reflexivity|]. change (map init_thread (sp :: r)) with (init_thread sp :: map init_thread r).
    rewrite owned_cons, IH. destruct sp; reflexivity.
  Qed.

  Lemma init_inv specs : Inv max (init specs).
  Proof.
    unfold init. constructor; simpl; rewrite ?owned_init; simpl.
    - constructor.
    - intros p [].
    - unfold idle_total; simpl; lia.
    - intros p [].
    - constructor.
    - rewrite Forall_forall. intros t Ht. apply in_map_iff in Ht as (sp & <- & _). apply wf_init_thread.
    - constructor.
  Qed.

  Theorem reachable_inv specs sch : Inv max (run C max timeout (init specs) sch).
  Proof. apply run_inv. apply init_inv. Qed.

  (* ---- the three statements ---- *)
  Theorem exclusive_owner specs sch :
    let s := run C max timeout (init specs) sch in
    NoDup (owned (snd s) ++ idle_pids (g_idle (fst s))).
  Proof. intro s. apply (i_nodup max s). apply reachable_inv. Qed.

  Lemma owned_nth ths i p : option_map owner_of (nth_error ths i) = Some (Some p) ->
    exists a b, ths = a ++ b /\ length a = i /\ exists t r, b = t :: r /\ owner_of t = Some p.
  Proof.
    destruct (nth_error ths i) as [t|] eqn:E; simpl; [|discriminate]. intro H; inversion H as [H1].
    destruct (nth_error_split _ _ E) as (a & r & -> & Hl). exists a, (t :: r). repeat split; auto. exists t, r. auto.
  Qed.

  Theorem owner_unique specs sch i j p :
    let s := run C max timeout (init specs) sch in
    option_map owner_of (nth_error (snd s) i) = Some (Some p) ->
    option_map owner_of (nth_error (snd s) j) = Some (Some p) ->
    i = j /\ ~ In p (idle_pids (g_idle (fst s))).
  Proof.
    intros s Hi Hj. pose proof (exclusive_owner specs sch) as Hn. fold s in Hn. simpl in Hn.
    set (ths := snd s) in *.
    assert (Hown : forall k, option_map owner_of (nth_error ths k) = Some (Some p) -> In p (owned ths)).
    { intros k Hk. destruct (nth_error ths k) as [t|] eqn:E; [|discriminate]. simpl in Hk. inversion Hk as [H1].
      unfold owned. apply in_flat_map. exists t. split; [eapply nth_error_In; exact E|]. rewrite H1. left; reflexivity. }
    split; [|apply (NoDup_app_disj _ _ p Hn); apply (Hown i Hi)].
    apply NoDup_app_remove_r in Hn.
    destruct (Nat.lt_trichotomy i j) as [Hlt|[Heq|Hgt]]; [exfalso|exact Heq|exfalso].
    - destruct (owned_nth _ _ _ Hi) as (a & b & Hab & Hla & t & r & -> & Ht).
      rewrite Hab in Hj, Hn. rewrite nth_error_app2 in Hj by lia.
      destruct (j - length a) as [|k] eqn:Ek; [lia|]. simpl in Hj.
      rewrite owned_app, owned_cons in Hn. apply NoDup_app_remove_l in Hn.
      unfold olist in Hn. rewrite Ht in Hn. simpl in Hn. inversion Hn as [|? ? Hni _]; subst. apply Hni.
      destruct (nth_error r k) as [t2|] eqn:E2; [|discriminate]. simpl in Hj. inversion Hj as [H2].
      unfold owned. apply in_flat_map. exists t2. split; [eapply nth_error_In; exact E2|]. rewrite H2. left; reflexivity.
    - destruct (owned_nth _ _ _ Hj) as (a & b & Hab & Hla & t & r & -> & Ht).
      rewrite Hab in Hi, Hn. rewrite nth_error_app2 in Hi by lia.
      destruct (i - length a) as [|k] eqn:Ek; [lia|]. simpl in Hi.
      rewrite owned_app, owned_cons in Hn. apply NoDup_app_remove_l in Hn.
      unfold olist in Hn. rewrite Ht in Hn. simpl in Hn. inversion Hn as [|? ? Hni _]; subst. apply Hni.
      destruct (nth_error r k) as [t2|] eqn:E2; [|discriminate]. simpl in Hi. inversion Hi as [H2].
      unfold owned. apply in_flat_map. exists t2. split; [eapply nth_error_In; exact E2|]. rewrite H2. left; reflexivity.
  Qed.

  Theorem idle_le_max_idle specs sch :
    idle_total (g_idle (fst (run C max timeout (init specs) sch))) <= max.
  Proof. apply (i_count max _ (reachable_inv specs sch)). Qed.

  Theorem reuse_only_clean_alive specs sch :
    Forall handout_ok (g_handouts (fst (run C max timeout (init specs) sch))).
  Proof. apply (i_hand max _ (reachable_inv specs sch)). Qed.

  (* the invariant behind the third statement: whatever sits in the idle list is at a message boundary *)
  Theorem idle_workers_clean specs sch p :
    let s := run C max timeout (init specs) sch in
    In p (idle_pids (g_idle (fst s))) -> conn_of (fst s) p = Boundary.
  Proof. intro s. apply (i_clean max s (reachable_inv specs sch)). Qed.
End Steps.
