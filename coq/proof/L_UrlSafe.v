(* C37: a return_to the validator accepts is, for the browser, an allowlisted / loopback origin (or nothing). *)
From Coq Require Import List NArith Bool Lia ZifyBool.
From VGI Require Import Bytes Layout Utf8 M_Url L_Url.
Import ListNotations.
Open Scope N_scope.

(* ---------- characters ---------- *)
Lemma plain_not_forbidden : forall c, plain_char c = true -> forbidden_domain c = false.
Proof. intros c H. unfold plain_char, forbidden_domain, is_lower, is_digit in *. lia. Qed.
Lemma lower_plain_ascii : forall c, c <? 128 = true -> plain_char (lower_ascii c) = true -> forbidden_domain c = false.
Proof.
  intros c Hc H. unfold lower_ascii in H. destruct (is_upper c) eqn:Eu.
  - unfold is_upper, forbidden_domain in *. lia.
  - apply plain_not_forbidden. exact H.
Qed.

(* a character d that str.lower() can only produce from d itself *)
Definition stable (d : N) : Prop := d <? 128 = true /\ is_lower d = false.
Lemma py_lower_char_In_inv : forall d x, stable d -> In d (py_lower_char x) -> x = d.
Proof.
  intros d x [Hd Hl] H. unfold py_lower_char in H.
  destruct (x <? 128) eqn:E1.
  - destruct H as [H|[]]. unfold lower_ascii in H. destruct (is_upper x) eqn:Eu; [|exact H].
    exfalso. unfold is_upper, is_lower in *. lia.
  - destruct (x =? 8490) eqn:E2.
    + destruct H as [H|[]]. exfalso. subst d. cbn in Hl. discriminate.
    + destruct (x =? 304) eqn:E3.
      * destruct H as [H|[H|[]]]; exfalso; subst d; cbn in *; discriminate.
      * destruct H as [H|[]]. exact H.
Qed.
Lemma py_lower_In_inv : forall d s, stable d -> In d (py_lower s) -> In d s.
Proof.
  intros d s Hd. induction s as [|x r IH]; intros H; [exact H|].
  unfold py_lower in H. cbn [flat_map] in H. apply in_app_or in H. destruct H as [H|H].
  - left. apply (py_lower_char_In_inv d x Hd H).
  - right. apply IH. exact H.
Qed.

(* SplitResult.hostname on a non-empty raw host *)
Definition hostname_of (h : str) : str :=
  let '(a, pct, z) := partition 37 h in py_lower a ++ (if pct then [37] else []) ++ z.
Lemma py_hostname_unfold : forall netloc,
  py_hostname netloc = match fst (py_hostinfo netloc) with [] => None | _ :: _ => Some (hostname_of (fst (py_hostinfo netloc))) end.
Proof.
  intros. unfold py_hostname, hostname_of. destruct (fst (py_hostinfo netloc)) as [|c r]; [reflexivity|].
  destruct (partition 37 (c :: r)) as [[a pct] z]. reflexivity.
Qed.

Lemma hostname_of_In_inv : forall d h, stable d -> d <> 37 -> In d (hostname_of h) -> In d h.
Proof.
  intros d h Hd H37 H. unfold hostname_of in H. destruct (partition 37 h) as [[a pct] z] eqn:E.
  destruct (partition_spec _ _ _ _ _ E) as [_ Hs]. destruct pct.
  - subst h. apply in_app_or in H. destruct H as [H|H].
    + apply in_or_app. left. apply py_lower_In_inv; assumption.
    + apply in_app_or in H. destruct H as [[H|[]]|H]; [congruence|]. apply in_or_app. right. right. exact H.
  - destruct Hs as [Hs Hz]. subst a z. apply in_app_or in H. destruct H as [H|H].
    + apply py_lower_In_inv; assumption.
    + cbn in H. contradiction.
Qed.

(* py_lower h is a plain host: the browser's domain-to-ASCII of h is the same string *)
Lemma lower_plain : forall h H, py_lower h = H -> forallb plain_char H = true ->
  idna_map h = Some H /\ (forall c, In c h -> forbidden_domain c = false).
Proof.
  induction h as [|c r IH]; intros H Hl Hp.
  - cbn in Hl. subst H. split; [reflexivity|intros c []].
  - unfold py_lower in Hl. cbn [flat_map] in Hl. fold (py_lower r) in Hl. unfold py_lower_char in Hl.
    destruct (c <? 128) eqn:E1.
    + cbn [app] in Hl. subst H. cbn [forallb] in Hp. apply andb_true_iff in Hp. destruct Hp as [Hc Hr].
      destruct (IH _ eq_refl Hr) as [Hi Hf]. split.
      * cbn [idna_map]. unfold idna_char. rewrite E1. rewrite Hi. reflexivity.
      * intros x [Hx|Hx]; [subst x; apply lower_plain_ascii; assumption|apply Hf; exact Hx].
    + destruct (c =? 8490) eqn:E2.
      * cbn [app] in Hl. subst H. cbn [forallb] in Hp. apply andb_true_iff in Hp. destruct Hp as [_ Hr].
        destruct (IH _ eq_refl Hr) as [Hi Hf]. split.
        -- cbn [idna_map]. unfold idna_char. rewrite E1, E2. rewrite Hi. reflexivity.
        -- intros x [Hx|Hx]; [subst x; apply N.eqb_eq in E2; subst c; reflexivity|apply Hf; exact Hx].
      * exfalso. destruct (c =? 304) eqn:E3.
        -- cbn [app] in Hl. subst H. cbn [forallb] in Hp. rewrite andb_true_iff in Hp. destruct Hp as [_ Hp].
           rewrite andb_true_iff in Hp. destruct Hp as [Hp _]. cbn in Hp. discriminate.
        -- cbn [app] in Hl. subst H. cbn [forallb] in Hp. apply andb_true_iff in Hp. destruct Hp as [Hc _].
           unfold plain_char, is_lower, is_digit in Hc. lia.
Qed.

Lemma pct_decode_id : forall h, has 37 h = false -> pct_decode h = h.
Proof.
  induction h as [|c r IH]; intros H; [reflexivity|].
  unfold has in H. cbn [existsb] in H. apply orb_false_iff in H. destruct H as [Hc Hr].
  cbn [pct_decode]. rewrite N.eqb_sym in Hc. rewrite Hc. f_equal. apply IH. exact Hr.
Qed.

Lemma hostname_of_plain : forall h H, hostname_of h = H -> forallb plain_char H = true ->
  py_lower h = H /\ has 37 h = false.
Proof.
  intros h H Hh Hp. unfold hostname_of in Hh. destruct (partition 37 h) as [[a pct] z] eqn:E.
  destruct (partition_spec _ _ _ _ _ E) as [Hna Hs]. destruct pct.
  - exfalso. rewrite forallb_forall in Hp. assert (Hin : In 37 H).
    { subst H. apply in_or_app. right. left. reflexivity. }
    apply Hp in Hin. cbn in Hin. discriminate.
  - destruct Hs as [Hs Hz]. subst a z. cbn [app] in Hh. rewrite app_nil_r in Hh. split; [exact Hh|].
    apply has_false. exact Hna.
Qed.

Lemma forbidden_existsb_false : forall h, (forall c, In c h -> forbidden_domain c = false) -> existsb forbidden_domain h = false.
Proof.
  intros h H. destruct (existsb forbidden_domain h) eqn:E; [|reflexivity].
  apply existsb_exists in E. destruct E as [x [Hin Hx]]. rewrite (H x Hin) in Hx. discriminate.
Qed.

(* the browser's host parser on a raw host that urllib lower-cases to a plain host H *)
Lemma host_parse_plain : forall h H, h <> [] -> hostname_of h = H -> forallb plain_char H = true ->
  w_host_parse h = if has_xn_label H then HUnmod else w_host_of_ascii H.
Proof.
  intros h H Hne Hh Hp. destruct (hostname_of_plain _ _ Hh Hp) as [Hl H37].
  destruct (lower_plain _ _ Hl Hp) as [Hi Hf].
  unfold w_host_parse. destruct h as [|c r]; [contradiction|].
  assert (Hc : c =? 91 = false).
  { destruct (c =? 91) eqn:E; [|reflexivity]. apply N.eqb_eq in E. subst c.
    specialize (Hf 91 (or_introl eq_refl)). cbn in Hf. discriminate. }
  rewrite Hc. rewrite (pct_decode_id _ H37). rewrite (forbidden_existsb_false _ Hf). rewrite H37. rewrite andb_false_r.
  rewrite Hi. reflexivity.
Qed.

(* ---------- host:port, no brackets ---------- *)
Lemma w_split_host_nobr : forall s, has 91 s = false ->
  w_split_host false s = match span_until (N.eqb 58) s with (a, []) => (a, None) | (a, _ :: p) => (a, Some p) end.
Proof.
  induction s as [|c r IH]; intros H; [reflexivity|].
  unfold has in H. cbn [existsb] in H. apply orb_false_iff in H. destruct H as [Hc Hr]. rewrite N.eqb_sym in Hc.
  cbn [w_split_host span_until]. rewrite (N.eqb_sym 58 c). destruct (c =? 58) eqn:E58; cbn [negb andb].
  - reflexivity.
  - rewrite Hc. assert (Hi : (if c =? 93 then false else false) = false) by (destruct (c =? 93); reflexivity).
    rewrite Hi. rewrite (IH Hr). destruct (span_until (N.eqb 58) r) as [a b]. destruct b; reflexivity.
Qed.

Lemma hostinfo_nobr : forall netloc h f port,
  has 91 (after_last 64 netloc) = false -> partition 58 (after_last 64 netloc) = (h, f, port) ->
  py_hostinfo netloc = (h, match port with [] => None | _ :: _ => Some port end) /\
  w_split_host false (after_last 64 netloc) = (h, if f then Some port else None).
Proof.
  intros netloc h f port Hb Hp. split.
  - unfold py_hostinfo. rewrite (partition_miss _ _ Hb). rewrite Hp. reflexivity.
  - rewrite (w_split_host_nobr _ Hb). unfold partition in Hp.
    destruct (span_until (N.eqb 58) (after_last 64 netloc)) as [a b]. destruct b; inversion Hp; subst; reflexivity.
Qed.

(* ---------- allowlist entries ---------- *)
Lemma is_http_s_cases : forall s, is_http_s s = true -> s = s_http \/ s = s_https.
Proof.
  intros s H. unfold is_http_s in H. apply orb_true_iff in H. destruct H as [H|H]; apply str_eqb_eq in H; auto.
Qed.
Lemma render_eq_inv : forall e sch X, is_http_s (e_sch e) = true -> is_http_s sch = true ->
  render e = sch ++ s_css ++ X ->
  e_sch e = sch /\ e_host e ++ match e_port e with None => [] | Some p => 58 :: p end = X.
Proof.
  intros e sch X He Hs H. unfold render in H.
  destruct (is_http_s_cases _ He) as [E1|E1]; destruct (is_http_s_cases _ Hs) as [E2|E2]; rewrite E1, E2 in *.
  - apply app_inv_head in H. apply app_inv_head in H. split; [reflexivity|exact H].
  - exfalso. cbn in H. inversion H.
  - exfalso. cbn in H. inversion H.
  - apply app_inv_head in H. apply app_inv_head in H. split; [reflexivity|exact H].
Qed.
Lemma app_sep_unique : forall (d : N) a b a' b', ~ In d a -> ~ In d a' -> a ++ d :: b = a' ++ d :: b' -> a = a' /\ b = b'.
Proof.
  intros d a. induction a as [|x a IH]; intros b a' b' Ha Ha' H.
  - destruct a' as [|y a']; cbn in H.
    + inversion H. split; reflexivity.
    + inversion H; subst. exfalso. apply Ha'. left. reflexivity.
  - destruct a' as [|y a']; cbn in H.
    + inversion H; subst. exfalso. apply Ha. left. reflexivity.
    + inversion H; subst. destruct (IH b a' b') as [E1 E2]; [intros Hx; apply Ha; right; exact Hx|intros Hx; apply Ha'; right; exact Hx|assumption|].
      subst. split; reflexivity.
Qed.
Lemma plain_no_58 : forall H, forallb plain_char H = true -> ~ In 58 H.
Proof. intros H Hp Hin. rewrite forallb_forall in Hp. apply Hp in Hin. cbn in Hin. discriminate. Qed.

Lemma wf_host_parts : forall H, wf_host H = true ->
  H <> [] /\ forallb plain_char H = true /\ has_xn_label H = false /\ ends_in_number H = false.
Proof.
  intros H Hw. unfold wf_host in Hw. repeat rewrite andb_true_iff in Hw. destruct Hw as [[[H1 H2] H3] H4].
  split; [destruct H; [discriminate|discriminate]|]. split; [exact H2|]. split; [apply negb_true_iff; exact H3|apply negb_true_iff; exact H4].
Qed.

(* ---------- what acceptance means, on urlsplit's netloc ---------- *)
Definition accept_cond (sch netloc : str) (allowed : list str) : Prop :=
  let hn := py_hostname netloc in
  let hostname := match hn with Some h => h | None => [] end in
  let origin := sch ++ s_css ++ match hn with Some h => h | None => s_None end in
  (mem_str hostname localhost_names = true /\ sch = s_http) \/
  mem_str origin allowed = true \/
  exists n, py_port netloc = POk (Some n) /\ mem_str (origin ++ [58] ++ show_dec n) allowed = true.

Lemma stable_58 : stable 58. Proof. split; reflexivity. Qed.
Lemma stable_91 : stable 91. Proof. split; reflexivity. Qed.

Lemma w_port_digits : forall (sch port : str) n, port <> [] -> forallb is_digit port = true -> dec_value port = n -> n <=? 65535 = true ->
  exists p, w_port sch (Some port) = Some p /\ eff_port sch p = n.
Proof.
  intros sch port n Hne Hd Hv Hn. unfold w_port. rewrite Hd. destruct port as [|c r]; [contradiction|].
  rewrite Hv. assert (E : 65535 <? n = false) by lia. rewrite E.
  destruct (n =? default_port sch) eqn:Ed.
  - exists None. split; [reflexivity|]. cbn. apply N.eqb_eq in Ed. symmetry. exact Ed.
  - exists (Some n). split; reflexivity.
Qed.

(* the heart: the browser's reading of the authority segment, when it has no '[' after the userinfo *)
Lemma auth_safe_nobr : forall ts sch netloc,
  forallb entry_wf ts = true -> is_http_s sch = true -> has 91 (after_last 64 netloc) = false ->
  accept_cond sch netloc (map render ts) -> origin_ok ts (w_auth_of sch netloc).
Proof.
  intros ts sch netloc Hwf Hsch Hbr Hacc.
  destruct (partition 58 (after_last 64 netloc)) as [[h f] port] eqn:Ep.
  destruct (hostinfo_nobr _ _ _ _ Hbr Ep) as [Hpy Hw].
  destruct (partition_spec _ _ _ _ _ Ep) as [Hh58 Hsplit].
  unfold w_auth_of. rewrite Hw. destruct h as [|c0 h']; [exact I|]. set (h := c0 :: h') in *.
  assert (Hhp : forall c, In c h -> In c (after_last 64 netloc)).
  { intros c Hc. destruct f; [rewrite Hsplit; apply in_or_app; left; exact Hc|destruct Hsplit as [Hs _]; rewrite Hs; exact Hc]. }
  assert (Hhn : py_hostname netloc = Some (hostname_of h)).
  { rewrite py_hostname_unfold. rewrite Hpy. reflexivity. }
  assert (Hn58 : ~ In 58 (hostname_of h)).
  { intros Hin. apply Hh58. apply (hostname_of_In_inv 58 h stable_58); [discriminate|exact Hin]. }
  unfold accept_cond in Hacc. rewrite Hhn in Hacc. cbn zeta in Hacc.
  (* a helper: once the host is known to be the plain H *)
  assert (Hplain : forall H, hostname_of h = H -> forallb plain_char H = true ->
             w_host_parse h = if has_xn_label H then HUnmod else w_host_of_ascii H).
  { intros H E Hp. apply host_parse_plain; [discriminate|exact E|exact Hp]. }
  destruct Hacc as [[Hloc Hhttp]|[Hmem|[n [Hport Hmem]]]].
  - (* loopback names *)
    apply mem_str_true in Hloc. unfold localhost_names in Hloc.
    destruct Hloc as [Hl|[Hl|[Hl|[]]]].
    + rewrite (Hplain s_localhost (eq_sym Hl) eq_refl).
      destruct (w_port sch (if f then Some port else None)) as [p|]; [|exact I].
      change (origin_ok ts (OTuple sch (HDomain s_localhost) p)). left. split; [exact Hhttp|left; reflexivity].
    + rewrite (Hplain s_127 (eq_sym Hl) eq_refl).
      destruct (w_port sch (if f then Some port else None)) as [p|]; [|exact I].
      change (origin_ok ts (OTuple sch (HV4 2130706433) p)). left. split; [exact Hhttp|right; left; reflexivity].
    + exfalso. assert (Hin : In 91 (hostname_of h)) by (rewrite <- Hl; left; reflexivity).
      apply (hostname_of_In_inv 91 h stable_91) in Hin; [|discriminate].
      apply has_false in Hbr. apply Hbr. apply Hhp. exact Hin.
  - (* scheme://host is an entry *)
    apply mem_str_true in Hmem. apply in_map_iff in Hmem. destruct Hmem as [e [He Hin]].
    rewrite forallb_forall in Hwf. specialize (Hwf e Hin). unfold entry_wf in Hwf.
    repeat rewrite andb_true_iff in Hwf. destruct Hwf as [[We Wh] Wp].
    destruct (render_eq_inv e sch _ We Hsch He) as [Es Eh].
    destruct (wf_host_parts _ Wh) as [_ [Hpl [Hxn Hnum]]].
    destruct (e_port e) as [ps|] eqn:Epo.
    + exfalso. apply Hn58. rewrite <- Eh. apply in_or_app. right. left. reflexivity.
    + rewrite app_nil_r in Eh. rewrite (Hplain (e_host e) (eq_sym Eh) Hpl). rewrite Hxn. unfold w_host_of_ascii. rewrite Hnum.
      destruct (w_port sch (if f then Some port else None)) as [p|]; [|exact I].
      right. exists e. split; [exact Hin|]. split; [exact Es|]. split; [reflexivity|]. rewrite Epo. exact I.
  - (* scheme://host:port is an entry *)
    apply mem_str_true in Hmem. apply in_map_iff in Hmem. destruct Hmem as [e [He Hin]].
    rewrite forallb_forall in Hwf. specialize (Hwf e Hin). unfold entry_wf in Hwf.
    repeat rewrite andb_true_iff in Hwf. destruct Hwf as [[We Wh] Wp].
    rewrite <- app_assoc in He. rewrite <- app_assoc in He.
    destruct (render_eq_inv e sch _ We Hsch He) as [Es Eh].
    destruct (wf_host_parts _ Wh) as [_ [Hpl [Hxn Hnum]]].
    destruct (e_port e) as [ps|] eqn:Epo.
    + cbn [app] in Eh. destruct (app_sep_unique 58 _ _ _ _ (plain_no_58 _ Hpl) Hn58 Eh) as [E1 E2].
      rewrite (Hplain (e_host e) (eq_sym E1) Hpl). rewrite Hxn. unfold w_host_of_ascii. rewrite Hnum.
      (* the port *)
      unfold py_port in Hport. rewrite Hpy in Hport. cbn [snd] in Hport.
      destruct port as [|pc pr]; [discriminate|].
      destruct (forallb is_digit (pc :: pr)) eqn:Ed; [|discriminate].
      destruct (dec_value (pc :: pr) <=? 65535) eqn:El; [|discriminate].
      inversion Hport as [Hn].
      assert (Hf : f = true). { destruct f; [reflexivity|]. destruct Hsplit as [_ Hz]. discriminate. }
      subst f.
      destruct (w_port_digits sch (pc :: pr) n) as [p [Hp Heff]]; [discriminate|exact Ed|exact Hn|rewrite <- Hn; exact El|].
      cbv iota. rewrite Hp. right. exists e. split; [exact Hin|]. split; [exact Es|]. split; [reflexivity|].
      rewrite Epo. rewrite Heff. exact E2.
    + exfalso. rewrite app_nil_r in Eh. apply (plain_no_58 _ Hpl). rewrite Eh. apply in_or_app. right. left. reflexivity.
Qed.

(* ---------- from the validator to accept_cond ---------- *)
Lemma accept_inv : forall brk allowed u, validate_return_to brk allowed u = Accept ->
  exists sch r2 netloc r3,
    split_scheme (remove_tnl (lstrip u)) = (sch, 47 :: 47 :: r2) /\
    span_until is_delim r2 = (netloc, r3) /\
    is_http_s sch = true /\ netloc <> [] /\ has 92 netloc = false /\ accept_cond sch netloc allowed.
Proof.
  intros brk allowed u H. unfold validate_return_to, validate_return_to_gen in H.
  destruct u as [|u0 u']; [discriminate|]. set (u := u0 :: u') in *.
  destruct (2048 <? N.of_nat (length u)); [discriminate|].
  unfold py_urlsplit in H. destruct (split_scheme (remove_tnl (lstrip u))) as [sch r] eqn:Es.
  destruct r as [|c1 [|c2 r2]].
  - destruct (negb (is_http_s sch)); discriminate.
  - destruct (negb (is_http_s sch)); discriminate.
  - destruct ((c1 =? 47) && (c2 =? 47)) eqn:Ec.
    2:{ destruct (negb (is_http_s sch)); discriminate. }
    apply andb_true_iff in Ec. destruct Ec as [E1 E2]. apply N.eqb_eq in E1. apply N.eqb_eq in E2. subst c1 c2.
    destruct (span_until is_delim r2) as [netloc r3] eqn:En.
    destruct (xorb (has 91 netloc) (has 93 netloc)); [discriminate|].
    destruct (has 91 netloc && negb (brk (bracketed_host netloc))); [discriminate|].
    destruct (is_http_s sch) eqn:Eh; cbn [negb] in H; [|discriminate].
    destruct netloc as [|n0 n']; [discriminate|]. set (netloc := n0 :: n') in *.
    cbn [andb] in H. destruct (has 92 netloc) eqn:Eb; [discriminate|].
    exists sch, r2, netloc, r3. split; [reflexivity|]. split; [exact En|]. split; [exact Eh|]. split; [discriminate|]. split; [exact Eb|].
    unfold accept_cond. cbn zeta.
    destruct (mem_str (match py_hostname netloc with Some h => h | None => [] end) localhost_names && str_eqb sch s_http) eqn:El.
    + left. apply andb_true_iff in El. destruct El as [L1 L2]. apply str_eqb_eq in L2. split; assumption.
    + right. destruct (mem_str (sch ++ s_css ++ match py_hostname netloc with Some h => h | None => s_None end) allowed) eqn:Em.
      * left. reflexivity.
      * right. destruct (py_port netloc) as [[p|]|] eqn:Epp; try discriminate.
        destruct (p =? 0); [discriminate|].
        destruct (mem_str ((sch ++ s_css ++ match py_hostname netloc with Some h => h | None => s_None end) ++ [58] ++ show_dec p) allowed) eqn:Em2; [|discriminate].
        exists p. split; [reflexivity|exact Em2].
Qed.

(* ---------- the browser's parse of  core ++ tail ---------- *)
Lemma w_from_pre_scheme : forall b s sch rest, split_scheme s = (sch, rest) -> is_http_s sch = true ->
  w_from_pre b s = if str_eqb sch b then w_relative sch rest else w_authority sch (skip_slashes rest).
Proof.
  intros b s sch rest H Hh. unfold w_from_pre. rewrite H. destruct sch as [|c sch']; [discriminate|]. rewrite Hh. reflexivity.
Qed.

Lemma from_pre_auth : forall b s sch r2 netloc r3 t,
  split_scheme s = (sch, 47 :: 47 :: r2) -> is_http_s sch = true ->
  span_until is_delim r2 = (netloc, r3) -> netloc <> [] -> has 92 netloc = false ->
  (r3 <> [] \/ exists d t', t = d :: t' /\ is_delim d = true) ->
  w_from_pre b (s ++ t) = w_auth_of sch netloc.
Proof.
  intros b s sch r2 netloc r3 t Hs Hh Hn Hne Hbs Hclose.
  assert (Hsne : sch <> []) by (destruct sch; [discriminate|discriminate]).
  rewrite (w_from_pre_scheme b (s ++ t) sch ((47 :: 47 :: r2) ++ t) (split_scheme_app _ _ _ t Hs Hsne) Hh).
  assert (Hskip : skip_slashes (r2 ++ t) = r2 ++ t).
  { destruct (span_until_spec _ _ _ _ Hn) as [Hr2 [Ha _]]. subst r2. destruct netloc as [|c n']; [contradiction|].
    cbn [app]. apply skip_slashes_nonslash. unfold is_slashy.
    assert (H1 : is_delim c = false) by (apply Ha; left; reflexivity).
    assert (H2 : c <> 92). { intros E. subst c. unfold has in Hbs. cbn in Hbs. discriminate. }
    unfold is_delim in H1. lia. }
  assert (Hgoal : w_authority sch (skip_slashes (r2 ++ t)) = w_auth_of sch netloc).
  { rewrite Hskip. unfold w_authority. rewrite (auth_segment r2 netloc r3 t Hn Hbs Hclose). reflexivity. }
  cbn [app]. destruct (str_eqb sch b).
  - unfold w_relative. change (is_slashy 47) with true. cbn [andb]. exact Hgoal.
  - cbn [skip_slashes]. change (is_slashy 47) with true. cbn iota. exact Hgoal.
Qed.

(* ---------- main statement ---------- *)
Theorem location_safe : forall brk ts u params base,
  forallb entry_wf ts = true -> has 91 u = false ->
  validate_return_to brk (map render ts) u = Accept ->
  origin_ok ts (whatwg_origin base (location_of u params)).
Proof.
  intros brk ts u params base Hwf Hnb Hacc.
  destruct (accept_inv _ _ _ Hacc) as [sch [r2 [netloc [r3 [Hs [Hn [Hh [Hne [Hbs Hc]]]]]]]]].
  set (s := remove_tnl (lstrip u)) in *.
  assert (Hsne : sch <> []) by (destruct sch; [discriminate|discriminate]).
  destruct (split_scheme_some _ _ _ Hs Hsne) as [pre [Hspre [_ Hschars]]].
  assert (Hlu : lstrip u <> []).
  { intros E. unfold s in Hspre. rewrite E in Hspre. cbn in Hspre. destruct pre; discriminate. }
  (* no '[' anywhere in the netloc *)
  assert (Hbr : has 91 (after_last 64 netloc) = false).
  { apply has_false. intros Hin. apply after_last_In in Hin.
    apply has_false in Hnb. apply Hnb. apply lstrip_In. apply (remove_tnl_In (lstrip u)). fold s. rewrite Hspre.
    apply in_or_app. right. right. right. right.
    destruct (span_until_spec _ _ _ _ Hn) as [Hr2 _]. rewrite Hr2. apply in_or_app. left. exact Hin. }
  unfold whatwg_origin, location_of.
  set (sep := if has 35 u then 38 else 35).
  assert (Hsep : is_c0sp sep = false /\ is_tnl sep = false) by (unfold sep; destruct (has 35 u); split; reflexivity).
  rewrite (w_pre_app u sep params Hlu (proj1 Hsep) (proj2 Hsep)). fold s.
  rewrite (from_pre_auth base s sch r2 netloc r3 _ Hs Hh Hn Hne Hbs).
  - apply auth_safe_nobr; assumption.
  - unfold sep. destruct (has 35 u) eqn:E35.
    + (* '#' already in u: it closes the authority inside r2 *)
      left. intros Er3. subst r3.
      apply has_true in E35.
      assert (Hin : In 35 s).
      { unfold s, remove_tnl. apply filter_In. split; [|reflexivity].
        clear - E35. induction u as [|x r IH]; [exact E35|]. cbn [lstrip]. destruct (is_c0sp x) eqn:Ex.
        - destruct E35 as [E|E]; [subst x; cbn in Ex; discriminate|apply IH; exact E].
        - exact E35. }
      rewrite Hspre in Hin. apply in_app_or in Hin. destruct Hin as [Hin|Hin].
      * rewrite forallb_forall in Hschars. apply Hschars in Hin. cbn in Hin. discriminate.
      * destruct Hin as [Hin|[Hin|[Hin|Hin]]]; try discriminate.
        destruct (span_until_spec _ _ _ _ Hn) as [Hr2 [Ha _]]. rewrite Hr2 in Hin. rewrite app_nil_r in Hin.
        apply Ha in Hin. cbn in Hin. discriminate.
    + right. exists 35, (remove_tnl (rstrip params)). split; reflexivity.
Qed.
