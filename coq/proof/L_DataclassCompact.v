(* The compact codec and the stream-state bytes dispatch (model_cfg), over an abstract msgpack. *)
From Coq Require Import List NArith ZArith Bool Lia.
From VGI Require Import M_Dataclass L_Dataclass L_DataclassRT.
Import ListNotations.
Open Scope N_scope.

Lemma scalar_inst ce t s y : unopt t = TScalar s -> instb t y = true -> ser cf ce false y = Ok y /\ ipc_clean y = true.
Proof.
  intros Hu Hi. destruct t; simpl in Hu; try discriminate.
  - destruct s0, y; simpl in Hi; try discriminate; split; reflexivity.
  - destruct t; try discriminate. destruct s0, y; simpl in Hi; try discriminate; split; reflexivity.
Qed.

Definition scalar_aty (a : aty) : bool := match a with AStr | ABin | AI64 | AF64 | ABool => true | _ => false end.

Lemma scalar_infer t s a : unopt t = TScalar s -> infer cf t = Ok a -> scalar_aty a = true.
Proof.
  intros Hu Ha. destruct t; simpl in Hu; try discriminate.
  - destruct s0; simpl in Ha; inversion Ha; reflexivity.
  - destruct t; try discriminate. destruct s0; simpl in Ha; inversion Ha; reflexivity.
Qed.

Lemma scalar_col_valid a v : scalar_aty a = true -> is_none v || negb (bad_summ (summ_of a v)) = true.
Proof. destruct a; simpl; try discriminate; intros _; destruct v; reflexivity. Qed.

(* a flat class (one the compact codec plans for): its row is what the fields hold, and the Arrow batch is valid *)
Lemma FR_flat ce fs vals row sch : FR ce fs vals row sch -> wf_fields wfb fs = true ->
  forall plan, compact_fields cf fs = Some plan ->
  rowclean row = true /\ forallb (fun p => scalar_aty (snd p)) sch = true /\
  forall whole, (forall n raw, In (n, raw) row -> row_get n whole = raw /\ row_mem n whole = true) ->
                compact_kwargs cf fs whole = Ok (map (fun p => Some (snd p)) vals).
Proof.
  induction 1 as [|n l t y fq vq rq sq Hy _ IH|n k d t y raw a fq vq rq sq Hk Hins Hser Ha Har Hde _ IH]; intros Hw plan Hp.
  - repeat split; intros; reflexivity.
  - simpl in Hw, Hp. destruct (IH Hw plan Hp) as (H1 & H2 & H3). repeat split; try assumption.
    intros whole Hwh. simpl. rewrite (H3 whole Hwh). subst y. reflexivity.
  - simpl in Hw. apply andb_true_iff in Hw as [Hw1 Hw2]. simpl in Hp.
    destruct k; [| |congruence].
    + destruct (unopt t) as [s| | | | | | | |] eqn:Eu; try discriminate.
      destruct (compact_fields cf fq) as [plan'|] eqn:Ep; [|destruct s; simpl in Hp; discriminate].
      destruct (IH Hw2 plan' eq_refl) as (H1 & H2 & H3).
      destruct (scalar_inst ce t s y Eu Hins) as (Hsy & Hcy).
      assert (raw = y) by congruence. subst raw.
      split; [simpl; rewrite Hcy; exact H1|]. split; [simpl; rewrite (scalar_infer t s a Eu Ha); exact H2|].
      intros whole Hwh. destruct (Hwh n y (or_introl eq_refl)) as [Hg Hm].
      simpl. rewrite Hm. simpl. rewrite Hg. rewrite Eu.
      rewrite (H3 whole) by (intros n' raw' Hin'; apply Hwh; right; exact Hin').
      destruct (type_is y s); [reflexivity|]. rewrite (Hde Hcy). reflexivity.
    + apply andb_true_iff in Hw1 as [Hd _]. destruct (unopt t); simpl in Hd; discriminate.
Qed.

Lemma flat_batch_valid sch row : forallb (fun p => scalar_aty (snd p)) sch = true -> batch_valid sch row = true.
Proof.
  intros H. unfold batch_valid. rewrite forallb_forall in *. intros p Hp. apply scalar_col_valid. apply H. exact Hp.
Qed.

Lemma encode_row_shape fs r b : encode_row cf fs r = Ok b -> exists ok r', b = VIpcRow ok r'.
Proof.
  unfold encode_row. destruct (schema_fields cf fs) as [s|e]; simpl; [|discriminate].
  destruct (arrow_fields_with arrow_rt r s) as [r'|e]; simpl; [|discriminate].
  intros H. inversion H. eauto.
Qed.

Lemma serialize_shape ce x b : serialize_to_bytes cf ce x = Ok b -> exists ok r, b = VIpcRow ok r.
Proof.
  unfold serialize_to_bytes. destruct x; simpl; try discriminate.
  destruct (lookup_cls ce c) as [fs|]; [|discriminate].
  destruct (to_row_with (ser cf ce true) (ser cf ce false) fs vals) as [r|e]; simpl; [|discriminate].
  apply encode_row_shape.
Qed.

Section Compact.
  Variable ce : cenv.
  Variable pack : list (N * pv) -> option pv.
  Variable unpack : pv -> option pv.
  Hypothesis unpack_pack : forall r p, pack r = Some p -> unpack p = Some (VRow r).

  Lemma ser_compact_shape have x b : ser_compact cf ce have pack x = Ok (Some b) -> have = true /\ exists p, b = VPrefixed 1 p.
  Proof.
    unfold ser_compact. destruct x; try discriminate. destruct (lookup_cls ce c) as [fs|]; [|discriminate].
    unfold compact_plan. destruct have; [|discriminate].
    destruct (compact_fields cf fs) as [plan|]; [|discriminate].
    destruct (ser cf ce false (VObj c vals)) as [r|e]; simpl; [|discriminate].
    destruct r; try discriminate.
    destruct (forallb _ plan); [|discriminate]. destruct (pack r) as [p|]; [|discriminate].
    intros H. inversion H. split; [reflexivity|]. eexists; reflexivity.
  Qed.

  Theorem compact_declines x b : ser_compact cf ce false pack x <> Ok (Some b).
  Proof. intros H. apply ser_compact_shape in H as [H _]. discriminate. Qed.

  Theorem compact_agrees c fs x b :
    wfb (TData c fs) = true -> cenv_okb ce (TData c fs) = true -> instb (TData c fs) x = true ->
    ser_compact cf ce true pack x = Ok (Some b) ->
    de_compact cf true unpack (TData c fs) b = Ok x /\ roundtrip cf ce (TData c fs) x = Ok x.
  Proof.
    intros Hw Hc Hi Hs.
    destruct (class_fr ce c fs x Hw Hc Hi) as (vals & row & sch & -> & Hfr & Hlk & Hnd).
    destruct (data_facts ce (TData c fs) c fs eq_refl Hw Hc) as (_ & _ & Hwf & _).
    unfold ser_compact in Hs. rewrite Hlk in Hs. unfold compact_plan in Hs.
    destruct (compact_fields cf fs) as [plan|] eqn:Ep; [|discriminate].
    rewrite (obj_ser_false ce c fs vals row sch Hfr Hlk) in Hs. simpl in Hs.
    destruct (forallb _ plan); [|discriminate]. destruct (pack row) as [p|] eqn:Epk; [|discriminate].
    inversion Hs; subst b. clear Hs.
    destruct (FR_flat ce fs vals row sch Hfr Hwf plan Ep) as (Hcl & Hsc & Hkw).
    split.
    - unfold de_compact, compact_plan. rewrite Ep. simpl. rewrite (unpack_pack row p Epk).
      rewrite (Hkw row (obj_whole ce fs vals row sch Hfr Hnd)). simpl.
      unfold construct. rewrite (FR_construct _ _ _ _ _ Hfr). reflexivity.
    - unfold roundtrip, serialize_to_bytes. rewrite (obj_ser_true ce c fs vals row sch Hfr Hnd Hlk). simpl.
      rewrite (flat_batch_valid sch row Hsc). apply (obj_from_bytes ce c fs vals row sch Hfr Hnd Hcl).
  Qed.

  (* ---- state bytes *)
  Lemma ser_compact_no_err have c fs x e :
    wfb (TData c fs) = true -> cenv_okb ce (TData c fs) = true -> instb (TData c fs) x = true ->
    ser_compact cf ce have pack x <> Err e.
  Proof.
    intros Hw Hc Hi. destruct (class_fr ce c fs x Hw Hc Hi) as (vals & row & sch & -> & Hfr & Hlk & Hnd).
    unfold ser_compact. rewrite Hlk. destruct (compact_plan cf have fs) as [plan|]; [|discriminate].
    rewrite (obj_ser_false ce c fs vals row sch Hfr Hlk). simpl.
    destruct (forallb _ plan); [|discriminate]. destruct (pack row); discriminate.
  Qed.

  (* what _deserialize_state_bytes does with the bytes _serialize_state_bytes chose *)
  Lemma state_payload have c fs x sb :
    wfb (TData c fs) = true -> cenv_okb ce (TData c fs) = true -> instb (TData c fs) x = true ->
    (oc <- ser_compact cf ce have pack x ;; match oc with Some b => Ok b | None => serialize_to_bytes cf ce x end) = Ok sb ->
    ipc_clean sb = true ->
    match first_byte cf sb with
    | Some b => if b =? c_marker cf then de_compact cf have unpack (TData c fs) sb else deserialize_from_bytes cf (TData c fs) sb
    | None => deserialize_from_bytes cf (TData c fs) sb
    end = Ok x.
  Proof.
    intros Hw Hc Hi Hs Hcl.
    destruct (ser_compact cf ce have pack x) as [[b|]|e] eqn:Esc; simpl in Hs.
    - inversion Hs; subst sb. destruct (ser_compact_shape have x b Esc) as [-> [p ->]]. simpl.
      apply (compact_agrees c fs x (VPrefixed 1 p) Hw Hc Hi Esc).
    - destruct (serialize_shape ce x sb Hs) as (ok & r & ->). simpl.
      apply (arrow_roundtrip ce c fs x (VIpcRow ok r) Hw Hc Hi Hs Hcl).
    - exfalso. exact (ser_compact_no_err have c fs x e Hw Hc Hi Esc).
  Qed.

  Theorem state_bytes_roundtrip have c fs x si b :
    wfb (TData c fs) = true -> cenv_okb ce (TData c fs) = true -> instb (TData c fs) x = true ->
    (si = SingleState (TData c fs) \/
     exists ts tag, si = UnionState ts /\ index_of c (map cls_id ts) 0 = Some tag /\ nth_error ts (N.to_nat tag) = Some (TData c fs)) ->
    ser_state cf ce have pack x si = Ok b -> ipc_clean b = true ->
    de_state cf have unpack si b = Ok x.
  Proof.
    intros Hw Hc Hi Hsi Hs Hcl. unfold ser_state in Hs.
    destruct (ser_compact cf ce have pack x) as [oc|e] eqn:Esc; [|exfalso; exact (ser_compact_no_err have c fs x e Hw Hc Hi Esc)].
    simpl in Hs.
    destruct (match oc with Some b0 => Ok b0 | None => serialize_to_bytes cf ce x end) as [sb|e] eqn:Esb; simpl in Hs; [|discriminate].
    assert (Hpay : (oc' <- ser_compact cf ce have pack x ;; match oc' with Some b0 => Ok b0 | None => serialize_to_bytes cf ce x end) = Ok sb)
      by (rewrite Esc; simpl; exact Esb).
    destruct Hsi as [-> | (ts & tag & -> & Hidx & Hnth)].
    - inversion Hs; subst b. unfold de_state. simpl. apply (state_payload have c fs x sb Hw Hc Hi Hpay Hcl).
    - destruct (class_fr ce c fs x Hw Hc Hi) as (vals & row & sch & -> & _).
      rewrite Hidx in Hs. destruct (tag <? 65536); [|discriminate]. inversion Hs; subst b.
      unfold de_state. simpl. rewrite Hnth. simpl. simpl in Hcl. apply (state_payload have c fs (VObj c vals) sb Hw Hc Hi Hpay Hcl).
  Qed.

  Theorem state_bytes_dispatch :
    (c_marker cf <> 255 /\ c_union_marker cf <> 255 /\ c_marker cf <> c_union_marker cf) /\
    (forall have x b, ser_compact cf ce have pack x = Ok (Some b) -> first_byte cf b = Some (c_marker cf)) /\
    (forall x b, serialize_to_bytes cf ce x = Ok b -> first_byte cf b = Some 255) /\
    (forall tag p, first_byte cf (VTagged tag p) = Some (c_union_marker cf)).
  Proof.
    split; [repeat split; discriminate|]. split; [|split].
    - intros have x b H. destruct (ser_compact_shape have x b H) as [_ [p ->]]. reflexivity.
    - intros x b H. destruct (serialize_shape ce x b H) as (ok & r & ->). reflexivity.
    - reflexivity.
  Qed.
End Compact.
