(* Proofs about the NonceCache interleaving model (model/M_Nonce.v).
   Everything is by induction over the schedule (through Sched_C23.run_inv): an invariant of the
   global state + a per-thread invariant, preserved by the clock tick, by ReadClock and by the
   locked body. *)
From Coq Require Import List NArith Bool Arith Lia.
From VGI Require Import Sched_C23 M_Nonce.
Import ListNotations.
Open Scope N_scope.

(* ---- list helpers ---------------------------------------------------------------------------- *)
Lemma snoc_split {A : Type} : forall (l : list A) e X y post,
  l ++ [e] = X ++ y :: post ->
  (post = [] /\ l = X /\ e = y) \/ (exists post', post = post' ++ [e] /\ l = X ++ y :: post').
Proof.
  intros l e X y post H.
  destruct post as [|p ps]; [left | right].
  - apply app_inj_tail in H as [H1 H2]. auto.
  - destruct (@exists_last A (p :: ps)) as (post' & z & Hz); [discriminate|].
    rewrite Hz in H. rewrite app_comm_cons, app_assoc in H.
    apply app_inj_tail in H as [H1 H2]. subst z. exists post'. split; [exact Hz | exact H1].
Qed.

Lemma NoDup_app_r {A : Type} : forall (a b : list A), NoDup (a ++ b) -> NoDup b.
Proof.
  intros a b; induction a as [|x r IH]; simpl; intro H; [exact H|].
  apply NoDup_cons_iff in H as [_ H]. apply IH. exact H.
Qed.

Lemma NoDup_snoc {A : Type} : forall (l : list A) x, NoDup l -> ~ In x l -> NoDup (l ++ [x]).
Proof.
  intros l x; induction l as [|y r IH]; simpl; intros Hnd Hx.
  - constructor; [intros [] | constructor].
  - apply NoDup_cons_iff in Hnd as [Hy Hr]. constructor.
    + intro Hi. apply in_app_or in Hi as [Hi | [Hi | []]]; [apply Hy; exact Hi | apply Hx; left; symmetry; exact Hi].
    + apply IH; [exact Hr | intro Hi; apply Hx; right; exact Hi].
Qed.

Lemma mem_true_iff : forall n es, mem n es = true <-> In n (map fst es).
Proof.
  intros n es. unfold mem. rewrite existsb_exists. split.
  - intros (p & Hp & E). apply N.eqb_eq in E. subst n. apply in_map. exact Hp.
  - intros H. apply in_map_iff in H as (p & E & Hp). exists p. split; [exact Hp | apply N.eqb_eq; exact E].
Qed.

Lemma mem_false_iff : forall n es, mem n es = false <-> ~ In n (map fst es).
Proof.
  intros n es. rewrite <- mem_true_iff. destruct (mem n es); split; intro H; try reflexivity; try discriminate.
  - exfalso. apply H. reflexivity.
Qed.

(* ---- others / counting ----------------------------------------------------------------------- *)
Lemma others_In : forall x evs n, In n (others x evs) <-> n <> x /\ In n (map ev_nonce evs).
Proof.
  intros x evs n. unfold others. rewrite nodup_In, filter_In. split.
  - intros [H1 H2]. split; [|exact H1]. apply negb_true_iff, N.eqb_neq in H2. exact H2.
  - intros [H1 H2]. split; [exact H2|]. apply negb_true_iff, N.eqb_neq. exact H1.
Qed.

Lemma others_NoDup : forall x evs, NoDup (others x evs).
Proof. intros. apply NoDup_nodup. Qed.

Lemma nodup_bound : forall (l : list N) x evs, NoDup l -> incl l (others x evs) ->
  N.of_nat (length l) <= count_others x evs.
Proof.
  intros l x evs Hnd Hin. unfold count_others.
  pose proof (NoDup_incl_length Hnd Hin). lia.
Qed.

Lemma others_incl_app : forall x a b, incl (others x a) (others x (a ++ b)).
Proof.
  intros x a b n H. apply others_In in H as [H1 H2]. apply others_In. split; [exact H1|].
  rewrite map_app. apply in_or_app. left. exact H2.
Qed.

Lemma count_others_app : forall x a b, count_others x a <= count_others x (a ++ b).
Proof.
  intros x a b. apply nodup_bound; [apply others_NoDup | apply others_incl_app].
Qed.

Lemma others_incl_filter : forall x (f : event -> bool) a, incl (others x (filter f a)) (others x a).
Proof.
  intros x f a n H. apply others_In in H as [H1 H2]. apply others_In. split; [exact H1|].
  apply in_map_iff in H2 as (e & E & He). apply filter_In in He as [He _].
  apply in_map_iff. exists e. split; assumption.
Qed.

Lemma count_accepted_le_count : forall x evs, count_accepted_others x evs <= count_others x evs.
Proof.
  intros x evs. unfold count_accepted_others. apply nodup_bound; [apply others_NoDup | apply others_incl_filter].
Qed.

(* ---- sweep / evict ---------------------------------------------------------------------------- *)
Lemma sweep_suffix : forall brk now es, exists pre, es = pre ++ sweep brk now es.
Proof.
  intros brk now es. induction es as [|[n e] r IH]; simpl.
  - exists []. reflexivity.
  - destruct (cmp_eval brk e now).
    + exists []. reflexivity.
    + destruct IH as [pre Hp]. exists ((n, e) :: pre). simpl. rewrite <- Hp. reflexivity.
Qed.

Lemma sweep_keeps : forall now es1 x e es2, now < e ->
  exists es1', sweep CGt now (es1 ++ (x, e) :: es2) = es1' ++ (x, e) :: es2.
Proof.
  intros now es1 x e es2 Hlt. induction es1 as [|[n1 e1] r IH]; simpl.
  - exists []. simpl. apply N.ltb_lt in Hlt. rewrite Hlt. reflexivity.
  - destruct (now <? e1).
    + exists ((n1, e1) :: r). reflexivity.
    + exact IH.
Qed.

Lemma evict_suffix : forall wh cap es ev, exists pre, es = pre ++ fst (evict wh cap es ev).
Proof.
  intros wh cap es. induction es as [|a r IH]; intros ev; cbn [evict length].
  - exists []. reflexivity.
  - destruct (cmp_eval wh (N.of_nat (S (length r))) cap).
    + destruct (IH (ev + 1)) as [pre Hp]. exists (a :: pre). cbn [app]. f_equal. exact Hp.
    + exists []. reflexivity.
Qed.

Lemma evict_len : forall cap es ev, 0 < cap -> N.of_nat (length (fst (evict CGe cap es ev))) < cap.
Proof.
  intros cap es. induction es as [|a r IH]; intros ev Hc; cbn [evict length cmp_eval].
  - exact Hc.
  - destruct (cap <=? N.of_nat (S (length r))) eqn:E.
    + apply IH. exact Hc.
    + apply N.leb_gt in E. cbn [fst length]. exact E.
Qed.

Lemma evict_keeps : forall cap es1 y es2 ev, N.of_nat (length es2) + 2 <= cap ->
  exists es1', fst (evict CGe cap (es1 ++ y :: es2) ev) = es1' ++ y :: es2.
Proof.
  intros cap es1 y es2. induction es1 as [|a r IH]; intros ev Hc.
  - exists []. cbn [app evict length cmp_eval]. destruct (cap <=? N.of_nat (S (length es2))) eqn:E.
    + apply N.leb_le in E. lia.
    + reflexivity.
  - cbn [app evict length cmp_eval]. destruct (cap <=? N.of_nat (S (length (r ++ y :: es2)))).
    + apply IH. exact Hc.
    + exists (a :: r). reflexivity.
Qed.

Lemma suffix_keys_incl : forall (pre es : list entry), incl (map fst es) (map fst (pre ++ es)).
Proof. intros pre es n H. rewrite map_app. apply in_or_app. right. exact H. Qed.

Lemma suffix_keys_NoDup : forall (pre es : list entry), NoDup (map fst (pre ++ es)) -> NoDup (map fst es).
Proof. intros pre es H. rewrite map_app in H. eapply NoDup_app_r. exact H. Qed.

(* ================================================================================================ *)
Section Proofs.
  Variables cap tl : N.
  Variable co : bool.
  Let c := mkCfg cap tl (std_shape co).
  Hypothesis cap_pos : 0 < cap.

  (* ---- invariants ------------------------------------------------------------------------------ *)
  Definition I_size (g : gstate) := N.of_nat (length (entries (cach g))) <= cap.
  Definition I_nodup (g : gstate) := NoDup (map fst (entries (cach g))).
  (* every remembered nonce was submitted by a logged call *)
  Definition I_keys (g : gstate) := incl (map fst (entries (cach g))) (map ev_nonce (log g)).
  (* logged times never exceed the clock; a call's own reading never exceeds the clock at its locked step *)
  Definition I_times (g : gstate) := forall e, In e (log g) -> ev_now e <= ev_clk e /\ ev_clk e <= clk g.
  (* an accepted nonce is still remembered -- with everything younger than it behind it -- while the
     clock has not reached its expiry and fewer than capacity other nonces were accepted since *)
  Definition I_live (g : gstate) := forall pre ei mid,
    log g = pre ++ ei :: mid -> ev_ok ei = true ->
    clk g < ev_now ei + tl ->
    count_accepted_others (ev_nonce ei) mid < cap ->
    exists es1 es2, entries (cach g) = es1 ++ (ev_nonce ei, ev_now ei + tl) :: es2 /\
                    incl (map fst es2) (others (ev_nonce ei) (filter ev_ok mid)).
  (* the property itself, on the log *)
  Definition I_noreplay (g : gstate) := forall pre ei mid ek post,
    log g = pre ++ ei :: mid ++ ek :: post -> ev_ok ei = true -> ev_nonce ek = ev_nonce ei ->
    ev_clk ek < ev_now ei + tl ->
    count_accepted_others (ev_nonce ei) mid < cap ->
    ev_ok ek = false.
  (* a nonce nobody submitted before is accepted *)
  Definition I_fresh (g : gstate) := forall pre e post,
    log g = pre ++ e :: post -> ~ In (ev_nonce e) (map ev_nonce pre) -> ev_ok e = true.

  Definition Inv (g : gstate) :=
    I_size g /\ I_nodup g /\ I_keys g /\ I_times g /\ I_live g /\ I_noreplay g /\ I_fresh g.

  Definition TInv (g : gstate) (t : thread) :=
    match ph t with Ready now => now <= clk g | Idle => True end.

  Lemma Inv_init : forall progs, Inv (fst (init progs)).
  Proof.
    intros progs. unfold Inv, init; simpl. repeat split.
    - unfold I_size; simpl. lia.
    - unfold I_nodup; simpl. constructor.
    - unfold I_keys; simpl. intros n H; exact H.
    - destruct H.
    - destruct H.
    - unfold I_live; simpl. intros pre ei mid H. destruct pre; discriminate.
    - unfold I_noreplay; simpl. intros pre ei mid ek post H. destruct pre; discriminate.
    - unfold I_fresh; simpl. intros pre e post H. destruct pre; discriminate.
  Qed.

  Lemma TInv_init : forall progs, Forall (TInv (fst (init progs))) (snd (init progs)).
  Proof.
    intros progs. unfold init; simpl. apply Forall_forall. intros t H.
    apply in_map_iff in H as (p & E & _). subst t. exact I.
  Qed.

  Lemma Inv_tick : forall g, Inv g -> Inv (tick g).
  Proof.
    intros g (H1 & H2 & H3 & H4 & H5 & H6 & H7). unfold Inv. repeat split; try assumption.
    - apply H4. exact H.
    - simpl. destruct (H4 e H) as [_ Hc]. lia.
    - unfold I_live in *. simpl. intros pre ei mid Hl Hok Hclk Hcnt.
      apply (H5 pre ei mid Hl Hok); [lia | exact Hcnt].
  Qed.

  (* ---- the locked body --------------------------------------------------------------------------- *)
  Lemma Inv_locked : forall i g n rest now, Inv g -> now <= clk g -> Inv (fst (locked c i g n rest now)).
  Proof.
    intros i g n rest now (Hsize & Hnd & Hkeys & Htimes & Hlive & Hnorep & Hfresh) Hnow.
    unfold locked. cbn [fst].
    set (e := mkEv (N.of_nat i) n now (clk g) (snd (check_and_add c now n (cach g)))).
    (* facts about the body *)
    unfold check_and_add in *. cbn [shp c std_shape sh_sweep_break sh_evict_while capacity ttl] in *.
    set (sw := sweep CGt now (entries (cach g))) in *.
    destruct (sweep_suffix CGt now (entries (cach g))) as [dropped Hdrop]. fold sw in Hdrop.
    assert (Hsw_nd : NoDup (map fst sw)).
    { unfold I_nodup in Hnd. rewrite Hdrop in Hnd. eapply suffix_keys_NoDup. exact Hnd. }
    assert (Hsw_keys : incl (map fst sw) (map fst (entries (cach g)))).
    { intros k Hk. rewrite Hdrop. apply suffix_keys_incl. exact Hk. }
    assert (Hsw_len : (length sw <= length (entries (cach g)))%nat).
    { rewrite Hdrop. rewrite app_length. lia. }
    destruct (mem n sw) eqn:Em.
    - (* ---- replay: rejected ---- *)
      subst e. cbn [fst snd]. unfold Inv. repeat split.
      + unfold I_size in *; cbn. lia.
      + exact Hsw_nd.
      + unfold I_keys in *; cbn. intros k Hk. rewrite map_app. apply in_or_app. left.
        apply Hkeys, Hsw_keys, Hk.
      + cbn in H. apply in_app_or in H as [H | [H | []]]; [apply Htimes; exact H | subst e; cbn; exact Hnow].
      + cbn in H. apply in_app_or in H as [H | [H | []]]; [apply Htimes; exact H | subst e; cbn; lia].
      + (* I_live *)
        unfold I_live in *. cbn. intros pre ei mid' Hl Hok Hclk Hcnt.
        apply snoc_split in Hl as [(Hm & Hp & He) | (mid & Hm & Hl)].
        * subst ei. cbn in Hok. discriminate.
        * subst mid'.
          assert (Hcnt' : count_accepted_others (ev_nonce ei) mid < cap).
          { unfold count_accepted_others in *. rewrite filter_app in Hcnt.
            eapply N.le_lt_trans; [apply count_others_app | exact Hcnt]. }
          destruct (Hlive pre ei mid Hl Hok Hclk Hcnt') as (es1 & es2 & He & Hin).
          assert (Hlt : now < ev_now ei + tl) by lia.
          destruct (sweep_keeps now es1 (ev_nonce ei) (ev_now ei + tl) es2 Hlt) as [es1' Hs].
          exists es1', es2. split.
          -- unfold sw. rewrite He. exact Hs.
          -- intros k Hk. rewrite filter_app. apply others_incl_app. apply Hin. exact Hk.
      + (* I_noreplay *)
        unfold I_noreplay in *. cbn. intros pre ei mid ek post Hl Hok Hn Hclk Hcnt.
        rewrite app_comm_cons, app_assoc in Hl.
        apply snoc_split in Hl as [(Hp & Hl & He) | (post' & Hp & Hl)].
        * subst ek. reflexivity.
        * rewrite <- app_assoc, <- app_comm_cons in Hl. eapply Hnorep; eassumption.
      + (* I_fresh *)
        unfold I_fresh in *. cbn. intros pre e0 post Hl Hnin.
        apply snoc_split in Hl as [(Hp & Hl & He) | (post' & Hp & Hl)].
        * exfalso. subst e0 pre. cbn in Hnin. apply Hnin. apply Hkeys, Hsw_keys.
          apply mem_true_iff. exact Em.
        * eapply Hfresh; eassumption.
    - (* ---- fresh: accepted ---- *)
      subst e. cbn [fst snd].
      set (r := evict CGe cap sw (evicted (cach g))) in *.
      destruct (evict_suffix CGe cap sw (evicted (cach g))) as [popped Hpop]. fold r in Hpop.
      assert (Hn_sw : ~ In n (map fst sw)) by (apply mem_false_iff; exact Em).
      assert (Hr_keys : incl (map fst (fst r)) (map fst sw)).
      { intros k Hk. rewrite Hpop. apply suffix_keys_incl. exact Hk. }
      assert (Hr_nd : NoDup (map fst (fst r))).
      { rewrite Hpop in Hsw_nd. eapply suffix_keys_NoDup. exact Hsw_nd. }
      unfold Inv. repeat split.
      + unfold I_size; cbn. rewrite app_length. cbn.
        pose proof (evict_len cap sw (evicted (cach g)) cap_pos) as Hl. fold r in Hl. lia.
      + unfold I_nodup; cbn. rewrite map_app. cbn.
        apply NoDup_snoc; [exact Hr_nd | intro Hin; apply Hn_sw, Hr_keys, Hin].
      + unfold I_keys in *; cbn. intros k Hk. rewrite map_app in Hk. rewrite map_app.
        apply in_app_or in Hk as [Hk | [Hk | []]]; apply in_or_app.
        * left. apply Hkeys, Hsw_keys, Hr_keys, Hk.
        * right. cbn. left. exact Hk.
      + cbn in H. apply in_app_or in H as [H | [H | []]]; [apply Htimes; exact H | subst e; cbn; exact Hnow].
      + cbn in H. apply in_app_or in H as [H | [H | []]]; [apply Htimes; exact H | subst e; cbn; lia].
      + (* I_live *)
        unfold I_live in *. cbn. intros pre ei mid' Hl Hok Hclk Hcnt.
        apply snoc_split in Hl as [(Hm & Hp & He) | (mid & Hm & Hl)].
        * subst ei mid'. cbn. exists (fst r), []. split; [reflexivity | intros k []].
        * subst mid'.
          set (x := ev_nonce ei) in *.
          set (enew := mkEv (N.of_nat i) n now (clk g) true) in *.
          assert (Hfa : filter ev_ok (mid ++ [enew]) = filter ev_ok mid ++ [enew]).
          { rewrite filter_app. reflexivity. }
          assert (Hcnt' : count_accepted_others x mid < cap).
          { unfold count_accepted_others in *. rewrite Hfa in Hcnt.
            eapply N.le_lt_trans; [apply count_others_app | exact Hcnt]. }
          destruct (Hlive pre ei mid Hl Hok Hclk Hcnt') as (es1 & es2 & He & Hin).
          assert (Hlt : now < ev_now ei + tl) by lia.
          destruct (sweep_keeps now es1 x (ev_now ei + tl) es2 Hlt) as [es1' Hs].
          assert (Hsw : sw = es1' ++ (x, ev_now ei + tl) :: es2).
          { unfold sw. rewrite He. exact Hs. }
          assert (Hnx : n <> x).
          { intro E. apply Hn_sw. rewrite Hsw, map_app. apply in_or_app. right. cbn. left. symmetry. exact E. }
          assert (Hn_es2 : ~ In n (map fst es2)).
          { intro Hi. apply Hn_sw. rewrite Hsw, map_app. apply in_or_app. right. cbn. right. exact Hi. }
          assert (Hes2_nd : NoDup (map fst es2)).
          { rewrite Hsw in Hsw_nd. apply suffix_keys_NoDup in Hsw_nd. cbn in Hsw_nd.
            apply NoDup_cons_iff in Hsw_nd as [_ H]. exact H. }
          assert (Hnew_in : In n (others x (filter ev_ok (mid ++ [enew])))).
          { apply others_In. split; [exact Hnx|]. rewrite Hfa, map_app. apply in_or_app. right. cbn. left. reflexivity. }
          assert (Hroom : N.of_nat (length es2) + 2 <= cap).
          { assert (Hb : N.of_nat (length (map fst es2 ++ [n])) <= count_others x (filter ev_ok (mid ++ [enew]))).
            { apply nodup_bound.
              - apply NoDup_snoc; assumption.
              - intros k Hk. apply in_app_or in Hk as [Hk | [Hk | []]].
                + rewrite Hfa. apply others_incl_app. apply Hin. exact Hk.
                + subst k. exact Hnew_in. }
            rewrite app_length, map_length in Hb. cbn in Hb.
            unfold count_accepted_others in Hcnt. lia. }
          destruct (evict_keeps cap es1' (x, ev_now ei + tl) es2 (evicted (cach g)) Hroom) as [es1'' Hev].
          exists es1'', (es2 ++ [(n, now + tl)]). split.
          -- unfold r. rewrite Hsw.
             transitivity ((es1'' ++ (x, ev_now ei + tl) :: es2) ++ [(n, now + tl)]);
               [f_equal; exact Hev | rewrite <- app_assoc; reflexivity].
          -- intros k Hk. rewrite map_app in Hk. apply in_app_or in Hk as [Hk | [Hk | []]].
             ++ rewrite Hfa. apply others_incl_app. apply Hin. exact Hk.
             ++ cbn in Hk. subst k. exact Hnew_in.
      + (* I_noreplay *)
        unfold I_noreplay in *. cbn. intros pre ei mid ek post Hl Hok Hn Hclk Hcnt.
        rewrite app_comm_cons, app_assoc in Hl.
        apply snoc_split in Hl as [(Hp & Hl & He) | (post' & Hp & Hl)].
        * (* the new event would be an accepted replay: impossible, the nonce is still remembered *)
          exfalso. subst ek. cbn in Hn, Hclk.
          destruct (Hlive pre ei mid Hl Hok Hclk Hcnt) as (es1 & es2 & He & _).
          assert (Hlt : now < ev_now ei + tl) by lia.
          destruct (sweep_keeps now es1 (ev_nonce ei) (ev_now ei + tl) es2 Hlt) as [es1' Hs].
          apply Hn_sw. unfold sw. rewrite He, Hs, map_app. apply in_or_app. right. cbn. left. symmetry. exact Hn.
        * rewrite <- app_assoc, <- app_comm_cons in Hl. eapply Hnorep; eassumption.
      + (* I_fresh *)
        unfold I_fresh in *. cbn. intros pre e0 post Hl Hnin.
        apply snoc_split in Hl as [(Hp & Hl & He) | (post' & Hp & Hl)].
        * subst e0. reflexivity.
        * eapply Hfresh; eassumption.
  Qed.

  Lemma tstep_clk : forall i g t, clk (fst (tstep c i g t)) = clk g.
  Proof.
    intros i g t. unfold tstep. destruct (todo t) as [|n rest]; [reflexivity|].
    destruct (ph t); [destruct (sh_clock_outside (shp c))|]; reflexivity.
  Qed.

  Lemma Inv_tstep : forall i g t, Inv g -> TInv g t ->
    Inv (fst (tstep c i g t)) /\ TInv (fst (tstep c i g t)) (snd (tstep c i g t)) /\
    forall t0, TInv g t0 -> TInv (fst (tstep c i g t)) t0.
  Proof.
    intros i g t HI HT. split; [|split].
    - unfold tstep. destruct (todo t) as [|n rest]; [exact HI|].
      unfold TInv in HT. destruct (ph t) as [|now].
      + destruct (sh_clock_outside (shp c)); [exact HI|]. apply Inv_locked; [exact HI | lia].
      + apply Inv_locked; assumption.
    - unfold tstep. destruct (todo t) as [|n rest]; [exact HT|].
      destruct (ph t) as [|now].
      + destruct (sh_clock_outside (shp c)); cbn; [unfold TInv; cbn; lia | exact I].
      + exact I.
    - intros t0 H0. unfold TInv in *. rewrite tstep_clk. exact H0.
  Qed.

  Lemma Inv_run : forall progs sch, Inv (fst (nrun c progs sch)).
  Proof.
    intros progs sch. unfold nrun.
    apply (run_inv gstate thread tick (tstep c) Inv TInv).
    - intros g Hg. split; [apply Inv_tick; exact Hg|].
      intros t Ht. unfold TInv in *. destruct (ph t); [exact I | cbn; lia].
    - intros i g t Hg Ht. apply Inv_tstep; assumption.
    - apply Inv_init.
    - apply TInv_init.
  Qed.

  (* ---- the statements ------------------------------------------------------------------------------ *)
  Lemma size_le_capacity : forall progs sch,
    N.of_nat (length (entries (cach (fst (nrun c progs sch))))) <= cap.
  Proof. intros. apply (Inv_run progs sch). Qed.

  Lemma no_replay_accepted_count : forall progs sch pre ei mid ek post,
    events c progs sch = pre ++ ei :: mid ++ ek :: post ->
    ev_ok ei = true -> ev_nonce ek = ev_nonce ei ->
    ev_clk ek < ev_now ei + tl ->
    count_accepted_others (ev_nonce ei) mid < cap ->
    ev_ok ek = false.
  Proof.
    intros progs sch. destruct (Inv_run progs sch) as (_ & _ & _ & _ & _ & H & _). exact H.
  Qed.

  Lemma no_replay_in_window : forall progs sch pre ei mid ek post,
    events c progs sch = pre ++ ei :: mid ++ ek :: post ->
    ev_ok ei = true -> ev_nonce ek = ev_nonce ei ->
    ev_clk ek < ev_now ei + tl ->
    count_others (ev_nonce ei) mid < cap ->
    ev_ok ek = false.
  Proof.
    intros progs sch pre ei mid ek post Hl Hok Hn Hclk Hcnt.
    eapply no_replay_accepted_count; try eassumption.
    eapply N.le_lt_trans; [apply count_accepted_le_count | exact Hcnt].
  Qed.

  Lemma fresh_accepted : forall progs sch pre e post,
    events c progs sch = pre ++ e :: post -> ~ In (ev_nonce e) (map ev_nonce pre) -> ev_ok e = true.
  Proof.
    intros progs sch. destruct (Inv_run progs sch) as (_ & _ & _ & _ & _ & _ & H). exact H.
  Qed.

  Lemma event_times : forall progs sch e, In e (events c progs sch) ->
    ev_now e <= ev_clk e /\ ev_clk e <= clk (fst (nrun c progs sch)).
  Proof.
    intros progs sch. destruct (Inv_run progs sch) as (_ & _ & _ & H & _). exact H.
  Qed.

  (* the first two checks of a nonce: the first wins, the second loses *)
  Lemma atomic_test_and_insert : forall progs sch pre e1 mid e2 post,
    events c progs sch = pre ++ e1 :: mid ++ e2 :: post ->
    ev_nonce e2 = ev_nonce e1 ->
    ~ In (ev_nonce e1) (map ev_nonce pre) ->
    ev_clk e2 < ev_now e1 + tl ->
    count_others (ev_nonce e1) mid < cap ->
    ev_ok e1 = true /\ ev_ok e2 = false.
  Proof.
    intros progs sch pre e1 mid e2 post Hl Hn Hfr Hclk Hcnt.
    assert (H1 : ev_ok e1 = true) by (eapply fresh_accepted; eassumption).
    split; [exact H1|]. eapply no_replay_in_window; eassumption.
  Qed.

  (* ---- the clock is the number of ticks scheduled so far -------------------------------------- *)
  Lemma step_thread_clk : forall s i, clk (fst (step tick (tstep c) s (S i))) = clk (fst s).
  Proof.
    intros [g ts] i. cbn [step fst snd]. destruct (nth_error ts i) as [t|]; [|reflexivity].
    cbn [fst]. apply tstep_clk.
  Qed.

  Lemma clk_counts_ticks : forall progs sch,
    clk (fst (nrun c progs sch)) = N.of_nat (count_occ Nat.eq_dec sch 0%nat).
  Proof.
    intros progs sch. induction sch as [|id a IH] using rev_ind.
    - reflexivity.
    - unfold nrun in *. rewrite run_snoc, count_occ_app. destruct id as [|i].
      + cbn [step fst tick clk]. rewrite IH. cbn [count_occ]. destruct (Nat.eq_dec 0 0) as [_|Hne]; [|exfalso; apply Hne; reflexivity].
        cbn [length]. lia.
      + rewrite step_thread_clk, IH. cbn [count_occ]. destruct (Nat.eq_dec (S i) 0) as [Hd|_]; [discriminate|]. cbn. lia.
  Qed.

  (* ---- only submitted nonces are logged ---------------------------------------------------------- *)
  Lemma events_nonces : forall progs sch e, In e (events c progs sch) -> In (ev_nonce e) (concat progs).
  Proof.
    intros progs sch. unfold events, nrun.
    pose (P := fun g : gstate => forall e, In e (log g) -> In (ev_nonce e) (concat progs)).
    pose (Q := fun (_ : gstate) (t : thread) => incl (todo t) (concat progs)).
    assert (H : P (fst (run tick (tstep c) (init progs) sch)) /\ Forall (Q (fst (run tick (tstep c) (init progs) sch))) (snd (run tick (tstep c) (init progs) sch))).
    { apply (run_inv gstate thread tick (tstep c) P Q).
      - intros g Hg. split; [exact Hg | intros t Ht; exact Ht].
      - intros i g t Hg Ht. unfold P, Q in *. unfold tstep.
        destruct (todo t) as [|n rest] eqn:Et; [cbn; rewrite Et; auto|].
        assert (Hn : In n (concat progs)) by (apply Ht; left; reflexivity).
        assert (Hrest : incl rest (concat progs)) by (intros k Hk; apply Ht; right; exact Hk).
        assert (HL : forall now, (forall e, In e (log (fst (locked c i g n rest now))) -> In (ev_nonce e) (concat progs)) /\ incl (todo (snd (locked c i g n rest now))) (concat progs)).
        { intros now. unfold locked. cbn [fst snd log todo]. split; [|exact Hrest].
          intros e He. apply in_app_or in He as [He | [He | []]]; [apply Hg; exact He | subst e; exact Hn]. }
        destruct (ph t) as [|now].
        + destruct (sh_clock_outside (shp c)).
          * cbn [fst snd todo]. repeat split; auto.
          * destruct (HL (clk g)) as [H1 H2]. repeat split; auto.
        + destruct (HL now) as [H1 H2]. repeat split; auto.
      - intros e [].
      - unfold init; cbn [fst snd]. apply Forall_forall. intros t Ht.
        apply in_map_iff in Ht as (p & E & Hp). subst t. unfold Q; cbn [todo].
        intros k Hk. apply in_concat. exists p. split; assumption. }
    exact (proj1 H).
  Qed.

  (* ---- any number of threads checking ONE fresh nonce concurrently: exactly one wins ---------------- *)
  Lemma one_winner : forall k x sch,
    N.of_nat (count_occ Nat.eq_dec sch 0%nat) < tl ->
    match events c (repeat [x] k) sch with
    | [] => True
    | e :: rest => ev_ok e = true /\ Forall (fun e' => ev_ok e' = false) rest
    end.
  Proof.
    intros k x sch Hticks. destruct (events c (repeat [x] k) sch) as [|e rest] eqn:Eev; [exact I|].
    assert (Hall : forall e', In e' (e :: rest) -> ev_nonce e' = x).
    { intros e' He'. rewrite <- Eev in He'. apply events_nonces in He'.
      apply in_concat in He' as (p & Hp & Hin). apply repeat_spec in Hp. subst p.
      destruct Hin as [Hin | []]. symmetry. exact Hin. }
    split.
    - apply (fresh_accepted (repeat [x] k) sch [] e rest Eev). intros [].
    - apply Forall_forall. intros e' He'.
      destruct (in_split _ _ He') as (mid & post & Hsplit). subst rest.
      apply (no_replay_in_window (repeat [x] k) sch [] e mid e' post Eev).
      + apply (fresh_accepted (repeat [x] k) sch [] e (mid ++ e' :: post) Eev). intros [].
      + rewrite (Hall e'), (Hall e); [reflexivity | left; reflexivity | right; apply in_or_app; right; left; reflexivity].
      + assert (Hin : In e' (events c (repeat [x] k) sch)).
        { rewrite Eev. right. apply in_or_app. right. left. reflexivity. }
        destruct (event_times _ _ _ Hin) as [_ Hc]. rewrite clk_counts_ticks in Hc. lia.
      + assert (Ho : others (ev_nonce e) mid = []).
        { destruct (others (ev_nonce e) mid) as [|n l] eqn:Eo; [reflexivity|]. exfalso.
          assert (Hn : In n (others (ev_nonce e) mid)) by (rewrite Eo; left; reflexivity).
          apply others_In in Hn as [Hne Hn]. apply in_map_iff in Hn as (em & E & Hem).
          apply Hne. rewrite <- E. rewrite (Hall em), (Hall e); [reflexivity | left; reflexivity|].
          right. apply in_or_app. left. exact Hem. }
        unfold count_others. rewrite Ho. cbn. exact cap_pos.
  Qed.
End Proofs.

(* ---- when the clock is read inside the lock a call's reading IS the clock at its locked step ------ *)
Section Inside.
  Variables cap tl : N.
  Let c := mkCfg cap tl (std_shape false).

  Lemma inside_now_is_clk : forall progs sch e, In e (events c progs sch) -> ev_now e = ev_clk e.
  Proof.
    intros progs sch. unfold events, nrun.
    pose (P := fun g : gstate => forall e, In e (log g) -> ev_now e = ev_clk e).
    pose (Q := fun (_ : gstate) (t : thread) => ph t = Idle).
    assert (H : P (fst (run tick (tstep c) (init progs) sch)) /\ Forall (Q (fst (run tick (tstep c) (init progs) sch))) (snd (run tick (tstep c) (init progs) sch))).
    { apply (run_inv gstate thread tick (tstep c) P Q).
      - intros g Hg. split; [exact Hg | intros t Ht; exact Ht].
      - intros i g t Hg Ht. unfold P, Q in *. unfold tstep.
        destruct (todo t) as [|n rest]; [auto|]. rewrite Ht. cbn [shp c std_shape sh_clock_outside].
        unfold locked. cbn [fst snd log ph]. repeat split; auto.
        intros e He. apply in_app_or in He as [He | [He | []]]; [apply Hg; exact He | subst e; reflexivity].
      - intros e [].
      - unfold init; cbn [fst snd]. apply Forall_forall. intros t Ht.
        apply in_map_iff in Ht as (p & E & Hp). subst t. reflexivity. }
    exact (proj1 H).
  Qed.
End Inside.
