(* Proofs about the interleaving model of the sticky-session machinery (M_StickySched.v).
   Everything here is for an arbitrary source shape [sh], an arbitrary pool of threads, an arbitrary TTL and an
   arbitrary schedule.  No vm_compute. *)
From Coq Require Import List NArith Bool Arith Lia.
From VGI Require Import M_StickySched.
Import ListNotations.

(* ---- lists ------------------------------------------------------------------------------------------- *)
Lemma nth_error_upd_eq : forall (A : Type) (ls : list A) i x y,
  nth_error ls i = Some y -> nth_error (upd i x ls) i = Some x.
Proof.
  intros A ls; induction ls as [|a r IH]; intros [|i] x y H; simpl in *; try discriminate; auto.
  eapply IH; eauto.
Qed.

Lemma nth_error_upd_neq : forall (A : Type) (ls : list A) i j x,
  i <> j -> nth_error (upd i x ls) j = nth_error ls j.
Proof.
  intros A ls; induction ls as [|a r IH]; intros [|i] [|j] x H; simpl; auto; try congruence.
Qed.

Lemma upd_forall : forall (Q : nat -> thread -> Prop) ls i l l',
  nth_error ls i = Some l ->
  (forall j t, j <> i -> nth_error ls j = Some t -> Q j t) ->
  Q i l' ->
  forall j t, nth_error (upd i l' ls) j = Some t -> Q j t.
Proof.
  intros Q ls i l l' Hi Hframe Hown j t Hj.
  destruct (Nat.eq_dec j i) as [->|Hne].
  - rewrite (nth_error_upd_eq _ ls i l' l Hi) in Hj. inversion Hj; subst; exact Hown.
  - rewrite nth_error_upd_neq in Hj by congruence. eapply Hframe; eauto.
Qed.

Fixpoint sumf (f : thread -> nat) (ls : list thread) : nat :=
  match ls with [] => 0 | t :: r => f t + sumf f r end.

Lemma sumf_upd : forall f ls i l l',
  nth_error ls i = Some l -> sumf f (upd i l' ls) + f l = sumf f ls + f l'.
Proof.
  intros f ls; induction ls as [|a r IH]; intros [|i] l l' H; simpl in *; try discriminate.
  - inversion H; subst. lia.
  - specialize (IH i l l' H). lia.
Qed.

Lemma sumf_zero_forall : forall f ls, sumf f ls = 0 -> forall t, In t ls -> f t = 0.
Proof.
  intros f ls; induction ls as [|a r IH]; intros H t Hin; simpl in *; [contradiction|].
  destruct Hin as [->|Hin]; [lia| apply IH; [lia|exact Hin]].
Qed.

Lemma sumf_pos_exists : forall f ls, 0 < sumf f ls -> exists i t, nth_error ls i = Some t /\ 0 < f t.
Proof.
  intros f ls; induction ls as [|a r IH]; intros H; simpl in *; [lia|].
  destruct (f a) eqn:E.
  - destruct IH as (i & t & Hi & Ht); [lia|]. exists (S i), t. split; assumption.
  - exists 0, a. simpl. split; [reflexivity|lia].
Qed.

Lemma map_upd_kind : forall ls i l l',
  nth_error ls i = Some l -> t_kind l' = t_kind l -> map t_kind (upd i l' ls) = map t_kind ls.
Proof.
  intros ls; induction ls as [|a r IH]; intros [|i] l l' H Hk; simpl in *; try discriminate.
  - inversion H; subst. rewrite Hk. reflexivity.
  - f_equal. eapply IH; eauto.
Qed.

(* ---- what a thread holds / owes at each scheduling point ------------------------------------------------ *)
Definition holds_elock (k : kind) (p : pc) : bool :=
  match p with
  | PBegin | PWork => true
  | PPop | PHook1 | PHook2 => is_del k
  | _ => false
  end.

(* the scheduling points a thread of each kind can be at *)
Definition wf_pc (k : kind) (p : pc) : bool :=
  match k, p with
  | KReq _, (PGetT | PGetL | PGetX1 | PGetX2 | PAcq | PBegin | PWork | PHook1 | PHook2 | PEnd | PDone) => true
  | KReq c, PPop => c
  | KDel, (PGetT | PGetL | PGetX1 | PGetX2 | PAcq | PPop | PHook1 | PHook2 | PDone) => true
  | KReap, (PSweepT | PSweepL | PHook1 | PHook2) => true
  | KShut, (PClear | PHook1 | PHook2 | PDone) => true
  | _, _ => false
  end.

(* about to start the hook / inside the hook *)
Definition pendS (t : thread) : nat := match t_pc t with PGetX1 | PHook1 => 1 | _ => 0 end.
Definition pendE (t : thread) : nat := match t_pc t with PGetX2 | PHook2 => 1 | _ => 0 end.
Definition b2n (b : bool) : nat := if b then 1 else 0.

Definition cs (evs : list event) := count_ev CloseStart evs.
Definition ce (evs : list event) := count_ev CloseEnd evs.
Definition gone (evs : list event) := count_ev Gone evs.

(* ---- the invariant -------------------------------------------------------------------------------------- *)
Record Inv (pool : list kind) (s : state) : Prop := mkInv {
  inv_kinds : map t_kind (snd s) = pool;
  inv_wf : forall j t, nth_error (snd s) j = Some t -> wf_pc (t_kind t) (t_pc t) = true;
  inv_lock : forall j t, nth_error (snd s) j = Some t ->
               holds_elock (t_kind t) (t_pc t) = true -> g_elock (fst s) = Some j;
  inv_disp : forall u, In u (disp_of (g_events (fst s))) ->
               exists t, nth_error (snd s) u = Some t /\ t_pc t = PWork;
  inv_c1 : b2n (g_present (fst s)) + sumf pendS (snd s) + cs (g_events (fst s)) = 1;
  inv_c2 : cs (g_events (fst s)) = sumf pendE (snd s) + ce (g_events (fst s));
  inv_gone : Nat.eqb (gone (g_events (fst s))) 0 = g_present (fst s);
  inv_hit : forall j t, nth_error (snd s) j = Some t -> (t_pc t = PAcq \/ t_pc t = PBegin) ->
               In j (live_hits (g_events (fst s)));
  inv_mutex : bad_mutex (g_events (fst s)) = false;
  inv_twice : bad_twice (g_events (fst s)) = false;
  inv_late : bad_late_dispatch (g_events (fst s)) = false;
  inv_cbg : bad_close_before_gone (g_events (fst s)) = false
}.

Lemma sumf_init : forall f pool, (forall k, f (init_thread k) = 0) -> sumf f (map init_thread pool) = 0.
Proof. intros f pool H; induction pool as [|k r IH]; simpl; [reflexivity|]. rewrite H, IH. reflexivity. Qed.

Lemma nth_error_init : forall pool j t, nth_error (map init_thread pool) j = Some t -> exists k, t = init_thread k.
Proof.
  intros pool j t H. rewrite nth_error_map in H. destruct (nth_error pool j) as [k|]; simpl in H; [|discriminate].
  inversion H; eauto.
Qed.

Lemma Inv_init : forall pool ttl, Inv pool (init_state pool ttl).
Proof.
  intros pool ttl. constructor; simpl; try reflexivity.
  - rewrite map_map. simpl. apply map_id.
  - intros j t H. apply nth_error_init in H as [k ->]. destruct k; reflexivity.
  - intros j t H Hh. apply nth_error_init in H as [k ->]. destruct k; simpl in Hh; discriminate.
  - intros u [].
  - rewrite !sumf_init; [reflexivity| intros []; reflexivity].
  - rewrite sumf_init; [reflexivity| intros []; reflexivity].
  - intros j t H [Hp|Hp]; apply nth_error_init in H as [k ->]; destruct k; simpl in Hp; discriminate.
Qed.

(* ---- consequences used at event-emitting steps ---------------------------------------------------------- *)

(* whoever holds the entry lock excludes every dispatching request other than itself *)
Lemma holder_excludes : forall pool s i l,
  Inv pool s -> nth_error (snd s) i = Some l -> holds_elock (t_kind l) (t_pc l) = true ->
  forall u, In u (disp_of (g_events (fst s))) -> u = i /\ t_pc l = PWork.
Proof.
  intros pool s i l HI Hi Hh u Hu.
  destruct (inv_disp _ _ HI u Hu) as (t & Ht & Hpc).
  assert (Hlu : g_elock (fst s) = Some u).
  { apply (inv_lock _ _ HI u t Ht). rewrite Hpc. reflexivity. }
  rewrite (inv_lock _ _ HI i l Hi Hh) in Hlu. inversion Hlu; subst.
  rewrite Hi in Ht. inversion Ht; subst. split; [reflexivity|exact Hpc].
Qed.

Lemma holder_not_working_no_disp : forall pool s i l,
  Inv pool s -> nth_error (snd s) i = Some l -> holds_elock (t_kind l) (t_pc l) = true ->
  t_pc l <> PWork -> disp_of (g_events (fst s)) = [].
Proof.
  intros pool s i l HI Hi Hh Hne.
  destruct (disp_of (g_events (fst s))) as [|u r] eqn:E; [reflexivity|].
  exfalso. apply Hne. eapply (holder_excludes pool s i l HI Hi Hh u). rewrite E. left; reflexivity.
Qed.

Lemma filter_ne_nil : forall u (l : list nat),
  (forall v, In v l -> v = u) -> filter (fun v => negb (Nat.eqb v u)) l = [].
Proof.
  intros u l; induction l as [|a r IH]; intros H; simpl; [reflexivity|].
  rewrite (H a (or_introl eq_refl)). rewrite Nat.eqb_refl. simpl. apply IH. intros v Hv; apply H; right; exact Hv.
Qed.

Lemma existsb_eqb_In : forall j l, In j l -> existsb (Nat.eqb j) l = true.
Proof.
  intros j l H. apply existsb_exists. exists j. split; [exact H|apply Nat.eqb_refl].
Qed.

(* ---- the step lemma --------------------------------------------------------------------------------------- *)
Ltac inv_pair H := inversion H; subst; clear H.

Ltac thread_cases Q :=
  eapply (upd_forall Q); [eassumption | | ].

Section Step.
  Variable sh : sshape.
  Variable pool : list kind.

  (* a thread step that changes neither the global state nor anything the invariant reads of the thread *)
  Lemma Inv_local : forall g ls i l l',
    Inv pool (g, ls) -> nth_error ls i = Some l ->
    t_kind l' = t_kind l ->
    wf_pc (t_kind l') (t_pc l') = true ->
    (holds_elock (t_kind l') (t_pc l') = true -> holds_elock (t_kind l) (t_pc l) = true) ->
    (t_pc l' = PWork -> t_pc l = PWork) ->
    t_pc l <> PWork ->
    pendS l' = pendS l -> pendE l' = pendE l ->
    (t_pc l' = PAcq \/ t_pc l' = PBegin -> t_pc l = PAcq \/ t_pc l = PBegin) ->
    Inv pool (g, upd i l' ls).
  Proof.
    intros g ls i l l' HI Hi Hk Hwf Hh Hw Hnw HS HE Hhit.
    destruct HI as [K W L D C1 C2 G H M T La Cb]; simpl in *.
    constructor; simpl; auto.
    - rewrite (map_upd_kind ls i l l' Hi Hk). exact K.
    - thread_cases (fun (j : nat) t => wf_pc (t_kind t) (t_pc t) = true).
      + intros j t _ Hj. eapply W; eauto.
      + exact Hwf.
    - thread_cases (fun j t => holds_elock (t_kind t) (t_pc t) = true -> g_elock g = Some j).
      + intros j t _ Hj. apply L; exact Hj.
      + intros Hh'. apply (L i l Hi). apply Hh. exact Hh'.
    - intros u Hu. destruct (D u Hu) as (t & Ht & Hpc).
      destruct (Nat.eq_dec u i) as [->|Hne].
      + rewrite Hi in Ht. inv_pair Ht. contradiction.
      + exists t. rewrite nth_error_upd_neq by congruence. split; assumption.
    - pose proof (sumf_upd pendS ls i l l' Hi). lia.
    - pose proof (sumf_upd pendE ls i l l' Hi). lia.
    - thread_cases (fun j t => (t_pc t = PAcq \/ t_pc t = PBegin) -> In j (live_hits (g_events g))).
      + intros j t _ Hj. apply H; exact Hj.
      + intros Hp. apply (H i l Hi). apply Hhit. exact Hp.
  Qed.

  Lemma Inv_stutter : forall g ls i l, Inv pool (g, ls) -> nth_error ls i = Some l -> Inv pool (g, upd i l ls).
  Proof.
    intros g ls i l HI Hi.
    assert (E : upd i l ls = ls).
    { clear HI. revert i Hi; induction ls as [|a r IH]; intros [|i] Hi; simpl in *; try discriminate.
      - inv_pair Hi. reflexivity.
      - f_equal. apply IH; exact Hi. }
    rewrite E. exact HI.
  Qed.

  (* the general rule: what a thread step has to establish *)
  Lemma Inv_update : forall g ls i l g' l',
    Inv pool (g, ls) -> nth_error ls i = Some l ->
    t_kind l' = t_kind l ->
    wf_pc (t_kind l') (t_pc l') = true ->
    (forall j, j <> i -> g_elock g = Some j -> g_elock g' = Some j) ->
    (holds_elock (t_kind l') (t_pc l') = true -> g_elock g' = Some i) ->
    (forall u, In u (disp_of (g_events g')) ->
       (u = i /\ t_pc l' = PWork) \/ (u <> i /\ In u (disp_of (g_events g)))) ->
    b2n (g_present g') + pendS l' + cs (g_events g') = b2n (g_present g) + pendS l + cs (g_events g) ->
    cs (g_events g') + pendE l + ce (g_events g) = cs (g_events g) + pendE l' + ce (g_events g') ->
    Nat.eqb (gone (g_events g')) 0 = g_present g' ->
    (forall j, In j (live_hits (g_events g)) -> In j (live_hits (g_events g'))) ->
    (t_pc l' = PAcq \/ t_pc l' = PBegin -> In i (live_hits (g_events g'))) ->
    bad_mutex (g_events g') = false -> bad_twice (g_events g') = false ->
    bad_late_dispatch (g_events g') = false -> bad_close_before_gone (g_events g') = false ->
    Inv pool (g', upd i l' ls).
  Proof.
    intros g ls i l g' l' HI Hi Hk Hwf Hframe Hown Hdisp Hc1 Hc2 Hg Hmono Hhit HM HT HL HC.
    destruct HI as [K W L D C1 C2 G H M T La Cb]; simpl in *.
    constructor; simpl; auto.
    - rewrite (map_upd_kind ls i l l' Hi Hk). exact K.
    - thread_cases (fun (j : nat) t => wf_pc (t_kind t) (t_pc t) = true).
      + intros j t _ Hj. eapply W; eauto.
      + exact Hwf.
    - thread_cases (fun j t => holds_elock (t_kind t) (t_pc t) = true -> g_elock g' = Some j).
      + intros j t Hne Hj Hh. apply Hframe; [exact Hne|]. apply (L j t Hj Hh).
      + exact Hown.
    - intros u Hu. destruct (Hdisp u Hu) as [[-> Hw]|[Hne Hin]].
      + exists l'. split; [eapply nth_error_upd_eq; eauto|exact Hw].
      + destruct (D u Hin) as (t & Ht & Hpc). exists t. rewrite nth_error_upd_neq by congruence. split; assumption.
    - pose proof (sumf_upd pendS ls i l l' Hi). lia.
    - pose proof (sumf_upd pendE ls i l l' Hi). lia.
    - thread_cases (fun j t => (t_pc t = PAcq \/ t_pc t = PBegin) -> In j (live_hits (g_events g'))).
      + intros j t _ Hj Hp. apply Hmono. apply (H j t Hj Hp).
      + exact Hhit.
  Qed.
  (* facts about the stepping thread read off the invariant *)
  Lemma disp_not_self : forall g ls i l,
    Inv pool (g, ls) -> nth_error ls i = Some l -> t_pc l <> PWork ->
    forall u, In u (disp_of (g_events g)) -> u <> i /\ In u (disp_of (g_events g)).
  Proof.
    intros g ls i l HI Hi Hne u Hu. split; [|exact Hu]. intros ->.
    destruct (inv_disp _ _ HI i Hu) as (t & Ht & Hpc). simpl in Ht. rewrite Hi in Ht. inv_pair Ht. contradiction.
  Qed.

  Lemma pendS_le : forall ls i l, nth_error ls i = Some l -> pendS l <= sumf pendS ls.
  Proof.
    intros ls; induction ls as [|a r IH]; intros [|i] l H; simpl in *; try discriminate.
    - inv_pair H. lia.
    - specialize (IH i l H). lia.
  Qed.

  (* a thread that is about to start the hook: nothing has been closed yet, and the entry is gone *)
  Lemma about_to_close : forall g ls i l,
    Inv pool (g, ls) -> nth_error ls i = Some l -> pendS l = 1 ->
    cs (g_events g) = 0 /\ g_present g = false /\ Nat.eqb (gone (g_events g)) 0 = false.
  Proof.
    intros g ls i l HI Hi Hp. pose proof (inv_c1 _ _ HI) as C1. pose proof (inv_gone _ _ HI) as G. simpl in *.
    pose proof (pendS_le ls i l Hi). destruct (g_present g); simpl in *; [lia|].
    repeat split; [lia|exact G].
  Qed.

  Ltac local_step :=
    eapply Inv_local; eauto; simpl; try reflexivity; try discriminate; try congruence;
    try (intros [?|?]; discriminate).

  Ltac fin Hlk :=
    first
      [ reflexivity | assumption | discriminate
      | solve [auto]
      | solve [intros [?|?]; discriminate]
      | solve [repeat match goal with k0 : kind |- _ => destruct k0 as [[|]| | |] end;
               simpl in *; try discriminate; try reflexivity; auto]
      | solve [intros u Hu; right; eapply disp_not_self; eauto; simpl; discriminate]
      | solve [intros u Hu; apply filter_In in Hu as [Hu Hb]; right; split;
               [apply negb_true_iff in Hb; apply Nat.eqb_neq in Hb; exact Hb | exact Hu]]
      | solve [intros j Hne Hj; rewrite Hlk in Hj by (assumption || reflexivity); congruence]
      | solve [unfold cs, ce, gone, pendS, pendE, b2n, goto, finish in *; simpl in *;
               repeat match goal with H : g_present _ = _ |- _ => rewrite H in * end; simpl in *; lia] ].

  Lemma tstep_inv : forall g ls i l,
    Inv pool (g, ls) -> nth_error ls i = Some l ->
    Inv pool (fst (tstep sh i g l), upd i (snd (tstep sh i g l)) ls).
  Proof.
    intros g ls i l HI Hi.
    pose proof (inv_wf _ _ HI i l Hi) as Hwf.
    pose proof (inv_lock _ _ HI i l Hi) as Hlk.
    pose proof (inv_hit _ _ HI i l Hi) as Hht.
    pose proof (inv_gone _ _ HI) as HG.
    pose proof (inv_mutex _ _ HI) as HM. pose proof (inv_twice _ _ HI) as HT.
    pose proof (inv_late _ _ HI) as HL. pose proof (inv_cbg _ _ HI) as HC.
    simpl in *.
    destruct l as [k p tn o]; simpl in *. unfold tstep; simpl.
    destruct p; simpl.
    - (* PGetT *) destruct k as [c| | |]; try discriminate; local_step.
    - (* PGetL *)
      destruct (is_free (g_reglock g)); [|apply Inv_stutter; assumption].
      destruct (g_present g) eqn:EP.
      + destruct (scmp_eval (sh_get_expired sh) (g_exp g) tn).
        * (* expired: evict under the registry lock *)
          eapply Inv_update; eauto; simpl; try fin Hlk.
        * (* hit *)
          eapply Inv_update; eauto; simpl; try fin Hlk.
          -- unfold gone in HG. rewrite HG. intros j Hj. right; exact Hj.
          -- intros _. unfold gone in HG. rewrite HG. left; reflexivity.
      + destruct k as [c| | |]; try discriminate; local_step.
    - (* PGetX1 *)
      destruct (about_to_close g ls i _ HI Hi eq_refl) as (Hcs & Hpr & Hgn).
      eapply Inv_update; eauto; simpl; try fin Hlk.
      + unfold cs in Hcs. rewrite Hcs. simpl. exact HT.
      + unfold gone in Hgn. rewrite Hgn. simpl. exact HC.
    - (* PGetX2 *)
      eapply Inv_update; eauto; simpl; try fin Hlk.
    - (* PAcq *)
      destruct (free_for (g_elock g) i) eqn:EF; [|apply Inv_stutter; assumption].
      eapply Inv_update; eauto; simpl; try fin Hlk.
      intros j Hne Hj. rewrite Hj in EF. simpl in EF. apply Nat.eqb_eq in EF. contradiction.
    - (* PBegin *)
      assert (Hnil : disp_of (g_events g) = []).
      { eapply (holder_not_working_no_disp pool (g, ls) i); eauto. simpl. discriminate. }
      eapply Inv_update; eauto; simpl; try fin Hlk.
      + rewrite Hnil. intros u [<-|[]]. left. split; reflexivity.
      + rewrite Hnil. simpl. exact HM.
      + rewrite existsb_eqb_In; [simpl; exact HL|]. apply Hht. right; reflexivity.
    - (* PWork *)
      assert (Hown : g_elock g = Some i) by (apply Hlk; reflexivity).
      destruct (is_closing k) eqn:EC.
      + eapply Inv_update; eauto; simpl; try fin Hlk.
      + eapply Inv_update; eauto; simpl; try fin Hlk.
    - (* PPop *)
      destruct (is_free (g_reglock g)); [|apply Inv_stutter; assumption].
      destruct (g_present g) eqn:EP.
      + eapply Inv_update; eauto; simpl; try fin Hlk.
      + destruct (is_del k) eqn:ED.
        * eapply Inv_update; eauto; simpl; try fin Hlk.
        * destruct k as [[|]| | |]; try discriminate; local_step.
    - (* PHook1 *)
      destruct (about_to_close g ls i _ HI Hi eq_refl) as (Hcs & Hpr & Hgn).
      eapply Inv_update; eauto; simpl; try fin Hlk.
      + unfold cs in Hcs. rewrite Hcs. simpl. exact HT.
      + unfold gone in Hgn. rewrite Hgn. simpl. exact HC.
    - (* PHook2 *)
      destruct (is_del k) eqn:ED.
      + eapply Inv_update; eauto; simpl; try fin Hlk.
      + destruct k as [c| | |]; try discriminate; simpl;
          (eapply Inv_update; eauto; simpl; try fin Hlk).
    - (* PEnd *)
      eapply Inv_update; eauto; simpl; try fin Hlk.
    - (* PSweepT *) destruct k as [c| | |]; try discriminate; local_step.
    - (* PSweepL *)
      destruct (is_free (g_reglock g)); [|apply Inv_stutter; assumption].
      destruct (g_present g && scmp_eval (sh_drain_expired sh) (g_exp g) tn) eqn:EX.
      + apply andb_true_iff in EX as [EP _].
        eapply Inv_update; eauto; simpl; try fin Hlk.
      + destruct k as [c| | |]; try discriminate; local_step.
    - (* PClear *)
      destruct (is_free (g_reglock g)); [|apply Inv_stutter; assumption].
      destruct (g_present g) eqn:EP.
      + eapply Inv_update; eauto; simpl; try fin Hlk.
      + destruct k as [c| | |]; try discriminate; local_step.
    - (* PDone *) apply Inv_stutter; assumption.
  Qed.
End Step.

(* ---- every schedule preserves the invariant ------------------------------------------------------------------ *)
Lemma step_inv : forall sh pool s id, Inv pool s -> Inv pool (step sh s id).
Proof.
  intros sh pool [g ls] [|i] HI; simpl.
  - destruct HI as [K W L D C1 C2 G H M T La Cb]; simpl in *. constructor; simpl; auto.
  - destruct (nth_error ls i) as [l|] eqn:E; simpl; [|exact HI].
    apply tstep_inv; assumption.
Qed.

Lemma run_inv : forall sh pool sch s, Inv pool s -> Inv pool (run sh s sch).
Proof.
  intros sh pool sch; induction sch as [|id r IH]; intros s HI; simpl; [exact HI|].
  apply IH. apply step_inv. exact HI.
Qed.

Lemma reach_inv : forall sh pool ttl sch, Inv pool (run sh (init_state pool ttl) sch).
Proof. intros. apply run_inv. apply Inv_init. Qed.

Lemma run_app : forall sh a b s, run sh s (a ++ b) = run sh (run sh s a) b.
Proof. intros sh a b s. unfold run. apply fold_left_app. Qed.

(* ---- the theorems --------------------------------------------------------------------------------------------- *)
Section Thm.
  Variable sh : sshape.
  Variable pool : list kind.
  Variable ttl : N.

  Definition reach (sch : list nat) : state := run sh (init_state pool ttl) sch.

  Lemma mutex_dispatch : forall sch, check_mutex (trace_of (reach sch)) = true.
  Proof.
    intros sch. unfold check_mutex, trace_of, reach. rewrite rev_involutive.
    rewrite (inv_mutex _ _ (reach_inv sh pool ttl sch)). reflexivity.
  Qed.

  (* the state form: two different threads are never both between Begin and End/Detach *)
  Lemma mutex_dispatch_state : forall sch u v,
    In u (disp_of (g_events (fst (reach sch)))) -> In v (disp_of (g_events (fst (reach sch)))) -> u = v.
  Proof.
    intros sch u v Hu Hv. pose proof (reach_inv sh pool ttl sch) as HI. fold (reach sch) in HI.
    destruct (inv_disp _ _ HI u Hu) as (t & Ht & Hpc).
    assert (Hh : holds_elock (t_kind t) (t_pc t) = true) by (rewrite Hpc; reflexivity).
    destruct (holder_excludes pool _ u t HI Ht Hh v Hv) as [-> _]. reflexivity.
  Qed.

  Lemma close_at_most_once : forall sch,
    check_once (trace_of (reach sch)) = true /\
    count_ev CloseStart (g_events (fst (reach sch))) <= 1 /\
    count_ev CloseEnd (g_events (fst (reach sch))) <= count_ev CloseStart (g_events (fst (reach sch))).
  Proof.
    intros sch. pose proof (reach_inv sh pool ttl sch) as HI. fold (reach sch) in HI.
    pose proof (inv_c1 _ _ HI) as C1. pose proof (inv_c2 _ _ HI) as C2. unfold cs, ce in *.
    split; [|split; lia].
    unfold check_once, trace_of. rewrite rev_involutive. rewrite (inv_twice _ _ HI). reflexivity.
  Qed.

  Lemma quiescent_sums : forall ls,
    forallb (fun t => negb (in_close_path (t_pc t))) ls = true -> sumf pendS ls = 0 /\ sumf pendE ls = 0.
  Proof.
    induction ls as [|a r IH]; simpl; intros H; [split; reflexivity|].
    apply andb_true_iff in H as [Ha Hr]. destruct (IH Hr) as [H1 H2].
    unfold pendS, pendE. destruct (t_pc a); simpl in *; try discriminate; split; assumption.
  Qed.

  Lemma close_exactly_once_if_ended : forall sch,
    g_present (fst (reach sch)) = false -> close_quiescent (reach sch) = true ->
    count_ev CloseStart (g_events (fst (reach sch))) = 1 /\ count_ev CloseEnd (g_events (fst (reach sch))) = 1.
  Proof.
    intros sch Hp Hq. pose proof (reach_inv sh pool ttl sch) as HI. fold (reach sch) in HI.
    pose proof (inv_c1 _ _ HI) as C1. pose proof (inv_c2 _ _ HI) as C2. unfold cs, ce in *.
    destruct (quiescent_sums _ Hq) as [S1 S2]. rewrite Hp in C1. simpl in C1. lia.
  Qed.

  (* the converse direction of "ends": while the entry is registered, no hook has started *)
  Lemma no_close_while_registered : forall sch,
    g_present (fst (reach sch)) = true -> count_ev CloseStart (g_events (fst (reach sch))) = 0.
  Proof.
    intros sch Hp. pose proof (inv_c1 _ _ (reach_inv sh pool ttl sch)) as C1. fold (reach sch) in C1.
    unfold cs in C1. rewrite Hp in C1. simpl in C1. lia.
  Qed.

  (* progress: the hook steps never block *)
  Lemma hook1_step : forall i g t, pendS t = 1 ->
    g_events (fst (tstep sh i g t)) = (CloseStart, i) :: g_events g /\
    pendE (snd (tstep sh i g t)) = 1.
  Proof.
    intros i g [k p tn o] H. unfold pendS in H. simpl in H. unfold tstep; simpl.
    destruct p; try discriminate; simpl; split; reflexivity.
  Qed.

  Lemma hook2_step : forall i g t, pendE t = 1 ->
    g_events (fst (tstep sh i g t)) = (CloseEnd, i) :: g_events g.
  Proof.
    intros i g [k p tn o] H. unfold pendE in H. simpl in H. unfold tstep; simpl.
    destruct p; try discriminate; simpl; [reflexivity|].
    destruct (is_del k); [reflexivity|]. destruct k; reflexivity.
  Qed.

  Lemma step_thread : forall g ls i t, nth_error ls i = Some t ->
    step sh (g, ls) (S i) = (fst (tstep sh i g t), upd i (snd (tstep sh i g t)) ls).
  Proof. intros g ls i t H. simpl. rewrite H. reflexivity. Qed.

  Lemma close_completes : forall sch,
    g_present (fst (reach sch)) = false ->
    exists ext, length ext <= 2 /\
      count_ev CloseStart (g_events (fst (reach (sch ++ ext)))) = 1 /\
      count_ev CloseEnd (g_events (fst (reach (sch ++ ext)))) = 1.
  Proof.
    intros sch Hp. pose proof (reach_inv sh pool ttl sch) as HI. fold (reach sch) in HI.
    pose proof (inv_c1 _ _ HI) as C1. pose proof (inv_c2 _ _ HI) as C2. unfold cs, ce in *.
    rewrite Hp in C1. simpl in C1.
    destruct (reach sch) as [g ls] eqn:ER. simpl in *.
    destruct (count_ev CloseStart (g_events g)) as [|n] eqn:ECS.
    - (* nothing started yet: some thread is about to start the hook *)
      destruct (sumf_pos_exists pendS ls) as (i & t & Hi & Ht); [lia|].
      assert (HtS : pendS t = 1) by (unfold pendS in *; destruct (t_pc t); simpl in *; lia).
      destruct (hook1_step i g t HtS) as [Hev1 HpE].
      exists [S i; S i]. split; [simpl; lia|].
      unfold reach in *. rewrite run_app, ER.
      change (run sh (g, ls) [S i; S i]) with (step sh (step sh (g, ls) (S i)) (S i)).
      rewrite (step_thread g ls i t Hi).
      set (g1 := fst (tstep sh i g t)) in *. set (t1 := snd (tstep sh i g t)) in *.
      rewrite (step_thread g1 (upd i t1 ls) i t1 (nth_error_upd_eq _ ls i t1 t Hi)).
      simpl fst. rewrite (hook2_step i g1 t1 HpE). rewrite Hev1. simpl.
      rewrite ECS. assert (count_ev CloseEnd (g_events g) = 0) by lia. lia.
    - assert (n = 0) by lia. subst n.
      destruct (count_ev CloseEnd (g_events g)) as [|m] eqn:ECE.
      + destruct (sumf_pos_exists pendE ls) as (i & t & Hi & Ht); [lia|].
        assert (HtE : pendE t = 1) by (unfold pendE in *; destruct (t_pc t); simpl in *; lia).
        exists [S i]. split; [simpl; lia|].
        unfold reach in *. rewrite run_app, ER.
        change (run sh (g, ls) [S i]) with (step sh (g, ls) (S i)).
        rewrite (step_thread g ls i t Hi). simpl fst. rewrite (hook2_step i g t HtE). simpl.
        rewrite ECS, ECE. split; reflexivity.
      + exists []. split; [simpl; lia|]. rewrite app_nil_r. rewrite ER. simpl. rewrite ECS, ECE. split; lia.
  Qed.

  (* partial: while a DELETE thread is in its close hook (on_delete: `with entry.lock: registry.close`) -- or,
     more generally, while any thread that holds the entry lock is not itself in its method -- nobody dispatches *)
  Lemma no_close_during_dispatch_lock_holder : forall sch i t,
    nth_error (snd (reach sch)) i = Some t ->
    holds_elock (t_kind t) (t_pc t) = true -> t_pc t <> PWork ->
    disp_of (g_events (fst (reach sch))) = [].
  Proof.
    intros sch i t Hi Hh Hne. eapply holder_not_working_no_disp; eauto.
    apply (reach_inv sh pool ttl sch).
  Qed.

  Lemma no_close_during_dispatch_delete : forall sch i t,
    nth_error (snd (reach sch)) i = Some t -> t_kind t = KDel -> (t_pc t = PHook1 \/ t_pc t = PHook2) ->
    disp_of (g_events (fst (reach sch))) = [].
  Proof.
    intros sch i t Hi Hk Hp. eapply no_close_during_dispatch_lock_holder; eauto.
    - rewrite Hk. destruct Hp as [-> | ->]; reflexivity.
    - destruct Hp as [-> | ->]; discriminate.
  Qed.

  (* partial: every dispatching request found the entry in the registry while it was still registered, and
     the hook only ever starts after the entry has left the registry *)
  Lemma dispatch_only_after_live_lookup : forall sch,
    check_live_lookup (trace_of (reach sch)) = true /\ check_close_after_gone (trace_of (reach sch)) = true.
  Proof.
    intros sch. pose proof (reach_inv sh pool ttl sch) as HI. fold (reach sch) in HI.
    unfold check_live_lookup, check_close_after_gone, trace_of. rewrite rev_involutive.
    rewrite (inv_late _ _ HI), (inv_cbg _ _ HI). split; reflexivity.
  Qed.

  (* the thread kinds never change: thread i of the pool is thread i of every reachable state *)
  Lemma kinds_constant : forall sch, map t_kind (snd (reach sch)) = pool.
  Proof. intros sch. apply (inv_kinds _ _ (reach_inv sh pool ttl sch)). Qed.
End Thm.
