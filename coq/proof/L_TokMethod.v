(* C13: histories of the HTTP stream-token layer and what an accepted presentation is bound to.
   Specifications (step / reachable / minted_by / cross_rejecting) and all proofs; statements are restated in prop/P_C13.v. *)
From Coq Require Import List NArith Bool Lia.
From VGI Require Import Corr M_TokMethod.
Import ListNotations.
Open Scope N_scope.

(* ---- small facts ------------------------------------------------------------------------------------------------ *)
Lemma find_method_name : forall svc n m, find_method svc n = Some m -> m_name m = n.
Proof.
  induction svc as [|x r IH]; intros n m H; cbn in H; [discriminate|].
  destruct (m_name x =? n) eqn:E.
  - inversion H; subst. apply N.eqb_eq; exact E.
  - apply IH; exact H.
Qed.

Lemma cache_get_in : forall ch cid ident r, cache_get ch cid ident = Some r -> In (cid, ident, r) ch.
Proof.
  induction ch as [|[[c i] r0] rest IH]; intros cid ident r H; cbn in H; [discriminate|].
  destruct ((c =? cid) && (i =? ident)) eqn:E.
  - apply andb_true_iff in E. destruct E as [E1 E2]. apply N.eqb_eq in E1. apply N.eqb_eq in E2.
    inversion H; subst. left; reflexivity.
  - right. apply IH; exact H.
Qed.

Lemma cache_get_head : forall ch cid ident r, cache_get ((cid, ident, r) :: ch) cid ident = Some r.
Proof. intros. cbn. rewrite !N.eqb_refl. reflexivity. Qed.

Lemma existsb_eqb_in : forall t l, existsb (N.eqb t) l = true -> In t l.
Proof.
  intros t l H. apply existsb_exists in H. destruct H as [x [Hx E]]. apply N.eqb_eq in E. subst; exact Hx.
Qed.

Lemma resolve_call_some : forall info ident cid ca r,
  resolve_call info ident cid ca = inl r ->
  exists ca0, ca = Some ca0 /\ ca_ident ca0 = ident /\ ca_callid ca0 = cid /\ r = resolved_of ca0 /\
              (forall t, ca_cstate ca0 = Some t -> In t (declared (classes info))).
Proof.
  intros info ident cid ca r H. unfold resolve_call in H.
  destruct ca as [ca0|]; [|discriminate].
  destruct (ca_ident ca0 =? ident) eqn:E1; cbn in H; [|discriminate].
  destruct (ca_callid ca0 =? cid) eqn:E2; cbn in H; [|discriminate].
  apply N.eqb_eq in E1. apply N.eqb_eq in E2.
  exists ca0. split; [reflexivity|]. split; [exact E1|]. split; [exact E2|].
  destruct (ca_cstate ca0) as [t|] eqn:E3.
  - destruct (existsb (N.eqb t) (declared (classes info))) eqn:E4; [|discriminate].
    inversion H; subst. split; [reflexivity|]. intros t' Ht. inversion Ht; subst. apply existsb_eqb_in; exact E4.
  - inversion H; subst. split; [reflexivity|]. intros t' Ht; discriminate.
Qed.

Lemma resolve_cls_in : forall info sb cl, resolve_cls info sb = Some cl -> In cl (classes info).
Proof.
  intros info sb cl H. unfold resolve_cls in H. destruct info as [c|cs]; destruct (sb_tag sb) as [t|]; try discriminate.
  - inversion H; subst. left; reflexivity.
  - cbn. eapply nth_error_In; exact H.
Qed.

(* what [accept] = Accepted means, clause by clause *)
Lemma accept_accepted : forall mp svc ch mname ident cu ca ins c vals r,
  accept mp svc ch mname ident cu ca = Accepted ins c vals r ->
  exists m cl,
    find_method svc mname = Some m /\ cu_ident cu = ident /\
    resolve_cls (m_info m) (cu_state cu) = Some cl /\ c = c_id cl /\ deser mp cl (cu_state cu) = Some vals /\
    ((ins = false /\ cache_get ch (cu_callid cu) ident = Some r) \/
     (ins = true /\ cache_get ch (cu_callid cu) ident = None /\ resolve_call (m_info m) ident (cu_callid cu) ca = inl r)).
Proof.
  intros mp svc ch mname ident cu ca ins c vals r H. unfold accept in H.
  destruct (find_method svc mname) as [m|] eqn:Em; [|discriminate].
  destruct (cu_ident cu =? ident) eqn:Ei; cbn in H; [|discriminate].
  apply N.eqb_eq in Ei.
  destruct (cache_get ch (cu_callid cu) ident) as [r0|] eqn:Eg.
  - destruct (resolve_cls (m_info m) (cu_state cu)) as [cl|] eqn:Er; [|discriminate].
    destruct (deser mp cl (cu_state cu)) as [v|] eqn:Ed; [|discriminate].
    inversion H; subst. exists m, cl. repeat split; try reflexivity; try assumption. left; split; try reflexivity; try assumption.
  - destruct (resolve_call (m_info m) ident (cu_callid cu) ca) as [r0|why] eqn:Ec; [|discriminate].
    destruct (resolve_cls (m_info m) (cu_state cu)) as [cl|] eqn:Er; [|discriminate].
    destruct (deser mp cl (cu_state cu)) as [v|] eqn:Ed; [|discriminate].
    inversion H; subst. exists m, cl. repeat split; try reflexivity; try assumption. right; repeat split; try reflexivity; try assumption.
Qed.

(* ---- histories -------------------------------------------------------------------------------------------------- *)
Section Histories.
  Variable mp : bool.          (* is the compact (msgpack) codec available in the serving processes *)
  Variable svc : service.

  (* a call token the client can present: none, or one some /init of this service minted *)
  Definition presentable (W : world) (ca : option call) : Prop :=
    match ca with None => True | Some ca0 => exists m0, In (m0, ca0) (w_inits W) end.

  Inductive step : world -> world -> Prop :=
  | StInit : forall W m ca st e sb (cached : bool),
      (* POST /{m}/init: the method returns a stream whose state st is of a class the method declares; a fresh
         random call id; call token + first cursor minted under the caller's identity; cache put (cached = the
         entry survived, a cache of capacity 0 drops it at once) *)
      find_method svc (m_name m) = Some m ->
      In (st_cls st) (classes (m_info m)) -> state_wf st = true ->
      ~ In (ca_callid ca) (callids W) ->
      enc_ok mp (st_cls st) e = true ->
      encode (m_info m) e st = Some sb ->
      step W {| w_inits := (m_name m, ca) :: w_inits W;
                w_cursors := {| cu_ident := ca_ident ca; cu_callid := ca_callid ca; cu_state := sb |} :: w_cursors W;
                w_cache := if cached then (ca_callid ca, ca_ident ca, resolved_of ca) :: w_cache W else w_cache W |}
  | StPresent : forall W mname ident cu ca,
      (* POST /{mname}/exchange with any minted cursor and any presentable call token, whatever the verdict, for a
         turn that mints nothing (rejected; cancel; producer that finished): only the cache may change *)
      In cu (w_cursors W) -> presentable W ca ->
      step W {| w_inits := w_inits W; w_cursors := w_cursors W;
                w_cache := cache_after svc (w_cache W) mname ident cu ca |}
  | StMint : forall W mname ident cu ca ins c vals r m cl st' e sb,
      (* an ACCEPTED turn that re-mints the cursor: the state object is of the class the endpoint resolved, with
         whatever values process() left in it; same call id, same identity *)
      In cu (w_cursors W) -> presentable W ca ->
      accept mp svc (w_cache W) mname ident cu ca = Accepted ins c vals r ->
      find_method svc mname = Some m ->
      resolve_cls (m_info m) (cu_state cu) = Some cl ->
      st_cls st' = cl -> state_wf st' = true ->
      enc_ok mp cl e = true ->
      encode (m_info m) e st' = Some sb ->
      step W {| w_inits := w_inits W;
                w_cursors := {| cu_ident := ident; cu_callid := cu_callid cu; cu_state := sb |} :: w_cursors W;
                w_cache := cache_after svc (w_cache W) mname ident cu ca |}
  | StDrop : forall W ch',
      (* eviction, expiry, clear(), or the next request landing on a colder worker *)
      (forall x, In x ch' -> In x (w_cache W)) ->
      step W {| w_inits := w_inits W; w_cursors := w_cursors W; w_cache := ch' |}.

  Inductive reachable : world -> Prop :=
  | R0 : reachable empty_world
  | RS : forall W W', reachable W -> step W W' -> reachable W'.

  (* the property's notion: the stream this cursor belongs to was started by /{mname}/init *)
  Definition minted_by (W : world) (mname : N) (cu : cursor) : Prop :=
    exists ca0, In (mname, ca0) (w_inits W) /\ ca_callid ca0 = cu_callid cu.

  (* ---- invariants of every history ---- *)
  Definition cache_sound (W : world) : Prop :=
    forall cid idt r, In (cid, idt, r) (w_cache W) ->
      exists m0 ca0, In (m0, ca0) (w_inits W) /\ ca_callid ca0 = cid /\ ca_ident ca0 = idt /\ r = resolved_of ca0.
  Definition cursors_sound (W : world) : Prop :=
    forall cu, In cu (w_cursors W) ->
      exists m0 ca0, In (m0, ca0) (w_inits W) /\ ca_callid ca0 = cu_callid cu /\ ca_ident ca0 = cu_ident cu.

  Definition inv (W : world) : Prop := NoDup (callids W) /\ cache_sound W /\ cursors_sound W.

  Lemma cache_after_sound : forall W mname ident cu ca,
    cache_sound W -> presentable W ca ->
    forall cid idt r, In (cid, idt, r) (cache_after svc (w_cache W) mname ident cu ca) ->
      exists m0 ca0, In (m0, ca0) (w_inits W) /\ ca_callid ca0 = cid /\ ca_ident ca0 = idt /\ r = resolved_of ca0.
  Proof.
    intros W mname ident cu ca Hc Hp cid idt r Hin. unfold cache_after in Hin.
    destruct (find_method svc mname) as [m|]; [|apply Hc; exact Hin].
    destruct (negb (cu_ident cu =? ident)); [apply Hc; exact Hin|].
    destruct (cache_get (w_cache W) (cu_callid cu) ident); [apply Hc; exact Hin|].
    destruct (resolve_call (m_info m) ident (cu_callid cu) ca) as [r0|why] eqn:Ec; [|apply Hc; exact Hin].
    destruct Hin as [Heq|Hin]; [|apply Hc; exact Hin].
    inversion Heq; subst.
    apply resolve_call_some in Ec. destruct Ec as [ca0 [E0 [E1 [E2 [E3 _]]]]]. subst ca.
    destruct Hp as [m0 Hm0]. exists m0, ca0. repeat split; assumption.
  Qed.

  Lemma accept_stream : forall W mname ident cu ca ins c vals r,
    cache_sound W -> presentable W ca ->
    accept mp svc (w_cache W) mname ident cu ca = Accepted ins c vals r ->
    exists m0 ca0, In (m0, ca0) (w_inits W) /\ ca_callid ca0 = cu_callid cu /\ ca_ident ca0 = ident /\ r = resolved_of ca0.
  Proof.
    intros W mname ident cu ca ins c vals r Hc Hp Ha.
    apply accept_accepted in Ha. destruct Ha as [m [cl [_ [_ [_ [_ [_ Hpath]]]]]]].
    destruct Hpath as [[_ Hg]|[_ [_ Hr]]].
    - apply cache_get_in in Hg. apply Hc in Hg. exact Hg.
    - apply resolve_call_some in Hr. destruct Hr as [ca0 [E0 [E1 [E2 [E3 _]]]]]. subst ca.
      destruct Hp as [m0 Hm0]. exists m0, ca0. repeat split; assumption.
  Qed.

  Lemma step_inv : forall W W', inv W -> step W W' -> inv W'.
  Proof.
    intros W W' [Hn [Hc Hu]] Hs. destruct Hs as
      [W m ca st e sb cached Hf Hcls Hwf Hfresh Henc Hsb
      |W mname ident cu ca Hcu Hp
      |W mname ident cu ca ins c vals r m cl st' e sb Hcu Hp Ha Hf Hr Hst Hwf Henc Hsb
      |W ch' Hsub].
    - (* init *)
      split; [|split].
      + unfold callids; cbn. constructor; assumption.
      + intros cid idt r Hin. cbn in Hin.
        assert (Hold : In (cid, idt, r) (w_cache W) ->
                exists m0 ca0, In (m0, ca0) ((m_name m, ca) :: w_inits W) /\ ca_callid ca0 = cid /\ ca_ident ca0 = idt /\ r = resolved_of ca0).
        { intros H. destruct (Hc _ _ _ H) as [m0 [ca0 [H1 H2]]]. exists m0, ca0. split; [right; exact H1|exact H2]. }
        destruct cached; [|apply Hold; exact Hin].
        destruct Hin as [Heq|Hin]; [|apply Hold; exact Hin].
        inversion Heq; subst. exists (m_name m), ca. repeat split; try reflexivity. left; reflexivity.
      + intros cu Hin. cbn in Hin. destruct Hin as [Heq|Hin].
        * subst cu. exists (m_name m), ca. cbn. repeat split; try reflexivity. left; reflexivity.
        * destruct (Hu _ Hin) as [m0 [ca0 [H1 H2]]]. exists m0, ca0. split; [right; exact H1|exact H2].
    - (* present *)
      split; [exact Hn|split].
      + intros cid idt r Hin. cbn in Hin. cbn. eapply cache_after_sound; eassumption.
      + exact Hu.
    - (* mint *)
      split; [exact Hn|split].
      + intros cid idt r0 Hin. cbn in Hin. cbn. eapply cache_after_sound; eassumption.
      + intros cu' Hin. cbn in Hin. destruct Hin as [Heq|Hin]; [|apply Hu; exact Hin].
        subst cu'. cbn.
        destruct (accept_stream _ _ _ _ _ _ _ _ _ Hc Hp Ha) as [m0 [ca0 [H1 [H2 [H3 _]]]]].
        exists m0, ca0. repeat split; assumption.
    - (* drop *)
      split; [exact Hn|split].
      + intros cid idt r Hin. cbn in Hin. apply Hc. apply Hsub; exact Hin.
      + exact Hu.
  Qed.

  Lemma reachable_inv : forall W, reachable W -> inv W.
  Proof.
    intros W H. induction H as [|W W' _ IH Hs].
    - split; [constructor|split]; intros *; intros Hin; cbn in Hin; contradiction.
    - eapply step_inv; eassumption.
  Qed.

  (* ---- what an accepted presentation IS bound to ---- *)
  Theorem accepted_bound : forall W mname ident cu ca ins c vals r,
    reachable W -> In cu (w_cursors W) -> presentable W ca ->
    accept mp svc (w_cache W) mname ident cu ca = Accepted ins c vals r ->
    exists m0 ca0 m cl,
      (* the cursor's own stream: started by SOME method m0 of the service ... *)
      In (m0, ca0) (w_inits W) /\ ca_callid ca0 = cu_callid cu /\
      (* ... under the identity that now presents it *)
      ident = cu_ident cu /\ ident = ca_ident ca0 /\
      (* the turn runs with that stream's schemas, call state and stream id *)
      r = resolved_of ca0 /\
      (* the URL's method only contributes its state-class table: a class of it must accept the payload *)
      find_method svc mname = Some m /\ resolve_cls (m_info m) (cu_state cu) = Some cl /\ c = c_id cl /\
      deser mp cl (cu_state cu) = Some vals /\
      (* on a cache miss the presented call token is that stream's, and its call-state type is one the URL's method declares *)
      (ins = true -> ca = Some ca0 /\ forall t, ca_cstate ca0 = Some t -> In t (declared (classes (m_info m)))).
  Proof.
    intros W mname ident cu ca ins c vals r HR Hcu Hp Ha.
    destruct (reachable_inv _ HR) as [Hn [Hc Hu]].
    pose proof (accept_accepted _ _ _ _ _ _ _ _ _ _ _ Ha) as [m [cl [Hf [Hi [Hr [Hcid [Hd Hpath]]]]]]].
    destruct Hpath as [[Hins Hg]|[Hins [Hg Hrc]]].
    - apply cache_get_in in Hg. destruct (Hc _ _ _ Hg) as [m0 [ca0 [H1 [H2 [H3 H4]]]]].
      exists m0, ca0, m, cl. repeat split; try assumption; try (symmetry; assumption); try congruence.
    - apply resolve_call_some in Hrc. destruct Hrc as [ca0 [E0 [E1 [E2 [E3 E4]]]]]. subst ca.
      destruct Hp as [m0 Hm0]. exists m0, ca0, m, cl. repeat split; try assumption; try (symmetry; assumption); try congruence.
      all: try (intros _; split; [reflexivity|exact E4]).
  Qed.

  (* ---- the method binding holds exactly when the methods reject each other's payloads ---- *)
  (* no method of the service accepts a state payload another method of the service can mint *)
  Definition cross_rejecting : Prop :=
    forall m m' st e sb cl,
      find_method svc (m_name m) = Some m -> find_method svc (m_name m') = Some m' -> m_name m <> m_name m' ->
      In (st_cls st) (classes (m_info m')) -> state_wf st = true ->
      enc_ok mp (st_cls st) e = true -> encode (m_info m') e st = Some sb ->
      resolve_cls (m_info m) sb = Some cl -> deser mp cl sb = None.

  (* every cursor carries a payload the method that started its stream can mint *)
  Definition cursors_own (W : world) : Prop :=
    forall cu, In cu (w_cursors W) ->
      exists m0 ca0 st e,
        In (m_name m0, ca0) (w_inits W) /\ find_method svc (m_name m0) = Some m0 /\ ca_callid ca0 = cu_callid cu /\
        In (st_cls st) (classes (m_info m0)) /\ state_wf st = true /\
        enc_ok mp (st_cls st) e = true /\ encode (m_info m0) e st = Some (cu_state cu).

  Lemma own_accept_minted : forall W mname ident cu ca ins c vals r,
    cross_rejecting -> cursors_own W -> In cu (w_cursors W) ->
    accept mp svc (w_cache W) mname ident cu ca = Accepted ins c vals r ->
    exists m0 ca0, m_name m0 = mname /\ find_method svc mname = Some m0 /\ In (mname, ca0) (w_inits W) /\ ca_callid ca0 = cu_callid cu.
  Proof.
    intros W mname ident cu ca ins c vals r HX Ho Hcu Ha.
    destruct (Ho _ Hcu) as [m0 [ca0 [st [e [H1 [H2 [H3 [H4 [Hw [H5 H6]]]]]]]]]].
    apply accept_accepted in Ha. destruct Ha as [m [cl [Hf [_ [Hr [_ [Hd _]]]]]]].
    pose proof (find_method_name _ _ _ Hf) as Hn.
    destruct (N.eq_dec (m_name m) (m_name m0)) as [E|NE].
    - exists m0, ca0. rewrite <- Hn. rewrite E. repeat split; try assumption.
    - exfalso. rewrite <- Hn in Hf.
      pose proof (HX m m0 st e (cu_state cu) cl Hf H2 NE H4 Hw H5 H6 Hr) as Hnone.
      rewrite Hnone in Hd; discriminate.
  Qed.

  Lemma step_own : forall W W', cross_rejecting -> cursors_own W -> step W W' -> cursors_own W'.
  Proof.
    intros W W' HX Ho Hs. destruct Hs as
      [W m ca st e sb cached Hf Hcls Hwf Hfresh Henc Hsb
      |W mname ident cu ca Hcu Hp
      |W mname ident cu ca ins c vals r m cl st' e sb Hcu Hp Ha Hf Hr Hst Hwf Henc Hsb
      |W ch' Hsub].
    - intros cu Hin. cbn in Hin. destruct Hin as [Heq|Hin].
      + subst cu. exists m, ca, st, e. cbn. repeat split; try assumption; try reflexivity. left; reflexivity.
      + destruct (Ho _ Hin) as [m0 [ca0 [st0 [e0 [H1 H2]]]]]. exists m0, ca0, st0, e0. split; [right; exact H1|exact H2].
    - exact Ho.
    - intros cu' Hin. cbn in Hin. destruct Hin as [Heq|Hin]; [|apply Ho; exact Hin].
      subst cu'. cbn.
      destruct (own_accept_minted _ _ _ _ _ _ _ _ _ HX Ho Hcu Ha) as [m0 [ca0 [Hn [Hf0 [Hin0 Hcid]]]]].
      rewrite Hf in Hf0. inversion Hf0; subst m0.
      exists m, ca0, st', e. rewrite Hn. repeat split; try assumption.
      all: try exact Hwf; rewrite Hst; try exact Henc; eapply resolve_cls_in; exact Hr.
    - exact Ho.
  Qed.

  Lemma reachable_own : forall W, cross_rejecting -> reachable W -> cursors_own W.
  Proof.
    intros W HX H. induction H as [|W W' _ IH Hs].
    - intros cu Hin; cbn in Hin; contradiction.
    - eapply step_own; eassumption.
  Qed.

  Theorem method_bound_partial : forall W mname ident cu ca,
    cross_rejecting ->
    reachable W -> In cu (w_cursors W) -> presentable W ca ->
    accepted (accept mp svc (w_cache W) mname ident cu ca) = true -> minted_by W mname cu.
  Proof.
    intros W mname ident cu ca HX HR Hcu Hp Ha.
    destruct (accept mp svc (w_cache W) mname ident cu ca) as [i|ins c vals r] eqn:E; [discriminate|].
    destruct (own_accept_minted _ _ _ _ _ _ _ _ _ HX (reachable_own _ HX HR) Hcu E) as [m0 [ca0 [_ [_ [Hin Hcid]]]]].
    exists ca0. split; assumption.
  Qed.

  (* ... and fails as soon as ONE method accepts ONE payload another method can mint *)
  Theorem method_bound_fails_whenever_compatible : forall m m' st e sb cl vals,
    find_method svc (m_name m) = Some m -> find_method svc (m_name m') = Some m' -> m_name m <> m_name m' ->
    In (st_cls st) (classes (m_info m')) -> state_wf st = true ->
    enc_ok mp (st_cls st) e = true -> encode (m_info m') e st = Some sb ->
    resolve_cls (m_info m) sb = Some cl -> deser mp cl sb = Some vals ->
    exists W cu ca ident,
      reachable W /\ In cu (w_cursors W) /\ presentable W ca /\
      accepted (accept mp svc (w_cache W) (m_name m) ident cu ca) = true /\ ~ minted_by W (m_name m) cu.
  Proof.
    intros m m' st e sb cl vals Hf Hf' Hne Hcls Hwf Henc Hsb Hr Hd.
    set (ca0 := {| ca_ident := 0; ca_callid := 0; ca_cstate := None; ca_out := 0; ca_in := 0; ca_sid := 0 |}).
    set (cu := {| cu_ident := 0; cu_callid := 0; cu_state := sb |}).
    set (W := {| w_inits := [(m_name m', ca0)]; w_cursors := [cu]; w_cache := [(0, 0, resolved_of ca0)] |}).
    exists W, cu, (Some ca0), 0.
    split; [|split; [|split; [|split]]].
    - apply (RS empty_world); [constructor|].
      exact (StInit empty_world m' ca0 st e sb true Hf' Hcls Hwf (fun H => H) Henc Hsb).
    - left; reflexivity.
    - exists (m_name m'). left; reflexivity.
    - unfold accept. rewrite Hf. cbn. rewrite Hr. rewrite Hd. reflexivity.
    - intros [ca1 [Hin _]]. cbn in Hin. destruct Hin as [Heq|[]]. inversion Heq. apply Hne. symmetry; assumption.
  Qed.
End Histories.

(* ---- a concrete cross-rejecting service (non-vacuity of method_bound_partial) ------------------------------------- *)
Definition ex_S0 : cls := {| c_id := 0; c_fields := [{| f_name := 0; f_kind := KScalar; f_default := None |}]; c_callty := None |}.
Definition ex_S1 : cls := {| c_id := 1; c_fields := [{| f_name := 1; f_kind := KScalar; f_default := None |}]; c_callty := None |}.
Definition ex_svc : service := [{| m_name := 0; m_info := Single ex_S0 |}; {| m_name := 1; m_info := Single ex_S1 |}].

Lemma find_ex : forall m, find_method ex_svc (m_name m) = Some m ->
  m = {| m_name := 0; m_info := Single ex_S0 |} \/ m = {| m_name := 1; m_info := Single ex_S1 |}.
Proof.
  intros m H. unfold ex_svc, find_method in H. cbn [m_name] in H.
  destruct (0 =? m_name m); [left; injection H as H1; subst m; reflexivity|].
  destruct (1 =? m_name m); [right; injection H as H1; subst m; reflexivity|discriminate].
Qed.

Lemma wf_cols1 : forall st f, c_fields (st_cls st) = [f] -> state_wf st = true ->
  exists v, st_vals st = [(f_name f, v)].
Proof.
  intros st f Hc Hw. unfold state_wf in Hw. rewrite Hc in Hw. cbn in Hw.
  destruct (st_vals st) as [|[k v] [|y r]]; cbn in Hw; try discriminate.
  - destruct (k =? f_name f) eqn:E; [|discriminate]. apply N.eqb_eq in E. subst k. exists v; reflexivity.
  - destruct (k =? f_name f); discriminate.
Qed.

Lemma ex_svc_cross_rejecting : cross_rejecting false ex_svc.
Proof.
  intros m m' st e sb cl Hf Hf' Hne Hcls Hwf Henc Hsb Hr.
  destruct (find_ex _ Hf) as [Em|Em]; destruct (find_ex _ Hf') as [Em'|Em']; subst m m'; cbn in Hne; try congruence.
  - (* payload of method 1 (class ex_S1) at method 0 *)
    cbn in Hcls. destruct Hcls as [Hc|[]].
    destruct (wf_cols1 st {| f_name := 1; f_kind := KScalar; f_default := None |}) as [v Hv]; [rewrite <- Hc; reflexivity|exact Hwf|].
    cbn in Hsb. inversion Hsb; subst sb. cbn in Hr. inversion Hr; subst cl.
    unfold deser; cbn. rewrite Hv. destruct e; cbn; reflexivity.
  - cbn in Hcls. destruct Hcls as [Hc|[]].
    destruct (wf_cols1 st {| f_name := 0; f_kind := KScalar; f_default := None |}) as [v Hv]; [rewrite <- Hc; reflexivity|exact Hwf|].
    cbn in Hsb. inversion Hsb; subst sb. cbn in Hr. inversion Hr; subst cl.
    unfold deser; cbn. rewrite Hv. destruct e; cbn; reflexivity.
Qed.

Lemma ex_own_accept :
  exists W cu ca, reachable false ex_svc W /\ In cu (w_cursors W) /\ presentable W ca /\
                  accepted (accept false ex_svc (w_cache W) 0 7 cu ca) = true /\ minted_by W 0 cu.
Proof.
  set (ca0 := {| ca_ident := 7; ca_callid := 3; ca_cstate := None; ca_out := 0; ca_in := 10; ca_sid := 1 |}).
  set (st := {| st_cls := ex_S0; st_vals := [(0, VInt 5)] |}).
  set (sb := {| sb_tag := None; sb_enc := Arrow; sb_cols := [(0, VInt 5)] |}).
  set (cu := {| cu_ident := 7; cu_callid := 3; cu_state := sb |}).
  exists {| w_inits := [(0, ca0)]; w_cursors := [cu]; w_cache := [] |}, cu, (Some ca0).
  split; [|split; [|split; [|split]]].
  - apply (RS false ex_svc empty_world); [constructor|].
    apply (StInit false ex_svc empty_world {| m_name := 0; m_info := Single ex_S0 |} ca0 st Arrow sb false); try reflexivity.
    + left; reflexivity.
    + intros H; exact H.
  - left; reflexivity.
  - exists 0. left; reflexivity.
  - vm_compute. reflexivity.
  - exists ca0. split; [left; reflexivity|reflexivity].
Qed.
