(* C33, accept loop: invariants of [astep] for EVERY schedule (repaired source: c_clear = c_guard = true). *)
From Coq Require Import List NArith Bool Arith Lia.
From VGI Require Import M_Accept.
Import ListNotations.
Open Scope N_scope.

(* ---------- lists ---------- *)
Lemma nth_error_upd_nth {A} (f : A -> A) : forall l n m,
  nth_error (upd_nth n f l) m =
  match nth_error l m with Some x => Some (if Nat.eqb n m then f x else x) | None => None end.
Proof.
  induction l as [|x r IH]; intros n m.
  - destruct n, m; reflexivity.
  - destruct n as [|n], m as [|m]; simpl; try reflexivity.
    + destruct (nth_error r m); reflexivity.
    + apply IH.
Qed.

Lemma length_upd_nth {A} (f : A -> A) : forall l n, length (upd_nth n f l) = length l.
Proof. induction l as [|x r IH]; intros [|n]; simpl; auto. Qed.

Lemma nth_error_snoc {A} (l : list A) (x : A) m :
  nth_error (l ++ [x]) m =
  if Nat.ltb m (length l) then nth_error l m else if Nat.eqb m (length l) then Some x else None.
Proof.
  destruct (Nat.ltb_spec m (length l)) as [H|H].
  - apply nth_error_app1; exact H.
  - rewrite nth_error_app2 by exact H.
    destruct (Nat.eqb_spec m (length l)) as [E|E].
    + subst. rewrite Nat.sub_diag. reflexivity.
    + destruct (m - length l)%nat as [|d] eqn:D; [lia|]. simpl. destruct d; reflexivity.
Qed.

(* number of connection threads that have not finished *)
Definition hw (h : hph) : N := if is_done h then 0 else 1.
Fixpoint live (hs : list hph) : N := match hs with [] => 0 | h :: r => hw h + live r end.

Lemma live_snoc hs h : live (hs ++ [h]) = live hs + hw h.
Proof. induction hs as [|x r IH]; simpl; [lia|]. rewrite IH. lia. Qed.

Lemma live_upd : forall hs i h h', nth_error hs i = Some h ->
  live (upd_nth i (fun _ => h') hs) + hw h = live hs + hw h'.
Proof.
  induction hs as [|x r IH]; intros [|i] h h' H; simpl in *; try discriminate.
  - inversion H; subst. lia.
  - specialize (IH i h h' H). lia.
Qed.

Lemma live_zero_all_done : forall hs, live hs = 0 -> forallb is_done hs = true.
Proof.
  induction hs as [|x r IH]; simpl; intro H; [reflexivity|].
  unfold hw in H. destruct (is_done x); simpl; [apply IH; lia | lia].
Qed.

(* ---------- the invariant ---------- *)
Definition pcw (p : apc) : N := match p with PAdd => 1 | _ => 0 end.

Record Inv (s : ast) : Prop := {
  i_init : pc s = PInit -> timers s = [] /\ flag s = false /\ timer s = None /\ count s = 0 /\ handlers s = [];
  (* `timer` names a Timer armed when conn_count became 0, due exactly cur_T later *)
  i_timer : forall k, timer s = Some k ->
            count s = 0 /\ exists t, nth_error (timers s) k = Some t /\ t_deadline t = zero_since s + cur_T s;
  (* a Timer that passed its wait is due *)
  i_due : forall k t, nth_error (timers s) k = Some t -> t_ph t = TExpired -> t_deadline t <= clock s;
  (* shutdown_requested => no connection and the timeout elapsed since the last one *)
  i_flag : flag s = true -> count s = 0 /\ zero_since s + cur_T s <= clock s;
  (* conn_count = unfinished connection threads (+ the one just counted whose thread is not registered yet) *)
  i_count : count s = live (handlers s) + pcw (pc s);
  i_brk : forall c d due now, brk s = Some (c, d, due, now) -> c = 0 /\ d = true /\ due <= now
}.

Lemma inv_init cfg : Inv (ainit cfg).
Proof.
  unfold ainit. constructor; cbn.
  - intros _. repeat split; reflexivity.
  - intros k H; discriminate.
  - intros k t H; destruct k; discriminate.
  - intro H; discriminate.
  - destruct (c_idle cfg); reflexivity.
  - intros c d due now H; discriminate.
Qed.

(* cancelling / re-phasing a Timer keeps deadlines, and phases of the others *)
Lemma due_upd_cancel ts k0 clk :
  (forall k t, nth_error ts k = Some t -> t_ph t = TExpired -> t_deadline t <= clk) ->
  (forall k t, nth_error (upd_nth k0 tcancel ts) k = Some t -> t_ph t = TExpired -> t_deadline t <= clk).
Proof.
  intros H k t. rewrite nth_error_upd_nth. destruct (nth_error ts k) as [x|] eqn:E; [|discriminate].
  intros Ht Hp. inversion Ht; subst; clear Ht.
  destruct (Nat.eqb k0 k); [|eapply H; eauto]. simpl in *. eapply H; eauto.
Qed.

Lemma inv_cancel s : Inv s -> pc s <> PInit ->
  forall s', s' = cancel_timer s -> Inv s'.
Proof.
  intros I Hpc s' ->. unfold cancel_timer. destruct (timer s) as [k0|] eqn:Et; [|exact I].
  destruct I as [I1 I2 I3 I4 I5 I6]. constructor; cbn.
  - intro H; contradiction.
  - intros k H; discriminate.
  - apply due_upd_cancel; exact I3.
  - exact I4.
  - exact I5.
  - exact I6.
Qed.

(* arming a Timer at a moment when conn_count = 0, with the ghost reset to (clock, secs) *)
Lemma inv_arm s secs : Inv s -> count s = 0 -> flag s = false -> zero_since s = clock s -> cur_T s = secs ->
  (pc s = PInit -> False) -> Inv (arm secs s).
Proof.
  intros [I1 I2 I3 I4 I5 I6] Hc Hf Hz HT Hpc. unfold arm.
  set (s1 := match timer s with Some k => set_timers (upd_nth k tcancel (timers s)) s | None => s end).
  assert (E1 : clock s1 = clock s /\ count s1 = count s /\ flag s1 = flag s /\ pc s1 = pc s /\ handlers s1 = handlers s
               /\ zero_since s1 = zero_since s /\ cur_T s1 = cur_T s /\ brk s1 = brk s).
  { unfold s1; destruct (timer s); cbn; repeat split; reflexivity. }
  destruct E1 as (Ec & Ecn & Efl & Epc & Eh & Ez & ET & Eb).
  assert (D1 : forall k t, nth_error (timers s1) k = Some t -> t_ph t = TExpired -> t_deadline t <= clock s).
  { unfold s1; destruct (timer s) as [k0|]; cbn; [apply due_upd_cancel; exact I3 | exact I3]. }
  constructor; cbn.
  - rewrite Epc. intro H; exfalso; auto.
  - intros k H. inversion H; subst k; clear H. split; [rewrite Ecn; exact Hc|].
    eexists. split.
    + rewrite nth_error_snoc. rewrite Nat.ltb_irrefl, Nat.eqb_refl. reflexivity.
    + cbn. rewrite Ec, Ez, ET. lia.
  - intros k t. rewrite nth_error_snoc, Ec.
    destruct (Nat.ltb k (length (timers s1))); [apply D1|].
    destruct (Nat.eqb k (length (timers s1))); [|discriminate].
    intros H Hp; inversion H; subst; discriminate.
  - rewrite Efl, Hf. intro H; discriminate.
  - rewrite Ecn, Eh, Epc. exact I5.
  - rewrite Eb. exact I6.
Qed.

Section Fixed.
  Variable cfg : acfg.
  Hypothesis Hclear : c_clear cfg = true.
  Hypothesis Hguard : c_guard cfg = true.

  Lemma inv_acc s : Inv s -> Inv (acc_step cfg s).
  Proof.
    intros I. unfold acc_step.
    destruct (pc s) eqn:Epc; pose proof I as [I1 I2 I3 I4 I5 I6].
    - (* PInit *)
      destruct (I1 Epc) as (Ht & Hf & Htm & Hc & Hh).
      destruct (c_idle cfg) as [i|].
      + set (s0 := set_zero (clock s) (grace cfg i) s).
        (* arm on s0: pc s0 = PInit, so use a direct construction instead of inv_arm's side condition *)
        unfold arm. replace (timer s0) with (@None nat) by (unfold s0; cbn; symmetry; exact Htm).
        constructor; cbn.
        * intro H; discriminate.
        * intros k H. inversion H; subst k; clear H. split; [exact Hc|].
          eexists; split; [rewrite nth_error_snoc, Nat.ltb_irrefl, Nat.eqb_refl; reflexivity|]. cbn. reflexivity.
        * intros k t. rewrite Ht. cbn. destruct k as [|k]; cbn; [|destruct k; discriminate].
          intros H Hp; inversion H; subst; discriminate.
        * rewrite Hf; intro H; discriminate.
        * rewrite Hc, Hh. reflexivity.
        * exact I6.
      + constructor; cbn.
        * intro H; discriminate.
        * rewrite Htm; intros k H; discriminate.
        * exact I3.
        * exact I4.
        * rewrite Hc, Hh. reflexivity.
        * exact I6.
    - (* PAccept *)
      destruct (0 <? pending s).
      + constructor; cbn; try assumption; [intro H; discriminate | rewrite I5, Epc; reflexivity].
      + constructor; cbn; try assumption; [intro H; discriminate | rewrite I5, Epc; reflexivity].
    - (* PInc *)
      rewrite Hclear.
      set (s0 := set_count (count s + 1) s).
      assert (E0 : cancel_timer s0 = cancel_timer s0) by reflexivity.
      unfold cancel_timer in *. unfold s0 at 1 3. cbn [timer set_count].
      destruct (timer s) as [k0|] eqn:Et.
      + constructor; cbn.
        * intro H; discriminate.
        * intros k H; discriminate.
        * apply due_upd_cancel; exact I3.
        * intro H; discriminate.
        * rewrite I5, Epc. cbn. lia.
        * exact I6.
      + constructor; cbn.
        * intro H; discriminate.
        * rewrite Et. intros k H; discriminate.
        * exact I3.
        * intro H; discriminate.
        * rewrite I5, Epc. cbn. lia.
        * exact I6.
    - (* PAdd *)
      constructor; cbn.
      + intro H; discriminate.
      + exact I2.
      + exact I3.
      + exact I4.
      + rewrite live_snoc, I5, Epc. cbn. lia.
      + exact I6.
    - (* PChk *)
      destruct (flag s) eqn:Ef.
      + destruct (I4 eq_refl) as [Hc Hd].
        constructor; cbn.
        * intro H; discriminate.
        * exact I2.
        * exact I3.
        * intros _. split; assumption.
        * rewrite I5, Epc. reflexivity.
        * intros c d due now H. inversion H; subst; clear H.
          split; [exact Hc|]. split; [|exact Hd].
          apply live_zero_all_done. rewrite I5, Epc in Hc. cbn in Hc. lia.
      + constructor; cbn.
        * intro H; discriminate.
        * exact I2.
        * exact I3.
        * rewrite Ef. intro H; discriminate.
        * rewrite I5, Epc. reflexivity.
        * exact I6.
    - (* PFin *)
      assert (I' : Inv (cancel_timer s)).
      { eapply inv_cancel; [exact I | rewrite Epc; discriminate | reflexivity]. }
      destruct I' as [J1 J2 J3 J4 J5 J6].
      assert (Ep : pc (cancel_timer s) = pc s) by (unfold cancel_timer; destruct (timer s); reflexivity).
      constructor; cbn; try assumption.
      + intro H; discriminate.
      + rewrite J5, Ep, Epc. reflexivity.
    - (* PDone *) exact I.
  Qed.

  Lemma inv_hnd i s : Inv s -> Inv (hnd_step cfg i s).
  Proof.
    intros I. pose proof I as [I1 I2 I3 I4 I5 I6]. unfold hnd_step.
    destruct (nth_error (handlers s) i) as [h|] eqn:Eh; [|exact I].
    assert (Hpc : pc s <> PInit).
    { intro H. destruct (I1 H) as (_ & _ & _ & _ & Hh). rewrite Hh in Eh. destruct i; discriminate. }
    destruct h.
    - (* HStart *)
      pose proof (live_upd _ _ _ HServing Eh) as L. cbn in L.
      assert (G : Inv (set_handlers (upd_nth i (fun _ => HServing) (handlers s)) s)).
      { constructor; cbn; try assumption; [intro H; contradiction | rewrite I5; lia]. }
      destruct (permits s) as [p|]; [|exact G].
      destruct (p =? 0); [exact I|].
      destruct G as [G1 G2 G3 G4 G5 G6]. constructor; cbn in *; assumption.
    - (* HServing *)
      pose proof (live_upd _ _ _ HDec Eh) as L. cbn in L.
      constructor; cbn; try assumption; [intro H; contradiction | rewrite I5; lia].
    - (* HDec *)
      pose proof (live_upd _ _ _ HDone Eh) as L. cbn in L.
      assert (Hc1 : 1 <= count s) by (rewrite I5; lia).
      assert (Hf : flag s = false).
      { destruct (flag s) eqn:Ef; [|reflexivity]. destruct (I4 eq_refl) as [Hc _]. lia. }
      assert (Htm : timer s = None).
      { destruct (timer s) as [k|] eqn:Et; [|reflexivity]. destruct (I2 k eq_refl) as [Hc _]. lia. }
      set (s1 := set_handlers (upd_nth i (fun _ => HDone) (handlers s)) (set_count (count s - 1) s)).
      assert (G : Inv s1).
      { constructor; unfold s1; cbn; try assumption.
        - intro H; contradiction.
        - rewrite Htm; intros k H; discriminate.
        - rewrite Hf; intro H; discriminate.
        - rewrite I5 in *. lia. }
      destruct (c_idle cfg) as [t|]; [|exact G].
      destruct (count s1 =? 0) eqn:Ez; [|exact G].
      apply N.eqb_eq in Ez.
      apply inv_arm.
      + destruct G as [G1 G2 G3 G4 G5 G6]. constructor; cbn; try assumption.
        * unfold s1 in *; cbn in *. rewrite Htm. intros k H; discriminate.
        * unfold s1; cbn. rewrite Hf. intro H; discriminate.
      + cbn. exact Ez.
      + cbn. unfold s1; cbn. exact Hf.
      + reflexivity.
      + reflexivity.
      + cbn. unfold s1; cbn. exact Hpc.
    - (* HDone *) exact I.
  Qed.

  Lemma inv_tmr k s : Inv s -> Inv (tmr_step cfg k s).
  Proof.
    intros I. pose proof I as [I1 I2 I3 I4 I5 I6]. unfold tmr_step.
    destruct (nth_error (timers s) k) as [t|] eqn:Et; [|exact I].
    assert (Hpc : pc s <> PInit).
    { intro H. destruct (I1 H) as (Hts & _). rewrite Hts in Et. destruct k; discriminate. }
    assert (K : forall p, (p = TExpired -> t_deadline t <= clock s) ->
                forall k' t', nth_error (upd_nth k (tphase p) (timers s)) k' = Some t' ->
                              t_ph t' = TExpired -> t_deadline t' <= clock s).
    { intros p Hp k' t'. rewrite nth_error_upd_nth.
      destruct (nth_error (timers s) k') as [x|] eqn:E; [|discriminate].
      intros H Hph; inversion H; subst; clear H.
      destruct (Nat.eqb_spec k k') as [->|N].
      - rewrite Et in E; inversion E; subst. cbn in *. apply Hp; exact Hph.
      - eapply I3; eauto. }
    assert (T : forall p k', timer s = Some k' ->
                count s = 0 /\ exists t', nth_error (upd_nth k (tphase p) (timers s)) k' = Some t'
                                           /\ t_deadline t' = zero_since s + cur_T s).
    { intros p k' H. destruct (I2 k' H) as [Hc (t' & Hn & Hd)]. split; [exact Hc|].
      rewrite nth_error_upd_nth, Hn. eexists; split; [reflexivity|].
      destruct (Nat.eqb k k'); cbn; exact Hd. }
    destruct (t_ph t) eqn:Ep.
    - (* TWait *)
      destruct (t_cancelled t).
      + constructor; cbn; try assumption; [intro H; contradiction | apply T | apply K; intro H; discriminate].
      + destruct (N.leb_spec (t_deadline t) (clock s)) as [Hle|Hgt]; [|exact I].
        constructor; cbn; try assumption; [intro H; contradiction | apply T | apply K; intros _; exact Hle].
    - (* TExpired *)
      rewrite Hguard. cbn [andb].
      destruct (opt_nat_eqb (timer s) k) eqn:Eg; cbn [negb].
      + (* this Timer is the one `timer` names *)
        unfold opt_nat_eqb in Eg. destruct (timer s) as [k'|] eqn:Etm; [|discriminate].
        apply Nat.eqb_eq in Eg; subst k'.
        destruct (I2 k eq_refl) as [Hc (t' & Hn & Hd)]. rewrite Et in Hn; inversion Hn; subst t'.
        pose proof (I3 k t Et Ep) as Hdue.
        cbn. rewrite Hc. cbn.
        constructor; cbn; try assumption.
        * intro H; contradiction.
        * intros k' H; discriminate.
        * apply K; intro H; discriminate.
        * intros _. split; [exact Hc | lia].
      + constructor; cbn; try assumption; [intro H; contradiction | apply T | apply K; intro H; discriminate].
    - (* TDone *) exact I.
  Qed.

  Lemma inv_step s a : Inv s -> Inv (astep cfg s a).
  Proof.
    intros I. destruct a as [d| | | |i|k]; cbn.
    - destruct I as [I1 I2 I3 I4 I5 I6]. constructor; cbn; try assumption.
      + intros k t H Hp. specialize (I3 k t H Hp). lia.
      + intro H. destruct (I4 H) as [Hc Hd]. split; [exact Hc | lia].
    - destruct I as [I1 I2 I3 I4 I5 I6]. constructor; cbn; assumption.
    - apply inv_acc; exact I.
    - destruct (pc s) eqn:Epc; try exact I.
      destruct I as [I1 I2 I3 I4 I5 I6]. constructor; cbn; try assumption.
      + intro H; discriminate.
      + rewrite I5, Epc. reflexivity.
    - apply inv_hnd; exact I.
    - apply inv_tmr; exact I.
  Qed.

  Lemma inv_run : forall sch s, Inv s -> Inv (fold_left (astep cfg) sch s).
  Proof. induction sch as [|a r IH]; intros s I; cbn; [exact I | apply IH, inv_step, I]. Qed.

  Lemma inv_arun sch : Inv (arun cfg sch).
  Proof. apply inv_run, inv_init. Qed.

  (* the loop leaves on shutdown_requested only idle: no connection counted, every connection thread
     finished, and the applicable timeout elapsed since the last connection went away *)
  Theorem stop_only_when_idle : forall sch c d due now,
    brk (arun cfg sch) = Some (c, d, due, now) -> c = 0 /\ d = true /\ due <= now.
  Proof. intros sch c d due now H. exact (i_brk _ (inv_arun sch) c d due now H). Qed.

  (* state form: whenever the break is enabled (acceptor at the post-timeout check, flag set) the loop is idle *)
  Theorem break_enabled_idle : forall sch, let s := arun cfg sch in
    pc s = PChk -> flag s = true ->
    count s = 0 /\ forallb is_done (handlers s) = true /\ zero_since s + cur_T s <= clock s.
  Proof.
    intros sch s Hp Hf. destruct (inv_arun sch) as [I1 I2 I3 I4 I5 I6]. fold s in I4, I5.
    destruct (I4 Hf) as [Hc Hd]. split; [exact Hc|]. split; [|exact Hd].
    apply live_zero_all_done. rewrite I5, Hp in Hc. cbn in Hc. lia.
  Qed.

  (* while a connection is accepted-but-uncounted, counted, being served, or just served, the flag is down or stays harmless:
     conn_count never under-counts the connection threads that have not finished *)
  Theorem count_covers_threads : forall sch, let s := arun cfg sch in live (handlers s) <= count s.
  Proof. intros sch s. destruct (inv_arun sch) as [_ _ _ _ I5 _]. fold s in I5. lia. Qed.
End Fixed.
