(* Lemmas about model/M_StickyTok.v: AAD injectivity and plaintext layout (instances of lib/Layout.v), registry facts,
   the resolution path over an ideal AEAD. *)
From Coq Require Import List NArith ZArith Bool Lia Arith.
From VGI Require Import Bytes Layout M_StickyTok.
Import ListNotations.
Open Scope N_scope.

(* ---------------------------------------------------------------- small facts *)
Lemma text_eqb_eq : forall x y, text_eqb x y = true <-> x = y.
Proof.
  induction x as [|a x IH]; intros [|b y]; cbn [text_eqb]; split; intros H; try reflexivity; try discriminate H.
  - apply andb_true_iff in H. destruct H as [H1 H2]. apply N.eqb_eq in H1. apply IH in H2. subst. reflexivity.
  - injection H as H1 H2. subst. rewrite N.eqb_refl. cbn [andb]. apply IH. reflexivity.
Qed.
Lemma text_eqb_refl : forall x, text_eqb x x = true.
Proof. intros x. apply text_eqb_eq. reflexivity. Qed.

Lemma slice_app : forall (a b c : bytes) lo hi,
  lo = blen a -> hi = blen a + blen b -> slice (a ++ b ++ c) lo hi = b.
Proof.
  intros a b c lo hi Hlo Hhi. subst lo hi. unfold slice, blen.
  replace (N.to_nat (N.of_nat (length a) + N.of_nat (length b) - N.of_nat (length a))) with (length b) by lia.
  rewrite Nat2N.id. rewrite skipn_app_exact. apply firstn_app_exact.
Qed.

Lemma L_skipn_skipn : forall {A} (a b : nat) (l : list A), skipn a (skipn b l) = skipn (b + a) l.
Proof.
  intros A a b. induction b as [|b IH]; intros l; cbn [skipn plus].
  - reflexivity.
  - destruct l as [|x l]; [destruct a; reflexivity|]. apply IH.
Qed.

(* ---------------------------------------------------------------- AAD *)
Definition ident_ok (i : identity) : Prop :=
  match i with
  | Anon => True
  | Authd d p => bytes_ok d = true /\ bytes_ok p = true /\ has_nul d = false
  end.

Lemma aad_prefix_ok : bytes_ok aad_prefix = true.
Proof. vm_compute; reflexivity. Qed.

Lemma enc_aad_anon : enc aad_anon_layout [] = Some (compute_aad Anon).
Proof. vm_compute; reflexivity. Qed.

Definition aad_anon_layout_split : layout := [FConst aad_prefix; FConst [0]; FConst (tl anon_tail)].
Lemma enc_aad_anon_split : enc aad_anon_layout_split [] = enc aad_anon_layout [].
Proof. vm_compute; reflexivity. Qed.

Lemma enc_aad_auth : forall d p,
  bytes_ok d = true -> bytes_ok p = true -> has_nul d = false ->
  enc aad_auth_layout [ABytes d; ABytes p] = Some (compute_aad (Authd d p)).
Proof.
  intros d p Hd Hp Hn. unfold aad_auth_layout. cbn [enc enc_field].
  rewrite aad_prefix_ok. change (bytes_ok [1]) with true. cbv iota. rewrite Hd, Hn. cbn [negb andb]. cbv iota.
  rewrite Hp. cbv iota.
  cbn [compute_aad app]. rewrite app_nil_r. rewrite <- !app_assoc. reflexivity.
Qed.

Lemma aad_auth_pd : prefix_decodable aad_auth_layout = true.
Proof. vm_compute; reflexivity. Qed.

Theorem aad_injective : forall i1 i2,
  ident_ok i1 -> ident_ok i2 -> compute_aad i1 = compute_aad i2 -> i1 = i2.
Proof.
  intros i1 i2 H1 H2 H.
  destruct i1 as [|d1 p1], i2 as [|d2 p2].
  - reflexivity.
  - exfalso. destruct H2 as [Hd [Hp Hn]].
    pose proof enc_aad_anon as Ea. rewrite <- enc_aad_anon_split in Ea. rewrite H in Ea.
    pose proof (enc_aad_auth d2 p2 Hd Hp Hn) as Eb.
    unfold aad_anon_layout_split in Ea. unfold aad_auth_layout in Eb.
    refine (enc_tag_disjoint _ 0 1 _ _ _ _ _ _ Ea Eb). discriminate.
  - exfalso. destruct H1 as [Hd [Hp Hn]].
    pose proof enc_aad_anon as Ea. rewrite <- enc_aad_anon_split in Ea. rewrite <- H in Ea.
    pose proof (enc_aad_auth d1 p1 Hd Hp Hn) as Eb.
    unfold aad_anon_layout_split in Ea. unfold aad_auth_layout in Eb.
    refine (enc_tag_disjoint _ 0 1 _ _ _ _ _ _ Ea Eb). discriminate.
  - destruct H1 as [Hd1 [Hp1 Hn1]]. destruct H2 as [Hd2 [Hp2 Hn2]].
    pose proof (enc_aad_auth d1 p1 Hd1 Hp1 Hn1) as E1.
    pose proof (enc_aad_auth d2 p2 Hd2 Hp2 Hn2) as E2.
    rewrite H in E1.
    pose proof (enc_inj _ _ _ _ aad_auth_pd E1 E2) as Hargs.
    injection Hargs as Hd' Hp'. subst. reflexivity.
Qed.

(* ---------------------------------------------------------------- plaintext *)
Definition U64 : N := 18446744073709551616.
Lemma wmax64 : wmax W64 = U64. Proof. reflexivity. Qed.
Lemma wmax8 : wmax W8 = 256. Proof. reflexivity. Qed.

Definition wf_plain (c : N) (sb sid : bytes) (e : N) : Prop :=
  c < U64 /\ blen sb < 256 /\ bytes_ok sb = true /\ length sid = 12%nat /\ bytes_ok sid = true /\ e < U64.

(* what _seal_session_token packs is the encoding of the layout *)
Lemma enc_plain : forall c sb sid e,
  wf_plain c sb sid e ->
  enc plain_layout [AInt c; ABytes sb; ABytes sid; AInt e] = Some (session_plain c sb sid e).
Proof.
  intros c sb sid e [Hc [Hl [Hb [Hs [Hsb He]]]]]. unfold plain_layout. cbn [enc enc_field].
  rewrite wmax64, wmax8.
  apply N.ltb_lt in Hc. rewrite Hc.
  unfold blen in Hl. pose proof Hl as Hl'. apply N.ltb_lt in Hl'. rewrite Hl', Hb. cbn [andb].
  rewrite Hs, Hsb. cbn [Nat.eqb andb].
  apply N.ltb_lt in He. rewrite He.
  unfold session_plain, blen. cbn [wbytes le_encode].
  rewrite (N.mod_small _ _ Hl). rewrite app_nil_r. rewrite <- !app_assoc. reflexivity.
Qed.

Lemma plain_layout_pd : prefix_decodable plain_layout = true.
Proof. reflexivity. Qed.

(* the parser reads back exactly what the seal packed *)
Lemma parse_session_plain : forall c sb sid e,
  length sid = 12%nat -> e < U64 ->
  parse_plain (session_plain c sb sid e) = Some (sb, sid, e).
Proof.
  intros c sb sid e Hsid He. unfold parse_plain, session_plain.
  set (P := le_encode 8 c). set (E := le_encode 8 e).
  assert (HP : length P = 8%nat) by apply le_encode_length.
  assert (HE : length E = 8%nat) by apply le_encode_length.
  assert (Hlen : blen (P ++ [blen sb] ++ sb ++ sid ++ E) = 9 + blen sb + 12 + 8).
  { unfold blen. rewrite !app_length. cbn [length]. rewrite HP, HE, Hsid. lia. }
  rewrite Hlen. unfold PLAIN_PREFIX_LEN, SESSION_ID_LEN, PLAIN_SUFFIX_LEN.
  assert (E1 : (9 + blen sb + 12 + 8 <? 9) = false) by (apply N.ltb_ge; lia).
  rewrite E1.
  assert (Hn : nth 8 (P ++ [blen sb] ++ sb ++ sid ++ E) 0 = blen sb).
  { rewrite app_nth2 by lia. rewrite HP. reflexivity. }
  rewrite Hn. cbv zeta. rewrite N.eqb_refl. cbn [negb].
  assert (S1 : slice (P ++ [blen sb] ++ sb ++ sid ++ E) 9 (9 + blen sb) = sb).
  { replace (P ++ [blen sb] ++ sb ++ sid ++ E) with ((P ++ [blen sb]) ++ sb ++ (sid ++ E))
      by (rewrite <- !app_assoc; reflexivity).
    apply slice_app; unfold blen; rewrite app_length, HP; cbn [length]; lia. }
  assert (S2 : slice (P ++ [blen sb] ++ sb ++ sid ++ E) (9 + blen sb) (9 + blen sb + 12) = sid).
  { replace (P ++ [blen sb] ++ sb ++ sid ++ E) with ((P ++ [blen sb] ++ sb) ++ sid ++ E)
      by (rewrite <- !app_assoc; reflexivity).
    apply slice_app; unfold blen; rewrite !app_length, HP; cbn [length]; rewrite ?Hsid; lia. }
  assert (S3 : slice (P ++ [blen sb] ++ sb ++ sid ++ E) (9 + blen sb + 12) (9 + blen sb + 12 + 8) = E).
  { replace (P ++ [blen sb] ++ sb ++ sid ++ E) with ((P ++ [blen sb] ++ sb ++ sid) ++ E ++ [])
      by (rewrite app_nil_r; rewrite <- !app_assoc; reflexivity).
    apply slice_app; unfold blen; rewrite !app_length, HP; cbn [length]; rewrite ?Hsid, ?HE; lia. }
  rewrite S1, S2, S3. unfold E. rewrite le_decode_encode; [reflexivity|exact He].
Qed.

(* ... and accepts nothing else: a parsed plaintext is the packing of its fields (exact length, no slack) *)
Lemma parse_plain_inv : forall pl sb sid e,
  bytes_ok pl = true ->
  parse_plain pl = Some (sb, sid, e) ->
  exists c, wf_plain c sb sid e /\ pl = session_plain c sb sid e.
Proof.
  intros pl sb sid e Hok H. unfold parse_plain, PLAIN_PREFIX_LEN, SESSION_ID_LEN, PLAIN_SUFFIX_LEN in H.
  destruct (blen pl <? 9) eqn:E1; [discriminate H|]. apply N.ltb_ge in E1.
  cbv zeta in H.
  destruct (blen pl =? 9 + nth 8 pl 0 + 12 + 8) eqn:E2; cbn [negb] in H; [|discriminate H].
  apply N.eqb_eq in E2.
  set (n := nth 8 pl 0) in *.
  pose proof (f_equal (fun o => match o with Some (a, _, _) => a | None => [] end) H) as Hsb.
  pose proof (f_equal (fun o => match o with Some (_, a, _) => a | None => [] end) H) as Hsid.
  pose proof (f_equal (fun o => match o with Some (_, _, a) => a | None => 0 end) H) as He.
  cbv beta iota in Hsb, Hsid, He. clear H.
  (* decompose pl into its five pieces *)
  pose proof (firstn_skipn 8 pl) as D1.
  set (r1 := skipn 8 pl) in *.
  assert (L1 : length r1 = (length pl - 8)%nat) by (unfold r1; apply skipn_length).
  unfold blen in E1, E2.
  assert (Hr1 : r1 = n :: skipn 9 pl).
  { unfold r1, n. clear -E1. revert E1. generalize pl. intros l Hl.
    do 8 (destruct l as [|? l]; [cbn in Hl; lia|]). destruct l as [|x l]; [cbn in Hl; lia|]. reflexivity. }
  set (r2 := skipn 9 pl) in *.
  assert (L2 : length r2 = (length pl - 9)%nat) by (unfold r2; apply skipn_length).
  pose proof (firstn_skipn (N.to_nat n) r2) as D2.
  pose proof (firstn_skipn 12 (skipn (N.to_nat n) r2)) as D3.
  assert (Hs1 : sb = firstn (N.to_nat n) r2).
  { rewrite <- Hsb. unfold slice, r2. replace (N.to_nat (9 + n - 9)) with (N.to_nat n) by lia. reflexivity. }
  assert (Hs2 : sid = firstn 12 (skipn (N.to_nat n) r2)).
  { rewrite <- Hsid. unfold slice, r2. replace (N.to_nat (9 + n + 12 - (9 + n))) with 12%nat by lia.
    rewrite L_skipn_skipn. f_equal. f_equal. lia. }
  assert (Hs3 : slice pl (9 + n + 12) (9 + n + 12 + 8) = skipn 12 (skipn (N.to_nat n) r2)).
  { unfold slice, r2. replace (N.to_nat (9 + n + 12 + 8 - (9 + n + 12))) with 8%nat by lia.
    rewrite !L_skipn_skipn. rewrite firstn_all2; [f_equal; lia|]. rewrite skipn_length. lia. }
  assert (Lsb : length sb = N.to_nat n). { rewrite Hs1. apply firstn_length_le. lia. }
  assert (Lsid : length sid = 12%nat). { rewrite Hs2. apply firstn_length_le. rewrite skipn_length. lia. }
  set (E := skipn 12 (skipn (N.to_nat n) r2)) in *.
  assert (LE : length E = 8%nat). { unfold E. rewrite !skipn_length. lia. }
  assert (Hpl : pl = firstn 8 pl ++ [n] ++ sb ++ sid ++ E).
  { rewrite <- D1 at 1. f_equal. rewrite Hr1. cbn [app]. f_equal. rewrite <- D2 at 1. rewrite <- Hs1. f_equal.
    rewrite <- D3 at 1. rewrite <- Hs2. reflexivity. }
  assert (Hoks : bytes_ok (firstn 8 pl) = true /\ bytes_ok sb = true /\ bytes_ok sid = true /\ bytes_ok E = true /\ n < 256).
  { rewrite Hpl in Hok. rewrite !bytes_ok_app in Hok. cbn [bytes_ok forallb] in Hok.
    repeat (apply andb_true_iff in Hok; destruct Hok as [? Hok]).
    repeat match goal with H : _ && _ = true |- _ => apply andb_true_iff in H; destruct H end.
    repeat split; try assumption. apply N.ltb_lt. assumption. }
  destruct Hoks as [Ok1 [Ok2 [Ok3 [Ok4 Hn256]]]].
  assert (L8 : length (firstn 8 pl) = 8%nat) by (apply firstn_length_le; lia).
  exists (le_decode (firstn 8 pl)). split.
  - unfold wf_plain. split.
    { pose proof (le_decode_bound (firstn 8 pl) Ok1) as B. rewrite L8 in B. exact B. }
    split. { unfold blen. lia. }
    split; [exact Ok2|]. split; [exact Lsid|]. split; [exact Ok3|].
    rewrite <- He. rewrite Hs3. pose proof (le_decode_bound E Ok4) as B. rewrite LE in B. exact B.
  - unfold session_plain.
    assert (X1 : le_encode 8 (le_decode (firstn 8 pl)) = firstn 8 pl).
    { rewrite <- L8 at 1. apply le_encode_decode. exact Ok1. }
    assert (X2 : le_encode 8 e = E).
    { rewrite <- He, Hs3. rewrite <- LE at 1. apply le_encode_decode. exact Ok4. }
    rewrite X1, X2. unfold blen. rewrite Lsb, N2Nat.id. exact Hpl.
Qed.
