(* Proofs about model/M_ShmXfer.v, part 1: memory content of a write, the state invariant, its preservation
   by every micro-operation, deliveries.  (Part 2, owners and leaks: proof/L_ShmXferLeak.v.) *)
From Coq Require Import List NArith ZArith Bool Lia.
From VGI Require Import M_Alloc L_Alloc M_ShmXfer.
Import ListNotations.
Open Scope N_scope.

Lemma owner_eqb_eq : forall a b, owner_eqb a b = true <-> a = b.
Proof. intros a b; destruct a, b; cbn; split; intros H; try reflexivity; try discriminate. Qed.

Lemma owner_eqb_refl : forall a, owner_eqb a a = true.
Proof. intros a; apply owner_eqb_eq; reflexivity. Qed.

Lemma owner_eqb_neq : forall a b, owner_eqb a b = false <-> a <> b.
Proof.
  intros a b. split.
  - intros H E. apply owner_eqb_eq in E. congruence.
  - intros H. destruct (owner_eqb a b) eqn:E; [apply owner_eqb_eq in E; contradiction | reflexivity].
Qed.

(* ------------------------------------------------------------------ *)
(** * What a write leaves in memory                                    *)
(* ------------------------------------------------------------------ *)

Lemma sum_len_tag : forall id lens, sum_len (map (tag_chunk id) lens) = sum_list lens.
Proof. intros id lens. induction lens as [|n r IH]; cbn [map sum_len sum_list tag_chunk c_len]; [reflexivity | rewrite IH; reflexivity]. Qed.

(* a stream that did not overflow: everything between the cursor before and after carries the identity *)
Lemma fold_tag : forall id lens s,
  s_over s = false -> s_pos s <= s_limit s ->
  let s' := fold_left sink_write (map (tag_chunk id) lens) s in
  s_over s' = false ->
  forall a, s_pos s <= a < s_pos s' -> s_mem s' a = id.
Proof.
  intros id lens. induction lens as [|n r IH]; intros s Ho Hp; cbn [map fold_left]; cbv zeta.
  - intros _ a Ha. lia.
  - intros Hs' a Ha.
    unfold sink_write at 2 in Hs'. unfold sink_write at 2 in Ha. unfold sink_write at 2.
    unfold sink_guard in *. rewrite Ho in *. cbn [orb] in *. cbn [tag_chunk c_len] in *.
    destruct (s_limit s <? s_pos s + n) eqn:E.
    + rewrite sink_over_stays in Hs' by reflexivity. cbn [s_over] in Hs'. discriminate.
    + apply N.ltb_ge in E.
      set (s1 := mk_sink (s_pos s + n) (s_limit s) false (store (s_mem s) (s_pos s) (mk_chunk n (fun _ => id)))) in *.
      assert (P1 : s_pos s1 <= s_limit s1) by (cbn; exact E).
      destruct (N.lt_ge_cases a (s_pos s + n)) as [Hlt | Hge].
      * (* written by this chunk, untouched by the later ones *)
        destruct (sink_fold (map (tag_chunk id) r) s1 (s_pos s1) (s_mem s1) (N.le_refl _) P1 (fun _ _ => eq_refl))
          as (_ & _ & _ & D).
        rewrite D by (cbn [s1 s_pos]; lia).
        cbn [s1 s_mem]. rewrite store_inside by (cbn [c_len]; lia). reflexivity.
      * apply (IH s1 eq_refl P1 Hs'). split; [cbn [s1 s_pos]; exact Hge | exact (proj2 Ha)].
Qed.

(* what the model's send does, for a well-measured batch *)
Lemma maybe_write_spec : forall c t m b t' m' it,
  Inv (c_total c) t -> wf_batch b -> maybe_write c t m b = (t', m', it) ->
  Inv (c_total c) t' /\
  (forall e a, In e t -> in_region e a -> m' a = m a) /\
  match it with
  | Inline id => id = b_id b /\ t' = t
  | Ptr off len =>
      c_shm c = true /\ 0 < len /\ len <= b_need b /\
      fits (c_total c) t off (b_need b) /\
      (forall e, In e t' <-> e = (off, b_need b) \/ In e t) /\
      (forall a, off <= a < off + len -> m' a = b_id b)
  end.
Proof.
  intros c t m b t' m' it HI Hwf H. unfold maybe_write in H.
  destruct (negb (c_shm c)) eqn:Eshm.
  { inversion H; subst. split; [exact HI |]. split; [reflexivity |]. split; reflexivity. }
  apply negb_false_iff in Eshm.
  destruct (skip_guard (b_rows b) (b_nbytes b) (c_thresh c)).
  { inversion H; subst. split; [exact HI |]. split; [reflexivity |]. split; reflexivity. }
  unfold wf_batch in Hwf. unfold b_need.
  destruct (b_dict b) eqn:Ed.
  - (* dictionary path *)
    destruct (allocate_and_copy (c_total c) t m (tag_chunk (b_id b) (b_ser b))) as [[t1 m1] r] eqn:Ec.
    assert (Hl : 0 < c_len (tag_chunk (b_id b) (b_ser b))) by (cbn; exact Hwf).
    destruct (copy_contained _ _ _ _ _ _ _ HI Hl Ec) as (A & B & _ & _ & E).
    destruct r as [[off len]|]; inversion H; subst t' m' it.
    + destruct E as (E1 & E2 & E3 & _). cbn [tag_chunk c_len] in E1. subst len.
      split; [exact A |]. split; [intros e a He Ha; exact (B e He a Ha) |].
      split; [exact Eshm |]. split; [exact Hwf |]. split; [lia |]. split; [exact E2 |]. split; [exact E3 |].
      intros a Ha. unfold allocate_and_copy in Ec.
      destruct (allocate (c_total c) t (c_len (tag_chunk (b_id b) (b_ser b)))) as [[t2 o2]|]; [| discriminate].
      inversion Ec; subst. rewrite store_inside by (cbn [tag_chunk c_len]; lia). reflexivity.
    + destruct E as (E1 & E2). subst. split; [exact A |]. split; [reflexivity |]. split; reflexivity.
  - (* direct path *)
    destruct (allocate_and_write (c_total c) t m (estimate (b_msg b)) (map (tag_chunk (b_id b)) (b_stream b))) as [[t1 m1] r] eqn:Ew.
    assert (He : 0 < estimate (b_msg b)) by (unfold estimate, STREAM_OVERHEAD; lia).
    destruct (write_contained _ _ _ _ _ _ _ _ HI He Ew) as (A & B & _ & _ & E).
    destruct r as [[off len]|]; inversion H; subst t' m' it.
    + destruct E as (E1 & E2 & E3 & E4 & _). rewrite sum_len_tag in E2.
      split; [exact A |]. split; [intros e a Hin Ha; exact (B e Hin a Ha) |].
      split; [exact Eshm |]. split; [lia |]. split; [exact E1 |]. split; [exact E3 |]. split; [exact E4 |].
      intros a Ha. unfold allocate_and_write in Ew.
      destruct (allocate (c_total c) t (estimate (b_msg b))) as [[t2 o2]|]; [| discriminate].
      set (s0 := mk_sink o2 (sink_limit o2 (estimate (b_msg b))) false m) in *.
      destruct (s_over (fold_left sink_write (map (tag_chunk (b_id b)) (b_stream b)) s0)) eqn:Eo; [discriminate |].
      inversion Ew; subst t1 m1 off len. clear Ew.
      assert (P0 : s_pos s0 <= s_limit s0) by (cbn; unfold sink_limit; lia).
      destruct (sink_fold (map (tag_chunk (b_id b)) (b_stream b)) s0 o2 m (N.le_refl _) P0) as (_ & S2 & _ & _).
      { intros a0 _. reflexivity. }
      apply (fold_tag (b_id b) (b_stream b) s0 eq_refl P0 Eo).
      unfold bytes_written in Ha. change (s_pos s0) with o2.
      set (p := s_pos (fold_left sink_write (map (tag_chunk (b_id b)) (b_stream b)) s0)) in *.
      unfold bytes_written in *. lia.
    + destruct E as (E1 & _). subst. split; [exact A |]. split; [intros e a Hin Ha; exact (B e Hin a Ha) |]. split; reflexivity.
Qed.

(* ------------------------------------------------------------------ *)
(** * The state invariant                                              *)
(* ------------------------------------------------------------------ *)

(* an outstanding pointer: its region lies in a live entry that starts at its offset, and memory still holds its batch *)
Definition ref_ok (t : table) (m : mem) (r : ref) : Prop :=
  0 < r_len r /\
  (exists need, In (r_off r, need) t /\ r_len r <= need) /\
  forall a, r_off r <= a < r_off r + r_len r -> m a = r_id r.

Definition covered (t : table) (rs : list ref) : Prop :=
  forall o l, In (o, l) t -> In o (map r_off rs).

Definition Pieces (total : N) (t : table) (m : mem) (rs : list ref) : Prop :=
  Inv total t /\ Forall (ref_ok t m) rs /\ NoDup (map r_off rs) /\ covered t rs.

Definition SInv (total : N) (s : st) : Prop :=
  Pieces total (x_tbl s) (x_mem s) (x_refs s) /\ x_err s = 0.

Lemma SInv_init : forall total, HEADER_SIZE <= total -> SInv total init.
Proof.
  intros total H. split; [| reflexivity]. split; [apply Inv_nil; exact H |].
  split; [constructor |]. split; [constructor |]. intros o l [].
Qed.

Lemma ref_ok_retag : forall t m o o' r, ref_ok t m (retag o o' r) <-> ref_ok t m r.
Proof. intros t m o o' r. unfold retag. destruct (owner_eqb (r_own r) o); cbn; reflexivity. Qed.

Lemma retag_off : forall o o' rs, map r_off (map (retag o o') rs) = map r_off rs.
Proof.
  intros o o' rs. rewrite map_map. apply map_ext. intros r. unfold retag. destruct (owner_eqb (r_own r) o); reflexivity.
Qed.

(* one pointer is released: its entry goes, everything else stays *)
Lemma remove_ref : forall total t m l1 r l2,
  Pieces total t m (l1 ++ r :: l2) ->
  exists t1, free t (r_off r) = Some t1 /\ Pieces total t1 m (l1 ++ l2).
Proof.
  intros total t m l1 r l2 (HI & HF & HN & HC).
  pose proof (Forall_elt _ _ _ HF) as Hr. destruct Hr as (_ & (need & Hin & _) & _).
  destruct (free t (r_off r)) as [t1|] eqn:Ef.
  2:{ exfalso. apply (proj1 (free_none_iff t (r_off r)) Ef). exists need; exact Hin. }
  exists t1. split; [reflexivity |].
  destruct (free_some _ _ _ _ HI Ef) as (HI1 & _ & Hmem & _).
  rewrite map_app in HN. cbn [map] in HN.
  pose proof (NoDup_remove_1 _ _ _ HN) as HN1. pose proof (NoDup_remove_2 _ _ _ HN) as HN2.
  rewrite <- map_app in HN1, HN2.
  split; [exact HI1 |]. split; [| split; [exact HN1 |]].
  - apply Forall_forall. intros x Hx.
    assert (Hx' : In x (l1 ++ r :: l2)).
    { apply in_app_or in Hx. apply in_or_app. destruct Hx as [Hx | Hx]; [left; exact Hx | right; right; exact Hx]. }
    pose proof (proj1 (Forall_forall _ _) HF x Hx') as (X1 & (nd & X2 & X3) & X4).
    split; [exact X1 |]. split; [| exact X4].
    exists nd. split; [| exact X3]. apply Hmem. split; [exact X2 |]. cbn [fst].
    intros Eq. apply HN2. rewrite <- Eq. apply in_map. exact Hx.
  - intros o l Hol. apply Hmem in Hol. destruct Hol as (Hol & Hne). cbn [fst] in Hne.
    pose proof (HC o l Hol) as Ho. rewrite map_app in Ho. cbn [map] in Ho.
    rewrite map_app. apply in_app_or in Ho. apply in_or_app.
    destruct Ho as [Ho | [Ho | Ho]]; [left; exact Ho | congruence | right; exact Ho].
Qed.

Lemma free_owned_ok : forall total o m rs t keep t' rs' e,
  Pieces total t m (keep ++ rs) ->
  free_owned o t rs = (t', rs', e) ->
  e = 0 /\ Pieces total t' m (keep ++ rs') /\ rs' = filter (fun r => negb (owner_eqb (r_own r) o)) rs.
Proof.
  intros total o m rs. induction rs as [|r rest IH]; intros t keep t' rs' e HP H; cbn [free_owned] in H.
  - inversion H; subst. split; [reflexivity |]. split; [exact HP | reflexivity].
  - cbn [filter]. destruct (owner_eqb (r_own r) o) eqn:Eo; cbn [negb].
    + destruct (remove_ref _ _ _ _ _ _ HP) as (t1 & Ef & HP1).
      unfold free1 in H. rewrite Ef in H.
      destruct (free_owned o t1 rest) as [[t2 rs2] e2] eqn:Er. inversion H; subst t' rs' e.
      destruct (IH _ _ _ _ _ HP1 Er) as (A & B & C). subst e2. split; [reflexivity |]. split; [exact B | exact C].
    + destruct (free_owned o t rest) as [[t2 rs2] e2] eqn:Er. inversion H; subst t' rs' e.
      assert (HP' : Pieces total t m ((keep ++ [r]) ++ rest)) by (rewrite <- app_assoc; exact HP).
      destruct (IH _ _ _ _ _ HP' Er) as (A & B & C). split; [exact A |].
      split; [rewrite <- app_assoc in B; exact B | rewrite C; reflexivity].
Qed.

Lemma free_held_ok : forall total m rs i t keep t' rs' e,
  Pieces total t m (keep ++ rs) ->
  free_held i t rs = (t', rs', e) ->
  e = 0 /\ Pieces total t' m (keep ++ rs') /\ (forall x, In x rs' -> In x rs).
Proof.
  intros total m rs. induction rs as [|r rest IH]; intros i t keep t' rs' e HP H; cbn [free_held] in H.
  - inversion H; subst. split; [reflexivity |]. split; [exact HP | intros x Hx; exact Hx].
  - assert (Hskip : forall j, free_held j t rest = (t', match rs' with [] => [] | _ :: q => q end, e) ->
                     rs' <> [] -> hd r rs' = r ->
                     e = 0 /\ Pieces total t' m (keep ++ rs') /\ (forall x, In x rs' -> In x (r :: rest))).
    { intros j Hj Hne Hhd. destruct rs' as [|r0 q]; [congruence |]. cbn [hd] in Hhd. subst r0.
      assert (HP' : Pieces total t m ((keep ++ [r]) ++ rest)) by (rewrite <- app_assoc; exact HP).
      destruct (IH _ _ _ _ _ _ HP' Hj) as (A & B & C). split; [exact A |].
      split; [rewrite <- app_assoc in B; exact B |].
      intros x [Hx | Hx]; [left; exact Hx | right; apply C; exact Hx]. }
    destruct (owner_eqb (r_own r) OHeld).
    + destruct i as [|j].
      * destruct (remove_ref _ _ _ _ _ _ HP) as (t1 & Ef & HP1).
        unfold free1 in H. rewrite Ef in H. inversion H; subst t' rs' e.
        split; [reflexivity |]. split; [exact HP1 | intros x Hx; right; exact Hx].
      * destruct (free_held j t rest) as [[t2 rs2] e2] eqn:Er. inversion H; subst t' rs' e.
        apply (Hskip j); [exact Er | discriminate | reflexivity].
    + destruct (free_held i t rest) as [[t2 rs2] e2] eqn:Er. inversion H; subst t' rs' e.
      apply (Hskip i); [exact Er | discriminate | reflexivity].
Qed.

(* ------------------------------------------------------------------ *)
(** * Every micro-operation keeps the invariant and delivers what was sent *)
(* ------------------------------------------------------------------ *)

Definition spec_event (op : mop) : list event :=
  match op with MSend dst b true => [EvDeliver dst (b_id b)] | _ => [] end.

Definition spec_events (ops : list mop) : list event := flat_map spec_event ops.

Lemma ref_region_in_entry : forall t m r, ref_ok t m r ->
  exists e, In e t /\ fst e = r_off r /\ forall a, r_off r <= a < r_off r + r_len r -> in_region e a.
Proof.
  intros t m r (H0 & (need & Hin & Hle) & _). exists (r_off r, need). split; [exact Hin |]. split; [reflexivity |].
  intros a Ha. unfold in_region. cbn [fst snd]. lia.
Qed.

Lemma mstep_ok : forall c s op,
  SInv (c_total c) s -> wf_mop op ->
  SInv (c_total c) (fst (mstep c s op)) /\ snd (mstep c s op) = spec_event op.
Proof.
  intros c s op ((HI & HF & HN & HC) & He) Hwf. destruct op as [dst b deliver | o | i | o o']; cbn [mstep wf_mop] in *.
  - destruct (maybe_write c (x_tbl s) (x_mem s) b) as [[t' m'] it] eqn:Em.
    destruct (maybe_write_spec _ _ _ _ _ _ _ HI Hwf Em) as (A & B & C).
    assert (Hold : forall t2, (forall e, In e (x_tbl s) -> In e t2) -> Forall (ref_ok t2 m') (x_refs s)).
    { intros t2 Hsub. apply Forall_forall. intros x Hx.
      pose proof (proj1 (Forall_forall _ _) HF x Hx) as Hok.
      destruct (ref_region_in_entry _ _ _ Hok) as (e & Hein & _ & Hreg).
      destruct Hok as (X1 & (nd & X2 & X3) & X4).
      split; [exact X1 |]. split; [exists nd; split; [apply Hsub; exact X2 | exact X3] |].
      intros a Ha. rewrite (B e a Hein (Hreg a Ha)). apply X4; exact Ha. }
    destruct it as [id | off len].
    + destruct C as (C1 & C2). subst id t'. cbn [fst snd spec_event].
      split; [| destruct deliver; reflexivity].
      split; [| exact He]. cbn [x_tbl x_mem x_refs].
      split; [exact HI |]. split; [apply Hold; intros e H; exact H |]. split; [exact HN | exact HC].
    + destruct C as (_ & C1 & C2 & C3 & C4 & C5). cbn [fst snd spec_event].
      assert (Hgot : m' off = b_id b) by (apply C5; lia).
      split; [| rewrite Hgot; destruct deliver; reflexivity].
      split; [| exact He]. cbn [x_tbl x_mem x_refs].
      split; [exact A |]. split; [| split].
      * constructor.
        -- cbn [r_len r_off r_id]. split; [exact C1 |].
           split; [exists (b_need b); split; [apply C4; left; reflexivity | exact C2] |].
           intros a Ha. rewrite Hgot. apply C5; exact Ha.
        -- apply Hold. intros e H. apply C4. right; exact H.
      * cbn [map r_off]. constructor; [| exact HN].
        intros Hin. apply in_map_iff in Hin. destruct Hin as (x & Hxo & Hx).
        pose proof (proj1 (Forall_forall _ _) HF x Hx) as (X1 & (nd & X2 & X3) & _).
        destruct C3 as (_ & _ & C3). specialize (C3 _ _ X2). lia.
      * intros o l Hol. apply C4 in Hol. cbn [map r_off]. destruct Hol as [Hol | Hol].
        -- inversion Hol; subst. left; reflexivity.
        -- right. exact (HC o l Hol).
  - destruct (free_owned o (x_tbl s) (x_refs s)) as [[t' rs'] e] eqn:Ef. cbn [fst snd spec_event].
    destruct (free_owned_ok (c_total c) o (x_mem s) (x_refs s) (x_tbl s) [] t' rs' e) as (A & B & _).
    { cbn [app]. exact (conj HI (conj HF (conj HN HC))). }
    { exact Ef. }
    split; [| reflexivity]. split; [exact B |]. cbn [x_err]. lia.
  - destruct (free_held i (x_tbl s) (x_refs s)) as [[t' rs'] e] eqn:Ef. cbn [fst snd spec_event].
    destruct (free_held_ok (c_total c) (x_mem s) (x_refs s) i (x_tbl s) [] t' rs' e) as (A & B & _).
    { cbn [app]. exact (conj HI (conj HF (conj HN HC))). }
    { exact Ef. }
    split; [| reflexivity]. split; [exact B |]. cbn [x_err]. lia.
  - cbn [fst snd spec_event]. split; [| reflexivity]. split; [| exact He]. cbn [x_tbl x_mem x_refs].
    split; [exact HI |]. split; [| split].
    + apply Forall_forall. intros x Hx. apply in_map_iff in Hx. destruct Hx as (y & Hy & Hin). subst x.
      apply ref_ok_retag. exact (proj1 (Forall_forall _ _) HF y Hin).
    + rewrite retag_off. exact HN.
    + intros o1 l Hol. rewrite retag_off. exact (HC o1 l Hol).
Qed.

Lemma mrun_ok : forall c ops s,
  SInv (c_total c) s -> Forall wf_mop ops ->
  SInv (c_total c) (fst (mrun c s ops)) /\ snd (mrun c s ops) = spec_events ops.
Proof.
  intros c ops. induction ops as [|op r IH]; intros s HS Hwf; cbn [mrun].
  - split; [exact HS | reflexivity].
  - inversion Hwf as [|? ? W1 W2]; subst.
    destruct (mstep_ok c s op HS W1) as (A & B).
    destruct (mstep c s op) as [s1 e1]. cbn [fst snd] in A, B.
    destruct (IH s1 A W2) as (A2 & B2).
    destruct (mrun c s1 r) as [s2 e2]. cbn [fst snd] in *.
    split; [exact A2 |]. unfold spec_events. cbn [flat_map]. rewrite B, B2. reflexivity.
Qed.

(* without the side channel every delivery is the batch itself *)
Lemma mrun_inline : forall c ops s, c_shm c = false -> snd (mrun c s ops) = spec_events ops.
Proof.
  intros c ops. induction ops as [|op r IH]; intros s Hc; cbn [mrun]; [reflexivity |].
  assert (E : snd (mstep c s op) = spec_event op).
  { destruct op as [dst b deliver | o | i | o o']; cbn [mstep spec_event].
    - unfold maybe_write. rewrite Hc. cbn [negb]. cbn [snd]. destruct deliver; reflexivity.
    - destruct (free_owned o (x_tbl s) (x_refs s)) as [[t' rs'] e]; reflexivity.
    - destruct (free_held i (x_tbl s) (x_refs s)) as [[t' rs'] e]; reflexivity.
    - reflexivity. }
  destruct (mstep c s op) as [s1 e1]. cbn [snd] in E.
  specialize (IH s1 Hc). destruct (mrun c s1 r) as [s2 e2]. cbn [snd] in *.
  unfold spec_events. cbn [flat_map]. rewrite E, IH. reflexivity.
Qed.

Lemma mrun_app : forall c a b s,
  mrun c s (a ++ b) = let '(s1, e1) := mrun c s a in let '(s2, e2) := mrun c s1 b in (s2, e1 ++ e2).
Proof.
  intros c a. induction a as [|op r IH]; intros b s; cbn [app mrun].
  - destruct (mrun c s b) as [s2 e2]. reflexivity.
  - destruct (mstep c s op) as [s1 e1]. rewrite IH.
    destruct (mrun c s1 r) as [s2 e2]. destruct (mrun c s2 b) as [s3 e3]. rewrite app_assoc. reflexivity.
Qed.

(* ------------------------------------------------------------------ *)
(** * Compiled calls are made of well-formed micro-operations           *)
(* ------------------------------------------------------------------ *)

Lemma discard_wf : forall fx o, wf_mop (discard fx o).
Proof. intros fx o. unfold discard. destruct fx; exact I. Qed.

Lemma compile_sstep_wf : forall f s, wf_sstep s -> Forall wf_mop (fst (compile_sstep f s)).
Proof.
  intros f s (Hin & Hout). unfold compile_sstep.
  destruct (ss_in s) as [b|] eqn:Ei.
  - destruct (ss_bad s).
    + cbn [fst]. repeat constructor; [exact Hin | apply discard_wf].
    + destruct (ss_out s) as [bo | |]; cbn [fst]; try (repeat constructor; exact Hin).
      destruct (ss_exclog s); cbn [fst].
      * repeat constructor; try exact Hin; try exact Hout. apply discard_wf.
      * destruct (ss_rel s); repeat constructor; try exact Hin; exact Hout.
  - assert (E : (match ss_bad s with | _ => (match ss_out s with
        | OEmit b => if ss_exclog s then ([] ++ [MSend OCliTmp b false; MFree OSrvIn; discard (f_sdrain f) OCliTmp], false)
                     else ([] ++ (if ss_rel s then [MSend OCliNow b true; MFree OCliNow] else [MSend OHeld b true]), true)
        | ORaise => ([], false) | OFinish => ([], false) end) end) =
        (match ss_out s with
        | OEmit b => if ss_exclog s then ([MSend OCliTmp b false; MFree OSrvIn; discard (f_sdrain f) OCliTmp], false)
                     else ((if ss_rel s then [MSend OCliNow b true; MFree OCliNow] else [MSend OHeld b true]), true)
        | ORaise => ([], false) | OFinish => ([], false) end)) by (destruct (ss_bad s); reflexivity).
    destruct (ss_bad s); destruct (ss_out s) as [bo | |]; cbn [fst app]; try constructor;
      destruct (ss_exclog s); cbn [fst]; try (destruct (ss_rel s)); repeat constructor; try exact Hout; try apply discard_wf.
Qed.

Lemma compile_steps_wf : forall f steps, Forall wf_sstep steps -> Forall wf_mop (compile_steps f steps).
Proof.
  intros f steps. induction steps as [|s r IH]; intros H; cbn [compile_steps]; [constructor |].
  inversion H as [|? ? H1 H2]; subst.
  pose proof (compile_sstep_wf f s H1) as W. destruct (compile_sstep f s) as [ops cont]. cbn [fst] in W.
  apply Forall_app. split; [exact W |]. destruct cont; [apply IH; exact H2 | constructor].
Qed.

Lemma compile_wf : forall f c, wf_call c -> Forall wf_mop (compile f c).
Proof.
  intros f c H. destruct c as [req exclog res | steps | i]; cbn [compile wf_call] in *.
  - destruct H as (H1 & H2). apply Forall_app. split.
    + destruct req; repeat constructor. exact H1.
    + destruct res as [b|]; [| constructor]. destruct exclog; repeat constructor; try exact H2. apply discard_wf.
  - apply Forall_app. split; [apply compile_steps_wf; exact H | repeat constructor].
  - repeat constructor.
Qed.

Lemma history_wf : forall f h, Forall wf_call h -> Forall wf_mop (flat_map (compile f) h).
Proof.
  intros f h. induction h as [|c r IH]; intros H; cbn [flat_map]; [constructor |].
  inversion H; subst. apply Forall_app. split; [apply compile_wf; assumption | apply IH; assumption].
Qed.

(* the micro-operations of a history do not depend on the transport, and neither do their specified deliveries *)
Lemma run_ok : forall c f h,
  HEADER_SIZE <= c_total c -> Forall wf_call h ->
  SInv (c_total c) (fst (run c f h)) /\ snd (run c f h) = spec_events (flat_map (compile f) h).
Proof. intros c f h Ht Hwf. unfold run. apply mrun_ok; [apply SInv_init; exact Ht | apply history_wf; exact Hwf]. Qed.
