(* C37: the Location the callback sets, from the cookie it accepted. *)
From Coq Require Import List NArith Bool Lia.
From VGI Require Import Bytes Layout Utf8 M_Url L_Url L_UrlSafe L_UrlOrig L_UrlCookie.
Import ListNotations.
Open Scope N_scope.

Section Flow.
  Variable mac : bytes -> bytes -> bytes.
  Variable key : bytes.
  Variable b64d : str -> option bytes.
  Variable brk : str -> bool.

  (* what process_response packs: return_to is "" or a URL _validate_return_to accepted *)
  Definition issued_payload (ts : list entry) (payload : bytes) : Prop :=
    exists t cvb stb urlb rtb rt0,
      enc cookie_layout (cookie_args t cvb stb urlb rtb) = Some payload /\ utf8_decode rtb = Some rt0 /\
      (rt0 = [] \/ (has 91 rt0 = false /\ validate_return_to brk (map render ts) rt0 = Accept)).

  Theorem callback_redirect_safe : forall ts prefix now error code state cookie cv url rt params base,
    forallb entry_wf ts = true -> (prefix = [] \/ orig_guard prefix = false) ->
    callback mac key b64d cookie_version 32 600 now error code state cookie = CbProceed cv url rt ->
    (forall c raw, cookie = Some c -> b64d c = Some raw -> issued_payload ts (firstn (length raw - 32) raw)) ->
    match rt with
    | [] => forall v, validate_original_url brk prefix url = POk v -> whatwg_origin base v = OBase
    | _ :: _ => origin_ok ts (whatwg_origin base (location_of rt params))
    end.
  Proof.
    intros ts prefix now error code state cookie cv url rt params base Hwf Hpre Hcb Hiss.
    destruct (callback_requires_cookie mac key b64d _ _ _ _ _ _ _ _ Hcb) as [c [raw [st [Hc [_ [Hb [Hu _]]]]]]].
    destruct (Hiss c raw Hc Hb) as [t [cvb [stb [urlb [rtb [rt0 [He [Hd Hv]]]]]]]].
    destruct (cookie_authentic mac key _ _ _ _ _ _ _ _ _ _ _ Hu He) as [_ [_ [_ [Hrt _]]]].
    rewrite Hd in Hrt. inversion Hrt; subst rt0.
    destruct rt as [|r0 r'].
    - intros v Hv'. apply (original_same_origin brk prefix url v base Hpre Hv').
    - destruct Hv as [Hv|[Hnb Hv]]; [discriminate|]. apply (location_safe brk ts _ params base Hwf Hnb Hv).
  Qed.
End Flow.
