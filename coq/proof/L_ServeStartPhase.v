(* The phase argument of C42: starting from a quiescent reachable state in which every remaining job has binding b
   (one kind at a time), for every schedule: the hook returns at most once, is only called for b, every dispatch
   sees kind b, and -- unless b was already recorded -- nothing is dispatched before the hook has returned. *)
From Coq Require Import List NArith Bool Arith Lia.
From VGI Require Import M_ServeStart L_ServeStart.
Import ListNotations.

Definition allowedU (p : pc) : bool :=
  match p with PPre | PAcq | PCmp | PHook | PCommitK | PRel false => true | _ => false end.
Definition allowedB (p : pc) : bool :=
  match p with PPre | PAcq | PCmp | PCommitC | PRel true | PDisp _ => true | _ => false end.

Lemma allowed_next_thr : forall rest p, pc_of (next_thr rest) = Some p -> allowedU p = true /\ allowedB p = true.
Proof. intros rest p H. apply pc_of_next_thr_cases in H. destruct H; subst; split; reflexivity. Qed.
Lemma allowedB_after_entry : forall j rest p, pc_of (after_entry j rest) = Some p -> allowedB p = true.
Proof.
  intros j rest p H. apply pc_of_after_entry_cases in H. destruct H as [->|[->|[m ->]]]; reflexivity.
Qed.
Lemma not_pc_next_thr : forall rest p, crit p = true -> pc_of (next_thr rest) <> Some p.
Proof. intros rest p Hc H. apply pc_of_next_thr_cases in H. destruct H; subst; discriminate. Qed.
Lemma not_pc_after_entry : forall j rest p, crit p = true -> pc_of (after_entry j rest) <> Some p.
Proof.
  intros j rest p Hc H. apply pc_of_after_entry_cases in H. destruct H as [->|[->|[m ->]]]; discriminate.
Qed.

Section Phase.
  Variable guard : option kind -> bool.
  Variable hookf : nat -> kind -> bool.
  Notation step := (M_ServeStart.step guard hookf).
  Notation run_from := (M_ServeStart.run_from guard hookf).
  Hypothesis guard_ok : guard_sound guard.
  Variable b : binding.
  Variable s0 : st.
  Hypothesis F0 : skind s0 = Some KHttp -> scaps s0 = false.

  (* newest-first: every dispatch is preceded by a returning hook call for b *)
  Fixpoint disp_after (ext : list event) : Prop :=
    match ext with
    | [] => True
    | e :: pre => (is_disp e = true -> exists t', In (EHook t' b true) pre) /\ disp_after pre
    end.

  Definition count_ok (ext : list event) : nat := length (filter is_hook_ok ext).

  Definition Common (s : st) (ext : list event) : Prop :=
    strace s = ext ++ strace s0 /\
    all_jobs_bind s b /\
    (forall e, In e ext -> is_hook e = true -> exists t ok, e = EHook t b ok) /\
    (forall t v seen, In (EDisp t v seen) ext -> seen = Some (fst b)) /\
    count_ok ext <= 1 /\
    (recorded s0 <> Some b -> disp_after ext).

  Definition Unbound (s : st) (ext : list event) : Prop :=
    recorded s0 <> Some b /\
    skind s = skind s0 /\ scaps s = scaps s0 /\
    filter is_disp ext = [] /\
    (forall i p, pc_of (sthreads s i) = Some p -> allowedU p = true) /\
    ((forall i, pc_of (sthreads s i) <> Some PCommitK) -> count_ok ext = 0) /\
    (forall i, pc_of (sthreads s i) = Some PCommitK -> In (EHook i b true) ext).

  Definition Bound (s : st) (ext : list event) : Prop :=
    skind s = Some (fst b) /\
    ((forall i, pc_of (sthreads s i) <> Some PCommitC) -> scaps s = snd b) /\
    (forall i p, pc_of (sthreads s i) = Some p -> allowedB p = true) /\
    (recorded s0 = Some b -> filter is_hook ext = []) /\
    (recorded s0 <> Some b -> exists t', In (EHook t' b true) ext).

  Definition PInv (s : st) : Prop := exists ext, Common s ext /\ (Unbound s ext \/ Bound s ext).

  Ltac splitC := split; [|split; [|split; [|split; [|split]]]].
  Ltac thr i t := unfold upd in *; destruct (Nat.eqb_spec i t) as [Heqit|Hit]; [subst i|].

  Lemma jobs_goto : forall th p, tjobs (goto th p) = tjobs th.
  Proof. reflexivity. Qed.
  Lemma jobs_next_thr : forall rest, tjobs (next_thr rest) = rest.
  Proof. reflexivity. Qed.
  Lemma jobs_after_entry : forall j rest x, In x (tjobs (after_entry j rest)) -> In x (j :: rest).
  Proof. intros j rest x. unfold after_entry. destruct (jn j); simpl; auto. Qed.

  Lemma recorded_eqb_false_of : forall s, skind s = skind s0 -> scaps s = scaps s0 -> recorded s0 <> Some b -> recorded_eqb s b = false.
  Proof.
    intros s Hk Hc Hr. destruct (recorded_eqb s b) eqn:E; [|reflexivity]. exfalso. apply Hr.
    apply recorded_eqb_true in E. apply recorded_spec. rewrite <- Hk, <- Hc. exact E.
  Qed.

  Lemma disp_after_nodisp : forall e ext, is_disp e = false -> disp_after ext -> disp_after (e :: ext).
  Proof. intros e ext He H. simpl. split; [rewrite He; discriminate | exact H]. Qed.

  Lemma step_PInv : forall s t, Inv s -> PInv s -> PInv (step s t).
  Proof.
    intros s t HI [ext [HC HM]].
    destruct HC as (C1 & C2 & C3 & C4 & C5 & C6).
    unfold M_ServeStart.step.
    destruct (tjobs (sthreads s t)) as [|j rest] eqn:Ej; [exists ext; split; [splitC; assumption | exact HM]|].
    pose proof (pc_of_head _ _ _ _ Ej eq_refl) as Hpc.
    assert (Hjb : job_binding j = b) by (apply (C2 t); rewrite Ej; left; reflexivity).
    assert (Hrest : forall x, In x rest -> job_binding x = b) by (intros x Hx; apply (C2 t); rewrite Ej; right; exact Hx).
    rewrite Hjb.
    (* facts about the critical section *)
    assert (Hothers : in_crit (sthreads s t) = true -> forall i, i <> t -> in_crit (sthreads s i) = false).
    { intros Hc i Hne. destruct (in_crit (sthreads s i)) eqn:E; [|reflexivity]. exfalso. apply Hne. apply (crit_unique s i t HI E Hc). }
    assert (Hothers_pc : in_crit (sthreads s t) = true -> forall i p, i <> t -> crit p = true -> pc_of (sthreads s i) <> Some p).
    { intros Hc i p Hne Hcp Hi. pose proof (Hothers Hc i Hne) as Hf. unfold in_crit in Hf. rewrite Hi in Hf. congruence. }
    (* all_jobs_bind for the possible new thread records *)
    assert (A_goto : forall p, all_jobs_bind (Build_st (skind s) (scaps s) (slock s) (snhook s) (upd (sthreads s) t (goto (sthreads s t) p)) (strace s)) b).
    { intros p i x. cbn [sthreads]. thr i t; [rewrite jobs_goto; apply C2 | apply C2]. }
    assert (A_any : forall x, (forall y, In y (tjobs x) -> In y (j :: rest)) -> forall k c l n tr, all_jobs_bind (Build_st k c l n (upd (sthreads s) t x) tr) b).
    { intros x Hx k c l n tr i y. cbn [sthreads]. thr i t; [|apply C2].
      intro Hy. apply Hx in Hy. destruct Hy as [<-|Hy]; [exact Hjb | apply Hrest, Hy]. }
    assert (Hsub_goto : forall p y, In y (tjobs (goto (sthreads s t) p)) -> In y (j :: rest)) by (intros p y; rewrite jobs_goto, Ej; auto).
    assert (Hsub_next : forall y, In y (tjobs (next_thr rest)) -> In y (j :: rest)) by (intros y Hy; right; exact Hy).
    assert (Hsub_after : forall y, In y (tjobs (after_entry j rest)) -> In y (j :: rest)) by (intros y; apply jobs_after_entry).
    destruct (tpc (sthreads s t)) as [ | | | | | | ok | m] eqn:Ep.
    - (* PPre *)
      pose proof (I_W s HI t j rest Ej Ep) as Hv.
      assert (Hb : b = http_binding) by (rewrite <- Hjb; unfold job_binding; rewrite Hv; reflexivity).
      destruct HM as [HU|HB].
      + destruct HU as (U1 & U2 & U3 & U4 & U5 & U6 & U7).
        assert (Hg : guard (skind s) = true).
        { destruct (guard (skind s)) eqn:Eg; [reflexivity|]. exfalso. apply guard_ok in Eg.
          rewrite U2 in Eg. apply U1. apply recorded_spec. rewrite Hb. simpl. split; [exact Eg | apply F0, Eg]. }
        rewrite Hg. exists ext. split.
        * splitC; try assumption. apply A_any, Hsub_goto.
        * left. repeat split; cbn [skind scaps sthreads]; try assumption.
          -- intros i p. thr i t; [rewrite (pc_of_goto _ _ _ _ Ej); intro H; inversion H; reflexivity | apply U5].
          -- intro Hno. apply U6. intro i. specialize (Hno i). thr i t; [rewrite Hpc; discriminate | exact Hno].
          -- intros i. thr i t; [rewrite (pc_of_goto _ _ _ _ Ej); discriminate | apply U7].
      + destruct HB as (B1 & B2 & B3 & B4 & B5).
        exists ext. split.
        * splitC; try assumption. apply A_any. destruct (guard (skind s)); [apply Hsub_goto | apply Hsub_after].
        * right. repeat split; cbn [skind scaps sthreads]; try assumption.
          -- intro Hno. apply B2. intro i. specialize (Hno i). thr i t; [rewrite Hpc; discriminate | exact Hno].
          -- intros i p. thr i t; [|apply B3].
             destruct (guard (skind s)); [rewrite (pc_of_goto _ _ _ _ Ej); intro H; inversion H; reflexivity | apply allowedB_after_entry].
    - (* PAcq *)
      destruct (slock s) as [h|] eqn:El; [exists ext; split; [splitC; assumption | exact HM]|].
      exists ext. split; [splitC; try assumption; apply A_any, Hsub_goto|].
      destruct HM as [HU|HB].
      + destruct HU as (U1 & U2 & U3 & U4 & U5 & U6 & U7).
        left. repeat split; cbn [skind scaps sthreads]; try assumption.
        * intros i p. thr i t; [rewrite (pc_of_goto _ _ _ _ Ej); intro H; inversion H; reflexivity | apply U5].
        * intro Hno. apply U6. intro i. specialize (Hno i). thr i t; [rewrite Hpc; discriminate | exact Hno].
        * intros i. thr i t; [rewrite (pc_of_goto _ _ _ _ Ej); discriminate | apply U7].
      + destruct HB as (B1 & B2 & B3 & B4 & B5).
        right. repeat split; cbn [skind scaps sthreads]; try assumption.
        * intro Hno. apply B2. intro i. specialize (Hno i). thr i t; [rewrite Hpc; discriminate | exact Hno].
        * intros i p. thr i t; [rewrite (pc_of_goto _ _ _ _ Ej); intro H; inversion H; reflexivity | apply B3].
    - (* PCmp *)
      assert (Hc : in_crit (sthreads s t) = true) by (unfold in_crit; rewrite Hpc; reflexivity).
      exists ext. split; [splitC; try assumption; apply A_any, Hsub_goto|].
      destruct HM as [HU|HB].
      + destruct HU as (U1 & U2 & U3 & U4 & U5 & U6 & U7).
        rewrite (recorded_eqb_false_of s U2 U3 U1).
        left. repeat split; cbn [skind scaps sthreads]; try assumption.
        * intros i p. thr i t; [rewrite (pc_of_goto _ _ _ _ Ej); intro H; inversion H; reflexivity | apply U5].
        * intro Hno. apply U6. intro i. specialize (Hno i). thr i t; [rewrite Hpc; discriminate | exact Hno].
        * intros i. thr i t; [rewrite (pc_of_goto _ _ _ _ Ej); discriminate | apply U7].
      + destruct HB as (B1 & B2 & B3 & B4 & B5).
        assert (Hnoc : forall i, pc_of (sthreads s i) <> Some PCommitC).
        { intros i. destruct (Nat.eq_dec i t) as [->|Hne]; [rewrite Hpc; discriminate | apply (Hothers_pc Hc i PCommitC Hne eq_refl)]. }
        assert (Er : recorded_eqb s b = true) by (apply recorded_eqb_true; split; [exact B1 | apply B2, Hnoc]).
        rewrite Er.
        right. repeat split; cbn [skind scaps sthreads]; try assumption.
        * intros _. apply B2, Hnoc.
        * intros i p. thr i t; [rewrite (pc_of_goto _ _ _ _ Ej); intro H; inversion H; reflexivity | apply B3].
    - (* PHook *)
      assert (Hc : in_crit (sthreads s t) = true) by (unfold in_crit; rewrite Hpc; reflexivity).
      destruct HM as [HU|HB]; [|destruct HB as (B1 & B2 & B3 & B4 & B5); specialize (B3 t _ Hpc); discriminate].
      destruct HU as (U1 & U2 & U3 & U4 & U5 & U6 & U7).
      assert (Hnok : forall i, pc_of (sthreads s i) <> Some PCommitK).
      { intros i. destruct (Nat.eq_dec i t) as [->|Hne]; [rewrite Hpc; discriminate | apply (Hothers_pc Hc i PCommitK Hne eq_refl)]. }
      pose proof (U6 Hnok) as Hcnt.
      set (ok := hookf (snhook s) (fst b)).
      exists (EHook t b ok :: ext). split.
      + splitC; cbn [strace].
        * rewrite C1. reflexivity.
        * apply A_any, Hsub_goto.
        * intros e [<-|He] Hh; [eauto | apply C3; assumption].
        * intros t0 v seen [H|H]; [discriminate | eapply C4; exact H].
        * unfold count_ok in *. simpl. destruct ok; simpl; lia.
        * intros Hr. apply disp_after_nodisp; [reflexivity | apply C6, Hr].
      + left. repeat split; cbn [skind scaps sthreads]; try assumption.
        * intros i p. thr i t; [|apply U5]. rewrite (pc_of_goto _ _ _ _ Ej). destruct ok; intro H; inversion H; reflexivity.
        * intro Hno. unfold count_ok in *. simpl. destruct ok eqn:Eok; simpl; [|exact Hcnt].
          exfalso. apply (Hno t). unfold upd. rewrite Nat.eqb_refl. apply (pc_of_goto _ _ _ _ Ej).
        * intros i. thr i t.
          -- rewrite (pc_of_goto _ _ _ _ Ej). destruct ok; intro H; inversion H. left. reflexivity.
          -- intro Hi. exfalso. apply (Hnok i Hi).
    - (* PCommitK: the binding becomes visible *)
      assert (Hc : in_crit (sthreads s t) = true) by (unfold in_crit; rewrite Hpc; reflexivity).
      destruct HM as [HU|HB]; [|destruct HB as (B1 & B2 & B3 & B4 & B5); specialize (B3 t _ Hpc); discriminate].
      destruct HU as (U1 & U2 & U3 & U4 & U5 & U6 & U7).
      exists (ECommit t b :: ext). split.
      + splitC; cbn [strace].
        * rewrite C1. reflexivity.
        * apply A_any, Hsub_goto.
        * intros e [<-|He] Hh; [discriminate | apply C3; assumption].
        * intros t0 v seen [H|H]; [discriminate | eapply C4; exact H].
        * exact C5.
        * intros Hr. apply disp_after_nodisp; [reflexivity | apply C6, Hr].
      + right. repeat split; cbn [skind scaps sthreads].
        * intro Hno. exfalso. apply (Hno t). unfold upd. rewrite Nat.eqb_refl. apply (pc_of_goto _ _ _ _ Ej).
        * intros i p. thr i t; [rewrite (pc_of_goto _ _ _ _ Ej); intro H; inversion H; reflexivity|].
          intro Hi. pose proof (U5 i p Hi) as Ha.
          destruct p as [ | | | | | |[|]| ]; try reflexivity; try discriminate; exfalso; eapply (Hothers_pc Hc i _ Hit); try exact Hi; reflexivity.
        * intro Hr. contradiction.
        * intros _. exists t. right. apply U7. exact Hpc.
    - (* PCommitC *)
      assert (Hc : in_crit (sthreads s t) = true) by (unfold in_crit; rewrite Hpc; reflexivity).
      destruct HM as [HU|HB]; [destruct HU as (U1 & U2 & U3 & U4 & U5 & U6 & U7); specialize (U5 t _ Hpc); discriminate|].
      destruct HB as (B1 & B2 & B3 & B4 & B5).
      exists ext. split; [splitC; try assumption; apply A_any, Hsub_goto|].
      right. repeat split; cbn [skind scaps sthreads]; try assumption.
      + intros i p. thr i t; [rewrite (pc_of_goto _ _ _ _ Ej); intro H; inversion H; reflexivity | apply B3].
    - (* PRel *)
      assert (Hc : in_crit (sthreads s t) = true) by (unfold in_crit; rewrite Hpc; reflexivity).
      destruct ok.
      + destruct HM as [HU|HB]; [destruct HU as (U1 & U2 & U3 & U4 & U5 & U6 & U7); specialize (U5 t _ Hpc); discriminate|].
        destruct HB as (B1 & B2 & B3 & B4 & B5).
        exists ext. split; [splitC; try assumption; apply A_any, Hsub_after|].
        right. repeat split; cbn [skind scaps sthreads]; try assumption.
        * intro Hno. apply B2. intro i. destruct (Nat.eq_dec i t) as [->|Hne]; [rewrite Hpc; discriminate | apply (Hothers_pc Hc i PCommitC Hne eq_refl)].
        * intros i p. thr i t; [apply allowedB_after_entry | apply B3].
      + destruct HM as [HU|HB]; [|destruct HB as (B1 & B2 & B3 & B4 & B5); specialize (B3 t _ Hpc); discriminate].
        destruct HU as (U1 & U2 & U3 & U4 & U5 & U6 & U7).
        exists (EFail t b :: ext). split.
        * splitC; cbn [strace].
          -- rewrite C1. reflexivity.
          -- apply A_any, Hsub_next.
          -- intros e [<-|He] Hh; [discriminate | apply C3; assumption].
          -- intros t0 v seen [H|H]; [discriminate | eapply C4; exact H].
          -- exact C5.
          -- intros Hr. apply disp_after_nodisp; [reflexivity | apply C6, Hr].
        * left. repeat split; cbn [skind scaps sthreads]; try assumption.
          -- intros i p. thr i t; [intro H; apply allowed_next_thr in H; tauto | apply U5].
          -- intro Hno. apply U6. intro i. destruct (Nat.eq_dec i t) as [->|Hne]; [rewrite Hpc; discriminate | apply (Hothers_pc Hc i PCommitK Hne eq_refl)].
          -- intros i. thr i t; [intro H; exfalso; revert H; apply not_pc_next_thr; reflexivity | intro Hi; right; apply U7, Hi].
    - (* PDisp *)
      destruct HM as [HU|HB]; [destruct HU as (U1 & U2 & U3 & U4 & U5 & U6 & U7); specialize (U5 t _ Hpc); discriminate|].
      destruct HB as (B1 & B2 & B3 & B4 & B5).
      set (x := match m with 0 => next_thr rest | S m' => goto (sthreads s t) (PDisp m') end).
      assert (Hx : forall y, In y (tjobs x) -> In y (j :: rest)).
      { unfold x. destruct m; [apply Hsub_next | apply Hsub_goto]. }
      exists (EDisp t (jvia j) (skind s) :: ext). split.
      + splitC; cbn [strace].
        * rewrite C1. reflexivity.
        * apply A_any, Hx.
        * intros e [<-|He] Hh; [discriminate | apply C3; assumption].
        * intros t0 v seen [H|H]; [inversion H; subst; exact B1 | eapply C4; exact H].
        * exact C5.
        * intros Hr. simpl. split; [intros _; apply B5, Hr | apply C6, Hr].
      + right. repeat split; cbn [skind scaps sthreads]; try assumption.
        * intro Hno. apply B2. intro i. specialize (Hno i). thr i t; [rewrite Hpc; discriminate | exact Hno].
        * intros i p. thr i t; [|apply B3]. unfold x. destruct m.
          -- intro H. apply allowed_next_thr in H. tauto.
          -- rewrite (pc_of_goto _ _ _ _ Ej). intro H; inversion H; reflexivity.
        * intros Hr. destruct (B5 Hr) as [t' Ht']. exists t'. right. exact Ht'.
  Qed.

  Lemma run_from_PInv : forall sched s, Inv s -> PInv s -> PInv (run_from s sched).
  Proof.
    induction sched as [|t r IH]; intros s HI HP; simpl; [exact HP|].
    apply IH; [apply step_Inv, HI | apply step_PInv; assumption].
  Qed.

  Lemma disp_after_split : forall post e pre, disp_after (post ++ e :: pre) -> is_disp e = true -> exists t', In (EHook t' b true) pre.
  Proof.
    induction post as [|x post IH]; intros e pre H He; simpl in H; destruct H as [H1 H2]; [apply H1, He | eapply IH; eassumption].
  Qed.
End Phase.

Theorem phase_once_and_own_binding : forall guard hookf, guard_sound guard -> forall cfg sched1 sched2 b,
  let s0 := run guard hookf cfg sched1 in
  quiescent s0 -> all_jobs_bind s0 b ->
  exists ext, strace (run_from guard hookf s0 sched2) = ext ++ strace s0 /\
    length (filter is_hook_ok ext) <= 1 /\
    (forall e, In e ext -> is_hook e = true -> exists t ok, e = EHook t b ok) /\
    (forall t v seen, In (EDisp t v seen) ext -> seen = Some (fst b)) /\
    (recorded s0 = Some b -> filter is_hook ext = []) /\
    (recorded s0 <> Some b -> forall post t v seen pre, ext = post ++ EDisp t v seen :: pre -> exists t', In (EHook t' b true) pre).
Proof.
  intros guard hookf Hg cfg sched1 sched2 b s0 [Hl Hq] Hall.
  pose proof (run_Inv guard hookf cfg sched1) as HI0. fold s0 in HI0.
  assert (F0 : skind s0 = Some KHttp -> scaps s0 = false) by (apply free_http_caps; assumption).
  assert (Hstart : forall i p, pc_of (sthreads s0 i) = Some p -> p = PPre \/ p = PAcq).
  { intros i p H. specialize (Hq i). unfold pc_of in H. destruct (tjobs (sthreads s0 i)) as [|j r]; [discriminate|].
    inversion H. rewrite Hq. unfold start_pc. destruct (jvia j); auto. }
  assert (HP0 : PInv b s0 s0).
  { exists []. split.
    - split; [reflexivity|]. split; [exact Hall|]. split; [intros e []|]. split; [intros t v seen []|].
      split; [unfold count_ok; simpl; lia|]. intros _. exact I.
    - assert (HstartU : forall i p, pc_of (sthreads s0 i) = Some p -> allowedU p = true) by (intros i p H; destruct (Hstart i p H); subst; reflexivity).
      assert (HstartB : forall i p, pc_of (sthreads s0 i) = Some p -> allowedB p = true) by (intros i p H; destruct (Hstart i p H); subst; reflexivity).
      assert (HnoK : forall i, pc_of (sthreads s0 i) = Some PCommitK -> In (EHook i b true) []) by (intros i H; destruct (Hstart i _ H); discriminate).
      destruct (recorded s0) as [b0|] eqn:Er.
      + assert (Hdec : {b0 = b} + {b0 <> b}) by (destruct b0 as [[] []], b as [[] []]; (left; reflexivity) || (right; discriminate)).
        destruct Hdec as [->|Hne].
        * right. pose proof (proj1 (recorded_spec _ _) Er) as [Ek Ec].
          split; [exact Ek|]. split; [intros _; exact Ec|]. split; [exact HstartB|]. split; [intros _; reflexivity|].
          intro X. exfalso. apply X. try exact Er; reflexivity.
        * left. split; [intro X; apply Hne; congruence|]. split; [reflexivity|]. split; [reflexivity|]. split; [reflexivity|].
          split; [exact HstartU|]. split; [intros _; reflexivity | exact HnoK].
      + left. split; [intro X; congruence|]. split; [reflexivity|]. split; [reflexivity|]. split; [reflexivity|].
        split; [exact HstartU|]. split; [intros _; reflexivity | exact HnoK]. }
  destruct (run_from_PInv guard hookf Hg b s0 F0 sched2 s0 HI0 HP0) as [ext [HC HM]].
  destruct HC as (C1 & C2 & C3 & C4 & C5 & C6).
  exists ext. split; [exact C1|]. split; [exact C5|]. split; [exact C3|]. split; [exact C4|]. split.
  - intro Hr. destruct HM as [HU|HB]; [destruct HU as (U1 & _); contradiction | destruct HB as (_ & _ & _ & B4 & _); apply B4, Hr].
  - intros Hr post t v seen pre E. specialize (C6 Hr). rewrite E in C6. eapply disp_after_split; [exact C6 | reflexivity].
Qed.
