(* Lemmas about model/M_Unauthorized.v: compositions, middleware, serializer, proxy note. *)
From Coq Require Import String.
From Coq Require Import List NArith Bool Lia.
From VGI Require Import M_Unauthorized.
Import ListNotations.
Open Scope N_scope.

(* ------------------------------------------------------------------ strings *)
Lemma str_eqb_eq : forall a b, str_eqb a b = true <-> a = b.
Proof.
  induction a as [|x a IH]; intros [|y b]; simpl; split; intro H; try reflexivity; try discriminate.
  - apply andb_true_iff in H as [Hx Hr]. apply N.eqb_eq in Hx. apply IH in Hr. subst. reflexivity.
  - inversion H; subst. apply andb_true_iff. split; [apply N.eqb_refl | apply IH; reflexivity].
Qed.

Lemma mem_str_In : forall x l, mem_str x l = true <-> In x l.
Proof.
  intros x l. induction l as [|y l IH]; simpl.
  - split; [discriminate | tauto].
  - rewrite orb_true_iff, IH, str_eqb_eq. split; intros [H|H]; auto.
Qed.

Lemma dedupe_acc_In : forall l seen x, In x (dedupe_acc seen l) <-> In x l /\ ~ In x seen.
Proof.
  induction l as [|y l IH]; intros seen x; simpl.
  - tauto.
  - destruct (mem_str y seen) eqn:E.
    + apply mem_str_In in E. rewrite IH. split.
      * intros [H1 H2]. tauto.
      * intros [[H1|H1] H2]; [subst; tauto | tauto].
    + assert (Hn : ~ In y seen) by (intro H; apply mem_str_In in H; congruence).
      simpl. rewrite IH. simpl. split.
      * intros [H|[H1 H2]]; [subst; tauto | tauto].
      * intros [[H1|H1] H2]; [auto|].
        destruct (list_eq_dec N.eq_dec y x) as [Heq|Hne]; [auto|]. right. split; [assumption|]. intros [H|H]; tauto.
Qed.

Lemma dedupe_In : forall l x, In x (dedupe l) <-> In x l.
Proof. intros l x. unfold dedupe. rewrite dedupe_acc_In. simpl. tauto. Qed.

Lemma dedupe_nil : forall l, dedupe l = [] <-> l = [].
Proof.
  intros [|x l]; unfold dedupe; simpl; split; intro H; try reflexivity; discriminate.
Qed.

(* ------------------------------------------------------------------ reasons *)
Lemma reason_value_closed : forall r, In (reason_value r) closed_values.
Proof. intro r. unfold closed_values. apply in_map. destruct r; simpl; tauto. Qed.

Lemma reason_value_inj : forall a b, reason_value a = reason_value b -> a = b.
Proof. intros a b H. destruct a, b; try reflexivity; vm_compute in H; discriminate. Qed.

Lemma reason_of_value_value : forall r, reason_of_value (reason_value r) = Some r.
Proof. intro r. destruct r; vm_compute; reflexivity. Qed.

Lemma reason_of_value_in_Some : forall l v r, reason_of_value_in l v = Some r -> v = reason_value r.
Proof.
  induction l as [|x l IH]; intros v r H; simpl in H; [discriminate|].
  destruct (str_eqb v (reason_value x)) eqn:E.
  - inversion H; subst. apply str_eqb_eq. exact E.
  - apply IH. exact H.
Qed.

Lemma reason_of_value_Some : forall v r, reason_of_value v = Some r <-> v = reason_value r.
Proof.
  intros v r. split.
  - apply reason_of_value_in_Some.
  - intro H. subst. apply reason_of_value_value.
Qed.

Lemma first_non_missing_Some : forall codes c, first_non_missing codes = Some c -> is_missing c = false.
Proof.
  induction codes as [|x codes IH]; intros c H; simpl in H; [discriminate|].
  destruct (is_missing x) eqn:E; [apply IH; exact H|]. inversion H; subst. exact E.
Qed.

(* _combine_reasons answers missing_credential only when there is at least one code and every code is missing *)
Lemma combine_missing : forall codes, combine_reasons codes = Missing <-> codes <> [] /\ forallb is_missing codes = true.
Proof.
  intros codes. unfold combine_reasons. destruct codes as [|c cs].
  - split; [discriminate | intros [H _]; congruence].
  - destruct (forallb is_missing (c :: cs)) eqn:E.
    + split; [intros _; split; [discriminate | reflexivity] | reflexivity].
    + destruct (first_non_missing (c :: cs)) as [x|] eqn:F.
      * apply first_non_missing_Some in F. split; [intro H; subst; discriminate | intros [_ H]; discriminate].
      * split; [discriminate | intros [_ H]; discriminate].
Qed.

(* otherwise: the first code that is not missing_credential (spec 3.1) *)
Lemma combine_not_all_missing : forall codes, forallb is_missing codes = false ->
  exists pre c post, codes = pre ++ c :: post /\ forallb is_missing pre = true /\ is_missing c = false /\ combine_reasons codes = c.
Proof.
  intros codes H. unfold combine_reasons. destruct codes as [|c0 cs0]; [discriminate|]. rewrite H.
  remember (c0 :: cs0) as codes eqn:Hc. clear Hc c0 cs0.
  induction codes as [|x codes IH]; [discriminate|].
  simpl in H. simpl. destruct (is_missing x) eqn:E.
  - simpl in H. destruct (IH H) as (pre & c & post & H1 & H2 & H3 & H4).
    exists (x :: pre), c, post. subst codes. simpl. rewrite E, H2. auto.
  - exists [], x, codes. simpl. auto.
Qed.

(* ------------------------------------------------------------------ induction over compositions *)
Section cfg_induction.
  Variable P : cfg -> Prop.
  Hypothesis Hleaf : forall id d, P (CLeaf id d).
  Hypothesis Hchain : forall ls, Forall P ls -> P (CChain ls).
  Hypothesis Hnone : forall g gh, P (CRequire g gh None).
  Hypothesis Hsome : forall g gh i, P i -> P (CRequire g gh (Some i)).

  Fixpoint cfg_ind2 (c : cfg) : P c :=
    match c with
    | CLeaf id d => Hleaf id d
    | CChain ls =>
        Hchain ls ((fix go (ls : list cfg) : Forall P ls :=
                      match ls with
                      | [] => Forall_nil P
                      | l :: r => Forall_cons l (cfg_ind2 l) (go r)
                      end) ls)
    | CRequire g gh None => Hnone g gh
    | CRequire g gh (Some i) => Hsome g gh i (cfg_ind2 i)
    end.
End cfg_induction.

(* the loop of chain_authenticate, named *)
Fixpoint chain_go (e : env) (ls : list cfg) : chain_res :=
  match ls with
  | [] => CRAll []
  | l :: rest =>
      match eval e l with
      | OOk => CREarly OOk
      | ORaise x =>
          match value_error_code x with
          | None => CREarly (ORaise x)
          | Some cm => match chain_go e rest with CREarly o => CREarly o | CRAll cs => CRAll (cm :: cs) end
          end
      end
  end.

Lemma eval_chain : forall e ls,
  eval e (CChain ls) =
  match chain_go e ls with
  | CREarly o => o
  | CRAll cs => ORaise (XAuthFailure (combine_reasons (map fst cs)) (chain_detail (map snd cs)))
  end.
Proof.
  intros e ls. simpl.
  match goal with |- match ?f ls with _ => _ end = _ => assert (H : forall l, f l = chain_go e l) end.
  { induction l as [|l0 l IH]; [reflexivity|]. simpl. rewrite IH. reflexivity. }
  rewrite H. reflexivity.
Qed.

Fixpoint consulted_go (e : env) (ls : list cfg) : list N :=
  match ls with
  | [] => []
  | l :: rest =>
      consulted e l ++
      match eval e l with
      | OOk => []
      | ORaise x => match value_error_code x with None => [] | Some _ => consulted_go e rest end
      end
  end.

Lemma consulted_chain : forall e ls, consulted e (CChain ls) = consulted_go e ls.
Proof.
  intros e ls. simpl. induction ls as [|l ls IH]; [reflexivity|]. simpl. rewrite IH. reflexivity.
Qed.

Fixpoint cat_headers (ls : list cfg) : list str :=
  match ls with [] => [] | l :: r => headers_of l ++ cat_headers r end.

Lemma headers_chain : forall ls, headers_of (CChain ls) = dedupe (cat_headers ls).
Proof.
  intros ls. reflexivity.
Qed.

(* every link tried and answered with a ValueError: its code and text *)
Lemma chain_go_all : forall e ls cs, chain_go e ls = CRAll cs ->
  Forall2 (fun l cm => exists x, eval e l = ORaise x /\ value_error_code x = Some cm) ls cs.
Proof.
  intros e. induction ls as [|l ls IH]; intros cs H; simpl in H.
  - inversion H; subst. constructor.
  - destruct (eval e l) as [|x] eqn:El; [discriminate|].
    destruct (value_error_code x) as [cm|] eqn:Ev; [|discriminate].
    destruct (chain_go e ls) as [o|cs'] eqn:Eg; [discriminate|].
    inversion H; subst. constructor; [exists x; auto | apply IH; reflexivity].
Qed.

(* the loop ended early: a link accepted, or a link raised something that is not a ValueError, after links that all raised ValueErrors *)
Lemma chain_go_early : forall e ls o, chain_go e ls = CREarly o ->
  exists pre l post, ls = pre ++ l :: post /\ eval e l = o /\
    (o = OOk \/ exists x, o = ORaise x /\ value_error_code x = None) /\
    Forall (fun p => exists x cm, eval e p = ORaise x /\ value_error_code x = Some cm) pre.
Proof.
  intros e. induction ls as [|l ls IH]; intros o H; simpl in H; [discriminate|].
  destruct (eval e l) as [|x] eqn:El.
  - inversion H; subst. exists [], l, ls. simpl. auto.
  - destruct (value_error_code x) as [cm|] eqn:Ev.
    + destruct (chain_go e ls) as [o'|cs'] eqn:Eg; [|discriminate].
      inversion H; subst. destruct (IH o eq_refl) as (pre & l' & post & H1 & H2 & H3 & H4).
      exists (l :: pre), l', post. subst ls. simpl. repeat split; auto. constructor; [exists x, cm; auto | exact H4].
    + inversion H; subst. exists [], l, ls. simpl. repeat split; auto. right. exists x. auto.
Qed.

Lemma chain_go_early_not_af : forall e ls o r m, chain_go e ls = CREarly o -> o <> ORaise (XAuthFailure r m).
Proof.
  intros e ls o r m Eg Ho.
  apply chain_go_early in Eg as (pre & l & post & _ & _ & [H3|(x & H3 & H4)] & _).
  - rewrite H3 in Ho. discriminate Ho.
  - rewrite H3 in Ho. inversion Ho; subst x. simpl in H4. discriminate H4.
Qed.

(* an exception leaving a composition is either a leaf's / gate's own exception or the AuthFailure a chain builds *)
Lemma eval_raise_origin : forall e c x, eval e c = ORaise x ->
  (exists id, e id = ORaise x) \/ (exists r m, x = XAuthFailure r m).
Proof.
  intros e c. induction c as [id d|ls IH|g gh|g gh i IH] using cfg_ind2; intros x H.
  - simpl in H. left. exists id. exact H.
  - rewrite eval_chain in H. destruct (chain_go e ls) as [o|cs] eqn:Eg.
    + apply chain_go_early in Eg as (pre & l & post & H1 & H2 & _ & _). subst ls. rewrite <- H2 in H.
      rewrite Forall_forall in IH. apply (IH l); [apply in_or_app; right; left; reflexivity | exact H].
    + inversion H; subst. right. eauto.
  - simpl in H. destruct (e g) as [|y] eqn:Eg; [discriminate|]. left. exists g. rewrite Eg. exact H.
  - simpl in H. destruct (e g) as [|y] eqn:Eg; [apply IH; exact H|]. left. exists g. rewrite Eg. exact H.
Qed.

(* ------------------------------------------------------------------ middleware / serializer *)
Lemma handle_cases : forall a e acc,
  (eval e (a_auth a) = OOk /\ handle a e acc = mkResp 200 None None None None BNone) \/
  (exists ra m, eval e (a_auth a) = ORaise (XUnavail ra m) /\ handle a e acc = mkResp 503 None None None (Some ra) BNone) \/
  (eval e (a_auth a) = ORaise XOther /\ handle a e acc = mkResp 500 None None None None BNone) \/
  (exists x, eval e (a_auth a) = ORaise x /\ is_rejection x = true /\
             handle a e acc = serialize_401 (app_hint a) acc (classify x) (exc_msg x)).
Proof.
  intros a e acc. unfold handle. destruct (eval e (a_auth a)) as [|x] eqn:E.
  - left. auto.
  - destruct x as [r m|d m c|d m|ra m|].
    + right; right; right. eexists; repeat split; reflexivity.
    + right; right; right. eexists; repeat split; reflexivity.
    + right; right; right. eexists; repeat split; reflexivity.
    + right; left. exists ra, m. auto.
    + right; right; left. auto.
Qed.

Lemma status_401 : forall a e acc, status (handle a e acc) = 401 ->
  exists x, eval e (a_auth a) = ORaise x /\ is_rejection x = true /\
            handle a e acc = serialize_401 (app_hint a) acc (classify x) (exc_msg x).
Proof.
  intros a e acc H.
  destruct (handle_cases a e acc) as [[_ Hh]|[(ra & m & _ & Hh)|[[_ Hh]|Hx]]]; try (rewrite Hh in H; simpl in H; discriminate).
  exact Hx.
Qed.

Lemma rejection_is_401 : forall a e acc,
  status (handle a e acc) = 401 <-> exists x, eval e (a_auth a) = ORaise x /\ is_rejection x = true.
Proof.
  intros a e acc. split.
  - intro H. apply status_401 in H as (x & H1 & H2 & _). eauto.
  - intros (x & H1 & H2). unfold handle. rewrite H1. destruct x; try discriminate; reflexivity.
Qed.

Lemma body_note_envelope : forall r d h, body_note (BJson (envelope r d h)) = nonempty h.
Proof. intros r d h. destruct h; reflexivity. Qed.

Lemma note_of_serialize : forall hint acc r d,
  note_of (serialize_401 hint acc r d) = (match hint with [] => None | _ => Some (s "true") end, nonempty hint).
Proof.
  intros hint acc r d. unfold note_of, serialize_401. cbn [h_proxy rbody].
  destruct (wants_html acc); [reflexivity|]. rewrite body_note_envelope. reflexivity.
Qed.

Lemma envelope_fields : forall r d h,
  exists l, envelope r d h = JObj l /\
    json_get (s "error") l = Some (JStr (s "unauthorized")) /\
    json_get (s "reason") l = Some (JStr (reason_value r)) /\
    json_get (s "detail") l = Some (JStr d) /\
    json_get (s "proxy_hint") l = match h with [] => None | _ => Some (JStr h) end.
Proof. intros r d h. eexists. split; [reflexivity|]. destruct h; repeat split; reflexivity. Qed.

(* ------------------------------------------------------------------ proxy note *)
Fixpoint declared_in (c : cfg) (h : str) : Prop :=
  match c with
  | CLeaf _ d => In h d
  | CChain ls => (fix any (ls : list cfg) : Prop := match ls with [] => False | l :: r => declared_in l h \/ any r end) ls
  | CRequire _ gh inner => In h gh \/ match inner with None => False | Some i => declared_in i h end
  end.

Fixpoint any_declared (ls : list cfg) (h : str) : Prop :=
  match ls with [] => False | l :: r => declared_in l h \/ any_declared r h end.

Lemma declared_chain : forall ls h, declared_in (CChain ls) h = any_declared ls h.
Proof.
  intros ls h. simpl. induction ls as [|l ls IH]; [reflexivity|]. simpl. rewrite IH. reflexivity.
Qed.

(* spec 5.1: composition helpers carry declarations through -- exactly the declared names, nothing else *)
Lemma headers_of_declared : forall c h, In h (headers_of c) <-> declared_in c h.
Proof.
  intros c. induction c as [id d|ls IH|g gh|g gh i IH] using cfg_ind2; intro h.
  - simpl. tauto.
  - rewrite headers_chain, dedupe_In, declared_chain.
    induction IH as [|l ls Hl _ IHls]; simpl; [tauto|].
    rewrite in_app_iff, Hl, IHls. tauto.
  - simpl. rewrite dedupe_In, app_nil_r. tauto.
  - simpl. rewrite dedupe_In, in_app_iff, IH. tauto.
Qed.

Definition depends_on_proxy (a : app) : Prop :=
  exists h, In h (a_hdrs a) \/ declared_in (a_auth a) h \/ (a_proof a = true /\ h = proof_header).

Lemma app_headers_In : forall a h, In h (app_headers a) <-> (In h (a_hdrs a) \/ declared_in (a_auth a) h \/ (a_proof a = true /\ h = proof_header)).
Proof.
  intros a h. unfold app_headers. rewrite !in_app_iff, headers_of_declared.
  destruct (a_proof a); simpl; split; intro H.
  - destruct H as [H|[H|[H|[]]]]; auto.
  - destruct H as [H|[H|[_ H]]]; auto.
  - destruct H as [H|[H|[]]]; auto.
  - destruct H as [H|[H|[H _]]]; auto. discriminate.
Qed.

Lemma nonempty_iff_ex : forall (l : list str), l <> [] <-> exists h, In h l.
Proof.
  intros [|x l]; split.
  - intro H. congruence.
  - intros [h []].
  - intros _. exists x. left. reflexivity.
  - intros _. discriminate.
Qed.

Lemma build_hint_nil : forall l, build_hint l = [] <-> l = [].
Proof.
  intros l. unfold build_hint, build_hint_with. destruct (dedupe l) as [|x r] eqn:E.
  - rewrite dedupe_nil in E. subst. tauto.
  - split.
    + intro H. exfalso. unfold hint_template in H. cbn [map List.concat render_part] in H.
      apply (f_equal (@length N)) in H. rewrite app_length in H. simpl in H. discriminate.
    + intro H. subst. unfold dedupe in E. simpl in E. discriminate.
Qed.

Lemma app_hint_nonempty_iff : forall a, app_hint a <> [] <-> depends_on_proxy a.
Proof.
  intros a. unfold app_hint, depends_on_proxy. rewrite build_hint_nil.
  rewrite nonempty_iff_ex. split; intros [h H]; exists h; apply app_headers_In; exact H.
Qed.

(* ------------------------------------------------------------------ chain rule for missing_credential *)
Fixpoint saw_none (e : env) (c : cfg) : Prop :=
  match c with
  | CLeaf id _ => exists m, e id = ORaise (XAuthFailure Missing m)
  | CChain ls => ls <> [] /\ (fix all (ls : list cfg) : Prop := match ls with [] => True | l :: r => saw_none e l /\ all r end) ls
  | CRequire g _ inner =>
      (exists m, e g = ORaise (XAuthFailure Missing m)) \/
      (e g = OOk /\ match inner with None => False | Some i => saw_none e i end)
  end.

Fixpoint all_saw_none (e : env) (ls : list cfg) : Prop :=
  match ls with [] => True | l :: r => saw_none e l /\ all_saw_none e r end.

Lemma saw_none_chain : forall e ls, saw_none e (CChain ls) = (ls <> [] /\ all_saw_none e ls).
Proof.
  intros e ls. simpl. f_equal. induction ls as [|l ls IH]; [reflexivity|]. simpl. rewrite IH. reflexivity.
Qed.

Lemma all_saw_none_Forall : forall e ls, all_saw_none e ls <-> Forall (saw_none e) ls.
Proof.
  intros e ls. induction ls as [|l ls IH]; simpl.
  - split; auto.
  - rewrite IH. split; [intros [H1 H2]; constructor; auto | intro H; inversion H; auto].
Qed.

Lemma value_error_code_missing : forall x t, value_error_code x = Some (Missing, t) -> exists m, x = XAuthFailure Missing m.
Proof. intros x t H. destruct x; simpl in H; try discriminate; inversion H; subst; eauto. Qed.

Lemma forallb_missing_codes : forall e ls cs,
  Forall2 (fun l cm => exists x, eval e l = ORaise x /\ value_error_code x = Some cm) ls cs ->
  forallb is_missing (map fst cs) = true ->
  Forall (fun l => exists m, eval e l = ORaise (XAuthFailure Missing m)) ls.
Proof.
  intros e ls cs H. induction H as [|l cm ls cs (x & Hx & Hv) _ IH]; intro Hf; [constructor|].
  simpl in Hf. apply andb_true_iff in Hf as [Hm Hr]. constructor; [|apply IH; exact Hr].
  destruct cm as [c t]. simpl in Hm. destruct c; try discriminate.
  apply value_error_code_missing in Hv as [m ->]. eauto.
Qed.

(* a composition raises AuthFailure(missing_credential) exactly when every alternative inside it saw no credential *)
Lemma eval_missing_iff : forall e c, (exists m, eval e c = ORaise (XAuthFailure Missing m)) <-> saw_none e c.
Proof.
  intros e c. induction c as [id d|ls IH|g gh|g gh i IH] using cfg_ind2.
  - simpl. tauto.
  - rewrite saw_none_chain, eval_chain. split.
    + intros [m H]. destruct (chain_go e ls) as [o|cs] eqn:Eg.
      * exfalso. exact (chain_go_early_not_af e ls o Missing m Eg H).
      * inversion H as [[Hc Hd]]. apply combine_missing in Hc as [Hne Hall].
        apply chain_go_all in Eg. split.
        -- intro Hnil. subst ls. inversion Eg; subst. apply Hne. reflexivity.
        -- apply all_saw_none_Forall. pose proof (forallb_missing_codes e ls cs Eg Hall) as Hm.
           rewrite Forall_forall in *. intros l Hl. apply IH; [exact Hl | apply Hm; exact Hl].
    + intros [Hne Hall]. apply all_saw_none_Forall in Hall.
      assert (Hgo : exists cs, chain_go e ls = CRAll cs /\ length cs = length ls /\ forallb is_missing (map fst cs) = true).
      { clear Hne. induction ls as [|l ls IHls]; [exists []; auto|].
        inversion IH as [|? ? Hl IHl]; subst. inversion Hall as [|? ? Sl Sls]; subst.
        apply Hl in Sl as [m Sl]. destruct (IHls IHl Sls) as (cs & H1 & H2 & H3).
        simpl. rewrite Sl. simpl. rewrite H1. eexists. split; [reflexivity|]. simpl. rewrite H2, H3. auto. }
      destruct Hgo as (cs & H1 & H2 & H3). rewrite H1. eexists. f_equal. f_equal.
      apply combine_missing. split; [|exact H3]. intro Hn. destruct cs; [|discriminate]. destruct ls; [congruence|discriminate].
  - simpl. destruct (e g) as [|x] eqn:Eg; split.
    + intros [m H]. discriminate.
    + intros [[m H]|[_ []]]. discriminate.
    + intros [m H]. left. exists m. exact H.
    + intros [[m H]|[H _]]; [eauto | discriminate].
  - simpl. destruct (e g) as [|x] eqn:Eg; split.
    + intro H. right. split; [reflexivity | apply IH; exact H].
    + intros [[m H]|[_ H]]; [discriminate | apply IH; exact H].
    + intros [m H]. left. exists m. exact H.
    + intros [[m H]|[H _]]; [eauto | discriminate].
Qed.

Lemma classify_missing : forall x, is_rejection x = true -> classify x = Missing ->
  (exists m, x = XAuthFailure Missing m) \/ (exists m c, x = XValue (Some Missing) m c) \/ (exists m, x = XPerm (Some Missing) m).
Proof.
  intros x Hr Hc. destruct x as [r m|d m c|d m|ra m|]; simpl in *; try discriminate.
  - subst. eauto.
  - destruct d as [r|]; [subst; eauto | discriminate].
  - destruct d as [r|]; [subst; eauto | discriminate].
Qed.

Lemma chain_401_missing : forall a e acc ls, a_auth a = CChain ls ->
  status (handle a e acc) = 401 -> h_reason (handle a e acc) = Some (reason_value Missing) ->
  (ls <> [] /\ Forall (saw_none e) ls) \/
  (exists pre l post m, ls = pre ++ l :: post /\ eval e l = ORaise (XPerm (Some Missing) m) /\
      Forall (fun p => exists x cm, eval e p = ORaise x /\ value_error_code x = Some cm) pre).
Proof.
  intros a e acc ls Ha H401 Hr.
  apply status_401 in H401 as (x & Hx & Hrej & Hh). rewrite Hh in Hr. unfold serialize_401 in Hr. cbn [h_reason] in Hr.
  assert (Hv : classify x = Missing) by (apply reason_value_inj; congruence). rewrite Ha in Hx.
  destruct (classify_missing x Hrej Hv) as [[m ->]|[(m & c & ->)|[m ->]]].
  - left. assert (Hs : saw_none e (CChain ls)) by (apply eval_missing_iff; eauto).
    rewrite saw_none_chain in Hs. destruct Hs as [H1 H2]. split; [exact H1 | apply all_saw_none_Forall; exact H2].
  - exfalso. rewrite eval_chain in Hx. destruct (chain_go e ls) as [o|cs] eqn:Eg; [|discriminate Hx].
    apply chain_go_early in Eg as (pre & l & post & _ & _ & [H3|(y & H3 & H4)] & _).
    + rewrite H3 in Hx. discriminate Hx.
    + rewrite H3 in Hx. inversion Hx; subst y. simpl in H4. discriminate H4.
  - right. rewrite eval_chain in Hx. destruct (chain_go e ls) as [o|cs] eqn:Eg; [|discriminate Hx].
    apply chain_go_early in Eg as (pre & l & post & H1 & H2 & _ & H4). rewrite Hx in H2. exists pre, l, post, m. auto.
Qed.

Lemma chain_401_missing_all : forall a e acc ls, a_auth a = CChain ls ->
  (forall id m, e id <> ORaise (XPerm (Some Missing) m)) ->
  status (handle a e acc) = 401 -> h_reason (handle a e acc) = Some (reason_value Missing) ->
  ls <> [] /\ Forall (saw_none e) ls.
Proof.
  intros a e acc ls Ha Hno H401 Hr.
  destruct (chain_401_missing a e acc ls Ha H401 Hr) as [H|(pre & l & post & m & _ & Hl & _)]; [exact H|].
  exfalso. apply eval_raise_origin in Hl as [[id Hid]|(r & m' & Hx)]; [apply (Hno id m); exact Hid | discriminate].
Qed.

(* ------------------------------------------------------------------ outage *)
Definition is_unavail (o : outcome) : Prop := exists ra m, o = ORaise (XUnavail ra m).

Lemma consulted_unavail : forall e c id, In id (consulted e c) -> is_unavail (e id) -> is_unavail (eval e c).
Proof.
  intros e c. induction c as [i d|ls IH|g gh|g gh i IH] using cfg_ind2; intros id Hin Hu.
  - simpl in Hin. destruct Hin as [<-|[]]. exact Hu.
  - rewrite consulted_chain in Hin. rewrite eval_chain.
    induction IH as [|l ls Hl _ IHls]; simpl in Hin; [destruct Hin|].
    simpl. apply in_app_or in Hin as [Hin|Hin].
    + destruct (Hl id Hin Hu) as (ra & m & El). rewrite El. simpl. exists ra, m. reflexivity.
    + destruct (eval e l) as [|x] eqn:El; [destruct Hin|].
      destruct (value_error_code x) as [cm|] eqn:Ev; [|destruct Hin].
      specialize (IHls Hin). destruct (chain_go e ls) as [o|cs]; [exact IHls|].
      destruct IHls as (ra & m & Hd). discriminate.
  - simpl in Hin. simpl. destruct Hin as [<-|Hin].
    + destruct Hu as (ra & m & Hu). rewrite Hu. exists ra, m. reflexivity.
    + destruct (e g); destruct Hin.
  - simpl in Hin. simpl. destruct Hin as [<-|Hin].
    + destruct Hu as (ra & m & Hu). rewrite Hu. exists ra, m. reflexivity.
    + destruct (e g) as [|x]; [apply (IH id Hin Hu) | destruct Hin].
Qed.

(* ------------------------------------------------------------------ client *)
Lemma parse_total_closed : forall sup maxd lo text,
  (forall k, lo = LExc k -> existsb (exck_eqb k) sup = true) ->
  exists r d h, parse_unauthorized_with sup maxd lo text = CAuthErr r d h /\ In (reason_value r) closed_values.
Proof.
  intros sup maxd lo text Hs. unfold parse_unauthorized_with.
  set (fb := if (str_eqb (map ascii_lower (firstn 9 text)) (s "<!doctype") || str_eqb (map ascii_lower (firstn 5 text)) (s "<html"))%bool
             then CAuthErr Unauthorized html_note []
             else CAuthErr Unauthorized match firstn (N.to_nat maxd) text with [] => s "unauthorized" | d => d end []).
  assert (Hfb : exists r d h, fb = CAuthErr r d h /\ In (reason_value r) closed_values).
  { unfold fb. destruct (_ || _)%bool; do 3 eexists; split; try reflexivity; apply reason_value_closed. }
  destruct lo as [v|k].
  - destruct v; try exact Hfb. do 3 eexists. split; [reflexivity | apply reason_value_closed].
  - rewrite (Hs k eq_refl). exact Hfb.
Qed.

Lemma parse_envelope : forall sup maxd r d h text,
  parse_unauthorized_with sup maxd (LVal (envelope r d h)) text = CAuthErr r d h.
Proof.
  intros sup maxd r d h text.
  destruct (envelope_fields r d h) as (l & -> & _ & Hr & Hd & Hh).
  unfold parse_unauthorized_with, get_str. rewrite Hr, Hd, Hh. simpl py_str.
  rewrite reason_of_value_value. destruct h; reflexivity.
Qed.
