(* L_WireErrSites: C07 Layer S -- at every dispatch site, over the socket family and over HTTP (every cap), the
   client's observation ends with the error of the exception the implementation raised there; a call whose
   dispatch never fails is never reported as an error.  Over M_Wire's run_pipe / run_http. *)
From Coq Require Import List NArith ZArith Bool Lia.
From VGI Require Import Corr M_Wire L_Wire L_WireHttp M_WireErr L_WireErr.
Import ListNotations.
Open Scope N_scope.

Lemma terminal_err e : terminal (err_event e) = true.
Proof. reflexivity. Qed.

Local Opaque err_event finish_refused no_data_batch empty_batch cap_exn.

(* ------------------------------------------------------------------ the shape of an observation *)
Definition ends_with (t : list event) (e : exn) : Prop := exists pre, t = pre ++ [err_event e] /\ nonterm pre = true.
Definition outcome_ok (o : option exn) (t : list event) : Prop :=
  match o with Some e => ends_with t e | None => nonterm t = true end.

Lemma nonterm_app a b : nonterm (a ++ b) = nonterm a && nonterm b.
Proof. apply forallb_app. Qed.

Lemma outcome_app pre o t : nonterm pre = true -> outcome_ok o t -> outcome_ok o (pre ++ t).
Proof.
  intros Hp H. destruct o as [e|]; cbn in *.
  - destruct H as (q & -> & Hq). exists (pre ++ q). rewrite app_assoc. split; [reflexivity|].
    rewrite nonterm_app, Hp, Hq. reflexivity.
  - rewrite nonterm_app, Hp, H. reflexivity.
Qed.

Lemma outcome_err e : outcome_ok (Some e) [err_event e].
Proof. exists []. split; reflexivity. Qed.

Lemma cut_nonterm t : nonterm t = true -> cut t = t.
Proof. intro H. rewrite <- (app_nil_r t) at 1. rewrite (cut_app_nt _ _ H). cbn. apply app_nil_r. Qed.

Lemma outcome_cut o t : outcome_ok o t -> cut t = t.
Proof.
  destruct o as [e|]; cbn.
  - intros (pre & -> & Hp). rewrite (cut_app_nt _ _ Hp), cut_single. reflexivity.
  - apply cut_nonterm.
Qed.

Lemma nonterm_no_error t : nonterm t = true -> forall x, In x t -> is_error x = false.
Proof.
  unfold nonterm. rewrite forallb_forall. intros H x Hx. specialize (H x Hx). destruct x; try reflexivity. discriminate H.
Qed.

(* ------------------------------------------------------------------ reference semantics *)
Lemma obs_prod_outcome : forall sts, steps_quiet sts = true -> outcome_ok (ff_prod sts) (obs_prod CbRecord sts None).
Proof.
  induction sts as [|x r IH]; intro Hq; [reflexivity|].
  unfold steps_quiet in Hq. simpl in Hq. apply andb_true_iff in Hq as [Hx Hr].
  cbn [obs_prod ff_prod is_zero]. rewrite (exec_prod x).
  destruct (sraise x) as [e|]; [apply outcome_err|].
  destruct (fin x).
  - rewrite (deliver_quiet _ _ Hx). cbn. rewrite nonterm_app, nonterm_logs. destruct (emit x); reflexivity.
  - destruct (emit x) as [b|]; [|apply outcome_err].
    rewrite (deliver_quiet _ _ Hx). apply outcome_app; [apply nonterm_logs|].
    change (EBatch b :: obs_prod CbRecord r (opred None)) with ([EBatch b] ++ obs_prod CbRecord r None).
    apply outcome_app; [reflexivity|]. exact (IH Hr).
Qed.

Lemma obs_exch_outcome : forall n sts, steps_quiet sts = true -> outcome_ok (ff_exch sts n) (obs_exch CbRecord sts n).
Proof.
  induction n as [|n IH]; intros sts Hq; [reflexivity|].
  destruct (hd_quiet sts Hq) as [Hh Ht].
  cbn [obs_exch ff_exch]. destruct (exec_step false (hd_error sts)) as [fs fl|e]; [|apply outcome_err].
  rewrite (deliver_quiet _ _ Hh). apply outcome_app; [apply nonterm_logs|].
  change (EBatch ?b :: ?t) with ([EBatch b] ++ t).
  apply (outcome_app [EBatch (step_batch (hd_error sts))]); [reflexivity|]. exact (IH _ Ht).
Qed.

Lemma legal_stream sp (h : bool) :
  (match ires sp with InitBadReturn => false | _ => true end && (negb h || match hdr sp with Some _ => true | None => false end)) = true ->
  ires sp <> InitBadReturn /\ (h && match hdr sp with None => true | Some _ => false end) = false.
Proof.
  intro H. apply andb_true_iff in H as [Hi Hh]. split.
  - intro E. rewrite E in Hi. discriminate.
  - destruct h; [destruct (hdr sp); [reflexivity|discriminate Hh]|reflexivity].
Qed.

Theorem observe_outcome p sc :
  legal p sc = true -> records sc = true -> no_exc_logs p = true -> complete sc = true ->
  outcome_ok (first_failure p sc) (observe p sc).
Proof.
  intros Hlegal Hrec Hq Hcomp.
  destruct p as [u|sp]; destruct sc as [c|h k a c|h n a c]; try discriminate Hlegal;
    destruct c; try discriminate Hrec; clear Hrec.
  - cbn in Hq. cbn [observe first_failure]. rewrite (deliver_quiet _ _ Hq).
    apply outcome_app; [apply nonterm_logs|]. destruct (ures_of u); [reflexivity|apply outcome_err].
  - destruct a; try discriminate Hcomp. cbn in Hq. apply andb_true_iff in Hq as [Hil Hst].
    cbn [observe first_failure]. destruct (ires sp) as [|e|] eqn:Ei; [|apply outcome_err|].
    + rewrite (deliver_quiet _ _ Hil). apply outcome_app; [apply nonterm_logs|].
      apply outcome_app; [apply nonterm_hdr|]. apply obs_prod_outcome, Hst.
    + unfold legal in Hlegal. cbn in Hlegal. rewrite Ei in Hlegal. discriminate Hlegal.
  - cbn in Hq. apply andb_true_iff in Hq as [Hil Hst].
    cbn [observe first_failure]. destruct (ires sp) as [|e|] eqn:Ei; [|apply outcome_err|].
    + rewrite (deliver_quiet _ _ Hil). apply outcome_app; [apply nonterm_logs|].
      apply outcome_app; [apply nonterm_hdr|]. apply obs_exch_outcome, Hst.
    + unfold legal in Hlegal. cbn in Hlegal. rewrite Ei in Hlegal. discriminate Hlegal.
Qed.

(* ------------------------------------------------------------------ socket family *)
Theorem pipe_outcome p sc :
  legal p sc = true -> records sc = true -> no_exc_logs p = true -> pipe_reads p sc = true -> complete sc = true ->
  outcome_ok (first_failure p sc) (run_pipe p sc).
Proof.
  intros H1 H2 H3 H4 H5. rewrite (pipe_refines p sc H1 H2 H3 H4).
  pose proof (observe_outcome p sc H1 H2 H3 H5) as Ho. rewrite (outcome_cut _ _ Ho). exact Ho.
Qed.

(* ------------------------------------------------------------------ HTTP *)
Lemma first_ferr_clean fs q : has_ferr fs = false -> first_ferr (fs ++ q) = first_ferr q.
Proof.
  induction fs as [|f r IH]; intro H; [reflexivity|]. cbn in H. apply orb_false_iff in H as [Hf Hr].
  destruct f; try discriminate Hf; cbn; exact (IH Hr).
Qed.

Lemma first_ferr_none fs : has_ferr fs = false -> first_ferr fs = None.
Proof. intro H. rewrite <- (app_nil_r fs). rewrite (first_ferr_clean _ _ H). reflexivity. Qed.

Lemma frames_quiet_app a b : frames_quiet (a ++ b) = frames_quiet a && frames_quiet b.
Proof. apply forallb_app. Qed.

Lemma frames_quiet_logs ls : quiet ls = true -> frames_quiet (map FLog ls) = true.
Proof.
  induction ls as [|m r IH]; intro H; [reflexivity|]. apply quiet_cons in H as [Hm Hr].
  cbn. rewrite Hm. exact (IH Hr).
Qed.

Lemma frames_quiet_data pend : frames_quiet (map FData pend) = true.
Proof. induction pend; [reflexivity|exact IHpend]. Qed.

Lemma has_ferr_mapdata pend : has_ferr (map FData pend) = false.
Proof. induction pend; [reflexivity|exact IHpend]. Qed.

(* all producer turns of a stream: the first error batch is the first failing process() call; quiet steps give quiet frames *)
Lemma http_frames_ferr cfg : forall sts i z,
  first_ferr (http_frames cfg sts i z) = ff_prod sts.
Proof.
  induction sts as [|x r IH]; intros i z; [reflexivity|].
  cbn [http_frames ff_prod]. destruct (exec_step true (Some x)) as [fs [|]|e] eqn:E; [| |reflexivity].
  - apply first_ferr_none. exact (exec_step_frames_clean _ _ _ _ E).
  - destruct (keep_going cfg _); rewrite (first_ferr_clean _ _ (exec_step_frames_clean _ _ _ _ E)); [apply IH|].
    cbn [first_ferr]. apply IH.
Qed.

Lemma http_frames_quiet cfg : forall sts i z, steps_quiet sts = true -> frames_quiet (http_frames cfg sts i z) = true.
Proof.
  induction sts as [|x r IH]; intros i z Hq; [reflexivity|].
  unfold steps_quiet in Hq. simpl in Hq. apply andb_true_iff in Hq as [Hx Hr].
  cbn [http_frames]. rewrite (exec_prod x). destruct (sraise x); [reflexivity|].
  destruct (fin x).
  - rewrite frames_quiet_app, (frames_quiet_logs _ Hx). destruct (emit x); reflexivity.
  - destruct (emit x) as [b|]; [|reflexivity].
    destruct (keep_going cfg _); rewrite !frames_quiet_app, (frames_quiet_logs _ Hx); cbn; apply (IH _ _ Hr).
Qed.

Lemma quiet_frame_log m r : frames_quiet (FLog m :: r) = true -> is_exc m = false /\ frames_quiet r = true.
Proof.
  cbn. intro H. apply andb_true_iff in H as [Hm Hr]. split; [|exact Hr]. destruct (is_exc m); [discriminate|reflexivity].
Qed.

(* the client's sequential view of a quiet frame sequence *)
Lemma consume_outcome : forall fs, frames_quiet fs = true -> outcome_ok (first_ferr fs) (http_consume CbRecord fs None).
Proof.
  induction fs as [|f r IH]; intro Hq; [reflexivity|].
  destruct f as [m|b|e|v|t|]; cbn [http_consume is_zero first_ferr opred option_map].
  - apply quiet_frame_log in Hq as [Hm Hr]. rewrite (log_event_quiet m Hm).
    apply (outcome_app [ELog m]); [reflexivity|exact (IH Hr)].
  - apply (outcome_app [EBatch b]); [reflexivity|]. apply IH. exact Hq.
  - apply outcome_err.
  - apply IH. exact Hq.
  - apply IH. exact Hq.
  - apply IH. exact Hq.
Qed.

(* the eagerly parsed first response *)
Lemma parse_init_outcome : forall fs pend es o, frames_quiet fs = true ->
  http_parse_init CbRecord fs pend = (es, o) ->
  match o with
  | None => outcome_ok (first_ferr fs) es /\ first_ferr fs <> None
  | Some (pend', later) => forallb is_log es = true /\ frames_quiet later = true /\ first_ferr later = first_ferr fs
  end.
Proof.
  induction fs as [|f r IH]; intros pend es o Hq H; cbn [http_parse_init] in H.
  - inversion H; subst. repeat split; reflexivity.
  - destruct f as [m|b|e|v|t|]; cbn [first_ferr].
    + apply quiet_frame_log in Hq as [Hm Hr]. rewrite (log_event_quiet m Hm) in H.
      destruct (http_parse_init CbRecord r pend) as [es' o'] eqn:E. inversion H; subst.
      specialize (IH _ _ _ Hr E). destruct o as [[pend' later]|].
      * destruct IH as (I1 & I2 & I3). repeat split; [cbn; exact I1|exact I2|exact I3].
      * destruct IH as (I1 & I2). split; [|exact I2]. apply (outcome_app [ELog m]); [reflexivity|exact I1].
    + exact (IH _ _ _ Hq H).
    + inversion H; subst. split; [apply outcome_err|discriminate].
    + exact (IH _ _ _ Hq H).
    + inversion H; subst. repeat split; try reflexivity; exact Hq.
    + exact (IH _ _ _ Hq H).
Qed.

Lemma http_exch_outcome cfg : forall n sts, steps_quiet sts = true ->
  outcome_ok (ff_exch_http cfg sts n) (http_exch cfg CbRecord sts n).
Proof.
  induction n as [|n IH]; intros sts Hq; [reflexivity|].
  destruct (hd_quiet sts Hq) as [Hh Ht].
  cbn [http_exch ff_exch_http].
  pose proof (exec_exch (hd_error sts)) as He.
  destruct (exec_step false (hd_error sts)) as [fs fl|e]; [|apply outcome_err].
  destruct He as [-> ->]. { destruct (hd_error sts); [unfold steps_quiet; simpl; unfold step_logs in Hh; rewrite Hh; reflexivity|reflexivity]. }
  destruct (over_cap cfg _); [apply outcome_err|].
  rewrite <- app_assoc. rewrite (cli_read_logs _ _ Hh). cbn [app cli_read].
  rewrite <- app_assoc. apply outcome_app; [apply nonterm_logs|]. cbn [app].
  apply (outcome_app [EBatch (step_batch (hd_error sts))]); [reflexivity|]. exact (IH _ Ht).
Qed.

Theorem http_outcome cfg p sc :
  legal p sc = true -> records sc = true -> no_exc_logs p = true -> complete sc = true ->
  outcome_ok (first_failure_http cfg p sc) (run_http cfg p sc).
Proof.
  intros Hlegal Hrec Hq Hcomp.
  assert (Hgoal : forall t, outcome_ok (first_failure_http cfg p sc) t -> outcome_ok (first_failure_http cfg p sc) (cut t)).
  { intros t Ht. rewrite (outcome_cut _ _ Ht). exact Ht. }
  unfold run_http.
  destruct p as [u|sp]; destruct sc as [c|h k a c|h n a c]; try discriminate Hlegal;
    destruct c; try discriminate Hrec; clear Hrec; apply Hgoal; clear Hgoal.
  - (* unary *)
    cbn in Hq. cbn [first_failure_http]. unfold unary_frame.
    destruct (ures_of u) as [v|e].
    + cbn [andb]. destruct (over_cap cfg _).
      * cbn [app cli_read]. apply outcome_err.
      * rewrite <- app_assoc. rewrite (cli_read_logs _ _ Hq). cbn [app cli_read]. rewrite app_nil_r.
        unfold outcome_ok. rewrite nonterm_app, nonterm_logs. reflexivity.
    + cbn [andb]. rewrite <- app_assoc. rewrite (cli_read_logs _ _ Hq). cbn [app cli_read]. rewrite app_nil_r.
      apply outcome_app; [apply nonterm_logs|apply outcome_err].
  - (* producer iterated to exhaustion *)
    destruct a; try discriminate Hcomp.
    cbn in Hq. apply andb_true_iff in Hq as [Hil Hst].
    unfold legal in Hlegal. cbn in Hlegal. rewrite andb_true_r in Hlegal.
    destruct (legal_stream sp h Hlegal) as [Hi Hnh].
    cbn [first_failure_http]. destruct (ires sp) as [|e|]; [|apply outcome_err|congruence].
    rewrite Hnh.
    set (z0 := add_sizes cfg (base cfg) (if h then [] else map FLog (ilogs sp))).
    set (fs := map FLog (ilogs sp) ++ http_frames cfg (steps sp) 0 z0).
    assert (Hfq : frames_quiet fs = true).
    { unfold fs. rewrite frames_quiet_app, (frames_quiet_logs _ Hil), (http_frames_quiet _ _ _ _ Hst). reflexivity. }
    assert (Hff : first_ferr fs = ff_prod (steps sp)).
    { unfold fs. rewrite (first_ferr_clean _ _ (has_ferr_logs _)). apply http_frames_ferr. }
    destruct (http_parse_init CbRecord fs []) as [es o] eqn:E.
    pose proof (parse_init_outcome _ _ _ _ Hfq E) as HP. rewrite <- Hff.
    destruct o as [[pend later]|].
    + destruct HP as (H1 & H2 & H3).
      apply outcome_app; [apply logs_nonterm, H1|]. apply outcome_app; [apply nonterm_hdr|].
      rewrite <- H3. rewrite <- (first_ferr_clean (map FData pend) later (has_ferr_mapdata _)).
      apply consume_outcome. rewrite frames_quiet_app, frames_quiet_data, H2. reflexivity.
    + exact (proj1 HP).
  - (* exchange *)
    cbn in Hq. apply andb_true_iff in Hq as [Hil Hst].
    unfold legal in Hlegal. cbn [script_kind_ok after_ok] in Hlegal. apply andb_true_iff in Hlegal as [Hk Ha].
    destruct (legal_stream sp h Hk) as [Hi Hnh].
    cbn [first_failure_http]. destruct (ires sp) as [|e|]; [|apply outcome_err|congruence].
    rewrite Hnh. rewrite (deliver_quiet _ _ Hil).
    apply outcome_app; [apply nonterm_logs|]. apply outcome_app; [apply nonterm_hdr|].
    apply http_exch_outcome, Hst.
Qed.

(* inside the hard cap the HTTP failure is the implementation's *)
Lemma ff_exch_http_fits cfg : forall n sts, exch_fits cfg sts n = true -> ff_exch_http cfg sts n = ff_exch sts n.
Proof.
  induction n as [|n IH]; intros sts H; [reflexivity|]. cbn [exch_fits ff_exch_http ff_exch] in *.
  destruct (exec_step false (hd_error sts)); [|reflexivity].
  apply andb_true_iff in H as [Hc Hr]. destruct (over_cap cfg _); [discriminate Hc|]. exact (IH _ Hr).
Qed.

Lemma first_failure_http_fits cfg p sc : fits cfg p sc = true -> first_failure_http cfg p sc = first_failure p sc.
Proof.
  destruct p as [u|sp]; destruct sc as [c|h k a c|h n a c]; try reflexivity; cbn [fits first_failure_http first_failure].
  - unfold unary_frame. destruct (ures_of u); [|reflexivity]. intro H. destruct (over_cap cfg _); [discriminate H|reflexivity].
  - intro H. destruct (ires sp); try reflexivity; apply ff_exch_http_fits, H.
Qed.
